(* Agg.v — models of torchjd.aggregation (all aggregators but NashMTL, which is in Nash.v).
   Each model mirrors the glue of the Python class: validation, thresholds, case splits, loops,
   `weights @ J`.  Numerical kernels (sigma_max, QP, pinv, eigh, conic solver) and random draws
   are explicit arguments ("oracles"); their contracts are hypotheses of the theorems.
   Weighted aggregators are in Gramian form:  A J = combine_rows J (omega (gram J)). *)
From Coq Require Import List Bool Arith.
From TJ Require Import Num Linalg.
Import ListNotations.

Section Agg.
Context {T : Type} (N : Num T).
Notation "a +. b" := (nadd N a b) (at level 50, left associativity).
Notation "a -. b" := (nsub N a b) (at level 50, left associativity).
Notation "a *. b" := (nmul N a b) (at level 40, left associativity).
Notation "a /. b" := (ndiv N a b) (at level 40, left associativity).
Notation "0." := (n0 N).
Notation "1." := (n1 N).

Definition mat := list (list T).
Definition vec := list T.

(* ---------- validation shared by _WeightedAggregator.forward, GradDrop, TrimmedMean ---------- *)
(* desc: number of dimensions of the tensor, and whether all entries are finite *)
Definition check_matrix (ndim : nat) (finite : bool) : res unit :=
  if negb (ndim =? 2) then Err ValueError
  else if negb finite then Err ValueError else Ok tt.

(* ---------- fixed weightings ---------- *)
Definition mean_weights (m : nat) : vec := repeat (1. /. nofnat N m) m.
Definition sum_weights (m : nat) : vec := repeat 1. m.

Definition constant_weights (w : vec) (m : nat) : res vec :=
  if length w =? m then Ok w else Err ValueError.

(* Random: softmax of a draw; e_i = exp(z_i) are given (any positive numbers) *)
Definition random_weights (e : vec) : vec :=
  let s := vsum N e in map (fun x => x /. s) e.

(* a preference vector is a _ConstantWeighting; None is the default weighting *)
Definition pref_weights (pref : option vec) (default : vec) (m : nat) : res vec :=
  match pref with
  | None => Ok default
  | Some p => constant_weights p m
  end.

Definition weighted (J : mat) (w : res vec) : res vec :=
  rbind w (fun w' => Ok (combine_rows N J w')).

Definition agg_mean (J : mat) : vec := combine_rows N J (mean_weights (length J)).
Definition agg_sum (J : mat) : vec := combine_rows N J (sum_weights (length J)).
Definition agg_constant (w : vec) (J : mat) : res vec :=
  weighted J (constant_weights w (length J)).
Definition agg_random (e : vec) (J : mat) : vec := combine_rows N J (random_weights e).

(* ---------- normalised / regularised Gramian (_gramian_utils.py) ---------- *)
(* s is the oracle for the largest singular value of J *)
Definition mscale (c : T) (M : mat) : mat := map (vscale N c) M.
Definition mzero (m : nat) : mat := repeat (vzero N m) m.
Definition normalized_gramian (G : mat) (s norm_eps : T) : mat :=
  if nltb N s norm_eps then mzero (length G) else mscale (1. /. (s *. s)) G.

Fixpoint add_diag_from (i : nat) (eps : T) (M : mat) : mat :=
  match M with
  | [] => []
  | r :: M' => vadd N r (onehot N (length r) i eps) :: add_diag_from (S i) eps M'
  end.
Definition regularize (M : mat) (eps : T) : mat := add_diag_from 0 eps M.

Definition reg_norm_gramian (G : mat) (s norm_eps reg_eps : T) : mat :=
  regularize (normalized_gramian G s norm_eps) reg_eps.

(* ---------- UPGrad / DualProj (upgrad.py, dualproj.py, _dual_cone_utils.py) ---------- *)
(* qp M u : oracle answering  argmin v^T M v  s.t.  v >= u  *)
Definition dualproj_weights (qp : mat -> vec -> vec) (G : mat) (s norm_eps reg_eps : T)
           (u : vec) : vec :=
  qp (reg_norm_gramian G s norm_eps reg_eps) u.

Fixpoint vsum_rows (n : nat) (W : mat) : vec :=
  match W with
  | [] => vzero N n
  | r :: W' => vadd N r (vsum_rows n W')
  end.

(* U = diag(u); W_i = qp M (u_i e_i); weights = sum_i W_i *)
Definition upgrad_weights (qp : mat -> vec -> vec) (G : mat) (s norm_eps reg_eps : T)
           (u : vec) : vec :=
  let m := length u in
  let M := reg_norm_gramian G s norm_eps reg_eps in
  vsum_rows m (map (fun i => qp M (onehot N m i (vget N u i))) (seq 0 m)).

Definition agg_dualproj qp (pref : option vec) (s norm_eps reg_eps : T) (J : mat) : res vec :=
  rbind (pref_weights pref (mean_weights (length J)) (length J)) (fun u =>
  Ok (combine_rows N J (dualproj_weights qp (gram N J) s norm_eps reg_eps u))).

Definition agg_upgrad qp (pref : option vec) (s norm_eps reg_eps : T) (J : mat) : res vec :=
  rbind (pref_weights pref (mean_weights (length J)) (length J)) (fun u =>
  Ok (combine_rows N J (upgrad_weights qp (gram N J) s norm_eps reg_eps u))).

(* exact KKT certificate for  min v^T M v  s.t. v >= u  (M symmetric PSD):
   w >= u,  M w >= 0,  (M w)_i (w_i - u_i) = 0 *)
Fixpoint kkt_rows (Mw w u : vec) : bool :=
  match Mw, w, u with
  | g :: Mw', x :: w', y :: u' =>
      nleb N y x && nleb N 0. g &&
      (let p := g *. (x -. y) in nleb N p 0. && nleb N 0. p) && kkt_rows Mw' w' u'
  | [], [], [] => true
  | _, _, _ => false
  end.
Definition kktb (M : mat) (u w : vec) : bool := kkt_rows (mv N M w) w u.

(* ---------- MGDA (mgda.py): Frank-Wolfe on the Gramian ---------- *)
Definition mgda_step (G : mat) (alpha : vec) : vec * T :=
  let m := length alpha in
  let Ga := mv N G alpha in
  let t := argmin N Ga in
  let e_t := onehot N m t 1. in
  let a := dot N alpha (mv N G e_t) in
  let b := dot N alpha Ga in
  let c := dot N e_t (mv N G e_t) in
  let gamma := if nleb N c a then 1.
               else if nleb N b a then 0.
               else (b -. a) /. (b +. c -. (nofnat N 2 *. a)) in
  (vadd N (vscale N (1. -. gamma) alpha) (vscale N gamma e_t), gamma).

Fixpoint mgda_loop (iters : nat) (G : mat) (epsilon : T) (alpha : vec) : vec :=
  match iters with
  | O => alpha
  | S k => let '(alpha', gamma) := mgda_step G alpha in
           if nltb N gamma epsilon then alpha' else mgda_loop k G epsilon alpha'
  end.

Definition mgda_weights (G : mat) (epsilon : T) (max_iters : nat) : vec :=
  mgda_loop max_iters G epsilon (mean_weights (length G)).

Definition agg_mgda (epsilon : T) (max_iters : nat) (J : mat) : vec :=
  combine_rows N J (mgda_weights (gram N J) epsilon max_iters).

(* ---------- PCGrad (pcgrad.py), for a given schedule of permutations ---------- *)
(* current_weights[j] -= <g_j, sum_k cw_k g_k> / G_jj  when that inner product is negative *)
Fixpoint vupd (v : vec) (j : nat) (f : T -> T) : vec :=
  match v, j with
  | [], _ => []
  | x :: v', O => f x :: v'
  | x :: v', S j' => x :: vupd v' j' f
  end.

Fixpoint pcgrad_inner (G : mat) (i : nat) (perm : list nat) (cw : vec) : vec :=
  match perm with
  | [] => cw
  | j :: perm' =>
      if j =? i then pcgrad_inner G i perm' cw
      else
        let ip := dot N (nth_row G j) cw in
        let cw' := if nltb N ip 0. then vupd cw j (fun x => x -. ip /. mget N G j j) else cw in
        pcgrad_inner G i perm' cw'
  end.

Fixpoint pcgrad_outer (G : mat) (m : nat) (i : nat) (perms : list (list nat)) (acc : vec) : vec :=
  match perms with
  | [] => acc
  | perm :: perms' =>
      let cw := pcgrad_inner G i perm (onehot N m i 1.) in
      pcgrad_outer G m (S i) perms' (vadd N acc cw)
  end.

Definition pcgrad_weights (G : mat) (perms : list (list nat)) : vec :=
  pcgrad_outer G (length G) 0 perms (vzero N (length G)).

Definition agg_pcgrad (perms : list (list nat)) (J : mat) : vec :=
  combine_rows N J (pcgrad_weights (gram N J) perms).

(* ---------- GradDrop (graddrop.py), for a given draw U (f = identity) ---------- *)
Definition graddrop_coord (leak : vec) (col : vec) (u : T) : T :=
  let s := vsum N col in
  let a := vsum N (map (nabs N) col) in
  (* P = 0.5 * (1 + s / a); for an all-zero column P is nan: both comparisons are false *)
  let defined := negb (nleb N a 0.) in
  let P := (1. /. nofnat N 2) *. (1. +. s /. a) in
  let pos := defined && nltb N u P in      (* fP > U *)
  let neg := defined && nltb N P u in      (* fP < U *)
  vsum N (map (fun '(l, x) =>
      let mi := (pos && nltb N 0. x) || (neg && nltb N x 0.) in
      (l +. (1. -. l) *. (if mi then 1. else 0.)) *. x) (List.combine leak col)).

Definition agg_graddrop (leak : option vec) (U : vec) (J : mat) : res vec :=
  let m := length J in
  match leak with
  | Some l => if negb (length l =? m) then Err ValueError
              else Ok (map (fun '(j, u) => graddrop_coord l (column N J j) u)
                           (List.combine (seq 0 (ncols J)) U))
  | None => Ok (map (fun '(j, u) => graddrop_coord (vzero N m) (column N J j) u)
                    (List.combine (seq 0 (ncols J)) U))
  end.

(* ---------- TrimmedMean (trimmed_mean.py) ---------- *)
Fixpoint insert (x : T) (l : vec) : vec :=
  match l with
  | [] => [x]
  | y :: l' => if nleb N x y then x :: l else y :: insert x l'
  end.
Fixpoint isort (l : vec) : vec :=
  match l with [] => [] | x :: l' => insert x (isort l') end.

Definition trimmed (b : nat) (col : vec) : T :=
  let kept := firstn (length col - 2 * b) (skipn b (isort col)) in
  vsum N kept /. nofnat N (length kept).

Definition agg_trimmed_mean (b : nat) (J : mat) : res vec :=
  if length J <? 1 + 2 * b then Err ValueError
  else Ok (map (fun j => trimmed b (column N J j)) (seq 0 (ncols J))).

(* ---------- Krum (krum.py) ---------- *)
(* distances from the Gramian: d_ij = sqrt(G_ii + G_jj - 2 G_ij) *)
Definition krum_dist (G : mat) (i j : nat) : T :=
  nsqrt N (mget N G i i +. mget N G j j -. (nofnat N 2 *. mget N G i j)).

Definition krum_scores (D : mat) (n_closest : nat) : vec :=
  (* topk(k = n_closest+1, smallest) per row, drop the first (the smallest), sum *)
  map (fun row => vsum N (skipn 1 (firstn (n_closest + 1) (isort row)))) D.

(* indices of the k smallest scores (stable: lowest index first among equals) *)
Fixpoint insert_idx (p : T * nat) (l : list (T * nat)) : list (T * nat) :=
  match l with
  | [] => [p]
  | q :: l' => if nleb N (fst p) (fst q) then p :: l else q :: insert_idx p l'
  end.
Definition sort_idx (v : vec) : list (T * nat) :=
  fold_right insert_idx [] (List.combine v (seq 0 (length v))).
Definition smallest_k (k : nat) (v : vec) : list nat := map snd (firstn k (sort_idx v)).

Definition krum_weights_of_dist (D : mat) (f k : nat) : vec :=
  let m := length D in
  let sel := smallest_k k (krum_scores D (m - f - 2)) in
  map (fun i => nofnat N (count_occ Nat.eq_dec sel i) /. nofnat N k) (seq 0 m).

Definition krum_distances (G : mat) : mat :=
  let m := length G in map (fun i => map (fun j => krum_dist G i j) (seq 0 m)) (seq 0 m).

Definition agg_krum (f k : nat) (J : mat) : res vec :=
  let m := length J in
  if m <? f + 3 then Err ValueError
  else if m <? k then Err ValueError
  else Ok (combine_rows N J (krum_weights_of_dist (krum_distances (gram N J)) f k)).

(* ---------- IMTL-G (imtl_g.py, after the scale-free-guard fix) ---------- *)
(* P is the oracle for pinv(G); guard: |sum v| * sum d < thr  (thr = 1e-12) *)
Definition imtlg_weights (P : mat) (G : mat) (thr : T) : vec :=
  let d := map (fun i => nsqrt N (mget N G i i)) (seq 0 (length G)) in
  let v := mv N P d in
  let v_sum := vsum N v in
  if nltb N (nabs N v_sum *. vsum N d) thr then vzero N (length v)
  else map (fun x => x /. v_sum) v.

Definition agg_imtlg (P : mat) (thr : T) (J : mat) : vec :=
  combine_rows N J (imtlg_weights P (gram N J) thr).

(* the guard before the fix (absolute): kept for the refuted-homogeneity witness *)
Definition imtlg_weights_v0 (P : mat) (G : mat) (thr : T) : vec :=
  let d := map (fun i => nsqrt N (mget N G i i)) (seq 0 (length G)) in
  let v := mv N P d in
  let v_sum := vsum N v in
  if nltb N (nabs N v_sum) thr then vzero N (length v)
  else map (fun x => x /. v_sum) v.

(* ---------- ConFIG (config.py) ---------- *)
(* B is the oracle for pinv(units), an n x m matrix given by its rows *)
Definition config_units (J : mat) : mat :=
  map (fun r => let nr := vnorm N r in
                if nleb N nr 0. then vzero N (length r) else vscale N (1. /. nr) r) J.

Definition agg_config (B : mat) (pref : option vec) (J : mat) : res vec :=
  rbind (pref_weights pref (sum_weights (length J)) (length J)) (fun w =>
  let best := mv N B w in
  let nb := vnorm N best in
  let u := if nleb N nb 0. then vzero N (length best) else vscale N (1. /. nb) best in
  let len := vsum N (map (fun g => dot N g u) J) in
  Ok (vscale N len u)).

(* ---------- CAGrad (cagrad.py), Gramian form ---------- *)
(* s: oracle sigma_max; w_opt: oracle answer of the conic program *)
Definition quadform (M : mat) (x : vec) : T := dot N x (mv N M x).

Definition cagrad_weights (G : mat) (s norm_eps c : T) (w_opt : vec) : vec :=
  let m := length G in
  let Gn := normalized_gramian G s norm_eps in
  let g0n := nsqrt N (quadform Gn (mean_weights m)) in
  let sqrt_phi := c *. g0n in
  let gwn := nsqrt N (quadform Gn w_opt) in
  if nleb N norm_eps gwn
  then vadd N (mean_weights m) (vscale N (sqrt_phi /. gwn) w_opt)
  else vzero N m.

Definition agg_cagrad (s norm_eps c : T) (w_opt : vec) (J : mat) : vec :=
  combine_rows N J (cagrad_weights (gram N J) s norm_eps c w_opt).

(* ---------- Aligned-MTL (aligned_mtl.py) ---------- *)
(* eigh oracle: eigenvalues lam (sorted in DESCENDING order already) with the matching
   eigenvectors as the rows of Vt; tol = max(lam) * m * eps *)
Definition aligned_balance (lam : vec) (Vt : mat) (tol : T) : mat :=
  let m := length lam in
  let rank := length (filter (fun l => nltb N tol l) lam) in
  if rank =? 0 then map (fun i => onehot N m i 1.) (seq 0 m)
  else
    let lam_r := firstn rank lam in
    let V_r := firstn rank Vt in
    let lamR := last lam_r 0. in
    (* B = sqrt(lamR) * sum_k (1/sqrt lam_k) v_k v_k^T *)
    map (fun i => map (fun j =>
        nsqrt N lamR *.
        vsum N (map (fun '(l, v) => (1. /. nsqrt N l) *. (vget N v i *. vget N v j))
                    (List.combine lam_r V_r))) (seq 0 m)) (seq 0 m).

Definition agg_aligned (lam : vec) (Vt : mat) (tol : T) (pref : option vec) (J : mat) : res vec :=
  rbind (pref_weights pref (mean_weights (length J)) (length J)) (fun w =>
  Ok (combine_rows N J (mv N (aligned_balance lam Vt tol) w))).

End Agg.
