(* Autojac.v — executable model of torchjd.autojac (src/torchjd/autojac).

   Environment (NOT torchjd code; validated by the correspondence checks):
     prog       the autograd program: shapes, total-derivative blocks D o i, graph reachability,
                requires_grad / expects-grad flags, the node graph (grad_fn / next_functions /
                AccumulateGrad.variable / "has saved tensors")
     ag_sweep   torch.autograd.grad as torchjd uses it (allow_unused=True): value = VJP w.r.t. the
                total derivative, None iff unreachable, RuntimeError when a tensor does not require
                grad or when a node that was already freed has to run; frees the executed nodes
                when retain_graph=False
   torchjd code (mirrored class by class, check by check, in code order):
     tens/tdict/mk_dict    TensorDict and its five sub-types with their shape checks
     tr, wf, required_keys, output_keys, run
                           Init, Diagonalize, Select, Stack, Conjunction, Composition, Accumulate,
                           Grad, Jac, _Matrixify, _AggregateMatrices, _Reshape
     backward_model, mtl_backward_model          (entry points; Traverse.v gives the defaults)

   A tensor value is kept as its rows: a batched value (Jacobians, JacobianMatrices) of full shape
   (m,)+trail has m rows, a plain value of shape trail has exactly one; each row is the row-major
   flat data (length = numel trail).  view/reshape/flatten of the trailing part are therefore the
   identity on rows and only change [t_trail] — this is what the correspondence check compares
   (full shape and flat data). *)
From Coq Require Import List Bool Arith.
From TJ Require Import Num Linalg Chunk.
Import ListNotations.

Definition tid := nat.
Definition nid := nat.

(* ---------- finite sets of keys as lists ---------- *)
Definition mem (x : nat) (l : list nat) : bool := existsb (Nat.eqb x) l.
Definition subsetb (a b : list nat) : bool := forallb (fun x => mem x b) a.
Definition set_eqb (a b : list nat) : bool := subsetb a b && subsetb b a.
Definition dedup (l : list nat) : list nat := nodup Nat.eq_dec l.
Fixpoint nodupb (l : list nat) : bool :=
  match l with [] => true | x :: l' => negb (mem x l') && nodupb l' end.
Definition inter (a b : list nat) : list nat := filter (fun x => mem x b) a.

Fixpoint list_eqb (a b : list nat) : bool :=
  match a, b with
  | [], [] => true
  | x :: a', y :: b' => (x =? y) && list_eqb a' b'
  | _, _ => false
  end.

Definition numel (s : list nat) : nat := fold_right Nat.mul 1 s.

(* split a flat row into consecutive pieces of the given lengths *)
Fixpoint split_by {A} (lens : list nat) (v : list A) : list (list A) :=
  match lens with
  | [] => []
  | n :: lens' => firstn n v :: split_by lens' (skipn n v)
  end.

Definition all_same (l : list nat) : bool :=
  match l with [] => true | x :: l' => forallb (Nat.eqb x) l' end.

(* ---------- tensors and dictionaries ---------- *)
Inductive dkind := KEmpty | KGradients | KJacobians | KGradientVectors | KJacobianMatrices | KPlain.

Definition dkind_eqb (a b : dkind) : bool :=
  match a, b with
  | KEmpty, KEmpty | KGradients, KGradients | KJacobians, KJacobians
  | KGradientVectors, KGradientVectors | KJacobianMatrices, KJacobianMatrices
  | KPlain, KPlain => true
  | _, _ => false
  end.

(* _least_common_ancestor: EmptyTensorDict inherits from the four typed dictionaries, which
   inherit from TensorDict (KPlain) *)
Definition lca (a b : dkind) : dkind :=
  match a, b with
  | KEmpty, x => x
  | x, KEmpty => x
  | _, _ => if dkind_eqb a b then a else KPlain
  end.

(* subclass order: sub a b  <->  issubclass(a, b) *)
Definition subkind (a b : dkind) : bool :=
  match a, b with
  | KEmpty, _ => true
  | _, KPlain => true
  | _, _ => dkind_eqb a b
  end.

Section Model.
Context {T : Type} (N : Num T).

Record tens := mkTens { t_batched : bool; t_trail : list nat; t_rows : list (list T) }.

Definition full_shape (v : tens) : list nat :=
  (if t_batched v then [length (t_rows v)] else []) ++ t_trail v.
Definition row0 (v : tens) : list T := nth 0 (t_rows v) [].
Definition nrows (v : tens) : nat := length (t_rows v).
Definition flat (v : tens) : list T := concat (t_rows v).

Record tdict := mkDict { dk : dkind; ditems : list (tid * tens) }.

Definition dkeys (d : tdict) : list tid := map fst (ditems d).
Fixpoint assoc {A} (k : nat) (l : list (nat * A)) : option A :=
  match l with
  | [] => None
  | (k', v) :: l' => if k =? k' then Some v else assoc k l'
  end.
Definition dget (d : tdict) (k : tid) : option tens := assoc k (ditems d).
Definition empty_tens : tens := mkTens false [] [].
Definition dget' (d : tdict) (k : tid) : tens :=
  match dget d k with Some v => v | None => empty_tens end.
Definition empty_dict : tdict := mkDict KEmpty [].

(* per-type checks of tensor_dict.py, on (key shape, value shape) pairs *)
Definition check_pair (k : dkind) (kshape vshape : list nat) : bool :=
  match k with
  | KPlain | KEmpty => true
  | KGradients => list_eqb vshape kshape
  | KJacobians => match vshape with [] => false | _ :: tl => list_eqb tl kshape end
  | KGradientVectors => match vshape with [n] => n =? numel kshape | _ => false end
  | KJacobianMatrices => match vshape with [_; n] => n =? numel kshape | _ => false end
  end.

Definition check_dict (k : dkind) (vshapes : list (list nat)) : bool :=
  match k with
  | KEmpty => match vshapes with [] => true | _ => false end
  | KJacobians | KJacobianMatrices =>
      forallb (fun s => match s with [] => false | _ => true end) vshapes
      && all_same (map (fun s => hd 0 s) vshapes)
  | _ => true
  end.

Definition shapes_ok (k : dkind) (pairs : list (list nat * list nat)) : bool :=
  check_dict k (map snd pairs) && forallb (fun p => check_pair k (fst p) (snd p)) pairs.

End Model.

Arguments mkTens {T}. Arguments t_batched {T}. Arguments t_trail {T}. Arguments t_rows {T}.
Arguments mkDict {T}. Arguments dk {T}. Arguments ditems {T}.

(* ---------- the autograd program (environment) ---------- *)
Record prog (T : Type) := mkProg {
  p_shape : tid -> list nat;
  p_D : tid -> tid -> list (list T);      (* total derivative block: numel o rows, numel i columns *)
  p_reach : tid -> tid -> bool;           (* a differentiable path leads from o down to i *)
  p_req : tid -> bool;                    (* requires_grad *)
  p_expects : tid -> bool;                (* requires_grad and (is_leaf or retains_grad) *)
  p_gfn : tid -> option nid;              (* grad_fn *)
  p_edge : tid -> option nid;             (* gradient edge: grad_fn, or AccumulateGrad of a leaf *)
  p_next : nid -> list (option nid);      (* next_functions *)
  p_acc : nid -> option tid;              (* Some t: the node is AccumulateGrad with variable t *)
  p_saved : nid -> bool;                  (* the node holds saved tensors that a sweep frees *)
  p_nnodes : nat }.
Arguments p_shape {T}. Arguments p_D {T}. Arguments p_reach {T}. Arguments p_req {T}.
Arguments p_expects {T}. Arguments p_gfn {T}. Arguments p_edge {T}. Arguments p_next {T}.
Arguments p_acc {T}. Arguments p_saved {T}. Arguments p_nnodes {T}.

(* one engine run as seen from outside *)
Record sweep := mkSweep { sw_outs : list tid; sw_ins : list tid; sw_rows : nat;
                          sw_batched : bool; sw_retain : bool }.

Section Run.
Context {T : Type} (N : Num T).
Notation tens := (@tens T).
Notation tdict := (@tdict T).

Record gval := mkG { g_sid : nat; g_val : tens }.
Record store := mkStore {
  s_grads : list (tid * gval);     (* .grad fields (newest binding first) with a storage id *)
  s_freed : list nid;              (* nodes whose saved tensors were released *)
  s_log : list sweep;              (* engine runs, newest first *)
  s_next : nat }.                  (* next fresh storage id *)

Definition sget (s : store) (t : tid) : option gval := assoc t (s_grads s).
Definition sset (s : store) (t : tid) (g : gval) : store :=
  mkStore ((t, g) :: s_grads s) (s_freed s) (s_log s) (s_next s).

Variable P : prog T.
Definition pnumel (t : tid) : nat := numel (p_shape P t).

Definition mk_dict (k : dkind) (items : list (tid * tens)) : res tdict :=
  if shapes_ok k (map (fun kv => (p_shape P (fst kv), full_shape (snd kv))) items)
  then Ok (mkDict k items) else Err ValueError.

(* ---------- the engine ---------- *)
(* nodes reachable from a list of nodes (fuelled closure) *)
Definition succs (n : nid) : list nid :=
  flat_map (fun o => match o with Some c => [c] | None => [] end) (p_next P n).
Fixpoint closure (fuel : nat) (front seen : list nid) : list nid :=
  match fuel with
  | O => seen
  | S f =>
      let new := dedup (filter (fun c => negb (mem c seen)) (flat_map succs front)) in
      match new with [] => seen | _ => closure f new (seen ++ new) end
  end.
Definition reach_nodes (roots : list nid) : list nid :=
  let r := dedup roots in closure (p_nnodes P) r r.
Definition opt_nodes (l : list (option nid)) : list nid :=
  flat_map (fun o => match o with Some c => [c] | None => [] end) l.
(* the engine runs a node iff it lies below an output and some path leads from one of its
   successors ... to the gradient edge of a requested input (exec_info.needed_); the edge
   function of an input itself only captures *)
Fixpoint needed_set (fuel : nat) (targets acc : list nid) (cands : list nid) : list nid :=
  match fuel with
  | O => acc
  | S f =>
      let acc' := filter (fun n => existsb (fun c => mem c targets || mem c acc) (succs n)) cands in
      if length acc' =? length acc then acc' else needed_set f targets acc' cands
  end.
Definition exec_nodes (outs ins : list tid) : list nid :=
  let roots := opt_nodes (map (p_gfn P) outs) in
  let below := reach_nodes roots in
  let targets := opt_nodes (map (p_edge P) ins) in
  needed_set (S (p_nnodes P)) targets [] below.

Definition ag_sweep (s : store) (outs ins : list tid) (rows : nat) (batched retain : bool)
  : res unit * store :=
  if negb (forallb (p_req P) outs && forallb (p_req P) ins) then (Err RuntimeError, s) else
  let ex := filter (p_saved P) (exec_nodes outs ins) in
  if existsb (fun n => mem n (s_freed s)) ex then (Err RuntimeError, s) else
  (Ok tt, mkStore (s_grads s)
                  (if retain then s_freed s else s_freed s ++ ex)
                  (mkSweep outs ins rows batched retain :: s_log s) (s_next s)).

(* value of torch.autograd.grad(outs, ins, grad_outputs=cots, allow_unused=True) for input i *)
Definition vjp (outs : list tid) (cots : list (list T)) (i : tid) : list T :=
  fold_right (fun (oc : tid * list T) acc => vadd N (vm N (pnumel i) (snd oc) (p_D P (fst oc) i)) acc)
             (vzero N (pnumel i)) (combine outs cots).
Definition ag_value (outs : list tid) (cots : list (list T)) (i : tid) : option (list T) :=
  if existsb (fun o => p_reach P o i) outs then Some (vjp outs cots i) else None.
(* _materialize *)
Definition materialize (i : tid) (g : option (list T)) : list T :=
  match g with Some v => v | None => vzero N (pnumel i) end.

(* ---------- transform terms ---------- *)
Inductive tr :=
| TInit (vals : list tid)
| TDiag (considered : list tid)
| TSelect (keys req : list tid)
| TStack (ts : list tr)
| TConj (ts : list tr)
| TComp (outer inner : tr)
| TAccumulate (keys : list tid)
| TGrad (outs ins : list tid) (retain : bool)
| TJac (outs ins : list tid) (chunk : option nat) (retain : bool)
| TMatrixify (keys : list tid)
| TAggMat (order : list tid)
| TReshape (keys : list tid).

Fixpoint required_keys (t : tr) : list tid :=
  match t with
  | TInit _ => []
  | TDiag c => dedup c
  | TSelect _ req => dedup req
  | TStack ts => dedup (flat_map required_keys ts)
  | TConj ts => dedup (flat_map required_keys ts)
  | TComp _ i => required_keys i
  | TAccumulate ks => dedup ks
  | TGrad outs _ _ => dedup outs
  | TJac outs _ _ _ => dedup outs
  | TMatrixify ks => dedup ks
  | TAggMat ord => dedup ord
  | TReshape ks => dedup ks
  end.

Fixpoint output_keys (t : tr) : list tid :=
  match t with
  | TInit vals => dedup vals
  | TDiag c => dedup c
  | TSelect keys _ => dedup keys
  | TStack ts => dedup (flat_map output_keys ts)
  | TConj ts => dedup (flat_map output_keys ts)
  | TComp o _ => output_keys o
  | TAccumulate _ => []
  | TGrad _ ins _ => dedup ins
  | TJac _ ins _ _ => dedup ins
  | TMatrixify ks => dedup ks
  | TAggMat ord => dedup ord
  | TReshape ks => dedup ks
  end.

(* constructor-time checks (ValueError when false); sub-terms are constructed first *)
Fixpoint wf (t : tr) : bool :=
  match t with
  | TInit _ => true
  | TDiag c => nodupb c
  | TSelect keys req => subsetb keys req
  | TStack ts =>
      forallb wf ts
      && forallb (fun t' => set_eqb (required_keys t') (dedup (flat_map required_keys ts))) ts
  | TConj ts =>
      forallb wf ts
      && forallb (fun t' => set_eqb (required_keys t') (dedup (flat_map required_keys ts))) ts
      && nodupb (flat_map output_keys ts)
  | TComp o i => wf o && wf i && set_eqb (required_keys o) (output_keys i)
  | TAccumulate _ => true
  | TGrad outs ins _ => nodupb outs && nodupb ins
  | TJac outs ins _ _ => nodupb outs && nodupb ins
  | TMatrixify _ => true
  | TAggMat ord => nodupb ord
  | TReshape _ => true
  end.

(* declared result type *)
Fixpoint out_kind (t : tr) (k : dkind) : dkind :=
  match t with
  | TInit _ => KGradients
  | TDiag _ => KJacobians
  | TSelect _ _ => k
  | TStack _ => KJacobians
  | TConj ts => fold_left (fun acc t' => lca acc (out_kind t' k)) ts KEmpty
  | TComp o i => out_kind o (out_kind i k)
  | TAccumulate _ => KEmpty
  | TGrad _ _ _ => k
  | TJac _ _ _ _ => k
  | TMatrixify _ => KJacobianMatrices
  | TAggMat ord => match ord with [] => KEmpty | _ => KGradientVectors end
  | TReshape _ => KGradients
  end.

(* ---------- the _compute methods ---------- *)
Variable A : list (list T) -> res (list T).      (* the aggregator *)

Definition plain (shape : list nat) (v : list T) : tens := mkTens false shape [v].

Definition init_compute (vals : list tid) : res tdict :=
  mk_dict KGradients (map (fun v => (v, plain (p_shape P v) (vones N (pnumel v)))) (dedup vals)).

(* row r of diag(flat) *)
Definition diag_row (flatv : list T) (r : nat) : list T :=
  onehot N (length flatv) r (nth r flatv (n0 N)).

Definition diag_compute (considered : list tid) (d : tdict) : res tdict :=
  match considered with
  | [] => Err ValueError                      (* torch.cat of an empty list *)
  | _ =>
    let flatv := concat (map (fun k => flat (dget' d k)) considered) in
    let m := length flatv in
    let lens := map pnumel considered in
    let rows := map (fun r => split_by lens (diag_row flatv r)) (seq 0 m) in
    (* rows : per row, per key, the slice *)
    mk_dict KJacobians
      (map (fun jk => (snd jk, mkTens true (p_shape P (snd jk))
                                 (map (fun pieces => nth (fst jk) pieces []) rows)))
           (combine (seq 0 (length considered)) considered))
  end.

Definition select_compute (keys : list tid) (d : tdict) : res tdict :=
  mk_dict (dk d) (map (fun k => (k, dget' d k)) (dedup keys)).

Definition stack_dicts (ds : list tdict) : res tdict :=
  let keys := dedup (flat_map dkeys ds) in
  mk_dict KJacobians
    (map (fun k => (k, mkTens true (p_shape P k)
                        (map (fun d => match dget d k with
                                       | Some v => flat v
                                       | None => vzero N (pnumel k)
                                       end) ds))) keys).

(* _union *)
Definition union_dicts (ds : list tdict) : res tdict :=
  mk_dict (fold_left (fun acc d => lca acc (dk d)) ds KEmpty) (flat_map (fun d => ditems d) ds).

Definition expects_all (ks : list tid) : bool := forallb (p_expects P) ks.

Definition tadd (a b : tens) : tens :=
  mkTens (t_batched a) (t_trail a) (map (fun ab => vadd N (fst ab) (snd ab)) (combine (t_rows a) (t_rows b))).

Definition accumulate_one (s : store) (kv : tid * tens) : store :=
  match sget s (fst kv) with
  | Some g => sset s (fst kv) (mkG (g_sid g) (tadd (g_val g) (snd kv)))       (* key.grad += value *)
  | None => mkStore ((fst kv, mkG (s_next s) (snd kv)) :: s_grads s)           (* value.clone() *)
                    (s_freed s) (s_log s) (S (s_next s))
  end.

Definition accumulate_compute (s : store) (d : tdict) : res tdict * store :=
  if expects_all (dkeys d) then (Ok empty_dict, fold_left accumulate_one (ditems d) s)
  else (Err ValueError, s).

Definition grad_compute (s : store) (outs ins : list tid) (retain : bool) (d : tdict)
  : res tdict * store :=
  match ins with
  | [] => (mk_dict (dk d) [], s)
  | _ =>
    match outs with
    | [] => (mk_dict (dk d) (map (fun i => (i, plain (p_shape P i) (vzero N (pnumel i)))) ins), s)
    | _ =>
      let cots := map (fun o => flat (dget' d o)) outs in
      match ag_sweep s outs ins 1 false retain with
      | (Err e, s') => (Err e, s')
      | (Ok _, s') =>
          (mk_dict (dk d)
             (map (fun i => (i, plain (p_shape P i) (materialize i (ag_value outs cots i)))) ins), s')
      end
    end
  end.

(* one chunk of Jac: a single engine run producing the united rows of the chunk *)
Definition jac_row (outs ins : list tid) (d : tdict) (r : nat) : list T :=
  let cots := map (fun o => nth r (t_rows (dget' d o)) []) outs in
  concat (map (fun i => materialize i (ag_value outs cots i)) ins).

Fixpoint jac_chunks (s : store) (outs ins : list tid) (d : tdict) (plan : list chunk)
  : res (list (list T)) * store :=
  match plan with
  | [] => (Ok [], s)
  | c :: plan' =>
      match ag_sweep s outs ins (c_len c) (c_batched c) (c_retain c) with
      | (Err e, s') => (Err e, s')
      | (Ok _, s') =>
          match jac_chunks s' outs ins d plan' with
          | (Err e, s'') => (Err e, s'')
          | (Ok rest, s'') => (Ok (map (jac_row outs ins d) (chunk_rows c) ++ rest), s'')
          end
      end
  end.

Definition jac_compute (s : store) (outs ins : list tid) (chunk : option nat) (retain : bool)
           (d : tdict) : res tdict * store :=
  match ins with
  | [] => (mk_dict (dk d) [], s)
  | _ =>
    match outs with
    | [] => (mk_dict (dk d) (map (fun i => (i, mkTens true (p_shape P i) [])) ins), s)
    | o0 :: _ =>
      let m := nrows (dget' d o0) in
      if (max_chunk m chunk =? 0) then (Err RuntimeError, s) else
      match jac_chunks s outs ins d (chunk_plan m chunk retain) with
      | (Err e, s') => (Err e, s')
      | (Ok matrix, s') =>
          let lens := map pnumel ins in
          let pieces := map (split_by lens) matrix in         (* _extract_sub_matrices *)
          (mk_dict (dk d)
             (map (fun ji => (snd ji, mkTens true (p_shape P (snd ji))
                                        (map (fun ps => nth (fst ji) ps []) pieces)))
                  (combine (seq 0 (length ins)) ins)), s')
      end
    end
  end.

Definition matrixify_compute (d : tdict) : res tdict :=
  mk_dict KJacobianMatrices
    (map (fun kv => (fst kv, mkTens true [numel (t_trail (snd kv))] (t_rows (snd kv)))) (ditems d)).

(* torch.cat(values, dim=1) over the ordered keys *)
Definition unite (order : list tid) (d : tdict) : list (list T) :=
  match order with
  | [] => []
  | k0 :: _ =>
      map (fun r => concat (map (fun k => nth r (t_rows (dget' d k)) []) order))
          (seq 0 (nrows (dget' d k0)))
  end.

Definition aggmat_compute (order : list tid) (d : tdict) : res tdict :=
  match order with
  | [] => Ok empty_dict
  | _ =>
    let J := unite order d in
    match A J with
    | Err e => Err e
    | Ok v =>
        let lens := map (fun k => hd 0 (t_trail (dget' d k))) order in     (* matrix.shape[1] *)
        if negb (length v =? fold_right Nat.add 0 lens) then Err ValueError else
        mk_dict KGradientVectors
          (map (fun kp => (fst kp, mkTens false [length (snd kp)] [snd kp]))
               (combine order (split_by lens v)))
    end
  end.

Definition reshape_compute (d : tdict) : res tdict :=
  mk_dict KGradients
    (map (fun kv => (fst kv, mkTens false (p_shape P (fst kv)) (t_rows (snd kv)))) (ditems d)).

Definition lift (r : res tdict) (s : store) : res tdict * store := (r, s).

(* Transform.__call__: key check, then _compute *)
Fixpoint run (t : tr) (s : store) (d : tdict) {struct t} : res tdict * store :=
  if negb (set_eqb (dkeys d) (required_keys t)) then (Err ValueError, s) else
  match t with
  | TInit vals => lift (init_compute vals) s
  | TDiag c => lift (diag_compute c d) s
  | TSelect keys _ => lift (select_compute keys d) s
  | TStack ts =>
      let fix go (ts : list tr) (s : store) : res (list tdict) * store :=
        match ts with
        | [] => (Ok [], s)
        | t' :: ts' =>
            match run t' s d with
            | (Err e, s') => (Err e, s')
            | (Ok d', s') =>
                match go ts' s' with
                | (Err e, s'') => (Err e, s'')
                | (Ok ds, s'') => (Ok (d' :: ds), s'')
                end
            end
        end in
      match go ts s with
      | (Err e, s') => (Err e, s')
      | (Ok ds, s') => (stack_dicts ds, s')
      end
  | TConj ts =>
      let fix go (ts : list tr) (s : store) : res (list tdict) * store :=
        match ts with
        | [] => (Ok [], s)
        | t' :: ts' =>
            match run t' s d with
            | (Err e, s') => (Err e, s')
            | (Ok d', s') =>
                match go ts' s' with
                | (Err e, s'') => (Err e, s'')
                | (Ok ds, s'') => (Ok (d' :: ds), s'')
                end
            end
        end in
      match go ts s with
      | (Err e, s') => (Err e, s')
      | (Ok ds, s') => (union_dicts ds, s')
      end
  | TComp o i =>
      match run i s d with
      | (Err e, s') => (Err e, s')
      | (Ok d', s') => run o s' d'
      end
  | TAccumulate _ => accumulate_compute s d
  | TGrad outs ins retain => grad_compute s outs ins retain d
  | TJac outs ins chunk retain => jac_compute s outs ins chunk retain d
  | TMatrixify _ => lift (matrixify_compute d) s
  | TAggMat ord => lift (aggmat_compute ord d) s
  | TReshape _ => lift (reshape_compute d) s
  end.

(* construct (all constructor checks), then apply *)
Definition build_and_run (t : tr) (s : store) (d : tdict) : res tdict * store :=
  if wf t then run t s d else (Err ValueError, s).

(* ---------- entry points ---------- *)
(* Aggregate(aggregator, key_order) = _Reshape << _AggregateMatrices << _Matrixify *)
Definition TAggregate (ord : list tid) : tr :=
  TComp (TReshape ord) (TComp (TAggMat ord) (TMatrixify ord)).

Definition backward_transform (tensors ord : list tid) (k : option nat) (retain : bool) : tr :=
  TComp (TAccumulate ord)
    (TComp (TAggregate ord)
       (TComp (TJac tensors ord k retain)
          (TComp (TDiag tensors) (TInit tensors)))).

(* [ord] is the iteration order of the Python set of inputs (any duplicate-free enumeration) *)
Definition backward_model (tensors ord : list tid) (k : option nat) (retain : bool) (s : store)
  : res tdict * store :=
  if negb (valid_chunk k) then (Err ValueError, s) else
  match tensors with
  | [] => (Err ValueError, s)
  | _ => build_and_run (backward_transform tensors ord k retain) s empty_dict
  end.

Definition task_transform (features params : list tid) (loss : tid) (retain : bool) : tr :=
  let to_diff := params ++ features in
  TComp (TConj [TSelect features to_diff; TComp (TAccumulate params) (TSelect params to_diff)])
    (TComp (TGrad [loss] to_diff retain) (TInit [loss])).

Definition mtl_transform (losses features : list tid) (tasks : list (list tid)) (shared : list tid)
           (k : option nat) (retain : bool) : tr :=
  TComp (TAccumulate shared)
    (TComp (TAggregate shared)
       (TComp (TJac features shared k retain)
          (TStack (map (fun pl => task_transform features (fst pl) (snd pl) retain)
                       (combine tasks losses))))).

(* explicit parameter lists; the defaulted ones are resolved by Traverse.v and passed here.
   [shared] is list(shared_params), [tasks] the lists list(task_params) *)
Definition mtl_backward_model (losses features : list tid) (tasks : list (list tid))
           (shared : list tid) (k : option nat) (retain : bool) (s : store) : res tdict * store :=
  if negb (valid_chunk k) then (Err ValueError, s) else
  match features with [] => (Err ValueError, s) | _ =>
  if negb (match inter (concat tasks) shared with [] => true | _ => false end)
  then (Err ValueError, s) else
  if negb (forallb (fun l => match p_shape P l with [] => true | _ => false end) losses)
  then (Err ValueError, s) else
  match losses with [] => (Err ValueError, s) | _ =>
  if negb (length losses =? length tasks) then (Err ValueError, s) else
  if negb (expects_all (shared ++ concat tasks)) then (Err ValueError, s) else
  build_and_run (mtl_transform losses features tasks shared k retain) s empty_dict
  end end.

End Run.
