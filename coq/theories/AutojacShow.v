(* AutojacShow.v — helpers used only by the generated cases files of the correspondence checks:
   table-driven construction of a [prog Q] and canonical printing of results. No theorems here. *)
From Coq Require Import QArith ZArith List Bool Arith.
From TJ Require Import Num Linalg NumQ Chunk Autojac Traverse.
Import ListNotations.

Definition lookup2 {A} (dflt : A) (tbl : list (nat * nat * A)) (a b : nat) : A :=
  match find (fun e => (fst (fst e) =? a)%nat && (snd (fst e) =? b)%nat) tbl with
  | Some e => snd e | None => dflt end.
Definition lookup1 {A} (dflt : A) (tbl : list A) (a : nat) : A := nth a tbl dflt.
Definition mem2 (tbl : list (nat * nat)) (a b : nat) : bool :=
  existsb (fun e => (fst e =? a)%nat && (snd e =? b)%nat) tbl.

Definition mk_prog (shapes : list (list nat)) (D : list (nat * nat * list (list Q)))
           (reach : list (nat * nat)) (req expects : list bool)
           (gfn edge : list (option nat)) (next : list (list (option nat)))
           (acc : list (option nat)) (saved : list bool) : prog Q :=
  mkProg Q (lookup1 [] shapes) (lookup2 [] D) (mem2 reach) (lookup1 false req)
         (lookup1 false expects) (lookup1 None gfn) (lookup1 None edge) (lookup1 [] next)
         (lookup1 None acc) (lookup1 false saved) (length next).

Definition mk_egraph (next : list (list (option (nat * nat)))) (onr : list nat) : egraph :=
  mkEgraph (lookup1 [] next) (lookup1 0%nat onr).

Definition err_code (e : err) : nat :=
  match e with ValueError => 1 | RuntimeError => 2 | TypeError => 3 end.
Definition res_code {A} (r : res A) : nat := match r with Ok _ => 0 | Err e => err_code e end.

Definition kind_code (k : dkind) : nat :=
  match k with KEmpty => 0 | KGradients => 1 | KJacobians => 2 | KGradientVectors => 3
             | KJacobianMatrices => 4 | KPlain => 5 end.
Definition kind_of_code (n : nat) : dkind :=
  match n with 0 => KEmpty | 1 => KGradients | 2 => KJacobians | 3 => KGradientVectors
             | 4 => KJacobianMatrices | _ => KPlain end%nat.

Definition show_tens (v : @tens Q) : list nat * list (Z * Z) := (full_shape v, vout (flat v)).
Definition show_dict (d : @tdict Q) : nat * list (nat * (list nat * list (Z * Z))) :=
  (kind_code (dk d), map (fun kv => (fst kv, show_tens (snd kv))) (ditems d)).
Definition show_rdict (r : res (@tdict Q)) : nat * (nat * list (nat * (list nat * list (Z * Z)))) :=
  match r with Ok d => (0%nat, show_dict d) | Err e => (err_code e, (0%nat, [])) end.

Definition show_grads (s : @store Q) (tids : list nat)
  : list (option (nat * (list nat * list (Z * Z)))) :=
  map (fun t => match sget s t with
                | Some g => Some (g_sid g, show_tens (g_val g))
                | None => None end) tids.
Definition show_sweep (w : sweep) := (sw_outs w, sw_ins w, sw_rows w, sw_batched w, sw_retain w).
Definition show_store (s : @store Q) (tids : list nat) :=
  (show_grads s tids, s_freed s, map show_sweep (rev (s_log s))).

Definition show_run (rs : res (@tdict Q) * @store Q) (tids : list nat) :=
  (show_rdict (fst rs), show_store (snd rs) tids).

(* building stores and dictionaries from tables *)
Definition mk_plain (shape : list nat) (data : list Q) : @tens Q := mkTens false shape [data].
Definition mk_batched (trail : list nat) (rows : list (list Q)) : @tens Q := mkTens true trail rows.
Definition mk_store (grads : list (nat * (nat * (list nat * list Q)))) (freed : list nat) (next : nat)
  : @store Q :=
  mkStore (map (fun e => (fst e, mkG (fst (snd e)) (mk_plain (fst (snd (snd e))) (snd (snd (snd e))))))
               grads) freed [] next.
