(* Chunk.v — the chunk plan of Jac._differentiate (src/torchjd/autojac/_transform/jac.py):
     max_chunk_size = chunk_size if chunk_size is not None else m
     n_chunks = ceil(m / max_chunk_size)
     for i in range(n_chunks - 1): rows [i*mcs, (i+1)*mcs), retain_graph=True
     last chunk: rows [(n_chunks-1)*mcs, m), retain_graph = caller's flag
   and of _get_jac_matrix_chunk: a chunk of exactly one row is differentiated directly
   (no vmap); any other chunk goes through torch.vmap. *)
From Coq Require Import List Bool Arith.
Import ListNotations.

Record chunk := mkChunk { c_start : nat; c_len : nat; c_batched : bool; c_retain : bool }.

Definition ceil_div (m k : nat) : nat := (m + k - 1) / k.

Definition max_chunk (m : nat) (k : option nat) : nat :=
  match k with Some k' => k' | None => m end.

Definition chunk_plan (m : nat) (k : option nat) (retain : bool) : list chunk :=
  let mc := max_chunk m k in
  let n := ceil_div m mc in
  map (fun i => mkChunk (i * mc) mc (negb (mc =? 1)) true) (seq 0 (n - 1))
  ++ [ let s := (n - 1) * mc in mkChunk s (m - s) (negb (m - s =? 1)) retain ].

Definition chunk_rows (c : chunk) : list nat := seq (c_start c) (c_len c).

(* Row-wise differentiation through a plan: each chunk yields the rows [f r] for its rows r,
   the chunks are stacked in order (torch.vstack). *)
Definition run_plan {A} (f : nat -> A) (plan : list chunk) : list A :=
  concat (map (fun c => map f (chunk_rows c)) plan).

(* the argument check of backward / mtl_backward *)
Definition valid_chunk (k : option nat) : bool :=
  match k with None => true | Some k' => 0 <? k' end.
