(* History.v — histories of calls and user edits of .grad, run against the Autojac model (C06, C13).
   A history is a list of operations; the store is threaded through.  Every call records its
   outcome (0 = ok, 1 = ValueError, 2 = RuntimeError, 3 = TypeError). *)
From Coq Require Import List Bool Arith.
From TJ Require Import Num Linalg Chunk Autojac Traverse.
Import ListNotations.

Section History.
Context {T : Type} (N : Num T) (P : prog T).

Inductive hop :=
| HBackward (A : list (list T) -> res (list T)) (tensors ord : list tid) (k : option nat) (retain : bool)
| HMtl (A : list (list T) -> res (list T)) (losses features : list tid) (tasks : list (list tid))
       (shared : list tid) (k : option nat) (retain : bool)
| HTorchGrad (outs ins : list tid) (retain : bool)   (* torch.autograd.grad / backward: engine only *)
| HZero (t : tid)                                   (* t.grad.zero_() *)
| HSetNone (t : tid)                                (* t.grad = None *)
| HEdit (t : tid) (v : list T).                     (* in-place edit of t.grad's data *)

Definition sdel (s : @store T) (t : tid) : @store T :=
  mkStore (filter (fun kv => negb (fst kv =? t)) (s_grads s)) (s_freed s) (s_log s) (s_next s).

Definition code_of {X} (r : res X) : nat :=
  match r with Ok _ => 0 | Err ValueError => 1 | Err RuntimeError => 2 | Err TypeError => 3 end.

Definition hstep (s : @store T) (h : hop) : nat * @store T :=
  match h with
  | HBackward A tensors ord k retain =>
      let r := backward_model N P A tensors ord k retain s in (code_of (fst r), snd r)
  | HMtl A losses features tasks shared k retain =>
      let r := mtl_backward_model N P A losses features tasks shared k retain s in
      (code_of (fst r), snd r)
  | HTorchGrad outs ins retain =>
      let r := ag_sweep P s outs ins 1 false retain in (code_of (fst r), snd r)
  | HZero t =>
      (0, match sget s t with
          | Some g => sset s t (mkG (g_sid g)
                        (mkTens (t_batched (g_val g)) (t_trail (g_val g))
                                (map (fun row => map (fun _ => n0 N) row) (t_rows (g_val g)))))
          | None => s end)
  | HSetNone t => (0, sdel s t)
  | HEdit t v =>
      (0, match sget s t with
          | Some g => sset s t (mkG (g_sid g) (mkTens (t_batched (g_val g)) (t_trail (g_val g)) [v]))
          | None => s end)
  end.

(* outcomes in order, final store *)
Fixpoint hrun (s : @store T) (hs : list hop) : list nat * @store T :=
  match hs with
  | [] => ([], s)
  | h :: hs' => let cs := hstep s h in
                let rest := hrun (snd cs) hs' in (fst cs :: fst rest, snd rest)
  end.

End History.
