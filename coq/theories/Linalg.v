(* Linalg.v — list-based vectors and matrices (rows) over a Num vocabulary. *)
From Coq Require Import List Bool Arith.
From TJ Require Import Num.
Import ListNotations.

Section Linalg.
Context {T : Type} (N : Num T).

Definition vsum (v : list T) : T := fold_right (nadd N) (n0 N) v.

Fixpoint dot (a b : list T) : T :=
  match a, b with
  | x :: a', y :: b' => nadd N (nmul N x y) (dot a' b')
  | _, _ => n0 N
  end.

Definition vscale (c : T) (v : list T) : list T := map (nmul N c) v.

Fixpoint vadd (a b : list T) : list T :=
  match a, b with
  | x :: a', y :: b' => nadd N x y :: vadd a' b'
  | _, _ => []
  end.

Fixpoint vsub (a b : list T) : list T :=
  match a, b with
  | x :: a', y :: b' => nsub N x y :: vsub a' b'
  | _, _ => []
  end.

Definition vzero (n : nat) : list T := repeat (n0 N) n.
Definition vones (n : nat) : list T := repeat (n1 N) n.

(* one-hot vector of length n with [x] at position i *)
Fixpoint onehot (n i : nat) (x : T) : list T :=
  match n with
  | O => []
  | S n' => match i with
            | O => x :: vzero n'
            | S i' => n0 N :: onehot n' i' x
            end
  end.

(* M x *)
Definition mv (M : list (list T)) (x : list T) : list T := map (fun r => dot r x) M.

(* w . M  =  sum_i w_i * row_i, for a matrix with n columns *)
Fixpoint vm (n : nat) (w : list T) (M : list (list T)) : list T :=
  match w, M with
  | x :: w', r :: M' => vadd (vscale x r) (vm n w' M')
  | _, _ => vzero n
  end.

Definition ncols (J : list (list T)) : nat :=
  match J with [] => 0 | r :: _ => length r end.

Definition combine_rows (J : list (list T)) (w : list T) : list T := vm (ncols J) w J.

Definition gram (J : list (list T)) : list (list T) :=
  map (fun r => map (fun s => dot r s) J) J.

Definition nth_row (M : list (list T)) (i : nat) : list T := nth i M [].
Definition mget (M : list (list T)) (i j : nat) : T := nth j (nth i M []) (n0 N).
Definition vget (v : list T) (i : nat) : T := nth i v (n0 N).

Fixpoint column (J : list (list T)) (j : nat) : list T :=
  match J with
  | [] => []
  | r :: J' => nth j r (n0 N) :: column J' j
  end.

Definition transpose (n : nat) (J : list (list T)) : list (list T) :=
  map (column J) (seq 0 n).

(* J * Q for J : m x n and Q : n x p  (rows of the product are r . Q) *)
Definition mmul (p : nat) (J Q : list (list T)) : list (list T) :=
  map (fun r => vm p r Q) J.

Definition vnorm2 (v : list T) : T := dot v v.
Definition vnorm (v : list T) : T := nsqrt N (dot v v).

Definition nabs (x : T) : T := if nltb N x (n0 N) then nopp N x else x.
Definition nmax (a b : T) : T := if nleb N a b then b else a.
Definition nmin (a b : T) : T := if nleb N a b then a else b.

Definition all_leb0 (v : list T) : bool := forallb (fun x => nleb N (n0 N) x) v.

(* index of the first minimum (torch.argmin returns the first among exact ties on CPU) *)
Fixpoint argmin_from (best : T) (bi : nat) (i : nat) (v : list T) : nat :=
  match v with
  | [] => bi
  | x :: v' => if nltb N x best then argmin_from x i (S i) v' else argmin_from best bi (S i) v'
  end.
Definition argmin (v : list T) : nat :=
  match v with [] => 0 | x :: v' => argmin_from x 0 1 v' end.

End Linalg.
