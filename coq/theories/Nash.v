(* Nash.v — the state machine of _NashMTLWeighting (src/torchjd/aggregation/nash_mtl.py).
   State that matters: step, prvs_alpha, and the cvxpy problem object (whose internal solver state
   may depend on everything it has seen: warm start).  The ECOS solve is an oracle. *)
From Coq Require Import List Bool Arith.
From TJ Require Import Num Linalg.
Import ListNotations.

Section Nash.
Context {T : Type} (N : Num T).
Variable k : nat.            (* update_weights_every *)
Variable max_norm : T.
Variable n_tasks : nat.

Record core := mkCore { step : nat; prvs : list T }.

(* if max_norm > 0 and |alpha @ J| > max_norm: alpha / norm * max_norm *)
Definition rescale (alpha : list T) (J : list (list T)) : list T :=
  if nltb N (n0 N) max_norm then
    let nrm := vnorm N (combine_rows N J alpha) in
    if nltb N max_norm nrm then map (fun a => nmul N (ndiv N a nrm) max_norm) alpha else alpha
  else alpha.

(* one call, given the answer [ans] the solver would give if it is invoked now.
   Returns (weights, new core state, was the solver invoked). *)
Definition step_core (c : core) (J : list (list T)) (ans : list T) : list T * core * bool :=
  let solve_now := (step c mod k =? 0) in
  let alpha := if solve_now then ans else prvs c in
  (rescale alpha J, mkCore (S (step c)) alpha, solve_now).

Definition init_core : core := mkCore 0 (repeat (n1 N) n_tasks).
Definition reset_core (c : core) : core := init_core.

(* before the fix: the reuse branch handed a numpy array to `alpha @ matrix` -> TypeError *)
Definition step_core_v0 (c : core) (J : list (list T)) (ans : list T) : res (list T) * core * bool :=
  let solve_now := (step c mod k =? 0) in
  let alpha := if solve_now then ans else prvs c in
  ((if solve_now then Ok (rescale alpha J) else
      if nltb N (n0 N) max_norm then Err TypeError else Ok alpha),
   mkCore (S (step c)) alpha, solve_now).

(* ---- with the problem object ---- *)
Variable PS : Type.
Variable fresh : list T -> PS.                                    (* _init_optim_problem *)
Variable solve : PS -> list (list T) -> list T -> list T * PS.    (* _solve_optimization *)
Variable normG : list (list T) -> list (list T).                  (* GTG / norm(GTG) *)

Record full := mkFull { co : core; prob : PS }.

Definition forward (st : full) (J : list (list T)) : list T * full :=
  let c := co st in
  let ps := if step c =? 0 then fresh (prvs c) else prob st in
  if step c mod k =? 0 then
    let '(ans, ps') := solve ps (normG J) (prvs c) in
    let '(out, c', _) := step_core c J ans in (out, mkFull c' ps')
  else
    let '(out, c', _) := step_core c J (prvs c) in (out, mkFull c' ps).

Inductive op := Call (J : list (list T)) | Reset.

Definition reset (st : full) : full := mkFull init_core (prob st).   (* the stale problem stays *)

Fixpoint run (st : full) (ops : list op) : list (list T) * full :=
  match ops with
  | [] => ([], st)
  | Reset :: ops' => run (reset st) ops'
  | Call J :: ops' => let '(out, st') := forward st J in
                      let '(outs, st'') := run st' ops' in (out :: outs, st'')
  end.

(* executable run with the solver's answers attached to the calls *)
Fixpoint run_core (c : core) (ops : list (option (list (list T) * list T)))
  : list (list T * bool) :=
  match ops with
  | [] => []
  | None :: ops' => run_core (reset_core c) ops'
  | Some (J, ans) :: ops' =>
      let '(out, c', b) := step_core c J ans in (out, b) :: run_core c' ops'
  end.

End Nash.

Arguments co {T PS}. Arguments prob {T PS}. Arguments mkFull {T PS}.
Arguments Call {T}. Arguments Reset {T}.
