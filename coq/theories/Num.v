(* Num.v — the vocabulary of numeric operations every numeric model function is written over.
   No laws here: the record is only a vocabulary.  Theorems are proved at the instance RN
   (NumR.v, Coq's reals); the correspondence check runs the same definitions at QN (NumQ.v). *)
From Coq Require Import List Bool Arith.
Import ListNotations.

Record Num (T : Type) := mkNum {
  n0 : T; n1 : T;
  nadd : T -> T -> T; nsub : T -> T -> T; nmul : T -> T -> T; ndiv : T -> T -> T;
  nopp : T -> T;
  nleb : T -> T -> bool;      (* a <= b *)
  nltb : T -> T -> bool;      (* a <  b *)
  nsqrt : T -> T;
  nofnat : nat -> T }.

Arguments n0 {T}. Arguments n1 {T}. Arguments nadd {T}. Arguments nsub {T}.
Arguments nmul {T}. Arguments ndiv {T}. Arguments nopp {T}. Arguments nleb {T}.
Arguments nltb {T}. Arguments nsqrt {T}. Arguments nofnat {T}.

(* Errors are compared by class only (never by message). *)
Inductive err := ValueError | RuntimeError | TypeError.
Inductive res (A : Type) := Ok (a : A) | Err (e : err).
Arguments Ok {A}. Arguments Err {A}.

Definition rbind {A B} (r : res A) (f : A -> res B) : res B :=
  match r with Ok a => f a | Err e => Err e end.

Definition err_eqb (a b : err) : bool :=
  match a, b with
  | ValueError, ValueError | RuntimeError, RuntimeError | TypeError, TypeError => true
  | _, _ => false
  end.
