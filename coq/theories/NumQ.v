(* NumQ.v — the executable instance: exact rationals, every result reduced by Qred.
   nsqrt is a fixed-precision rational square root (floor of sqrt, 2^-64 relative grid);
   functions that use it are compared with a tolerance by the correspondence check. *)
From Coq Require Import QArith ZArith List Bool.
From TJ Require Import Num.
Import ListNotations.
Local Open Scope Q_scope.

Definition Qltb (a b : Q) : bool := negb (Qle_bool b a).

Definition sqrt_prec : Z := 64%Z.

(* sqrt (n/d) = sqrt (n*d) / d ~ Z.sqrt (n*d*4^k) / (d*2^k) *)
Definition Qsqrt (x : Q) : Q :=
  let n := Qnum x in
  let d := Zpos (Qden x) in
  if (n <=? 0)%Z then 0
  else Qred (Qmake (Z.sqrt (n * d * Z.pow 4 sqrt_prec)) (Z.to_pos (d * Z.pow 2 sqrt_prec))).

Definition QN : Num Q :=
  mkNum Q 0 1
    (fun a b => Qred (a + b)) (fun a b => Qred (a - b)) (fun a b => Qred (a * b))
    (fun a b => Qred (a / b)) (fun a => Qred (- a))
    Qle_bool Qltb Qsqrt (fun n => inject_Z (Z.of_nat n)).

(* output helper: a rational as a pair (numerator, denominator) *)
Definition qout (q : Q) : Z * Z := let r := Qred q in (Qnum r, Zpos (Qden r)).
Definition vout (v : list Q) : list (Z * Z) := map qout v.
Definition mout (m : list (list Q)) : list (list (Z * Z)) := map vout m.
Definition qin (p : Z * Z) : Q := Qred (Qmake (fst p) (Z.to_pos (snd p))).
