(* NumR.v — the instance at which theorems are stated: Coq's classical reals. *)
From Coq Require Import Reals List Bool.
From TJ Require Import Num.
Import ListNotations.
Local Open Scope R_scope.

Definition Rleb (a b : R) : bool := if Rle_dec a b then true else false.
Definition Rltb (a b : R) : bool := if Rlt_dec a b then true else false.

Definition RN : Num R :=
  mkNum R 0 1 Rplus Rminus Rmult Rdiv Ropp Rleb Rltb sqrt INR.

Lemma Rleb_true a b : Rleb a b = true <-> a <= b.
Proof. unfold Rleb; destruct (Rle_dec a b); split; intros; auto; try discriminate; contradiction. Qed.
Lemma Rleb_false a b : Rleb a b = false <-> b < a.
Proof.
  unfold Rleb; destruct (Rle_dec a b) as [H|H]; split; intros H1; auto; try discriminate.
  - exfalso. apply (Rlt_irrefl a). apply Rle_lt_trans with b; assumption.
  - apply Rnot_le_lt; assumption.
Qed.
Lemma Rltb_true a b : Rltb a b = true <-> a < b.
Proof. unfold Rltb; destruct (Rlt_dec a b); split; intros; auto; try discriminate; contradiction. Qed.
Lemma Rltb_false a b : Rltb a b = false <-> b <= a.
Proof.
  unfold Rltb; destruct (Rlt_dec a b) as [H|H]; split; intros H1; auto; try discriminate.
  - exfalso. apply (Rlt_irrefl a). apply Rlt_le_trans with b; assumption.
  - apply Rnot_lt_le; assumption.
Qed.
