(* Traverse.v — model of src/torchjd/autojac/_utils.py (after the fix "exclude gradient edges, not
   grad_fn nodes"):
     _get_descendant_accumulate_grads(roots, excluded_edges)   breadth-first walk over
         grad_fn.next_functions; tensors are identified by their GRADIENT EDGE (node, output number):
         the outputs of a multi-output function share their node, and excluding one of them must
         not exclude its siblings
     _get_leaf_tensors(tensors, excluded)                      the two grad_fn-is-None rejections
   and of the defaults of backward / mtl_backward built on them.
   The graph is any finite directed graph over node ids (not only DAGs). *)
From Coq Require Import List Bool Arith.
From TJ Require Import Num Chunk Autojac.
Import ListNotations.

Definition edge := (nid * nat)%type.
Definition emem (e : edge) (l : list edge) : bool :=
  existsb (fun x => (fst x =? fst e) && (snd x =? snd e)) l.

(* the edge-level view of the autograd graph: next_functions with the output number of the child
   each edge points to, and the output number of every tensor *)
Record egraph := mkEgraph {
  e_next : nid -> list (option edge);
  e_onr : tid -> nat }.

Section Traverse.
Variable next : nid -> list (option edge).       (* next_functions *)
Variable acc : nid -> option tid.                (* AccumulateGrad.variable *)

(* for child, output_nr in node.next_functions:
     if child is None or (child, output_nr) in excluded_edges or child in visited: continue
     nodes_to_traverse.append(child); visited.add(child) *)
Fixpoint enqueue (children : list (option edge)) (excl : list edge) (queue visited : list nid)
  : list nid * list nid :=
  match children with
  | [] => (queue, visited)
  | None :: cs => enqueue cs excl queue visited
  | Some (c, k) :: cs =>
      if emem (c, k) excl || mem c visited then enqueue cs excl queue visited
      else enqueue cs excl (queue ++ [c]) (c :: visited)
  end.

(* while nodes_to_traverse: node = popleft(); collect if AccumulateGrad; enqueue children.
   None = out of fuel (never happens when fuel > |nodes|, see TraverseProofs) *)
Fixpoint bfs (fuel : nat) (excl : list edge) (queue visited result : list nid) : option (list nid) :=
  match fuel with
  | O => None
  | S f =>
      match queue with
      | [] => Some result
      | n :: q =>
          let result' := match acc n with
                         | Some _ => if mem n result then result else n :: result
                         | None => result
                         end in
          let qv := enqueue (next n) excl q visited in
          bfs f excl (fst qv) (snd qv) result'
      end
  end.

(* visited = {node for node, output_nr in roots if (node, output_nr) not in excluded_edges} *)
Definition start_queue (roots excl : list edge) : list nid :=
  dedup (map fst (filter (fun r => negb (emem r excl)) roots)).

Definition descendant_accumulate_grads (fuel : nat) (roots excl : list edge) : option (list nid) :=
  let q := start_queue roots excl in bfs fuel excl q q [].

End Traverse.

Section Defaults.
Context {T : Type} (P : prog T) (E : egraph).

Definition all_some {A} (l : list (option A)) : bool :=
  forallb (fun o => match o with Some _ => true | None => false end) l.
Definition somes {A} (l : list (option A)) : list A :=
  flat_map (fun o => match o with Some c => [c] | None => [] end) l.

(* the gradient edge (grad_fn, output_nr) of a tensor that has a grad_fn *)
Definition tensor_edges (ts : list tid) : list edge :=
  flat_map (fun t => match p_gfn P t with Some n => [(n, e_onr E t)] | None => [] end) ts.

(* _get_leaf_tensors: ValueError when a tensor (or an excluded tensor) has no grad_fn *)
Definition get_leaf_tensors (tensors excluded : list tid) : res (list tid) :=
  if negb (all_some (map (p_gfn P) tensors)) then Err ValueError else
  if negb (all_some (map (p_gfn P) excluded)) then Err ValueError else
  match descendant_accumulate_grads (e_next E) (p_acc P)
          (S (p_nnodes P + length tensors))
          (tensor_edges tensors) (tensor_edges excluded) with
  | None => Err RuntimeError          (* out of fuel: unreachable, see C12_leaf_set_total *)
  | Some accs => Ok (dedup (somes (map (p_acc P) accs)))
  end.

End Defaults.

Section DefaultEntry.
Context {T : Type} (N : Num T) (P : prog T) (E : egraph) (A : list (list T) -> res (list T)).

(* backward(tensors, A) without inputs: inputs = _get_leaf_tensors(tensors, excluded=set());
   [sigma] is the iteration order of that Python set *)
Definition backward_default (sigma : list tid -> list tid) (tensors : list tid)
           (k : option nat) (retain : bool) (s : store) : res (@tdict T) * store :=
  if negb (valid_chunk k) then (Err ValueError, s) else
  match tensors with
  | [] => (Err ValueError, s)
  | _ =>
    match get_leaf_tensors P E tensors [] with
    | Err e => (Err e, s)
    | Ok leaves => backward_model N P A tensors (sigma leaves) k retain s
    end
  end.

(* mtl_backward with optional parameter lists, in code order: chunk check; defaults (which may
   raise); then the checks of mtl_backward_model *)
Definition mtl_backward_default (sigma : list tid -> list tid)
           (losses features : list tid) (tasks : option (list (list tid)))
           (shared : option (list tid)) (k : option nat) (retain : bool) (s : store)
  : res (@tdict T) * store :=
  if negb (valid_chunk k) then (Err ValueError, s) else
  match (match shared with
         | Some l => Ok l
         | None => rbind (get_leaf_tensors P E features []) (fun l => Ok (sigma l))
         end) with
  | Err e => (Err e, s)
  | Ok sh =>
    match (match tasks with
           | Some l => Ok l
           | None =>
               fold_right (fun loss acc =>
                             rbind (get_leaf_tensors P E [loss] features) (fun l =>
                             rbind acc (fun ls => Ok (sigma l :: ls))))
                          (Ok []) losses
           end) with
    | Err e => (Err e, s)
    | Ok ts => mtl_backward_model N P A losses features ts sh k retain s
    end
  end.

End DefaultEntry.
