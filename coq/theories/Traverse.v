(* Traverse.v — model of src/torchjd/autojac/_utils.py:
     _get_descendant_accumulate_grads(roots, excluded_nodes)   breadth-first walk over
         grad_fn.next_functions with the queue / excluded-set discipline of the code
     _get_leaf_tensors(tensors, excluded)                      the two grad_fn-is-None rejections
   and of the defaults of backward / mtl_backward built on them.
   The graph is any finite directed graph over node ids (not only DAGs). *)
From Coq Require Import List Bool Arith.
From TJ Require Import Num Chunk Autojac.
Import ListNotations.

Section Traverse.
Variable next : nid -> list (option nid).        (* next_functions *)
Variable acc : nid -> option tid.                (* AccumulateGrad.variable *)

(* for child, _ in node.next_functions:
     if child is not None and child not in excluded_nodes:
        nodes_to_traverse.append(child); excluded_nodes.add(child) *)
Fixpoint enqueue (children : list (option nid)) (queue excl : list nid) : list nid * list nid :=
  match children with
  | [] => (queue, excl)
  | None :: cs => enqueue cs queue excl
  | Some c :: cs =>
      if mem c excl then enqueue cs queue excl
      else enqueue cs (queue ++ [c]) (c :: excl)
  end.

(* while nodes_to_traverse: node = popleft(); collect if AccumulateGrad; enqueue children.
   None = out of fuel (never happens when fuel > |nodes| + |roots|, see TraverseProofs) *)
Fixpoint bfs (fuel : nat) (queue excl result : list nid) : option (list nid) :=
  match fuel with
  | O => None
  | S f =>
      match queue with
      | [] => Some result
      | n :: q =>
          let result' := match acc n with
                         | Some _ => if mem n result then result else n :: result
                         | None => result
                         end in
          let qe := enqueue (next n) q excl in
          bfs f (fst qe) (snd qe) result'
      end
  end.

(* roots - excluded_nodes (as a duplicate-free list; the deque is built from a Python set) *)
Definition start_queue (roots excl : list nid) : list nid :=
  filter (fun r => negb (mem r excl)) (dedup roots).

Definition descendant_accumulate_grads (fuel : nat) (roots excl : list nid) : option (list nid) :=
  bfs fuel (start_queue roots excl) (dedup excl) [].

End Traverse.

Section Defaults.
Context {T : Type} (P : prog T).

Definition all_some {A} (l : list (option A)) : bool :=
  forallb (fun o => match o with Some _ => true | None => false end) l.
Definition somes {A} (l : list (option A)) : list A :=
  flat_map (fun o => match o with Some c => [c] | None => [] end) l.

(* _get_leaf_tensors: ValueError when a tensor (or an excluded tensor) has no grad_fn *)
Definition get_leaf_tensors (tensors excluded : list tid) : res (list tid) :=
  if negb (all_some (map (p_gfn P) tensors)) then Err ValueError else
  if negb (all_some (map (p_gfn P) excluded)) then Err ValueError else
  match descendant_accumulate_grads (p_next P) (p_acc P)
          (S (p_nnodes P + length tensors))
          (somes (map (p_gfn P) tensors)) (somes (map (p_gfn P) excluded)) with
  | None => Err RuntimeError          (* out of fuel: unreachable, see C12_fuel_suffices *)
  | Some accs => Ok (dedup (somes (map (p_acc P) accs)))
  end.

End Defaults.

Section DefaultEntry.
Context {T : Type} (N : Num T) (P : prog T) (A : list (list T) -> res (list T)).

(* backward(tensors, A) without inputs: inputs = _get_leaf_tensors(tensors, excluded=set());
   [sigma] is the iteration order of that Python set *)
Definition backward_default (sigma : list tid -> list tid) (tensors : list tid)
           (k : option nat) (retain : bool) (s : store) : res (@tdict T) * store :=
  if negb (valid_chunk k) then (Err ValueError, s) else
  match tensors with
  | [] => (Err ValueError, s)
  | _ =>
    match get_leaf_tensors P tensors [] with
    | Err e => (Err e, s)
    | Ok leaves => backward_model N P A tensors (sigma leaves) k retain s
    end
  end.

(* mtl_backward with optional parameter lists, in code order: chunk check; defaults (which may
   raise); then the checks of mtl_backward_model *)
Definition mtl_backward_default (sigma : list tid -> list tid)
           (losses features : list tid) (tasks : option (list (list tid)))
           (shared : option (list tid)) (k : option nat) (retain : bool) (s : store)
  : res (@tdict T) * store :=
  if negb (valid_chunk k) then (Err ValueError, s) else
  match (match shared with
         | Some l => Ok l
         | None => rbind (get_leaf_tensors P features []) (fun l => Ok (sigma l))
         end) with
  | Err e => (Err e, s)
  | Ok sh =>
    match (match tasks with
           | Some l => Ok l
           | None =>
               fold_right (fun loss acc =>
                             rbind (get_leaf_tensors P [loss] features) (fun l =>
                             rbind acc (fun ls => Ok (sigma l :: ls))))
                          (Ok []) losses
           end) with
    | Err e => (Err e, s)
    | Ok ts => mtl_backward_model N P A losses features ts sh k retain s
    end
  end.

End DefaultEntry.
