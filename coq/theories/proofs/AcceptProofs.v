From Coq Require Import Reals List Bool Arith Lia Lra Permutation.
From TJ Require Import Num Linalg NumR Chunk Autojac Traverse.
From TJ.proofs Require Import LinalgR ChunkProofs AutojacBasics AutojacSpec EntrySpec C20Proofs C13Proofs C01Proofs C02Proofs C15Proofs.
Import ListNotations.
Local Open Scope R_scope.

(* AcceptProofs.v — TOTALITY of the entry points: an argument-valid call whose engine runs and
   aggregator call succeed IS accepted (none of the internal dictionary / key / chunk checks can
   get stuck), and conversely the only ways an argument-valid backward call can fail. *)

(* ---------- finite sets as lists ---------- *)
Lemma acc_subsetb_In (a b : list nat) : subsetb a b = true <-> (forall x, In x a -> In x b).
Proof.
  unfold subsetb. rewrite forallb_forall. split; intros H x Hx.
  - apply mem_In. apply H. exact Hx.
  - apply mem_In. apply H. exact Hx.
Qed.

Lemma acc_set_eqb_In (a b : list nat) : (forall x, In x a <-> In x b) -> set_eqb a b = true.
Proof.
  intros H. unfold set_eqb. apply andb_true_iff.
  split; apply acc_subsetb_In; intros x Hx; apply H; exact Hx.
Qed.

Lemma acc_set_eqb_refl (a : list nat) : set_eqb a a = true.
Proof. apply acc_set_eqb_In. intros x. reflexivity. Qed.

Lemma acc_set_eqb_dedup_r (a : list nat) : set_eqb a (dedup a) = true.
Proof. apply acc_set_eqb_In. intros x. symmetry. apply c15_dedup_In. Qed.

Lemma acc_nodupb (l : list nat) : NoDup l -> nodupb l = true.
Proof. intros H. apply c20_nodupb_NoDup. exact H. Qed.

(* ---------- the shape checks of the typed dictionaries ---------- *)
Lemma acc_list_eqb_refl (l : list nat) : list_eqb l l = true.
Proof.
  induction l as [|x l IH]; [reflexivity|]. cbn [list_eqb]. rewrite Nat.eqb_refl, IH. reflexivity.
Qed.

Lemma acc_all_same_const (m : nat) (l : list nat) : (forall x, In x l -> x = m) -> all_same l = true.
Proof.
  destruct l as [|x l]; intros H; [reflexivity|]. cbn [all_same]. apply forallb_forall.
  intros y Hy. apply Nat.eqb_eq. rewrite (H x (or_introl eq_refl)). symmetry. apply H. right. exact Hy.
Qed.

Lemma acc_shapes_grad (pairs : list (list nat * list nat)) :
  (forall p, In p pairs -> snd p = fst p) -> shapes_ok KGradients pairs = true.
Proof.
  intros H. unfold shapes_ok. cbn [check_dict andb]. apply forallb_forall. intros p Hp.
  cbn [check_pair]. rewrite (H p Hp). apply acc_list_eqb_refl.
Qed.

Lemma acc_shapes_jac (m : nat) (pairs : list (list nat * list nat)) :
  (forall p, In p pairs -> snd p = m :: fst p) -> shapes_ok KJacobians pairs = true.
Proof.
  intros H. unfold shapes_ok. apply andb_true_iff. split.
  - cbn [check_dict]. apply andb_true_iff. split.
    + apply forallb_forall. intros sh Hs. apply in_map_iff in Hs. destruct Hs as (p & <- & Hp).
      rewrite (H p Hp). reflexivity.
    + apply (acc_all_same_const m). intros x Hx. rewrite map_map in Hx. apply in_map_iff in Hx.
      destruct Hx as (p & <- & Hp). rewrite (H p Hp). reflexivity.
  - apply forallb_forall. intros p Hp. cbn [check_pair]. rewrite (H p Hp). apply acc_list_eqb_refl.
Qed.

Lemma acc_shapes_jacmat (m : nat) (pairs : list (list nat * list nat)) :
  (forall p, In p pairs -> snd p = [m; numel (fst p)]) -> shapes_ok KJacobianMatrices pairs = true.
Proof.
  intros H. unfold shapes_ok. apply andb_true_iff. split.
  - cbn [check_dict]. apply andb_true_iff. split.
    + apply forallb_forall. intros sh Hs. apply in_map_iff in Hs. destruct Hs as (p & <- & Hp).
      rewrite (H p Hp). reflexivity.
    + apply (acc_all_same_const m). intros x Hx. rewrite map_map in Hx. apply in_map_iff in Hx.
      destruct Hx as (p & <- & Hp). rewrite (H p Hp). reflexivity.
  - apply forallb_forall. intros p Hp. cbn [check_pair]. rewrite (H p Hp). apply Nat.eqb_refl.
Qed.

Lemma acc_shapes_gvec (pairs : list (list nat * list nat)) :
  (forall p, In p pairs -> snd p = [numel (fst p)]) -> shapes_ok KGradientVectors pairs = true.
Proof.
  intros H. unfold shapes_ok. cbn [check_dict andb]. apply forallb_forall. intros p Hp.
  cbn [check_pair]. rewrite (H p Hp). apply Nat.eqb_refl.
Qed.

Lemma acc_dkeys_sdict kd b tr lens J l : dkeys (sdict kd b tr lens J l) = l.
Proof. unfold dkeys, sdict. cbn [ditems]. apply keys_indexed. Qed.

Section Accept.
Variable P : prog R.
Variable A : list (list R) -> res (list R).
Notation run := (run RN P A).

Lemma acc_mk_dict_ok k items :
  shapes_ok k (map (fun kv : tid * @tens R => (p_shape P (fst kv), full_shape (snd kv))) items) = true ->
  mk_dict P k items = Ok (mkDict k items).
Proof. intros H. unfold mk_dict. rewrite H. reflexivity. Qed.

(* ---------- Composition ---------- *)
Lemma acc_run_comp_eq o i s d : set_eqb (dkeys d) (required_keys i) = true ->
  run (TComp o i) s d =
  match run i s d with (Err e, s') => (Err e, s') | (Ok d', s') => run o s' d' end.
Proof. intros H. cbn [Autojac.run required_keys]. rewrite H. reflexivity. Qed.

Lemma acc_run_comp_ok o i s d d1 s1 :
  run i s d = (Ok d1, s1) -> run (TComp o i) s d = run o s1 d1.
Proof.
  intros H. rewrite acc_run_comp_eq by (eapply (run_keys_ok RN P A); exact H).
  rewrite H. reflexivity.
Qed.

Lemma acc_run_comp_err o i s d e s1 :
  set_eqb (dkeys d) (required_keys i) = true ->
  run i s d = (Err e, s1) -> run (TComp o i) s d = (Err e, s1).
Proof. intros Hk H. rewrite acc_run_comp_eq by exact Hk. rewrite H. reflexivity. Qed.

(* ---------- the leaf transforms, run FORWARD ---------- *)
Lemma acc_run_init vals s d : dkeys d = [] ->
  run (TInit vals) s d
  = (Ok (mkDict KGradients
           (map (fun v => (v, plain (p_shape P v) (vones RN (pnumel P v)))) (dedup vals))), s).
Proof.
  intros Hd. cbn [Autojac.run required_keys]. rewrite Hd, acc_set_eqb_refl. cbn [negb].
  unfold lift, init_compute. rewrite acc_mk_dict_ok; [reflexivity|].
  apply acc_shapes_grad. intros p Hp. rewrite map_map in Hp. apply in_map_iff in Hp.
  destruct Hp as (v & <- & _). reflexivity.
Qed.

Lemma acc_run_diag c s d : c <> [] -> set_eqb (dkeys d) (dedup c) = true ->
  exists d', run (TDiag c) s d = (Ok d', s).
Proof.
  intros Hc Hk. cbn [Autojac.run required_keys]. rewrite Hk. cbn [negb]. unfold lift, diag_compute.
  destruct c as [|k0 c]; [congruence|]. cbv zeta.
  rewrite acc_mk_dict_ok; [eexists; reflexivity|].
  apply (acc_shapes_jac (length (concat (map (fun k => flat (dget' d k)) (k0 :: c))))).
  intros p Hp. rewrite map_map in Hp. apply in_map_iff in Hp. destruct Hp as (jk & <- & _).
  cbn [fst snd]. unfold full_shape. cbn [t_batched t_rows t_trail]. rewrite !map_length, seq_length.
  reflexivity.
Qed.

Lemma acc_run_jac outs ins k retain s d :
  outs <> [] -> ins <> [] -> valid_chunk k = true ->
  set_eqb (dkeys d) (dedup outs) = true -> dk d = KJacobians ->
  (1 <= nrows (dget' d (hd O outs)))%nat ->
  sweep_ok P s outs ins = true ->
  exists d' s', run (TJac outs ins k retain) s d = (Ok d', s') /\
    s_freed s' = (if retain then s_freed s else s_freed s ++ saved_exec P outs ins).
Proof.
  intros Ho Hi Hk Hkeys Hdk Hm Hok. cbn [Autojac.run required_keys]. rewrite Hkeys. cbn [negb].
  unfold jac_compute.
  destruct ins as [|i0 ins]; [congruence|]. destruct outs as [|o0 outs]; [congruence|].
  cbn [hd] in Hm. cbv zeta.
  pose proof (valid_chunk_pos _ k Hk Hm) as Hmc.
  destruct (Nat.eqb_spec (max_chunk (nrows (dget' d o0)) k) 0) as [E|_]; [lia|].
  destruct (jac_chunks_engine RN P (nrows (dget' d o0)) k retain s (o0 :: outs) (i0 :: ins) d Hok)
    as [rows Hrows].
  rewrite Hrows, Hdk.
  rewrite acc_mk_dict_ok.
  - eexists. eexists. split; reflexivity.
  - apply (acc_shapes_jac (length rows)).
    intros p Hp. rewrite map_map in Hp. apply in_map_iff in Hp. destruct Hp as (ji & <- & _).
    cbn [fst snd]. unfold full_shape. cbn [t_batched t_rows t_trail]. rewrite !map_length.
    reflexivity.
Qed.

Lemma acc_run_matrixify ord J s :
  run (TMatrixify ord) s
      (sdict KJacobians true (fun jk => p_shape P (snd jk)) (map (pnumel P) ord) J ord)
  = (Ok (sdict KJacobianMatrices true (fun jk => [numel (p_shape P (snd jk))])
               (map (pnumel P) ord) J ord), s).
Proof.
  cbn [Autojac.run required_keys]. rewrite acc_dkeys_sdict, acc_set_eqb_dedup_r. cbn [negb].
  unfold lift, matrixify_compute.
  assert (E : map (fun kv : tid * @tens R =>
                     (fst kv, mkTens true [numel (t_trail (snd kv))] (t_rows (snd kv))))
                (ditems (sdict KJacobians true (fun jk => p_shape P (snd jk))
                               (map (pnumel P) ord) J ord))
              = ditems (sdict KJacobianMatrices true (fun jk => [numel (p_shape P (snd jk))])
                              (map (pnumel P) ord) J ord)).
  { unfold sdict. cbn [ditems]. rewrite map_map. reflexivity. }
  rewrite E. rewrite acc_mk_dict_ok; [reflexivity|].
  apply (acc_shapes_jacmat (length J)). intros p Hp. unfold sdict in Hp. cbn [ditems] in Hp.
  rewrite map_map in Hp. apply in_map_iff in Hp. destruct Hp as (ji & <- & _).
  cbn [fst snd]. unfold full_shape. cbn [t_batched t_rows t_trail]. rewrite !map_length.
  reflexivity.
Qed.

Lemma acc_lens_sdict ord J : NoDup ord ->
  map (fun k => hd O (t_trail (dget'
         (sdict KJacobianMatrices true (fun jk => [numel (p_shape P (snd jk))])
                (map (pnumel P) ord) J ord) k))) ord = map (pnumel P) ord.
Proof.
  intros Hnd. apply map_ext_in. intros k Hk.
  destruct (trail_sdict KJacobianMatrices true (fun jk => [numel (p_shape P (snd jk))])
              (map (pnumel P) ord) J ord k Hnd Hk) as (j & _ & ->). reflexivity.
Qed.

Lemma acc_split_lengths : forall ord (v : list R) k (p : list R), (length v = total P ord)%nat ->
  In (k, p) (combine ord (split_by (map (pnumel P) ord) v)) -> length p = pnumel P k.
Proof.
  induction ord as [|x ord IH]; intros v k p Hlen Hin; [contradiction|].
  rewrite total_cons in Hlen. cbn [map split_by combine] in Hin. destruct Hin as [Hin|Hin].
  - inversion Hin; subst. rewrite firstn_length. lia.
  - apply (IH (skipn (pnumel P x) v) k p); [|exact Hin]. rewrite skipn_length. lia.
Qed.

Lemma acc_run_aggmat ord J s : NoDup ord -> ord <> [] -> wfmat (total P ord) J ->
  run (TAggMat ord) s
      (sdict KJacobianMatrices true (fun jk => [numel (p_shape P (snd jk))]) (map (pnumel P) ord) J ord)
  = match A J with
    | Err e => (Err e, s)
    | Ok v =>
        if negb (length v =? total P ord)%nat then (Err ValueError, s) else
        (mk_dict P KGradientVectors
           (map (fun kp => (fst kp, mkTens false [length (snd kp)] [snd kp]))
                (combine ord (split_by (map (pnumel P) ord) v))), s)
    end.
Proof.
  intros Hnd Hne HJ. cbn [Autojac.run required_keys].
  rewrite acc_dkeys_sdict, acc_set_eqb_dedup_r. cbn [negb]. unfold lift.
  assert (E : forall d : @tdict R, aggmat_compute P A ord d =
     match A (unite ord d) with
     | Err e => Err e
     | Ok v =>
        if negb (length v =? fold_right Nat.add O (map (fun k => hd O (t_trail (dget' d k))) ord))%nat
        then Err ValueError else
        mk_dict P KGradientVectors
          (map (fun kp => (fst kp, mkTens false [length (snd kp)] [snd kp]))
               (combine ord (split_by (map (fun k => hd O (t_trail (dget' d k))) ord) v)))
     end).
  { intros d. destruct ord as [|k0 ord']; [congruence | reflexivity]. }
  rewrite E. rewrite acc_lens_sdict by exact Hnd.
  rewrite unite_sdict by (first [assumption | apply map_length]).
  destruct (A J) as [v|e]; [|reflexivity].
  change (fold_right Nat.add O (map (pnumel P) ord)) with (total P ord).
  destruct (negb (length v =? total P ord)%nat); reflexivity.
Qed.

Lemma acc_run_reshape ks s d : set_eqb (dkeys d) (dedup ks) = true ->
  run (TReshape ks) s d
  = (Ok (mkDict KGradients
           (map (fun kv => (fst kv, mkTens false (p_shape P (fst kv)) (t_rows (snd kv)))) (ditems d))), s).
Proof.
  intros Hk. cbn [Autojac.run required_keys]. rewrite Hk. cbn [negb]. unfold lift, reshape_compute.
  rewrite acc_mk_dict_ok; [reflexivity|].
  apply acc_shapes_grad. intros p Hp. rewrite map_map in Hp. apply in_map_iff in Hp.
  destruct Hp as (kv & <- & _). reflexivity.
Qed.

Lemma acc_run_accumulate ks s d :
  set_eqb (dkeys d) (dedup ks) = true -> expects_all P (dkeys d) = true ->
  run (TAccumulate ks) s d = (Ok empty_dict, fold_left (accumulate_one RN) (ditems d) s).
Proof.
  intros Hk He. cbn [Autojac.run required_keys]. rewrite Hk. cbn [negb]. unfold accumulate_compute.
  rewrite He. reflexivity.
Qed.

(* ---------- Aggregate = Reshape . AggregateMatrices . Matrixify, forward ---------- *)
Lemma acc_aggregate_eq ord J s : NoDup ord -> ord <> [] -> wfmat (total P ord) J ->
  run (TAggregate ord) s
      (sdict KJacobians true (fun jk => p_shape P (snd jk)) (map (pnumel P) ord) J ord)
  = match run (TAggMat ord) s
            (sdict KJacobianMatrices true (fun jk => [numel (p_shape P (snd jk))])
                   (map (pnumel P) ord) J ord) with
    | (Err e, s') => (Err e, s')
    | (Ok d', s') => run (TReshape ord) s' d'
    end.
Proof.
  intros Hnd Hne HJ. unfold TAggregate.
  rewrite acc_run_comp_eq.
  2:{ cbn [required_keys]. rewrite acc_dkeys_sdict. apply acc_set_eqb_dedup_r. }
  rewrite acc_run_comp_eq.
  2:{ cbn [required_keys]. rewrite acc_dkeys_sdict. apply acc_set_eqb_dedup_r. }
  rewrite acc_run_matrixify. reflexivity.
Qed.

Lemma acc_aggregate_ok ord J s v :
  NoDup ord -> ord <> [] -> wfmat (total P ord) J ->
  A J = Ok v -> length v = total P ord ->
  exists d5, run (TAggregate ord) s
               (sdict KJacobians true (fun jk => p_shape P (snd jk)) (map (pnumel P) ord) J ord)
             = (Ok d5, s) /\ dkeys d5 = ord.
Proof.
  intros Hnd Hne HJ HA Hlen. rewrite acc_aggregate_eq by assumption.
  rewrite acc_run_aggmat by assumption. rewrite HA, Hlen, Nat.eqb_refl. cbn [negb].
  assert (Hlen2 : length ord = length (split_by (map (pnumel P) ord) v)).
  { rewrite split_by_length, map_length. reflexivity. }
  rewrite acc_mk_dict_ok.
  - rewrite acc_run_reshape.
    + eexists. split; [reflexivity|]. unfold dkeys. cbn [ditems]. rewrite !map_map. cbn [fst].
      exact (map_fst_combine_eq ord _ Hlen2).
    + unfold dkeys. cbn [ditems]. unfold tid in *.
      rewrite (keys_combine_items (fun kp : nat * list R => mkTens false [length (snd kp)] [snd kp])
                 ord _ Hlen2).
      apply acc_set_eqb_dedup_r.
  - apply acc_shapes_gvec. intros p Hp. rewrite map_map in Hp. apply in_map_iff in Hp.
    destruct Hp as ([k piece] & <- & Hin). cbn [fst snd]. unfold full_shape.
    cbn [t_batched t_trail app]. rewrite (acc_split_lengths ord v k piece Hlen Hin). reflexivity.
Qed.

Lemma acc_aggregate_err ord J s e :
  NoDup ord -> ord <> [] -> wfmat (total P ord) J -> A J = Err e ->
  run (TAggregate ord) s
      (sdict KJacobians true (fun jk => p_shape P (snd jk)) (map (pnumel P) ord) J ord)
  = (Err e, s).
Proof.
  intros Hnd Hne HJ HA. rewrite acc_aggregate_eq by assumption.
  rewrite acc_run_aggmat by assumption. rewrite HA. reflexivity.
Qed.

(* ---------- backward ---------- *)
Lemma acc_wf_backward tensors ord k retain :
  NoDup tensors -> NoDup ord -> wf (backward_transform tensors ord k retain) = true.
Proof.
  intros Ht Ho. unfold backward_transform, TAggregate. cbn [wf required_keys output_keys].
  rewrite !acc_set_eqb_refl, (acc_nodupb _ Ht), (acc_nodupb _ Ho). reflexivity.
Qed.

Lemma acc_init_diag_ok tensors s : NoDup tensors -> tensors <> [] ->
  run (TComp (TDiag tensors) (TInit tensors)) s empty_dict
  = (Ok (sdict KJacobians true (fun jk => p_shape P (snd jk)) (map (pnumel P) tensors)
               (eye (total P tensors)) tensors), s).
Proof.
  intros Hnd Hne.
  assert (H : exists d1, run (TComp (TDiag tensors) (TInit tensors)) s empty_dict = (Ok d1, s)).
  { rewrite (acc_run_comp_ok _ _ _ _ _ _ (acc_run_init tensors s empty_dict eq_refl)).
    apply acc_run_diag; [exact Hne|]. unfold dkeys. cbn [ditems]. rewrite keys_of_items.
    apply acc_set_eqb_refl. }
  destruct H as [d1 H1]. destruct (init_diag_run P A tensors s d1 s Hnd H1) as [_ ->]. exact H1.
Qed.

(* everything up to and including the Jac stage *)
Lemma acc_backward_front tensors ord k retain s :
  wf_prog P -> valid_chunk k = true -> tensors <> [] -> NoDup tensors -> NoDup ord -> ord <> [] ->
  (1 <= total P tensors)%nat -> sweep_ok P s tensors ord = true ->
  exists s2,
    run (TComp (TJac tensors ord k retain) (TComp (TDiag tensors) (TInit tensors))) s empty_dict
    = (Ok (sdict KJacobians true (fun jk => p_shape P (snd jk)) (map (pnumel P) ord)
                 (jacobian P tensors ord) ord), s2).
Proof.
  intros Hwf Hk Hte Hnt Hno Hoe Hm Hok.
  rewrite (acc_run_comp_ok _ _ _ _ _ _ (acc_init_diag_ok tensors s Hnt Hte)).
  destruct (acc_run_jac tensors ord k retain s
              (sdict KJacobians true (fun jk => p_shape P (snd jk)) (map (pnumel P) tensors)
                     (eye (total P tensors)) tensors)) as (d2 & s2 & H2 & _); try assumption.
  - rewrite acc_dkeys_sdict. apply acc_set_eqb_dedup_r.
  - reflexivity.
  - rewrite nrows_sdict_hd, length_eye by assumption. exact Hm.
  - destruct (jac_run P A tensors ord k retain s d2 s2 Hwf Hnt Hno Hte Hoe Hk Hm H2) as [_ ->].
    exists s2. exact H2.
Qed.

Lemma acc_backward_model_eq tensors ord k retain s :
  valid_chunk k = true -> tensors <> [] -> NoDup tensors -> NoDup ord ->
  backward_model RN P A tensors ord k retain s
  = run (backward_transform tensors ord k retain) s empty_dict.
Proof.
  intros Hk Hte Hnt Hno. unfold backward_model, build_and_run. rewrite Hk. cbn [negb].
  rewrite (acc_wf_backward tensors ord k retain Hnt Hno).
  destruct tensors as [|t0 tl]; [congruence | reflexivity].
Qed.

Lemma backward_accepts : forall tensors ord k retain s v,
  wf_prog P ->
  valid_chunk k = true -> tensors <> [] -> NoDup tensors -> NoDup ord -> ord <> [] ->
  (1 <= total P tensors)%nat ->
  expects_all P ord = true ->
  sweep_ok P s tensors ord = true ->
  A (jacobian P tensors ord) = Ok v -> length v = total P ord ->
  exists d' s', backward_model RN P A tensors ord k retain s = (Ok d', s').
Proof.
  intros tensors ord k retain s v Hwf Hk Hte Hnt Hno Hoe Hm Hex Hok HA Hlen.
  rewrite acc_backward_model_eq by assumption. unfold backward_transform.
  destruct (acc_backward_front tensors ord k retain s Hwf Hk Hte Hnt Hno Hoe Hm Hok) as [s2 H2].
  destruct (acc_aggregate_ok ord (jacobian P tensors ord) s2 v Hno Hoe
              (wfmat_jacobian P tensors ord Hwf) HA Hlen) as (d5 & H5 & Hkeys).
  assert (HX : run (TComp (TAggregate ord)
                      (TComp (TJac tensors ord k retain) (TComp (TDiag tensors) (TInit tensors))))
                   s empty_dict = (Ok d5, s2)).
  { rewrite (acc_run_comp_ok _ _ _ _ _ _ H2). exact H5. }
  rewrite (acc_run_comp_ok _ _ _ _ _ _ HX).
  rewrite acc_run_accumulate.
  - eexists. eexists. reflexivity.
  - rewrite Hkeys. apply acc_set_eqb_dedup_r.
  - rewrite Hkeys. exact Hex.
Qed.

Lemma backward_failure_causes : forall tensors ord k retain s e s',
  wf_prog P -> backward_args_ok tensors ord k retain = true -> ord <> [] ->
  (1 <= total P tensors)%nat ->
  backward_model RN P A tensors ord k retain s = (Err e, s') ->
  sweep_ok P s tensors ord = false \/
  A (jacobian P tensors ord) = Err e \/
  (exists v, A (jacobian P tensors ord) = Ok v /\ length v <> total P ord) \/
  expects_all P ord = false.
Proof.
  intros tensors ord k retain s e s' Hwf Hargs Hoe Hm Hfail.
  unfold backward_args_ok in Hargs. apply andb_true_iff in Hargs. destruct Hargs as [Hargs Hwft].
  apply andb_true_iff in Hargs. destruct Hargs as [Hk Hte0].
  assert (Hte : tensors <> []) by (intros ->; discriminate Hte0).
  apply wf_backward in Hwft. destruct Hwft as [Hnt Hno].
  apply nodupb_NoDup in Hnt. apply nodupb_NoDup in Hno.
  destruct (sweep_ok P s tensors ord) eqn:Hok; [|left; reflexivity]. right.
  destruct (A (jacobian P tensors ord)) as [v|e1] eqn:HA.
  - right.
    destruct (Nat.eq_dec (length v) (total P ord)) as [Hlen|Hlen].
    + right. destruct (expects_all P ord) eqn:Hex; [|reflexivity]. exfalso.
      destruct (backward_accepts tensors ord k retain s v Hwf Hk Hte Hnt Hno Hoe Hm Hex Hok HA Hlen)
        as (d' & s1 & Hacc).
      rewrite Hacc in Hfail. discriminate Hfail.
    + left. exists v. split; [reflexivity | exact Hlen].
  - left. f_equal.
    rewrite acc_backward_model_eq in Hfail by assumption. unfold backward_transform in Hfail.
    destruct (acc_backward_front tensors ord k retain s Hwf Hk Hte Hnt Hno Hoe Hm Hok) as [s2 H2].
    assert (HX : run (TComp (TAggregate ord)
                        (TComp (TJac tensors ord k retain) (TComp (TDiag tensors) (TInit tensors))))
                     s empty_dict = (Err e1, s2)).
    { rewrite (acc_run_comp_ok _ _ _ _ _ _ H2).
      apply acc_aggregate_err; try assumption. apply wfmat_jacobian. exact Hwf. }
    assert (Hkc : set_eqb (dkeys (@empty_dict R))
                    (required_keys (TComp (TAggregate ord)
                       (TComp (TJac tensors ord k retain) (TComp (TDiag tensors) (TInit tensors)))))
                  = true) by reflexivity.
    rewrite (acc_run_comp_err _ _ _ _ _ _ Hkc HX) in Hfail.
    inversion Hfail. reflexivity.
Qed.

(* ---------- mtl_backward: the task transforms, run FORWARD ---------- *)
Lemma acc_run_grad outs ins retain s d :
  outs <> [] -> ins <> [] -> set_eqb (dkeys d) (dedup outs) = true -> dk d = KGradients ->
  sweep_ok P s outs ins = true ->
  exists s', run (TGrad outs ins retain) s d
    = (Ok (mkDict KGradients
             (map (fun i => (i, plain (p_shape P i)
                     (materialize RN P i
                        (ag_value RN P outs (map (fun o => flat (dget' d o)) outs) i)))) ins)), s').
Proof.
  intros Ho Hi Hkeys Hdk Hok. cbn [Autojac.run required_keys]. rewrite Hkeys. cbn [negb].
  unfold grad_compute. destruct ins as [|i0 ins]; [congruence|]. destruct outs as [|o0 outs]; [congruence|].
  cbv zeta. rewrite ag_sweep_spec, Hok, Hdk. rewrite acc_mk_dict_ok.
  - eexists. reflexivity.
  - apply acc_shapes_grad. intros p Hp. rewrite map_map in Hp. apply in_map_iff in Hp.
    destruct Hp as (i & <- & _). reflexivity.
Qed.

Lemma acc_run_select keys req s d :
  set_eqb (dkeys d) (dedup req) = true -> dk d = KGradients ->
  (forall k, In k keys -> full_shape (dget' d k) = p_shape P k) ->
  run (TSelect keys req) s d
  = (Ok (mkDict KGradients (map (fun k => (k, dget' d k)) (dedup keys))), s).
Proof.
  intros Hk Hdk Hsh. cbn [Autojac.run required_keys]. rewrite Hk. cbn [negb].
  unfold lift, select_compute. rewrite Hdk. rewrite acc_mk_dict_ok; [reflexivity|].
  apply acc_shapes_grad. intros p Hp. rewrite map_map in Hp. apply in_map_iff in Hp.
  destruct Hp as (k0 & <- & Hin). cbn [fst snd]. apply Hsh. apply c15_dedup_In. exact Hin.
Qed.

Lemma acc_run_conj features ps (g : tid -> list R) s :
  NoDup (ps ++ features) -> expects_all P ps = true ->
  exists dt st,
    run (TConj [TSelect features (ps ++ features);
                TComp (TAccumulate ps) (TSelect ps (ps ++ features))]) s
        (mkDict KGradients (map (fun i => (i, plain (p_shape P i) (g i))) (ps ++ features)))
    = (Ok dt, st).
Proof.
  intros Hnd Hex.
  assert (Hnp : NoDup ps) by (eapply NoDup_app_l; exact Hnd).
  set (d1 := mkDict KGradients (map (fun i => (i, plain (p_shape P i) (g i))) (ps ++ features))).
  assert (Hkeys : dkeys d1 = ps ++ features).
  { unfold dkeys, d1. cbn [ditems]. apply keys_of_items. }
  assert (Hsh : forall k, In k (ps ++ features) -> full_shape (dget' d1 k) = p_shape P k).
  { intros k Hk. unfold d1.
    rewrite (dget'_items (fun i => plain (p_shape P i) (g i)) KGradients _ k Hk). reflexivity. }
  assert (Hreq : set_eqb (dkeys d1)
                   (required_keys (TConj [TSelect features (ps ++ features);
                                          TComp (TAccumulate ps) (TSelect ps (ps ++ features))]))
                 = true).
  { rewrite Hkeys. cbn [required_keys flat_map app]. apply acc_set_eqb_In. intros x.
    repeat (rewrite ?c15_dedup_In, ?in_app_iff). cbn [In]. tauto. }
  assert (Hsel1 : run (TSelect features (ps ++ features)) s d1
                  = (Ok (mkDict KGradients (map (fun k => (k, dget' d1 k)) (dedup features))), s)).
  { apply acc_run_select.
    - rewrite Hkeys. apply acc_set_eqb_dedup_r.
    - reflexivity.
    - intros k Hk. apply Hsh. apply in_or_app. right. exact Hk. }
  assert (Hsel2 : run (TSelect ps (ps ++ features)) s d1
                  = (Ok (mkDict KGradients (map (fun k => (k, dget' d1 k)) (dedup ps))), s)).
  { apply acc_run_select.
    - rewrite Hkeys. apply acc_set_eqb_dedup_r.
    - reflexivity.
    - intros k Hk. apply Hsh. apply in_or_app. left. exact Hk. }
  rewrite (run_conj_eq RN P A). rewrite Hreq. cbn [negb].
  rewrite (run_list_cons RN P A). rewrite Hsel1.
  rewrite (run_list_cons RN P A). rewrite (acc_run_comp_ok _ _ _ _ _ _ Hsel2).
  rewrite acc_run_accumulate.
  - rewrite run_list_nil. unfold union_dicts.
    cbn [fold_left flat_map dk ditems empty_dict lca app]. rewrite !app_nil_r.
    rewrite acc_mk_dict_ok; [eexists; eexists; reflexivity|].
    apply acc_shapes_grad. intros p Hp. rewrite map_map in Hp. apply in_map_iff in Hp.
    destruct Hp as (k0 & <- & Hin). cbn [fst snd]. apply Hsh. apply in_or_app. right.
    apply c15_dedup_In. exact Hin.
  - unfold dkeys. cbn [ditems]. rewrite keys_of_items. apply acc_set_eqb_refl.
  - unfold dkeys. cbn [ditems]. rewrite keys_of_items. rewrite (dedup_NoDup _ Hnp). exact Hex.
Qed.

Lemma acc_task_run features ps loss retain s :
  features <> [] -> NoDup (ps ++ features) -> expects_all P ps = true ->
  sweep_ok P s [loss] (ps ++ features) = true ->
  exists dt st, run (task_transform features ps loss retain) s empty_dict = (Ok dt, st).
Proof.
  intros Hfe Hnd Hex Hok. unfold task_transform. cbv zeta.
  assert (Hne : ps ++ features <> []).
  { intros E. apply app_eq_nil in E. destruct E as [_ E]. exact (Hfe E). }
  pose proof (acc_run_init [loss] s empty_dict eq_refl) as H0.
  destruct (acc_run_grad [loss] (ps ++ features) retain s
              (mkDict KGradients
                 (map (fun v => (v, plain (p_shape P v) (vones RN (pnumel P v)))) (dedup [loss]))))
    as (s1 & H1); try assumption.
  - discriminate.
  - unfold dkeys. cbn [ditems]. rewrite keys_of_items. apply acc_set_eqb_refl.
  - reflexivity.
  - assert (HG : run (TComp (TGrad [loss] (ps ++ features) retain) (TInit [loss])) s empty_dict
                 = (Ok (mkDict KGradients
                          (map (fun i => (i, plain (p_shape P i)
                             (materialize RN P i
                                (ag_value RN P [loss]
                                   (map (fun o => flat (dget'
                                      (mkDict KGradients
                                         (map (fun v => (v, plain (p_shape P v) (vones RN (pnumel P v))))
                                              (dedup [loss]))) o)) [loss]) i))))
                               (ps ++ features))), s1)).
    { rewrite (acc_run_comp_ok _ _ _ _ _ _ H0). exact H1. }
    rewrite (acc_run_comp_ok _ _ _ _ _ _ HG).
    apply (acc_run_conj features ps
             (fun i => materialize RN P i
                (ag_value RN P [loss]
                   (map (fun o => flat (dget'
                      (mkDict KGradients
                         (map (fun v => (v, plain (p_shape P v) (vones RN (pnumel P v))))
                              (dedup [loss]))) o)) [loss]) i)) s1 Hnd Hex).
Qed.

(* the freed set after one task *)
Definition acc_step (features : list tid) (retain : bool) (fr : list nid) (pl : list tid * tid)
  : list nid :=
  if retain then fr else fr ++ saved_exec P [snd pl] (fst pl ++ features).

Lemma acc_tasks_run features retain : forall (tl : list (list tid * tid)) s,
  features <> [] ->
  (forall ps l, In (ps, l) tl -> NoDup (ps ++ features) /\ expects_all P ps = true) ->
  (forall n, (n < length tl)%nat ->
     sweep_ok P (mkStore (s_grads s) (fold_left (acc_step features retain) (firstn n tl) (s_freed s))
                         (s_log s) (s_next s))
              [snd (nth n tl ([], O))] (fst (nth n tl ([], O)) ++ features) = true) ->
  exists ds s1,
    run_list RN P A empty_dict
      (map (fun pl => task_transform features (fst pl) (snd pl) retain) tl) s = (Ok ds, s1) /\
    s_freed s1 = fold_left (acc_step features retain) tl (s_freed s).
Proof.
  induction tl as [|[ps l] tl IH]; intros s Hfe Hall Hsw.
  - exists [], s. split; reflexivity.
  - cbn [map fst snd]. rewrite (run_list_cons RN P A).
    destruct (Hall ps l (or_introl eq_refl)) as [Hnd Hex].
    destruct (acc_task_run features ps l retain s Hfe Hnd Hex) as (dt & st & Ht).
    { pose proof (Hsw O ltac:(cbn [length]; lia)) as H0.
      cbn [firstn fold_left nth fst snd] in H0.
      etransitivity; [|exact H0]. apply sweep_ok_freed. reflexivity. }
    pose proof (task_run_freed RN P A features ps l retain s empty_dict dt st Hfe Ht) as Hfr.
    assert (Hfr' : s_freed st = acc_step features retain (s_freed s) (ps, l)) by exact Hfr.
    rewrite Ht.
    destruct (IH st Hfe (fun ps' l' Hin => Hall ps' l' (or_intror Hin))) as (ds & s1 & Hl & Hf1).
    { intros n Hn. pose proof (Hsw (S n) ltac:(cbn [length]; lia)) as H1.
      cbn [firstn fold_left nth] in H1.
      etransitivity; [|exact H1]. apply sweep_ok_freed. cbn [s_freed]. rewrite Hfr'. reflexivity. }
    rewrite Hl. exists (dt :: ds), s1. split; [reflexivity|].
    cbn [fold_left]. rewrite Hf1, Hfr'. reflexivity.
Qed.

Lemma acc_tasks_required features retain (tl : list (list tid * tid)) :
  flat_map required_keys (map (fun pl => task_transform features (fst pl) (snd pl) retain) tl) = [].
Proof.
  induction tl as [|pl tl IH]; [reflexivity|]. cbn [map flat_map]. rewrite IH. reflexivity.
Qed.

Lemma acc_stack_dicts_ok (ds : list (@tdict R)) :
  stack_dicts RN P ds
  = Ok (mkDict KJacobians
          (map (fun k => (k, mkTens true (p_shape P k)
                  (map (fun d => match dget d k with
                                 | Some v => flat v
                                 | None => vzero RN (pnumel P k)
                                 end) ds))) (dedup (flat_map dkeys ds)))).
Proof.
  unfold stack_dicts. cbv zeta. rewrite acc_mk_dict_ok; [reflexivity|].
  apply (acc_shapes_jac (length ds)). intros p Hp. rewrite map_map in Hp. apply in_map_iff in Hp.
  destruct Hp as (k0 & <- & _). cbn [fst snd]. unfold full_shape. cbn [t_batched t_rows t_trail].
  rewrite map_length. reflexivity.
Qed.

Lemma acc_stack_keys features (ds : list (@tdict R)) (ls : list tid) :
  ls <> [] -> NoDup features ->
  map ditems ds
  = map (fun l => map (fun f => (f, plain (p_shape P f) (grad_of P l f))) features) ls ->
  dedup (flat_map dkeys ds) = features.
Proof.
  intros Hne Hnd Hmap. rewrite flat_map_concat_map.
  replace (map dkeys ds) with (map (map fst) (map ditems ds)) by (rewrite map_map; reflexivity).
  rewrite Hmap, map_map.
  replace (map (fun l => map fst (map (fun f0 => (f0, plain (p_shape P f0) (grad_of P l f0)))
                                      features)) ls)
    with (map (fun _ : tid => features) ls)
    by (apply map_ext; intros l; rewrite keys_of_items; reflexivity).
  rewrite <- flat_map_concat_map. apply dedup_repeat_keys; assumption.
Qed.

(* the engine condition for ONE value of the retain flag: every engine run issued by the call
   succeeds in the state in which it is issued *)
Definition mtl_engine_ok_at (retain : bool) (s : @store R) (losses features : list tid)
           (tasks : list (list tid)) (shared : list tid) : Prop :=
  let step := fun (fr : list nid) (pl : list tid * tid) =>
                if retain then fr else fr ++ saved_exec P [snd pl] (fst pl ++ features) in
  (forall n, (n < length (combine tasks losses))%nat ->
     let fr := fold_left step (firstn n (combine tasks losses)) (s_freed s) in
     let pl := nth n (combine tasks losses) ([], O) in
     sweep_ok P (mkStore (s_grads s) fr (s_log s) (s_next s)) [snd pl] (fst pl ++ features) = true) /\
  sweep_ok P (mkStore (s_grads s) (fold_left step (combine tasks losses) (s_freed s)) (s_log s) (s_next s))
           features shared = true.

(* mtl_backward: all argument checks pass + every task's engine run and the trunk's engine run
   succeed in sequence + the aggregator accepts the matrix  ==>  accepted *)
Definition mtl_engine_ok (s : @store R) (losses features : list tid) (tasks : list (list tid))
           (shared : list tid) : Prop :=
  (* the freed sets met by the successive runs when retain = false are s_freed s extended task by
     task; requiring success of every run in the state where ALL earlier runs have freed their
     nodes is the sequential condition *)
  forall retain : bool,
    let step := fun (fr : list nid) (pl : list tid * tid) =>
                  if retain then fr else fr ++ saved_exec P [snd pl] (fst pl ++ features) in
    (forall n, (n < length (combine tasks losses))%nat ->
       let fr := fold_left step (firstn n (combine tasks losses)) (s_freed s) in
       let pl := nth n (combine tasks losses) ([], O) in
       sweep_ok P (mkStore (s_grads s) fr (s_log s) (s_next s)) [snd pl] (fst pl ++ features) = true) /\
    sweep_ok P (mkStore (s_grads s) (fold_left step (combine tasks losses) (s_freed s)) (s_log s) (s_next s))
             features shared = true.

Lemma mtl_accepts_at : forall losses features tasks shared k retain s v,
  wf_prog P -> shared <> [] ->
  mtl_args_ok P losses features tasks shared k retain = true ->
  mtl_engine_ok_at retain s losses features tasks shared ->
  A (mtl_matrix P features shared losses) = Ok v -> length v = total P shared ->
  exists d' s', mtl_backward_model RN P A losses features tasks shared k retain s = (Ok d', s').
Proof.
  intros losses features tasks shared k retain s v Hwf Hse Hargs Heng HA Hlen.
  rewrite (mtl_args_accepted RN P A _ _ _ _ _ _ s Hargs).
  apply mtl_args_ok_inv in Hargs.
  destruct Hargs as (Hk & Hfe & Hint & Hsh & Hle & Hlenl & Hexp & Hwft).
  apply wf_mtl_inv in Hwft. destruct Hwft as (Hnf & Hns & Hnt).
  apply nodupb_NoDup in Hnf. apply nodupb_NoDup in Hns.
  assert (Hfe' : features <> []) by (intros ->; discriminate Hfe).
  assert (Hle' : losses <> []) by (intros ->; discriminate Hle).
  unfold expects_all in Hexp. rewrite forallb_app in Hexp. apply andb_true_iff in Hexp.
  destruct Hexp as [Hexs Hext].
  unfold mtl_engine_ok_at in Heng. cbv zeta in Heng. destruct Heng as [Htasks Htrunk].
  (* the tasks *)
  assert (Hall : forall ps l, In (ps, l) (combine tasks losses) ->
                   NoDup (ps ++ features) /\ expects_all P ps = true).
  { intros ps l Hin. split; [apply nodupb_NoDup; exact (Hnt ps l Hin)|].
    apply in_combine_l in Hin. unfold expects_all. apply forallb_forall. intros x Hx.
    rewrite forallb_forall in Hext. apply Hext. apply in_concat. exists ps. split; assumption. }
  destruct (acc_tasks_run features retain (combine tasks losses) s Hfe' Hall)
    as (ds & s1 & Hl & Hf1).
  { intros n Hn. exact (Htasks n Hn). }
  (* the Stack *)
  assert (HS : run (TStack (map (fun pl => task_transform features (fst pl) (snd pl) retain)
                                (combine tasks losses))) s empty_dict
               = (Ok (mkDict KJacobians
                        (map (fun k0 => (k0, mkTens true (p_shape P k0)
                                (map (fun d => match dget d k0 with
                                               | Some v0 => flat v0
                                               | None => vzero RN (pnumel P k0)
                                               end) ds))) (dedup (flat_map dkeys ds)))), s1)).
  { rewrite (run_stack_eq RN P A).
    assert (Hreq : set_eqb (dkeys (@empty_dict R))
                     (required_keys (TStack (map (fun pl => task_transform features (fst pl) (snd pl) retain)
                                                 (combine tasks losses)))) = true).
    { cbn [required_keys]. rewrite acc_tasks_required. reflexivity. }
    rewrite Hreq. cbn [negb]. rewrite Hl. rewrite acc_stack_dicts_ok. reflexivity. }
  set (dS := mkDict KJacobians
               (map (fun k0 => (k0, mkTens true (p_shape P k0)
                       (map (fun d => match dget d k0 with
                                      | Some v0 => flat v0
                                      | None => vzero RN (pnumel P k0)
                                      end) ds))) (dedup (flat_map dkeys ds)))) in *.
  (* what the stacked dictionary holds *)
  assert (Hall' : forall ps l, In (ps, l) (combine tasks losses) ->
                    NoDup (ps ++ features) /\ p_shape P l = []).
  { intros ps l Hin. split; [exact (proj1 (Hall ps l Hin))|].
    apply in_combine_r in Hin. rewrite forallb_forall in Hsh. apply Hsh in Hin.
    destruct (p_shape P l); [reflexivity | discriminate Hin]. }
  destruct (tasks_run P A features retain (combine tasks losses) s ds s1 Hwf Hfe' Hall' Hl)
    as (Hds & _ & _).
  assert (Hlen' : length tasks = length losses) by (symmetry; exact Hlenl).
  assert (Hds' : map ditems ds
    = map (fun l => map (fun f => (f, plain (p_shape P f) (grad_of P l f))) features) losses).
  { rewrite Hds. rewrite <- (map_snd_combine_eq tasks losses Hlen') at 2.
    rewrite map_map. reflexivity. }
  destruct (stack_of_tasks P features ds losses dS Hle' Hnf Hds' (acc_stack_dicts_ok ds))
    as [Hdk Hrows].
  assert (HkeysS : dkeys dS = features).
  { unfold dkeys, dS. cbn [ditems]. rewrite keys_of_items.
    exact (acc_stack_keys features ds losses Hle' Hnf Hds'). }
  assert (Hm : (1 <= length losses)%nat).
  { destruct losses as [|l0 ls]; [congruence | cbn [length]; lia]. }
  assert (Hn : nrows (dget' dS (hd O features)) = length losses).
  { unfold nrows. rewrite Hrows; [apply map_length|].
    destruct features as [|f0 fs]; [congruence | left; reflexivity]. }
  (* the Jac stage *)
  destruct (acc_run_jac features shared k retain s1 dS) as (d2 & s2 & H2 & _); try assumption.
  { rewrite HkeysS. apply acc_set_eqb_dedup_r. }
  { rewrite Hn. exact Hm. }
  { etransitivity; [|exact Htrunk]. apply sweep_ok_freed. cbn [s_freed]. exact Hf1. }
  destruct (jac_run_mtl P A features shared k retain s1 dS d2 s2 losses
              Hwf Hfe' Hse Hk Hm Hdk Hrows H2) as [_ Hd2].
  subst d2.
  destruct (acc_aggregate_ok shared (mtl_matrix P features shared losses) s2 v Hns Hse
              (wfmat_mtl_matrix P features shared losses Hwf) HA Hlen) as (d5 & H5 & Hkeys5).
  unfold mtl_transform.
  assert (HJ : run (TComp (TJac features shared k retain)
                      (TStack (map (fun pl => task_transform features (fst pl) (snd pl) retain)
                                   (combine tasks losses)))) s empty_dict
               = (Ok (sdict KJacobians true (fun jk => p_shape P (snd jk)) (map (pnumel P) shared)
                            (mtl_matrix P features shared losses) shared), s2)).
  { rewrite (acc_run_comp_ok _ _ _ _ _ _ HS). exact H2. }
  assert (HX : run (TComp (TAggregate shared)
                      (TComp (TJac features shared k retain)
                         (TStack (map (fun pl => task_transform features (fst pl) (snd pl) retain)
                                      (combine tasks losses))))) s empty_dict = (Ok d5, s2)).
  { rewrite (acc_run_comp_ok _ _ _ _ _ _ HJ). exact H5. }
  rewrite (acc_run_comp_ok _ _ _ _ _ _ HX).
  rewrite acc_run_accumulate.
  - eexists. eexists. reflexivity.
  - rewrite Hkeys5. apply acc_set_eqb_dedup_r.
  - rewrite Hkeys5. exact Hexs.
Qed.

Lemma mtl_accepts : forall losses features tasks shared k retain s v,
  wf_prog P -> shared <> [] ->
  mtl_args_ok P losses features tasks shared k retain = true ->
  mtl_engine_ok s losses features tasks shared ->
  A (mtl_matrix P features shared losses) = Ok v -> length v = total P shared ->
  exists d' s', mtl_backward_model RN P A losses features tasks shared k retain s = (Ok d', s').
Proof.
  intros losses features tasks shared k retain s v Hwf Hse Hargs Heng HA Hlen.
  apply (mtl_accepts_at losses features tasks shared k retain s v); try assumption.
  exact (Heng retain).
Qed.

End Accept.

Print Assumptions backward_accepts.
Print Assumptions backward_failure_causes.
Print Assumptions mtl_accepts.
Print Assumptions mtl_accepts_at.
