(* AutojacBasics.v — structural lemmas about the Autojac model that hold at every number
   instance: inversion of mk_dict / run, list slicing, association lists. *)
From Coq Require Import List Bool Arith Lia.
From TJ Require Import Num Linalg Chunk Autojac.
Import ListNotations.

(* ---------- lists ---------- *)
Lemma split_by_length {A} (lens : list nat) (v : list A) : length (split_by lens v) = length lens.
Proof. revert v; induction lens as [|n lens IH]; intros v; cbn; [reflexivity | rewrite IH; reflexivity]. Qed.

Lemma split_by_concat {A} (parts : list (list A)) :
  split_by (map (@length A) parts) (concat parts) = parts.
Proof.
  induction parts as [|p parts IH]; [reflexivity|].
  cbn [map concat split_by]. rewrite firstn_app, Nat.sub_diag, firstn_all, firstn_O, app_nil_r.
  rewrite skipn_app, skipn_all, Nat.sub_diag, skipn_O. cbn [app]. rewrite IH. reflexivity.
Qed.

Lemma split_by_concat' {A} (lens : list nat) (parts : list (list A)) :
  map (@length A) parts = lens -> split_by lens (concat parts) = parts.
Proof. intros <-. apply split_by_concat. Qed.

Lemma concat_split_by {A} (lens : list nat) (v : list A) :
  length v = fold_right Nat.add 0 lens -> concat (split_by lens v) = v.
Proof.
  revert v; induction lens as [|n lens IH]; intros v H; cbn in *.
  - destruct v; [reflexivity | discriminate].
  - rewrite IH; [apply firstn_skipn|]. rewrite skipn_length. lia.
Qed.

Lemma map_nth_seq {A} (l : list A) (d : A) : map (fun r => nth r l d) (seq 0 (length l)) = l.
Proof.
  induction l as [|x l IH]; [reflexivity|].
  cbn [length seq map nth]. f_equal. rewrite <- seq_shift, map_map. exact IH.
Qed.

Lemma map_nth_seq' {A} (l : list A) (d : A) n : n = length l -> map (fun r => nth r l d) (seq 0 n) = l.
Proof. intros ->. apply map_nth_seq. Qed.

Lemma nth_map_seq {A} (f : nat -> A) (d : A) n r : r < n -> nth r (map f (seq 0 n)) d = f r.
Proof.
  intros H. rewrite nth_indep with (d' := f 0) by (rewrite map_length, seq_length; exact H).
  rewrite map_nth with (d := 0). rewrite seq_nth by exact H. reflexivity.
Qed.

Lemma combine_seq_map_snd {A} (l : list A) : map snd (combine (seq 0 (length l)) l) = l.
Proof.
  generalize 0. induction l as [|x l IH]; intros s; [reflexivity|]. cbn. f_equal. apply IH.
Qed.

(* ---------- association lists ---------- *)
Lemma assoc_map_key {B} (f : nat -> B) (l : list nat) k :
  In k l -> assoc k (map (fun x => (x, f x)) l) = Some (f k).
Proof.
  induction l as [|x l IH]; intros H; [contradiction|]. cbn.
  destruct (Nat.eqb_spec k x) as [->|Hne]; [reflexivity|].
  destruct H as [H|H]; [congruence | exact (IH H)].
Qed.

Lemma assoc_map_key_none {A} (f : nat -> A) (l : list nat) k :
  ~ In k l -> assoc k (map (fun x => (x, f x)) l) = None.
Proof.
  induction l as [|x l IH]; intros H; [reflexivity|]. cbn.
  destruct (Nat.eqb_spec k x) as [->|Hne]; [exfalso; apply H; left; reflexivity|].
  apply IH. intros H'. apply H. right. exact H'.
Qed.

(* position-indexed construction: the value at the j-th key *)
Lemma assoc_indexed {A} (g : nat * nat -> A) (l : list nat) : forall s k j,
  NoDup l -> nth_error l j = Some k ->
  assoc k (map (fun jk => (snd jk, g jk)) (combine (seq s (length l)) l)) = Some (g (s + j, k)).
Proof.
  induction l as [|x l IH]; intros s k j Hnd Hj; [destruct j; discriminate|].
  inversion Hnd as [|? ? Hx Hnd']; subst.
  cbn [length seq combine map fst snd assoc].
  destruct (Nat.eqb_spec k x) as [->|Hne].
  - destruct j as [|j]; [rewrite Nat.add_0_r; reflexivity|].
    exfalso. apply Hx. eapply nth_error_In. exact Hj.
  - destruct j as [|j]; [cbn in Hj; congruence|]. cbn in Hj.
    rewrite (IH (S s) k j Hnd' Hj). replace (S s + j) with (s + S j) by lia. reflexivity.
Qed.

Lemma assoc_indexed_none {A} (g : nat * nat -> A) (l : list nat) : forall s k,
  ~ In k l -> assoc k (map (fun jk => (snd jk, g jk)) (combine (seq s (length l)) l)) = None.
Proof.
  induction l as [|x l IH]; intros s k Hk; [reflexivity|].
  cbn [length seq combine map fst snd assoc].
  destruct (Nat.eqb_spec k x) as [->|Hne]; [exfalso; apply Hk; left; reflexivity|].
  apply IH. intros H; apply Hk; right; exact H.
Qed.

Lemma keys_indexed {A} (g : nat * nat -> A) (l : list nat) s :
  map fst (map (fun jk => (snd jk, g jk)) (combine (seq s (length l)) l)) = l.
Proof.
  revert s; induction l as [|x l IH]; intros s; [reflexivity|]. cbn. f_equal. apply IH.
Qed.

(* ---------- inversion of the model's run ---------- *)
Section RunInv.
Context {T : Type} (N : Num T) (P : prog T) (A : list (list T) -> res (list T)).
Notation run := (run N P A).

Lemma mk_dict_ok k items d : mk_dict P k items = Ok d -> d = mkDict k items.
Proof. unfold mk_dict. destruct (shapes_ok _ _); intros H; inversion H; reflexivity. Qed.

Lemma mk_dict_ok_iff k items :
  (exists d, mk_dict P k items = Ok d) <->
  shapes_ok k (map (fun kv => (p_shape P (fst kv), full_shape (snd kv))) items) = true.
Proof.
  unfold mk_dict. destruct (shapes_ok _ _); split; intros H; try reflexivity.
  - eexists; reflexivity.
  - destruct H as [d H]; discriminate.
  - discriminate.
Qed.

Lemma run_keys_ok t s d r s' :
  run t s d = (Ok r, s') -> set_eqb (dkeys d) (required_keys t) = true.
Proof.
  destruct (set_eqb (dkeys d) (required_keys t)) eqn:E; [reflexivity|].
  destruct t; cbn [run]; rewrite E; cbn [negb]; discriminate.
Qed.

Lemma run_key_fail t s d :
  set_eqb (dkeys d) (required_keys t) = false -> run t s d = (Err ValueError, s).
Proof. intros E. destruct t; cbn [run]; rewrite E; reflexivity. Qed.

Lemma run_comp_inv o i s d d' s' :
  run (TComp o i) s d = (Ok d', s') ->
  exists d1 s1, run i s d = (Ok d1, s1) /\ run o s1 d1 = (Ok d', s').
Proof.
  cbn [run]. destruct (negb _); [discriminate|].
  destruct (run i s d) as [[d1|e] s1]; [|discriminate].
  intros H. exists d1, s1. split; [reflexivity | exact H].
Qed.

Lemma run_comp_err o i s d e s' :
  run (TComp o i) s d = (Err e, s') ->
  (set_eqb (dkeys d) (required_keys i) = false /\ s' = s) \/
  run i s d = (Err e, s') \/
  exists d1 s1, run i s d = (Ok d1, s1) /\ run o s1 d1 = (Err e, s').
Proof.
  cbn [run]. destruct (set_eqb _ _) eqn:E; cbn [negb].
  - destruct (run i s d) as [[d1|e1] s1]; intros H.
    + right; right. exists d1, s1. split; [reflexivity | exact H].
    + right; left. exact H.
  - intros H; inversion H; subst. left. split; reflexivity.
Qed.

Lemma run_init_inv vals s d d' s' :
  run (TInit vals) s d = (Ok d', s') ->
  s' = s /\ d' = mkDict KGradients
                   (map (fun v => (v, plain (p_shape P v) (vones N (pnumel P v)))) (dedup vals)).
Proof.
  cbn [run]. destruct (negb _); [discriminate|]. unfold lift, init_compute.
  intros H; inversion H as [[H1 H2]]; subst. split; [reflexivity|].
  apply mk_dict_ok in H1. exact H1.
Qed.

Lemma run_select_inv keys req s d d' s' :
  run (TSelect keys req) s d = (Ok d', s') ->
  s' = s /\ d' = mkDict (dk d) (map (fun k => (k, dget' d k)) (dedup keys)).
Proof.
  cbn [run]. destruct (negb _); [discriminate|]. unfold lift, select_compute.
  intros H; inversion H as [[H1 H2]]; subst. split; [reflexivity|]. apply mk_dict_ok in H1. exact H1.
Qed.

Lemma run_diag_inv c s d d' s' :
  run (TDiag c) s d = (Ok d', s') ->
  s' = s /\ c <> [] /\
  let flatv := concat (map (fun k => flat (dget' d k)) c) in
  let rows := map (fun r => split_by (map (pnumel P) c) (diag_row N flatv r)) (seq 0 (length flatv)) in
  d' = mkDict KJacobians
         (map (fun jk => (snd jk, mkTens true (p_shape P (snd jk))
                                    (map (fun pieces => nth (fst jk) pieces []) rows)))
              (combine (seq 0 (length c)) c)).
Proof.
  cbn [run]. destruct (negb _); [discriminate|]. unfold lift, diag_compute.
  destruct c as [|k0 c]; [discriminate|].
  intros H; inversion H as [[H1 H2]]; subst. split; [reflexivity|]. split; [discriminate|].
  apply mk_dict_ok in H1. exact H1.
Qed.

Lemma run_matrixify_inv ks s d d' s' :
  run (TMatrixify ks) s d = (Ok d', s') ->
  s' = s /\ d' = mkDict KJacobianMatrices
     (map (fun kv => (fst kv, mkTens true [numel (t_trail (snd kv))] (t_rows (snd kv)))) (ditems d)).
Proof.
  cbn [run]. destruct (negb _); [discriminate|]. unfold lift, matrixify_compute.
  intros H; inversion H as [[H1 H2]]; subst. split; [reflexivity|]. apply mk_dict_ok in H1. exact H1.
Qed.

Lemma run_reshape_inv ks s d d' s' :
  run (TReshape ks) s d = (Ok d', s') ->
  s' = s /\ d' = mkDict KGradients
     (map (fun kv => (fst kv, mkTens false (p_shape P (fst kv)) (t_rows (snd kv)))) (ditems d)).
Proof.
  cbn [run]. destruct (negb _); [discriminate|]. unfold lift, reshape_compute.
  intros H; inversion H as [[H1 H2]]; subst. split; [reflexivity|]. apply mk_dict_ok in H1. exact H1.
Qed.

Lemma run_aggmat_inv ord s d d' s' :
  run (TAggMat ord) s d = (Ok d', s') ->
  s' = s /\
  (ord = [] /\ d' = empty_dict \/
   ord <> [] /\ exists v,
     A (unite ord d) = Ok v /\
     let lens := map (fun k => hd 0 (t_trail (dget' d k))) ord in
     length v = fold_right Nat.add 0 lens /\
     d' = mkDict KGradientVectors
            (map (fun kp => (fst kp, mkTens false [length (snd kp)] [snd kp]))
                 (combine ord (split_by lens v)))).
Proof.
  cbn [run]. destruct (negb _); [discriminate|]. unfold lift, aggmat_compute.
  destruct ord as [|k0 ord].
  - intros H; inversion H; subst. split; [reflexivity|]. left. split; reflexivity.
  - destruct (A (unite (k0 :: ord) d)) as [v|e] eqn:EA; [|discriminate].
    destruct (length v =? _) eqn:El; cbn [negb]; [|discriminate].
    intros H; inversion H as [[H1 H2]]; subst. split; [reflexivity|]. right. split; [discriminate|].
    exists v. split; [reflexivity|]. cbv zeta. split; [apply Nat.eqb_eq; exact El|].
    apply mk_dict_ok in H1. exact H1.
Qed.

Lemma run_accumulate_inv ks s d d' s' :
  run (TAccumulate ks) s d = (Ok d', s') ->
  expects_all P (dkeys d) = true /\ d' = empty_dict /\ s' = fold_left (accumulate_one N) (ditems d) s.
Proof.
  cbn [run]. destruct (negb _); [discriminate|]. unfold accumulate_compute.
  destruct (expects_all P (dkeys d)); [|discriminate].
  intros H; inversion H; subst. repeat split.
Qed.

Lemma run_accumulate_err ks s d e s' :
  run (TAccumulate ks) s d = (Err e, s') -> s' = s.
Proof.
  cbn [run]. destruct (negb _); [intros H; inversion H; reflexivity|]. unfold accumulate_compute.
  destruct (expects_all P (dkeys d)); [discriminate|]. intros H; inversion H; reflexivity.
Qed.

End RunInv.
