(* AutojacSpec.v — the specification vocabulary of the autojac theorems (instance RN):
   well-formed programs, the true Jacobian in block form, slices, .grad accumulation. *)
From Coq Require Import Reals List Bool Arith.
From TJ Require Import Num Linalg NumR Chunk Autojac.
From TJ.proofs Require Import LinalgR.
Import ListNotations.

Section Spec.
Variable P : prog R.

(* dimensions of the total-derivative blocks, and: no differentiable path => zero block *)
Definition wf_prog : Prop :=
  (forall o i, length (p_D P o i) = pnumel P o /\ wfmat (pnumel P i) (p_D P o i)) /\
  (forall o i, p_reach P o i = false ->
               Forall (fun row => row = vzeroR (pnumel P i)) (p_D P o i)).

Definition total (ts : list tid) : nat := fold_right Nat.add 0 (map (pnumel P) ts).

(* d(outs)/d i : the blocks D o i stacked vertically, one row per output scalar, in the order of outs *)
Definition Drows (outs : list tid) (i : tid) : list (list R) := flat_map (fun o => p_D P o i) outs.

(* the Jacobian: rows = scalars of outs (flattened, in order), columns = scalars of ord (in order) *)
Definition jacobian (outs ord : list tid) : list (list R) :=
  map (fun r => concat (map (fun i => nth r (Drows outs i) []) ord)) (seq 0 (total outs)).

(* column offset of input i in the enumeration ord *)
Fixpoint offset (ord : list tid) (i : tid) : nat :=
  match ord with
  | [] => 0
  | x :: ord' => if x =? i then 0 else pnumel P x + offset ord' i
  end.
Definition slice_of (ord : list tid) (v : list R) (i : tid) : list R :=
  firstn (pnumel P i) (skipn (offset ord i) v).

Definition grad_val (s : @store R) (t : tid) : option (@tens R) := option_map g_val (sget s t).
(* x.grad += v, or x.grad = v when there is none *)
Definition acc_val (old : option (@tens R)) (v : @tens R) : @tens R :=
  match old with Some g => tadd RN g v | None => v end.

(* ---- mtl_backward ---- *)
(* gradient of a scalar loss w.r.t. a tensor q, as the engine returns it: the single row of D loss q *)
Definition grad_of (loss q : tid) : list R := nth 0 (p_D P loss q) [].
(* row of task `loss` in the matrix handed to the aggregator: its gradients w.r.t. the features,
   pulled back through the features to the shared parameters (columns in the order of `shared`) *)
Definition mtl_row (features shared : list tid) (loss : tid) : list R :=
  concat (map (fun p => vjp RN P features (map (grad_of loss) features) p) shared).
Definition mtl_matrix (features shared losses : list tid) : list (list R) :=
  map (mtl_row features shared) losses.
(* what the tasks, in order, add to a task-specific parameter q *)
Definition task_updates (tasks : list (list tid)) (losses : list tid) (q : tid)
           (g0 : option (@tens R)) : option (@tens R) :=
  fold_left (fun g pl => if mem q (fst pl)
                         then Some (acc_val g (plain (p_shape P q) (grad_of (snd pl) q)))
                         else g)
            (combine tasks losses) g0.

End Spec.
