From Coq Require Import Reals List Bool Arith Lia Lra Permutation.
From TJ Require Import Num Linalg NumR Chunk Autojac.
From TJ.proofs Require Import LinalgR ChunkProofs AutojacBasics AutojacSpec.
Import ListNotations.
Local Open Scope R_scope.

(* ---------- generic list facts ---------- *)
Lemma nth_map_lt {X Y} (f : X -> Y) (l : list X) r d d' :
  (r < length l)%nat -> nth r (map f l) d = f (nth r l d').
Proof.
  intros H. rewrite nth_indep with (d' := f d') by (rewrite map_length; exact H).
  apply map_nth.
Qed.

Lemma nth_repeat_lt {X} (x d : X) m r : (r < m)%nat -> nth r (repeat x m) d = x.
Proof.
  revert r; induction m as [|m IH]; intros r H; [lia|].
  destruct r as [|r]; cbn [repeat nth]; [reflexivity | apply IH; lia].
Qed.

Lemma map_over_keys {C} (F G : nat -> C) (l : list nat) : forall s,
  (forall j k, nth_error l j = Some k -> F k = G (s + j)%nat) ->
  map F l = map G (seq s (length l)).
Proof.
  induction l as [|x l IH]; intros s H; [reflexivity|].
  cbn [map length seq]. f_equal.
  - rewrite (H O x eq_refl). f_equal. lia.
  - apply IH. intros j k Hj. rewrite (H (S j) k Hj). f_equal. lia.
Qed.

Lemma keys_combine_items {X Y} (g : nat * X -> Y) (l : list nat) : forall (l' : list X),
  length l = length l' ->
  map fst (map (fun kp => (fst kp, g kp)) (combine l l')) = l.
Proof.
  induction l as [|x l IH]; intros [|y l'] H; cbn in H; try lia; [reflexivity|].
  cbn [combine map fst]. f_equal. apply IH. lia.
Qed.

Lemma length_concat_map {X} (g : nat -> list X) (f : nat -> nat) (l : list nat) :
  (forall i, In i l -> length (g i) = f i) ->
  length (concat (map g l)) = fold_right Nat.add O (map f l).
Proof.
  induction l as [|x l IH]; intros H; [reflexivity|].
  cbn [map concat fold_right]. rewrite app_length, H by (left; reflexivity).
  rewrite IH; [reflexivity|]. intros i Hi. apply H. right. exact Hi.
Qed.

Lemma seq_shift_add a n : map (fun x => (a + x)%nat) (seq O n) = seq a n.
Proof.
  revert a; induction n as [|n IH]; intros a; [reflexivity|].
  cbn [seq map]. f_equal; [lia|]. rewrite <- seq_shift, map_map.
  rewrite <- (IH (S a)). apply map_ext. intros x. lia.
Qed.

Lemma skipn_add {X} a : forall b (l : list X), skipn a (skipn b l) = skipn (b + a) l.
Proof.
  induction b as [|b IH]; intros l; [reflexivity|].
  destruct l as [|x l]; cbn [Nat.add skipn]; [destruct a; reflexivity | apply IH].
Qed.

(* ---------- keys ---------- *)
Lemma mem_In x l : mem x l = true <-> In x l.
Proof.
  unfold mem. rewrite existsb_exists. split.
  - intros (y & Hy & E). apply Nat.eqb_eq in E. subst y. exact Hy.
  - intros H. exists x. split; [exact H | apply Nat.eqb_refl].
Qed.

Lemma nodupb_NoDup l : nodupb l = true -> NoDup l.
Proof.
  induction l as [|x l IH]; intros H; [constructor|].
  cbn [nodupb] in H. apply andb_true_iff in H. destruct H as [H1 H2].
  constructor; [|apply IH; exact H2].
  intros Hin. apply mem_In in Hin. rewrite Hin in H1. discriminate.
Qed.

Lemma dedup_NoDup l : NoDup l -> dedup l = l.
Proof. apply nodup_fixed_point. Qed.

(* ---------- vectors at R ---------- *)
Lemma firstn_vzero a b : firstn a (vzeroR (a + b)) = vzeroR a.
Proof.
  unfold vzero. induction a as [|a IH]; [reflexivity|].
  cbn [Nat.add repeat firstn]. rewrite IH. reflexivity.
Qed.
Lemma skipn_vzero a b : skipn a (vzeroR (a + b)) = vzeroR b.
Proof.
  unfold vzero. induction a as [|a IH]; [reflexivity|]. cbn [Nat.add repeat skipn]. exact IH.
Qed.

Lemma firstn_onehot_lt a b r x : (r < a)%nat -> firstn a (onehotR (a + b) r x) = onehotR a r x.
Proof.
  revert r; induction a as [|a IH]; intros r H; [lia|].
  cbn [Nat.add]. destruct r as [|r]; cbn [onehot firstn].
  - rewrite firstn_vzero. reflexivity.
  - rewrite IH by lia. reflexivity.
Qed.
Lemma skipn_onehot_lt a b r x : (r < a)%nat -> skipn a (onehotR (a + b) r x) = vzeroR b.
Proof.
  revert r; induction a as [|a IH]; intros r H; [lia|].
  cbn [Nat.add]. destruct r as [|r]; cbn [onehot skipn].
  - apply skipn_vzero.
  - apply IH. lia.
Qed.
Lemma firstn_onehot_ge a b r x : (a <= r)%nat -> firstn a (onehotR (a + b) r x) = vzeroR a.
Proof.
  revert r; induction a as [|a IH]; intros r H; [reflexivity|].
  destruct r as [|r]; [lia|]. cbn [Nat.add onehot firstn]. rewrite IH by lia. reflexivity.
Qed.
Lemma skipn_onehot_ge a b r x : (a <= r)%nat -> skipn a (onehotR (a + b) r x) = onehotR b (r - a) x.
Proof.
  revert r; induction a as [|a IH]; intros r H.
  - rewrite Nat.sub_0_r. reflexivity.
  - destruct r as [|r]; [lia|]. cbn [Nat.add onehot skipn Nat.sub]. apply IH. lia.
Qed.

Lemma vscale_one r : vscaleR 1 r = r.
Proof.
  unfold vscale. induction r as [|z r IH]; [reflexivity|]. cbn [map]. rewrite IH. rn.
  f_equal. lra.
Qed.
Lemma vscale_zero r : vscaleR 0 r = vzeroR (length r).
Proof.
  unfold vscale, vzero. induction r as [|z r IH]; [reflexivity|]. cbn [map length repeat].
  rewrite IH. rn. f_equal. lra.
Qed.
Lemma vadd_vzero_l n x : length x = n -> vaddR (vzeroR n) x = x.
Proof.
  intros <-. unfold vzero. induction x as [|z x IH]; [reflexivity|].
  cbn [length repeat vadd]. rewrite IH. rn. f_equal. lra.
Qed.
Lemma vadd_vzero_r n x : length x = n -> vaddR x (vzeroR n) = x.
Proof.
  intros <-. unfold vzero. induction x as [|z x IH]; [reflexivity|].
  cbn [length repeat vadd]. rewrite IH. rn. f_equal. lra.
Qed.

Lemma vm_vzero n k : forall M, wfmat n M -> vmR n (vzeroR k) M = vzeroR n.
Proof.
  induction k as [|k IH]; intros M HM; [reflexivity|].
  destruct M as [|row M]; [reflexivity|].
  apply Forall_cons_iff in HM. destruct HM as [Hr HM].
  unfold vzero at 1. cbn [repeat vm]. fold (vzeroR k). rn.
  rewrite IH by exact HM. rewrite vscale_zero, Hr. apply vadd_vzero_vzero.
Qed.

Lemma vm_zero_rows n : forall w M, Forall (fun row => row = vzeroR n) M -> vmR n w M = vzeroR n.
Proof.
  induction w as [|x w IH]; intros M HM; [reflexivity|].
  destruct M as [|row M]; [reflexivity|].
  apply Forall_cons_iff in HM. destruct HM as [-> HM]. cbn [vm].
  rewrite IH by exact HM. rewrite vscale_vzero. apply vadd_vzero_vzero.
Qed.

Lemma wfmat_nth n M r : wfmat n M -> (r < length M)%nat -> length (nth r M []) = n.
Proof.
  intros HM Hr. unfold wfmat in HM. rewrite Forall_forall in HM. apply HM. apply nth_In. exact Hr.
Qed.

Lemma vm_onehot n : forall M r, wfmat n M -> (r < length M)%nat ->
  vmR n (onehotR (length M) r 1) M = nth r M [].
Proof.
  induction M as [|row M IH]; intros r HM Hr; cbn [length] in Hr; [lia|].
  pose proof HM as HM0.
  apply Forall_cons_iff in HM. destruct HM as [Hrow HM].
  destruct r as [|r]; cbn [length onehot vm nth].
  - rewrite vscale_one, vm_vzero by exact HM. apply vadd_vzero_r. exact Hrow.
  - rn. rewrite IH by (try exact HM; lia). rewrite vscale_zero, Hrow.
    apply vadd_vzero_l. apply wfmat_nth; [exact HM | lia].
Qed.

Lemma vm_onehot' n a M r : wfmat n M -> length M = a -> (r < a)%nat ->
  vmR n (onehotR a r 1) M = nth r M [].
Proof. intros HM <- Hr. apply vm_onehot; assumption. Qed.

Lemma concat_ones (f : nat -> nat) (l : list nat) :
  concat (map (fun k => vones RN (f k) ++ []) l) = vones RN (fold_right Nat.add O (map f l)).
Proof.
  unfold vones. induction l as [|x l IH]; [reflexivity|].
  cbn [map concat fold_right]. rewrite IH, app_nil_r, repeat_app. reflexivity.
Qed.

(* ---------- dictionaries of column blocks of a matrix ---------- *)
(* key number j of [l] holds, row by row, the j-th piece of the rows of J split by [lens] *)
Definition sdict (kd : dkind) (b : bool) (tr : nat * nat -> list nat) (lens : list nat)
           (J : list (list R)) (l : list tid) : @tdict R :=
  mkDict kd (map (fun ji => (snd ji, mkTens b (tr ji)
                                (map (fun ps => nth (fst ji) ps []) (map (split_by lens) J))))
                 (combine (seq 0 (length l)) l)).

Definition eye (m : nat) : list (list R) := map (fun r => onehotR m r 1) (seq 0 m).

Lemma dget'_sdict kd b tr lens J l j k : NoDup l -> nth_error l j = Some k ->
  dget' (sdict kd b tr lens J l) k
  = mkTens b (tr (j, k)) (map (fun ps => nth j ps []) (map (split_by lens) J)).
Proof.
  intros Hnd Hj. unfold dget', dget, sdict. cbn [ditems].
  pose proof (assoc_indexed
    (fun ji : nat * nat => mkTens b (tr ji) (map (fun ps : list (list R) => nth (fst ji) ps [])
                                               (map (split_by lens) J))) l O k j Hnd Hj) as E.
  cbv beta in E. cbn [fst snd Nat.add] in E. unfold tid in *. rewrite E. reflexivity.
Qed.

Lemma nth_error_hd (l : list nat) : l <> [] -> nth_error l 0 = Some (hd O l).
Proof. destruct l as [|x l]; [congruence | reflexivity]. Qed.

Lemma sdict_row kd b tr lens J l r : NoDup l -> length lens = length l -> (r < length J)%nat ->
  map (fun k => nth r (t_rows (dget' (sdict kd b tr lens J l) k)) []) l
  = split_by lens (nth r J []).
Proof.
  intros Hnd Hlen Hr.
  rewrite (map_over_keys _ (fun j => nth j (split_by lens (nth r J [])) []) l O).
  - apply map_nth_seq'. rewrite split_by_length. symmetry. exact Hlen.
  - intros j k Hj. rewrite (dget'_sdict kd b tr lens J l j k Hnd Hj). cbn [t_rows Nat.add].
    rewrite map_map. rewrite (nth_map_lt _ J r [] []) by exact Hr. reflexivity.
Qed.

Lemma nrows_sdict_hd kd b tr lens J l : NoDup l -> l <> [] ->
  nrows (dget' (sdict kd b tr lens J l) (hd O l)) = length J.
Proof.
  intros Hnd Hne. rewrite (dget'_sdict kd b tr lens J l O (hd O l) Hnd (nth_error_hd l Hne)).
  unfold nrows. cbn [t_rows]. rewrite !map_length. reflexivity.
Qed.

Lemma unite_sdict kd b tr lens J ord :
  NoDup ord -> ord <> [] -> length lens = length ord ->
  wfmat (fold_right Nat.add O lens) J ->
  unite ord (sdict kd b tr lens J ord) = J.
Proof.
  intros Hnd Hne Hlen HJ.
  assert (E : forall d : @tdict R, unite ord d
    = map (fun r => concat (map (fun k => nth r (t_rows (dget' d k)) []) ord))
          (seq 0 (nrows (dget' d (hd O ord))))).
  { intros d. destruct ord as [|k0 ord']; [congruence | reflexivity]. }
  rewrite E. rewrite nrows_sdict_hd by assumption.
  transitivity (map (fun r => nth r J []) (seq 0 (length J))); [|apply map_nth_seq].
  apply map_ext_in. intros r Hr. apply in_seq in Hr.
  rewrite sdict_row by (try assumption; lia).
  apply concat_split_by. apply wfmat_nth; [exact HJ | lia].
Qed.

Lemma trail_sdict kd b tr lens J l k : NoDup l -> In k l ->
  exists j, nth_error l j = Some k /\ t_trail (dget' (sdict kd b tr lens J l) k) = tr (j, k).
Proof.
  intros Hnd Hin. apply In_nth_error in Hin. destruct Hin as [j Hj]. exists j.
  split; [exact Hj|]. rewrite (dget'_sdict kd b tr lens J l j k Hnd Hj). reflexivity.
Qed.

Section C01.
Variable P : prog R.
Variable A : list (list R) -> res (list R).

(* ---------- the stacked derivative ---------- *)
Lemma total_cons o outs : total P (o :: outs) = (pnumel P o + total P outs)%nat.
Proof. reflexivity. Qed.

Lemma total_app a b : total P (a ++ b) = (total P a + total P b)%nat.
Proof.
  induction a as [|x a IH]; [reflexivity|]. cbn [app]. rewrite !total_cons, IH. lia.
Qed.

Lemma Drows_cons o outs i : Drows P (o :: outs) i = p_D P o i ++ Drows P outs i.
Proof. reflexivity. Qed.

Lemma length_Drows outs i : wf_prog P -> length (Drows P outs i) = total P outs.
Proof.
  intros [Hdim _]. induction outs as [|o outs IH]; [reflexivity|].
  rewrite Drows_cons, app_length, total_cons, IH. destruct (Hdim o i) as [-> _]. reflexivity.
Qed.

Lemma wfmat_Drows outs i : wf_prog P -> wfmat (pnumel P i) (Drows P outs i).
Proof.
  intros [Hdim _]. unfold wfmat. induction outs as [|o outs IH]; [constructor|].
  rewrite Drows_cons. apply Forall_app. split; [|exact IH]. destruct (Hdim o i) as [_ H]. exact H.
Qed.

Lemma unreachable_zero_block : forall outs i,
  wf_prog P -> (forall o, In o outs -> p_reach P o i = false) ->
  Forall (fun row => row = vzeroR (pnumel P i)) (Drows P outs i).
Proof.
  intros outs i [_ Hz] Hun. induction outs as [|o outs IH]; [constructor|].
  rewrite Drows_cons. apply Forall_app. split.
  - apply Hz. apply Hun. left. reflexivity.
  - apply IH. intros o' Ho'. apply Hun. right. exact Ho'.
Qed.

Lemma jacobian_rows_app : forall a b ord,
  wf_prog P -> jacobian P (a ++ b) ord = jacobian P a ord ++ jacobian P b ord.
Proof.
  intros a b ord Hwf. unfold jacobian. rewrite total_app, seq_app, map_app. cbn [Nat.add].
  f_equal.
  - apply map_ext_in. intros r Hr. apply in_seq in Hr. f_equal. apply map_ext. intros i.
    unfold Drows. rewrite flat_map_app. fold (Drows P a i) (Drows P b i).
    apply app_nth1. rewrite length_Drows by exact Hwf. lia.
  - rewrite <- (seq_shift_add (total P a) (total P b)), map_map.
    apply map_ext. intros r. f_equal. apply map_ext. intros i.
    unfold Drows. rewrite flat_map_app. fold (Drows P a i) (Drows P b i).
    rewrite <- (length_Drows a i Hwf). apply app_nth2_plus.
Qed.

(* ---------- the engine's values ---------- *)
Lemma vjp_cons o outs c cots i :
  vjp RN P (o :: outs) (c :: cots) i
  = vaddR (vmR (pnumel P i) c (p_D P o i)) (vjp RN P outs cots i).
Proof. reflexivity. Qed.

Lemma vjp_unreach i : forall outs cots,
  wf_prog P -> (forall o, In o outs -> p_reach P o i = false) ->
  vjp RN P outs cots i = vzeroR (pnumel P i).
Proof.
  induction outs as [|o outs IH]; intros cots Hwf Hun; [reflexivity|].
  destruct cots as [|c cots]; [reflexivity|]. rewrite vjp_cons.
  rewrite IH by (try exact Hwf; intros o' Ho'; apply Hun; right; exact Ho').
  destruct Hwf as [_ Hz]. rewrite vm_zero_rows by (apply Hz; apply Hun; left; reflexivity).
  apply vadd_vzero_vzero.
Qed.

Lemma materialize_vjp outs cots i : wf_prog P ->
  materialize RN P i (ag_value RN P outs cots i) = vjp RN P outs cots i.
Proof.
  intros Hwf. unfold ag_value. destruct (existsb (fun o => p_reach P o i) outs) eqn:E.
  - reflexivity.
  - cbn [materialize]. symmetry. apply vjp_unreach; [exact Hwf|].
    intros o Ho. destruct (p_reach P o i) eqn:Er; [|reflexivity].
    assert (existsb (fun o => p_reach P o i) outs = true) as E'
      by (apply existsb_exists; exists o; split; assumption).
    rewrite E' in E. discriminate.
Qed.

Lemma vjp_zero_cots i : forall outs, wf_prog P ->
  vjp RN P outs (split_by (map (pnumel P) outs) (vzeroR (total P outs))) i = vzeroR (pnumel P i).
Proof.
  induction outs as [|o outs IH]; intros Hwf; [reflexivity|].
  rewrite total_cons. cbn [map split_by]. rewrite vjp_cons, firstn_vzero, skipn_vzero.
  rewrite IH by exact Hwf. destruct Hwf as [Hdim _]. destruct (Hdim o i) as [_ HM].
  rewrite vm_vzero by exact HM. apply vadd_vzero_vzero.
Qed.

(* the vjp of a one-hot cotangent is a row of the stacked derivative *)
Lemma vjp_onehot i : forall outs r, wf_prog P -> (r < total P outs)%nat ->
  vjp RN P outs (split_by (map (pnumel P) outs) (onehotR (total P outs) r 1)) i
  = nth r (Drows P outs i) [].
Proof.
  induction outs as [|o outs IH]; intros r Hwf Hr; [cbn in Hr; lia|].
  rewrite total_cons in *. cbn [map split_by]. rewrite vjp_cons, Drows_cons.
  pose proof Hwf as [Hdim _]. destruct (Hdim o i) as [HlenD HM].
  destruct (lt_dec r (pnumel P o)) as [Hlt|Hge].
  - rewrite firstn_onehot_lt, skipn_onehot_lt by exact Hlt.
    rewrite vjp_zero_cots by exact Hwf.
    rewrite (vm_onehot' _ _ _ _ HM HlenD Hlt).
    rewrite app_nth1 by lia. apply vadd_vzero_r. apply wfmat_nth; [exact HM | lia].
  - rewrite firstn_onehot_ge, skipn_onehot_ge by lia.
    rewrite vm_vzero by exact HM. rewrite IH by (try exact Hwf; lia).
    rewrite app_nth2 by lia. rewrite HlenD. apply vadd_vzero_l.
    apply wfmat_nth; [apply wfmat_Drows; exact Hwf | rewrite length_Drows by exact Hwf; lia].
Qed.

Lemma wfmat_jacobian outs ord : wf_prog P -> wfmat (total P ord) (jacobian P outs ord).
Proof.
  intros Hwf. unfold wfmat, jacobian. apply Forall_forall. intros row Hrow.
  apply in_map_iff in Hrow. destruct Hrow as (r & <- & Hr). apply in_seq in Hr.
  unfold total. apply length_concat_map. intros i _.
  apply wfmat_nth; [apply wfmat_Drows; exact Hwf | rewrite length_Drows by exact Hwf; lia].
Qed.

(* ---------- the Jac stage ---------- *)
Lemma ag_sweep_grads s outs ins rows b rt u s1 :
  ag_sweep P s outs ins rows b rt = (Ok u, s1) -> s_grads s1 = s_grads s.
Proof.
  unfold ag_sweep. destruct (negb _); [discriminate|]. destruct (existsb _ _); [discriminate|].
  intros H. inversion H; subst. reflexivity.
Qed.

Lemma jac_chunks_ok outs ins d plan : forall s matrix s',
  jac_chunks RN P s outs ins d plan = (Ok matrix, s') ->
  matrix = run_plan (jac_row RN P outs ins d) plan /\ s_grads s' = s_grads s.
Proof.
  induction plan as [|c plan IH]; intros s matrix s' H; cbn [jac_chunks] in H.
  - inversion H; subst. split; reflexivity.
  - destruct (ag_sweep P s outs ins (c_len c) (c_batched c) (c_retain c)) as [[u|e] s1] eqn:Esw;
      [|discriminate].
    destruct (jac_chunks RN P s1 outs ins d plan) as [[rest|e] s2] eqn:Ej; [|discriminate].
    inversion H; subst. destruct (IH _ _ _ Ej) as [-> Hg]. split.
    + unfold run_plan. cbn [map concat]. reflexivity.
    + rewrite Hg. eapply ag_sweep_grads. exact Esw.
Qed.

Lemma run_jac_inv outs ins k retain s d d' s' :
  outs <> [] -> ins <> [] ->
  run RN P A (TJac outs ins k retain) s d = (Ok d', s') ->
  exists matrix,
    jac_chunks RN P s outs ins d (chunk_plan (nrows (dget' d (hd O outs))) k retain)
      = (Ok matrix, s') /\
    d' = mkDict (dk d)
           (map (fun ji => (snd ji, mkTens true (p_shape P (snd ji))
                   (map (fun ps => nth (fst ji) ps [])
                        (map (split_by (map (pnumel P) ins)) matrix))))
                (combine (seq 0 (length ins)) ins)).
Proof.
  intros Ho Hi. cbn [run]. destruct (negb _); [discriminate|]. unfold jac_compute.
  destruct ins as [|i0 ins]; [congruence|]. destruct outs as [|o0 outs]; [congruence|].
  cbn [hd]. cbv zeta.
  destruct (max_chunk _ k =? 0)%nat; [discriminate|].
  destruct (jac_chunks RN P s (o0 :: outs) (i0 :: ins) d _) as [[matrix|e] s1]; [|discriminate].
  intros H. inversion H as [[H1 H2]]. exists matrix. split; [reflexivity|].
  apply mk_dict_ok in H1. exact H1.
Qed.

Lemma run_jac_noins outs k retain s d d' s' :
  run RN P A (TJac outs [] k retain) s d = (Ok d', s') -> s' = s.
Proof.
  cbn [run]. destruct (negb _); [discriminate|]. unfold jac_compute.
  intros H. inversion H. reflexivity.
Qed.

(* ---------- Init and Diagonalize ---------- *)
Lemma init_diag_run tensors s d1 s1 :
  NoDup tensors ->
  run RN P A (TComp (TDiag tensors) (TInit tensors)) s empty_dict = (Ok d1, s1) ->
  s1 = s /\
  d1 = sdict KJacobians true (fun jk => p_shape P (snd jk)) (map (pnumel P) tensors)
             (eye (total P tensors)) tensors.
Proof.
  intros Hnd H. apply run_comp_inv in H. destruct H as (d0 & s0 & H0 & H1).
  apply run_init_inv in H0. destruct H0 as [-> Hd0].
  apply run_diag_inv in H1. destruct H1 as (-> & _ & Hd1). cbv zeta in Hd1.
  split; [reflexivity|].
  rewrite (dedup_NoDup _ Hnd) in Hd0.
  assert (Hflat : concat (map (fun k => flat (dget' d0 k)) tensors)
                  = vones RN (total P tensors)).
  { transitivity (concat (map (fun k => vones RN (pnumel P k) ++ []) tensors)).
    - f_equal. apply map_ext_in. intros k Hk. subst d0. unfold dget', dget. cbn [ditems].
      pose proof (assoc_map_key (fun v => plain (p_shape P v) (vones RN (pnumel P v)))
                                tensors k Hk) as E.
      cbv beta in E. unfold tid in *. rewrite E. reflexivity.
    - apply concat_ones. }
  rewrite Hflat in Hd1. unfold vones in Hd1 at 2. rewrite repeat_length in Hd1.
  assert (Hrows : map (fun r => split_by (map (pnumel P) tensors)
                                  (diag_row RN (vones RN (total P tensors)) r))
                      (seq 0 (total P tensors))
                  = map (split_by (map (pnumel P) tensors)) (eye (total P tensors))).
  { unfold eye. rewrite map_map. apply map_ext_in. intros r Hr. apply in_seq in Hr.
    unfold diag_row, vones. rewrite repeat_length, nth_repeat_lt by lia. reflexivity. }
  rewrite Hrows in Hd1. exact Hd1.
Qed.

Lemma length_eye m : length (eye m) = m.
Proof. unfold eye. rewrite map_length, seq_length. reflexivity. Qed.

Lemma nth_eye m r : (r < m)%nat -> nth r (eye m) [] = onehotR m r 1.
Proof. intros H. unfold eye. apply (nth_map_seq (fun r0 => onehotR m r0 1) [] m r H). Qed.

Lemma jac_run tensors ord k retain s d2 s2 :
  wf_prog P -> NoDup tensors -> NoDup ord -> tensors <> [] -> ord <> [] ->
  valid_chunk k = true -> (1 <= total P tensors)%nat ->
  run RN P A (TJac tensors ord k retain) s
      (sdict KJacobians true (fun jk => p_shape P (snd jk)) (map (pnumel P) tensors)
             (eye (total P tensors)) tensors) = (Ok d2, s2) ->
  s_grads s2 = s_grads s /\
  d2 = sdict KJacobians true (fun jk => p_shape P (snd jk)) (map (pnumel P) ord)
             (jacobian P tensors ord) ord.
Proof.
  intros Hwf Hnt Hno Hte Hoe Hk Hm H.
  apply run_jac_inv in H; [|exact Hte|exact Hoe]. destruct H as (matrix & Hj & Hd2).
  rewrite nrows_sdict_hd, length_eye in Hj by assumption.
  apply jac_chunks_ok in Hj. destruct Hj as [HM Hg].
  rewrite run_plan_rows in HM by assumption.
  split; [exact Hg|].
  assert (HJ : matrix = jacobian P tensors ord).
  { rewrite HM. unfold jacobian. apply map_ext_in. intros r Hr. apply in_seq in Hr.
    unfold jac_row. cbv zeta.
    rewrite sdict_row by first [assumption | apply map_length | rewrite length_eye; lia].
    rewrite nth_eye by lia. f_equal. apply map_ext. intros i.
    rewrite materialize_vjp by exact Hwf. apply vjp_onehot; [exact Hwf | lia]. }
  rewrite HJ in Hd2. exact Hd2.
Qed.

(* ---------- Aggregate = Reshape . AggregateMatrices . Matrixify ---------- *)
Lemma aggregate_run ord J s d5 s5 :
  NoDup ord -> ord <> [] -> wfmat (total P ord) J ->
  run RN P A (TAggregate ord) s
      (sdict KJacobians true (fun jk => p_shape P (snd jk)) (map (pnumel P) ord) J ord)
    = (Ok d5, s5) ->
  s5 = s /\ exists v, A J = Ok v /\ length v = total P ord /\
    d5 = mkDict KGradients
           (map (fun kp => (fst kp, plain (p_shape P (fst kp)) (snd kp)))
                (combine ord (split_by (map (pnumel P) ord) v))).
Proof.
  intros Hnd Hne HJ H. unfold TAggregate in H.
  apply run_comp_inv in H. destruct H as (d4 & s4 & H & Hre).
  apply run_comp_inv in H. destruct H as (d3 & s3 & Hma & Hag).
  apply run_matrixify_inv in Hma. destruct Hma as [-> Hd3].
  assert (Hd3' : d3 = sdict KJacobianMatrices true (fun jk => [numel (p_shape P (snd jk))])
                            (map (pnumel P) ord) J ord).
  { rewrite Hd3. unfold sdict. cbn [ditems]. rewrite map_map. reflexivity. }
  clear Hd3. subst d3.
  apply run_aggmat_inv in Hag. destruct Hag as [-> [[He _] | (_ & v & HA & Hrest)]]; [congruence|].
  cbv zeta in Hrest. destruct Hrest as [Hlen Hd4].
  assert (Hlens : map (fun k => hd O (t_trail (dget'
            (sdict KJacobianMatrices true (fun jk => [numel (p_shape P (snd jk))])
                   (map (pnumel P) ord) J ord) k))) ord = map (pnumel P) ord).
  { apply map_ext_in. intros k Hk.
    destruct (trail_sdict KJacobianMatrices true (fun jk => [numel (p_shape P (snd jk))])
                (map (pnumel P) ord) J ord k Hnd Hk) as (j & _ & ->). reflexivity. }
  rewrite Hlens in Hlen, Hd4.
  rewrite unite_sdict in HA by (first [assumption | apply map_length]).
  apply run_reshape_inv in Hre. destruct Hre as [-> Hd5].
  split; [reflexivity|]. exists v. split; [exact HA|]. split; [exact Hlen|].
  rewrite Hd5, Hd4. cbn [ditems]. rewrite map_map. reflexivity.
Qed.

(* ---------- Accumulate ---------- *)
Lemma sget_accumulate_other s kv t : t <> fst kv ->
  sget (accumulate_one RN s kv) t = sget s t.
Proof.
  intros Hne. apply Nat.eqb_neq in Hne. unfold accumulate_one.
  destruct (sget s (fst kv)); unfold sget, sset; cbn [s_grads assoc]; rewrite Hne; reflexivity.
Qed.

Lemma grad_accumulate_same s i v :
  grad_val (accumulate_one RN s (i, v)) i = Some (acc_val (grad_val s i) v).
Proof.
  unfold grad_val, accumulate_one. cbn [fst snd].
  destruct (sget s i) as [g|] eqn:E; unfold sget, sset; cbn [s_grads assoc];
    rewrite Nat.eqb_refl; reflexivity.
Qed.

Lemma fold_accumulate_other items : forall s t, ~ In t (map fst items) ->
  sget (fold_left (accumulate_one RN) items s) t = sget s t.
Proof.
  induction items as [|kv items IH]; intros s t Ht; [reflexivity|].
  cbn [fold_left]. rewrite IH by (intros Hin; apply Ht; right; exact Hin).
  apply sget_accumulate_other. intros ->. apply Ht. left. reflexivity.
Qed.

Lemma fold_accumulate_in items : forall s i v, NoDup (map fst items) -> In (i, v) items ->
  grad_val (fold_left (accumulate_one RN) items s) i = Some (acc_val (grad_val s i) v).
Proof.
  induction items as [|kv items IH]; intros s i v Hnd Hin; [contradiction|].
  cbn [map] in Hnd. inversion Hnd as [|? ? Hkv Hnd']; subst.
  cbn [fold_left]. destruct Hin as [->|Hin].
  - cbn [fst] in Hkv. unfold grad_val at 1. rewrite fold_accumulate_other by exact Hkv.
    apply grad_accumulate_same.
  - rewrite (IH _ i v Hnd' Hin). f_equal. f_equal. unfold grad_val.
    rewrite sget_accumulate_other; [reflexivity|].
    intros ->. apply Hkv. apply in_map_iff. exists (fst kv, v). split; [reflexivity | exact Hin].
Qed.

Lemma slice_in_combine ord : forall v i, In i ord ->
  In (i, slice_of P ord v i) (combine ord (split_by (map (pnumel P) ord) v)).
Proof.
  induction ord as [|x ord IH]; intros v i Hi; [contradiction|].
  cbn [map split_by combine]. unfold slice_of. cbn [offset].
  destruct (Nat.eqb_spec x i) as [->|Hne].
  - left. reflexivity.
  - right. destruct Hi as [Hi|Hi]; [congruence|].
    specialize (IH (skipn (pnumel P x) v) i Hi). unfold slice_of in IH.
    rewrite skipn_add in IH. exact IH.
Qed.

(* ---------- the entry point ---------- *)
Lemma backward_model_inv tensors ord k retain s d' s' :
  backward_model RN P A tensors ord k retain s = (Ok d', s') ->
  valid_chunk k = true /\ tensors <> [] /\
  wf (backward_transform tensors ord k retain) = true /\
  run RN P A (backward_transform tensors ord k retain) s empty_dict = (Ok d', s').
Proof.
  unfold backward_model, build_and_run. destruct (valid_chunk k); cbn [negb]; [|discriminate].
  destruct tensors as [|t0 tl]; [discriminate|].
  destruct (wf _); [|discriminate]. intros H.
  split; [reflexivity|]. split; [discriminate|]. split; [reflexivity | exact H].
Qed.

Lemma wf_backward tensors ord k retain :
  wf (backward_transform tensors ord k retain) = true ->
  nodupb tensors = true /\ nodupb ord = true.
Proof.
  unfold backward_transform, TAggregate. cbn [wf]. rewrite !andb_true_iff. tauto.
Qed.

(* MAIN THEOREM *)
Lemma backward_deposit : forall tensors ord k retain s d' s',
  wf_prog P -> ord <> [] -> (1 <= total P tensors)%nat ->
  backward_model RN P A tensors ord k retain s = (Ok d', s') ->
  NoDup tensors /\ NoDup ord /\
  exists v, A (jacobian P tensors ord) = Ok v /\ length v = total P ord /\
    (forall i, In i ord ->
       grad_val s' i = Some (acc_val (grad_val s i) (plain (p_shape P i) (slice_of P ord v i)))) /\
    (forall t, ~ In t ord -> sget s' t = sget s t).
Proof.
  intros tensors ord k retain s d' s' Hwf Hord Hm H.
  apply backward_model_inv in H. destruct H as (Hk & Hne & Hwft & Hrun).
  apply wf_backward in Hwft. destruct Hwft as [Hnt Hno].
  apply nodupb_NoDup in Hnt. apply nodupb_NoDup in Hno.
  split; [exact Hnt|]. split; [exact Hno|].
  unfold backward_transform in Hrun.
  apply run_comp_inv in Hrun. destruct Hrun as (d5 & s5 & Hrun & Hacc).
  apply run_comp_inv in Hrun. destruct Hrun as (d2 & s2 & Hrun & Hagg).
  apply run_comp_inv in Hrun. destruct Hrun as (d1 & s1 & Hid & Hjac).
  apply init_diag_run in Hid; [|exact Hnt]. destruct Hid as [-> ->].
  apply jac_run in Hjac; try assumption. destruct Hjac as [Hg ->].
  apply aggregate_run in Hagg; [|exact Hno|exact Hord|apply wfmat_jacobian; exact Hwf].
  destruct Hagg as (-> & v & HA & Hlv & ->).
  apply run_accumulate_inv in Hacc. destruct Hacc as (_ & _ & ->). cbn [ditems].
  assert (Hkeys : map fst (map (fun kp : nat * list R =>
                    (fst kp, plain (p_shape P (fst kp)) (snd kp)))
                    (combine ord (split_by (map (pnumel P) ord) v))) = ord).
  { apply keys_combine_items. rewrite split_by_length, map_length. reflexivity. }
  exists v. split; [exact HA|]. split; [exact Hlv|]. split.
  - intros i Hi.
    rewrite (fold_accumulate_in _ s2 i (plain (p_shape P i) (slice_of P ord v i))).
    + f_equal. f_equal. unfold grad_val, sget. rewrite Hg. reflexivity.
    + pose proof Hno as Hno'. rewrite <- Hkeys in Hno'. exact Hno'.
    + apply in_map_iff. exists (i, slice_of P ord v i). split; [reflexivity|].
      apply slice_in_combine. exact Hi.
  - intros t Ht. rewrite <- Hkeys in Ht. rewrite fold_accumulate_other by exact Ht.
    unfold sget. rewrite Hg. reflexivity.
Qed.

(* with no input at all nothing is deposited *)
Lemma backward_no_inputs : forall tensors k retain s d' s',
  backward_model RN P A tensors [] k retain s = (Ok d', s') -> s_grads s' = s_grads s.
Proof.
  intros tensors k retain s d' s' H.
  apply backward_model_inv in H. destruct H as (_ & _ & _ & Hrun).
  unfold backward_transform, TAggregate in Hrun.
  apply run_comp_inv in Hrun. destruct Hrun as (d5 & s5 & Hrun & Hacc).
  apply run_comp_inv in Hrun. destruct Hrun as (d2 & s2 & Hrun & Hagg).
  apply run_comp_inv in Hrun. destruct Hrun as (d1 & s1 & Hid & Hjac).
  apply run_comp_inv in Hid. destruct Hid as (d0 & s0 & Hin & Hdi).
  apply run_init_inv in Hin. destruct Hin as [-> _].
  apply run_diag_inv in Hdi. destruct Hdi as (-> & _).
  apply run_jac_noins in Hjac. subst s2.
  apply run_comp_inv in Hagg. destruct Hagg as (d4 & s4 & Hagg & Hre).
  apply run_comp_inv in Hagg. destruct Hagg as (d3 & s3 & Hma & Hag).
  apply run_matrixify_inv in Hma. destruct Hma as [-> _].
  apply run_aggmat_inv in Hag. destruct Hag as [-> [[_ ->] | (Hc & _)]]; [|congruence].
  apply run_reshape_inv in Hre. destruct Hre as [-> ->].
  apply run_accumulate_inv in Hacc. destruct Hacc as (_ & _ & ->). reflexivity.
Qed.

End C01.

Print Assumptions backward_deposit.
Print Assumptions backward_no_inputs.
Print Assumptions unreachable_zero_block.
Print Assumptions jacobian_rows_app.
