From Coq Require Import Reals List Bool Arith Lia Lra Permutation.
From TJ Require Import Num Linalg NumR Chunk Autojac.
From TJ.proofs Require Import LinalgR ChunkProofs AutojacBasics AutojacSpec EntrySpec C20Proofs C01Proofs.
Import ListNotations.
Local Open Scope R_scope.

(* C02Proofs.v — what an accepted mtl_backward call deposits in the .grad fields. *)

(* ---------- generic list facts ---------- *)
Lemma map_fst_combine_eq {X Y} : forall (a : list X) (b : list Y),
  length a = length b -> map fst (combine a b) = a.
Proof.
  induction a as [|x a IH]; intros [|y b] H; cbn in H; try lia; [reflexivity|].
  cbn [combine map fst]. f_equal. apply IH. lia.
Qed.

Lemma map_snd_combine_eq {X Y} : forall (a : list X) (b : list Y),
  length a = length b -> map snd (combine a b) = b.
Proof.
  induction a as [|x a IH]; intros [|y b] H; cbn in H; try lia; [reflexivity|].
  cbn [combine map snd]. f_equal. apply IH. lia.
Qed.

Lemma dedup_app_absorb (a b : list nat) :
  (forall x, In x a -> In x b) -> dedup (a ++ b) = dedup b.
Proof.
  unfold dedup. induction a as [|x a IH]; intros H; [reflexivity|].
  cbn [app nodup]. destruct (in_dec Nat.eq_dec x (a ++ b)) as [Hin|Hn].
  - apply IH. intros y Hy. apply H. right. exact Hy.
  - exfalso. apply Hn. apply in_or_app. right. apply H. left. reflexivity.
Qed.

Lemma dedup_repeat_keys {X} (l : list nat) (ls : list X) :
  NoDup l -> ls <> [] -> dedup (flat_map (fun _ => l) ls) = l.
Proof.
  intros Hnd. induction ls as [|x ls IH]; intros Hne; [congruence|].
  cbn [flat_map]. destruct ls as [|y ls'].
  - cbn [flat_map]. rewrite app_nil_r. apply dedup_NoDup. exact Hnd.
  - rewrite dedup_app_absorb.
    + apply IH. discriminate.
    + intros z Hz. cbn [flat_map]. apply in_or_app. left. exact Hz.
Qed.

Lemma map_seq_nth {X Y} (g : X -> Y) (l : list X) (d : X) :
  map (fun r => g (nth r l d)) (seq 0 (length l)) = map g l.
Proof.
  transitivity (map g (map (fun r => nth r l d) (seq 0 (length l)))).
  - rewrite map_map. reflexivity.
  - rewrite map_nth_seq. reflexivity.
Qed.

Lemma inter_nil_disjoint a b x : inter a b = [] -> In x a -> In x b -> False.
Proof.
  intros H Ha Hb.
  assert (Hin : In x (inter a b)).
  { unfold inter. apply filter_In. split; [exact Ha | apply mem_In; exact Hb]. }
  rewrite H in Hin. contradiction.
Qed.

Lemma keys_of_items {X} (g : nat -> X) (l : list nat) :
  map fst (map (fun q => (q, g q)) l) = l.
Proof. rewrite map_map. cbn [fst]. apply map_id. Qed.

Lemma NoDup_app_l {X} (a b : list X) : NoDup (a ++ b) -> NoDup a.
Proof.
  induction a as [|x a IH]; intros H; [constructor|].
  cbn [app] in H. inversion H as [|? ? Hx Hr]; subst. constructor.
  - intros Hin. apply Hx. apply in_or_app. left. exact Hin.
  - apply IH. exact Hr.
Qed.

Lemma NoDup_app_r {X} (a b : list X) : NoDup (a ++ b) -> NoDup b.
Proof.
  induction a as [|x a IH]; intros H; [exact H|].
  cbn [app] in H. inversion H as [|? ? Hx Hr]; subst. apply IH. exact Hr.
Qed.

Section C02.
Variable P : prog R.
Variable A : list (list R) -> res (list R).

Lemma sget_grads_eq (s1 s : @store R) t : s_grads s1 = s_grads s -> sget s1 t = sget s t.
Proof. intros H. unfold sget. rewrite H. reflexivity. Qed.

Lemma grad_val_grads_eq (s1 s : @store R) t :
  s_grads s1 = s_grads s -> grad_val s1 t = grad_val s t.
Proof. intros H. unfold grad_val. rewrite (sget_grads_eq s1 s t H). reflexivity. Qed.

(* ---------- the engine's values ---------- *)
Lemma length_vjp i : forall outs cots, wf_prog P -> length (vjp RN P outs cots i) = pnumel P i.
Proof.
  induction outs as [|o outs IH]; intros cots Hwf.
  - change (vjp RN P [] cots i) with (vzeroR (pnumel P i)). apply length_vzero.
  - destruct cots as [|c cots].
    + change (vjp RN P (o :: outs) [] i) with (vzeroR (pnumel P i)). apply length_vzero.
    + rewrite vjp_cons. pose proof Hwf as [Hdim _]. destruct (Hdim o i) as [_ HM].
      rewrite length_vadd; rewrite length_vm by exact HM; [reflexivity|].
      rewrite IH by exact Hwf. reflexivity.
Qed.

Lemma wfmat_mtl_matrix features shared losses :
  wf_prog P -> wfmat (total P shared) (mtl_matrix P features shared losses).
Proof.
  intros Hwf. unfold wfmat, mtl_matrix. apply Forall_forall. intros row Hrow.
  apply in_map_iff in Hrow. destruct Hrow as (l & <- & _).
  unfold mtl_row, total. apply length_concat_map. intros p _. apply length_vjp. exact Hwf.
Qed.

(* the gradient of a scalar loss *)
Lemma vjp_scalar_loss loss i : wf_prog P -> p_shape P loss = [] ->
  vjp RN P [loss] [[1]] i = grad_of P loss i.
Proof.
  intros Hwf Hsh. rewrite vjp_cons.
  change (vjp RN P [] [] i) with (vzeroR (pnumel P i)).
  destruct Hwf as [Hdim _]. destruct (Hdim loss i) as [Hl HM].
  assert (H1 : pnumel P loss = 1%nat) by (unfold pnumel; rewrite Hsh; reflexivity).
  rewrite H1 in Hl. unfold grad_of.
  destruct (p_D P loss i) as [|row [|row2 M]]; cbn [length] in Hl; try lia.
  apply Forall_cons_iff in HM. destruct HM as [Hr _].
  cbn [vm nth]. rewrite vscale_one.
  rewrite (vadd_vzero_r _ row Hr). rewrite (vadd_vzero_r _ row Hr). reflexivity.
Qed.

(* ---------- inversion of Grad and Stack ---------- *)
Lemma run_grad_inv outs ins retain s d d' s' :
  outs <> [] -> ins <> [] ->
  run RN P A (TGrad outs ins retain) s d = (Ok d', s') ->
  s_grads s' = s_grads s /\
  d' = mkDict (dk d)
         (map (fun i => (i, plain (p_shape P i)
                 (materialize RN P i
                    (ag_value RN P outs (map (fun o => flat (dget' d o)) outs) i)))) ins).
Proof.
  intros Ho Hi. cbn [run]. destruct (negb _); [discriminate|]. unfold grad_compute.
  destruct ins as [|i0 ins]; [congruence|]. destruct outs as [|o0 outs]; [congruence|].
  destruct (ag_sweep P s (o0 :: outs) (i0 :: ins) 1 false retain) as [[u|e] s1] eqn:Esw;
    [|discriminate].
  intros H. inversion H as [[H1 H2]]. subst s1. split.
  - eapply ag_sweep_grads. exact Esw.
  - apply mk_dict_ok in H1. exact H1.
Qed.

Lemma run_stack_inv ts s d d' s' :
  run RN P A (TStack ts) s d = (Ok d', s') ->
  exists ds, run_list RN P A d ts s = (Ok ds, s') /\ stack_dicts RN P ds = Ok d'.
Proof.
  rewrite (run_stack_eq RN P A). destruct (negb _); [discriminate|].
  destruct (run_list RN P A d ts s) as [[ds|e] s1]; [|discriminate].
  intros H. inversion H as [[H1 H2]]. exists ds. split; reflexivity.
Qed.

(* ---------- one task: Init, Grad ---------- *)
Lemma init_grad_run loss ins retain s d1 s1 :
  wf_prog P -> p_shape P loss = [] -> ins <> [] ->
  run RN P A (TComp (TGrad [loss] ins retain) (TInit [loss])) s empty_dict = (Ok d1, s1) ->
  s_grads s1 = s_grads s /\
  d1 = mkDict KGradients (map (fun i => (i, plain (p_shape P i) (grad_of P loss i))) ins).
Proof.
  intros Hwf Hsh Hne H. apply run_comp_inv in H. destruct H as (d0 & s0 & H0 & H1).
  apply run_init_inv in H0. destruct H0 as [-> Hd0].
  apply run_grad_inv in H1; [|discriminate|exact Hne]. destruct H1 as [Hg Hd1].
  split; [exact Hg|]. rewrite Hd1.
  assert (Hc : map (fun o => flat (dget' d0 o)) [loss] = [[1]]).
  { subst d0. cbn [map]. unfold dget', dget. cbn [ditems].
    change (dedup [loss]) with [loss]. cbn [map assoc]. rewrite Nat.eqb_refl.
    unfold flat, plain. cbn [t_rows concat]. unfold pnumel. rewrite Hsh. reflexivity. }
  rewrite Hc. rewrite Hd0. cbn [dk]. f_equal.
  apply map_ext. intros i. rewrite materialize_vjp by exact Hwf.
  rewrite vjp_scalar_loss by assumption. reflexivity.
Qed.

(* ---------- one task: the conjunction Select | Accumulate . Select ---------- *)
Lemma run_list_nil d s : run_list RN P A d [] s = (Ok [], s).
Proof. reflexivity. Qed.

Lemma dget'_items (g : tid -> @tens R) kd (l : list tid) k : In k l ->
  dget' (mkDict kd (map (fun i => (i, g i)) l)) k = g k.
Proof.
  intros Hk. unfold dget', dget. cbn [ditems].
  pose proof (assoc_map_key g l k Hk) as E. unfold tid in *. rewrite E. reflexivity.
Qed.

Lemma conj_run features ps (g : tid -> @tens R) s1 dt st :
  NoDup (ps ++ features) ->
  run RN P A (TConj [TSelect features (ps ++ features);
                     TComp (TAccumulate ps) (TSelect ps (ps ++ features))]) s1
      (mkDict KGradients (map (fun i => (i, g i)) (ps ++ features))) = (Ok dt, st) ->
  ditems dt = map (fun f => (f, g f)) features /\
  st = fold_left (accumulate_one RN) (map (fun q => (q, g q)) ps) s1.
Proof.
  intros Hnd H.
  assert (Hnf : NoDup features) by (eapply NoDup_app_r; exact Hnd).
  assert (Hnp : NoDup ps) by (eapply NoDup_app_l; exact Hnd).
  rewrite (run_conj_eq RN P A) in H. destruct (negb _); [discriminate|].
  rewrite (run_list_cons RN P A) in H.
  destruct (run RN P A (TSelect features (ps ++ features)) s1 _) as [[da|e] sa] eqn:Ea;
    [|discriminate].
  rewrite (run_list_cons RN P A) in H.
  destruct (run RN P A (TComp (TAccumulate ps) (TSelect ps (ps ++ features))) sa _)
    as [[db|e] sb] eqn:Eb; [|discriminate].
  rewrite run_list_nil in H. inversion H as [[Hu Hs]]. subst sb. clear H.
  apply run_select_inv in Ea. destruct Ea as [-> Hda].
  apply run_comp_inv in Eb. destruct Eb as (dc & sc & Ec & Eacc).
  apply run_select_inv in Ec. destruct Ec as [-> Hdc].
  apply run_accumulate_inv in Eacc. destruct Eacc as (_ & -> & ->).
  unfold union_dicts in Hu. apply mk_dict_ok in Hu. subst dt. cbn [ditems flat_map].
  rewrite !app_nil_r. subst da dc. cbn [ditems].
  rewrite (dedup_NoDup _ Hnf), (dedup_NoDup _ Hnp). split.
  - apply map_ext_in. intros f Hf. f_equal. apply dget'_items.
    apply in_or_app. right. exact Hf.
  - f_equal. apply map_ext_in. intros q Hq. f_equal. apply dget'_items.
    apply in_or_app. left. exact Hq.
Qed.

(* ---------- one task ---------- *)
Lemma task_run features ps loss retain s dt st :
  wf_prog P -> features <> [] -> NoDup (ps ++ features) -> p_shape P loss = [] ->
  run RN P A (task_transform features ps loss retain) s empty_dict = (Ok dt, st) ->
  ditems dt = map (fun f => (f, plain (p_shape P f) (grad_of P loss f))) features /\
  (forall q, grad_val st q
             = if mem q ps
               then Some (acc_val (grad_val s q) (plain (p_shape P q) (grad_of P loss q)))
               else grad_val s q) /\
  (forall t, ~ In t ps -> sget st t = sget s t).
Proof.
  intros Hwf Hfe Hnd Hsh H. unfold task_transform in H.
  apply run_comp_inv in H. destruct H as (d1 & s1 & H1 & H2).
  apply init_grad_run in H1; [|exact Hwf|exact Hsh|].
  2:{ intros E. apply app_eq_nil in E. destruct E as [_ E]. congruence. }
  destruct H1 as [Hg ->].
  apply (conj_run features ps (fun i => plain (p_shape P i) (grad_of P loss i))) in H2;
    [|exact Hnd].
  destruct H2 as [Hdt ->].
  assert (Hnp : NoDup ps) by (eapply NoDup_app_l; exact Hnd).
  split; [exact Hdt|]. split.
  - intros q. destruct (mem q ps) eqn:Em.
    + apply mem_In in Em.
      rewrite (fold_accumulate_in _ s1 q (plain (p_shape P q) (grad_of P loss q))).
      * rewrite (grad_val_grads_eq s1 s q Hg). reflexivity.
      * rewrite keys_of_items. exact Hnp.
      * apply in_map_iff. exists q. split; [reflexivity | exact Em].
    + unfold grad_val at 1. rewrite fold_accumulate_other.
      * rewrite (sget_grads_eq s1 s q Hg). reflexivity.
      * rewrite keys_of_items. intros Hin. apply mem_In in Hin. congruence.
  - intros t Ht. rewrite fold_accumulate_other.
    + apply sget_grads_eq. exact Hg.
    + rewrite keys_of_items. exact Ht.
Qed.

(* ---------- all tasks, in order ---------- *)
Lemma tasks_run features retain : forall tl s ds s1,
  wf_prog P -> features <> [] ->
  (forall ps l, In (ps, l) tl -> NoDup (ps ++ features) /\ p_shape P l = []) ->
  run_list RN P A empty_dict
    (map (fun pl => task_transform features (fst pl) (snd pl) retain) tl) s = (Ok ds, s1) ->
  map ditems ds
  = map (fun pl => map (fun f => (f, plain (p_shape P f) (grad_of P (snd pl) f))) features) tl /\
  (forall q, grad_val s1 q
     = fold_left (fun g pl => if mem q (fst pl)
                              then Some (acc_val g (plain (p_shape P q) (grad_of P (snd pl) q)))
                              else g) tl (grad_val s q)) /\
  (forall t, ~ In t (concat (map fst tl)) -> sget s1 t = sget s t).
Proof.
  induction tl as [|[ps l] tl IH]; intros s ds s1 Hwf Hfe Hall H.
  - cbn [map] in H. rewrite run_list_nil in H. inversion H; subst.
    split; [reflexivity|]. split; intros; reflexivity.
  - cbn [map] in H. rewrite (run_list_cons RN P A) in H. cbn [fst snd] in H.
    destruct (run RN P A (task_transform features ps l retain) s empty_dict)
      as [[dt|e] st] eqn:Et; [|discriminate].
    destruct (run_list RN P A empty_dict
                (map (fun pl => task_transform features (fst pl) (snd pl) retain) tl) st)
      as [[ds'|e] s2] eqn:El; [|discriminate].
    inversion H; subst. clear H.
    destruct (Hall ps l (or_introl eq_refl)) as [Hnd Hsh].
    destruct (task_run features ps l retain s dt st Hwf Hfe Hnd Hsh Et) as (Hd & Hq & Ht).
    destruct (IH st ds' s1 Hwf Hfe (fun ps' l' Hin => Hall ps' l' (or_intror Hin)) El)
      as (Hds & Hq' & Ht').
    split; [cbn [map snd]; rewrite Hd, Hds; reflexivity|]. split.
    + intros q. cbn [fold_left fst snd]. rewrite Hq', Hq. reflexivity.
    + intros t Hn. cbn [map concat fst] in Hn. rewrite Ht', Ht.
      * reflexivity.
      * intros Hin. apply Hn. apply in_or_app. left. exact Hin.
      * intros Hin. apply Hn. apply in_or_app. right. exact Hin.
Qed.

(* ---------- Stack: row i of every feature's value belongs to losses[i] ---------- *)
Lemma stack_of_tasks features (ds : list (@tdict R)) (ls : list tid) dS :
  ls <> [] -> NoDup features ->
  map ditems ds
  = map (fun l => map (fun f => (f, plain (p_shape P f) (grad_of P l f))) features) ls ->
  stack_dicts RN P ds = Ok dS ->
  dk dS = KJacobians /\
  forall f, In f features -> t_rows (dget' dS f) = map (fun l => grad_of P l f) ls.
Proof.
  intros Hne Hnd Hmap H. unfold stack_dicts in H. apply mk_dict_ok in H. subst dS.
  split; [reflexivity|]. intros f Hf.
  assert (Hkeys : dedup (flat_map dkeys ds) = features).
  { rewrite flat_map_concat_map.
    replace (map dkeys ds) with (map (map fst) (map ditems ds))
      by (rewrite map_map; reflexivity).
    rewrite Hmap, map_map.
    replace (map (fun l => map fst (map (fun f0 => (f0, plain (p_shape P f0) (grad_of P l f0)))
                                        features)) ls)
      with (map (fun _ : tid => features) ls)
      by (apply map_ext; intros l; rewrite keys_of_items; reflexivity).
    rewrite <- flat_map_concat_map. apply dedup_repeat_keys; assumption. }
  rewrite Hkeys.
  rewrite (dget'_items (fun k => mkTens true (p_shape P k)
             (map (fun d => match dget d k with
                            | Some v => flat v
                            | None => vzero RN (pnumel P k)
                            end) ds)) KJacobians features f Hf).
  cbn [t_rows].
  transitivity (map (fun it => match assoc f it with
                               | Some v => flat v
                               | None => vzero RN (pnumel P f)
                               end) (map ditems ds)).
  { rewrite map_map. reflexivity. }
  rewrite Hmap, map_map. apply map_ext. intros l.
  pose proof (assoc_map_key (fun f0 => plain (p_shape P f0) (grad_of P l f0)) features f Hf) as E.
  unfold tid in *. rewrite E. unfold flat, plain. cbn [t_rows concat]. apply app_nil_r.
Qed.

(* ---------- Jac: pulling the rows back to the shared parameters ---------- *)
Lemma jac_run_mtl features shared k retain s dS d2 s2 ls :
  wf_prog P -> features <> [] -> shared <> [] -> valid_chunk k = true ->
  (1 <= length ls)%nat -> dk dS = KJacobians ->
  (forall f, In f features -> t_rows (dget' dS f) = map (fun l => grad_of P l f) ls) ->
  run RN P A (TJac features shared k retain) s dS = (Ok d2, s2) ->
  s_grads s2 = s_grads s /\
  d2 = sdict KJacobians true (fun jk => p_shape P (snd jk)) (map (pnumel P) shared)
             (mtl_matrix P features shared ls) shared.
Proof.
  intros Hwf Hfe Hse Hk Hm Hdk Hrows H.
  apply run_jac_inv in H; [|exact Hfe|exact Hse]. destruct H as (matrix & Hj & Hd2).
  assert (Hn : nrows (dget' dS (hd O features)) = length ls).
  { unfold nrows. rewrite Hrows; [apply map_length|].
    destruct features as [|f0 fs]; [congruence | left; reflexivity]. }
  rewrite Hn in Hj. apply jac_chunks_ok in Hj. destruct Hj as [HM Hg].
  rewrite run_plan_rows in HM by assumption.
  split; [exact Hg|].
  assert (HJ : matrix = mtl_matrix P features shared ls).
  { rewrite HM. unfold mtl_matrix.
    rewrite <- (map_seq_nth (mtl_row P features shared) ls O).
    apply map_ext_in. intros r Hr. apply in_seq in Hr. unfold jac_row, mtl_row. cbv zeta.
    f_equal. apply map_ext. intros p. rewrite materialize_vjp by exact Hwf. f_equal.
    apply map_ext_in. intros f Hf. rewrite Hrows by exact Hf.
    rewrite (nth_map_lt _ ls r [] O) by lia. reflexivity. }
  rewrite HJ, Hdk in Hd2. exact Hd2.
Qed.

(* ---------- the entry point ---------- *)
Lemma mtl_model_inv losses features tasks shared k retain s d' s' :
  mtl_backward_model RN P A losses features tasks shared k retain s = (Ok d', s') ->
  mtl_args_ok P losses features tasks shared k retain = true /\
  run RN P A (mtl_transform losses features tasks shared k retain) s empty_dict = (Ok d', s').
Proof.
  intros H. destruct (mtl_args_ok P losses features tasks shared k retain) eqn:E.
  - rewrite (mtl_args_accepted RN P A _ _ _ _ _ _ s E) in H. split; [reflexivity | exact H].
  - rewrite (mtl_args_rejected RN P A _ _ _ _ _ _ s E) in H. discriminate.
Qed.

(* everything up to (and including) the Stack of the task transforms *)
Lemma mtl_front losses features tasks shared k retain s d' s' :
  wf_prog P ->
  mtl_backward_model RN P A losses features tasks shared k retain s = (Ok d', s') ->
  valid_chunk k = true /\ features <> [] /\ NoDup shared /\ losses <> [] /\
  (forall x, In x (concat tasks) -> In x shared -> False) /\
  exists dS s1 d2 s2 d5 s5,
    dk dS = KJacobians /\
    (forall f, In f features -> t_rows (dget' dS f) = map (fun l => grad_of P l f) losses) /\
    (forall q, grad_val s1 q = task_updates P tasks losses q (grad_val s q)) /\
    (forall t, ~ In t (concat tasks) -> sget s1 t = sget s t) /\
    run RN P A (TJac features shared k retain) s1 dS = (Ok d2, s2) /\
    run RN P A (TAggregate shared) s2 d2 = (Ok d5, s5) /\
    run RN P A (TAccumulate shared) s5 d5 = (Ok d', s').
Proof.
  intros Hwf H. apply mtl_model_inv in H. destruct H as [Hok Hrun].
  apply mtl_args_ok_inv in Hok.
  destruct Hok as (Hk & Hfe & Hint & Hsh & Hle & Hlen & _ & Hwft).
  apply wf_mtl_inv in Hwft. destruct Hwft as (Hnf & Hns & Hnt).
  apply nodupb_NoDup in Hnf. apply nodupb_NoDup in Hns.
  assert (Hfe' : features <> []) by (intros ->; discriminate Hfe).
  assert (Hle' : losses <> []) by (intros ->; discriminate Hle).
  split; [exact Hk|]. split; [exact Hfe'|]. split; [exact Hns|]. split; [exact Hle'|].
  split.
  { intros x Hx Hs. apply (inter_nil_disjoint (concat tasks) shared x); try assumption.
    destruct (inter (concat tasks) shared); [reflexivity | discriminate Hint]. }
  unfold mtl_transform in Hrun.
  apply run_comp_inv in Hrun. destruct Hrun as (d5 & s5 & Hrun & Hacc).
  apply run_comp_inv in Hrun. destruct Hrun as (d2 & s2 & Hrun & Hagg).
  apply run_comp_inv in Hrun. destruct Hrun as (dS & s1 & Hst & Hjac).
  apply run_stack_inv in Hst. destruct Hst as (ds & Hl & Hsd).
  apply tasks_run in Hl; [|exact Hwf|exact Hfe'|].
  2:{ intros ps l Hin. split.
      - apply nodupb_NoDup. exact (Hnt ps l Hin).
      - apply in_combine_r in Hin. rewrite forallb_forall in Hsh. apply Hsh in Hin.
        destruct (p_shape P l); [reflexivity | discriminate Hin]. }
  destruct Hl as (Hds & Hq & Ht).
  assert (Hlen' : length tasks = length losses) by (symmetry; exact Hlen).
  rewrite (map_fst_combine_eq tasks losses Hlen') in Ht.
  assert (Hds' : map ditems ds
    = map (fun l => map (fun f => (f, plain (p_shape P f) (grad_of P l f))) features) losses).
  { rewrite Hds. rewrite <- (map_snd_combine_eq tasks losses Hlen') at 2.
    rewrite map_map. reflexivity. }
  destruct (stack_of_tasks features ds losses dS Hle' Hnf Hds' Hsd) as [Hdk Hrows].
  exists dS, s1, d2, s2, d5, s5.
  split; [exact Hdk|]. split; [exact Hrows|]. split; [exact Hq|]. split; [exact Ht|].
  split; [exact Hjac|]. split; [exact Hagg | exact Hacc].
Qed.

(* an accepted mtl_backward call adds
   - to every shared parameter its own slice of A(M), M the matrix whose i-th row is the gradient of
     losses[i] w.r.t. the shared parameters back-propagated THROUGH the features (row i belongs to
     losses[i]; any number of features of any shapes);
   - to every task-specific parameter, for each task that lists it (in task order), the gradient of
     that task's loss w.r.t. it;
   and nothing else changes *)
Lemma mtl_deposit : forall losses features tasks shared k retain s d' s',
  wf_prog P -> shared <> [] ->
  mtl_backward_model RN P A losses features tasks shared k retain s = (Ok d', s') ->
  exists v, A (mtl_matrix P features shared losses) = Ok v /\ length v = total P shared /\
    (forall p, In p shared ->
       grad_val s' p = Some (acc_val (grad_val s p) (plain (p_shape P p) (slice_of P shared v p)))) /\
    (forall q, In q (concat tasks) -> grad_val s' q = task_updates P tasks losses q (grad_val s q)) /\
    (forall t, ~ In t (shared ++ concat tasks) -> sget s' t = sget s t).
Proof.
  intros losses features tasks shared k retain s d' s' Hwf Hse H.
  apply mtl_front in H; [|exact Hwf].
  destruct H as (Hk & Hfe & Hns & Hle & Hdisj & dS & s1 & d2 & s2 & d5 & s5 &
                 Hdk & Hrows & Hq & Ht & Hjac & Hagg & Hacc).
  assert (Hm : (1 <= length losses)%nat).
  { destruct losses as [|l0 ls]; [congruence | cbn [length]; lia]. }
  apply (jac_run_mtl features shared k retain s1 dS d2 s2 losses) in Hjac; try assumption.
  destruct Hjac as [Hg ->].
  apply aggregate_run in Hagg; [|exact Hns|exact Hse|apply wfmat_mtl_matrix; exact Hwf].
  destruct Hagg as (-> & v & HA & Hlv & ->).
  apply run_accumulate_inv in Hacc. destruct Hacc as (_ & _ & ->). cbn [ditems].
  assert (Hkeys : map fst (map (fun kp : nat * list R =>
                    (fst kp, plain (p_shape P (fst kp)) (snd kp)))
                    (combine shared (split_by (map (pnumel P) shared) v))) = shared).
  { apply keys_combine_items. rewrite split_by_length, map_length. reflexivity. }
  exists v. split; [exact HA|]. split; [exact Hlv|]. split; [|split].
  - intros p Hp.
    rewrite (fold_accumulate_in _ s2 p (plain (p_shape P p) (slice_of P shared v p))).
    + f_equal. f_equal. rewrite (grad_val_grads_eq s2 s1 p Hg). unfold grad_val.
      rewrite Ht; [reflexivity|]. intros Hin. exact (Hdisj p Hin Hp).
    + pose proof Hns as Hns'. rewrite <- Hkeys in Hns'. exact Hns'.
    + apply in_map_iff. exists (p, slice_of P shared v p). split; [reflexivity|].
      apply slice_in_combine. exact Hp.
  - intros q Hin. unfold grad_val at 1. rewrite fold_accumulate_other.
    + fold (grad_val s2 q). rewrite (grad_val_grads_eq s2 s1 q Hg). apply Hq.
    + intros Hs. apply (Hdisj q Hin). rewrite <- Hkeys. exact Hs.
  - intros t Hn. rewrite fold_accumulate_other.
    + rewrite (sget_grads_eq s2 s1 t Hg). apply Ht.
      intros Hin. apply Hn. apply in_or_app. right. exact Hin.
    + intros Hin. apply Hn. apply in_or_app. left. rewrite <- Hkeys. exact Hin.
Qed.

(* with no shared parameter only the task-specific gradients are deposited *)
Lemma mtl_no_shared : forall losses features tasks k retain s d' s',
  wf_prog P ->
  mtl_backward_model RN P A losses features tasks [] k retain s = (Ok d', s') ->
  (forall q, In q (concat tasks) -> grad_val s' q = task_updates P tasks losses q (grad_val s q)) /\
  (forall t, ~ In t (concat tasks) -> sget s' t = sget s t).
Proof.
  intros losses features tasks k retain s d' s' Hwf H.
  apply mtl_front in H; [|exact Hwf].
  destruct H as (Hk & Hfe & Hns & Hle & Hdisj & dS & s1 & d2 & s2 & d5 & s5 &
                 Hdk & Hrows & Hq & Ht & Hjac & Hagg & Hacc).
  apply run_jac_noins in Hjac. subst s2.
  unfold TAggregate in Hagg.
  apply run_comp_inv in Hagg. destruct Hagg as (d4 & s4 & Hagg & Hre).
  apply run_comp_inv in Hagg. destruct Hagg as (d3 & s3 & Hma & Hag).
  apply run_matrixify_inv in Hma. destruct Hma as [-> _].
  apply run_aggmat_inv in Hag. destruct Hag as [-> [[_ ->] | (Hc & _)]]; [|congruence].
  apply run_reshape_inv in Hre. destruct Hre as [-> ->].
  apply run_accumulate_inv in Hacc. destruct Hacc as (_ & _ & ->).
  cbn [ditems empty_dict map fold_left].
  split.
  - intros q _. apply Hq.
  - exact Ht.
Qed.

End C02.

Print Assumptions mtl_deposit.
Print Assumptions mtl_no_shared.
