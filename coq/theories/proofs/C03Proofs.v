(* C03Proofs.v — UPGrad / DualProj models against the QP facts of QPProofs.v *)
From Coq Require Import Reals List Bool Arith Lia Lra Psatz.
From TJ Require Import Num Linalg NumR Agg.
From TJ.proofs Require Import LinalgR QPProofs.
Import ListNotations.
Local Open Scope R_scope.

Definition pref_ok (pref : option (list R)) (m : nat) : Prop :=
  match pref with Some p => length p = m | None => True end.
Definition pref_u (pref : option (list R)) (m : nat) : list R :=
  match pref with Some p => p | None => mean_weights RN m end.

Lemma pref_weights_ok pref m : pref_ok pref m ->
  pref_weights pref (mean_weights RN m) m = Ok (pref_u pref m).
Proof.
  destruct pref as [p|]; cbn; intros H; [|reflexivity].
  unfold constant_weights. rewrite H, Nat.eqb_refl. reflexivity.
Qed.

Lemma pref_weights_bad p m : length p <> m ->
  pref_weights (Some p) (mean_weights RN m) m = Err ValueError.
Proof.
  intros H. cbn. unfold constant_weights. destruct (Nat.eqb_spec (length p) m); [contradiction|reflexivity].
Qed.

Lemma length_pref_u pref m : pref_ok pref m -> length (pref_u pref m) = m.
Proof. destruct pref; cbn; auto. intros _. unfold mean_weights. apply repeat_length. Qed.

Lemma ncols_wf n (J : list (list R)) : wfmat n J -> J <> [] -> ncols J = n.
Proof. destruct J as [|r J]; [congruence|]. intros H _. apply Forall_cons_iff in H. apply H. Qed.

Section Spec.
Variables (n : nat) (J : list (list R)) (s ne re : R) (pref : option (list R)).
Variable qp : list (list R) -> list R -> list R.
Hypothesis HJ : wfmat n J.
Hypothesis Hs : 0 < s.
Hypothesis Hne : nltb RN s ne = false.
Hypothesis Hre : 0 < re.
Hypothesis Hpref : pref_ok pref (length J).
Let m := length J.
Let u := pref_u pref m.
Let M := reg_norm_gramian RN (gramR J) s ne re.

(* DualProj: the output is w . J for THE minimiser w of v^T M v, v >= u *)
Theorem dualproj_spec : is_min m M u (qp M u) ->
  agg_dualproj RN qp pref s ne re J = Ok (combineR J (qp M u)) /\
  (forall w', is_min m M u w' -> w' = qp M u).
Proof.
  intros Hq. split.
  - unfold agg_dualproj. rewrite pref_weights_ok by exact Hpref. reflexivity.
  - intros w' Hw'. eapply (min_unique n J s ne re); eauto.
Qed.

(* UPGrad: sum over i of THE minimisers for u_i e_i *)
Definition up_u (i : nat) : list R := onehotR m i (vget RN u i).

Theorem upgrad_spec : (forall i, (i < m)%nat -> is_min m M (up_u i) (qp M (up_u i))) ->
  agg_upgrad RN qp pref s ne re J =
    Ok (combineR J (vsum_rows RN m (map (fun i => qp M (up_u i)) (seq 0 m)))) /\
  (forall i w', (i < m)%nat -> is_min m M (up_u i) w' -> w' = qp M (up_u i)).
Proof.
  intros Hq. split.
  - unfold agg_upgrad. rewrite pref_weights_ok by exact Hpref. cbn [rbind].
    unfold upgrad_weights. fold m. fold u.
    assert (Hlu : length u = m) by (apply length_pref_u; exact Hpref).
    rewrite Hlu. reflexivity.
  - intros i w' Hi Hw'. eapply (min_unique n J s ne re); eauto.
Qed.

(* allowances (C04) *)
Theorem dualproj_nonconflicting i : is_min m M u (qp M u) -> (i < m)%nat ->
  - re * (s * s) * nth i (qp M u) 0 <= nth i (mvR J (combineR J (qp M u))) 0.
Proof.
  intros Hq Hi. unfold combine_rows. rewrite (ncols_wf n) by (auto; intros E; unfold m in Hi; rewrite E in Hi; cbn in Hi; lia).
  eapply (dualproj_allowance n J s ne re); eauto.
Qed.

Theorem upgrad_nonconflicting i :
  (forall k, (k < m)%nat -> is_min m M (up_u k) (qp M (up_u k))) -> (i < m)%nat ->
  let w := vsum_rows RN m (map (fun k => qp M (up_u k)) (seq 0 m)) in
  - re * (s * s) * nth i w 0 <= nth i (mvR J (combineR J w)) 0.
Proof.
  intros Hq Hi w. unfold combine_rows. rewrite (ncols_wf n) by (auto; intros E; unfold m in Hi; rewrite E in Hi; cbn in Hi; lia).
  apply (upgrad_allowance n J s ne re HJ Hs Hne _ (map up_u (seq 0 m))); auto.
  clear -Hq. assert (forall k, In k (seq 0 m) -> (k < m)%nat) as Hin by (intros k Hk; apply in_seq in Hk; lia).
  induction (seq 0 m) as [|k l IH]; cbn [map]; constructor.
  - apply Hq. apply Hin. left; reflexivity.
  - apply IH. intros k' Hk'. apply Hin. right; exact Hk'.
Qed.

(* no conflict: both return u . J *)
Hypothesis Hnc : forall r r', In r J -> In r' J -> 0 <= dotR r r'.
Hypothesis Hu : nonneg u.

Theorem dualproj_no_conflict : is_min m M u (qp M u) ->
  agg_dualproj RN qp pref s ne re J = Ok (combineR J u).
Proof.
  intros Hq. destruct (dualproj_spec Hq) as [E _]. rewrite E. f_equal. f_equal.
  eapply (no_conflict_unique n J s ne re); eauto. apply length_pref_u; exact Hpref.
Qed.

Lemma nonneg_onehot k i x : 0 <= x -> nonneg (onehotR k i x).
Proof.
  intros Hx. revert i; induction k as [|k IH]; intros i; [constructor|].
  destruct i; cbn [onehot]; constructor; try (rn; lra); try apply IH.
  unfold vzero. apply Forall_forall. intros y Hy. apply repeat_spec in Hy. subst. rn. lra.
Qed.

Lemma nonneg_nth v i : nonneg v -> 0 <= nth i v 0.
Proof.
  intros Hv; revert i; induction Hv as [|x v Hx Hv IH]; intros [|i]; cbn; try lra. apply IH.
Qed.

Lemma vsum_rows_cons0 k W : vsum_rows RN (S k) (map (cons 0) W) = 0 :: vsum_rows RN k W.
Proof.
  induction W as [|r W IH]; [reflexivity|]. cbn [map vsum_rows]. rewrite IH. cbn [vadd]. rn.
  f_equal. lra.
Qed.

Lemma sum_onehots (v : list R) :
  vsum_rows RN (length v) (map (fun i => onehotR (length v) i (nth i v 0)) (seq 0 (length v))) = v.
Proof.
  induction v as [|x v IH]; [reflexivity|].
  cbn [length seq map vsum_rows onehot nth]. rewrite <- seq_shift, map_map. cbn [onehot nth].
  rewrite (map_ext _ (fun i : nat => cons 0 (onehotR (length v) i (nth i v 0))))
    by (intros; reflexivity).
  rewrite <- (map_map (fun i => onehotR (length v) i (nth i v 0)) (cons 0)).
  rewrite vsum_rows_cons0, IH. cbn [vadd]. rewrite vadd_vzero_l by reflexivity. rn. f_equal. lra.
Qed.

Theorem upgrad_no_conflict :
  (forall i, (i < m)%nat -> is_min m M (up_u i) (qp M (up_u i))) ->
  agg_upgrad RN qp pref s ne re J = Ok (combineR J u).
Proof.
  intros Hq. destruct (upgrad_spec Hq) as [E _]. rewrite E. f_equal. f_equal.
  assert (Hlu : length u = m) by (apply length_pref_u; exact Hpref).
  transitivity (vsum_rows RN m (map (fun i => onehotR m i (nth i u 0)) (seq 0 m)));
    [|rewrite <- Hlu; apply sum_onehots].
  f_equal. apply map_ext_in. intros i Hi.
  apply in_seq in Hi.
  eapply (no_conflict_unique n J s ne re); eauto.
  - unfold up_u. apply length_onehot.
  - unfold up_u. apply nonneg_onehot. unfold vget. apply nonneg_nth. exact Hu.
  - apply Hq. lia.
Qed.

End Spec.

(* below norm_eps: u . J as well *)
Theorem dualproj_below_norm_eps J s ne re pref qp :
  nltb RN s ne = true -> 0 < re -> pref_ok pref (length J) ->
  let m := length J in let u := pref_u pref m in
  let M := reg_norm_gramian RN (gramR J) s ne re in
  nonneg u -> is_min m M u (qp M u) ->
  agg_dualproj RN qp pref s ne re J = Ok (combineR J u).
Proof.
  intros Hne Hre Hp m u M Hu Hq. unfold agg_dualproj. rewrite pref_weights_ok by exact Hp.
  cbn [rbind]. f_equal. f_equal. unfold dualproj_weights.
  apply (below_norm_eps_unique (gramR J) s ne re); auto.
  - rewrite length_gram. apply length_pref_u; exact Hp.
  - rewrite length_gram. exact Hq.
Qed.
