(* C05Proofs.v — linear (fixed-weight) aggregators: what backward deposits is exactly what
   torch.autograd.backward(tensors, grad_tensors = the weights split per tensor) accumulates;
   the enumeration order of the inputs is irrelevant; mtl_backward with fixed weights. *)
From Coq Require Import Reals List Bool Arith Lia Lra Permutation.
From TJ Require Import Num Linalg NumR Chunk Agg Autojac.
From TJ.proofs Require Import LinalgR ChunkProofs AutojacBasics AutojacSpec C01Proofs.
Import ListNotations.
Local Open Scope R_scope.

(* ---------- slices of vectors ---------- *)
Definition sl (off len : nat) (v : list R) : list R := firstn len (skipn off v).

Lemma vadd_nil_r a : vaddR a [] = [].
Proof. destruct a; reflexivity. Qed.

Lemma firstn_vadd n : forall a b, firstn n (vaddR a b) = vaddR (firstn n a) (firstn n b).
Proof.
  induction n as [|n IH]; intros a b; [reflexivity|].
  destruct a as [|x a]; [reflexivity|]. destruct b as [|y b]; [reflexivity|].
  cbn [vadd firstn]. rewrite IH. reflexivity.
Qed.

Lemma skipn_vadd n : forall a b, skipn n (vaddR a b) = vaddR (skipn n a) (skipn n b).
Proof.
  induction n as [|n IH]; intros a b; [reflexivity|].
  destruct a as [|x a]; [reflexivity|].
  destruct b as [|y b]; [cbn [vadd skipn]; rewrite vadd_nil_r; reflexivity|].
  cbn [vadd skipn]. apply IH.
Qed.

Lemma sl_vadd off len a b : sl off len (vaddR a b) = vaddR (sl off len a) (sl off len b).
Proof. unfold sl. rewrite skipn_vadd, firstn_vadd. reflexivity. Qed.

Lemma sl_vscale off len c a : sl off len (vscaleR c a) = vscaleR c (sl off len a).
Proof. unfold sl, vscale. rewrite skipn_map, firstn_map. reflexivity. Qed.

Lemma sl_vzero off len n : (off + len <= n)%nat -> sl off len (vzeroR n) = vzeroR len.
Proof.
  intros H. unfold sl. replace n with (off + (len + (n - off - len)))%nat by lia.
  rewrite skipn_vzero, firstn_vzero. reflexivity.
Qed.

Lemma sl_vm n off len : (off + len <= n)%nat -> forall w J,
  sl off len (vmR n w J) = vmR len w (map (sl off len) J).
Proof.
  intros H. induction w as [|x w IH]; intros J.
  - cbn [vm]. apply sl_vzero. exact H.
  - destruct J as [|r J]; cbn [vm map]; [apply sl_vzero; exact H|].
    rewrite sl_vadd, sl_vscale, IH. reflexivity.
Qed.

Lemma vadd_assoc : forall a b c, vaddR a (vaddR b c) = vaddR (vaddR a b) c.
Proof.
  induction a as [|x a IH]; intros b c; [reflexivity|].
  destruct b as [|y b]; [reflexivity|].
  destruct c as [|z c]; [reflexivity|].
  cbn [vadd]. rewrite IH. rn. f_equal. lra.
Qed.

(* w . (A stacked over B) *)
Lemma vm_app n : forall A a w B, length A = a -> wfmat n A -> wfmat n B ->
  vmR n w (A ++ B) = vaddR (vmR n (firstn a w) A) (vmR n (skipn a w) B).
Proof.
  induction A as [|r A IH]; intros a w B Ha HA HB; subst a.
  - cbn [length firstn skipn app]. cbn [vm]. symmetry. apply vadd_vzero_l.
    apply length_vm. exact HB.
  - apply Forall_cons_iff in HA. destruct HA as [Hr HA].
    destruct w as [|x w].
    + cbn [length firstn skipn app vm]. symmetry. apply vadd_vzero_vzero.
    + cbn [length firstn skipn app vm].
      rewrite (IH (length A) w B eq_refl HA HB). apply vadd_assoc.
Qed.

Lemma vm_map_fold {X} (h : X -> list R) n : forall w ls,
  vmR n w (map h ls)
  = fold_right (fun (wl : R * X) acc => vaddR (vscaleR (fst wl) (h (snd wl))) acc)
               (vzeroR n) (combine w ls).
Proof.
  induction w as [|x w IH]; intros ls; [reflexivity|].
  destruct ls as [|l ls]; [reflexivity|].
  cbn [map vm combine fold_right fst snd]. rewrite IH. reflexivity.
Qed.

Lemma ncols_wfmat n (J : list (list R)) : wfmat n J -> J <> [] -> ncols J = n.
Proof.
  intros HJ Hne. destruct J as [|r J]; [congruence|].
  apply Forall_cons_iff in HJ. destruct HJ as [Hr _]. exact Hr.
Qed.

(* ---------- sums over lists of keys ---------- *)
Definition sumR (f : nat -> R) (l : list nat) : R := fold_right (fun i acc => f i + acc) 0 l.

Lemma sumR_perm f l1 l2 : Permutation l1 l2 -> sumR f l1 = sumR f l2.
Proof.
  intros Hp. unfold sumR.
  induction Hp as [|x l l' Hp IH|x y l|l l' l'' Hp1 IH1 Hp2 IH2]; cbn [fold_right] in *; lra.
Qed.

Lemma dot_app : forall a b c d, length a = length c ->
  dotR (a ++ b) (c ++ d) = dotR a c + dotR b d.
Proof.
  induction a as [|x a IH]; intros b c d H; destruct c as [|y c]; cbn [length] in H; try lia.
  - cbn [app]. rewrite dot_nil_l. lra.
  - cbn [app]. rewrite !dot_cons, IH by lia. lra.
Qed.

Lemma dot_concat (f g : nat -> list R) (l : list nat) :
  (forall i, In i l -> length (f i) = length (g i)) ->
  dotR (concat (map f l)) (concat (map g l)) = sumR (fun i => dotR (f i) (g i)) l.
Proof.
  induction l as [|x l IH]; intros H; [reflexivity|].
  cbn [map concat]. rewrite dot_app by (apply H; left; reflexivity).
  rewrite IH by (intros i Hi; apply H; right; exact Hi). reflexivity.
Qed.

Section C05.
Variable P : prog R.

(* ---------- slices ---------- *)
Lemma offset_bound ord i : In i ord -> (offset P ord i + pnumel P i <= total P ord)%nat.
Proof.
  induction ord as [|x ord IH]; intros Hi; [contradiction|].
  rewrite total_cons. cbn [offset]. destruct (Nat.eqb_spec x i) as [->|Hne]; [lia|].
  destruct Hi as [Hi|Hi]; [congruence|]. specialize (IH Hi). lia.
Qed.

Lemma slice_concat ord (g : nat -> list R) i : In i ord ->
  (forall j, In j ord -> length (g j) = pnumel P j) ->
  slice_of P ord (concat (map g ord)) i = g i.
Proof.
  induction ord as [|x ord IH]; intros Hi Hg; [contradiction|].
  unfold slice_of. cbn [offset map concat].
  destruct (Nat.eqb_spec x i) as [->|Hne].
  - cbn [skipn]. rewrite firstn_app, <- (Hg i (or_introl eq_refl)).
    rewrite Nat.sub_diag, firstn_all, firstn_O, app_nil_r. reflexivity.
  - destruct Hi as [Hi|Hi]; [congruence|].
    rewrite <- skipn_add. rewrite <- (Hg x (or_introl eq_refl)).
    rewrite skipn_app, skipn_all, Nat.sub_diag, skipn_O. cbn [app].
    apply (IH Hi). intros j Hj. apply Hg. right. exact Hj.
Qed.

Lemma slice_vm ord i w J : In i ord ->
  slice_of P ord (vmR (total P ord) w J) i
  = vmR (pnumel P i) w (map (fun row => slice_of P ord row i) J).
Proof.
  intros Hi.
  exact (sl_vm (total P ord) (offset P ord i) (pnumel P i) (offset_bound ord i Hi) w J).
Qed.

Lemma length_vjp outs i : wf_prog P -> forall cots, length (vjp RN P outs cots i) = pnumel P i.
Proof.
  intros Hwf. induction outs as [|o outs IH]; intros cots.
  - unfold vjp. cbn [combine fold_right]. apply length_vzero.
  - destruct cots as [|c cots].
    + unfold vjp. cbn [combine fold_right]. apply length_vzero.
    + rewrite vjp_cons. destruct Hwf as [Hdim Hz]. destruct (Hdim o i) as [_ HM].
      rewrite length_vadd; rewrite length_vm by exact HM; [reflexivity|].
      symmetry. apply IH.
Qed.

Lemma ncols_jacobian tensors ord : wf_prog P -> (1 <= total P tensors)%nat ->
  ncols (jacobian P tensors ord) = total P ord.
Proof.
  intros Hwf Hm. apply ncols_wfmat; [apply wfmat_jacobian; exact Hwf|].
  unfold jacobian. destruct (total P tensors) as [|m]; [lia|]. cbn [seq map]. discriminate.
Qed.

Lemma length_jacobian tensors ord : length (jacobian P tensors ord) = total P tensors.
Proof. unfold jacobian. rewrite map_length, seq_length. reflexivity. Qed.

Lemma slice_jacobian tensors ord i : wf_prog P -> In i ord ->
  map (fun row => slice_of P ord row i) (jacobian P tensors ord) = Drows P tensors i.
Proof.
  intros Hwf Hi. unfold jacobian. rewrite map_map.
  transitivity (map (fun r => nth r (Drows P tensors i) []) (seq 0 (total P tensors))).
  - apply map_ext_in. intros r Hr. apply in_seq in Hr.
    apply (slice_concat ord (fun j => nth r (Drows P tensors j) []) i Hi).
    intros j _. apply wfmat_nth; [apply wfmat_Drows; exact Hwf|].
    rewrite length_Drows by exact Hwf. lia.
  - apply map_nth_seq'. symmetry. apply length_Drows. exact Hwf.
Qed.

(* w . (the stacked derivative) = the vector-Jacobian product with w split per output *)
Lemma vm_Drows i : wf_prog P -> forall tensors w,
  vmR (pnumel P i) w (Drows P tensors i)
  = vjp RN P tensors (split_by (map (pnumel P) tensors) w) i.
Proof.
  intros Hwf. induction tensors as [|o outs IH]; intros w.
  - destruct w; reflexivity.
  - rewrite Drows_cons. cbn [map split_by]. rewrite vjp_cons.
    pose proof Hwf as [Hdim _]. destruct (Hdim o i) as [HlenD HM].
    rewrite (vm_app (pnumel P i) (p_D P o i) (pnumel P o) w (Drows P outs i) HlenD HM
                    (wfmat_Drows P outs i Hwf)).
    rewrite IH. reflexivity.
Qed.

Lemma weighted_slice : forall tensors ord w i,
  wf_prog P -> NoDup ord -> In i ord -> (1 <= total P tensors)%nat ->
  length w = total P tensors ->
  slice_of P ord (combine_rows RN (jacobian P tensors ord) w) i
  = vjp RN P tensors (split_by (map (pnumel P) tensors) w) i.
Proof.
  intros tensors ord w i Hwf Hnd Hi Hm Hlw.
  unfold combine_rows. rewrite ncols_jacobian by assumption.
  rewrite slice_vm by exact Hi. rewrite slice_jacobian by assumption.
  apply vm_Drows. exact Hwf.
Qed.

(* ---------- the deposits of the fixed weightings ---------- *)
Lemma deposit_of_weights : forall A w tensors ord k retain s d' s',
  wf_prog P -> ord <> [] -> (1 <= total P tensors)%nat ->
  length w = total P tensors ->
  A (jacobian P tensors ord) = Ok (combine_rows RN (jacobian P tensors ord) w) ->
  backward_model RN P A tensors ord k retain s = (Ok d', s') ->
  forall i, In i ord ->
    grad_val s' i = Some (acc_val (grad_val s i)
      (plain (p_shape P i)
         (materialize RN P i (ag_value RN P tensors (split_by (map (pnumel P) tensors) w) i)))).
Proof.
  intros A w tensors ord k retain s d' s' Hwf Hord Hm Hlw HAw H i Hi.
  destruct (backward_deposit P A tensors ord k retain s d' s' Hwf Hord Hm H)
    as (Hnt & Hno & v & HA & Hlv & Hdep & _).
  rewrite HAw in HA. injection HA as <-.
  rewrite (Hdep i Hi). rewrite materialize_vjp by exact Hwf.
  rewrite weighted_slice by assumption. reflexivity.
Qed.

Lemma constant_deposit : forall w tensors ord k retain s d' s',
  wf_prog P -> ord <> [] -> (1 <= total P tensors)%nat ->
  backward_model RN P (agg_constant RN w) tensors ord k retain s = (Ok d', s') ->
  length w = total P tensors /\
  forall i, In i ord ->
    grad_val s' i = Some (acc_val (grad_val s i)
      (plain (p_shape P i)
         (materialize RN P i (ag_value RN P tensors (split_by (map (pnumel P) tensors) w) i)))).
Proof.
  intros w tensors ord k retain s d' s' Hwf Hord Hm H.
  destruct (backward_deposit P (agg_constant RN w) tensors ord k retain s d' s' Hwf Hord Hm H)
    as (Hnt & Hno & v & HA & Hlv & Hdep & _).
  assert (HA' : agg_constant RN w (jacobian P tensors ord)
                = Ok (combine_rows RN (jacobian P tensors ord) w) /\
                length w = total P tensors).
  { revert HA. unfold agg_constant, weighted, constant_weights. rewrite length_jacobian.
    destruct (Nat.eqb_spec (length w) (total P tensors)) as [E|E]; cbn [rbind];
      [|discriminate].
    intros _. split; [reflexivity | exact E]. }
  destruct HA' as [HAw Hlw]. split; [exact Hlw|].
  exact (deposit_of_weights (agg_constant RN w) w tensors ord k retain s d' s'
           Hwf Hord Hm Hlw HAw H).
Qed.

Lemma sum_deposit : forall tensors ord k retain s d' s',
  wf_prog P -> ord <> [] -> (1 <= total P tensors)%nat ->
  backward_model RN P (fun J => Ok (agg_sum RN J)) tensors ord k retain s = (Ok d', s') ->
  forall i, In i ord ->
    grad_val s' i = Some (acc_val (grad_val s i)
      (plain (p_shape P i)
         (materialize RN P i (ag_value RN P tensors
            (split_by (map (pnumel P) tensors) (repeat 1 (total P tensors))) i)))).
Proof.
  intros tensors ord k retain s d' s' Hwf Hord Hm H.
  apply (deposit_of_weights (fun J => Ok (agg_sum RN J)) (repeat 1 (total P tensors))
           tensors ord k retain s d' s' Hwf Hord Hm); [apply repeat_length | | exact H].
  cbv beta. unfold agg_sum, sum_weights. rewrite length_jacobian. reflexivity.
Qed.

Lemma mean_deposit : forall tensors ord k retain s d' s',
  wf_prog P -> ord <> [] -> (1 <= total P tensors)%nat ->
  backward_model RN P (fun J => Ok (agg_mean RN J)) tensors ord k retain s = (Ok d', s') ->
  forall i, In i ord ->
    grad_val s' i = Some (acc_val (grad_val s i)
      (plain (p_shape P i)
         (materialize RN P i (ag_value RN P tensors
            (split_by (map (pnumel P) tensors)
                      (repeat (1 / INR (total P tensors)) (total P tensors))) i)))).
Proof.
  intros tensors ord k retain s d' s' Hwf Hord Hm H.
  apply (deposit_of_weights (fun J => Ok (agg_mean RN J))
           (repeat (1 / INR (total P tensors)) (total P tensors))
           tensors ord k retain s d' s' Hwf Hord Hm); [apply repeat_length | | exact H].
  cbv beta. unfold agg_mean, mean_weights. rewrite length_jacobian. reflexivity.
Qed.

(* ---------- the enumeration order of the inputs ---------- *)
Lemma gram_jacobian_perm : forall outs ord1 ord2,
  wf_prog P -> Permutation ord1 ord2 ->
  gram RN (jacobian P outs ord1) = gram RN (jacobian P outs ord2).
Proof.
  intros outs ord1 ord2 Hwf Hp. unfold jacobian, gram. rewrite !map_map.
  apply map_ext_in. intros r Hr. apply in_seq in Hr. rewrite !map_map.
  apply map_ext_in. intros r' Hr'. apply in_seq in Hr'.
  assert (Hlen : forall i, length (nth r (Drows P outs i) []) = length (nth r' (Drows P outs i) [])).
  { intros i. rewrite !(wfmat_nth (pnumel P i)); try (apply wfmat_Drows; exact Hwf);
      try (rewrite length_Drows by exact Hwf; lia). reflexivity. }
  rewrite !dot_concat by (intros i _; apply Hlen).
  apply sumR_perm. exact Hp.
Qed.

Lemma weighted_order_irrelevant : forall (omega : list (list R) -> list R) tensors ord1 ord2 i,
  wf_prog P -> NoDup ord1 -> Permutation ord1 ord2 -> In i ord1 -> (1 <= total P tensors)%nat ->
  length (omega (gram RN (jacobian P tensors ord1))) = total P tensors ->
  slice_of P ord1 (combine_rows RN (jacobian P tensors ord1) (omega (gram RN (jacobian P tensors ord1)))) i
  = slice_of P ord2 (combine_rows RN (jacobian P tensors ord2) (omega (gram RN (jacobian P tensors ord2)))) i.
Proof.
  intros omega tensors ord1 ord2 i Hwf Hnd Hp Hi Hm Hlen.
  rewrite <- (gram_jacobian_perm tensors ord1 ord2 Hwf Hp).
  rewrite weighted_slice by assumption.
  rewrite weighted_slice;
    [reflexivity | exact Hwf | apply (Permutation_NoDup Hp Hnd) | apply (Permutation_in i Hp Hi)
     | exact Hm | exact Hlen].
Qed.

(* ---------- mtl_backward with fixed weights ---------- *)
Lemma mtl_weighted_slice : forall features shared losses w p,
  wf_prog P -> NoDup shared -> In p shared -> losses <> [] -> length w = length losses ->
  (forall l f, In l losses -> In f features -> length (grad_of P l f) = pnumel P f) ->
  slice_of P shared (combine_rows RN (mtl_matrix P features shared losses) w) p
  = fold_right (fun wl acc =>
                  vaddR (vscaleR (fst wl) (vjp RN P features (map (grad_of P (snd wl)) features) p)) acc)
               (vzeroR (pnumel P p)) (combine w losses).
Proof.
  intros features shared losses w p Hwf Hnd Hp Hne Hlw _.
  unfold combine_rows.
  assert (HM : wfmat (total P shared) (mtl_matrix P features shared losses)).
  { unfold wfmat, mtl_matrix. apply Forall_forall. intros row Hrow.
    apply in_map_iff in Hrow. destruct Hrow as (l & <- & _).
    unfold mtl_row, total. apply length_concat_map. intros q _. apply length_vjp. exact Hwf. }
  rewrite (ncols_wfmat _ _ HM)
    by (unfold mtl_matrix; destruct losses; [congruence | discriminate]).
  rewrite slice_vm by exact Hp.
  assert (E : map (fun row => slice_of P shared row p) (mtl_matrix P features shared losses)
              = map (fun l => vjp RN P features (map (grad_of P l) features) p) losses).
  { unfold mtl_matrix. rewrite map_map. apply map_ext. intros l. unfold mtl_row.
    apply (slice_concat shared
             (fun q => vjp RN P features (map (grad_of P l) features) q) p Hp).
    intros q _. apply length_vjp. exact Hwf. }
  rewrite E.
  exact (vm_map_fold (fun l => vjp RN P features (map (grad_of P l) features) p)
                     (pnumel P p) w losses).
Qed.
End C05.

Print Assumptions weighted_slice.
Print Assumptions constant_deposit.
Print Assumptions sum_deposit.
Print Assumptions mean_deposit.
Print Assumptions gram_jacobian_perm.
Print Assumptions weighted_order_irrelevant.
Print Assumptions mtl_weighted_slice.
