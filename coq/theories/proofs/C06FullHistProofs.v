(* C06FullHistProofs.v — the refinement of the abstract .grad accumulator extended to ALL history
   operations: backward, mtl_backward, bare engine runs (torch.autograd.grad) and user edits. *)
From Coq Require Import Reals List Bool Arith Lia.
From TJ Require Import Num Linalg NumR Chunk Autojac Traverse History.
From TJ.proofs Require Import LinalgR AutojacBasics AutojacSpec EntrySpec C20Proofs C01Proofs C02Proofs
  C06Proofs C06HistProofs.
Import ListNotations.

Section C06F.
Variable P : prog R.

(* what an ACCEPTED mtl_backward call does to the .grad of t: shared parameters get their slice of
   A(M), task parameters the gradients of the tasks listing them (in order), everything else is kept *)
Definition mtl_update (A : list (list R) -> res (list R)) (losses features : list tid)
           (tasks : list (list tid)) (shared : list tid) (g : gmap) (t : tid) : option (@tens R) :=
  if mem t shared then
    match A (mtl_matrix P features shared losses) with
    | Ok v => Some (acc_val (g t) (plain (p_shape P t) (slice_of P shared v t)))
    | Err _ => g t
    end
  else if mem t (concat tasks) then task_updates P tasks losses t (g t)
  else g t.

(* ABSTRACT ACCUMULATOR for every operation kind.  A failed call (code <> 0) leaves every .grad
   alone; this is what the concrete model does for backward (always) and for mtl_backward when the
   failure is an argument rejection (see full_history_ok). *)
Definition abs_step_full (g : gmap) (h : @hop R) (code : nat) : gmap :=
  match h with
  | HMtl A losses features tasks shared k retain =>
      if (code =? 0)%nat then mtl_update A losses features tasks shared g else g
  | HTorchGrad _ _ _ => g
  | _ => abs_step P g h code
  end.

Fixpoint abs_run_full (g : gmap) (hs : list (@hop R)) (codes : list nat) : gmap :=
  match hs, codes with
  | h :: hs', c :: cs => abs_run_full (abs_step_full g h c) hs' cs
  | _, _ => g
  end.

(* the side condition of a single operation, relative to the store it is run in: backward calls are
   non-degenerate; an mtl_backward call either succeeds or is rejected for its arguments (a failure
   in the middle of the task transforms is NOT atomic) *)
Definition full_op_ok (s : @store R) (h : @hop R) : Prop :=
  match h with
  | HBackward _ tensors ord _ _ => ord <> [] /\ (1 <= total P tensors)%nat
  | HMtl A losses features tasks shared k retain =>
      shared <> [] /\
      (fst (hstep RN P s h) = 0%nat \/ mtl_args_ok P losses features tasks shared k retain = false)
  | _ => True
  end.

Fixpoint full_history_ok (s : @store R) (hs : list (@hop R)) : Prop :=
  match hs with
  | [] => True
  | h :: hs' =>
      (match h with
       | HBackward _ tensors ord _ _ => ord <> [] /\ (1 <= total P tensors)%nat
       | HMtl A losses features tasks shared k retain =>
           shared <> [] /\
           (fst (hstep RN P s h) = 0%nat \/ mtl_args_ok P losses features tasks shared k retain = false)
       | _ => True
       end) /\ full_history_ok (snd (hstep RN P s h)) hs'
  end.

(* the same without the requirement that mtl_backward calls have shared parameters *)
Definition full_op_ok_gen (s : @store R) (h : @hop R) : Prop :=
  match h with
  | HBackward _ tensors ord _ _ => ord <> [] /\ (1 <= total P tensors)%nat
  | HMtl A losses features tasks shared k retain =>
      fst (hstep RN P s h) = 0%nat \/ mtl_args_ok P losses features tasks shared k retain = false
  | _ => True
  end.

Fixpoint full_history_ok_gen (s : @store R) (hs : list (@hop R)) : Prop :=
  match hs with
  | [] => True
  | h :: hs' => full_op_ok_gen s h /\ full_history_ok_gen (snd (hstep RN P s h)) hs'
  end.

Lemma full_history_ok_cons : forall s h hs,
  full_history_ok s (h :: hs) -> full_op_ok s h /\ full_history_ok (snd (hstep RN P s h)) hs.
Proof. intros s h hs H. exact H. Qed.

Lemma full_op_ok_weaken : forall s h, full_op_ok s h -> full_op_ok_gen s h.
Proof.
  intros s h H.
  destruct h as [A tensors ord k retain|A losses features tasks shared k retain
                |outs ins retain|t0|t0|t0 v]; cbn [full_op_ok full_op_ok_gen] in *;
    try exact H.
  destruct H as [_ H]. exact H.
Qed.

Lemma full_history_ok_weaken : forall hs s, full_history_ok s hs -> full_history_ok_gen s hs.
Proof.
  intros hs. induction hs as [|h hs IH]; intros s H.
  - exact I.
  - apply full_history_ok_cons in H. destruct H as [Hh Hs].
    cbn [full_history_ok_gen]. split.
    + apply full_op_ok_weaken. exact Hh.
    + apply IH. exact Hs.
Qed.

(* ---------- the abstract accumulator only looks at its argument pointwise ---------- *)
Lemma mtl_update_ext : forall A losses features tasks shared (g g' : gmap),
  (forall t, g t = g' t) ->
  forall t, mtl_update A losses features tasks shared g t
            = mtl_update A losses features tasks shared g' t.
Proof.
  intros A losses features tasks shared g g' He t. unfold mtl_update.
  rewrite (He t). reflexivity.
Qed.

Lemma abs_step_full_ext : forall (g g' : gmap) h c,
  (forall t, g t = g' t) -> forall t, abs_step_full g h c t = abs_step_full g' h c t.
Proof.
  intros g g' h c He t.
  destruct h as [A tensors ord k retain|A losses features tasks shared k retain
                |outs ins retain|t0|t0|t0 v]; cbn [abs_step_full].
  - apply abs_step_ext. exact He.
  - destruct (c =? 0)%nat; [apply mtl_update_ext; exact He | apply He].
  - apply He.
  - apply abs_step_ext. exact He.
  - apply abs_step_ext. exact He.
  - apply abs_step_ext. exact He.
Qed.

Lemma abs_run_full_ext : forall hs cs (g g' : gmap),
  (forall t, g t = g' t) -> forall t, abs_run_full g hs cs t = abs_run_full g' hs cs t.
Proof.
  intros hs. induction hs as [|h hs IH]; intros cs g g' He t.
  - cbn [abs_run_full]. apply He.
  - destruct cs as [|c cs]; cbn [abs_run_full]; [apply He|].
    apply IH. apply abs_step_full_ext. exact He.
Qed.

(* on histories without mtl_backward / bare engine runs the two accumulators coincide *)
Lemma abs_run_full_simple : forall hs cs (g : gmap),
  simple_history P hs -> forall t, abs_run_full g hs cs t = abs_run P g hs cs t.
Proof.
  intros hs. induction hs as [|h hs IH]; intros cs g Hs t.
  - reflexivity.
  - apply simple_history_cons in Hs. destruct Hs as [Hh Hs].
    destruct cs as [|c cs]; cbn [abs_run_full abs_run]; [reflexivity|].
    rewrite (IH cs _ Hs t). apply abs_run_ext. intros t'.
    destruct h as [A tensors ord k retain|A losses features tasks shared k retain
                  |outs ins retain|t0|t0|t0 v]; cbn [simple_op] in Hh;
      try contradiction; reflexivity.
Qed.

(* ---------- bare engine runs never touch .grad ---------- *)
Lemma c06f_ag_sweep_grads : forall (s : @store R) outs ins rows b rt,
  s_grads (snd (ag_sweep P s outs ins rows b rt)) = s_grads s.
Proof.
  intros s outs ins rows b rt. unfold ag_sweep.
  destruct (negb _); [reflexivity|]. cbv zeta.
  destruct (existsb _ _); reflexivity.
Qed.

(* ---------- an ACCEPTED mtl_backward call: the concrete store follows mtl_update ---------- *)
Lemma mtl_accepted_refines : forall A losses features tasks shared k retain s d' s',
  wf_prog P ->
  mtl_backward_model RN P A losses features tasks shared k retain s = (Ok d', s') ->
  forall t, grad_val s' t = mtl_update A losses features tasks shared (grad_val s) t.
Proof.
  intros A losses features tasks shared k retain s d' s' Hwf Em t.
  destruct shared as [|p0 shared'] eqn:Esh.
  - (* no shared parameter *)
    destruct (mtl_no_shared P A losses features tasks k retain s d' s' Hwf Em) as [Hq Hout].
    unfold mtl_update. change (mem t []) with false. cbv iota.
    destruct (mem t (concat tasks)) eqn:Emt.
    + apply c20_mem_In in Emt. apply Hq. exact Emt.
    + unfold grad_val. rewrite Hout; [reflexivity|].
      intros Hi. apply c20_mem_In in Hi. rewrite Hi in Emt. discriminate Emt.
  - rewrite <- Esh in *.
    assert (Hse : shared <> []) by (rewrite Esh; discriminate).
    clear Esh p0 shared'.
    destruct (mtl_deposit P A losses features tasks shared k retain s d' s' Hwf Hse Em)
      as (v & HA & _ & Hin & Hq & Hout).
    unfold mtl_update.
    destruct (mem t shared) eqn:Ems.
    + apply c20_mem_In in Ems. rewrite HA. apply Hin. exact Ems.
    + destruct (mem t (concat tasks)) eqn:Emt.
      * apply c20_mem_In in Emt. apply Hq. exact Emt.
      * unfold grad_val. rewrite Hout; [reflexivity|].
        intros Hi. apply in_app_or in Hi. destruct Hi as [Hi|Hi]; apply c20_mem_In in Hi.
        -- rewrite Hi in Ems. discriminate Ems.
        -- rewrite Hi in Emt. discriminate Emt.
Qed.

(* ONE STEP of a history refines one step of the full abstract accumulator *)
Lemma hstep_refines_full : forall h s,
  wf_prog P -> full_op_ok_gen s h ->
  forall t, grad_val (snd (hstep RN P s h)) t
            = abs_step_full (grad_val s) h (fst (hstep RN P s h)) t.
Proof.
  intros h s Hwf Hh t.
  destruct h as [A tensors ord k retain|A losses features tasks shared k retain
                |outs ins retain|t0|t0|t0 v].
  - (* HBackward *)
    cbn [full_op_ok_gen] in Hh. cbn [abs_step_full].
    apply hstep_refines; [exact Hwf | exact Hh].
  - (* HMtl *)
    cbn [full_op_ok_gen] in Hh. unfold hstep in Hh |- *. cbv zeta in Hh |- *.
    cbn [fst snd] in Hh |- *.
    destruct (mtl_backward_model RN P A losses features tasks shared k retain s)
      as [[d'|e] s'] eqn:Em.
    + cbn [fst snd code_of abs_step_full Nat.eqb].
      apply (mtl_accepted_refines A losses features tasks shared k retain s d' s' Hwf Em).
    + cbn [fst snd] in Hh |- *.
      destruct Hh as [Hc|Hrej].
      * destruct e; cbn [code_of] in Hc; discriminate Hc.
      * rewrite (mtl_args_rejected RN P A losses features tasks shared k retain s Hrej) in Em.
        inversion Em as [[He Hs]]. cbn [code_of abs_step_full Nat.eqb]. reflexivity.
  - (* HTorchGrad *)
    unfold hstep. cbv zeta. cbn [fst snd abs_step_full].
    apply c06h_grad_val_same. apply c06f_ag_sweep_grads.
  - cbn [abs_step_full]. apply hstep_refines; [exact Hwf | exact I].
  - cbn [abs_step_full]. apply hstep_refines; [exact Hwf | exact I].
  - cbn [abs_step_full]. apply hstep_refines; [exact Hwf | exact I].
Qed.

(* REFINEMENT (general form: mtl_backward calls may have no shared parameter) *)
Theorem full_history_refines_accumulator_gen : forall hs s,
  wf_prog P -> full_history_ok_gen s hs ->
  forall t, grad_val (snd (hrun RN P s hs)) t
            = abs_run_full (grad_val s) hs (fst (hrun RN P s hs)) t.
Proof.
  intros hs. induction hs as [|h hs IH]; intros s Hwf Hs t.
  - cbn [hrun fst snd abs_run_full]. reflexivity.
  - cbn [full_history_ok_gen] in Hs. destruct Hs as [Hh Hs].
    cbn [hrun]. cbv zeta. cbn [fst snd abs_run_full].
    rewrite (IH (snd (hstep RN P s h)) Hwf Hs t).
    apply abs_run_full_ext. intros t'. apply hstep_refines_full; assumption.
Qed.

(* REFINEMENT: for every history -- backward, mtl_backward, bare engine runs, user edits -- whose
   calls are non-degenerate and whose mtl_backward calls succeed or are rejected for their
   arguments, the .grad values of the concrete store equal those of the abstract accumulator *)
Theorem full_history_refines_accumulator : forall hs s,
  wf_prog P -> full_history_ok s hs ->
  forall t, grad_val (snd (hrun RN P s hs)) t
            = abs_run_full (grad_val s) hs (fst (hrun RN P s hs)) t.
Proof.
  intros hs s Hwf Hs t.
  apply full_history_refines_accumulator_gen; [exact Hwf|].
  apply full_history_ok_weaken. exact Hs.
Qed.

(* the earlier theorem for simple histories is an instance *)
Corollary simple_history_full_ok : forall hs s, simple_history P hs -> full_history_ok s hs.
Proof.
  intros hs. induction hs as [|h hs IH]; intros s Hs.
  - exact I.
  - apply simple_history_cons in Hs. destruct Hs as [Hh Hs].
    cbn [full_history_ok]. split; [|apply IH; exact Hs].
    destruct h as [A tensors ord k retain|A losses features tasks shared k retain
                  |outs ins retain|t0|t0|t0 v]; cbn [simple_op] in Hh;
      try contradiction; try exact I.
    exact Hh.
Qed.

(* ---------- n identical accepted mtl_backward calls on a retained graph ---------- *)
Fixpoint repeat_mtl (A : list (list R) -> res (list R)) (n : nat) (losses features : list tid)
         (tasks : list (list tid)) (shared : list tid) (k : option nat) (s : @store R)
  : option (@store R) :=
  match n with
  | O => Some s
  | S n' => match mtl_backward_model RN P A losses features tasks shared k true s with
            | (Ok _, s1) => repeat_mtl A n' losses features tasks shared k s1
            | (Err _, _) => None
            end
  end.

Fixpoint iter_update (n : nat) (f : gmap -> gmap) (g : gmap) : gmap :=
  match n with O => g | S n' => iter_update n' f (f g) end.

Lemma iter_update_ext : forall (f : gmap -> gmap),
  (forall g g' : gmap, (forall t, g t = g' t) -> forall t, f g t = f g' t) ->
  forall n (g g' : gmap), (forall t, g t = g' t) ->
  forall t, iter_update n f g t = iter_update n f g' t.
Proof.
  intros f Hf n. induction n as [|n IH]; intros g g' He t.
  - cbn [iter_update]. apply He.
  - cbn [iter_update]. apply IH. apply Hf. exact He.
Qed.

(* repeating the same accepted call n times on a retained graph applies the single-call update n
   times to the .grad values (deterministic aggregator) *)
Lemma mtl_n_fold : forall A n losses features tasks shared k s s',
  wf_prog P ->
  repeat_mtl A n losses features tasks shared k s = Some s' ->
  forall t, grad_val s' t
            = iter_update n (mtl_update A losses features tasks shared) (grad_val s) t.
Proof.
  intros A n losses features tasks shared k. induction n as [|n IH]; intros s s' Hwf Hrep t.
  - cbn [repeat_mtl] in Hrep. inversion Hrep as [Hs]. reflexivity.
  - cbn [repeat_mtl] in Hrep.
    destruct (mtl_backward_model RN P A losses features tasks shared k true s)
      as [[d1|e] s1] eqn:Em; [|discriminate Hrep].
    rewrite (IH s1 s' Hwf Hrep t). cbn [iter_update].
    apply iter_update_ext.
    + intros g g' He t'. apply mtl_update_ext. exact He.
    + intros t'.
      apply (mtl_accepted_refines A losses features tasks shared k true s d1 s1 Hwf Em).
Qed.

(* the same as a history: n copies of the call, all accepted *)
Lemma mtl_n_fold_history : forall A n losses features tasks shared k s s',
  wf_prog P ->
  repeat_mtl A n losses features tasks shared k s = Some s' ->
  hrun RN P s (repeat (HMtl A losses features tasks shared k true) n) = (repeat 0%nat n, s').
Proof.
  intros A n losses features tasks shared k. induction n as [|n IH]; intros s s' Hwf Hrep.
  - cbn [repeat_mtl] in Hrep. inversion Hrep as [Hs]. reflexivity.
  - cbn [repeat_mtl] in Hrep. cbn [repeat hrun]. cbv zeta.
    unfold hstep at 1 2 3. cbv zeta.
    destruct (mtl_backward_model RN P A losses features tasks shared k true s)
      as [[d1|e] s1] eqn:Em; [|discriminate Hrep].
    cbn [fst snd code_of]. rewrite (IH s1 s' Hwf Hrep). reflexivity.
Qed.

End C06F.

Print Assumptions full_history_refines_accumulator_gen.
Print Assumptions mtl_n_fold.
Print Assumptions mtl_n_fold_history.
Print Assumptions full_history_refines_accumulator.
