(* C06HistProofs.v — histories of backward calls and user edits of .grad against the Autojac model:
   n-fold accumulation on a retained graph, and refinement of the abstract .grad accumulator. *)
From Coq Require Import Reals List Bool Arith Lia.
From TJ Require Import Num Linalg NumR Chunk Autojac Traverse History.
From TJ.proofs Require Import LinalgR AutojacBasics AutojacSpec EntrySpec C20Proofs C01Proofs C06Proofs.
Import ListNotations.

(* ---------- lookups after the three kinds of store edits ---------- *)
Lemma c06h_assoc_filter : forall {X : Type} (t t0 : nat) (l : list (nat * X)),
  assoc t (filter (fun kv => negb (fst kv =? t0)) l) = if t =? t0 then None else assoc t l.
Proof.
  intros X t t0 l. induction l as [|[k v] l IH]; cbn [filter assoc fst].
  - destruct (t =? t0); reflexivity.
  - destruct (Nat.eqb_spec k t0) as [Hk|Hk]; cbn [negb].
    + rewrite IH. destruct (Nat.eqb_spec t t0) as [Ht|Ht]; [reflexivity|].
      destruct (Nat.eqb_spec t k) as [Htk|Htk]; [congruence | reflexivity].
    + cbn [assoc]. rewrite IH. destruct (Nat.eqb_spec t k) as [Htk|Htk]; [|reflexivity].
      destruct (Nat.eqb_spec t t0) as [Ht|Ht]; [congruence | reflexivity].
Qed.

Lemma c06h_grad_val_sset : forall (s : @store R) (t0 : tid) (g : @gval R) (t : tid),
  grad_val (sset s t0 g) t = if t =? t0 then Some (g_val g) else grad_val s t.
Proof.
  intros s t0 g t. unfold grad_val, sget, sset. cbn [s_grads assoc].
  destruct (t =? t0); reflexivity.
Qed.

Lemma c06h_grad_val_sdel : forall (s : @store R) (t0 t : tid),
  grad_val (sdel s t0) t = if t =? t0 then None else grad_val s t.
Proof.
  intros s t0 t. unfold grad_val, sget, sdel. cbn [s_grads].
  rewrite c06h_assoc_filter. destruct (t =? t0); reflexivity.
Qed.

Lemma c06h_grad_val_same : forall (s s' : @store R) (t : tid),
  s_grads s' = s_grads s -> grad_val s' t = grad_val s t.
Proof. intros s s' t H. unfold grad_val, sget. rewrite H. reflexivity. Qed.

Section C06H.
Variable P : prog R.

(* the update a call with aggregator A deposits for input i (dummy when A rejects the Jacobian) *)
Definition update_of (A : list (list R) -> res (list R)) (tensors ord : list tid) (i : tid) : @tens R :=
  match A (jacobian P tensors ord) with
  | Ok v => plain (p_shape P i) (slice_of P ord v i)
  | Err _ => plain (p_shape P i) []
  end.

(* n-fold accumulation *)
Fixpoint acc_n (n : nat) (g : option (@tens R)) (u : @tens R) : option (@tens R) :=
  match n with O => g | S n' => acc_n n' (Some (acc_val g u)) u end.

(* n identical calls on a retained graph; None as soon as one of them is not accepted *)
Fixpoint repeat_backward (A : list (list R) -> res (list R)) (n : nat) (tensors ord : list tid)
         (k : option nat) (s : @store R) : option (@store R) :=
  match n with
  | O => Some s
  | S n' => match backward_model RN P A tensors ord k true s with
            | (Ok _, s1) => repeat_backward A n' tensors ord k s1
            | (Err _, _) => None
            end
  end.

(* repeating the same call n times on a retained graph with a deterministic aggregator yields the
   single-call update accumulated n times; nothing else changes *)
Lemma backward_n_fold : forall A n tensors ord k s s',
  wf_prog P -> ord <> [] -> (1 <= total P tensors)%nat ->
  repeat_backward A n tensors ord k s = Some s' ->
  (forall i, In i ord -> grad_val s' i = acc_n n (grad_val s i) (update_of A tensors ord i)) /\
  (forall t, ~ In t ord -> sget s' t = sget s t).
Proof.
  intros A n tensors ord k. induction n as [|n IH]; intros s s' Hwf Hord Hm Hrep.
  - cbn [repeat_backward] in Hrep. inversion Hrep as [Hs]. subst s'.
    split; [intros i Hi | intros t Ht]; reflexivity.
  - cbn [repeat_backward] in Hrep.
    destruct (backward_model RN P A tensors ord k true s) as [[d1|e] s1] eqn:Eb;
      [|discriminate Hrep].
    destruct (backward_deposit P A tensors ord k true s d1 s1 Hwf Hord Hm Eb)
      as (_ & _ & v & Hv & _ & Hin & Hout).
    destruct (IH s1 s' Hwf Hord Hm Hrep) as [IHin IHout].
    split.
    + intros i Hi. rewrite (IHin i Hi). cbn [acc_n]. rewrite (Hin i Hi).
      unfold update_of. rewrite Hv. reflexivity.
    + intros t Ht. rewrite (IHout t Ht). apply Hout. exact Ht.
Qed.

(* ABSTRACT ACCUMULATOR: the obvious specification of what a history does to the .grad values *)
Definition gmap := tid -> option (@tens R).
Definition abs_step (g : gmap) (h : @hop R) (code : nat) : gmap :=
  match h with
  | HBackward A tensors ord k retain =>
      if (code =? 0)%nat
      then (fun t => if mem t ord then Some (acc_val (g t) (update_of A tensors ord t)) else g t)
      else g
  | HZero t0 => fun t => if (t =? t0)%nat
                         then option_map (fun v => mkTens (t_batched v) (t_trail v)
                                            (map (fun row => map (fun _ => 0%R) row) (t_rows v))) (g t)
                         else g t
  | HSetNone t0 => fun t => if (t =? t0)%nat then None else g t
  | HEdit t0 v => fun t => if (t =? t0)%nat
                           then option_map (fun w => mkTens (t_batched w) (t_trail w) [v]) (g t)
                           else g t
  | _ => g
  end.
(* histories made of backward calls and user edits (mtl_backward / bare engine runs are covered by
   their own theorems) whose backward calls are non-degenerate *)
Fixpoint simple_history (hs : list (@hop R)) : Prop :=
  match hs with
  | [] => True
  | HBackward _ tensors ord _ _ :: hs' => ord <> [] /\ (1 <= total P tensors)%nat /\ simple_history hs'
  | HMtl _ _ _ _ _ _ _ :: _ => False
  | HTorchGrad _ _ _ :: _ => False
  | _ :: hs' => simple_history hs'
  end.
Fixpoint abs_run (g : gmap) (hs : list (@hop R)) (codes : list nat) : gmap :=
  match hs, codes with
  | h :: hs', c :: cs => abs_run (abs_step g h c) hs' cs
  | _, _ => g
  end.

(* ---------- helpers ---------- *)
(* the side condition of a single operation *)
Definition simple_op (h : @hop R) : Prop :=
  match h with
  | HBackward _ tensors ord _ _ => ord <> [] /\ (1 <= total P tensors)%nat
  | HMtl _ _ _ _ _ _ _ => False
  | HTorchGrad _ _ _ => False
  | _ => True
  end.

Lemma simple_history_cons : forall h hs,
  simple_history (h :: hs) -> simple_op h /\ simple_history hs.
Proof.
  intros h hs H. destruct h as [A tensors ord k retain|A losses features tasks shared k retain
                               |outs ins retain|t0|t0|t0 v];
    cbn [simple_history simple_op] in *; tauto.
Qed.

(* the abstract accumulator only looks at its argument pointwise *)
Lemma abs_step_ext : forall (g g' : gmap) h c,
  (forall t, g t = g' t) -> forall t, abs_step g h c t = abs_step g' h c t.
Proof.
  intros g g' h c He t.
  destruct h as [A tensors ord k retain|A losses features tasks shared k retain
                |outs ins retain|t0|t0|t0 v]; cbn [abs_step].
  - destruct (c =? 0)%nat; cbv beta; rewrite ?He; reflexivity.
  - apply He.
  - apply He.
  - cbv beta. rewrite He. reflexivity.
  - cbv beta. rewrite He. reflexivity.
  - cbv beta. rewrite He. reflexivity.
Qed.

Lemma abs_run_ext : forall hs cs (g g' : gmap),
  (forall t, g t = g' t) -> forall t, abs_run g hs cs t = abs_run g' hs cs t.
Proof.
  intros hs. induction hs as [|h hs IH]; intros cs g g' He t.
  - cbn [abs_run]. apply He.
  - destruct cs as [|c cs]; cbn [abs_run]; [apply He|].
    apply IH. apply abs_step_ext. exact He.
Qed.

(* ONE STEP of a history refines one step of the abstract accumulator *)
Lemma hstep_refines : forall h s,
  wf_prog P -> simple_op h ->
  forall t, grad_val (snd (hstep RN P s h)) t
            = abs_step (grad_val s) h (fst (hstep RN P s h)) t.
Proof.
  intros h s Hwf Hh t.
  destruct h as [A tensors ord k retain|A losses features tasks shared k retain
                |outs ins retain|t0|t0|t0 v]; cbn [simple_op] in Hh.
  - (* HBackward *)
    destruct Hh as [Hord Hm].
    unfold hstep. cbv zeta.
    destruct (backward_model RN P A tensors ord k retain s) as [[d1|e] s1] eqn:Eb.
    + cbn [fst snd code_of abs_step Nat.eqb].
      destruct (backward_deposit P A tensors ord k retain s d1 s1 Hwf Hord Hm Eb)
        as (_ & _ & v & Hv & _ & Hin & Hout).
      destruct (mem t ord) eqn:Em.
      * apply c20_mem_In in Em. rewrite (Hin t Em). unfold update_of. rewrite Hv. reflexivity.
      * unfold grad_val. rewrite Hout; [reflexivity|].
        intros Hi. apply c20_mem_In in Hi. rewrite Hi in Em. discriminate Em.
    + pose proof (backward_atomic RN P A tensors ord k retain s e s1 Eb) as Hat.
      cbn [fst snd].
      rewrite (c06h_grad_val_same s s1 t Hat).
      destruct e; cbn [code_of abs_step Nat.eqb]; reflexivity.
  - contradiction.
  - contradiction.
  - (* HZero *)
    unfold hstep. cbn [fst snd abs_step].
    destruct (sget s t0) as [g|] eqn:Eg.
    + rewrite c06h_grad_val_sset.
      destruct (Nat.eqb_spec t t0) as [Heq|Hne]; [|reflexivity].
      subst t. unfold grad_val. rewrite Eg. cbn [option_map g_val]. reflexivity.
    + destruct (Nat.eqb_spec t t0) as [Heq|Hne]; [|reflexivity].
      subst t. unfold grad_val. rewrite Eg. reflexivity.
  - (* HSetNone *)
    unfold hstep. cbn [fst snd abs_step]. apply c06h_grad_val_sdel.
  - (* HEdit *)
    unfold hstep. cbn [fst snd abs_step].
    destruct (sget s t0) as [g|] eqn:Eg.
    + rewrite c06h_grad_val_sset.
      destruct (Nat.eqb_spec t t0) as [Heq|Hne]; [|reflexivity].
      subst t. unfold grad_val. rewrite Eg. cbn [option_map g_val]. reflexivity.
    + destruct (Nat.eqb_spec t t0) as [Heq|Hne]; [|reflexivity].
      subst t. unfold grad_val. rewrite Eg. reflexivity.
Qed.

(* REFINEMENT: for every history, the .grad values of the concrete store equal those of the
   abstract accumulator (requested inputs: g <- g (+) update; a rejected call: unchanged;
   everything else: unchanged) *)
Lemma history_refines_accumulator : forall hs s,
  wf_prog P -> simple_history hs ->
  forall t, grad_val (snd (hrun RN P s hs)) t = abs_run (grad_val s) hs (fst (hrun RN P s hs)) t.
Proof.
  intros hs. induction hs as [|h hs IH]; intros s Hwf Hs t.
  - cbn [hrun fst snd abs_run]. reflexivity.
  - apply simple_history_cons in Hs. destruct Hs as [Hh Hs].
    cbn [hrun]. cbv zeta. cbn [fst snd abs_run].
    rewrite (IH (snd (hstep RN P s h)) Hwf Hs t).
    apply abs_run_ext. intros t'. apply hstep_refines; assumption.
Qed.
End C06H.

Print Assumptions backward_n_fold.
Print Assumptions history_refines_accumulator.
