(* C06Proofs.v — storage discipline of the .grad fields: an existing .grad is added to in place
   (same storage id), a missing one is created with a fresh, unshared storage; only the keys handed
   to Accumulate can change.  Holds for every transform term, successful or not, and for both
   entry points. *)
From Coq Require Import List Bool Arith Lia.
From TJ Require Import Num Linalg Chunk Autojac Traverse.
From TJ.proofs Require Import AutojacBasics EntrySpec C20Proofs.
Import ListNotations.

(* ---------- finite sets as lists ---------- *)
Lemma c06_subsetb_In : forall a b, subsetb a b = true -> forall x, In x a -> In x b.
Proof.
  intros a b H x Hx. unfold subsetb in H. rewrite forallb_forall in H.
  apply c20_mem_In. apply H. exact Hx.
Qed.

Lemma c06_set_eqb_In : forall a b, set_eqb a b = true -> forall x, In x a -> In x b.
Proof.
  intros a b H. unfold set_eqb in H. apply andb_true_iff in H. destruct H as [H _].
  apply c06_subsetb_In. exact H.
Qed.

Lemma c06_dedup_In : forall x l, In x (dedup l) -> In x l.
Proof. intros x l H. unfold dedup in H. apply nodup_In in H. exact H. Qed.

Section C06.
Context {T : Type} (N : Num T) (P : prog T) (A : list (list T) -> res (list T)).

(* every live .grad storage id is below the allocation counter *)
Definition store_wf (s : @store T) : Prop := forall t g, sget s t = Some g -> g_sid g < s_next s.

(* s' extends s: an existing .grad keeps its storage (it was added to in place), a .grad that did
   not exist gets a storage that is fresh w.r.t. s and shared with no other tensor's .grad in s' *)
Definition extends (s s' : @store T) : Prop :=
  s_next s <= s_next s' /\
  (forall t g, sget s t = Some g -> exists g', sget s' t = Some g' /\ g_sid g' = g_sid g) /\
  (forall t g', sget s t = None -> sget s' t = Some g' ->
     s_next s <= g_sid g' /\
     forall t' g'', t' <> t -> sget s' t' = Some g'' -> g_sid g'' <> g_sid g').

Lemma extends_refl : forall s, extends s s.
Proof.
  intros s. unfold extends. split; [apply Nat.le_refl|]. split.
  - intros t g H. exists g. split; [exact H | reflexivity].
  - intros t g' Hn Hs. rewrite Hn in Hs. discriminate Hs.
Qed.

Lemma extends_trans : forall s1 s2 s3,
  store_wf s2 -> extends s1 s2 -> extends s2 s3 -> extends s1 s3.
Proof.
  intros s1 s2 s3 Hwf [Hn12 [Hk12 Hf12]] [Hn23 [Hk23 Hf23]].
  unfold extends. split; [lia|]. split.
  - intros t g Hg. destruct (Hk12 t g Hg) as [g2 [Hg2 He2]].
    destruct (Hk23 t g2 Hg2) as [g3 [Hg3 He3]]. exists g3. split; [exact Hg3 | congruence].
  - intros t g3 Hn1 Hg3.
    destruct (sget s2 t) as [g2|] eqn:E2.
    + destruct (Hk23 t g2 E2) as [g3' [Hg3' He3]].
      assert (Heq : g3' = g3) by congruence. subst g3'.
      destruct (Hf12 t g2 Hn1 E2) as [Hlo Huniq].
      split; [lia|].
      intros t' g'' Hne Hg''.
      destruct (sget s2 t') as [g2'|] eqn:E2'.
      * destruct (Hk23 t' g2' E2') as [g3'' [Hg3'' He3'']].
        assert (Heq : g3'' = g'') by congruence. subst g3''.
        specialize (Huniq t' g2' Hne E2'). lia.
      * destruct (Hf23 t' g'' E2' Hg'') as [Hlo' _].
        specialize (Hwf t g2 E2). lia.
    + destruct (Hf23 t g3 E2 Hg3) as [Hlo Huniq]. split; [lia | exact Huniq].
Qed.

(* ---------- one accumulate step ---------- *)
Lemma accumulate_one_adds : forall s k v g,
  sget s k = Some g ->
  sget (accumulate_one N s (k, v)) k = Some (mkG (g_sid g) (tadd N (g_val g) v)).
Proof.
  intros s k v g H. unfold accumulate_one. cbn [fst snd]. rewrite H.
  unfold sget, sset. cbn [s_grads assoc]. rewrite Nat.eqb_refl. reflexivity.
Qed.

Lemma accumulate_one_creates : forall s k v,
  sget s k = None -> sget (accumulate_one N s (k, v)) k = Some (mkG (s_next s) v).
Proof.
  intros s k v H. unfold accumulate_one. cbn [fst snd]. rewrite H.
  unfold sget. cbn [s_grads assoc]. rewrite Nat.eqb_refl. reflexivity.
Qed.

Lemma accumulate_one_other : forall s k v k', k' <> k ->
  sget (accumulate_one N s (k, v)) k' = sget s k'.
Proof.
  intros s k v k' Hne. unfold accumulate_one. cbn [fst snd].
  destruct (sget s k) as [g|] eqn:E; unfold sget, sset; cbn [s_grads assoc];
    destruct (Nat.eqb_spec k' k) as [Heq|_]; try contradiction; reflexivity.
Qed.

Lemma accumulate_one_next_some : forall s k v g,
  sget s k = Some g -> s_next (accumulate_one N s (k, v)) = s_next s.
Proof. intros s k v g H. unfold accumulate_one. cbn [fst snd]. rewrite H. reflexivity. Qed.

Lemma accumulate_one_next_none : forall s k v,
  sget s k = None -> s_next (accumulate_one N s (k, v)) = S (s_next s).
Proof. intros s k v H. unfold accumulate_one. cbn [fst snd]. rewrite H. reflexivity. Qed.

Lemma accumulate_one_extends : forall s kv,
  store_wf s -> store_wf (accumulate_one N s kv) /\ extends s (accumulate_one N s kv).
Proof.
  intros s [k v] Hwf.
  pose proof (accumulate_one_other s k v) as Ho.
  destruct (sget s k) as [g|] eqn:E.
  - pose proof (accumulate_one_adds s k v g E) as Hk.
    pose proof (accumulate_one_next_some s k v g E) as Hn.
    split.
    + intros t g' Hg'. rewrite Hn. destruct (Nat.eq_dec t k) as [Heq|Hne].
      * subst t. rewrite Hk in Hg'. inversion Hg'; subst g'. cbn [g_sid]. exact (Hwf k g E).
      * rewrite (Ho t Hne) in Hg'. exact (Hwf t g' Hg').
    + unfold extends. rewrite Hn. split; [apply Nat.le_refl|]. split.
      * intros t g0 Hg0. destruct (Nat.eq_dec t k) as [Heq|Hne].
        -- subst t. exists (mkG (g_sid g) (tadd N (g_val g) v)). split; [exact Hk|].
           cbn [g_sid]. congruence.
        -- exists g0. split; [rewrite (Ho t Hne); exact Hg0 | reflexivity].
      * intros t g' Hnone Hg'. exfalso. destruct (Nat.eq_dec t k) as [Heq|Hne].
        -- subst t. congruence.
        -- rewrite (Ho t Hne) in Hg'. congruence.
  - pose proof (accumulate_one_creates s k v E) as Hk.
    pose proof (accumulate_one_next_none s k v E) as Hn.
    split.
    + intros t g' Hg'. rewrite Hn. destruct (Nat.eq_dec t k) as [Heq|Hne].
      * subst t. rewrite Hk in Hg'. inversion Hg'; subst g'. cbn [g_sid]. lia.
      * rewrite (Ho t Hne) in Hg'. specialize (Hwf t g' Hg'). lia.
    + unfold extends. rewrite Hn. split; [lia|]. split.
      * intros t g0 Hg0. destruct (Nat.eq_dec t k) as [Heq|Hne].
        -- subst t. congruence.
        -- exists g0. split; [rewrite (Ho t Hne); exact Hg0 | reflexivity].
      * intros t g' Hnone Hg'. destruct (Nat.eq_dec t k) as [Heq|Hne].
        -- subst t. rewrite Hk in Hg'. inversion Hg'; subst g'. cbn [g_sid].
           split; [apply Nat.le_refl|].
           intros t' g'' Hne' Hg''. rewrite (Ho t' Hne') in Hg''.
           specialize (Hwf t' g'' Hg''). lia.
        -- exfalso. rewrite (Ho t Hne) in Hg'. congruence.
Qed.

(* ---------- the relation "wf is kept and the store is extended", compositionally ---------- *)
Definition good (s s' : @store T) : Prop := store_wf s -> store_wf s' /\ extends s s'.

Lemma good_refl : forall s, good s s.
Proof. intros s Hwf. split; [exact Hwf | apply extends_refl]. Qed.

Lemma good_trans : forall s1 s2 s3, good s1 s2 -> good s2 s3 -> good s1 s3.
Proof.
  intros s1 s2 s3 H12 H23 Hwf. destruct (H12 Hwf) as [Hwf2 He12]. destruct (H23 Hwf2) as [Hwf3 He23].
  split; [exact Hwf3|]. exact (extends_trans s1 s2 s3 Hwf2 He12 He23).
Qed.

Lemma sget_same : forall (s s' : @store T) k, s_grads s' = s_grads s -> sget s' k = sget s k.
Proof. intros s s' k H. unfold sget. rewrite H. reflexivity. Qed.

Lemma same_extends : forall s s' : @store T,
  s_grads s' = s_grads s -> s_next s' = s_next s -> store_wf s -> store_wf s' /\ extends s s'.
Proof.
  intros s s' Hg Hn Hwf.
  assert (Hs : forall t, sget s' t = sget s t) by (intros t; apply sget_same; exact Hg).
  split.
  - intros t g H. rewrite Hn. rewrite Hs in H. exact (Hwf t g H).
  - unfold extends. rewrite Hn. split; [apply Nat.le_refl|]. split.
    + intros t g H. exists g. split; [rewrite Hs; exact H | reflexivity].
    + intros t g' H0 H1. rewrite Hs in H1. congruence.
Qed.

Lemma good_same : forall s s' : @store T, s_grads s' = s_grads s -> s_next s' = s_next s -> good s s'.
Proof. intros s s' Hg Hn Hwf. apply same_extends; assumption. Qed.

(* ---------- the engine never allocates a .grad storage ---------- *)
Lemma ag_sweep_next : forall s outs ins rows batched retain r s',
  ag_sweep P s outs ins rows batched retain = (r, s') -> s_next s' = s_next s.
Proof.
  intros s outs ins rows batched retain r s' H. unfold ag_sweep in H.
  destruct (negb _) in H; [inversion H; reflexivity|].
  destruct (existsb _ _) in H; inversion H; reflexivity.
Qed.

Lemma jac_chunks_next : forall outs ins d plan s r s',
  jac_chunks N P s outs ins d plan = (r, s') -> s_next s' = s_next s.
Proof.
  intros outs ins d plan. induction plan as [|c plan IH]; intros s r s' H; cbn [jac_chunks] in H.
  - inversion H; reflexivity.
  - destruct (ag_sweep P s outs ins (c_len c) (c_batched c) (c_retain c)) as [[u|e] s1] eqn:Es.
    + apply ag_sweep_next in Es.
      destruct (jac_chunks N P s1 outs ins d plan) as [[rest|e] s2] eqn:Ej.
      * apply IH in Ej. inversion H; subst. congruence.
      * apply IH in Ej. inversion H; subst. congruence.
    + apply ag_sweep_next in Es. inversion H; subst. exact Es.
Qed.

Lemma grad_compute_next : forall s outs ins retain d r s',
  grad_compute N P s outs ins retain d = (r, s') -> s_next s' = s_next s.
Proof.
  intros s outs ins retain d r s' H. unfold grad_compute in H.
  destruct ins as [|i0 ins]; [inversion H; reflexivity|].
  destruct outs as [|o0 outs]; [inversion H; reflexivity|].
  destruct (ag_sweep P s (o0 :: outs) (i0 :: ins) 1 false retain) as [[u|e] s1] eqn:Es;
    apply ag_sweep_next in Es; inversion H; subst; exact Es.
Qed.

Lemma jac_compute_next : forall s outs ins chunk retain d r s',
  jac_compute N P s outs ins chunk retain d = (r, s') -> s_next s' = s_next s.
Proof.
  intros s outs ins chunk retain d r s' H. unfold jac_compute in H.
  destruct ins as [|i0 ins]; [inversion H; reflexivity|].
  destruct outs as [|o0 outs]; [inversion H; reflexivity|].
  destruct (max_chunk _ _ =? 0) in H; [inversion H; reflexivity|].
  destruct (jac_chunks N P s (o0 :: outs) (i0 :: ins) d _) as [[m|e] s1] eqn:Ej;
    apply jac_chunks_next in Ej; inversion H; subst; exact Ej.
Qed.

(* ---------- Accumulate: a fold of single steps ---------- *)
Lemma fold_acc_good : forall items s, good s (fold_left (accumulate_one N) items s).
Proof.
  intros items. induction items as [|kv items IH]; intros s; cbn [fold_left].
  - apply good_refl.
  - eapply good_trans; [|apply IH]. intros Hwf. apply accumulate_one_extends. exact Hwf.
Qed.

Lemma fold_acc_frame : forall k items s, ~ In k (map fst items) ->
  sget (fold_left (accumulate_one N) items s) k = sget s k.
Proof.
  intros k items. induction items as [|[k0 v0] items IH]; intros s Hk; cbn [fold_left]; [reflexivity|].
  cbn [map fst In] in Hk.
  rewrite IH by (intros Hin; apply Hk; right; exact Hin).
  apply accumulate_one_other. intros Heq. apply Hk. left. symmetry. exact Heq.
Qed.

(* ---------- run: wf / extends for every term ---------- *)
Definition run_good_at (t : tr) : Prop :=
  forall s d r s', run N P A t s d = (r, s') -> good s s'.

Lemma run_list_good : forall d ts,
  Forall run_good_at ts ->
  forall s r s', run_list N P A d ts s = (r, s') -> good s s'.
Proof.
  intros d ts HF. induction HF as [|t ts Ht HF IH]; intros s r s' H.
  - cbn in H. inversion H; apply good_refl.
  - rewrite run_list_cons in H.
    destruct (run N P A t s d) as [[d1|e] s1] eqn:E1.
    + pose proof (Ht s d _ s1 E1) as G1.
      destruct (run_list N P A d ts s1) as [[ds|e] s2] eqn:E2.
      * pose proof (IH s1 _ s2 E2) as G2. inversion H; subst. eapply good_trans; eassumption.
      * pose proof (IH s1 _ s2 E2) as G2. inversion H; subst. eapply good_trans; eassumption.
    + pose proof (Ht s d _ s1 E1) as G1. inversion H; subst. exact G1.
Qed.

Lemma run_good : forall t s d r s', run N P A t s d = (r, s') -> good s s'.
Proof.
  intros t. change (run_good_at t).
  induction t as [vals|c|keys req|ts IH|ts IH|o i IHo IHi|keys|outs ins retain|outs ins chunk retain
                 |keys|ord|keys] using tr_ind';
    intros s d r s' Hrun.
  - cbn [run] in Hrun. destruct (negb _) in Hrun; inversion Hrun; apply good_refl.
  - cbn [run] in Hrun. destruct (negb _) in Hrun; inversion Hrun; apply good_refl.
  - cbn [run] in Hrun. destruct (negb _) in Hrun; inversion Hrun; apply good_refl.
  - rewrite run_stack_eq in Hrun. destruct (negb _) in Hrun; [inversion Hrun; apply good_refl|].
    destruct (run_list N P A d ts s) as [[ds|e] s1] eqn:EL;
      apply (run_list_good d ts IH) in EL; inversion Hrun; subst; exact EL.
  - rewrite run_conj_eq in Hrun. destruct (negb _) in Hrun; [inversion Hrun; apply good_refl|].
    destruct (run_list N P A d ts s) as [[ds|e] s1] eqn:EL;
      apply (run_list_good d ts IH) in EL; inversion Hrun; subst; exact EL.
  - cbn [run] in Hrun. destruct (negb _) in Hrun; [inversion Hrun; apply good_refl|].
    destruct (run N P A i s d) as [[d1|e] s1] eqn:Ei.
    + pose proof (IHi s d _ s1 Ei) as Gi. pose proof (IHo s1 d1 r s' Hrun) as Go.
      eapply good_trans; eassumption.
    + pose proof (IHi s d _ s1 Ei) as Gi. inversion Hrun; subst. exact Gi.
  - destruct r as [d'|e].
    + apply run_accumulate_inv in Hrun. destruct Hrun as [_ [_ Hs]]. subst s'. apply fold_acc_good.
    + apply run_accumulate_err in Hrun. subst s'. apply good_refl.
  - cbn [run] in Hrun. destruct (negb _) in Hrun; [inversion Hrun; apply good_refl|].
    apply good_same; [eapply grad_compute_grads | eapply grad_compute_next]; exact Hrun.
  - cbn [run] in Hrun. destruct (negb _) in Hrun; [inversion Hrun; apply good_refl|].
    apply good_same; [eapply jac_compute_grads | eapply jac_compute_next]; exact Hrun.
  - cbn [run] in Hrun. destruct (negb _) in Hrun; inversion Hrun; apply good_refl.
  - cbn [run] in Hrun. destruct (negb _) in Hrun; inversion Hrun; apply good_refl.
  - cbn [run] in Hrun. destruct (negb _) in Hrun; inversion Hrun; apply good_refl.
Qed.

(* for EVERY transform term, successful or not *)
Lemma run_extends : forall t s d r s',
  store_wf s -> run N P A t s d = (r, s') -> store_wf s' /\ extends s s'.
Proof. intros t s d r s' Hwf Hrun. exact (run_good t s d r s' Hrun Hwf). Qed.

Lemma build_and_run_good : forall t s d r s', build_and_run N P A t s d = (r, s') -> good s s'.
Proof.
  intros t s d r s' H. unfold build_and_run in H.
  destruct (wf t); [eapply run_good; exact H | inversion H; apply good_refl].
Qed.

Lemma backward_good : forall tensors ord k retain s r s',
  backward_model N P A tensors ord k retain s = (r, s') -> good s s'.
Proof.
  intros tensors ord k retain s r s' H. unfold backward_model in H.
  destruct (negb (valid_chunk k)); [inversion H; apply good_refl|].
  destruct tensors as [|t0 tensors]; [inversion H; apply good_refl|].
  eapply build_and_run_good. exact H.
Qed.

Lemma backward_extends : forall tensors ord k retain s r s',
  store_wf s -> backward_model N P A tensors ord k retain s = (r, s') -> store_wf s' /\ extends s s'.
Proof. intros tensors ord k retain s r s' Hwf H. exact (backward_good _ _ _ _ _ _ _ H Hwf). Qed.

(* the entry checks of mtl_backward return the store unchanged; otherwise build_and_run is reached *)
Lemma mtl_cases : forall losses features tasks shared k retain s r s',
  mtl_backward_model N P A losses features tasks shared k retain s = (r, s') ->
  s' = s \/
  build_and_run N P A (mtl_transform losses features tasks shared k retain) s empty_dict = (r, s').
Proof.
  intros losses features tasks shared k retain s r s' H. unfold mtl_backward_model in H.
  destruct (negb (valid_chunk k)); [inversion H; left; reflexivity|].
  destruct features as [|f0 features]; [inversion H; left; reflexivity|].
  destruct (negb _) in H; [inversion H; left; reflexivity|].
  destruct (negb _) in H; [inversion H; left; reflexivity|].
  destruct losses as [|l0 losses]; [inversion H; left; reflexivity|].
  destruct (negb _) in H; [inversion H; left; reflexivity|].
  destruct (negb _) in H; [inversion H; left; reflexivity|].
  right. exact H.
Qed.

Lemma mtl_extends : forall losses features tasks shared k retain s r s',
  store_wf s -> mtl_backward_model N P A losses features tasks shared k retain s = (r, s') ->
  store_wf s' /\ extends s s'.
Proof.
  intros losses features tasks shared k retain s r s' Hwf H.
  apply mtl_cases in H. destruct H as [Hs|H].
  - subst s'. split; [exact Hwf | apply extends_refl].
  - exact (build_and_run_good _ _ _ _ _ H Hwf).
Qed.

(* ---------- frame: only the keys handed to Accumulate can change ---------- *)
Fixpoint acc_keys (t : tr) : list tid :=
  match t with
  | TAccumulate ks => ks
  | TStack ts | TConj ts => flat_map acc_keys ts
  | TComp o i => acc_keys o ++ acc_keys i
  | _ => []
  end.

Definition run_frame_at (k : tid) (t : tr) : Prop :=
  forall s d r s', ~ In k (acc_keys t) -> run N P A t s d = (r, s') -> sget s' k = sget s k.

Lemma run_list_frame : forall k d ts,
  Forall (run_frame_at k) ts -> ~ In k (flat_map acc_keys ts) ->
  forall s r s', run_list N P A d ts s = (r, s') -> sget s' k = sget s k.
Proof.
  intros k d ts HF. induction HF as [|t ts Ht HF IH]; intros Hk s r s' H.
  - cbn in H. inversion H; reflexivity.
  - cbn [flat_map] in Hk. rewrite in_app_iff in Hk.
    assert (Hk1 : ~ In k (acc_keys t)) by tauto.
    assert (Hk2 : ~ In k (flat_map acc_keys ts)) by tauto.
    rewrite run_list_cons in H.
    destruct (run N P A t s d) as [[d1|e] s1] eqn:E1.
    + pose proof (Ht s d _ s1 Hk1 E1) as G1.
      destruct (run_list N P A d ts s1) as [[ds|e] s2] eqn:E2.
      * pose proof (IH Hk2 s1 _ s2 E2) as G2. inversion H; subst. congruence.
      * pose proof (IH Hk2 s1 _ s2 E2) as G2. inversion H; subst. congruence.
    + pose proof (Ht s d _ s1 Hk1 E1) as G1. inversion H; subst. exact G1.
Qed.

Lemma run_frame : forall t s d r s' k,
  ~ In k (acc_keys t) -> run N P A t s d = (r, s') -> sget s' k = sget s k.
Proof.
  intros t s d r s' k. revert s d r s'. change (run_frame_at k t).
  induction t as [vals|c|keys req|ts IH|ts IH|o i IHo IHi|keys|outs ins retain|outs ins chunk retain
                 |keys|ord|keys] using tr_ind';
    intros s d r s' Hk Hrun.
  - cbn [run] in Hrun. destruct (negb _) in Hrun; inversion Hrun; reflexivity.
  - cbn [run] in Hrun. destruct (negb _) in Hrun; inversion Hrun; reflexivity.
  - cbn [run] in Hrun. destruct (negb _) in Hrun; inversion Hrun; reflexivity.
  - rewrite run_stack_eq in Hrun. destruct (negb _) in Hrun; [inversion Hrun; reflexivity|].
    cbn [acc_keys] in Hk.
    destruct (run_list N P A d ts s) as [[ds|e] s1] eqn:EL;
      apply (run_list_frame k d ts IH Hk) in EL; inversion Hrun; subst; exact EL.
  - rewrite run_conj_eq in Hrun. destruct (negb _) in Hrun; [inversion Hrun; reflexivity|].
    cbn [acc_keys] in Hk.
    destruct (run_list N P A d ts s) as [[ds|e] s1] eqn:EL;
      apply (run_list_frame k d ts IH Hk) in EL; inversion Hrun; subst; exact EL.
  - cbn [acc_keys] in Hk. rewrite in_app_iff in Hk.
    assert (Hko : ~ In k (acc_keys o)) by tauto.
    assert (Hki : ~ In k (acc_keys i)) by tauto.
    cbn [run] in Hrun. destruct (negb _) in Hrun; [inversion Hrun; reflexivity|].
    destruct (run N P A i s d) as [[d1|e] s1] eqn:Ei.
    + pose proof (IHi s d _ s1 Hki Ei) as Gi. pose proof (IHo s1 d1 r s' Hko Hrun) as Go. congruence.
    + pose proof (IHi s d _ s1 Hki Ei) as Gi. inversion Hrun; subst. exact Gi.
  - cbn [acc_keys] in Hk. destruct r as [d'|e].
    + pose proof (run_keys_ok N P A _ _ _ _ _ Hrun) as Hkeys. cbn [required_keys] in Hkeys.
      apply run_accumulate_inv in Hrun. destruct Hrun as [_ [_ Hs]]. subst s'.
      apply fold_acc_frame. intros Hin. apply Hk. apply c06_dedup_In.
      apply (c06_set_eqb_In _ _ Hkeys). exact Hin.
    + apply run_accumulate_err in Hrun. subst s'. reflexivity.
  - cbn [run] in Hrun. destruct (negb _) in Hrun; [inversion Hrun; reflexivity|].
    apply sget_same. eapply grad_compute_grads. exact Hrun.
  - cbn [run] in Hrun. destruct (negb _) in Hrun; [inversion Hrun; reflexivity|].
    apply sget_same. eapply jac_compute_grads. exact Hrun.
  - cbn [run] in Hrun. destruct (negb _) in Hrun; inversion Hrun; reflexivity.
  - cbn [run] in Hrun. destruct (negb _) in Hrun; inversion Hrun; reflexivity.
  - cbn [run] in Hrun. destruct (negb _) in Hrun; inversion Hrun; reflexivity.
Qed.

Lemma build_and_run_frame : forall t s d r s' k,
  ~ In k (acc_keys t) -> build_and_run N P A t s d = (r, s') -> sget s' k = sget s k.
Proof.
  intros t s d r s' k Hk H. unfold build_and_run in H.
  destruct (wf t); [eapply run_frame; [exact Hk | exact H] | inversion H; reflexivity].
Qed.

Lemma acc_keys_backward : forall tensors ord k retain,
  acc_keys (backward_transform tensors ord k retain) = ord.
Proof.
  intros tensors ord k retain. unfold backward_transform, TAggregate. cbn [acc_keys app].
  apply app_nil_r.
Qed.

Lemma backward_frame : forall tensors ord k retain s r s' t,
  ~ In t ord -> backward_model N P A tensors ord k retain s = (r, s') -> sget s' t = sget s t.
Proof.
  intros tensors ord k retain s r s' t Hnot H. unfold backward_model in H.
  destruct (negb (valid_chunk k)); [inversion H; reflexivity|].
  destruct tensors as [|t0 tensors]; [inversion H; reflexivity|].
  eapply build_and_run_frame; [|exact H]. rewrite acc_keys_backward. exact Hnot.
Qed.

Lemma acc_keys_task : forall features ps l retain,
  acc_keys (task_transform features ps l retain) = ps.
Proof.
  intros features ps l retain. unfold task_transform. cbn [acc_keys flat_map app].
  rewrite !app_nil_r. reflexivity.
Qed.

Lemma acc_keys_mtl : forall losses features tasks shared k retain x,
  In x (acc_keys (mtl_transform losses features tasks shared k retain)) ->
  In x (shared ++ concat tasks).
Proof.
  intros losses features tasks shared k retain x H.
  unfold mtl_transform, TAggregate in H. cbn [acc_keys app] in H.
  apply in_app_iff in H. apply in_app_iff. destruct H as [H|H]; [left; exact H | right].
  apply in_flat_map in H. destruct H as [t [Ht Hx]].
  apply in_map_iff in Ht. destruct Ht as [[ps l] [Heq Hin]]. subst t. cbn [fst snd] in Hx.
  rewrite acc_keys_task in Hx.
  apply in_concat. exists ps. split; [eapply in_combine_l; exact Hin | exact Hx].
Qed.

Lemma mtl_frame : forall losses features tasks shared k retain s r s' t,
  ~ In t (shared ++ concat tasks) ->
  mtl_backward_model N P A losses features tasks shared k retain s = (r, s') -> sget s' t = sget s t.
Proof.
  intros losses features tasks shared k retain s r s' t Hnot H.
  apply mtl_cases in H. destruct H as [Hs|H].
  - subst s'. reflexivity.
  - eapply build_and_run_frame; [|exact H]. intros Hin. apply Hnot.
    eapply acc_keys_mtl. exact Hin.
Qed.

End C06.

Print Assumptions run_extends.
Print Assumptions backward_extends.
Print Assumptions mtl_extends.
Print Assumptions run_frame.
Print Assumptions mtl_frame.
Print Assumptions extends_trans.
