(* C08Proofs.v — weighted aggregators: row span, and A(J Q) = A(J) Q for orthonormal-row Q *)
From Coq Require Import Reals List Bool Arith Lia Lra.
From TJ Require Import Num Linalg NumR Agg.
From TJ.proofs Require Import LinalgR QPProofs C03Proofs C18Proofs.
Import ListNotations.
Local Open Scope R_scope.

Notation mmulR := (mmul RN).

(* Q : n rows of length p with orthonormal rows (Q Q^T = I_n).  For square Q this is an
   orthogonal matrix; p = n+z with Q = [I | 0] inserts z zero columns; a permutation matrix
   permutes columns. *)
Definition orth (n p : nat) (Q : list (list R)) : Prop :=
  wfmat p Q /\ length Q = n /\ forall s, length s = n -> mvR (gramR Q) s = s.

Lemma length_mmul p J Q : length (mmulR p J Q) = length J.
Proof. apply map_length. Qed.

Lemma wfmat_mmul p J Q : wfmat p Q -> wfmat p (mmulR p J Q).
Proof.
  intros HQ. unfold wfmat, mmul. apply Forall_forall. intros r Hr. apply in_map_iff in Hr.
  destruct Hr as (r0 & <- & _). apply length_vm. exact HQ.
Qed.

Lemma dot_mmul n p Q r s : orth n p Q -> length r = n -> length s = n ->
  dotR (vmR p r Q) (vmR p s Q) = dotR r s.
Proof.
  intros (HQ & Hl & Ho) Hr Hs.
  rewrite (dot_vm p) by (auto; congruence).
  rewrite <- (mv_gram p) by (auto; congruence). rewrite Ho by exact Hs. reflexivity.
Qed.

Theorem gram_mmul n p J Q : orth n p Q -> wfmat n J -> gramR (mmulR p J Q) = gramR J.
Proof.
  intros Ho HJ. unfold gram, mmul. rewrite map_map. apply map_ext_in. intros r Hr.
  rewrite map_map. apply map_ext_in. intros s Hs.
  unfold wfmat in HJ. rewrite Forall_forall in HJ.
  apply (dot_mmul n p Q); auto.
Qed.

Lemma vm_vzero_any p Q : wfmat p Q -> forall k, vmR p (vzeroR k) Q = vzeroR p.
Proof.
  intros HQ. induction HQ as [|q Q Hq HQ IH]; intros k.
  - destruct k; reflexivity.
  - destruct k as [|k]; [reflexivity|]. unfold vzero at 1. cbn [repeat vm]. fold (vzeroR k).
    rewrite IH. rn. rewrite vscale_zero, Hq. apply vadd_vzero_vzero.
Qed.

(* (w . J) . Q = w . (J . Q) *)
Theorem vm_mmul n p J Q : wfmat p Q -> wfmat n J -> forall w,
  vmR p (vmR n w J) Q = vmR p w (mmulR p J Q).
Proof.
  intros HQ HJ. induction HJ as [|r J Hr HJ IH]; intros w.
  - destruct w; cbn [vm mmul map]; apply vm_vzero_any; exact HQ.
  - destruct w as [|x w]; [cbn [vm]; apply vm_vzero_any; exact HQ|].
    cbn [vm mmul map]. fold (mmulR p J Q).
    rewrite vm_vadd by (auto; rewrite length_vscale, (length_vm n) by exact HJ; exact Hr).
    rewrite vm_vscale by exact HQ. rewrite IH. reflexivity.
Qed.

(* the meta-theorem: any weighting that looks at J only through its Gramian commutes with Q *)
Theorem orthogonal_meta n p J Q (omega : list (list R) -> list R) :
  orth n p Q -> wfmat n J -> J <> [] ->
  combineR (mmulR p J Q) (omega (gramR (mmulR p J Q))) =
  vmR p (combineR J (omega (gramR J))) Q.
Proof.
  intros Ho HJ Hne. pose proof Ho as (HQ & Hl & _).
  rewrite (gram_mmul n p) by assumption. unfold combine_rows.
  rewrite (ncols_wf n J) by assumption.
  rewrite (ncols_wf p (mmulR p J Q)).
  - symmetry. apply vm_mmul; assumption.
  - apply wfmat_mmul; exact HQ.
  - destruct J; [congruence|discriminate].
Qed.

(* row span: by the shape of the model, every weighted aggregator returns w . J *)
Definition in_row_span (J : list (list R)) (v : list R) : Prop :=
  exists w, length w = length J /\ v = combineR J w.

Definition res_map {A B} (f : A -> B) (r : res A) : res B :=
  match r with Ok a => Ok (f a) | Err e => Err e end.

Theorem orthogonal_meta_res n p J Q (Omega : list (list R) -> res (list R)) :
  orth n p Q -> wfmat n J -> J <> [] ->
  weighted RN (mmulR p J Q) (Omega (gramR (mmulR p J Q))) =
  res_map (fun v => vmR p v Q) (weighted RN J (Omega (gramR J))).
Proof.
  intros Ho HJ Hne. rewrite (gram_mmul n p) by assumption.
  destruct (Omega (gramR J)) as [w|e]; cbn [weighted rbind res_map]; [|reflexivity].
  f_equal. pose proof (orthogonal_meta n p J Q (fun _ => w) Ho HJ Hne) as H. exact H.
Qed.

(* ---- Gramian form of every weighted model ---- *)
Definition Om_mean (G : list (list R)) := Ok (mean_weights RN (length G)).
Definition Om_sum (G : list (list R)) := Ok (sum_weights RN (length G)).
Definition Om_constant (w : list R) (G : list (list R)) := constant_weights w (length G).
Definition Om_random (e : list R) (G : list (list R)) := Ok (random_weights RN e).
Definition Om_dualproj qp pref s ne re (G : list (list R)) :=
  rbind (pref_weights pref (mean_weights RN (length G)) (length G))
        (fun u => Ok (dualproj_weights RN qp G s ne re u)).
Definition Om_upgrad qp pref s ne re (G : list (list R)) :=
  rbind (pref_weights pref (mean_weights RN (length G)) (length G))
        (fun u => Ok (upgrad_weights RN qp G s ne re u)).
Definition Om_mgda eps iters (G : list (list R)) := Ok (mgda_weights RN G eps iters).
Definition Om_pcgrad perms (G : list (list R)) := Ok (pcgrad_weights RN G perms).
Definition Om_krum f k (G : list (list R)) :=
  if (length G <? f + 3)%nat then Err ValueError
  else if (length G <? k)%nat then Err ValueError
  else Ok (krum_weights_of_dist RN (krum_distances RN G) f k).
Definition Om_imtlg P thr (G : list (list R)) := Ok (imtlg_weights RN P G thr).
Definition Om_cagrad s ne c w_opt (G : list (list R)) := Ok (cagrad_weights RN G s ne c w_opt).
Definition Om_aligned lam Vt tol pref (G : list (list R)) :=
  rbind (pref_weights pref (mean_weights RN (length G)) (length G))
        (fun w => Ok (mvR (aligned_balance RN lam Vt tol) w)).

Ltac gramform := intros; unfold weighted; cbn [rbind]; rewrite ?length_gram; reflexivity.

Lemma gf_mean J : Ok (agg_mean RN J) = weighted RN J (Om_mean (gramR J)).
Proof. unfold agg_mean, Om_mean. gramform. Qed.
Lemma gf_sum J : Ok (agg_sum RN J) = weighted RN J (Om_sum (gramR J)).
Proof. unfold agg_sum, Om_sum. gramform. Qed.
Lemma gf_constant w J : agg_constant RN w J = weighted RN J (Om_constant w (gramR J)).
Proof. unfold agg_constant, Om_constant. rewrite length_gram. reflexivity. Qed.
Lemma gf_random e J : Ok (agg_random RN e J) = weighted RN J (Om_random e (gramR J)).
Proof. unfold agg_random, Om_random. gramform. Qed.
Lemma gf_dualproj qp pref s ne re J :
  agg_dualproj RN qp pref s ne re J = weighted RN J (Om_dualproj qp pref s ne re (gramR J)).
Proof.
  unfold agg_dualproj, Om_dualproj, weighted. rewrite length_gram.
  destruct (pref_weights pref (mean_weights RN (length J)) (length J)); reflexivity.
Qed.
Lemma gf_upgrad qp pref s ne re J :
  agg_upgrad RN qp pref s ne re J = weighted RN J (Om_upgrad qp pref s ne re (gramR J)).
Proof.
  unfold agg_upgrad, Om_upgrad, weighted. rewrite length_gram.
  destruct (pref_weights pref (mean_weights RN (length J)) (length J)); reflexivity.
Qed.
Lemma gf_mgda eps iters J : Ok (agg_mgda RN eps iters J) = weighted RN J (Om_mgda eps iters (gramR J)).
Proof. unfold agg_mgda, Om_mgda. gramform. Qed.
Lemma gf_pcgrad perms J : Ok (agg_pcgrad RN perms J) = weighted RN J (Om_pcgrad perms (gramR J)).
Proof. unfold agg_pcgrad, Om_pcgrad. gramform. Qed.
Lemma gf_krum f k J : agg_krum RN f k J = weighted RN J (Om_krum f k (gramR J)).
Proof.
  unfold agg_krum, Om_krum, weighted. rewrite length_gram.
  destruct (length J <? f + 3)%nat; [reflexivity|]. destruct (length J <? k)%nat; reflexivity.
Qed.
Lemma gf_imtlg P thr J : Ok (agg_imtlg RN P thr J) = weighted RN J (Om_imtlg P thr (gramR J)).
Proof. unfold agg_imtlg, Om_imtlg. gramform. Qed.
Lemma gf_cagrad s ne c w_opt J :
  Ok (agg_cagrad RN s ne c w_opt J) = weighted RN J (Om_cagrad s ne c w_opt (gramR J)).
Proof. unfold agg_cagrad, Om_cagrad. gramform. Qed.
Lemma gf_aligned lam Vt tol pref J :
  agg_aligned RN lam Vt tol pref J = weighted RN J (Om_aligned lam Vt tol pref (gramR J)).
Proof.
  unfold agg_aligned, Om_aligned, weighted. rewrite length_gram.
  destruct (pref_weights pref (mean_weights RN (length J)) (length J)); reflexivity.
Qed.

(* row span for every Gramian-form model *)
Theorem weighted_in_span J (r : res (list R)) v :
  weighted RN J r = Ok v -> exists w, v = combineR J w.
Proof. destruct r as [w|e]; cbn; intros H; [injection H as <-; eauto|discriminate]. Qed.

(* zero columns do not change the others (TrimmedMean: coordinatewise) *)
Lemma isort_repeat0 k : isort RN (repeat 0 k) = repeat 0 k.
Proof.
  induction k as [|k IH]; [reflexivity|]. cbn [repeat isort]. rewrite IH.
  destruct k; [reflexivity|]. cbn [repeat insert]. rn.
  assert (E : Rleb 0 0 = true) by (apply Rleb_true; lra). rewrite E. reflexivity.
Qed.

Theorem trimmed_zero_column b k : (2 * b + 1 <= k)%nat -> trimmed RN b (repeat 0 k) = 0.
Proof.
  intros H. unfold trimmed. rewrite isort_repeat0, repeat_length.
  rewrite skipn_repeat || idtac.
  assert (E : forall a c, firstn a (skipn c (repeat 0 k)) = repeat 0 (Nat.min a (k - c))).
  { intros a c. clear. revert a c. induction k as [|k IH]; intros a c.
    - destruct a, c; reflexivity.
    - destruct c as [|c]; cbn [repeat skipn].
      + destruct a as [|a]; [reflexivity|]. cbn [firstn]. specialize (IH a 0%nat). cbn [skipn] in IH.
        rewrite IH. rewrite Nat.sub_0_r. cbn [Nat.sub]. destruct k; reflexivity.
      + apply IH. }
  rewrite E. rewrite vsum_repeat. rn. unfold Rdiv. rewrite Rmult_0_r, Rmult_0_l. reflexivity.
Qed.
