(* C10Proofs.v — C09 (fixed-weight linearity under row scaling), C10 (row permutations),
   C17 (IMTL-G equal projections, zero matrices) *)
From Coq Require Import Reals List Bool Arith Lia Lra Psatz Permutation Sorted.
From TJ Require Import Num Linalg NumR Agg.
From TJ.proofs Require Import LinalgR QPProofs C03Proofs C18Proofs C16Proofs C08Proofs C11Proofs.
Import ListNotations.
Local Open Scope R_scope.

(* ---------------- C09: diag(c) J ---------------- *)
Definition scale_rows (c : list R) (J : list (list R)) : list (list R) :=
  map (fun '(ci, r) => vscaleR ci r) (List.combine c J).
Definition vmul (a b : list R) : list R := map (fun '(x, y) => x * y) (List.combine a b).

Lemma vscale_vscale x y r : vscaleR x (vscaleR y r) = vscaleR (x * y) r.
Proof. unfold vscale. rewrite map_map. apply map_ext. intros z. rn. ring. Qed.

Lemma vm_scale_rows n : forall w c J, length w = length J -> length c = length J ->
  vmR n w (scale_rows c J) = vmR n (vmul w c) J.
Proof.
  intros w c J; revert w c; induction J as [|r J IH]; intros [|x w] [|ci c] Hw Hc; cbn in Hw, Hc;
    try lia; try reflexivity.
  unfold scale_rows, vmul. cbn [List.combine map vm]. fold (scale_rows c J) (vmul w c).
  rewrite IH by lia. rewrite vscale_vscale. reflexivity.
Qed.

Lemma length_vmul a b : length a = length b -> length (vmul a b) = length a.
Proof. intros H. unfold vmul. rewrite map_length, combine_length. lia. Qed.

Lemma vmul_lin w a c1 b c2 : length c1 = length w -> length c2 = length w ->
  vmul w (vaddR (vscaleR a c1) (vscaleR b c2)) =
  vaddR (vscaleR a (vmul w c1)) (vscaleR b (vmul w c2)).
Proof.
  revert c1 c2; induction w as [|x w IH]; intros [|y1 c1] [|y2 c2] H1 H2; cbn in H1, H2; try lia;
    [reflexivity|].
  unfold vmul. cbn [vscale map vadd List.combine]. fold (vscaleR a c1) (vscaleR b c2).
  fold (vmul w (vaddR (vscaleR a c1) (vscaleR b c2))) (vmul w c1) (vmul w c2).
  fold (vscaleR a (vmul w c1)) (vscaleR b (vmul w c2)).
  rewrite IH by lia. rn. f_equal. ring.
Qed.

Lemma wfmat_scale_rows n c J : wfmat n J -> wfmat n (scale_rows c J).
Proof.
  intros HJ. revert c. induction HJ as [|r J Hr HJ IH]; intros [|ci c]; try constructor.
  - rewrite length_vscale. exact Hr.
  - apply IH.
Qed.

Lemma ncols_scale_rows n c J : wfmat n J -> J <> [] -> c <> [] -> ncols (scale_rows c J) = n.
Proof.
  intros HJ Hne Hc. destruct J as [|r J]; [congruence|]. destruct c as [|ci c]; [congruence|].
  cbn. rewrite length_vscale. apply Forall_cons_iff in HJ. apply HJ.
Qed.

(* A(diag(a c1 + b c2) J) = a A(diag(c1) J) + b A(diag(c2) J) for every FIXED weight vector w
   (Mean, Sum, Constant, Random under a fixed draw) — all c, not only positive ones *)
Theorem fixed_weights_linear n J w a c1 b c2 : wfmat n J -> J <> [] ->
  length w = length J -> length c1 = length J -> length c2 = length J ->
  combineR (scale_rows (vaddR (vscaleR a c1) (vscaleR b c2)) J) w =
  vaddR (vscaleR a (combineR (scale_rows c1 J) w)) (vscaleR b (combineR (scale_rows c2 J) w)).
Proof.
  intros HJ Hne Hw H1 H2. unfold combine_rows.
  assert (Hc : forall c, length c = length J -> ncols (scale_rows c J) = n).
  { intros c Hc. apply ncols_scale_rows; auto. intros E. subst c. destruct J; [congruence|discriminate]. }
  rewrite !Hc; auto.
  2:{ rewrite length_vadd; rewrite !length_vscale; congruence. }
  rewrite !vm_scale_rows by (auto; rewrite ?length_vadd, ?length_vscale; rewrite ?length_vscale; congruence).
  rewrite vmul_lin by congruence.
  rewrite vm_vadd by (auto; rewrite !length_vscale, !length_vmul; congruence).
  rewrite !vm_vscale by exact HJ. reflexivity.
Qed.

(* ---------------- C10: row permutations ---------------- *)
Fixpoint vmp (n : nat) (l : list (R * list R)) : list R :=
  match l with
  | [] => vzeroR n
  | (x, r) :: l' => vaddR (vscaleR x r) (vmp n l')
  end.

Lemma vm_vmp n : forall w J, length w = length J -> vmR n w J = vmp n (List.combine w J).
Proof.
  induction w as [|x w IH]; intros [|r J] H; cbn in H; try lia; [reflexivity|].
  cbn [vm List.combine vmp]. rewrite IH by lia. reflexivity.
Qed.

Lemma length_vmp n l : Forall (fun p => length (snd p) = n) l -> length (vmp n l) = n.
Proof.
  induction 1 as [|[x r] l Hr Hl IH]; cbn [vmp]; [apply length_vzero|].
  cbn in Hr. rewrite length_vadd; rewrite length_vscale; congruence.
Qed.

Lemma vadd_swap a : forall b c, length b = length a -> length c = length a ->
  vaddR a (vaddR b c) = vaddR b (vaddR a c).
Proof.
  induction a as [|x a IH]; intros [|y b] [|z c] Hb Hc; cbn in Hb, Hc; try lia; [reflexivity|].
  cbn [vadd]. rewrite IH by lia. rn. f_equal. lra.
Qed.

Lemma vmp_perm n l l' : Forall (fun p => length (snd p) = n) l -> Permutation l l' ->
  vmp n l = vmp n l'.
Proof.
  intros Hwf Hp. induction Hp as [|[x r] l l' Hp IH|[x r] [y s] l|l l' l'' H1 IH1 H2 IH2].
  - reflexivity.
  - cbn [vmp]. apply Forall_cons_iff in Hwf. rewrite IH by apply Hwf. reflexivity.
  - cbn [vmp]. apply Forall_cons_iff in Hwf. destruct Hwf as [Hs Hwf].
    apply Forall_cons_iff in Hwf. destruct Hwf as [Hr Hwf]. cbn in Hs, Hr.
    apply vadd_swap; rewrite ?length_vscale, ?length_vmp; auto; congruence.
  - rewrite IH1 by exact Hwf. apply IH2. eapply Permutation_Forall; eauto.
Qed.

(* meta-theorem: permuting the rows together with their weights does not change the combination *)
Theorem perm_meta n J J' w w' : wfmat n J -> J <> [] -> length w = length J -> length w' = length J' ->
  Permutation (List.combine w J) (List.combine w' J') ->
  combineR J w = combineR J' w'.
Proof.
  intros HJ Hne Hw Hw' Hp. unfold combine_rows.
  assert (HJ' : wfmat n J').
  { assert (Forall (fun p : R * list R => length (snd p) = n) (List.combine w' J')) as Hf.
    { eapply Permutation_Forall; [exact Hp|]. clear -HJ. revert w. induction HJ as [|r J Hr HJ IH];
        intros [|x w]; cbn; constructor; auto. }
    clear -Hf Hw'. revert w' Hw' Hf. induction J' as [|r J' IH]; intros [|x w'] Hw' Hf; cbn in Hw';
      try lia; constructor.
    - apply Forall_cons_iff in Hf. apply Hf.
    - apply (IH w'); [lia|]. apply Forall_cons_iff in Hf. apply Hf. }
  assert (Hne' : J' <> []).
  { intros E. subst J'. apply Permutation_length in Hp. rewrite !combine_length in Hp.
    destruct J; [congruence|]. cbn in *. lia. }
  rewrite (ncols_wf n J), (ncols_wf n J') by assumption.
  rewrite !vm_vmp by assumption. apply vmp_perm; [|exact Hp].
  clear -HJ. revert w. induction HJ as [|r J Hr HJ IH]; intros [|x w]; cbn; constructor; auto.
Qed.

Lemma combine_repeat {A} (x : R) (J : list A) : List.combine (repeat x (length J)) J = map (pair x) J.
Proof. induction J as [|r J IH]; [reflexivity|]. cbn. f_equal. exact IH. Qed.

Theorem mean_sum_perm n J J' : wfmat n J -> J <> [] -> Permutation J J' ->
  agg_mean RN J = agg_mean RN J' /\ agg_sum RN J = agg_sum RN J'.
Proof.
  intros HJ Hne Hp. pose proof (Permutation_length Hp) as Hl.
  assert (E : forall x, combineR J (repeat x (length J)) = combineR J' (repeat x (length J'))).
  { intros x. apply (perm_meta n); auto; try apply repeat_length.
    rewrite !combine_repeat. apply Permutation_map. exact Hp. }
  unfold agg_mean, agg_sum, mean_weights, sum_weights. split; [|apply E].
  rewrite E. rewrite Hl. reflexivity.
Qed.

(* TrimmedMean *)
Lemma sorted_perm_eq (l l' : list R) : StronglySorted Rle l -> StronglySorted Rle l' ->
  Permutation l l' -> l = l'.
Proof.
  revert l'; induction l as [|x l IH]; intros l' Hs Hs' Hp.
  - apply Permutation_nil in Hp. subst; reflexivity.
  - destruct l' as [|y l']; [apply Permutation_sym, Permutation_nil in Hp; discriminate|].
    apply StronglySorted_inv in Hs. destruct Hs as [Hs Hx].
    apply StronglySorted_inv in Hs'. destruct Hs' as [Hs' Hy].
    rewrite Forall_forall in Hx, Hy.
    assert (x = y).
    { assert (In x (y :: l')) as Hin by (eapply Permutation_in; [exact Hp|left; reflexivity]).
      assert (In y (x :: l)) as Hin' by (eapply Permutation_in; [symmetry; exact Hp|left; reflexivity]).
      destruct Hin as [->|Hin]; [reflexivity|]. destruct Hin' as [->|Hin']; [reflexivity|].
      specialize (Hx _ Hin'). specialize (Hy _ Hin). lra. }
    subst y. f_equal. apply IH; auto. eapply Permutation_cons_inv; exact Hp.
Qed.

Lemma column_perm J J' j : Permutation J J' -> Permutation (column RN J j) (column RN J' j).
Proof.
  induction 1 as [|r l l' Hp IH|r s l|l l' l'' H1 IH1 H2 IH2]; cbn [column].
  - constructor.
  - constructor. exact IH.
  - apply perm_swap.
  - etransitivity; eauto.
Qed.

Theorem trimmed_mean_perm n b J J' : wfmat n J -> J <> [] -> Permutation J J' ->
  agg_trimmed_mean RN b J = agg_trimmed_mean RN b J'.
Proof.
  intros HJ Hne Hp. unfold agg_trimmed_mean. rewrite <- (Permutation_length Hp).
  destruct (length J <? 1 + 2 * b)%nat; [reflexivity|].
  assert (HJ' : wfmat n J') by (eapply Permutation_Forall; eauto).
  assert (Hne' : J' <> []).
  { intros E. subst J'. apply Permutation_length in Hp. destruct J; [congruence|discriminate]. }
  rewrite (ncols_wf n J), (ncols_wf n J') by assumption.
  f_equal. apply map_ext. intros j. unfold trimmed.
  rewrite (sorted_perm_eq (isort RN (column RN J j)) (isort RN (column RN J' j))).
  - rewrite (Permutation_length (column_perm J J' j Hp)). reflexivity.
  - apply isort_sorted.
  - apply isort_sorted.
  - rewrite !isort_perm. apply column_perm. exact Hp.
Qed.

(* ---------------- C17: IMTL-G ---------------- *)
Lemma map_div_vscale s v : map (fun x => x / s) v = vscaleR (1 / s) v.
Proof. unfold vscale. apply map_ext. intros x. rn. unfold Rdiv. ring. Qed.

Theorem imtlg_equal_projections n J P thr : wfmat n J -> J <> [] -> length P = length J ->
  (* pinv contract for an invertible Gramian: G P = I *)
  (forall x, length x = length J -> mvR (gramR J) (mvR P x) = x) ->
  let G := gramR J in
  let d := map (fun i => sqrt (mget RN G i i)) (seq 0 (length G)) in
  let sigma := vsumR (mvR P d) in
  nltb RN (nabs RN sigma * vsumR d) thr = false -> sigma <> 0 ->
  let w := imtlg_weights RN P G thr in
  vsumR w = 1 /\
  forall i, (i < length J)%nat -> nth i (mvR J (agg_imtlg RN P thr J)) 0 = nth i d 0 / sigma.
Proof.
  intros HJ Hne HlP HP G d sigma Hguard Hs w.
  assert (Hw : w = vscaleR (1 / sigma) (mvR P d)).
  { unfold w, imtlg_weights. fold G. rn. fold d. fold sigma. rn. rewrite Hguard. apply map_div_vscale. }
  assert (Hld : length d = length J) by (unfold d; rewrite map_length, seq_length; apply length_gram).
  split.
  - rewrite Hw, vsum_vscale. fold sigma. field. exact Hs.
  - intros i Hi. unfold agg_imtlg. fold G. fold w. unfold combine_rows.
    rewrite (ncols_wf n) by assumption.
    assert (Hlw : length w = length J) by (rewrite Hw, length_vscale, length_mv; exact HlP).
    rewrite <- (mv_gram n) by assumption. fold G. rewrite Hw, mv_vscale. unfold G.
    rewrite HP by exact Hld. rewrite nth_vscale. unfold Rdiv. ring.
Qed.

(* an all-zero matrix: every weighted model returns the zero vector, whatever the weights *)
Theorem weighted_zero_matrix m n w : vmR n w (repeat (vzeroR n) m) = vzeroR n.
Proof.
  revert w. induction m as [|m IH]; intros w; [destruct w; reflexivity|].
  destruct w as [|x w]; [reflexivity|]. cbn [repeat vm]. rewrite IH, vscale_vzero.
  apply vadd_vzero_vzero.
Qed.

(* ConFIG on an all-zero matrix: zero vector of the length of the oracle's answer *)
Theorem config_zero_matrix B pref m n v :
  agg_config RN B pref (repeat (vzeroR n) m) = Ok v -> Forall (fun x => x = 0) v.
Proof.
  unfold agg_config. destruct (pref_weights pref (sum_weights RN (length (repeat (vzeroR n) m)))
                                 (length (repeat (vzeroR n) m))) as [w|e]; cbn [rbind]; [|discriminate].
  intros H. injection H as <-. cbv zeta.
  match goal with |- context [map (fun g => dot RN g ?U) _] => set (u := U) end.
  assert (E : vsumR (map (fun g => dotR g u) (repeat (vzeroR n) m)) = 0).
  { clear. induction m as [|m IH]; [reflexivity|]. cbn [repeat map]. rewrite vsum_cons, IH, dot_vzero_l. lra. }
  rewrite E. rewrite vscale_zero. apply Forall_forall. intros x Hx.
  apply repeat_spec in Hx. exact Hx.
Qed.
