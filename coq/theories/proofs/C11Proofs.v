(* C11Proofs.v — validation rules, output shape, positive homogeneity; C09 fixed-weight linearity;
   C10 permutation invariance (meta, Mean/Sum, TrimmedMean) *)
From Coq Require Import Reals List Bool Arith Lia Lra Psatz Permutation Sorted.
From TJ Require Import Num Linalg NumR Agg.
From TJ.proofs Require Import LinalgR QPProofs C03Proofs C18Proofs C16Proofs C08Proofs.
Import ListNotations.
Local Open Scope R_scope.

(* ---------------- validation ---------------- *)
Lemma check_matrix_iff ndim finite :
  check_matrix ndim finite = Ok tt <-> ndim = 2%nat /\ finite = true.
Proof.
  unfold check_matrix. destruct (Nat.eqb_spec ndim 2); cbn [negb]; destruct finite; cbn [negb];
    split; try (intros [? ?]); intros; try discriminate; try contradiction; auto.
Qed.

Lemma check_matrix_err ndim finite :
  check_matrix ndim finite <> Ok tt -> check_matrix ndim finite = Err ValueError.
Proof. unfold check_matrix. destruct (ndim =? 2)%nat, finite; cbn; congruence. Qed.

Lemma constant_weights_iff (w : list R) m :
  (constant_weights w m = Ok w <-> length w = m) /\
  (length w <> m -> constant_weights w m = Err ValueError).
Proof.
  unfold constant_weights. destruct (Nat.eqb_spec (length w) m); split; try split; intros;
    try congruence; try discriminate; auto.
Qed.

(* ---------------- shape ---------------- *)
Lemma length_combine n J w : wfmat n J -> J <> [] -> length (combineR J w) = ncols J.
Proof.
  intros HJ Hne. unfold combine_rows. rewrite (ncols_wf n) by assumption. apply length_vm. exact HJ.
Qed.

Theorem weighted_shape n J r v : wfmat n J -> J <> [] -> weighted RN J r = Ok v -> length v = ncols J.
Proof.
  intros HJ Hne. destruct r as [w|e]; cbn; intros H; [|discriminate]. injection H as <-.
  apply (length_combine n); assumption.
Qed.

Theorem trimmed_mean_shape b J v : agg_trimmed_mean RN b J = Ok v -> length v = ncols J.
Proof.
  unfold agg_trimmed_mean. destruct (length J <? 1 + 2 * b)%nat; [discriminate|].
  intros H. injection H as <-. rewrite map_length, seq_length. reflexivity.
Qed.

Theorem graddrop_shape leak U J v : length U = ncols J -> agg_graddrop RN leak U J = Ok v ->
  length v = ncols J.
Proof.
  intros HU. unfold agg_graddrop. destruct leak as [l|].
  - destruct (negb (length l =? length J)%nat); [discriminate|]. intros H. injection H as <-.
    rewrite map_length, combine_length, seq_length. lia.
  - intros H. injection H as <-. rewrite map_length, combine_length, seq_length. lia.
Qed.

(* ---------------- scaling the whole matrix ---------------- *)
Notation mscaleR := (mscale RN).

Lemma vm_mscale n t w J : wfmat n J -> vmR n w (mscaleR t J) = vscaleR t (vmR n w J).
Proof.
  intros HJ. revert w. induction HJ as [|r J Hr HJ IH]; intros w.
  - destruct w; cbn [mscale map vm]; symmetry; apply vscale_vzero.
  - destruct w as [|x w]; [cbn [mscale map vm]; symmetry; apply vscale_vzero|].
    cbn [mscale map vm]. fold (mscaleR t J). rewrite IH.
    assert (Hl : length (vmR n w J) = length r) by (rewrite (length_vm n) by exact HJ; auto).
    generalize dependent (vmR n w J). clear. intros v Hv. revert v Hv.
    induction r as [|z r IHr]; intros [|y v] Hv; cbn in Hv; try lia; [reflexivity|].
    cbn [vscale map vadd]. fold (vscaleR t r) (vscaleR x (vscaleR t r)) (vscaleR x r) (vscaleR t v).
    fold (vscaleR t (vaddR (vscaleR x r) v)).
    rewrite IHr by lia. rn. f_equal. lra.
Qed.

Lemma wfmat_mscale n t J : wfmat n J -> wfmat n (mscaleR t J).
Proof.
  intros HJ. unfold wfmat, mscale. apply Forall_forall. intros r Hr. apply in_map_iff in Hr.
  destruct Hr as (r0 & <- & Hr0). rewrite length_vscale. unfold wfmat in HJ.
  rewrite Forall_forall in HJ. auto.
Qed.

Lemma ncols_mscale t J : ncols (mscaleR t J) = ncols J.
Proof. destruct J; cbn; [reflexivity|apply length_vscale]. Qed.

Lemma length_mscale t (J : list (list R)) : length (mscaleR t J) = length J.
Proof. apply map_length. Qed.

(* combine (t J) w = t combine J w  — homogeneity of every fixed weighting *)
Theorem combine_mscale n t J w : wfmat n J -> combineR (mscaleR t J) w = vscaleR t (combineR J w).
Proof.
  intros HJ. unfold combine_rows. rewrite ncols_mscale.
  destruct J as [|r J]; [destruct w; reflexivity|].
  rewrite (ncols_wf n) by (auto; discriminate). apply vm_mscale. exact HJ.
Qed.

Lemma gram_mscale t J : gramR (mscaleR t J) = mscaleR (t * t) (gramR J).
Proof.
  unfold gram, mscale. rewrite !map_map. apply map_ext. intros r. unfold vscale at 3.
  rewrite !map_map. apply map_ext. intros s. fold (vscaleR t r) (vscaleR t s).
  rewrite dot_vscale_l, dot_vscale_r. rn. lra.
Qed.

(* meta-theorem: a weighting invariant under positive scaling of the Gramian gives A(tJ) = tA(J) *)
Theorem homogeneous_meta n t J (Omega : list (list R) -> res (list R)) : wfmat n J ->
  Omega (mscaleR (t * t) (gramR J)) = Omega (gramR J) ->
  weighted RN (mscaleR t J) (Omega (gramR (mscaleR t J))) =
  res_map (vscaleR t) (weighted RN J (Omega (gramR J))).
Proof.
  intros HJ HO. rewrite gram_mscale, HO. destruct (Omega (gramR J)) as [w|e]; cbn; [|reflexivity].
  f_equal. apply (combine_mscale n). exact HJ.
Qed.

(* MGDA's weights are invariant under positive scaling of the Gramian *)
Lemma argmin_from_scale k best bi i v : 0 < k ->
  argmin_from RN (k * best) bi i (vscaleR k v) = argmin_from RN best bi i v.
Proof.
  intros Hk. revert best bi i. induction v as [|x v IH]; intros best bi i; [reflexivity|].
  cbn [vscale map argmin_from]. fold (vscaleR k v). rn.
  destruct (Rltb x best) eqn:E.
  - assert (E' : Rltb (k * x) (k * best) = true) by (apply Rltb_true; apply Rltb_true in E; nra).
    rewrite E'. apply IH.
  - assert (E' : Rltb (k * x) (k * best) = false) by (apply Rltb_false; apply Rltb_false in E; nra).
    rewrite E'. apply IH.
Qed.

Lemma argmin_scale k v : 0 < k -> argmin RN (vscaleR k v) = argmin RN v.
Proof.
  intros Hk. destruct v as [|x v]; [reflexivity|]. cbn [vscale map argmin]. fold (vscaleR k v).
  rn. apply argmin_from_scale. exact Hk.
Qed.

Lemma mgda_step_scale k G alpha : 0 < k ->
  mgda_step RN (mscaleR k G) alpha = mgda_step RN G alpha.
Proof.
  intros Hk. unfold mgda_step. cbv zeta. rewrite !mv_mscale, argmin_scale by exact Hk.
  set (t := argmin RN (mvR G alpha)). set (e := onehotR (length alpha) t (n1 RN)).
  rewrite !dot_vscale_r. rn.
  set (a := dotR alpha (mvR G e)). set (b := dotR alpha (mvR G alpha)). set (c := dotR e (mvR G e)).
  assert (E1 : Rleb (k * c) (k * a) = Rleb c a).
  { destruct (Rleb c a) eqn:E; [apply Rleb_true; apply Rleb_true in E; apply Rmult_le_compat_l; lra|
      apply Rleb_false; apply Rleb_false in E; apply Rmult_lt_compat_l; lra]. }
  assert (E2 : Rleb (k * b) (k * a) = Rleb b a).
  { destruct (Rleb b a) eqn:E; [apply Rleb_true; apply Rleb_true in E; apply Rmult_le_compat_l; lra|
      apply Rleb_false; apply Rleb_false in E; apply Rmult_lt_compat_l; lra]. }
  rewrite E1, E2. destruct (Rleb c a) eqn:Eca; [reflexivity|]. destruct (Rleb b a) eqn:Eba; [reflexivity|].
  apply Rleb_false in Eca, Eba.
  assert (Eg : (k * b - k * a) / (k * b + k * c - INR 2 * (k * a)) = (b - a) / (b + c - INR 2 * a)).
  { replace (INR 2) with 2 by (cbn; lra).
    assert (Hden : b + c - 2 * a <> 0) by lra. assert (Hk' : k <> 0) by lra.
    assert (Hkd : k * b + k * c - 2 * (k * a) <> 0).
    { replace (k * b + k * c - 2 * (k * a)) with (k * (b + c - 2 * a)) by ring.
      apply Rmult_integral_contrapositive_currified; assumption. }
    field. split; assumption. }
  rewrite Eg. reflexivity.
Qed.

Lemma mgda_loop_scale k iters G eps alpha : 0 < k ->
  mgda_loop RN iters (mscaleR k G) eps alpha = mgda_loop RN iters G eps alpha.
Proof.
  intros Hk. revert alpha. induction iters as [|it IH]; intros alpha; [reflexivity|].
  cbn [mgda_loop]. rewrite mgda_step_scale by exact Hk.
  destruct (mgda_step RN G alpha) as [a' g]. destruct (nltb RN g eps); [reflexivity|apply IH].
Qed.

Theorem mgda_homogeneous n t eps iters J : wfmat n J -> 0 < t ->
  agg_mgda RN eps iters (mscaleR t J) = vscaleR t (agg_mgda RN eps iters J).
Proof.
  intros HJ Ht. unfold agg_mgda. rewrite gram_mscale. unfold mgda_weights.
  rewrite length_mscale, mgda_loop_scale by nra. apply (combine_mscale n). exact HJ.
Qed.

(* ---------------- TrimmedMean: homogeneity ---------------- *)
Lemma insert_scale t x l : 0 < t ->
  insert RN (t * x) (vscaleR t l) = vscaleR t (insert RN x l).
Proof.
  intros Ht. induction l as [|y l IH]; [reflexivity|]. cbn [vscale map insert]. fold (vscaleR t l). rn.
  assert (E : Rleb (t * x) (t * y) = Rleb x y).
  { destruct (Rleb x y) eqn:E; [apply Rleb_true; apply Rleb_true in E; apply Rmult_le_compat_l; lra|
      apply Rleb_false; apply Rleb_false in E; apply Rmult_lt_compat_l; lra]. }
  rewrite E. destruct (Rleb x y); cbn [vscale map]; rn; [reflexivity|]. f_equal. exact IH.
Qed.

Lemma isort_scale t l : 0 < t -> isort RN (vscaleR t l) = vscaleR t (isort RN l).
Proof.
  intros Ht. induction l as [|x l IH]; [reflexivity|]. cbn [vscale map isort]. fold (vscaleR t l).
  rewrite IH. rn. apply insert_scale. exact Ht.
Qed.

Lemma trimmed_scale t b col : 0 < t -> trimmed RN b (vscaleR t col) = t * trimmed RN b col.
Proof.
  intros Ht. unfold trimmed. rewrite isort_scale by exact Ht. rewrite length_vscale.
  unfold vscale at 1 2. rewrite skipn_map, firstn_map. fold (vscaleR t (firstn (length col - 2 * b) (skipn b (isort RN col)))).
  rewrite vsum_vscale, length_vscale. rn. unfold Rdiv. ring.
Qed.

Lemma column_mscale t J j : column RN (mscaleR t J) j = vscaleR t (column RN J j).
Proof.
  induction J as [|r J IH]; [reflexivity|]. cbn [mscale map column vscale]. fold (mscaleR t J).
  fold (vscaleR t (column RN J j)). rewrite IH. f_equal. fold (vscaleR t r).
  rewrite nth_vscale. reflexivity.
Qed.

Theorem trimmed_mean_homogeneous t b J : 0 < t ->
  agg_trimmed_mean RN b (mscaleR t J) = res_map (vscaleR t) (agg_trimmed_mean RN b J).
Proof.
  intros Ht. unfold agg_trimmed_mean. rewrite length_mscale, ncols_mscale.
  destruct (length J <? 1 + 2 * b)%nat; [reflexivity|]. cbn [res_map]. f_equal.
  unfold vscale. rewrite map_map. apply map_ext. intros j. rewrite column_mscale.
  apply trimmed_scale. exact Ht.
Qed.

(* ---------------- IMTL-G: homogeneity of the fixed model, refutation of the old guard -------- *)
Lemma mget_mscale k G i j : mget RN (mscaleR k G) i j = k * mget RN G i j.
Proof.
  unfold mget, mscale.
  replace (nth i (map (vscaleR k) G) []) with (vscaleR k (nth i G [])).
  - apply nth_vscale.
  - symmetry. apply (map_nth (vscaleR k) G []).
Qed.

Lemma nabs_div x t : 0 < t -> nabs RN (x / t) = nabs RN x / t.
Proof.
  intros Ht. unfold nabs. rn.
  assert (E : Rltb (x / t) 0 = Rltb x 0).
  { destruct (Rltb x 0) eqn:E.
    - apply Rltb_true. apply Rltb_true in E. unfold Rdiv.
      replace 0 with (0 * / t) by ring. apply Rmult_lt_compat_r; [apply Rinv_0_lt_compat; lra|lra].
    - apply Rltb_false. apply Rltb_false in E. unfold Rdiv. apply Rmult_le_pos; [lra|].
      apply Rlt_le, Rinv_0_lt_compat; lra. }
  rewrite E. destruct (Rltb x 0); unfold Rdiv; ring.
Qed.

Theorem imtlg_homogeneous n t P thr J : wfmat n J -> 0 < t -> 0 < thr ->
  agg_imtlg RN (mscaleR (1 / (t * t)) P) thr (mscaleR t J) = vscaleR t (agg_imtlg RN P thr J).
Proof.
  intros HJ Ht Hthr. unfold agg_imtlg. rewrite gram_mscale.
  assert (Hw : imtlg_weights RN (mscaleR (1 / (t * t)) P) (mscaleR (t * t) (gramR J)) thr =
               imtlg_weights RN P (gramR J) thr).
  { unfold imtlg_weights. rewrite length_mscale.
    set (d := map (fun i => nsqrt RN (mget RN (gramR J) i i)) (seq 0 (length (gramR J)))).
    assert (Hd : map (fun i => nsqrt RN (mget RN (mscaleR (t * t) (gramR J)) i i))
                     (seq 0 (length (gramR J))) = vscaleR t d).
    { unfold d, vscale. rewrite map_map. apply map_ext. intros i. rewrite mget_mscale. rn.
      rewrite sqrt_mult_alt by nra. rewrite sqrt_square by lra. reflexivity. }
    rewrite Hd. rewrite mv_mscale, mv_vscale.
    set (v := mvR P d).
    assert (Hv : vscaleR (1 / (t * t)) (vscaleR t v) = vscaleR (1 / t) v).
    { unfold vscale. rewrite map_map. apply map_ext. intros x. rn. field. lra. }
    rewrite Hv. rewrite !vsum_vscale. rewrite length_vscale.
    replace (1 / t * vsumR v) with (vsumR v / t) by (field; lra).
    rewrite nabs_div by exact Ht. rn.
    replace (nabs RN (vsumR v) / t * (t * vsumR d)) with (nabs RN (vsumR v) * vsumR d) by (field; lra).
    destruct (Rltb (nabs RN (vsumR v) * vsumR d) thr) eqn:E; [reflexivity|].
    (* the guard is false, so the sum is not zero *)
    assert (Hs : vsumR v <> 0).
    { intros Z. apply Rltb_false in E. rewrite Z in E. unfold nabs in E. rn.
      destruct (Rltb 0 0); lra. }
    unfold vscale. rewrite map_map. apply map_ext. intros x. rn. field. split; [exact Hs|lra]. }
  rewrite Hw. apply (combine_mscale n). exact HJ.
Qed.

(* the guard before the fix was absolute: homogeneity fails (witness J = [[1]], t = 10^13) *)
Theorem imtlg_v0_not_homogeneous :
  exists (J P P' : list (list R)) (t : R), 0 < t /\
    (* P = pinv(G), P' = pinv(t^2 G) = P / t^2 *)
    P' = mscaleR (1 / (t * t)) P /\
    combineR (mscaleR t J) (imtlg_weights_v0 RN P' (gramR (mscaleR t J)) (1 / 10 ^ 12)) <>
    vscaleR t (combineR J (imtlg_weights_v0 RN P (gramR J) (1 / 10 ^ 12))).
Proof.
  exists [[1]], [[1]], (mscaleR (1 / (10 ^ 13 * 10 ^ 13)) [[1]]), (10 ^ 13).
  split; [apply pow_lt; lra|]. split; [reflexivity|].
  unfold imtlg_weights_v0, gram, mscale, combine_rows, ncols. cbn [map length seq vscale mget nth dot mv vsum fold_right].
  rn. rewrite !Rmult_1_r, !Rplus_0_r, !Rmult_1_l.
  rewrite sqrt_1. rewrite sqrt_square by (apply pow_le; lra).
  set (T := 10 ^ 13).
  assert (HT : T = 10000000000000) by (unfold T; lra).
  replace (1 / (T * T) * T) with (1 / T) by (field; lra).
  unfold nabs. rn.
  assert (E1 : Rltb (1 / T) 0 = false) by (apply Rltb_false; rewrite HT; lra).
  assert (E2 : Rltb 1 0 = false) by (apply Rltb_false; lra).
  rewrite E1, E2.
  assert (E3 : Rltb (1 / T) (1 / 10 ^ 12) = true) by (apply Rltb_true; rewrite HT; lra).
  assert (E4 : Rltb 1 (1 / 10 ^ 12) = false) by (apply Rltb_false; lra).
  rewrite E3, E4. cbn [vzero repeat length vm vscale map vadd]. rn.
  intros H. injection H as H. rewrite HT in H. lra.
Qed.
