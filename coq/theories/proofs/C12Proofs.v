From Coq Require Import List Bool Arith Lia.
From TJ Require Import Num Linalg Chunk Autojac Traverse.
From TJ.proofs Require Import TraverseProofs.
Import ListNotations.

(* ---------- generic helpers on [somes] / [all_some] / [inter] ---------- *)

Lemma somes_In : forall {X : Type} (r : X) (l : list (option X)),
  In r (somes l) <-> In (Some r) l.
Proof.
  intros X r l. unfold somes. rewrite in_flat_map. split.
  - intros [o [Ho Hr]]. destruct o as [c|]; simpl in Hr.
    + destruct Hr as [Hr|[]]. subst c. exact Ho.
    + destruct Hr.
  - intros H. exists (Some r). split; [exact H | left; reflexivity].
Qed.

Lemma somes_length : forall {X : Type} (l : list (option X)),
  length (somes l) <= length l.
Proof.
  intros X l. unfold somes. induction l as [|o l IH]; simpl.
  - lia.
  - destruct o as [c|]; simpl; lia.
Qed.

Lemma all_some_true : forall {X : Type} (l : list (option X)),
  all_some l = true <-> (forall o, In o l -> o <> None).
Proof.
  intros X l. unfold all_some. rewrite forallb_forall. split.
  - intros H o Ho He. subst o. specialize (H None Ho). discriminate H.
  - intros H o Ho. destruct o as [c|].
    + reflexivity.
    + exfalso. exact (H None Ho eq_refl).
Qed.

Lemma all_some_map_true : forall {X Y : Type} (f : X -> option Y) (l : list X),
  all_some (map f l) = true <-> (forall t, In t l -> f t <> None).
Proof.
  intros X Y f l. rewrite all_some_true. split.
  - intros H t Ht. apply H. apply in_map. exact Ht.
  - intros H o Ho. apply in_map_iff in Ho. destruct Ho as [t [Hft Ht]].
    subst o. apply H. exact Ht.
Qed.

Lemma all_some_map_false : forall {X Y : Type} (f : X -> option Y) (l : list X) (t : X),
  In t l -> f t = None -> all_some (map f l) = false.
Proof.
  intros X Y f l t Ht Hf. destruct (all_some (map f l)) eqn:Ha.
  - exfalso. exact (proj1 (all_some_map_true f l) Ha t Ht Hf).
  - reflexivity.
Qed.

Lemma somes_map_In : forall {X Y : Type} (f : X -> option Y) (l : list X) (r : Y),
  In r (somes (map f l)) <-> exists o, In o l /\ f o = Some r.
Proof.
  intros X Y f l r. rewrite somes_In. rewrite in_map_iff. split.
  - intros [o [Ho Hi]]. exists o. split; assumption.
  - intros [o [Hi Ho]]. exists o. split; assumption.
Qed.

Lemma inter_In : forall q a b, In q (inter a b) <-> In q a /\ In q b.
Proof.
  intros q a b. unfold inter. rewrite filter_In. rewrite mem_In. reflexivity.
Qed.

Section C12.
Context {T : Type} (N : Num T) (P : prog T) (E : egraph) (A : list (list T) -> res (list T)).

(* the graph is finite: all grad_fn nodes and all their descendants lie in a duplicate-free list
   no longer than the declared node count *)
Definition graph_closed (nodes : list nid) : Prop :=
  NoDup nodes /\ length nodes <= p_nnodes P /\
  (forall t r, p_gfn P t = Some r -> In r nodes) /\
  (forall n c k, In n nodes -> In (Some (c, k)) (e_next E n) -> In c nodes).

(* excluding one output of a multi-output node does not exclude its siblings: an edge is excluded
   iff it is the gradient edge of an excluded tensor *)
Lemma tensor_edges_In : forall ts n k,
  In (n, k) (tensor_edges P E ts) <-> exists t, In t ts /\ p_gfn P t = Some n /\ e_onr E t = k.
Proof.
  intros ts n k. unfold tensor_edges. rewrite in_flat_map. split.
  - intros [t [Ht Hi]]. exists t. split; [exact Ht|].
    destruct (p_gfn P t) as [m|].
    + destruct Hi as [Hi|[]]. injection Hi as Hm Hk. subst m. split; [reflexivity | exact Hk].
    + destruct Hi.
  - intros [t [Ht [Hg Hk]]]. exists t. split; [exact Ht|]. rewrite Hg. subst k.
    left. reflexivity.
Qed.

(* the discovered set: the variables of the AccumulateGrad nodes reachable from the gradient edge of
   some tensor along a path that uses none of the gradient edges of the excluded tensors *)
Lemma get_leaf_tensors_ok : forall tensors excluded leaves,
  get_leaf_tensors P E tensors excluded = Ok leaves ->
  (forall t, In t tensors -> p_gfn P t <> None) /\
  (forall t, In t excluded -> p_gfn P t <> None) /\
  NoDup leaves /\
  (forall t, In t leaves <->
     exists a o r, p_acc P a = Some t /\ In o tensors /\ p_gfn P o = Some r /\
                   ~ In (r, e_onr E o) (tensor_edges P E excluded) /\
                   epath (e_next E) (tensor_edges P E excluded) r a).
Proof.
  intros tensors excluded leaves H. unfold get_leaf_tensors in H.
  destruct (all_some (map (p_gfn P) tensors)) eqn:H1; cbn [negb] in H; [|discriminate H].
  destruct (all_some (map (p_gfn P) excluded)) eqn:H2; cbn [negb] in H; [|discriminate H].
  destruct (descendant_accumulate_grads (e_next E) (p_acc P)
              (S (p_nnodes P + length tensors))
              (tensor_edges P E tensors) (tensor_edges P E excluded))
    as [accs|] eqn:Hd; [|discriminate H].
  injection H as H. subst leaves.
  pose proof (bfs_sound_complete (e_next E) (p_acc P) _ _ _ _ Hd) as Hsc.
  split; [|split; [|split]].
  - exact (proj1 (all_some_map_true (p_gfn P) tensors) H1).
  - exact (proj1 (all_some_map_true (p_gfn P) excluded) H2).
  - unfold dedup. apply NoDup_nodup.
  - intros t. rewrite dedup_In. rewrite somes_map_In. split.
    + intros [a [Ha Hat]]. apply Hsc in Ha. destruct Ha as [_ [r [j [Hr [Hex Hp]]]]].
      apply tensor_edges_In in Hr. destruct Hr as [o [Ho [Hor Hj]]]. subst j.
      exists a, o, r.
      split; [exact Hat | split; [exact Ho | split; [exact Hor | split; [exact Hex | exact Hp]]]].
    + intros [a [o [r [Hat [Ho [Hor [Hex Hp]]]]]]]. exists a. split; [|exact Hat].
      apply Hsc. split.
      * rewrite Hat. discriminate.
      * exists r, (e_onr E o). split; [|split; [exact Hex | exact Hp]].
        apply tensor_edges_In. exists o. split; [exact Ho | split; [exact Hor | reflexivity]].
Qed.

(* the two rejections: a tensor (or an excluded tensor) without grad_fn *)
Lemma get_leaf_tensors_rejects : forall tensors excluded,
  (exists t, In t (tensors ++ excluded) /\ p_gfn P t = None) ->
  get_leaf_tensors P E tensors excluded = Err ValueError.
Proof.
  intros tensors excluded [t [Ht Hg]]. unfold get_leaf_tensors.
  apply in_app_or in Ht. destruct Ht as [Ht|Ht].
  - rewrite (all_some_map_false (p_gfn P) tensors t Ht Hg). cbn [negb]. reflexivity.
  - destruct (all_some (map (p_gfn P) tensors)); cbn [negb]; [|reflexivity].
    rewrite (all_some_map_false (p_gfn P) excluded t Ht Hg). cbn [negb]. reflexivity.
Qed.

(* on a finite graph the walk never runs out of fuel: the RuntimeError branch of the totalised
   definition is unreachable *)
Lemma get_leaf_tensors_total : forall nodes tensors excluded,
  graph_closed nodes ->
  (forall t, In t (tensors ++ excluded) -> p_gfn P t <> None) ->
  exists leaves, get_leaf_tensors P E tensors excluded = Ok leaves.
Proof.
  intros nodes tensors excluded (Hnd & Hlen & Hroots & Hcl) Hall.
  unfold get_leaf_tensors.
  assert (H1 : all_some (map (p_gfn P) tensors) = true).
  { apply all_some_map_true. intros t Ht. apply Hall. apply in_or_app. left. exact Ht. }
  assert (H2 : all_some (map (p_gfn P) excluded) = true).
  { apply all_some_map_true. intros t Ht. apply Hall. apply in_or_app. right. exact Ht. }
  rewrite H1, H2. cbn [negb].
  destruct (descendant_accumulate_grads (e_next E) (p_acc P)
              (S (p_nnodes P + length tensors))
              (tensor_edges P E tensors) (tensor_edges P E excluded))
    as [accs|] eqn:Hd.
  - eexists. reflexivity.
  - exfalso. revert Hd.
    apply (bfs_fuel_suffices (e_next E) (p_acc P) nodes).
    + exact Hnd.
    + intros r k Hr. apply tensor_edges_In in Hr. destruct Hr as [o [_ [Hor _]]].
      exact (Hroots o r Hor).
    + exact Hcl.
    + lia.
Qed.

(* backward without `inputs` IS the explicit call on the discovered leaves *)
Lemma backward_default_is_explicit : forall sigma tensors k retain s leaves,
  get_leaf_tensors P E tensors [] = Ok leaves ->
  backward_default N P E A sigma tensors k retain s
  = backward_model N P A tensors (sigma leaves) k retain s.
Proof.
  intros sigma tensors k retain s leaves H. unfold backward_default.
  destruct (valid_chunk k) eqn:Hk; cbn [negb].
  - destruct tensors as [|t0 tensors].
    + unfold backward_model. rewrite Hk. reflexivity.
    + rewrite H. reflexivity.
  - unfold backward_model. rewrite Hk. reflexivity.
Qed.

Lemma backward_default_rejects_leaf_output : forall sigma tensors k retain s,
  (exists t, In t tensors /\ p_gfn P t = None) ->
  backward_default N P E A sigma tensors k retain s = (Err ValueError, s).
Proof.
  intros sigma tensors k retain s [t [Ht Hg]]. unfold backward_default.
  destruct (valid_chunk k) eqn:Hk; cbn [negb]; [|reflexivity].
  destruct tensors as [|t0 tensors]; [reflexivity|].
  assert (He : get_leaf_tensors P E (t0 :: tensors) [] = Err ValueError).
  { apply get_leaf_tensors_rejects. exists t. split; [|exact Hg].
    apply in_or_app. left. exact Ht. }
  rewrite He. reflexivity.
Qed.

(* the default task-parameter fold *)
Lemma tasks_fold_ok : forall (sigma : list tid -> list tid) features losses ts,
  Forall2 (fun loss l => get_leaf_tensors P E [loss] features = Ok l) losses ts ->
  fold_right (fun loss acc =>
                rbind (get_leaf_tensors P E [loss] features) (fun l =>
                rbind acc (fun ls => Ok (sigma l :: ls))))
             (Ok []) losses
  = Ok (map sigma ts).
Proof.
  intros sigma features losses ts HF.
  induction HF as [|loss l losses ts Hl HF IH].
  - reflexivity.
  - cbn [fold_right map]. rewrite Hl. cbn [rbind]. rewrite IH. cbn [rbind]. reflexivity.
Qed.

(* mtl_backward without shared_params / tasks_params IS the explicit call on the discovered sets *)
Lemma mtl_default_is_explicit : forall sigma losses features k retain s sh ts,
  get_leaf_tensors P E features [] = Ok sh ->
  Forall2 (fun loss l => get_leaf_tensors P E [loss] features = Ok l) losses ts ->
  mtl_backward_default N P E A sigma losses features None None k retain s
  = mtl_backward_model N P A losses features (map sigma ts) (sigma sh) k retain s.
Proof.
  intros sigma losses features k retain s sh ts Hsh HF. unfold mtl_backward_default.
  destruct (valid_chunk k) eqn:Hk; cbn [negb].
  - rewrite Hsh. cbn [rbind]. rewrite (tasks_fold_ok sigma features losses ts HF). reflexivity.
  - unfold mtl_backward_model. rewrite Hk. reflexivity.
Qed.

Lemma mtl_default_shared_only : forall sigma losses features tasks k retain s sh,
  get_leaf_tensors P E features [] = Ok sh ->
  mtl_backward_default N P E A sigma losses features (Some tasks) None k retain s
  = mtl_backward_model N P A losses features tasks (sigma sh) k retain s.
Proof.
  intros sigma losses features tasks k retain s sh Hsh. unfold mtl_backward_default.
  destruct (valid_chunk k) eqn:Hk; cbn [negb].
  - rewrite Hsh. cbn [rbind]. reflexivity.
  - unfold mtl_backward_model. rewrite Hk. reflexivity.
Qed.

Lemma mtl_default_tasks_only : forall sigma losses features shared k retain s ts,
  Forall2 (fun loss l => get_leaf_tensors P E [loss] features = Ok l) losses ts ->
  mtl_backward_default N P E A sigma losses features None (Some shared) k retain s
  = mtl_backward_model N P A losses features (map sigma ts) shared k retain s.
Proof.
  intros sigma losses features shared k retain s ts HF. unfold mtl_backward_default.
  destruct (valid_chunk k) eqn:Hk; cbn [negb].
  - rewrite (tasks_fold_ok sigma features losses ts HF). reflexivity.
  - unfold mtl_backward_model. rewrite Hk. reflexivity.
Qed.

(* if the two default sets overlap the call is rejected and nothing changes *)
Lemma mtl_overlap_rejected : forall losses features tasks shared k retain s q ps,
  In ps tasks -> In q ps -> In q shared ->
  mtl_backward_model N P A losses features tasks shared k retain s = (Err ValueError, s).
Proof.
  intros losses features tasks shared k retain s q ps Hps Hq Hsh.
  unfold mtl_backward_model.
  destruct (valid_chunk k) eqn:Hk; cbn [negb]; [|reflexivity].
  destruct features as [|f0 features]; [reflexivity|].
  assert (Hin : In q (inter (concat tasks) shared)).
  { apply inter_In. split; [|exact Hsh]. apply in_concat. exists ps. split; assumption. }
  destruct (inter (concat tasks) shared) as [|x xs] eqn:Hi.
  - destruct Hin.
  - cbn [negb]. reflexivity.
Qed.
End C12.

Print Assumptions get_leaf_tensors_ok.
Print Assumptions get_leaf_tensors_total.
Print Assumptions backward_default_is_explicit.
Print Assumptions mtl_default_is_explicit.
Print Assumptions mtl_overlap_rejected.
