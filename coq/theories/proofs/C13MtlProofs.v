(* C13MtlProofs.v — property C13, the clause for mtl_backward with retain_graph=False:
   "heads that share no graph node besides the features".

   mtl_backward issues one engine run per task (loss_i -> task params_i ++ features) and then the
   runs of the trunk (features -> shared params).  With retain_graph=False every run frees the saved
   nodes it executes.  The SIDE CONDITION [heads_separate] is stated purely on the saved-node sets of
   these runs: they are pairwise disjoint, disjoint from the trunk's set, and nothing of them is
   freed in the state in which the call is made (plus: every tensor involved requires grad).

     heads_separate_engine_ok   heads_separate  ==>  mtl_engine_ok_at (both values of retain)
     engine_ok_false_heads_separate
                                mtl_engine_ok_at false  ==>  heads_separate     (so: equivalent)
     mtl_no_self_sabotage       argument checks + heads_separate + aggregator accepting ==> Ok
     mtl_ok_engine_ok           the call returns Ok  ==>  mtl_engine_ok_at     (necessity)
     mtl_ok_heads_separate      the call with retain=false returns Ok ==> heads_separate
     shared_saved_node_sweep_fails / shared_saved_node_fails
                                two heads sharing a saved node: the later head's run fails, the
                                call with retain=false does not return Ok
     mtl_retain_false_iff       under the argument checks and an accepting aggregator:
                                the call with retain=false returns Ok  <->  heads_separate

   The engine-level part is generic in the number type (section C13MtlGen, axiom-free); the
   acceptance theorems are over R (section C13Mtl) because AcceptProofs.v is. *)
From Coq Require Import Reals List Bool Arith Lia.
From TJ Require Import Num Linalg NumR Chunk Autojac Traverse.
From TJ.proofs Require Import LinalgR ChunkProofs AutojacBasics AutojacSpec EntrySpec C20Proofs
  C13Proofs C01Proofs C02Proofs C15Proofs AcceptProofs.
Import ListNotations.

Definition disjoint (a b : list nid) : Prop := forall n, In n a -> ~ In n b.

(* ---------- two facts about lists ---------- *)
Lemma in_firstn_nth_error {X : Type} : forall (l : list X) (k : nat) (x : X),
  In x (firstn k l) -> exists i, (i < k)%nat /\ nth_error l i = Some x.
Proof.
  induction l as [|a l IH]; intros k x H.
  - rewrite firstn_nil in H. destruct H.
  - destruct k as [|k]; [destruct H|]. cbn [firstn] in H. destruct H as [H|H].
    + subst a. exists O. split; [lia | reflexivity].
    + destruct (IH k x H) as (i & Hi & E). exists (S i). split; [lia | exact E].
Qed.

Lemma nth_error_in_firstn {X : Type} : forall (l : list X) (i k : nat) (x : X),
  nth_error l i = Some x -> (i < k)%nat -> In x (firstn k l).
Proof.
  induction l as [|a l IH]; intros i k x E Hik.
  - destruct i; discriminate E.
  - destruct k as [|k]; [lia|]. cbn [firstn]. destruct i as [|i].
    + cbn in E. inversion E. left. reflexivity.
    + right. apply (IH i k x); [exact E | lia].
Qed.

(* ================= the engine level, generic in the number type ================= *)
Section C13MtlGen.
Context {T : Type} (N : Num T) (P : prog T) (A : list (list T) -> res (list T)).

(* [sweep_ok] spelled out *)
Lemma sweep_ok_iff : forall (st : @store T) outs ins,
  sweep_ok P st outs ins = true <->
  forallb (p_req P) outs = true /\ forallb (p_req P) ins = true /\
  disjoint (saved_exec P outs ins) (s_freed st).
Proof.
  intros st outs ins. unfold sweep_ok. rewrite !andb_true_iff, negb_true_iff. split.
  - intros [[H1 H2] H3]. split; [exact H1|]. split; [exact H2|].
    intros x Hx Hfr.
    assert (E : existsb (fun n => mem n (s_freed st)) (saved_exec P outs ins) = true).
    { apply existsb_exists. exists x. split; [exact Hx|]. apply c20_mem_In. exact Hfr. }
    rewrite E in H3. discriminate H3.
  - intros (H1 & H2 & H3). split; [split; assumption|].
    destruct (existsb (fun n => mem n (s_freed st)) (saved_exec P outs ins)) eqn:E; [|reflexivity].
    exfalso. apply existsb_exists in E. destruct E as (x & Hx & Hm).
    apply c20_mem_In in Hm. exact (H3 x Hx Hm).
Qed.

(* the freed set after one head *)
Definition fstep (features : list tid) (retain : bool) (fr : list nid) (pl : list tid * tid)
  : list nid :=
  if retain then fr else fr ++ saved_exec P [snd pl] (fst pl ++ features).

Lemma fold_fstep_in : forall features retain (l : list (list tid * tid)) fr x,
  In x (fold_left (fstep features retain) l fr) ->
  In x fr \/ exists pl, In pl l /\ In x (saved_exec P [snd pl] (fst pl ++ features)).
Proof.
  intros features retain l. induction l as [|a l IH]; intros fr x H; cbn [fold_left] in H.
  - left. exact H.
  - apply IH in H. destruct H as [H | (pl & Hpl & Hx)].
    + unfold fstep in H. destruct retain; [left; exact H|].
      apply in_app_iff in H. destruct H as [H|H]; [left; exact H|].
      right. exists a. split; [left; reflexivity | exact H].
    + right. exists pl. split; [right; exact Hpl | exact Hx].
Qed.

Lemma fold_fstep_false_in : forall features (l : list (list tid * tid)) fr x,
  (In x fr \/ exists pl, In pl l /\ In x (saved_exec P [snd pl] (fst pl ++ features))) ->
  In x (fold_left (fstep features false) l fr).
Proof.
  intros features l. induction l as [|a l IH]; intros fr x H; cbn [fold_left].
  - destruct H as [H | (pl & Hpl & _)]; [exact H | destruct Hpl].
  - apply IH. destruct H as [H | (pl & [Hpl|Hpl] & Hx)].
    + left. unfold fstep. apply in_app_iff. left. exact H.
    + subst pl. left. unfold fstep. apply in_app_iff. right. exact Hx.
    + right. exists pl. split; assumption.
Qed.

(* the engine condition of AcceptProofs.v ([mtl_engine_ok_at], there over R) for any number type *)
Definition engine_ok_at (retain : bool) (s : @store T) (losses features : list tid)
           (tasks : list (list tid)) (shared : list tid) : Prop :=
  (forall n, (n < length (combine tasks losses))%nat ->
     let fr := fold_left (fstep features retain) (firstn n (combine tasks losses)) (s_freed s) in
     let pl := nth n (combine tasks losses) ([], O) in
     sweep_ok P (mkStore (s_grads s) fr (s_log s) (s_next s)) [snd pl] (fst pl ++ features) = true) /\
  sweep_ok P (mkStore (s_grads s) (fold_left (fstep features retain) (combine tasks losses) (s_freed s))
                      (s_log s) (s_next s))
           features shared = true.

(* THE SIDE CONDITION: heads that share no graph node besides the features *)
Definition heads_separate (s : @store T) (losses features : list tid) (tasks : list (list tid))
           (shared : list tid) : Prop :=
  let sets := map (fun pl => saved_exec P [snd pl] (fst pl ++ features)) (combine tasks losses) in
  (* every tensor involved requires grad *)
  (forall pl, In pl (combine tasks losses) ->
      forallb (p_req P) [snd pl] = true /\ forallb (p_req P) (fst pl ++ features) = true) /\
  forallb (p_req P) features = true /\ forallb (p_req P) shared = true /\
  (* nothing the call needs has been freed yet *)
  (forall S, In S sets -> disjoint S (s_freed s)) /\
  disjoint (saved_exec P features shared) (s_freed s) /\
  (* the heads' sweeps share no saved node with each other nor with the trunk's sweep *)
  (forall i j Si Sj, i <> j -> nth_error sets i = Some Si -> nth_error sets j = Some Sj ->
      disjoint Si Sj) /\
  (forall S, In S sets -> disjoint S (saved_exec P features shared)).

(* sufficiency, for both values of retain_graph *)
Lemma heads_separate_engine_ok_gen : forall retain s losses features tasks shared,
  heads_separate s losses features tasks shared ->
  engine_ok_at retain s losses features tasks shared.
Proof.
  intros retain s losses features tasks shared HS.
  unfold heads_separate in HS. cbv zeta in HS.
  destruct HS as (Hreq & Hrf & Hrs & Hfr & Hfrt & Hpair & Htr).
  unfold engine_ok_at.
  set (tl := combine tasks losses) in *.
  set (f := fun pl : list tid * tid => saved_exec P [snd pl] (fst pl ++ features)) in *.
  split.
  - intros n Hn. cbv zeta.
    assert (En : nth_error tl n = Some (nth n tl ([], O))) by (apply nth_error_nth'; exact Hn).
    assert (Hin : In (nth n tl ([], O)) tl) by (apply nth_In; exact Hn).
    set (pl := nth n tl ([], O)) in *.
    destruct (Hreq pl Hin) as [Hr1 Hr2].
    apply sweep_ok_iff. split; [exact Hr1|]. split; [exact Hr2|].
    cbn [s_freed]. intros x Hx Hm.
    apply fold_fstep_in in Hm. destruct Hm as [Hm | (pl' & Hpl' & Hx')].
    + exact (Hfr (f pl) (in_map f tl pl Hin) x Hx Hm).
    + apply in_firstn_nth_error in Hpl'. destruct Hpl' as (i & Hi & Ei).
      assert (Hne : i <> n) by lia.
      exact (Hpair i n (f pl') (f pl) Hne (map_nth_error f i tl Ei) (map_nth_error f n tl En)
                   x Hx' Hx).
  - apply sweep_ok_iff. split; [exact Hrf|]. split; [exact Hrs|].
    cbn [s_freed]. intros x Hx Hm.
    apply fold_fstep_in in Hm. destruct Hm as [Hm | (pl' & Hpl' & Hx')].
    + exact (Hfrt x Hx Hm).
    + exact (Htr (f pl') (in_map f tl pl' Hpl') x Hx' Hx).
Qed.

(* necessity when retain_graph=False: the side condition is exactly the engine condition *)
Lemma engine_ok_false_heads_separate_gen : forall s losses features tasks shared,
  engine_ok_at false s losses features tasks shared ->
  heads_separate s losses features tasks shared.
Proof.
  intros s losses features tasks shared [Ht Htrunk].
  unfold heads_separate. cbv zeta.
  set (tl := combine tasks losses) in *.
  set (f := fun pl : list tid * tid => saved_exec P [snd pl] (fst pl ++ features)) in *.
  apply sweep_ok_iff in Htrunk. cbn [s_freed] in Htrunk. destruct Htrunk as (Hrf & Hrs & Hdt).
  assert (Hhead : forall n pl, nth_error tl n = Some pl ->
            forallb (p_req P) [snd pl] = true /\ forallb (p_req P) (fst pl ++ features) = true /\
            disjoint (f pl) (fold_left (fstep features false) (firstn n tl) (s_freed s))).
  { intros n pl En.
    assert (Hn : (n < length tl)%nat) by (apply nth_error_Some; rewrite En; discriminate).
    pose proof (Ht n Hn) as H. cbv zeta in H.
    rewrite (nth_error_nth tl n ([], O) En) in H.
    apply sweep_ok_iff in H. cbn [s_freed] in H. exact H. }
  assert (Hsets : forall S, In S (map f tl) -> exists n pl, nth_error tl n = Some pl /\ S = f pl).
  { intros S HS. apply in_map_iff in HS. destruct HS as (pl & E & Hin).
    apply In_nth_error in Hin. destruct Hin as [n En]. exists n, pl. split; [exact En | symmetry; exact E]. }
  split; [|split; [exact Hrf|split; [exact Hrs|split; [|split; [|split]]]]].
  - intros pl Hin. apply In_nth_error in Hin. destruct Hin as [n En].
    destruct (Hhead n pl En) as (H1 & H2 & _). split; assumption.
  - intros S HS. destruct (Hsets S HS) as (n & pl & En & ->).
    destruct (Hhead n pl En) as (_ & _ & Hd).
    intros x Hx Hfr. apply (Hd x Hx). apply fold_fstep_false_in. left. exact Hfr.
  - intros x Hx Hfr. apply (Hdt x Hx). apply fold_fstep_false_in. left. exact Hfr.
  - assert (Hlt : forall i j Si Sj, (i < j)%nat -> nth_error (map f tl) i = Some Si ->
                    nth_error (map f tl) j = Some Sj -> disjoint Sj Si).
    { intros i j Si Sj Hij Ei Ej. rewrite nth_error_map in Ei, Ej.
      destruct (nth_error tl i) as [pli|] eqn:Eti; [|discriminate Ei].
      destruct (nth_error tl j) as [plj|] eqn:Etj; [|discriminate Ej].
      cbn [option_map] in Ei, Ej. inversion Ei; subst Si. inversion Ej; subst Sj.
      destruct (Hhead j plj Etj) as (_ & _ & Hd).
      intros x Hxj Hxi. apply (Hd x Hxj). apply fold_fstep_false_in. right.
      exists pli. split; [exact (nth_error_in_firstn tl i j pli Eti Hij) | exact Hxi]. }
    intros i j Si Sj Hne Ei Ej.
    destruct (Nat.lt_ge_cases i j) as [Hij|Hji].
    + intros x Hxi Hxj. exact (Hlt i j Si Sj Hij Ei Ej x Hxj Hxi).
    + assert (Hji' : (j < i)%nat) by lia. exact (Hlt j i Sj Si Hji' Ej Ei).
  - intros S HS. destruct (Hsets S HS) as (n & pl & En & ->).
    intros x Hx Hxt. apply (Hdt x Hxt). apply fold_fstep_false_in. right.
    exists pl. split; [exact (nth_error_In tl n En) | exact Hx].
Qed.

(* two heads that share a saved node: once the earlier one has run with retain_graph=False,
   the later one's engine run fails *)
Lemma shared_saved_node_sweep_fails : forall (s : @store T) features ps1 l1 ps2 l2 n,
  In n (saved_exec P [l1] (ps1 ++ features)) ->
  In n (saved_exec P [l2] (ps2 ++ features)) ->
  sweep_ok P (mkStore (s_grads s) (s_freed s ++ saved_exec P [l1] (ps1 ++ features))
                      (s_log s) (s_next s)) [l2] (ps2 ++ features) = false.
Proof.
  intros s features ps1 l1 ps2 l2 n H1 H2.
  destruct (sweep_ok P _ [l2] (ps2 ++ features)) eqn:E; [|reflexivity]. exfalso.
  apply sweep_ok_iff in E. destruct E as (_ & _ & Hd). cbn [s_freed] in Hd.
  apply (Hd n H2). apply in_app_iff. right. exact H1.
Qed.

(* ---------- necessity: an accepted call has passed every engine run ---------- *)
Lemma task_run_ok_sweep : forall features params loss retain s d d' s',
  features <> [] ->
  run N P A (task_transform features params loss retain) s d = (Ok d', s') ->
  sweep_ok P s [loss] (params ++ features) = true.
Proof.
  intros features params loss retain s d d' s' Hf H.
  unfold task_transform in H. cbv zeta in H.
  apply run_comp_inv in H. destruct H as (d2 & s2 & H2 & _).
  apply run_comp_inv in H2. destruct H2 as (d1 & s1 & Hinit & Hgrad).
  apply run_init_inv in Hinit. destruct Hinit as [Es _]. subst s1.
  cbn [run] in Hgrad. destruct (negb _) in Hgrad; [discriminate Hgrad|].
  unfold grad_compute in Hgrad.
  destruct (params ++ features) as [|i0 ins] eqn:Ei.
  { exfalso. apply app_eq_nil in Ei. destruct Ei as [_ Ei]. exact (Hf Ei). }
  rewrite ag_sweep_spec in Hgrad.
  destruct (sweep_ok P s [loss] (i0 :: ins)); [reflexivity | discriminate Hgrad].
Qed.

Lemma tasks_run_ok_sweeps : forall features retain d (tl : list (list tid * tid)) s ds s',
  features <> [] ->
  run_list N P A d (map (fun pl => task_transform features (fst pl) (snd pl) retain) tl) s
    = (Ok ds, s') ->
  (forall n, (n < length tl)%nat ->
     sweep_ok P (mkStore (s_grads s) (fold_left (fstep features retain) (firstn n tl) (s_freed s))
                         (s_log s) (s_next s))
              [snd (nth n tl ([], O))] (fst (nth n tl ([], O)) ++ features) = true) /\
  s_freed s' = fold_left (fstep features retain) tl (s_freed s).
Proof.
  intros features retain d tl. induction tl as [|pl tl IH]; intros s ds s' Hf H.
  - cbn in H. inversion H; subst. split; [intros n Hn; cbn [length] in Hn; lia | reflexivity].
  - cbn [map] in H. rewrite run_list_cons in H.
    destruct (run N P A (task_transform features (fst pl) (snd pl) retain) s d)
      as [[d1|e] s1] eqn:E1; [|discriminate H].
    destruct (run_list N P A d _ s1) as [[ds1|e] s2] eqn:E2; [|discriminate H].
    inversion H; subst s2.
    pose proof (task_run_ok_sweep _ _ _ _ _ _ _ _ Hf E1) as Hok.
    pose proof (task_run_freed N P A _ _ _ _ _ _ _ _ Hf E1) as Hfr.
    assert (Hfr' : s_freed s1 = fstep features retain (s_freed s) pl) by exact Hfr.
    destruct (IH s1 ds1 s' Hf E2) as [IHs IHf].
    split.
    + intros n Hn. destruct n as [|n].
      * cbn [firstn fold_left nth].
        etransitivity; [|exact Hok]. apply sweep_ok_freed. reflexivity.
      * cbn [firstn fold_left nth]. cbn [length] in Hn.
        assert (Hn' : (n < length tl)%nat) by lia.
        etransitivity; [|exact (IHs n Hn')]. apply sweep_ok_freed. cbn [s_freed].
        rewrite Hfr'. reflexivity.
    + cbn [fold_left]. rewrite IHf, Hfr'. reflexivity.
Qed.

Lemma jac_run_ok_sweep : forall outs ins k retain s d d' s',
  outs <> [] -> ins <> [] ->
  run N P A (TJac outs ins k retain) s d = (Ok d', s') ->
  sweep_ok P s outs ins = true.
Proof.
  intros outs ins k retain s d d' s' Ho Hi H.
  cbn [run] in H. destruct (negb _) in H; [discriminate H|].
  unfold jac_compute in H.
  destruct ins as [|i0 ins]; [contradiction Hi; reflexivity|].
  destruct outs as [|o0 outs]; [contradiction Ho; reflexivity|].
  destruct (max_chunk _ _ =? 0) in H; [discriminate H|].
  destruct (sweep_ok P s (o0 :: outs) (i0 :: ins)) eqn:Hok; [reflexivity|].
  rewrite (jac_chunks_engine_fail N P _ _ _ s (o0 :: outs) (i0 :: ins) d Hok) in H.
  discriminate H.
Qed.

Lemma mtl_ok_engine_ok_gen : forall losses features tasks shared k retain s d' s',
  shared <> [] ->
  mtl_backward_model N P A losses features tasks shared k retain s = (Ok d', s') ->
  engine_ok_at retain s losses features tasks shared.
Proof.
  intros losses features tasks shared k retain s d' s' Hsh H.
  destruct (mtl_args_ok P losses features tasks shared k retain) eqn:Eok.
  - rewrite (mtl_args_accepted N P A _ _ _ _ _ _ s Eok) in H.
    apply mtl_args_ok_inv in Eok. destruct Eok as [_ [Hnf _]].
    assert (Hf : features <> []).
    { intros E. rewrite E in Hnf. discriminate Hnf. }
    unfold mtl_transform in H.
    apply run_comp_inv in H. destruct H as (d4 & s4 & H4 & _).
    apply run_comp_inv in H4. destruct H4 as (d3 & s3 & H3 & _).
    apply run_comp_inv in H3. destruct H3 as (d2 & s2 & Hstack & Hjac).
    apply jac_run_ok_sweep in Hjac; [|exact Hf|exact Hsh].
    rewrite run_stack_eq in Hstack. destruct (negb _) in Hstack; [discriminate Hstack|].
    destruct (run_list N P A empty_dict _ s) as [[ds|e] s1] eqn:EL; [|discriminate Hstack].
    inversion Hstack; subst s1.
    apply tasks_run_ok_sweeps in EL; [|exact Hf]. destruct EL as [Hs Hfr].
    unfold engine_ok_at. split.
    + intros n Hn. cbv zeta. exact (Hs n Hn).
    + etransitivity; [|exact Hjac]. apply sweep_ok_freed. cbn [s_freed]. symmetry. exact Hfr.
  - rewrite (mtl_args_rejected N P A _ _ _ _ _ _ s Eok) in H. discriminate H.
Qed.

(* an accepted call with retain_graph=False: the heads were separate *)
Lemma mtl_ok_heads_separate_gen : forall losses features tasks shared k s d' s',
  shared <> [] ->
  mtl_backward_model N P A losses features tasks shared k false s = (Ok d', s') ->
  heads_separate s losses features tasks shared.
Proof.
  intros losses features tasks shared k s d' s' Hsh H.
  apply engine_ok_false_heads_separate_gen.
  exact (mtl_ok_engine_ok_gen _ _ _ _ _ _ _ _ _ Hsh H).
Qed.

(* two heads sharing a saved node: the call with retain_graph=False is not accepted *)
Lemma shared_saved_node_fails_gen : forall losses features tasks shared k s i j pli plj n,
  shared <> [] -> i <> j ->
  nth_error (combine tasks losses) i = Some pli ->
  nth_error (combine tasks losses) j = Some plj ->
  In n (saved_exec P [snd pli] (fst pli ++ features)) ->
  In n (saved_exec P [snd plj] (fst plj ++ features)) ->
  forall d' s', mtl_backward_model N P A losses features tasks shared k false s <> (Ok d', s').
Proof.
  intros losses features tasks shared k s i j pli plj n Hsh Hne Ei Ej Hi Hj d' s' H.
  apply mtl_ok_heads_separate_gen in H; [|exact Hsh].
  unfold heads_separate in H. cbv zeta in H.
  destruct H as (_ & _ & _ & _ & _ & Hpair & _).
  exact (Hpair i j _ _ Hne
           (map_nth_error (fun pl => saved_exec P [snd pl] (fst pl ++ features)) i _ Ei)
           (map_nth_error (fun pl => saved_exec P [snd pl] (fst pl ++ features)) j _ Ej)
           n Hi Hj).
Qed.

End C13MtlGen.

(* ================= over R: the acceptance theorems ================= *)
Section C13Mtl.
Variable P : prog R.
Variable A : list (list R) -> res (list R).

(* the generic engine condition is the one of AcceptProofs.v *)
Lemma engine_ok_at_eq : forall retain s losses features tasks shared,
  engine_ok_at P retain s losses features tasks shared
  = mtl_engine_ok_at P retain s losses features tasks shared.
Proof. intros retain s losses features tasks shared. reflexivity. Qed.

Lemma heads_separate_engine_ok : forall retain s losses features tasks shared,
  heads_separate P s losses features tasks shared ->
  mtl_engine_ok_at P retain s losses features tasks shared.
Proof.
  intros retain s losses features tasks shared HS.
  rewrite <- engine_ok_at_eq. apply heads_separate_engine_ok_gen. exact HS.
Qed.

Lemma engine_ok_false_heads_separate : forall s losses features tasks shared,
  mtl_engine_ok_at P false s losses features tasks shared ->
  heads_separate P s losses features tasks shared.
Proof.
  intros s losses features tasks shared H.
  apply engine_ok_false_heads_separate_gen. rewrite engine_ok_at_eq. exact H.
Qed.

(* NO SELF-SABOTAGE for mtl_backward *)
Theorem mtl_no_self_sabotage : forall losses features tasks shared k retain s v,
  wf_prog P -> shared <> [] ->
  mtl_args_ok P losses features tasks shared k retain = true ->
  heads_separate P s losses features tasks shared ->
  A (mtl_matrix P features shared losses) = Ok v -> length v = total P shared ->
  exists d' s', mtl_backward_model RN P A losses features tasks shared k retain s = (Ok d', s').
Proof.
  intros losses features tasks shared k retain s v Hwf Hsh Hargs HS HA Hlen.
  apply (mtl_accepts_at P A losses features tasks shared k retain s v); try assumption.
  apply heads_separate_engine_ok. exact HS.
Qed.

(* necessity of the engine condition *)
Lemma mtl_ok_engine_ok : forall losses features tasks shared k retain s d' s',
  shared <> [] ->
  mtl_backward_model RN P A losses features tasks shared k retain s = (Ok d', s') ->
  mtl_engine_ok_at P retain s losses features tasks shared.
Proof.
  intros losses features tasks shared k retain s d' s' Hsh H.
  rewrite <- engine_ok_at_eq. exact (mtl_ok_engine_ok_gen RN P A _ _ _ _ _ _ _ _ _ Hsh H).
Qed.

Lemma mtl_ok_heads_separate : forall losses features tasks shared k s d' s',
  shared <> [] ->
  mtl_backward_model RN P A losses features tasks shared k false s = (Ok d', s') ->
  heads_separate P s losses features tasks shared.
Proof.
  intros losses features tasks shared k s d' s' Hsh H.
  exact (mtl_ok_heads_separate_gen RN P A _ _ _ _ _ _ _ _ Hsh H).
Qed.

(* THE LIMIT: two heads that share a saved node *)
Lemma shared_saved_node_fails : forall losses features tasks shared k s i j pli plj n,
  shared <> [] -> i <> j ->
  nth_error (combine tasks losses) i = Some pli ->
  nth_error (combine tasks losses) j = Some plj ->
  In n (saved_exec P [snd pli] (fst pli ++ features)) ->
  In n (saved_exec P [snd plj] (fst plj ++ features)) ->
  forall d' s', mtl_backward_model RN P A losses features tasks shared k false s <> (Ok d', s').
Proof.
  intros losses features tasks shared k s i j pli plj n Hsh Hne Ei Ej Hi Hj.
  exact (shared_saved_node_fails_gen RN P A _ _ _ _ k s i j pli plj n Hsh Hne Ei Ej Hi Hj).
Qed.

(* ---------- the limit, exactly: the failing call raises RuntimeError ---------- *)
(* a head whose engine run fails: the task transform raises RuntimeError, state unchanged *)
Lemma task_run_sweep_fail : forall features ps loss retain s,
  features <> [] ->
  sweep_ok P s [loss] (ps ++ features) = false ->
  run RN P A (task_transform features ps loss retain) s empty_dict = (Err RuntimeError, s).
Proof.
  intros features ps loss retain s Hfe Hok. unfold task_transform. cbv zeta.
  pose proof (acc_run_init P A [loss] s empty_dict eq_refl) as H0.
  assert (HG : run RN P A (TComp (TGrad [loss] (ps ++ features) retain) (TInit [loss])) s empty_dict
               = (Err RuntimeError, s)).
  { rewrite (acc_run_comp_ok P A _ _ _ _ _ _ H0).
    cbn [run required_keys]. unfold dkeys. cbn [ditems]. rewrite keys_of_items.
    rewrite acc_set_eqb_refl. cbn [negb]. unfold grad_compute.
    destruct (ps ++ features) as [|i0 ins] eqn:Ei.
    { exfalso. apply app_eq_nil in Ei. destruct Ei as [_ Ei]. exact (Hfe Ei). }
    rewrite ag_sweep_spec, Hok. reflexivity. }
  apply (acc_run_comp_err P A); [reflexivity | exact HG].
Qed.

(* the first head whose engine run fails makes the list of task transforms raise RuntimeError *)
Lemma tasks_run_head_fail : forall features retain (tl : list (list tid * tid)) s j,
  features <> [] ->
  (forall ps l, In (ps, l) tl -> NoDup (ps ++ features) /\ expects_all P ps = true) ->
  (j < length tl)%nat ->
  (forall n, (n < j)%nat ->
     sweep_ok P (mkStore (s_grads s) (fold_left (fstep P features retain) (firstn n tl) (s_freed s))
                         (s_log s) (s_next s))
              [snd (nth n tl ([], O))] (fst (nth n tl ([], O)) ++ features) = true) ->
  sweep_ok P (mkStore (s_grads s) (fold_left (fstep P features retain) (firstn j tl) (s_freed s))
                      (s_log s) (s_next s))
           [snd (nth j tl ([], O))] (fst (nth j tl ([], O)) ++ features) = false ->
  exists s1,
    run_list RN P A empty_dict
      (map (fun pl => task_transform features (fst pl) (snd pl) retain) tl) s
    = (Err RuntimeError, s1).
Proof.
  intros features retain tl. induction tl as [|[ps l] tl IH]; intros s j Hfe Hall Hj Hpre Hbad.
  - cbn [length] in Hj. lia.
  - cbn [map fst snd]. rewrite (run_list_cons RN P A). destruct j as [|j].
    + cbn [firstn fold_left nth fst snd] in Hbad.
      rewrite (task_run_sweep_fail features ps l retain s Hfe).
      * exists s. reflexivity.
      * etransitivity; [|exact Hbad]. apply sweep_ok_freed. reflexivity.
    + destruct (Hall ps l (or_introl eq_refl)) as [Hnd Hex].
      destruct (acc_task_run P A features ps l retain s Hfe Hnd Hex) as (dt & st & Ht).
      { pose proof (Hpre O ltac:(lia)) as H0.
        cbn [firstn fold_left nth fst snd] in H0.
        etransitivity; [|exact H0]. apply sweep_ok_freed. reflexivity. }
      pose proof (task_run_freed RN P A features ps l retain s empty_dict dt st Hfe Ht) as Hfr.
      assert (Hfr' : s_freed st = fstep P features retain (s_freed s) (ps, l)) by exact Hfr.
      rewrite Ht.
      destruct (IH st j Hfe (fun ps' l' Hin => Hall ps' l' (or_intror Hin))) as (s1 & Hl).
      { cbn [length] in Hj. lia. }
      { intros n Hn. pose proof (Hpre (S n) ltac:(lia)) as H1.
        cbn [firstn fold_left nth] in H1.
        etransitivity; [|exact H1]. apply sweep_ok_freed. cbn [s_freed]. rewrite Hfr'. reflexivity. }
      { cbn [firstn fold_left nth] in Hbad.
        etransitivity; [|exact Hbad]. apply sweep_ok_freed. cbn [s_freed]. rewrite Hfr'. reflexivity. }
      rewrite Hl. exists s1. reflexivity.
Qed.

(* mtl_backward: all argument checks pass, the heads before the j-th run, the j-th head's engine
   run fails  ==>  the call raises RuntimeError *)
Lemma mtl_head_fail_runtime_error : forall losses features tasks shared k retain s j,
  mtl_args_ok P losses features tasks shared k retain = true ->
  (j < length (combine tasks losses))%nat ->
  (forall n, (n < j)%nat ->
     sweep_ok P (mkStore (s_grads s)
                   (fold_left (fstep P features retain) (firstn n (combine tasks losses)) (s_freed s))
                   (s_log s) (s_next s))
              [snd (nth n (combine tasks losses) ([], O))]
              (fst (nth n (combine tasks losses) ([], O)) ++ features) = true) ->
  sweep_ok P (mkStore (s_grads s)
                (fold_left (fstep P features retain) (firstn j (combine tasks losses)) (s_freed s))
                (s_log s) (s_next s))
           [snd (nth j (combine tasks losses) ([], O))]
           (fst (nth j (combine tasks losses) ([], O)) ++ features) = false ->
  exists s1, mtl_backward_model RN P A losses features tasks shared k retain s = (Err RuntimeError, s1).
Proof.
  intros losses features tasks shared k retain s j Hargs Hj Hpre Hbad.
  rewrite (mtl_args_accepted RN P A _ _ _ _ _ _ s Hargs).
  apply mtl_args_ok_inv in Hargs.
  destruct Hargs as (Hk & Hfe & Hint & Hsh & Hle & Hlenl & Hexp & Hwft).
  apply wf_mtl_inv in Hwft. destruct Hwft as (Hnf & Hns & Hnt).
  assert (Hfe' : features <> []) by (intros ->; discriminate Hfe).
  unfold expects_all in Hexp. rewrite forallb_app in Hexp. apply andb_true_iff in Hexp.
  destruct Hexp as [Hexs Hext].
  assert (Hall : forall ps l, In (ps, l) (combine tasks losses) ->
                   NoDup (ps ++ features) /\ expects_all P ps = true).
  { intros ps l Hin. split; [apply nodupb_NoDup; exact (Hnt ps l Hin)|].
    apply in_combine_l in Hin. unfold expects_all. apply forallb_forall. intros x Hx.
    rewrite forallb_forall in Hext. apply Hext. apply in_concat. exists ps. split; assumption. }
  destruct (tasks_run_head_fail features retain (combine tasks losses) s j Hfe' Hall Hj Hpre Hbad)
    as (s1 & Hl).
  exists s1.
  assert (Hreq : set_eqb (dkeys (@empty_dict R))
                   (required_keys (TStack (map (fun pl => task_transform features (fst pl) (snd pl) retain)
                                               (combine tasks losses)))) = true).
  { cbn [required_keys]. rewrite acc_tasks_required. reflexivity. }
  assert (HS : run RN P A (TStack (map (fun pl => task_transform features (fst pl) (snd pl) retain)
                                       (combine tasks losses))) s empty_dict
               = (Err RuntimeError, s1)).
  { rewrite (run_stack_eq RN P A). rewrite Hreq. cbn [negb]. rewrite Hl. reflexivity. }
  unfold mtl_transform.
  apply (acc_run_comp_err P A); [exact Hreq|].
  apply (acc_run_comp_err P A); [exact Hreq|].
  apply (acc_run_comp_err P A); [exact Hreq|].
  exact HS.
Qed.

(* the least index at which a boolean test fails *)
Lemma least_false : forall (b : nat -> bool) j,
  b j = false -> exists j0, (j0 <= j)%nat /\ b j0 = false /\ forall n, (n < j0)%nat -> b n = true.
Proof.
  intros b j. induction j as [j IH] using lt_wf_ind. intros Hj.
  destruct (forallb b (seq 0 j)) eqn:E.
  - exists j. split; [lia|]. split; [exact Hj|]. intros n Hn.
    rewrite forallb_forall in E. apply E. apply in_seq. lia.
  - assert (Hex : exists n, (n < j)%nat /\ b n = false).
    { destruct (existsb (fun n => negb (b n)) (seq 0 j)) eqn:E2.
      - apply existsb_exists in E2. destruct E2 as (n & Hn & Hb).
        apply in_seq in Hn. apply negb_true_iff in Hb. exists n. split; [lia | exact Hb].
      - exfalso. assert (Ht : forallb b (seq 0 j) = true).
        { apply forallb_forall. intros n Hn.
          destruct (b n) eqn:Ebn; [reflexivity|]. exfalso.
          assert (Hx : existsb (fun n0 => negb (b n0)) (seq 0 j) = true).
          { apply existsb_exists. exists n. split; [exact Hn|]. rewrite Ebn. reflexivity. }
          rewrite Hx in E2. discriminate E2. }
        rewrite Ht in E. discriminate E. }
    destruct Hex as (n & Hn & Hb). destruct (IH n Hn Hb) as (j0 & Hle & Hb0 & Hmin).
    exists j0. split; [lia|]. split; assumption.
Qed.

(* THE LIMIT, exactly: the argument checks pass, two heads share a saved node, retain_graph=False
   ==> mtl_backward raises RuntimeError *)
Theorem shared_saved_node_runtime_error : forall losses features tasks shared k s i j pli plj n,
  mtl_args_ok P losses features tasks shared k false = true ->
  (i < j)%nat ->
  nth_error (combine tasks losses) i = Some pli ->
  nth_error (combine tasks losses) j = Some plj ->
  In n (saved_exec P [snd pli] (fst pli ++ features)) ->
  In n (saved_exec P [snd plj] (fst plj ++ features)) ->
  exists s1, mtl_backward_model RN P A losses features tasks shared k false s = (Err RuntimeError, s1).
Proof.
  intros losses features tasks shared k s i j pli plj n Hargs Hij Ei Ej Hi Hj.
  set (tl := combine tasks losses) in *.
  set (b := fun m =>
     sweep_ok P (mkStore (s_grads s) (fold_left (fstep P features false) (firstn m tl) (s_freed s))
                         (s_log s) (s_next s))
              [snd (nth m tl ([], O))] (fst (nth m tl ([], O)) ++ features)).
  assert (Hjl : (j < length tl)%nat) by (apply nth_error_Some; rewrite Ej; discriminate).
  assert (Hbj : b j = false).
  { unfold b. rewrite (nth_error_nth tl j ([], O) Ej).
    destruct (sweep_ok P _ [snd plj] (fst plj ++ features)) eqn:E; [|reflexivity]. exfalso.
    apply sweep_ok_iff in E. destruct E as (_ & _ & Hd). cbn [s_freed] in Hd.
    apply (Hd n Hj). apply fold_fstep_false_in. right. exists pli.
    split; [exact (nth_error_in_firstn tl i j pli Ei Hij) | exact Hi]. }
  destruct (least_false b j Hbj) as (j0 & Hle & Hb0 & Hmin).
  apply (mtl_head_fail_runtime_error losses features tasks shared k false s j0 Hargs).
  - fold tl. lia.
  - intros m Hm. exact (Hmin m Hm).
  - exact Hb0.
Qed.

(* the two-head instance *)
Corollary two_heads_shared_node_runtime_error : forall features ps1 l1 ps2 l2 shared k s n,
  mtl_args_ok P [l1; l2] features [ps1; ps2] shared k false = true ->
  In n (saved_exec P [l1] (ps1 ++ features)) ->
  In n (saved_exec P [l2] (ps2 ++ features)) ->
  exists s1, mtl_backward_model RN P A [l1; l2] features [ps1; ps2] shared k false s
             = (Err RuntimeError, s1).
Proof.
  intros features ps1 l1 ps2 l2 shared k s n Hargs H1 H2.
  apply (shared_saved_node_runtime_error [l1; l2] features [ps1; ps2] shared k s 0 1
           (ps1, l1) (ps2, l2) n Hargs); [lia | reflexivity | reflexivity | exact H1 | exact H2].
Qed.

(* with retain_graph=False the side condition is exactly what decides acceptance *)
Theorem mtl_retain_false_iff : forall losses features tasks shared k s v,
  wf_prog P -> shared <> [] ->
  mtl_args_ok P losses features tasks shared k false = true ->
  A (mtl_matrix P features shared losses) = Ok v -> length v = total P shared ->
  ((exists d' s', mtl_backward_model RN P A losses features tasks shared k false s = (Ok d', s'))
   <-> heads_separate P s losses features tasks shared).
Proof.
  intros losses features tasks shared k s v Hwf Hsh Hargs HA Hlen. split.
  - intros (d' & s' & H). exact (mtl_ok_heads_separate _ _ _ _ _ _ _ _ Hsh H).
  - intros HS. exact (mtl_no_self_sabotage _ _ _ _ _ _ _ v Hwf Hsh Hargs HS HA Hlen).
Qed.

End C13Mtl.

Print Assumptions heads_separate_engine_ok_gen.
Print Assumptions engine_ok_false_heads_separate_gen.
Print Assumptions shared_saved_node_sweep_fails.
Print Assumptions mtl_ok_engine_ok_gen.
Print Assumptions shared_saved_node_fails_gen.
Print Assumptions heads_separate_engine_ok.
Print Assumptions mtl_no_self_sabotage.
Print Assumptions mtl_ok_heads_separate.
Print Assumptions shared_saved_node_fails.
Print Assumptions mtl_retain_false_iff.
Print Assumptions mtl_head_fail_runtime_error.
Print Assumptions shared_saved_node_runtime_error.
Print Assumptions two_heads_shared_node_runtime_error.
