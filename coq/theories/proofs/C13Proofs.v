(* C13Proofs.v — retain_graph / freed-graph discipline of the engine runs issued by autojac:
   the chunked differentiation never sabotages itself (all chunks but the last retain the graph),
   retain_graph=True keeps the graph fully usable, and after an accepted backward / mtl_backward
   the graph is freed exactly as after the corresponding plain engine runs. *)
From Coq Require Import List Bool Arith Lia.
From TJ Require Import Num Linalg Chunk Autojac Traverse.
From TJ.proofs Require Import ChunkProofs AutojacBasics EntrySpec C20Proofs.
Import ListNotations.

Section C13.
Context {T : Type} (N : Num T) (P : prog T) (A : list (list T) -> res (list T)).

(* the saved nodes one engine run from outs to ins executes *)
Definition saved_exec (outs ins : list tid) : list nid := filter (p_saved P) (exec_nodes P outs ins).
(* would one engine run from outs to ins succeed in state s?  depends on s only through s_freed *)
Definition sweep_ok (s : @store T) (outs ins : list tid) : bool :=
  forallb (p_req P) outs && forallb (p_req P) ins
  && negb (existsb (fun n => mem n (s_freed s)) (saved_exec outs ins)).

Lemma ag_sweep_spec : forall s outs ins rows b retain,
  ag_sweep P s outs ins rows b retain =
  if sweep_ok s outs ins
  then (Ok tt, mkStore (s_grads s)
                 (if retain then s_freed s else s_freed s ++ saved_exec outs ins)
                 (mkSweep outs ins rows b retain :: s_log s) (s_next s))
  else (Err RuntimeError, s).
Proof.
  intros s outs ins rows b retain. unfold ag_sweep, sweep_ok, saved_exec.
  destruct (forallb (p_req P) outs && forallb (p_req P) ins); cbn [negb andb]; [|reflexivity].
  destruct (existsb _ _); cbn [negb]; reflexivity.
Qed.

Lemma sweep_ok_freed : forall s1 s2 outs ins,
  s_freed s1 = s_freed s2 -> sweep_ok s1 outs ins = sweep_ok s2 outs ins.
Proof. intros s1 s2 outs ins E. unfold sweep_ok. rewrite E. reflexivity. Qed.

Definition plan_sweeps (outs ins : list tid) (plan : list chunk) : list sweep :=
  map (fun c => mkSweep outs ins (c_len c) (c_batched c) (c_retain c)) plan.

(* ---------- chunked differentiation over an arbitrary plan [front ++ [last]] ---------- *)
Lemma jac_chunks_front : forall outs ins d front last s,
  Forall (fun c => c_retain c = true) front ->
  sweep_ok s outs ins = true ->
  exists rows, jac_chunks N P s outs ins d (front ++ [last]) =
    (Ok rows, mkStore (s_grads s)
                (if c_retain last then s_freed s else s_freed s ++ saved_exec outs ins)
                (rev (plan_sweeps outs ins (front ++ [last])) ++ s_log s) (s_next s)).
Proof.
  intros outs ins d front last. induction front as [|c front IH]; intros s HF Hok.
  - cbn [app jac_chunks]. rewrite ag_sweep_spec, Hok. eexists. reflexivity.
  - inversion HF as [|c0 l0 Hc HF']; subst c0 l0.
    cbn [app jac_chunks]. rewrite ag_sweep_spec, Hok, Hc.
    set (s1 := mkStore (s_grads s) (s_freed s)
                 (mkSweep outs ins (c_len c) (c_batched c) true :: s_log s) (s_next s)).
    assert (Hok1 : sweep_ok s1 outs ins = true).
    { rewrite (sweep_ok_freed s1 s outs ins eq_refl). exact Hok. }
    destruct (IH s1 HF' Hok1) as [rows Hrows]. rewrite Hrows.
    eexists. f_equal. unfold s1. cbn [s_grads s_freed s_log s_next].
    f_equal. unfold plan_sweeps. cbn [map rev]. rewrite Hc. rewrite <- app_assoc. reflexivity.
Qed.

Lemma jac_chunks_fail_cons : forall outs ins d c plan s,
  sweep_ok s outs ins = false ->
  jac_chunks N P s outs ins d (c :: plan) = (Err RuntimeError, s).
Proof.
  intros outs ins d c plan s Hok. cbn [jac_chunks]. rewrite ag_sweep_spec, Hok. reflexivity.
Qed.

Lemma jac_chunks_ok_inv : forall outs ins d front last s rows s',
  Forall (fun c => c_retain c = true) front ->
  jac_chunks N P s outs ins d (front ++ [last]) = (Ok rows, s') ->
  s_freed s' = (if c_retain last then s_freed s else s_freed s ++ saved_exec outs ins) /\
  s_log s' = rev (plan_sweeps outs ins (front ++ [last])) ++ s_log s.
Proof.
  intros outs ins d front last s rows s' HF H.
  destruct (sweep_ok s outs ins) eqn:Hok.
  - destruct (jac_chunks_front outs ins d front last s HF Hok) as [rows0 H0].
    rewrite H0 in H. inversion H; subst. cbn [s_freed s_log]. split; reflexivity.
  - destruct front as [|c front]; cbn [app] in H;
      rewrite (jac_chunks_fail_cons outs ins d _ _ s Hok) in H; discriminate H.
Qed.

(* NO SELF-SABOTAGE *)
Lemma jac_chunks_engine : forall m k retain s outs ins d,
  sweep_ok s outs ins = true ->
  exists rows, jac_chunks N P s outs ins d (chunk_plan m k retain) =
    (Ok rows, mkStore (s_grads s)
                (if retain then s_freed s else s_freed s ++ saved_exec outs ins)
                (rev (plan_sweeps outs ins (chunk_plan m k retain)) ++ s_log s) (s_next s)).
Proof.
  intros m k retain s outs ins d Hok.
  destruct (plan_retain_flags m k retain) as (front & last & E & HF & Hl).
  rewrite E. rewrite <- Hl.
  exact (jac_chunks_front outs ins d front last s HF Hok).
Qed.

Lemma jac_chunks_engine_fail : forall m k retain s outs ins d,
  sweep_ok s outs ins = false ->
  jac_chunks N P s outs ins d (chunk_plan m k retain) = (Err RuntimeError, s).
Proof.
  intros m k retain s outs ins d Hok.
  destruct (plan_retain_flags m k retain) as (front & last & E & _ & _).
  rewrite E. destruct front as [|c front]; cbn [app]; apply jac_chunks_fail_cons; exact Hok.
Qed.

(* ---------- a frame principle for [run]: every transform relates the stores by R ---------- *)
Section Frame.
Variable R : @store T -> @store T -> Prop.
Variable good : tr -> bool.
Hypothesis R_refl : forall s, R s s.
Hypothesis R_trans : forall s1 s2 s3, R s1 s2 -> R s2 s3 -> R s1 s3.
Hypothesis good_stack : forall ts, good (TStack ts) = true -> forallb good ts = true.
Hypothesis good_conj : forall ts, good (TConj ts) = true -> forallb good ts = true.
Hypothesis good_comp : forall o i, good (TComp o i) = true -> good o = true /\ good i = true.
Hypothesis good_acc : forall ks s d r s',
  good (TAccumulate ks) = true -> accumulate_compute N P s d = (r, s') -> R s s'.
Hypothesis good_grad : forall outs ins retain s d r s',
  good (TGrad outs ins retain) = true -> grad_compute N P s outs ins retain d = (r, s') -> R s s'.
Hypothesis good_jac : forall outs ins k retain s d r s',
  good (TJac outs ins k retain) = true -> jac_compute N P s outs ins k retain d = (r, s') -> R s s'.

Definition frame_ok (t : tr) : Prop :=
  forall s d r s', good t = true -> run N P A t s d = (r, s') -> R s s'.

Lemma frame_list : forall d ts,
  Forall frame_ok ts -> forallb good ts = true ->
  forall s r s', run_list N P A d ts s = (r, s') -> R s s'.
Proof.
  intros d ts HF. induction HF as [|t ts Ht HF IH]; intros Hg s r s' H.
  - cbn in H. inversion H; subst. apply R_refl.
  - cbn [forallb] in Hg. apply andb_true_iff in Hg. destruct Hg as [Hg1 Hg2].
    rewrite run_list_cons in H.
    destruct (run N P A t s d) as [[d1|e] s1] eqn:E1.
    + apply (Ht s d _ s1 Hg1) in E1.
      destruct (run_list N P A d ts s1) as [[ds|e] s2] eqn:E2.
      * apply (IH Hg2) in E2. inversion H; subst. eapply R_trans; eassumption.
      * apply (IH Hg2) in E2. inversion H; subst. eapply R_trans; eassumption.
    + apply (Ht s d _ s1 Hg1) in E1. inversion H; subst. exact E1.
Qed.

Lemma frame_run : forall t s d r s', good t = true -> run N P A t s d = (r, s') -> R s s'.
Proof.
  intros t. change (frame_ok t).
  induction t as [vals|c|keys req|ts IH|ts IH|o i IHo IHi|keys|outs ins retain|outs ins chunk retain
                 |keys|ord|keys] using tr_ind';
    intros s d r s' Hg Hrun.
  - cbn [run] in Hrun. unfold lift in Hrun. destruct (negb _) in Hrun; inversion Hrun; subst; apply R_refl.
  - cbn [run] in Hrun. unfold lift in Hrun. destruct (negb _) in Hrun; inversion Hrun; subst; apply R_refl.
  - cbn [run] in Hrun. unfold lift in Hrun. destruct (negb _) in Hrun; inversion Hrun; subst; apply R_refl.
  - rewrite run_stack_eq in Hrun. destruct (negb _) in Hrun; [inversion Hrun; subst; apply R_refl|].
    apply good_stack in Hg.
    destruct (run_list N P A d ts s) as [[ds|e] s1] eqn:EL;
      apply (frame_list d ts IH Hg) in EL; inversion Hrun; subst; exact EL.
  - rewrite run_conj_eq in Hrun. destruct (negb _) in Hrun; [inversion Hrun; subst; apply R_refl|].
    apply good_conj in Hg.
    destruct (run_list N P A d ts s) as [[ds|e] s1] eqn:EL;
      apply (frame_list d ts IH Hg) in EL; inversion Hrun; subst; exact EL.
  - apply good_comp in Hg. destruct Hg as [Hgo Hgi].
    cbn [run] in Hrun. destruct (negb _) in Hrun; [inversion Hrun; subst; apply R_refl|].
    destruct (run N P A i s d) as [[d1|e] s1] eqn:Ei.
    + apply (IHi s d _ s1 Hgi) in Ei. apply (IHo s1 d1 r s' Hgo) in Hrun.
      eapply R_trans; eassumption.
    + apply (IHi s d _ s1 Hgi) in Ei. inversion Hrun; subst. exact Ei.
  - cbn [run] in Hrun. destruct (negb _) in Hrun; [inversion Hrun; subst; apply R_refl|].
    eapply good_acc; eassumption.
  - cbn [run] in Hrun. destruct (negb _) in Hrun; [inversion Hrun; subst; apply R_refl|].
    eapply good_grad; eassumption.
  - cbn [run] in Hrun. destruct (negb _) in Hrun; [inversion Hrun; subst; apply R_refl|].
    eapply good_jac; eassumption.
  - cbn [run] in Hrun. unfold lift in Hrun. destruct (negb _) in Hrun; inversion Hrun; subst; apply R_refl.
  - cbn [run] in Hrun. unfold lift in Hrun. destruct (negb _) in Hrun; inversion Hrun; subst; apply R_refl.
  - cbn [run] in Hrun. unfold lift in Hrun. destruct (negb _) in Hrun; inversion Hrun; subst; apply R_refl.
Qed.
End Frame.

(* ---------- Accumulate touches neither s_freed nor s_log ---------- *)
Lemma accumulate_one_engine : forall s kv,
  s_freed (accumulate_one N s kv) = s_freed s /\ s_log (accumulate_one N s kv) = s_log s.
Proof.
  intros s kv. unfold accumulate_one. destruct (sget s (fst kv)); split; reflexivity.
Qed.

Lemma accumulate_fold_engine : forall items s,
  s_freed (fold_left (accumulate_one N) items s) = s_freed s /\
  s_log (fold_left (accumulate_one N) items s) = s_log s.
Proof.
  induction items as [|kv items IH]; intros s; cbn [fold_left].
  - split; reflexivity.
  - destruct (IH (accumulate_one N s kv)) as [IH1 IH2].
    destruct (accumulate_one_engine s kv) as [E1 E2].
    rewrite IH1, IH2, E1, E2. split; reflexivity.
Qed.

Lemma accumulate_compute_engine : forall s d r s',
  accumulate_compute N P s d = (r, s') -> s_freed s' = s_freed s /\ s_log s' = s_log s.
Proof.
  intros s d r s' H. unfold accumulate_compute in H.
  destruct (expects_all P (dkeys d)); inversion H; subst.
  - apply accumulate_fold_engine.
  - split; reflexivity.
Qed.

(* ---------- retain_graph=True keeps s_freed ---------- *)
Lemma ag_sweep_retain_freed : forall s outs ins rows b r s',
  ag_sweep P s outs ins rows b true = (r, s') -> s_freed s' = s_freed s.
Proof.
  intros s outs ins rows b r s' H. rewrite ag_sweep_spec in H.
  destruct (sweep_ok s outs ins); inversion H; subst; reflexivity.
Qed.

Lemma jac_chunks_retain_freed : forall outs ins d plan,
  Forall (fun c => c_retain c = true) plan ->
  forall s r s', jac_chunks N P s outs ins d plan = (r, s') -> s_freed s' = s_freed s.
Proof.
  intros outs ins d plan HF. induction HF as [|c plan Hc HF IH]; intros s r s' H;
    cbn [jac_chunks] in H.
  - inversion H; subst; reflexivity.
  - rewrite Hc in H.
    destruct (ag_sweep P s outs ins (c_len c) (c_batched c) true) as [[u|e] s1] eqn:Es;
      apply ag_sweep_retain_freed in Es.
    + destruct (jac_chunks N P s1 outs ins d plan) as [[rest|e] s2] eqn:Ej;
        apply IH in Ej; inversion H; subst; congruence.
    + inversion H; subst. exact Es.
Qed.

Lemma chunk_plan_all_retain : forall m k,
  Forall (fun c => c_retain c = true) (chunk_plan m k true).
Proof.
  intros m k. destruct (plan_retain_flags m k true) as (front & last & E & HF & Hl).
  rewrite E. apply Forall_app. split; [exact HF|]. constructor; [exact Hl | constructor].
Qed.

Lemma grad_compute_retain_freed : forall s outs ins d r s',
  grad_compute N P s outs ins true d = (r, s') -> s_freed s' = s_freed s.
Proof.
  intros s outs ins d r s' H. unfold grad_compute in H.
  destruct ins as [|i0 ins]; [inversion H; subst; reflexivity|].
  destruct outs as [|o0 outs]; [inversion H; subst; reflexivity|].
  destruct (ag_sweep P s (o0 :: outs) (i0 :: ins) 1 false true) as [[u|e] s1] eqn:Es;
    apply ag_sweep_retain_freed in Es; inversion H; subst; exact Es.
Qed.

Lemma jac_compute_retain_freed : forall s outs ins k d r s',
  jac_compute N P s outs ins k true d = (r, s') -> s_freed s' = s_freed s.
Proof.
  intros s outs ins k d r s' H. unfold jac_compute in H.
  destruct ins as [|i0 ins]; [inversion H; subst; reflexivity|].
  destruct outs as [|o0 outs]; [inversion H; subst; reflexivity|].
  destruct (max_chunk _ _ =? 0) in H; [inversion H; subst; reflexivity|].
  destruct (jac_chunks N P s (o0 :: outs) (i0 :: ins) d _) as [[mx|e] s1] eqn:Ej;
    apply (jac_chunks_retain_freed _ _ _ _ (chunk_plan_all_retain _ _)) in Ej;
    inversion H; subst; exact Ej.
Qed.

(* retain_graph=True everywhere: the graph stays fully usable, whatever the term *)
Fixpoint all_retain (t : tr) : bool :=
  match t with
  | TGrad _ _ r => r
  | TJac _ _ _ r => r
  | TStack ts | TConj ts => forallb all_retain ts
  | TComp o i => all_retain o && all_retain i
  | _ => true
  end.

Lemma retain_keeps_graph : forall t s d r s',
  all_retain t = true -> run N P A t s d = (r, s') -> s_freed s' = s_freed s.
Proof.
  intros t s d r s' Hg Hrun.
  apply (frame_run (fun s1 s2 => s_freed s2 = s_freed s1) all_retain) with (t := t) (d := d) (r := r);
    try assumption.
  - intros s0. reflexivity.
  - intros s1 s2 s3 H12 H23. congruence.
  - intros ts H. exact H.
  - intros ts H. exact H.
  - intros o i H. cbn [all_retain] in H. apply andb_true_iff in H. exact H.
  - intros ks s0 d0 r0 s0' _ H. apply accumulate_compute_engine in H. destruct H as [H _]. exact H.
  - intros outs ins retain s0 d0 r0 s0' Hr H. cbn [all_retain] in Hr. subst retain.
    eapply grad_compute_retain_freed. exact H.
  - intros outs ins k retain s0 d0 r0 s0' Hr H. cbn [all_retain] in Hr. subst retain.
    eapply jac_compute_retain_freed. exact H.
Qed.

(* ---------- terms without Grad / Jac issue no engine run at all ---------- *)
Fixpoint no_engine (t : tr) : bool :=
  match t with
  | TGrad _ _ _ => false
  | TJac _ _ _ _ => false
  | TStack ts | TConj ts => forallb no_engine ts
  | TComp o i => no_engine o && no_engine i
  | _ => true
  end.

Lemma no_engine_frame : forall t s d r s',
  no_engine t = true -> run N P A t s d = (r, s') ->
  s_freed s' = s_freed s /\ s_log s' = s_log s.
Proof.
  intros t s d r s' Hg Hrun.
  apply (frame_run (fun s1 s2 => s_freed s2 = s_freed s1 /\ s_log s2 = s_log s1) no_engine)
    with (t := t) (d := d) (r := r); try assumption.
  - intros s0. split; reflexivity.
  - intros s1 s2 s3 [H12 H12'] [H23 H23']. split; congruence.
  - intros ts H. exact H.
  - intros ts H. exact H.
  - intros o i H. cbn [no_engine] in H. apply andb_true_iff in H. exact H.
  - intros ks s0 d0 r0 s0' _ H. apply accumulate_compute_engine in H. exact H.
  - intros outs ins retain s0 d0 r0 s0' Hr H. cbn [no_engine] in Hr. discriminate Hr.
  - intros outs ins k retain s0 d0 r0 s0' Hr H. cbn [no_engine] in Hr. discriminate Hr.
Qed.

(* ---------- one successful Grad / Jac ---------- *)
Lemma run_grad_ok_inv : forall outs ins retain s d d' s',
  outs <> [] -> ins <> [] ->
  run N P A (TGrad outs ins retain) s d = (Ok d', s') ->
  s_freed s' = (if retain then s_freed s else s_freed s ++ saved_exec outs ins) /\
  s_log s' = mkSweep outs ins 1 false retain :: s_log s.
Proof.
  intros outs ins retain s d d' s' Ho Hi H.
  cbn [run] in H. destruct (negb _) in H; [discriminate H|].
  unfold grad_compute in H.
  destruct ins as [|i0 ins]; [contradiction Hi; reflexivity|].
  destruct outs as [|o0 outs]; [contradiction Ho; reflexivity|].
  rewrite ag_sweep_spec in H.
  destruct (sweep_ok s (o0 :: outs) (i0 :: ins)); [|discriminate H].
  inversion H; subst. cbn [s_freed s_log]. split; reflexivity.
Qed.

Lemma run_jac_ok_inv : forall outs ins k retain s d d' s',
  outs <> [] -> ins <> [] ->
  run N P A (TJac outs ins k retain) s d = (Ok d', s') ->
  exists m,
    s_freed s' = (if retain then s_freed s else s_freed s ++ saved_exec outs ins) /\
    s_log s' = rev (plan_sweeps outs ins (chunk_plan m k retain)) ++ s_log s.
Proof.
  intros outs ins k retain s d d' s' Ho Hi H.
  cbn [run] in H. destruct (negb _) in H; [discriminate H|].
  unfold jac_compute in H.
  destruct ins as [|i0 ins]; [contradiction Hi; reflexivity|].
  destruct outs as [|o0 outs]; [contradiction Ho; reflexivity|].
  destruct (max_chunk _ _ =? 0) in H; [discriminate H|].
  match type of H with context [chunk_plan ?m0 k retain] => set (m := m0) in H end.
  destruct (jac_chunks N P s (o0 :: outs) (i0 :: ins) d (chunk_plan m k retain))
    as [[mx|e] s1] eqn:Ej; [|discriminate H].
  inversion H; subst s1. exists m.
  destruct (plan_retain_flags m k retain) as (front & last & E & HF & Hl).
  rewrite E in Ej |- *. apply jac_chunks_ok_inv in Ej; [|exact HF].
  rewrite Hl in Ej. exact Ej.
Qed.

(* ---------- backward ---------- *)
Lemma backward_retain_true : forall tensors ord k s r s',
  backward_model N P A tensors ord k true s = (r, s') -> s_freed s' = s_freed s.
Proof.
  intros tensors ord k s r s' H. unfold backward_model in H.
  destruct (negb (valid_chunk k)); [inversion H; subst; reflexivity|].
  destruct tensors as [|t0 tensors]; [inversion H; subst; reflexivity|].
  unfold build_and_run in H. destruct (wf _); [|inversion H; subst; reflexivity].
  eapply retain_keeps_graph; [|exact H]. reflexivity.
Qed.

Lemma backward_engine : forall tensors ord k retain s d' s',
  ord <> [] ->
  backward_model N P A tensors ord k retain s = (Ok d', s') ->
  exists m,
    s_freed s' = (if retain then s_freed s else s_freed s ++ saved_exec tensors ord) /\
    s_log s' = rev (plan_sweeps tensors ord (chunk_plan m k retain)) ++ s_log s.
Proof.
  intros tensors ord k retain s d' s' Hord H. unfold backward_model in H.
  destruct (negb (valid_chunk k)); [discriminate H|].
  destruct tensors as [|t0 tensors]; [discriminate H|].
  unfold build_and_run in H. destruct (wf _); [|discriminate H].
  unfold backward_transform in H.
  apply run_comp_inv in H. destruct H as (d4 & s4 & H4 & Hacc).
  apply run_comp_inv in H4. destruct H4 as (d3 & s3 & H3 & Hagg).
  apply run_comp_inv in H3. destruct H3 as (d2 & s2 & H2 & Hjac).
  apply no_engine_frame in H2; [|reflexivity]. destruct H2 as [F2 L2].
  apply no_engine_frame in Hagg; [|reflexivity]. destruct Hagg as [F4 L4].
  apply no_engine_frame in Hacc; [|reflexivity]. destruct Hacc as [F5 L5].
  apply run_jac_ok_inv in Hjac; [|discriminate|exact Hord].
  destruct Hjac as (m & F3 & L3). exists m.
  rewrite F5, L5, F4, L4, F3, L3, F2, L2. split; reflexivity.
Qed.

Lemma backward_freed : forall tensors ord k retain s d' s',
  ord <> [] ->
  backward_model N P A tensors ord k retain s = (Ok d', s') ->
  s_freed s' = if retain then s_freed s else s_freed s ++ saved_exec tensors ord.
Proof.
  intros tensors ord k retain s d' s' Hord H.
  destruct (backward_engine tensors ord k retain s d' s' Hord H) as (m & HF & _). exact HF.
Qed.

Lemma backward_log : forall tensors ord k retain s d' s',
  ord <> [] ->
  backward_model N P A tensors ord k retain s = (Ok d', s') ->
  exists m, s_log s' = rev (plan_sweeps tensors ord (chunk_plan m k retain)) ++ s_log s.
Proof.
  intros tensors ord k retain s d' s' Hord H.
  destruct (backward_engine tensors ord k retain s d' s' Hord H) as (m & _ & HL).
  exists m. exact HL.
Qed.

(* ---------- mtl_backward ---------- *)
Lemma tasks_all_retain : forall features (pls : list (list tid * tid)),
  forallb all_retain (map (fun pl => task_transform features (fst pl) (snd pl) true) pls) = true.
Proof.
  intros features pls. induction pls as [|pl pls IH]; [reflexivity|].
  cbn [map forallb]. rewrite IH. reflexivity.
Qed.

Lemma mtl_retain_true : forall losses features tasks shared k s r s',
  mtl_backward_model N P A losses features tasks shared k true s = (r, s') -> s_freed s' = s_freed s.
Proof.
  intros losses features tasks shared k s r s' H.
  destruct (mtl_args_ok P losses features tasks shared k true) eqn:Eok.
  - rewrite (mtl_args_accepted N P A _ _ _ _ _ _ s Eok) in H.
    eapply retain_keeps_graph; [|exact H].
    unfold mtl_transform. cbn [all_retain]. rewrite tasks_all_retain. reflexivity.
  - rewrite (mtl_args_rejected N P A _ _ _ _ _ _ s Eok) in H. inversion H; subst. reflexivity.
Qed.

Lemma task_run_freed : forall features params loss retain s d d' s',
  features <> [] ->
  run N P A (task_transform features params loss retain) s d = (Ok d', s') ->
  s_freed s' = if retain then s_freed s else s_freed s ++ saved_exec [loss] (params ++ features).
Proof.
  intros features params loss retain s d d' s' Hf H.
  unfold task_transform in H. cbv zeta in H.
  apply run_comp_inv in H. destruct H as (d2 & s2 & H2 & Hconj).
  apply run_comp_inv in H2. destruct H2 as (d1 & s1 & Hinit & Hgrad).
  apply run_init_inv in Hinit. destruct Hinit as [-> _].
  apply no_engine_frame in Hconj; [|reflexivity]. destruct Hconj as [F3 _].
  apply run_grad_ok_inv in Hgrad; [|discriminate|].
  - destruct Hgrad as [F2 _]. rewrite F3, F2. reflexivity.
  - intros E. apply app_eq_nil in E. destruct E as [_ E]. exact (Hf E).
Qed.

Lemma tasks_run_freed : forall features retain d (pls : list (list tid * tid)) s ds s',
  features <> [] ->
  run_list N P A d (map (fun pl => task_transform features (fst pl) (snd pl) retain) pls) s
    = (Ok ds, s') ->
  s_freed s' = if retain then s_freed s else
    s_freed s ++ concat (map (fun pl => saved_exec [snd pl] (fst pl ++ features)) pls).
Proof.
  intros features retain d pls. induction pls as [|pl pls IH]; intros s ds s' Hf H.
  - cbn in H. inversion H; subst. cbn [map concat]. rewrite app_nil_r.
    destruct retain; reflexivity.
  - cbn [map] in H. rewrite run_list_cons in H.
    destruct (run N P A (task_transform features (fst pl) (snd pl) retain) s d)
      as [[d1|e] s1] eqn:E1; [|discriminate H].
    destruct (run_list N P A d _ s1) as [[ds1|e] s2] eqn:E2; [|discriminate H].
    inversion H; subst.
    apply task_run_freed in E1; [|exact Hf]. apply IH in E2; [|exact Hf].
    rewrite E2, E1. destruct retain; [reflexivity|].
    cbn [map concat]. rewrite !app_assoc. reflexivity.
Qed.

Lemma mtl_freed : forall losses features tasks shared k retain s d' s',
  shared <> [] ->
  mtl_backward_model N P A losses features tasks shared k retain s = (Ok d', s') ->
  s_freed s' = if retain then s_freed s else
    s_freed s
    ++ concat (map (fun pl => saved_exec [snd pl] (fst pl ++ features)) (combine tasks losses))
    ++ saved_exec features shared.
Proof.
  intros losses features tasks shared k retain s d' s' Hsh H.
  destruct (mtl_args_ok P losses features tasks shared k retain) eqn:Eok.
  - rewrite (mtl_args_accepted N P A _ _ _ _ _ _ s Eok) in H.
    apply mtl_args_ok_inv in Eok. destruct Eok as [_ [Hnf _]].
    assert (Hf : features <> []).
    { intros E. rewrite E in Hnf. discriminate Hnf. }
    unfold mtl_transform in H.
    apply run_comp_inv in H. destruct H as (d4 & s4 & H4 & Hacc).
    apply run_comp_inv in H4. destruct H4 as (d3 & s3 & H3 & Hagg).
    apply run_comp_inv in H3. destruct H3 as (d2 & s2 & Hstack & Hjac).
    apply no_engine_frame in Hagg; [|reflexivity]. destruct Hagg as [F4 _].
    apply no_engine_frame in Hacc; [|reflexivity]. destruct Hacc as [F5 _].
    apply run_jac_ok_inv in Hjac; [|exact Hf|exact Hsh].
    destruct Hjac as (m & F3 & _).
    rewrite run_stack_eq in Hstack. destruct (negb _) in Hstack; [discriminate Hstack|].
    destruct (run_list N P A empty_dict _ s) as [[ds|e] s1] eqn:EL; [|discriminate Hstack].
    inversion Hstack; subst s1.
    apply tasks_run_freed in EL; [|exact Hf].
    rewrite F5, F4, F3, EL. destruct retain; [reflexivity|].
    rewrite <- app_assoc. reflexivity.
  - rewrite (mtl_args_rejected N P A _ _ _ _ _ _ s Eok) in H. discriminate H.
Qed.

End C13.

Print Assumptions jac_chunks_engine.
Print Assumptions retain_keeps_graph.
Print Assumptions backward_freed.
Print Assumptions backward_log.
Print Assumptions mtl_freed.
