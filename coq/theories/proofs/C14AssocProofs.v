From Coq Require Import List Bool Arith Lia Permutation.
From TJ Require Import Num Linalg Chunk Autojac.
From TJ.proofs Require Import C14Proofs.
Import ListNotations.

(* C14AssocProofs.v -- is Conjunction associative (does nesting matter)?

   Construction: yes.  The three groupings (a|b)|c, a|(b|c), a|b|c are accepted or rejected
   together and declare the same keys (conj_assoc_wf, conj_flat_wf, conj_assoc_keys).

   Application: only partly.
     - flattening is sound:  (a|b)|c succeeds  ==>  a|b|c succeeds with the same result
       (conj_flat; it needs neither purity nor well-formedness, see conj_flat_gen);
     - re-nesting is NOT: (a|b)|c may succeed while a|(b|c) raises ValueError, because the inner
       union b|c is built with ITS OWN least common ancestor type and that type's shape check
       (all Jacobians share their first dimension) can fail although the outer union of all
       three is a plain TensorDict without any check.  [conj_assoc_counterexample] is a checked
       instance; so the requested statement conj_assoc is false and is NOT proved here.
     - what is true instead: whenever both nestings succeed they agree (conj_assoc_both);
       the right nesting succeeds exactly when its inner union b|c succeeds
       (conj_assoc_inner, conj_assoc_iff) and otherwise fails with ValueError and the same
       store (conj_assoc_dich). *)

(* ---------- list helpers ---------- *)
Lemma NoDup_app_l : forall {X} (x y : list X), NoDup (x ++ y) -> NoDup x.
Proof.
  intros X x y. induction x as [|a x IH]; cbn [app]; intros Hnd; [constructor|].
  inversion Hnd as [|a' l Hnotin Hnd']. subst. constructor.
  - intros Hin. apply Hnotin. apply in_or_app. left. exact Hin.
  - apply IH. exact Hnd'.
Qed.

Lemma NoDup_app_r : forall {X} (x y : list X), NoDup (x ++ y) -> NoDup y.
Proof.
  intros X x y. induction x as [|a x IH]; cbn [app]; intros Hnd; [exact Hnd|].
  inversion Hnd as [|a' l Hnotin Hnd']. subst. apply IH. exact Hnd'.
Qed.

Lemma dedup_NoDup_id : forall l, NoDup l -> dedup l = l.
Proof. intros l Hnd. unfold dedup. apply nodup_fixed_point. exact Hnd. Qed.

(* ---------- keys of binary / ternary conjunctions ---------- *)
Lemma req_conj2 : forall (x y : tr) k,
  In k (required_keys (TConj [x; y])) <-> In k (required_keys x) \/ In k (required_keys y).
Proof.
  intros x y k.
  change (required_keys (TConj [x; y])) with (dedup (required_keys x ++ required_keys y ++ [])).
  rewrite dedup_In, app_nil_r, in_app_iff. reflexivity.
Qed.

Lemma req_conj3 : forall (x y z : tr) k,
  In k (required_keys (TConj [x; y; z])) <->
  In k (required_keys x) \/ In k (required_keys y) \/ In k (required_keys z).
Proof.
  intros x y z k.
  change (required_keys (TConj [x; y; z]))
    with (dedup (required_keys x ++ required_keys y ++ required_keys z ++ [])).
  rewrite dedup_In, app_nil_r, !in_app_iff. reflexivity.
Qed.

Lemma out_conj2 : forall (x y : tr) k,
  In k (output_keys (TConj [x; y])) <-> In k (output_keys x) \/ In k (output_keys y).
Proof.
  intros x y k.
  change (output_keys (TConj [x; y])) with (dedup (output_keys x ++ output_keys y ++ [])).
  rewrite dedup_In, app_nil_r, in_app_iff. reflexivity.
Qed.

Lemma out_conj2_eq : forall (x y : tr),
  NoDup (output_keys x ++ output_keys y) ->
  output_keys (TConj [x; y]) = output_keys x ++ output_keys y.
Proof.
  intros x y Hnd.
  change (output_keys (TConj [x; y])) with (dedup (output_keys x ++ output_keys y ++ [])).
  rewrite app_nil_r. apply dedup_NoDup_id. exact Hnd.
Qed.

Section C14Assoc.
Context {T : Type} (N : Num T) (P : prog T) (A : list (list T) -> res (list T)).
Notation run := (run N P A).
Notation tdictT := (@tdict T).
Notation storeT := (@store T).
Notation shp := (map (fun kv : tid * @tens T => (p_shape P (fst kv), full_shape (snd kv)))).

(* ---------- construction ---------- *)
Lemma conj2_iff : forall x y,
  wf (TConj [x; y]) = true <->
  (wf x = true /\ wf y = true
   /\ (forall k, In k (required_keys x) <-> In k (required_keys y))
   /\ NoDup (output_keys x ++ output_keys y)).
Proof.
  intros x y. rewrite conj_iff. split.
  - intros [HF [Hreq Hnd]].
    inversion HF as [|x' l Hx HF']. subst. inversion HF' as [|y' l' Hy _]. subst.
    split; [exact Hx|]. split; [exact Hy|]. split.
    + apply (Hreq x y); cbn [In]; tauto.
    + cbn [flat_map] in Hnd. rewrite app_nil_r in Hnd. exact Hnd.
  - intros [Hx [Hy [Hreq Hnd]]]. split; [|split].
    + constructor; [exact Hx|]. constructor; [exact Hy|]. constructor.
    + intros t1 t2 H1 H2 k.
      assert (E : forall t, In t [x; y] ->
                  forall k', In k' (required_keys t) <-> In k' (required_keys x)).
      { intros t [Ht|[Ht|[]]] k'; subst t; [reflexivity|]. symmetry. apply Hreq. }
      rewrite (E t1 H1 k), (E t2 H2 k). reflexivity.
    + cbn [flat_map]. rewrite app_nil_r. exact Hnd.
Qed.

Lemma conj3_iff : forall x y z,
  wf (TConj [x; y; z]) = true <->
  (wf x = true /\ wf y = true /\ wf z = true
   /\ (forall k, In k (required_keys x) <-> In k (required_keys y))
   /\ (forall k, In k (required_keys y) <-> In k (required_keys z))
   /\ NoDup (output_keys x ++ output_keys y ++ output_keys z)).
Proof.
  intros x y z. rewrite conj_iff. split.
  - intros [HF [Hreq Hnd]].
    inversion HF as [|x' l Hx HF']. subst. inversion HF' as [|y' l' Hy HF'']. subst.
    inversion HF'' as [|z' l'' Hz _]. subst.
    split; [exact Hx|]. split; [exact Hy|]. split; [exact Hz|]. split; [|split].
    + apply (Hreq x y); cbn [In]; tauto.
    + apply (Hreq y z); cbn [In]; tauto.
    + cbn [flat_map] in Hnd. rewrite app_nil_r in Hnd. exact Hnd.
  - intros [Hx [Hy [Hz [Hxy [Hyz Hnd]]]]]. split; [|split].
    + constructor; [exact Hx|]. constructor; [exact Hy|]. constructor; [exact Hz|]. constructor.
    + intros t1 t2 H1 H2 k.
      assert (E : forall t, In t [x; y; z] ->
                  forall k', In k' (required_keys t) <-> In k' (required_keys x)).
      { intros t [Ht|[Ht|[Ht|[]]]] k'; subst t.
        - reflexivity.
        - symmetry. apply Hxy.
        - rewrite <- (Hyz k'). symmetry. apply Hxy. }
      rewrite (E t1 H1 k), (E t2 H2 k). reflexivity.
    + cbn [flat_map]. rewrite app_nil_r. exact Hnd.
Qed.

(* the common normal form of the three groupings *)
Definition conj3_norm (a b c : tr) : Prop :=
  wf a = true /\ wf b = true /\ wf c = true
  /\ (forall k, In k (required_keys a) <-> In k (required_keys b))
  /\ (forall k, In k (required_keys b) <-> In k (required_keys c))
  /\ NoDup (output_keys a ++ output_keys b ++ output_keys c).

Lemma conj_left_norm : forall a b c,
  wf (TConj [TConj [a; b]; c]) = true <-> conj3_norm a b c.
Proof.
  intros a b c. unfold conj3_norm. rewrite conj2_iff, (conj2_iff a b). split.
  - intros [[Ha [Hb [Rab NDab]]] [Hc [Rabc ND]]].
    rewrite (out_conj2_eq a b NDab), <- app_assoc in ND.
    split; [exact Ha|]. split; [exact Hb|]. split; [exact Hc|]. split; [exact Rab|].
    split; [|exact ND].
    intros k. rewrite <- (Rabc k), req_conj2, (Rab k). tauto.
  - intros [Ha [Hb [Hc [Rab [Rbc ND]]]]].
    assert (NDab : NoDup (output_keys a ++ output_keys b)).
    { rewrite app_assoc in ND. apply (NoDup_app_l _ _ ND). }
    split; [tauto|]. split; [exact Hc|]. split.
    + intros k. rewrite req_conj2, (Rab k), (Rbc k). tauto.
    + rewrite (out_conj2_eq a b NDab), <- app_assoc. exact ND.
Qed.

Lemma conj_right_norm : forall a b c,
  wf (TConj [a; TConj [b; c]]) = true <-> conj3_norm a b c.
Proof.
  intros a b c. unfold conj3_norm. rewrite conj2_iff, (conj2_iff b c). split.
  - intros [Ha [[Hb [Hc [Rbc NDbc]]] [Rabc ND]]].
    rewrite (out_conj2_eq b c NDbc) in ND.
    split; [exact Ha|]. split; [exact Hb|]. split; [exact Hc|]. split; [|split].
    + intros k. rewrite (Rabc k), req_conj2, (Rbc k). tauto.
    + exact Rbc.
    + exact ND.
  - intros [Ha [Hb [Hc [Rab [Rbc ND]]]]].
    assert (NDbc : NoDup (output_keys b ++ output_keys c)).
    { apply (NoDup_app_r _ _ ND). }
    split; [exact Ha|]. split; [tauto|]. split.
    + intros k. rewrite req_conj2, (Rab k), (Rbc k). tauto.
    + rewrite (out_conj2_eq b c NDbc). exact ND.
Qed.

Lemma conj_flat_norm : forall a b c,
  wf (TConj [a; b; c]) = true <-> conj3_norm a b c.
Proof. intros a b c. unfold conj3_norm. apply conj3_iff. Qed.

Lemma conj_assoc_wf : forall a b c,
  wf (TConj [TConj [a; b]; c]) = wf (TConj [a; TConj [b; c]]).
Proof.
  intros a b c. apply eq_true_iff_eq. rewrite conj_left_norm, conj_right_norm. reflexivity.
Qed.

Lemma conj_flat_wf : forall a b c,
  wf (TConj [TConj [a; b]; c]) = wf (TConj [a; b; c]).
Proof.
  intros a b c. apply eq_true_iff_eq. rewrite conj_left_norm, conj_flat_norm. reflexivity.
Qed.

Lemma conj_assoc_keys : forall a b c k,
  (In k (required_keys (TConj [TConj [a; b]; c])) <-> In k (required_keys (TConj [a; TConj [b; c]]))) /\
  (In k (output_keys (TConj [TConj [a; b]; c])) <-> In k (output_keys (TConj [a; TConj [b; c]]))).
Proof.
  intros a b c k. split.
  - rewrite !req_conj2. tauto.
  - rewrite !out_conj2. tauto.
Qed.

Lemma conj_flat_keys : forall a b c k,
  (In k (required_keys (TConj [TConj [a; b]; c])) <-> In k (required_keys (TConj [a; b; c]))) /\
  (In k (output_keys (TConj [TConj [a; b]; c])) <-> In k (output_keys (TConj [a; b; c]))).
Proof.
  intros a b c k. split.
  - rewrite !req_conj2, req_conj3. tauto.
  - rewrite !out_conj2.
    change (output_keys (TConj [a; b; c]))
      with (dedup (output_keys a ++ output_keys b ++ output_keys c ++ [])).
    rewrite dedup_In, app_nil_r, !in_app_iff. tauto.
Qed.

(* ---------- application: the runs of binary / ternary conjunctions, spelled out ---------- *)
Lemma run_conj2 : forall x y s d,
  run (TConj [x; y]) s d =
  if negb (set_eqb (dkeys d) (required_keys (TConj [x; y]))) then (Err ValueError, s) else
  match run x s d with
  | (Err e, s1) => (Err e, s1)
  | (Ok dx, s1) =>
      match run y s1 d with
      | (Err e, s2) => (Err e, s2)
      | (Ok dy, s2) => (mk_dict P (lca (dk dx) (dk dy)) (ditems dx ++ ditems dy), s2)
      end
  end.
Proof.
  intros x y s d. rewrite run_eq.
  destruct (negb (set_eqb (dkeys d) (required_keys (TConj [x; y])))); [reflexivity|].
  cbn [run_body]. rewrite go_list_cons.
  destruct (run x s d) as [[dx|e] s1]; [|reflexivity].
  rewrite go_list_cons.
  destruct (run y s1 d) as [[dy|e] s2]; [|reflexivity].
  rewrite go_list_nil. unfold union_dicts. cbn [fold_left flat_map].
  rewrite app_nil_r.
  change (lca KEmpty (dk dx)) with (dk dx). reflexivity.
Qed.

Lemma run_conj3 : forall x y z s d,
  run (TConj [x; y; z]) s d =
  if negb (set_eqb (dkeys d) (required_keys (TConj [x; y; z]))) then (Err ValueError, s) else
  match run x s d with
  | (Err e, s1) => (Err e, s1)
  | (Ok dx, s1) =>
      match run y s1 d with
      | (Err e, s2) => (Err e, s2)
      | (Ok dy, s2) =>
          match run z s2 d with
          | (Err e, s3) => (Err e, s3)
          | (Ok dz, s3) =>
              (mk_dict P (lca (lca (dk dx) (dk dy)) (dk dz))
                 (ditems dx ++ ditems dy ++ ditems dz), s3)
          end
      end
  end.
Proof.
  intros x y z s d. rewrite run_eq.
  destruct (negb (set_eqb (dkeys d) (required_keys (TConj [x; y; z])))); [reflexivity|].
  cbn [run_body]. rewrite go_list_cons.
  destruct (run x s d) as [[dx|e] s1]; [|reflexivity].
  rewrite go_list_cons.
  destruct (run y s1 d) as [[dy|e] s2]; [|reflexivity].
  rewrite go_list_cons.
  destruct (run z s2 d) as [[dz|e] s3]; [|reflexivity].
  rewrite go_list_nil. unfold union_dicts. cbn [fold_left flat_map].
  rewrite app_nil_r.
  change (lca KEmpty (dk dx)) with (dk dx). reflexivity.
Qed.

(* everything a successful left-nested run tells us (no hypothesis on the terms) *)
Lemma conj_left_inv : forall a b c s d d1 s1,
  run (TConj [TConj [a; b]; c]) s d = (Ok d1, s1) ->
  exists da sa db sb dc,
    set_eqb (dkeys d) (required_keys (TConj [TConj [a; b]; c])) = true
    /\ run a s d = (Ok da, sa) /\ run b sa d = (Ok db, sb) /\ run c sb d = (Ok dc, s1)
    /\ shapes_ok (lca (lca (dk da) (dk db)) (dk dc))
         (shp ((ditems da ++ ditems db) ++ ditems dc)) = true
    /\ d1 = mkDict (lca (lca (dk da) (dk db)) (dk dc)) ((ditems da ++ ditems db) ++ ditems dc).
Proof.
  intros a b c s d d1 s1 H. rewrite run_conj2 in H.
  destruct (set_eqb (dkeys d) (required_keys (TConj [TConj [a; b]; c]))) eqn:KL;
    cbn [negb] in H; [|discriminate H].
  rewrite (run_conj2 a b) in H.
  destruct (set_eqb (dkeys d) (required_keys (TConj [a; b]))) eqn:Kab;
    cbn [negb] in H; [|discriminate H].
  destruct (run a s d) as [[da|ea] sa] eqn:Ha; [|discriminate H].
  destruct (run b sa d) as [[db|eb] sb] eqn:Hb; [|discriminate H].
  unfold mk_dict at 1 in H.
  destruct (shapes_ok (lca (dk da) (dk db)) (shp (ditems da ++ ditems db))) eqn:Sab;
    [|discriminate H].
  cbv beta iota in H.
  destruct (run c sb d) as [[dc|ec] sc] eqn:Hc; [|discriminate H].
  cbn [dk ditems] in H.
  injection H as Hm Hs. subst sc.
  unfold mk_dict in Hm.
  destruct (shapes_ok (lca (lca (dk da) (dk db)) (dk dc))
              (shp ((ditems da ++ ditems db) ++ ditems dc))) eqn:Sout; [|discriminate Hm].
  injection Hm as Hm.
  exists da, sa, db, sb, dc.
  split; [reflexivity|]. split; [reflexivity|]. split; [exact Hb|]. split; [exact Hc|].
  split; [exact Sout|]. symmetry. exact Hm.
Qed.

(* ---------- flattening ---------- *)
(* needs neither purity nor well-formedness *)
Lemma conj_flat_gen : forall a b c s d d1 s1,
  run (TConj [TConj [a; b]; c]) s d = (Ok d1, s1) ->
  exists d2, run (TConj [a; b; c]) s d = (Ok d2, s1) /\ dict_equiv d1 d2.
Proof.
  intros a b c s d d1 s1 H.
  destruct (conj_left_inv a b c s d d1 s1 H) as [da [sa [db [sb [dc [KL [Ha [Hb [Hc [Sout Hd1]]]]]]]]]].
  assert (KF : set_eqb (dkeys d) (required_keys (TConj [a; b; c])) = true).
  { rewrite <- KL. apply set_eqb_congr_r. intros k. symmetry. apply (conj_flat_keys a b c k). }
  rewrite run_conj3, KF. cbn [negb]. rewrite Ha, Hb, Hc.
  unfold mk_dict. rewrite <- app_assoc in Sout. rewrite Sout.
  eexists. split; [reflexivity|]. subst d1. split.
  - reflexivity.
  - intros k. unfold dget. cbn [ditems]. rewrite <- app_assoc. reflexivity.
Qed.

Lemma conj_flat : forall a b c s d d1 s1,
  pure a = true -> pure b = true -> pure c = true ->
  wf (TConj [TConj [a; b]; c]) = true ->
  run (TConj [TConj [a; b]; c]) s d = (Ok d1, s1) ->
  exists d2, run (TConj [a; b; c]) s d = (Ok d2, s1) /\ dict_equiv d1 d2.
Proof.
  intros a b c s d d1 s1 _ _ _ _ H. apply (conj_flat_gen a b c s d d1 s1 H).
Qed.

Lemma conj_flat_both : forall a b c s d d1 s1 d2 s2,
  run (TConj [TConj [a; b]; c]) s d = (Ok d1, s1) ->
  run (TConj [a; b; c]) s d = (Ok d2, s2) ->
  dict_equiv d1 d2 /\ s1 = s2.
Proof.
  intros a b c s d d1 s1 d2 s2 H1 H2.
  destruct (conj_flat_gen a b c s d d1 s1 H1) as [d2' [H2' He]].
  rewrite H2 in H2'. injection H2' as Hd Hs. subst d2' s2. split; [exact He | reflexivity].
Qed.

(* ---------- re-nesting ---------- *)
(* The left nesting succeeded.  Then the right nesting performs the same member applications
   with the same stores; whether it succeeds is decided by the shape check of the inner
   union b|c alone. *)
Lemma conj_assoc_core : forall a b c s d d1 s1,
  wf (TConj [TConj [a; b]; c]) = true ->
  run (TConj [TConj [a; b]; c]) s d = (Ok d1, s1) ->
  exists da sa db sb dc,
    run a s d = (Ok da, sa) /\ run b sa d = (Ok db, sb) /\ run c sb d = (Ok dc, s1)
    /\ d1 = mkDict (lca (lca (dk da) (dk db)) (dk dc)) ((ditems da ++ ditems db) ++ ditems dc)
    /\ run (TConj [b; c]) sa d =
         (if shapes_ok (lca (dk db) (dk dc)) (shp (ditems db ++ ditems dc))
          then Ok (mkDict (lca (dk db) (dk dc)) (ditems db ++ ditems dc))
          else Err ValueError, s1)
    /\ run (TConj [a; TConj [b; c]]) s d =
         (if shapes_ok (lca (dk db) (dk dc)) (shp (ditems db ++ ditems dc))
          then Ok (mkDict (lca (dk da) (lca (dk db) (dk dc)))
                     (ditems da ++ ditems db ++ ditems dc))
          else Err ValueError, s1).
Proof.
  intros a b c s d d1 s1 Hwf H.
  destruct (conj_left_inv a b c s d d1 s1 H) as [da [sa [db [sb [dc [KL [Ha [Hb [Hc [Sout Hd1]]]]]]]]]].
  apply conj_left_norm in Hwf. destruct Hwf as [_ [_ [_ [Rab [Rbc _]]]]].
  assert (KR : set_eqb (dkeys d) (required_keys (TConj [a; TConj [b; c]])) = true).
  { rewrite <- KL. apply set_eqb_congr_r. intros k. symmetry. apply (conj_assoc_keys a b c k). }
  assert (Kbc : set_eqb (dkeys d) (required_keys (TConj [b; c])) = true).
  { rewrite <- KL. apply set_eqb_congr_r. intros k.
    rewrite !req_conj2, (Rab k), (Rbc k). tauto. }
  assert (Ebc : run (TConj [b; c]) sa d =
                (if shapes_ok (lca (dk db) (dk dc)) (shp (ditems db ++ ditems dc))
                 then Ok (mkDict (lca (dk db) (dk dc)) (ditems db ++ ditems dc))
                 else Err ValueError, s1)).
  { rewrite run_conj2, Kbc. cbn [negb]. rewrite Hb, Hc. unfold mk_dict.
    destruct (shapes_ok (lca (dk db) (dk dc)) (shp (ditems db ++ ditems dc))); reflexivity. }
  exists da, sa, db, sb, dc.
  split; [exact Ha|]. split; [exact Hb|]. split; [exact Hc|]. split; [exact Hd1|].
  split; [exact Ebc|].
  rewrite run_conj2, KR. cbn [negb]. rewrite Ha, Ebc.
  destruct (shapes_ok (lca (dk db) (dk dc)) (shp (ditems db ++ ditems dc))); [|reflexivity].
  cbn [dk ditems]. unfold mk_dict.
  rewrite <- lca_assoc, app_assoc, Sout. reflexivity.
Qed.

Lemma dict_equiv_assoc : forall (k1 k2 k3 : dkind) (i1 i2 i3 : list (tid * @tens T)),
  dict_equiv (mkDict (lca (lca k1 k2) k3) ((i1 ++ i2) ++ i3))
             (mkDict (lca k1 (lca k2 k3)) (i1 ++ i2 ++ i3)).
Proof.
  intros k1 k2 k3 i1 i2 i3. split.
  - cbn [dk]. apply lca_assoc.
  - intros k. unfold dget. cbn [ditems]. rewrite <- app_assoc. reflexivity.
Qed.

(* dichotomy: same result, or ValueError with the same store *)
Lemma conj_assoc_dich : forall a b c s d d1 s1,
  wf (TConj [TConj [a; b]; c]) = true ->
  run (TConj [TConj [a; b]; c]) s d = (Ok d1, s1) ->
  (exists d2, run (TConj [a; TConj [b; c]]) s d = (Ok d2, s1) /\ dict_equiv d1 d2)
  \/ run (TConj [a; TConj [b; c]]) s d = (Err ValueError, s1).
Proof.
  intros a b c s d d1 s1 Hwf H.
  destruct (conj_assoc_core a b c s d d1 s1 Hwf H)
    as [da [sa [db [sb [dc [Ha [Hb [Hc [Hd1 [Ebc ER]]]]]]]]]].
  destruct (shapes_ok (lca (dk db) (dk dc)) (shp (ditems db ++ ditems dc))).
  - left. eexists. split; [exact ER|]. subst d1. apply dict_equiv_assoc.
  - right. exact ER.
Qed.

(* the right nesting succeeds as soon as its inner conjunction does (applied after a) *)
Lemma conj_assoc_inner_gen : forall a b c s d d1 s1 da sa dbc s2,
  wf (TConj [TConj [a; b]; c]) = true ->
  run (TConj [TConj [a; b]; c]) s d = (Ok d1, s1) ->
  run a s d = (Ok da, sa) ->
  run (TConj [b; c]) sa d = (Ok dbc, s2) ->
  exists d2, run (TConj [a; TConj [b; c]]) s d = (Ok d2, s1) /\ dict_equiv d1 d2.
Proof.
  intros a b c s d d1 s1 da sa dbc s2 Hwf H Ha Hbc.
  destruct (conj_assoc_core a b c s d d1 s1 Hwf H)
    as [da' [sa' [db [sb [dc [Ha' [Hb [Hc [Hd1 [Ebc ER]]]]]]]]]].
  rewrite Ha in Ha'. injection Ha' as Hda Hsa. subst da' sa'.
  rewrite Hbc in Ebc.
  destruct (shapes_ok (lca (dk db) (dk dc)) (shp (ditems db ++ ditems dc))).
  - eexists. split; [exact ER|]. subst d1. apply dict_equiv_assoc.
  - discriminate Ebc.
Qed.

(* for side-effect-free members the inner conjunction can be applied on the initial store *)
Lemma conj_assoc_inner : forall a b c s d d1 s1 dbc s2,
  pure a = true -> pure b = true -> pure c = true ->
  wf (TConj [TConj [a; b]; c]) = true ->
  run (TConj [TConj [a; b]; c]) s d = (Ok d1, s1) ->
  run (TConj [b; c]) s d = (Ok dbc, s2) ->
  exists d2, run (TConj [a; TConj [b; c]]) s d = (Ok d2, s1) /\ dict_equiv d1 d2.
Proof.
  intros a b c s d d1 s1 dbc s2 Hpa _ _ Hwf H Hbc.
  destruct (conj_left_inv a b c s d d1 s1 H) as [da [sa [db [sb [dc [_ [Ha _]]]]]]].
  pose proof (pure_store N P A a s d (Ok da) sa Hpa Ha) as Hs. subst sa.
  apply (conj_assoc_inner_gen a b c s d d1 s1 da s dbc s2 Hwf H Ha Hbc).
Qed.

(* ... and only then *)
Lemma conj_assoc_iff : forall a b c s d d1 s1,
  pure a = true -> pure b = true -> pure c = true ->
  wf (TConj [TConj [a; b]; c]) = true ->
  run (TConj [TConj [a; b]; c]) s d = (Ok d1, s1) ->
  ((exists d2, run (TConj [a; TConj [b; c]]) s d = (Ok d2, s1) /\ dict_equiv d1 d2)
   <-> exists dbc, run (TConj [b; c]) s d = (Ok dbc, s1)).
Proof.
  intros a b c s d d1 s1 Hpa Hpb Hpc Hwf H. split.
  - intros [d2 [HR _]].
    destruct (conj_assoc_core a b c s d d1 s1 Hwf H)
      as [da [sa [db [sb [dc [Ha [Hb [Hc [Hd1 [Ebc ER]]]]]]]]]].
    pose proof (pure_store N P A a s d (Ok da) sa Hpa Ha) as Hs. subst sa.
    rewrite HR in ER.
    destruct (shapes_ok (lca (dk db) (dk dc)) (shp (ditems db ++ ditems dc))).
    + eexists. exact Ebc.
    + discriminate ER.
  - intros [dbc Hbc].
    apply (conj_assoc_inner a b c s d d1 s1 dbc s1 Hpa Hpb Hpc Hwf H Hbc).
Qed.

(* whenever both nestings succeed they agree *)
Lemma conj_assoc_both : forall a b c s d d1 s1 d2 s2,
  pure a = true -> pure b = true -> pure c = true ->
  wf (TConj [TConj [a; b]; c]) = true ->
  run (TConj [TConj [a; b]; c]) s d = (Ok d1, s1) ->
  run (TConj [a; TConj [b; c]]) s d = (Ok d2, s2) ->
  dict_equiv d1 d2 /\ s1 = s2.
Proof.
  intros a b c s d d1 s1 d2 s2 _ _ _ Hwf H1 H2.
  destruct (conj_assoc_dich a b c s d d1 s1 Hwf H1) as [[d2' [H2' He]]|HE].
  - rewrite H2 in H2'. injection H2' as Hd Hs. subst d2' s2. split; [exact He | reflexivity].
  - rewrite H2 in HE. discriminate HE.
Qed.

End C14Assoc.

(* ---------- the requested conj_assoc is false: a checked counterexample ----------
   tensors 1 and 2 of shapes [2] and [3];
     a = Init{0}                      -> Gradients   {0}
     b = Diagonalize[1] << Init{1}    -> Jacobians   {1}, 2 rows
     c = Diagonalize[2] << Init{2}    -> Jacobians   {2}, 3 rows
   (a|b)|c : inner union Gradients+Jacobians is a plain TensorDict, outer too: succeeds.
   a|(b|c) : inner union is a Jacobians with first dimensions 2 and 3: ValueError. *)
Section Counterexample.
Context {T : Type} (N : Num T) (A : list (list T) -> res (list T)).

Definition cex_prog : prog T :=
  mkProg T (fun t => match t with 1 => [2] | 2 => [3] | _ => [] end)
    (fun _ _ => []) (fun _ _ => false) (fun _ => false) (fun _ => false)
    (fun _ => None) (fun _ => None) (fun _ => []) (fun _ => None) (fun _ => false) 0.
Definition cex_a : tr := TInit [0].
Definition cex_b : tr := TComp (TDiag [1]) (TInit [1]).
Definition cex_c : tr := TComp (TDiag [2]) (TInit [2]).
Definition cex_store : @store T := mkStore [] [] [] 0.

Lemma conj_assoc_counterexample :
  pure cex_a = true /\ pure cex_b = true /\ pure cex_c = true
  /\ wf (TConj [TConj [cex_a; cex_b]; cex_c]) = true
  /\ wf (TConj [cex_a; TConj [cex_b; cex_c]]) = true
  /\ (exists d1, run N cex_prog A (TConj [TConj [cex_a; cex_b]; cex_c]) cex_store empty_dict
                 = (Ok d1, cex_store))
  /\ (exists d3, run N cex_prog A (TConj [cex_a; cex_b; cex_c]) cex_store empty_dict
                 = (Ok d3, cex_store))
  /\ run N cex_prog A (TConj [cex_a; TConj [cex_b; cex_c]]) cex_store empty_dict
     = (Err ValueError, cex_store).
Proof.
  split; [reflexivity|]. split; [reflexivity|]. split; [reflexivity|].
  split; [vm_compute; reflexivity|]. split; [vm_compute; reflexivity|].
  split; [eexists; vm_compute; reflexivity|].
  split; [eexists; vm_compute; reflexivity|].
  vm_compute. reflexivity.
Qed.

(* hence the universally quantified statement fails at every numeric model *)
Lemma conj_assoc_false :
  ~ (forall (P : prog T) a b c s d d1 s1,
       pure a = true -> pure b = true -> pure c = true ->
       wf (TConj [TConj [a; b]; c]) = true ->
       run N P A (TConj [TConj [a; b]; c]) s d = (Ok d1, s1) ->
       exists d2, run N P A (TConj [a; TConj [b; c]]) s d = (Ok d2, s1) /\ dict_equiv d1 d2).
Proof.
  intros Hall.
  destruct conj_assoc_counterexample as [Hpa [Hpb [Hpc [Hwf [_ [[d1 H1] [_ HE]]]]]]].
  destruct (Hall cex_prog cex_a cex_b cex_c cex_store empty_dict d1 cex_store
              Hpa Hpb Hpc Hwf H1) as [d2 [H2 _]].
  rewrite HE in H2. discriminate H2.
Qed.
End Counterexample.

Print Assumptions conj_assoc_wf.
Print Assumptions conj_flat_wf.
Print Assumptions conj_assoc_keys.
Print Assumptions conj_flat.
Print Assumptions conj_flat_gen.
Print Assumptions conj_flat_both.
Print Assumptions conj_assoc_both.
Print Assumptions conj_assoc_dich.
Print Assumptions conj_assoc_inner.
Print Assumptions conj_assoc_inner_gen.
Print Assumptions conj_assoc_iff.
Print Assumptions conj_assoc_counterexample.
Print Assumptions conj_assoc_false.
