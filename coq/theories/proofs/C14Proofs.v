From Coq Require Import List Bool Arith Lia Permutation.
From TJ Require Import Num Linalg Chunk Autojac.
Import ListNotations.

(* ---------- general-purpose facts ---------- *)
Lemma mem_In : forall x l, mem x l = true <-> In x l.
Proof.
  intros x l. unfold mem. rewrite existsb_exists. split.
  - intros [y [Hy Heq]]. apply Nat.eqb_eq in Heq. subst y. exact Hy.
  - intros Hin. exists x. split; [exact Hin | apply Nat.eqb_refl].
Qed.

Lemma subsetb_spec : forall a b, subsetb a b = true <-> (forall k, In k a -> In k b).
Proof.
  intros a b. unfold subsetb. rewrite forallb_forall. split.
  - intros H k Hk. apply mem_In. apply H. exact Hk.
  - intros H k Hk. apply mem_In. apply H. exact Hk.
Qed.

Lemma set_eqb_spec : forall a b, set_eqb a b = true <-> (forall k, In k a <-> In k b).
Proof.
  intros a b. unfold set_eqb. rewrite andb_true_iff, !subsetb_spec. split.
  - intros [H1 H2] k. split; [apply H1 | apply H2].
  - intros H. split; intros k Hk; apply H; exact Hk.
Qed.

Lemma nodupb_spec : forall l, nodupb l = true <-> NoDup l.
Proof.
  induction l as [|x l IH]; cbn [nodupb].
  - split; [intros _; constructor | reflexivity].
  - rewrite andb_true_iff, negb_true_iff, IH. split.
    + intros [Hm Hn]. constructor; [|exact Hn].
      intros Hin. apply mem_In in Hin. congruence.
    + intros Hnd. inversion Hnd as [|y l' Hnotin Hnd']. subst. split; [|exact Hnd'].
      destruct (mem x l) eqn:E; [|reflexivity]. apply mem_In in E. contradiction.
Qed.

Lemma dedup_In : forall x l, In x (dedup l) <-> In x l.
Proof. intros x l. unfold dedup. apply nodup_In. Qed.

Lemma dedup_NoDup : forall l, NoDup (dedup l).
Proof. intros l. unfold dedup. apply NoDup_nodup. Qed.

Lemma lca_comm : forall a b, lca a b = lca b a.
Proof. intros a b. destruct a, b; reflexivity. Qed.

Lemma lca_assoc : forall a b c, lca (lca a b) c = lca a (lca b c).
Proof. intros a b c. destruct a, b, c; reflexivity. Qed.

Lemma lca_idem : forall a, lca a a = a.
Proof. intros a. destruct a; reflexivity. Qed.

(* lca is the least upper bound in the subclass order *)
Lemma lca_upper : forall a b, subkind a (lca a b) = true /\ subkind b (lca a b) = true.
Proof. intros a b. destruct a, b; split; reflexivity. Qed.

Lemma lca_least : forall a b c, subkind a c = true -> subkind b c = true -> subkind (lca a b) c = true.
Proof.
  intros a b c Ha Hb. destruct a, b, c; cbn in *; try reflexivity; try discriminate.
Qed.

(* ---------- small list helpers ---------- *)
Lemma set_eqb_congr_r : forall z x y,
  (forall k, In k x <-> In k y) -> set_eqb z x = set_eqb z y.
Proof.
  intros z x y Hxy. apply eq_true_iff_eq. rewrite !set_eqb_spec. split.
  - intros H k. rewrite (H k). apply Hxy.
  - intros H k. rewrite (H k). symmetry. apply Hxy.
Qed.

Lemma forallb_Forall_true : forall {X} (f : X -> bool) l,
  forallb f l = true <-> Forall (fun x => f x = true) l.
Proof. intros X f l. rewrite forallb_forall, Forall_forall. reflexivity. Qed.

Lemma map_fst_graph : forall {X Y} (f : X -> Y) (l : list X),
  map fst (map (fun v => (v, f v)) l) = l.
Proof.
  intros X Y f l. rewrite map_map. cbn [fst]. apply map_id.
Qed.

Lemma map_fst_snd_graph : forall {X Y Z} (f : X * Y -> Z) (l : list (X * Y)),
  map fst (map (fun jk => (snd jk, f jk)) l) = map snd l.
Proof. intros X Y Z f l. rewrite map_map. reflexivity. Qed.

Lemma map_fst_fst_graph : forall {X Y Z} (f : X * Y -> Z) (l : list (X * Y)),
  map fst (map (fun kv => (fst kv, f kv)) l) = map fst l.
Proof. intros X Y Z f l. rewrite map_map. reflexivity. Qed.

Lemma map_snd_combine : forall {X Y} (a : list X) (b : list Y),
  length a = length b -> map snd (combine a b) = b.
Proof.
  intros X Y a. induction a as [|x a IH]; intros [|y b] Hlen; cbn in *; try reflexivity; try discriminate.
  f_equal. apply IH. lia.
Qed.

Lemma map_fst_combine : forall {X Y} (a : list X) (b : list Y),
  length a = length b -> map fst (combine a b) = a.
Proof.
  intros X Y a. induction a as [|x a IH]; intros [|y b] Hlen; cbn in *; try reflexivity; try discriminate.
  f_equal. apply IH. lia.
Qed.

Lemma map_snd_combine_seq : forall {Y} (c : list Y) n,
  map snd (combine (seq n (length c)) c) = c.
Proof. intros Y c n. apply map_snd_combine. apply seq_length. Qed.

Lemma split_by_length : forall {X} (lens : list nat) (v : list X),
  length (split_by lens v) = length lens.
Proof.
  intros X lens. induction lens as [|n lens IH]; intros v; cbn [split_by length]; [reflexivity|].
  f_equal. apply IH.
Qed.

(* ---------- induction principle for transform terms ---------- *)
Section TrInd.
Variable Q : tr -> Prop.
Hypothesis HInit : forall vals, Q (TInit vals).
Hypothesis HDiag : forall c, Q (TDiag c).
Hypothesis HSelect : forall keys req, Q (TSelect keys req).
Hypothesis HStack : forall ts, Forall Q ts -> Q (TStack ts).
Hypothesis HConj : forall ts, Forall Q ts -> Q (TConj ts).
Hypothesis HComp : forall o i, Q o -> Q i -> Q (TComp o i).
Hypothesis HAcc : forall ks, Q (TAccumulate ks).
Hypothesis HGrad : forall outs ins retain, Q (TGrad outs ins retain).
Hypothesis HJac : forall outs ins chunk retain, Q (TJac outs ins chunk retain).
Hypothesis HMat : forall ks, Q (TMatrixify ks).
Hypothesis HAgg : forall ord, Q (TAggMat ord).
Hypothesis HResh : forall ks, Q (TReshape ks).

Fixpoint tr_ind' (t : tr) : Q t :=
  match t with
  | TInit vals => HInit vals
  | TDiag c => HDiag c
  | TSelect keys req => HSelect keys req
  | TStack ts =>
      HStack ts ((fix go (l : list tr) : Forall Q l :=
                    match l with
                    | [] => Forall_nil Q
                    | x :: l' => Forall_cons x (tr_ind' x) (go l')
                    end) ts)
  | TConj ts =>
      HConj ts ((fix go (l : list tr) : Forall Q l :=
                   match l with
                   | [] => Forall_nil Q
                   | x :: l' => Forall_cons x (tr_ind' x) (go l')
                   end) ts)
  | TComp o i => HComp o i (tr_ind' o) (tr_ind' i)
  | TAccumulate ks => HAcc ks
  | TGrad outs ins retain => HGrad outs ins retain
  | TJac outs ins chunk retain => HJac outs ins chunk retain
  | TMatrixify ks => HMat ks
  | TAggMat ord => HAgg ord
  | TReshape ks => HResh ks
  end.
End TrInd.

(* members of a Stack / Conjunction share their required keys *)
Lemma req_common_iff : forall ts,
  forallb (fun t' => set_eqb (required_keys t') (dedup (flat_map required_keys ts))) ts = true <->
  (forall t1 t2, In t1 ts -> In t2 ts ->
     forall k, In k (required_keys t1) <-> In k (required_keys t2)).
Proof.
  intros ts. rewrite forallb_forall. split.
  - intros H t1 t2 H1 H2 k.
    pose proof (H t1 H1) as E1. pose proof (H t2 H2) as E2.
    rewrite set_eqb_spec in E1, E2. rewrite (E1 k), (E2 k). reflexivity.
  - intros H t Ht. apply set_eqb_spec. intros k.
    rewrite dedup_In, in_flat_map. split.
    + intros Hk. exists t. split; assumption.
    + intros [t2 [Ht2 Hk]]. apply (H t t2 Ht Ht2 k). exact Hk.
Qed.

Section C14.
Context {T : Type} (N : Num T) (P : prog T) (A : list (list T) -> res (list T)).
Notation run := (run N P A).
Notation tdictT := (@tdict T).
Notation storeT := (@store T).

(* ---------- construction rules ---------- *)
Lemma compose_iff : forall o i,
  wf (TComp o i) = true <->
  (wf o = true /\ wf i = true /\ forall k, In k (required_keys o) <-> In k (output_keys i)).
Proof.
  intros o i.
  change (wf (TComp o i)) with (wf o && wf i && set_eqb (required_keys o) (output_keys i)).
  rewrite !andb_true_iff, set_eqb_spec. tauto.
Qed.

Lemma conj_iff : forall ts,
  wf (TConj ts) = true <->
  (Forall (fun t => wf t = true) ts
   /\ (forall t1 t2, In t1 ts -> In t2 ts -> forall k, In k (required_keys t1) <-> In k (required_keys t2))
   /\ NoDup (flat_map output_keys ts)).
Proof.
  intros ts.
  change (wf (TConj ts)) with
    (forallb wf ts
     && forallb (fun t' => set_eqb (required_keys t') (dedup (flat_map required_keys ts))) ts
     && nodupb (flat_map output_keys ts)).
  rewrite !andb_true_iff, forallb_Forall_true, req_common_iff, nodupb_spec. tauto.
Qed.

Lemma stack_iff : forall ts,
  wf (TStack ts) = true <->
  (Forall (fun t => wf t = true) ts
   /\ (forall t1 t2, In t1 ts -> In t2 ts -> forall k, In k (required_keys t1) <-> In k (required_keys t2))).
Proof.
  intros ts.
  change (wf (TStack ts)) with
    (forallb wf ts
     && forallb (fun t' => set_eqb (required_keys t') (dedup (flat_map required_keys ts))) ts).
  rewrite !andb_true_iff, forallb_Forall_true, req_common_iff. tauto.
Qed.

Lemma select_iff : forall keys req, wf (TSelect keys req) = true <-> (forall k, In k keys -> In k req).
Proof. intros keys req. change (wf (TSelect keys req)) with (subsetb keys req). apply subsetb_spec. Qed.

Lemma diag_iff : forall c, wf (TDiag c) = true <-> NoDup c.
Proof. intros c. change (wf (TDiag c)) with (nodupb c). apply nodupb_spec. Qed.

(* ---------- unfolding of run ---------- *)
Definition go_list (d : tdictT) : list tr -> storeT -> res (list tdictT) * storeT :=
  fix go (ts : list tr) (s : storeT) : res (list tdictT) * storeT :=
    match ts with
    | [] => (Ok [], s)
    | t' :: ts' =>
        match run t' s d with
        | (Err e, s') => (Err e, s')
        | (Ok d', s') =>
            match go ts' s' with
            | (Err e, s'') => (Err e, s'')
            | (Ok ds, s'') => (Ok (d' :: ds), s'')
            end
        end
    end.

Definition run_body (t : tr) (s : storeT) (d : tdictT) : res tdictT * storeT :=
  match t with
  | TInit vals => lift (init_compute N P vals) s
  | TDiag c => lift (diag_compute N P c d) s
  | TSelect keys _ => lift (select_compute P keys d) s
  | TStack ts =>
      match go_list d ts s with
      | (Err e, s') => (Err e, s')
      | (Ok ds, s') => (stack_dicts N P ds, s')
      end
  | TConj ts =>
      match go_list d ts s with
      | (Err e, s') => (Err e, s')
      | (Ok ds, s') => (union_dicts P ds, s')
      end
  | TComp o i =>
      match run i s d with
      | (Err e, s') => (Err e, s')
      | (Ok d', s') => run o s' d'
      end
  | TAccumulate _ => accumulate_compute N P s d
  | TGrad outs ins retain => grad_compute N P s outs ins retain d
  | TJac outs ins chunk retain => jac_compute N P s outs ins chunk retain d
  | TMatrixify _ => lift (matrixify_compute P d) s
  | TAggMat ord => lift (aggmat_compute P A ord d) s
  | TReshape _ => lift (reshape_compute P d) s
  end.

Lemma run_eq : forall t s d,
  run t s d =
  if negb (set_eqb (dkeys d) (required_keys t)) then (Err ValueError, s) else run_body t s d.
Proof. intros t s d. destruct t; reflexivity. Qed.

Lemma go_list_cons : forall d t' ts' s,
  go_list d (t' :: ts') s =
  match run t' s d with
  | (Err e, s') => (Err e, s')
  | (Ok d', s') =>
      match go_list d ts' s' with
      | (Err e, s'') => (Err e, s'')
      | (Ok ds, s'') => (Ok (d' :: ds), s'')
      end
  end.
Proof. intros d t' ts' s. reflexivity. Qed.

Lemma go_list_nil : forall d s, go_list d [] s = (Ok [], s).
Proof. intros d s. reflexivity. Qed.

Lemma run_ok_body : forall t s d d' s',
  run t s d = (Ok d', s') ->
  set_eqb (dkeys d) (required_keys t) = true /\ run_body t s d = (Ok d', s').
Proof.
  intros t s d d' s' Hrun. rewrite run_eq in Hrun.
  destruct (set_eqb (dkeys d) (required_keys t)); cbn [negb] in Hrun.
  - split; [reflexivity | exact Hrun].
  - discriminate Hrun.
Qed.

(* the key check in front of every application; the store is left untouched *)
Lemma key_check : forall t s d,
  set_eqb (dkeys d) (required_keys t) = false -> run t s d = (Err ValueError, s).
Proof. intros t s d H. rewrite run_eq, H. reflexivity. Qed.

(* ---------- dictionaries built by mk_dict ---------- *)
Lemma mk_dict_ok : forall k items d,
  mk_dict P k items = Ok d -> dk d = k /\ ditems d = items.
Proof.
  intros k items d H. unfold mk_dict in H.
  destruct (shapes_ok k _); [|discriminate H].
  injection H as H. subst d. split; reflexivity.
Qed.

Lemma mk_dict_keys : forall k items d,
  mk_dict P k items = Ok d -> dk d = k /\ dkeys d = map fst items.
Proof.
  intros k items d H. apply mk_dict_ok in H. destruct H as [Hk Hi].
  split; [exact Hk|]. unfold dkeys. rewrite Hi. reflexivity.
Qed.

Lemma lift_ok : forall (r : res tdictT) (s : storeT) d' s',
  lift r s = (Ok d', s') -> r = Ok d' /\ s' = s.
Proof. intros r s d' s' H. unfold lift in H. injection H as H1 H2. split; congruence. Qed.

Lemma dkeys_flat_map : forall ds : list tdictT,
  map fst (flat_map (fun d => ditems d) ds) = flat_map dkeys ds.
Proof.
  induction ds as [|d0 ds IH]; cbn [flat_map map]; [reflexivity|].
  rewrite map_app, IH. reflexivity.
Qed.

Lemma grad_compute_typed : forall s outs ins retain d d' s',
  grad_compute N P s outs ins retain d = (Ok d', s') -> dk d' = dk d /\ dkeys d' = ins.
Proof.
  intros s outs ins retain d d' s' H. unfold grad_compute in H.
  destruct ins as [|i0 ins'].
  - injection H as H _. apply mk_dict_keys in H. exact H.
  - set (ins := i0 :: ins') in *. clearbody ins.
    destruct outs as [|o0 outs'].
    + injection H as H _. apply mk_dict_keys in H. rewrite map_fst_graph in H. exact H.
    + destruct (ag_sweep P s (o0 :: outs') ins 1 false retain) as [[u|e] s1]; [|discriminate H].
      injection H as H _. apply mk_dict_keys in H. rewrite map_fst_graph in H. exact H.
Qed.

Lemma jac_compute_typed : forall s outs ins chunk retain d d' s',
  jac_compute N P s outs ins chunk retain d = (Ok d', s') -> dk d' = dk d /\ dkeys d' = ins.
Proof.
  intros s outs ins chunk retain d d' s' H. unfold jac_compute in H.
  destruct ins as [|i0 ins'].
  - injection H as H _. apply mk_dict_keys in H. exact H.
  - set (ins := i0 :: ins') in *. clearbody ins.
    destruct outs as [|o0 outs'].
    + injection H as H _. apply mk_dict_keys in H. rewrite map_fst_graph in H. exact H.
    + destruct (max_chunk _ chunk =? 0); [discriminate H|].
      destruct (jac_chunks N P s (o0 :: outs') ins d _) as [[m|e] s1]; [|discriminate H].
      injection H as H _. apply mk_dict_keys in H.
      rewrite map_fst_snd_graph, map_snd_combine_seq in H. exact H.
Qed.

(* ---------- typing of the members of a Stack / Conjunction ---------- *)
Definition typed_at (t : tr) : Prop :=
  forall s d d' s',
    wf t = true -> run t s d = (Ok d', s') ->
    (forall k, In k (dkeys d') <-> In k (output_keys t)) /\ dk d' = out_kind t (dk d).

Lemma go_list_typed : forall ts,
  Forall typed_at ts ->
  forall d s ds s',
    forallb wf ts = true -> go_list d ts s = (Ok ds, s') ->
    Forall2 (fun t d' => (forall k, In k (dkeys d') <-> In k (output_keys t))
                         /\ dk d' = out_kind t (dk d)) ts ds.
Proof.
  intros ts HF. induction HF as [|t ts Ht HF IH]; intros d s ds s' Hwf Hgo.
  - rewrite go_list_nil in Hgo. injection Hgo as Hds _. subst ds. constructor.
  - rewrite go_list_cons in Hgo. cbn [forallb] in Hwf. apply andb_true_iff in Hwf.
    destruct Hwf as [Hwft Hwfts].
    destruct (run t s d) as [[d1|e] s1] eqn:Hr; [|discriminate Hgo].
    destruct (go_list d ts s1) as [[ds1|e] s2] eqn:Hg; [|discriminate Hgo].
    injection Hgo as Hds _. subst ds. constructor.
    + apply (Ht s d d1 s1 Hwft Hr).
    + apply (IH d s1 ds1 s2 Hwfts Hg).
Qed.

Lemma typed_flat_keys : forall (k0 : dkind) ts (ds : list tdictT),
  Forall2 (fun t d' => (forall k, In k (dkeys d') <-> In k (output_keys t))
                       /\ dk d' = out_kind t k0) ts ds ->
  forall k, In k (flat_map dkeys ds) <-> In k (flat_map output_keys ts).
Proof.
  intros k0 ts ds HF. induction HF as [|t d' ts ds [Hk _] HF IH]; intros k; cbn [flat_map].
  - reflexivity.
  - rewrite !in_app_iff, (Hk k), (IH k). reflexivity.
Qed.

Lemma typed_fold_kind : forall (k0 : dkind) ts (ds : list tdictT),
  Forall2 (fun t d' => (forall k, In k (dkeys d') <-> In k (output_keys t))
                       /\ dk d' = out_kind t k0) ts ds ->
  forall acc,
    fold_left (fun a d' => lca a (dk d')) ds acc =
    fold_left (fun a t' => lca a (out_kind t' k0)) ts acc.
Proof.
  intros k0 ts ds HF. induction HF as [|t d' ts ds [_ Hkd] HF IH]; intros acc; cbn [fold_left].
  - reflexivity.
  - rewrite Hkd. apply IH.
Qed.

(* whenever construction and application succeed: exactly the declared output keys and the
   declared type *)
Lemma output_typed : forall t s d d' s',
  wf t = true -> run t s d = (Ok d', s') ->
  (forall k, In k (dkeys d') <-> In k (output_keys t)) /\ dk d' = out_kind t (dk d).
Proof.
  intros t. change (typed_at t).
  induction t using tr_ind'; unfold typed_at; intros s d d' s' Hwf Hrun;
    apply run_ok_body in Hrun; destruct Hrun as [Hkeys Hrun]; cbn [run_body] in Hrun.
  - (* TInit *)
    apply lift_ok in Hrun. destruct Hrun as [Hrun _]. unfold init_compute in Hrun.
    apply mk_dict_keys in Hrun. destruct Hrun as [Hk Hd]. rewrite map_fst_graph in Hd.
    split; [|exact Hk]. intros k. rewrite Hd. reflexivity.
  - (* TDiag *)
    apply lift_ok in Hrun. destruct Hrun as [Hrun _]. unfold diag_compute in Hrun.
    destruct c as [|c0 c']; [discriminate Hrun|].
    set (c := c0 :: c') in *. clearbody c.
    apply mk_dict_keys in Hrun. destruct Hrun as [Hk Hd].
    rewrite map_fst_snd_graph, map_snd_combine_seq in Hd.
    split; [|exact Hk]. intros k. rewrite Hd. cbn [output_keys]. symmetry. apply dedup_In.
  - (* TSelect *)
    apply lift_ok in Hrun. destruct Hrun as [Hrun _]. unfold select_compute in Hrun.
    apply mk_dict_keys in Hrun. destruct Hrun as [Hk Hd]. rewrite map_fst_graph in Hd.
    split; [|exact Hk]. intros k. rewrite Hd. reflexivity.
  - (* TStack *)
    apply stack_iff in Hwf. destruct Hwf as [Hwfs _]. apply forallb_Forall_true in Hwfs.
    destruct (go_list d ts s) as [[ds|e] s1] eqn:Hg; [|discriminate Hrun].
    injection Hrun as Hrun _. unfold stack_dicts in Hrun.
    apply mk_dict_keys in Hrun. destruct Hrun as [Hk Hd]. rewrite map_fst_graph in Hd.
    pose proof (go_list_typed ts H d s ds s1 Hwfs Hg) as HF.
    split; [|exact Hk]. intros k. rewrite Hd. cbn [output_keys]. rewrite !dedup_In.
    apply (typed_flat_keys (dk d) ts ds HF).
  - (* TConj *)
    apply conj_iff in Hwf. destruct Hwf as [Hwfs _]. apply forallb_Forall_true in Hwfs.
    destruct (go_list d ts s) as [[ds|e] s1] eqn:Hg; [|discriminate Hrun].
    injection Hrun as Hrun _. unfold union_dicts in Hrun.
    apply mk_dict_keys in Hrun. destruct Hrun as [Hk Hd]. rewrite dkeys_flat_map in Hd.
    pose proof (go_list_typed ts H d s ds s1 Hwfs Hg) as HF.
    split.
    + intros k. rewrite Hd. cbn [output_keys]. rewrite dedup_In.
      apply (typed_flat_keys (dk d) ts ds HF).
    + rewrite Hk. cbn [out_kind]. apply (typed_fold_kind (dk d) ts ds HF).
  - (* TComp *)
    apply compose_iff in Hwf. destruct Hwf as [Hwfo [Hwfi _]].
    destruct (run t2 s d) as [[d1|e] s1] eqn:Hi; [|discriminate Hrun].
    destruct (IHt2 s d d1 s1 Hwfi Hi) as [_ Hk1].
    destruct (IHt1 s1 d1 d' s' Hwfo Hrun) as [Hko Hk2].
    split; [exact Hko|]. cbn [out_kind]. rewrite <- Hk1. exact Hk2.
  - (* TAccumulate *)
    unfold accumulate_compute in Hrun.
    destruct (expects_all P (dkeys d)); [|discriminate Hrun].
    injection Hrun as Hrun _. subst d'. split; [|reflexivity]. intros k. reflexivity.
  - (* TGrad *)
    apply grad_compute_typed in Hrun. destruct Hrun as [Hk Hd].
    split; [|exact Hk]. intros k. rewrite Hd. cbn [output_keys]. symmetry. apply dedup_In.
  - (* TJac *)
    apply jac_compute_typed in Hrun. destruct Hrun as [Hk Hd].
    split; [|exact Hk]. intros k. rewrite Hd. cbn [output_keys]. symmetry. apply dedup_In.
  - (* TMatrixify *)
    apply lift_ok in Hrun. destruct Hrun as [Hrun _]. unfold matrixify_compute in Hrun.
    apply mk_dict_keys in Hrun. destruct Hrun as [Hk Hd]. rewrite map_fst_fst_graph in Hd.
    split; [|exact Hk]. intros k. rewrite Hd. fold (dkeys d).
    apply set_eqb_spec with (k := k) in Hkeys. exact Hkeys.
  - (* TAggMat *)
    apply lift_ok in Hrun. destruct Hrun as [Hrun _]. unfold aggmat_compute in Hrun.
    destruct ord as [|k0 ord'].
    + injection Hrun as Hrun. subst d'. split; [|reflexivity]. intros k. reflexivity.
    + set (ord := k0 :: ord') in *.
      assert (Hkind : out_kind (TAggMat ord) (dk d) = KGradientVectors) by reflexivity.
      clearbody ord.
      destruct (A (unite ord d)) as [v|e]; [|discriminate Hrun].
      destruct (negb _); [discriminate Hrun|].
      apply mk_dict_keys in Hrun. destruct Hrun as [Hk Hd].
      rewrite map_fst_fst_graph, map_fst_combine in Hd
        by (rewrite split_by_length, map_length; reflexivity).
      split; [|rewrite Hkind; exact Hk].
      intros k. rewrite Hd. cbn [output_keys]. symmetry. apply dedup_In.
  - (* TReshape *)
    apply lift_ok in Hrun. destruct Hrun as [Hrun _]. unfold reshape_compute in Hrun.
    apply mk_dict_keys in Hrun. destruct Hrun as [Hk Hd]. rewrite map_fst_fst_graph in Hd.
    split; [|exact Hk]. intros k. rewrite Hd. fold (dkeys d).
    apply set_eqb_spec with (k := k) in Hkeys. exact Hkeys.
Qed.

(* ---------- composition is associative ---------- *)
Lemma comp_assoc_wf : forall a b c, wf (TComp (TComp a b) c) = wf (TComp a (TComp b c)).
Proof.
  intros a b c.
  change (wf (TComp (TComp a b) c)) with
    (wf a && wf b && set_eqb (required_keys a) (output_keys b) && wf c
     && set_eqb (required_keys b) (output_keys c)).
  change (wf (TComp a (TComp b c))) with
    (wf a && (wf b && wf c && set_eqb (required_keys b) (output_keys c))
     && set_eqb (required_keys a) (output_keys b)).
  destruct (wf a), (wf b), (wf c), (set_eqb (required_keys a) (output_keys b)),
    (set_eqb (required_keys b) (output_keys c)); reflexivity.
Qed.

Lemma comp_assoc_run : forall a b c s d,
  run (TComp (TComp a b) c) s d = run (TComp a (TComp b c)) s d.
Proof.
  intros a b c s d.
  rewrite (run_eq (TComp (TComp a b) c)), (run_eq (TComp a (TComp b c))).
  change (required_keys (TComp (TComp a b) c)) with (required_keys c).
  change (required_keys (TComp a (TComp b c))) with (required_keys c).
  destruct (set_eqb (dkeys d) (required_keys c)) eqn:Hc; cbn [negb]; [|reflexivity].
  cbn [run_body].
  rewrite (run_eq (TComp b c) s d).
  change (required_keys (TComp b c)) with (required_keys c).
  rewrite Hc. cbn [negb run_body].
  destruct (run c s d) as [[d1|e] s1]; [|reflexivity].
  rewrite (run_eq (TComp a b) s1 d1).
  change (required_keys (TComp a b)) with (required_keys b).
  destruct (set_eqb (dkeys d1) (required_keys b)) eqn:Hb; cbn [negb run_body].
  - reflexivity.
  - rewrite (key_check b s1 d1 Hb). reflexivity.
Qed.

Lemma comp_assoc_keys : forall a b c,
  required_keys (TComp (TComp a b) c) = required_keys (TComp a (TComp b c)) /\
  output_keys (TComp (TComp a b) c) = output_keys (TComp a (TComp b c)).
Proof. intros a b c. split; reflexivity. Qed.

(* ---------- terms without side effects ---------- *)
Fixpoint pure (t : tr) : bool :=
  match t with
  | TInit _ | TDiag _ | TSelect _ _ | TMatrixify _ | TAggMat _ | TReshape _ => true
  | TStack ts | TConj ts => forallb pure ts
  | TComp o i => pure o && pure i
  | TAccumulate _ | TGrad _ _ _ | TJac _ _ _ _ => false
  end.
Definition dict_equiv (d d' : @tdict T) : Prop := dk d = dk d' /\ forall k, dget d k = dget d' k.

Definition store_kept (t : tr) : Prop :=
  forall s d r s', pure t = true -> run t s d = (r, s') -> s' = s.

Lemma go_list_store : forall ts,
  Forall store_kept ts ->
  forall d s r s', forallb pure ts = true -> go_list d ts s = (r, s') -> s' = s.
Proof.
  intros ts HF. induction HF as [|t ts Ht HF IH]; intros d s r s' Hp Hgo.
  - rewrite go_list_nil in Hgo. injection Hgo as _ Hs. symmetry. exact Hs.
  - rewrite go_list_cons in Hgo. cbn [forallb] in Hp. apply andb_true_iff in Hp.
    destruct Hp as [Hpt Hpts].
    destruct (run t s d) as [[d1|e] s1] eqn:Hr.
    + pose proof (Ht s d (Ok d1) s1 Hpt Hr) as Hs1. subst s1.
      destruct (go_list d ts s) as [[ds1|e] s2] eqn:Hg.
      * pose proof (IH d s (Ok ds1) s2 Hpts Hg) as Hs2. subst s2.
        injection Hgo as _ Hs. symmetry. exact Hs.
      * pose proof (IH d s (Err e) s2 Hpts Hg) as Hs2. subst s2.
        injection Hgo as _ Hs. symmetry. exact Hs.
    + pose proof (Ht s d (Err e) s1 Hpt Hr) as Hs1. subst s1.
      injection Hgo as _ Hs. symmetry. exact Hs.
Qed.

Lemma pure_store : forall t s d r s', pure t = true -> run t s d = (r, s') -> s' = s.
Proof.
  intros t. change (store_kept t).
  induction t using tr_ind'; unfold store_kept; intros s d r s' Hp Hrun;
    rewrite run_eq in Hrun;
    (destruct (negb _); [injection Hrun as _ Hs; symmetry; exact Hs|]);
    cbn [run_body] in Hrun; try discriminate Hp;
    try (unfold lift in Hrun; injection Hrun as _ Hs; symmetry; exact Hs).
  - (* TStack *)
    cbn [pure] in Hp.
    destruct (go_list d ts s) as [[ds|e] s1] eqn:Hg.
    + pose proof (go_list_store ts H d s (Ok ds) s1 Hp Hg) as Hs1. subst s1.
      injection Hrun as _ Hs. symmetry. exact Hs.
    + pose proof (go_list_store ts H d s (Err e) s1 Hp Hg) as Hs1. subst s1.
      injection Hrun as _ Hs. symmetry. exact Hs.
  - (* TConj *)
    cbn [pure] in Hp.
    destruct (go_list d ts s) as [[ds|e] s1] eqn:Hg.
    + pose proof (go_list_store ts H d s (Ok ds) s1 Hp Hg) as Hs1. subst s1.
      injection Hrun as _ Hs. symmetry. exact Hs.
    + pose proof (go_list_store ts H d s (Err e) s1 Hp Hg) as Hs1. subst s1.
      injection Hrun as _ Hs. symmetry. exact Hs.
  - (* TComp *)
    cbn [pure] in Hp. apply andb_true_iff in Hp. destruct Hp as [Hp1 Hp2].
    destruct (run t2 s d) as [[d1|e] s1] eqn:Hi.
    + pose proof (IHt2 s d (Ok d1) s1 Hp2 Hi) as Hs1. subst s1.
      apply (IHt1 s d1 r s' Hp1 Hrun).
    + pose proof (IHt2 s d (Err e) s1 Hp2 Hi) as Hs1. subst s1.
      injection Hrun as _ Hs. symmetry. exact Hs.
Qed.

(* the result of a pure term does not depend on the store *)
Definition store_indep (t : tr) : Prop :=
  forall s1 s2 d, pure t = true -> fst (run t s1 d) = fst (run t s2 d).

Lemma go_list_indep : forall ts,
  Forall store_indep ts ->
  forall d s1 s2, forallb pure ts = true -> fst (go_list d ts s1) = fst (go_list d ts s2).
Proof.
  intros ts HF. induction HF as [|t ts Ht HF IH]; intros d s1 s2 Hp.
  - reflexivity.
  - rewrite !go_list_cons. cbn [forallb] in Hp. apply andb_true_iff in Hp.
    destruct Hp as [Hpt Hpts].
    pose proof (Ht s1 s2 d Hpt) as Hfst.
    destruct (run t s1 d) as [r1 s1'] eqn:Hr1. destruct (run t s2 d) as [r2 s2'] eqn:Hr2.
    cbn [fst] in Hfst. subst r2.
    destruct r1 as [d1|e]; [|reflexivity].
    pose proof (IH d s1' s2' Hpts) as Hfst2.
    destruct (go_list d ts s1') as [q1 s1''] eqn:Hg1.
    destruct (go_list d ts s2') as [q2 s2''] eqn:Hg2.
    cbn [fst] in Hfst2. subst q2.
    destruct q1 as [ds|e]; reflexivity.
Qed.

Lemma pure_indep : forall t s1 s2 d, pure t = true -> fst (run t s1 d) = fst (run t s2 d).
Proof.
  intros t. change (store_indep t).
  induction t using tr_ind'; unfold store_indep; intros s1 s2 d Hp;
    rewrite !run_eq; (destruct (negb _); [reflexivity|]);
    cbn [run_body]; try discriminate Hp; try reflexivity.
  - (* TStack *)
    cbn [pure] in Hp. pose proof (go_list_indep ts H d s1 s2 Hp) as Hfst.
    destruct (go_list d ts s1) as [q1 s1'] eqn:Hg1.
    destruct (go_list d ts s2) as [q2 s2'] eqn:Hg2.
    cbn [fst] in Hfst. subst q2. destruct q1 as [ds|e]; reflexivity.
  - (* TConj *)
    cbn [pure] in Hp. pose proof (go_list_indep ts H d s1 s2 Hp) as Hfst.
    destruct (go_list d ts s1) as [q1 s1'] eqn:Hg1.
    destruct (go_list d ts s2) as [q2 s2'] eqn:Hg2.
    cbn [fst] in Hfst. subst q2. destruct q1 as [ds|e]; reflexivity.
  - (* TComp *)
    cbn [pure] in Hp. apply andb_true_iff in Hp. destruct Hp as [Hp1 Hp2].
    pose proof (IHt2 s1 s2 d Hp2) as Hfst.
    destruct (run t2 s1 d) as [r1 s1'] eqn:Hr1. destruct (run t2 s2 d) as [r2 s2'] eqn:Hr2.
    cbn [fst] in Hfst. subst r2.
    destruct r1 as [d1|e]; [|reflexivity].
    apply (IHt1 s1' s2' d1 Hp1).
Qed.

Lemma conj_comm_wf : forall a b, wf (TConj [a; b]) = wf (TConj [b; a]).
Proof.
  intros a b. apply eq_true_iff_eq. rewrite !conj_iff. split.
  - intros [HF [Hreq Hnd]]. split; [|split].
    + inversion HF as [|x l Ha HF']. subst. inversion HF' as [|y l' Hb _]. subst.
      constructor; [exact Hb|]. constructor; [exact Ha|]. constructor.
    + intros t1 t2 H1 H2. apply Hreq.
      * cbn in *. tauto.
      * cbn in *. tauto.
    + cbn [flat_map] in *. rewrite app_nil_r in *.
      apply (Permutation_NoDup (Permutation_app_comm _ _) Hnd).
  - intros [HF [Hreq Hnd]]. split; [|split].
    + inversion HF as [|x l Ha HF']. subst. inversion HF' as [|y l' Hb _]. subst.
      constructor; [exact Hb|]. constructor; [exact Ha|]. constructor.
    + intros t1 t2 H1 H2. apply Hreq.
      * cbn in *. tauto.
      * cbn in *. tauto.
    + cbn [flat_map] in *. rewrite app_nil_r in *.
      apply (Permutation_NoDup (Permutation_app_comm _ _) Hnd).
Qed.

Lemma forallb_perm : forall {X} (f : X -> bool) l l',
  Permutation l l' -> forallb f l = forallb f l'.
Proof.
  intros X f l l' HP. induction HP as [|x l l' HP IH|x y l|l l' l'' HP1 IH1 HP2 IH2]; cbn [forallb].
  - reflexivity.
  - rewrite IH. reflexivity.
  - destruct (f x), (f y); reflexivity.
  - rewrite IH1. exact IH2.
Qed.

Lemma all_same_perm : forall l l', Permutation l l' -> all_same l = all_same l'.
Proof.
  intros l l' HP. induction HP as [|x l l' HP IH|x y l|l l' l'' HP1 IH1 HP2 IH2].
  - reflexivity.
  - cbn [all_same]. apply forallb_perm. exact HP.
  - cbn [all_same forallb]. destruct (Nat.eqb y x) eqn:E.
    + apply Nat.eqb_eq in E. subst y. rewrite Nat.eqb_refl. reflexivity.
    + rewrite Nat.eqb_sym, E. reflexivity.
  - rewrite IH1. exact IH2.
Qed.

Lemma is_nil_perm : forall {X} (l l' : list X),
  Permutation l l' ->
  match l with [] => true | _ => false end = match l' with [] => true | _ => false end.
Proof.
  intros X l l' HP. destruct l as [|x l]; destruct l' as [|y l']; try reflexivity.
  - apply Permutation_nil in HP. discriminate HP.
  - apply Permutation_sym, Permutation_nil in HP. discriminate HP.
Qed.

Lemma shapes_ok_perm : forall k l l', Permutation l l' -> shapes_ok k l = shapes_ok k l'.
Proof.
  intros k l l' HP. unfold shapes_ok. f_equal.
  - pose proof (Permutation_map snd HP) as HPs.
    unfold check_dict. destruct k; try reflexivity.
    + apply is_nil_perm. exact HPs.
    + f_equal; [apply forallb_perm; exact HPs|].
      apply all_same_perm. apply Permutation_map. exact HPs.
    + f_equal; [apply forallb_perm; exact HPs|].
      apply all_same_perm. apply Permutation_map. exact HPs.
  - apply forallb_perm. exact HP.
Qed.

Lemma assoc_app : forall {X} k (x y : list (nat * X)),
  assoc k (x ++ y) = match assoc k x with Some v => Some v | None => assoc k y end.
Proof.
  intros X k x y. induction x as [|[k' v] x IH]; cbn [app assoc]; [reflexivity|].
  destruct (k =? k'); [reflexivity | exact IH].
Qed.

Lemma assoc_Some_In : forall {X} k (x : list (nat * X)) v,
  assoc k x = Some v -> In k (map fst x).
Proof.
  intros X k x v. induction x as [|[k' v'] x IH]; cbn [assoc map fst]; intros H; [discriminate H|].
  destruct (k =? k') eqn:E.
  - apply Nat.eqb_eq in E. left. symmetry. exact E.
  - right. apply IH. exact H.
Qed.

Lemma NoDup_app_disjoint : forall {X} (x y : list X) k,
  NoDup (x ++ y) -> In k x -> In k y -> False.
Proof.
  intros X x y k. induction x as [|a x IH]; cbn [app]; intros Hnd Hx Hy; [destruct Hx|].
  inversion Hnd as [|a' l Hnotin Hnd']. subst. destruct Hx as [Hx|Hx].
  - subst a. apply Hnotin. apply in_or_app. right. exact Hy.
  - apply (IH Hnd' Hx Hy).
Qed.

Lemma conj_comm : forall a b s d da s',
  pure a = true -> pure b = true -> wf (TConj [a; b]) = true ->
  run (TConj [a; b]) s d = (Ok da, s') ->
  exists db, run (TConj [b; a]) s d = (Ok db, s') /\ dict_equiv da db.
Proof.
  intros a b s d da s' Hpa Hpb Hwf Hrun.
  apply run_ok_body in Hrun. destruct Hrun as [Hkeys Hrun]. cbn [run_body] in Hrun.
  rewrite go_list_cons in Hrun.
  destruct (run a s d) as [[d1|e] s1] eqn:Ha; [|discriminate Hrun].
  pose proof (pure_store a s d (Ok d1) s1 Hpa Ha) as Hs1. subst s1.
  rewrite go_list_cons in Hrun.
  destruct (run b s d) as [[d2|e] s2] eqn:Hb; [|discriminate Hrun].
  pose proof (pure_store b s d (Ok d2) s2 Hpb Hb) as Hs2. subst s2.
  rewrite go_list_nil in Hrun.
  injection Hrun as Hu Hs. subst s'.
  apply conj_iff in Hwf. destruct Hwf as [HF [_ Hnd]].
  inversion HF as [|x l Hwfa HF']. subst. inversion HF' as [|y l' Hwfb _]. subst.
  destruct (output_typed a s d d1 s Hwfa Ha) as [Hk1 _].
  destruct (output_typed b s d d2 s Hwfb Hb) as [Hk2 _].
  cbn [flat_map] in Hnd. rewrite app_nil_r in Hnd.
  unfold union_dicts in Hu. cbn [fold_left flat_map] in Hu. rewrite app_nil_r in Hu.
  unfold mk_dict in Hu.
  destruct (shapes_ok _ _) eqn:Hsh in Hu; [|discriminate Hu].
  injection Hu as Hu. subst da.
  rewrite run_eq.
  assert (Hkeys' : set_eqb (dkeys d) (required_keys (TConj [b; a])) = true).
  { rewrite <- Hkeys. apply set_eqb_congr_r. intros k. cbn [required_keys].
    rewrite !dedup_In. cbn [flat_map]. rewrite !app_nil_r, !in_app_iff. tauto. }
  rewrite Hkeys'. cbn [negb run_body].
  rewrite go_list_cons, Hb, go_list_cons, Ha, go_list_nil.
  unfold union_dicts. cbn [fold_left flat_map]. rewrite app_nil_r.
  unfold mk_dict.
  assert (Hlca : lca (lca KEmpty (dk d2)) (dk d1) = lca (lca KEmpty (dk d1)) (dk d2)).
  { cbn [lca]. apply lca_comm. }
  rewrite Hlca.
  rewrite (shapes_ok_perm _ _ _
             (Permutation_map (fun kv => (p_shape P (fst kv), full_shape (snd kv)))
                (Permutation_app_comm (ditems d2) (ditems d1)))).
  rewrite Hsh.
  eexists. split; [reflexivity|]. split; [reflexivity|].
  intros k. unfold dget. cbn [ditems]. rewrite !assoc_app.
  destruct (assoc k (ditems d1)) as [v1|] eqn:E1; destruct (assoc k (ditems d2)) as [v2|] eqn:E2;
    try reflexivity.
  exfalso. apply assoc_Some_In in E1. apply assoc_Some_In in E2.
  apply (NoDup_app_disjoint (output_keys a) (output_keys b) k Hnd).
  - apply Hk1. exact E1.
  - apply Hk2. exact E2.
Qed.

End C14.

Print Assumptions output_typed.
Print Assumptions comp_assoc_run.
Print Assumptions conj_iff.
Print Assumptions compose_iff.
Print Assumptions key_check.
Print Assumptions conj_comm.
Print Assumptions pure_store.
