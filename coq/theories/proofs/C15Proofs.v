From Coq Require Import Reals List Bool Arith Lia Lra Permutation.
From TJ Require Import Num Linalg NumR Chunk Autojac.
From TJ.proofs Require Import LinalgR ChunkProofs AutojacBasics AutojacSpec EntrySpec C20Proofs C01Proofs.
Import ListNotations.
Local Open Scope R_scope.
(* C15Proofs.v — every building-block transform computes its specified linear map:
   Init, Select, Diagonalize, Stack (any number type); Grad, Jac, Aggregate and the algebra of the
   vector-Jacobian product (linearity, chain rule over a cut) at the reals. *)

(* ---------- generic helpers ---------- *)
Lemma c15_dedup_In (x : nat) (l : list nat) : In x (dedup l) <-> In x l.
Proof. unfold dedup. apply nodup_In. Qed.

Lemma c15_nth_map_nth_error {X Y} (g : X -> Y) (l : list X) j x d :
  nth_error l j = Some x -> nth j (map g l) d = g x.
Proof.
  revert j; induction l as [|y l IH]; intros j Hj; [destruct j; discriminate|].
  destruct j as [|j]; cbn in Hj |- *; [inversion Hj; reflexivity | apply IH; exact Hj].
Qed.

Lemma c15_assoc_map_val {X Y} (g : nat -> X -> Y) (l : list (nat * X)) k :
  assoc k (map (fun kv => (fst kv, g (fst kv) (snd kv))) l) = option_map (g k) (assoc k l).
Proof.
  induction l as [|[k' v] l IH]; [reflexivity|].
  cbn [map assoc fst snd]. destruct (Nat.eqb_spec k k') as [->|Hne]; [reflexivity | exact IH].
Qed.

Lemma c15_assoc_in_keys {X} (l : list (nat * X)) k :
  In k (map fst l) -> exists v, assoc k l = Some v.
Proof.
  induction l as [|[k' v] l IH]; intros H; [contradiction|].
  cbn [assoc]. destruct (Nat.eqb_spec k k') as [->|Hne]; [exists v; reflexivity|].
  apply IH. destruct H as [H|H]; [cbn in H; congruence | exact H].
Qed.

(* ================= PART 1: any number type ================= *)
Section C15gen.
Context {T : Type} (N : Num T) (P : prog T) (A : list (list T) -> res (list T)).

(* Init yields ones, of each value's shape, for exactly the given keys *)
Lemma init_ones : forall vals s d d' s',
  run N P A (TInit vals) s d = (Ok d', s') ->
  s' = s /\ dk d' = KGradients /\
  (forall v, In v vals -> dget d' v = Some (plain (p_shape P v) (vones N (pnumel P v)))) /\
  (forall v, ~ In v vals -> dget d' v = None).
Proof.
  intros vals s d d' s' H. apply run_init_inv in H. destruct H as [-> ->].
  split; [reflexivity|]. split; [reflexivity|]. split.
  - intros v Hv. unfold dget. cbn [ditems].
    apply (assoc_map_key (fun v0 => plain (p_shape P v0) (vones N (pnumel P v0)))).
    apply c15_dedup_In. exact Hv.
  - intros v Hv. unfold dget. cbn [ditems].
    apply (assoc_map_key_none (fun v0 => plain (p_shape P v0) (vones N (pnumel P v0)))).
    intros Hin. apply Hv. apply c15_dedup_In. exact Hin.
Qed.

Lemma select_spec : forall keys req s d d' s',
  run N P A (TSelect keys req) s d = (Ok d', s') ->
  s' = s /\ dk d' = dk d /\
  (forall k, In k keys -> dget d' k = Some (dget' d k)) /\
  (forall k, ~ In k keys -> dget d' k = None).
Proof.
  intros keys req s d d' s' H. apply run_select_inv in H. destruct H as [-> ->].
  split; [reflexivity|]. split; [reflexivity|]. split.
  - intros k Hk. unfold dget at 1. cbn [ditems].
    apply (assoc_map_key (fun k0 => dget' d k0)). apply c15_dedup_In. exact Hk.
  - intros k Hk. unfold dget. cbn [ditems].
    apply (assoc_map_key_none (fun k0 => dget' d k0)).
    intros Hin. apply Hk. apply c15_dedup_In. exact Hin.
Qed.

(* Diagonalize: one row per scalar of the considered keys, in key order; row r holds the r-th
   scalar of the flattened input at position r and zeros elsewhere; key number j receives its own
   columns (offsets accumulate over the key order) *)
Lemma diag_spec : forall c s d d' s',
  NoDup c -> run N P A (TDiag c) s d = (Ok d', s') ->
  let flatv := concat (map (fun k => flat (dget' d k)) c) in
  s' = s /\ dk d' = KJacobians /\
  forall j k, nth_error c j = Some k ->
    dget d' k = Some (mkTens true (p_shape P k)
      (map (fun r => nth j (split_by (map (pnumel P) c)
                                     (onehot N (length flatv) r (nth r flatv (n0 N)))) [])
           (seq 0 (length flatv)))).
Proof.
  intros c s d d' s' Hnd H flatv.
  apply run_diag_inv in H. destruct H as (-> & _ & Hd). cbv zeta in Hd. fold flatv in Hd.
  split; [reflexivity|]. split; [subst d'; reflexivity|].
  intros j k Hj. subst d'. unfold dget. cbn [ditems].
  etransitivity; [apply (assoc_indexed _ c O k j Hnd Hj)|].
  cbn [fst snd Nat.add]. rewrite map_map. reflexivity.
Qed.

(* Stack: row i of every key comes from member i (zeros when member i lacks the key); keys = union *)
Lemma stack_spec : forall ts s d d' s',
  run N P A (TStack ts) s d = (Ok d', s') ->
  exists ds, run_list N P A d ts s = (Ok ds, s') /\ dk d' = KJacobians /\
    (forall k, In k (flat_map dkeys ds) ->
       dget d' k = Some (mkTens true (p_shape P k)
                     (map (fun di => match dget di k with
                                     | Some v => flat v | None => vzero N (pnumel P k) end) ds))) /\
    (forall k, ~ In k (flat_map dkeys ds) -> dget d' k = None).
Proof.
  intros ts s d d' s' H. rewrite run_stack_eq in H.
  destruct (negb _); [discriminate|].
  destruct (run_list N P A d ts s) as [[ds|e] s1] eqn:EL; [|discriminate].
  inversion H as [[H1 H2]]. exists ds. split; [reflexivity|].
  unfold stack_dicts in H1. apply mk_dict_ok in H1. subst d'.
  split; [reflexivity|]. split.
  - intros k Hk. unfold dget at 1. cbn [ditems].
    apply (assoc_map_key (fun k0 => mkTens true (p_shape P k0)
             (map (fun di => match dget di k0 with
                             | Some v => flat v | None => vzero N (pnumel P k0) end) ds))).
    apply c15_dedup_In. exact Hk.
  - intros k Hk. unfold dget at 1. cbn [ditems].
    apply (assoc_map_key_none (fun k0 => mkTens true (p_shape P k0)
             (map (fun di => match dget di k0 with
                             | Some v => flat v | None => vzero N (pnumel P k0) end) ds))).
    intros Hin. apply Hk. apply c15_dedup_In. exact Hin.
Qed.
End C15gen.

(* ================= PART 2: the reals ================= *)
(* ---------- vector identities ---------- *)
Lemma c15_vadd_lin4 a b : forall X Y U V : list R,
  length Y = length X -> length U = length X -> length V = length X ->
  vaddR (vaddR (vscaleR a X) (vscaleR b Y)) (vaddR (vscaleR a U) (vscaleR b V))
  = vaddR (vscaleR a (vaddR X U)) (vscaleR b (vaddR Y V)).
Proof.
  unfold vscale.
  induction X as [|x X IH]; intros [|y Y] [|u U] [|v V] HY HU HV; cbn [length] in HY, HU, HV;
    try lia; [reflexivity|].
  cbn [map vadd]. rewrite IH by lia. rn. f_equal. lra.
Qed.

Lemma c15_vadd4 : forall X Y U V : list R,
  length Y = length X -> length U = length X -> length V = length X ->
  vaddR (vaddR X Y) (vaddR U V) = vaddR (vaddR X U) (vaddR Y V).
Proof.
  induction X as [|x X IH]; intros [|y Y] [|u U] [|v V] HY HU HV; cbn [length] in HY, HU, HV;
    try lia; [reflexivity|].
  cbn [vadd]. rewrite IH by lia. rn. f_equal. lra.
Qed.

Lemma c15_vadd_scale4 x : forall r q U V : list R,
  length q = length r -> length U = length r -> length V = length r ->
  vaddR (vscaleR x (vaddR r q)) (vaddR U V)
  = vaddR (vaddR (vscaleR x r) U) (vaddR (vscaleR x q) V).
Proof.
  unfold vscale.
  induction r as [|z r IH]; intros [|y q] [|u U] [|v V] Hq HU HV; cbn [length] in Hq, HU, HV;
    try lia; [reflexivity|].
  cbn [map vadd]. rewrite IH by lia. rn. f_equal. lra.
Qed.

Lemma c15_wfmat_repeat n m : wfmat n (repeat (vzeroR n) m).
Proof.
  unfold wfmat. apply Forall_forall. intros x Hx. apply repeat_spec in Hx. subst x.
  apply length_vzero.
Qed.

Lemma c15_zero_rows_repeat n m : Forall (fun row => row = vzeroR n) (repeat (vzeroR n) m).
Proof. apply Forall_forall. intros x Hx. apply repeat_spec in Hx. exact Hx. Qed.

(* (c . X) . Y = c . (X Y) *)
Lemma c15_vm_assoc n k : forall c X Y, wfmat k X -> wfmat n Y ->
  vmR n (vmR k c X) Y = vmR n c (mmul RN n X Y).
Proof.
  unfold mmul.
  induction c as [|x c IH]; intros X Y HX HY.
  - cbn [vm]. apply vm_vzero. exact HY.
  - destruct X as [|r X].
    + cbn [vm map]. apply vm_vzero. exact HY.
    + apply Forall_cons_iff in HX. destruct HX as [Hr HX]. cbn [vm map].
      rewrite vm_vadd;
        [| exact HY | rewrite length_vscale, length_vm by exact HX; exact Hr].
      rewrite vm_vscale by exact HY. rewrite IH by assumption. reflexivity.
Qed.

Section C15R.
Variable P : prog R.
Variable A : list (list R) -> res (list R).

Lemma c15_length_vjp outs : forall cots i, wf_prog P ->
  length (vjp RN P outs cots i) = pnumel P i.
Proof.
  induction outs as [|o outs IH]; intros cots i Hwf.
  - unfold vjp. cbn [combine fold_right]. apply length_vzero.
  - destruct cots as [|c cots]; [unfold vjp; cbn [combine fold_right]; apply length_vzero|].
    rewrite vjp_cons. pose proof Hwf as [Hdim _]. destruct (Hdim o i) as [_ HM].
    rewrite length_vadd; rewrite length_vm by exact HM; [reflexivity|].
    symmetry. apply IH. exact Hwf.
Qed.

(* Grad returns, for each input, the vector-Jacobian product of the given cotangents *)
Lemma grad_is_vjp : forall outs ins retain s d d' s',
  wf_prog P -> outs <> [] ->
  (forall o, In o outs -> length (flat (dget' d o)) = pnumel P o) ->
  run RN P A (TGrad outs ins retain) s d = (Ok d', s') ->
  dk d' = dk d /\
  forall i, In i ins ->
    dget d' i = Some (plain (p_shape P i) (vjp RN P outs (map (fun o => flat (dget' d o)) outs) i)).
Proof.
  intros outs ins retain s d d' s' Hwf Ho Hlen H.
  cbn [run] in H. destruct (negb _); [discriminate|]. unfold grad_compute in H.
  destruct ins as [|i0 ins].
  - inversion H as [[H1 H2]]. apply mk_dict_ok in H1. subst d'. split; [reflexivity|].
    intros i [].
  - destruct outs as [|o0 outs]; [congruence|].
    destruct (ag_sweep P s (o0 :: outs) (i0 :: ins) 1 false retain) as [[u|e] s1]; [|discriminate].
    inversion H as [[H1 H2]]. apply mk_dict_ok in H1. subst d'. split; [reflexivity|].
    intros i Hi. unfold dget. cbn [ditems].
    etransitivity;
      [apply (assoc_map_key
                (fun i1 => plain (p_shape P i1)
                   (materialize RN P i1
                      (ag_value RN P (o0 :: outs)
                         (map (fun o => flat (dget' d o)) (o0 :: outs)) i1))) (i0 :: ins) i Hi)|].
    cbv beta. rewrite materialize_vjp by exact Hwf. reflexivity.
Qed.

(* ... zeros for an input that no output reaches *)
Lemma vjp_unreachable_zero : forall outs cots i,
  wf_prog P -> (forall o, In o outs -> p_reach P o i = false) ->
  vjp RN P outs cots i = vzeroR (pnumel P i).
Proof. intros outs cots i Hwf Hun. apply vjp_unreach; assumption. Qed.

(* Jac returns the same for every row of a batch of cotangents: row r = Grad of row r, for EVERY
   chunk size *)
Lemma jac_rows : forall outs ins k retain s d d' s' m,
  wf_prog P -> outs <> [] -> NoDup ins -> valid_chunk k = true -> (1 <= m)%nat ->
  (forall o, In o outs -> nrows (dget' d o) = m /\
                          Forall (fun row => length row = pnumel P o) (t_rows (dget' d o))) ->
  run RN P A (TJac outs ins k retain) s d = (Ok d', s') ->
  dk d' = dk d /\
  forall i, In i ins ->
    dget d' i = Some (mkTens true (p_shape P i)
      (map (fun r => vjp RN P outs (map (fun o => nth r (t_rows (dget' d o)) []) outs) i) (seq 0 m))).
Proof.
  intros outs ins k retain s d d' s' m Hwf Ho Hnd Hk Hm Hrows H.
  assert (Hcase : ins = [] \/ ins <> [])
    by (destruct ins; [left; reflexivity | right; discriminate]).
  destruct Hcase as [->|Hi].
  - cbn [run] in H. destruct (negb _); [discriminate|]. unfold jac_compute in H.
    inversion H as [[H1 H2]]. apply mk_dict_ok in H1. subst d'. split; [reflexivity|].
    intros i [].
  - apply run_jac_inv in H; [|exact Ho|exact Hi]. destruct H as (matrix & Hj & Hd).
    assert (Hm0 : nrows (dget' d (hd O outs)) = m).
    { destruct outs as [|o0 outs']; [congruence|]. cbn [hd]. apply Hrows. left. reflexivity. }
    rewrite Hm0 in Hj. apply jac_chunks_ok in Hj. destruct Hj as [HM _].
    rewrite run_plan_rows in HM by assumption.
    subst d'. split; [reflexivity|].
    intros i Hin. apply In_nth_error in Hin. destruct Hin as [j Hj].
    unfold dget. cbn [ditems].
    etransitivity; [apply (assoc_indexed _ ins O i j Hnd Hj)|].
    cbn [fst snd Nat.add]. f_equal. f_equal. subst matrix. rewrite !map_map.
    apply map_ext_in. intros r Hr. unfold jac_row.
    rewrite split_by_concat'.
    + rewrite (c15_nth_map_nth_error _ ins j i [] Hj).
      apply materialize_vjp. exact Hwf.
    + rewrite map_map. apply map_ext. intros i1. rewrite materialize_vjp by exact Hwf.
      apply c15_length_vjp. exact Hwf.
Qed.

(* the VJP is linear in the cotangents *)
Lemma vjp_linear : forall outs c1 c2 a b i,
  wf_prog P -> length c1 = length outs -> length c2 = length outs ->
  (forall j o, nth_error outs j = Some o ->
     length (nth j c1 []) = pnumel P o /\ length (nth j c2 []) = pnumel P o) ->
  vjp RN P outs (map (fun cc => vaddR (vscaleR a (fst cc)) (vscaleR b (snd cc))) (combine c1 c2)) i
  = vaddR (vscaleR a (vjp RN P outs c1 i)) (vscaleR b (vjp RN P outs c2 i)).
Proof.
  induction outs as [|o outs IH]; intros c1 c2 a b i Hwf H1 H2 Hl.
  - destruct c1 as [|x c1]; [|discriminate]. destruct c2 as [|y c2]; [|discriminate].
    unfold vjp. cbn [combine map fold_right].
    rewrite !vscale_vzero, vadd_vzero_vzero. reflexivity.
  - destruct c1 as [|x c1]; [discriminate|]. destruct c2 as [|y c2]; [discriminate|].
    cbn [length] in H1, H2.
    cbn [combine map fst snd]. rewrite !vjp_cons.
    destruct (Hl O o eq_refl) as [Hx Hy]. cbn [nth] in Hx, Hy.
    pose proof Hwf as [Hdim _]. destruct (Hdim o i) as [HlD HM].
    rewrite IH;
      [| exact Hwf | lia | lia | intros j o' Hj; apply (Hl (S j) o' Hj)].
    rewrite vm_vadd by (try exact HM; rewrite !length_vscale; congruence).
    rewrite !vm_vscale by exact HM.
    apply c15_vadd_lin4; rewrite ?length_vm by exact HM; rewrite ?c15_length_vjp by exact Hwf;
      reflexivity.
Qed.

(* chaining through intermediate tensors equals differentiating end to end, whenever the
   intermediate tensors form a cut:  D o i = sum_f D o f * D f i *)
Definition madd (X Y : list (list R)) : list (list R) :=
  map (fun xy => vaddR (fst xy) (snd xy)) (combine X Y).
Definition is_cut (outs mid : list tid) (i : tid) : Prop :=
  forall o, In o outs ->
    p_D P o i = fold_right (fun f acc => madd (mmul RN (pnumel P i) (p_D P o f) (p_D P f i)) acc)
                           (repeat (vzeroR (pnumel P i)) (pnumel P o)) mid.

Lemma c15_length_madd : forall X Y, length X = length Y -> length (madd X Y) = length X.
Proof.
  intros X Y H. unfold madd. rewrite map_length, combine_length. lia.
Qed.

Lemma c15_wfmat_madd n : forall X Y, wfmat n X -> wfmat n Y -> wfmat n (madd X Y).
Proof.
  unfold wfmat, madd.
  induction X as [|r X IH]; intros [|q Y] HX HY; cbn [combine map]; try constructor.
  - apply Forall_cons_iff in HX. apply Forall_cons_iff in HY. cbn [fst snd].
    destruct HX as [Hr _]. destruct HY as [Hq _].
    rewrite length_vadd; [exact Hr | rewrite Hr, Hq; reflexivity].
  - apply Forall_cons_iff in HX. apply Forall_cons_iff in HY.
    destruct HX as [_ HX]. destruct HY as [_ HY]. apply IH; assumption.
Qed.

Lemma c15_vm_madd n : forall c X Y, wfmat n X -> wfmat n Y -> length X = length Y ->
  vmR n c (madd X Y) = vaddR (vmR n c X) (vmR n c Y).
Proof.
  induction c as [|x c IH]; intros X Y HX HY Hl.
  - cbn [vm]. symmetry. apply vadd_vzero_vzero.
  - destruct X as [|r X]; destruct Y as [|q Y]; try discriminate.
    + unfold madd. cbn [combine map vm]. symmetry. apply vadd_vzero_vzero.
    + apply Forall_cons_iff in HX. destruct HX as [Hr HX].
      apply Forall_cons_iff in HY. destruct HY as [Hq HY].
      unfold madd. cbn [combine map fst snd vm]. fold (madd X Y).
      rewrite IH by (try assumption; cbn [length] in Hl; lia).
      apply c15_vadd_scale4; rewrite ?length_vm by assumption; congruence.
Qed.

Definition c15_cutsum (o i : tid) (mid : list tid) : list (list R) :=
  fold_right (fun f acc => madd (mmul RN (pnumel P i) (p_D P o f) (p_D P f i)) acc)
             (repeat (vzeroR (pnumel P i)) (pnumel P o)) mid.

Lemma c15_cutsum_wf o i mid : wf_prog P ->
  length (c15_cutsum o i mid) = pnumel P o /\ wfmat (pnumel P i) (c15_cutsum o i mid).
Proof.
  intros Hwf. pose proof Hwf as [Hdim _].
  induction mid as [|f mid IH]; unfold c15_cutsum; cbn [fold_right].
  - split; [apply repeat_length | apply c15_wfmat_repeat].
  - fold (c15_cutsum o i mid). destruct IH as [IHl IHw].
    destruct (Hdim o f) as [HlD _]. destruct (Hdim f i) as [_ HMf].
    assert (Hlm : length (mmul RN (pnumel P i) (p_D P o f) (p_D P f i)) = pnumel P o)
      by (unfold mmul; rewrite map_length; exact HlD).
    split.
    + rewrite c15_length_madd; [exact Hlm | congruence].
    + apply c15_wfmat_madd; [|exact IHw].
      unfold wfmat, mmul. apply Forall_forall. intros row Hrow. apply in_map_iff in Hrow.
      destruct Hrow as (r & <- & _). apply length_vm. exact HMf.
Qed.

(* pulling one cotangent through the cut *)
Lemma c15_chain_one c o i : forall mid, wf_prog P ->
  vjp RN P mid (map (fun f => vmR (pnumel P f) c (p_D P o f)) mid) i
  = vmR (pnumel P i) c (c15_cutsum o i mid).
Proof.
  induction mid as [|f mid IH]; intros Hwf.
  - unfold vjp, c15_cutsum. cbn [map combine fold_right]. symmetry.
    apply vm_zero_rows. apply c15_zero_rows_repeat.
  - cbn [map]. rewrite vjp_cons, IH by exact Hwf.
    unfold c15_cutsum at 2. cbn [fold_right]. fold (c15_cutsum o i mid).
    pose proof Hwf as [Hdim _].
    destruct (Hdim o f) as [HlD HMof]. destruct (Hdim f i) as [_ HMfi].
    destruct (c15_cutsum_wf o i mid Hwf) as [Hcl Hcw].
    rewrite c15_vm_madd.
    + rewrite (c15_vm_assoc _ _ c _ _ HMof HMfi). reflexivity.
    + unfold wfmat, mmul. apply Forall_forall. intros row Hrow. apply in_map_iff in Hrow.
      destruct Hrow as (r & <- & _). apply length_vm. exact HMfi.
    + exact Hcw.
    + unfold mmul. rewrite map_length. congruence.
Qed.

Lemma c15_vjp_add_map i (V1 V2 : tid -> list R) : forall mid, wf_prog P ->
  (forall f, length (V1 f) = length (V2 f)) ->
  vjp RN P mid (map (fun f => vaddR (V1 f) (V2 f)) mid) i
  = vaddR (vjp RN P mid (map V1 mid) i) (vjp RN P mid (map V2 mid) i).
Proof.
  induction mid as [|f mid IH]; intros Hwf HV.
  - unfold vjp. cbn [map combine fold_right]. symmetry. apply vadd_vzero_vzero.
  - cbn [map]. rewrite !vjp_cons. rewrite IH by assumption.
    pose proof Hwf as [Hdim _]. destruct (Hdim f i) as [_ HM].
    rewrite vm_vadd by (try exact HM; apply HV).
    apply c15_vadd4; rewrite ?length_vm by exact HM; rewrite ?c15_length_vjp by exact Hwf;
      reflexivity.
Qed.

Lemma c15_vjp_zero_map i : forall mid, wf_prog P ->
  vjp RN P mid (map (fun f => vzeroR (pnumel P f)) mid) i = vzeroR (pnumel P i).
Proof.
  induction mid as [|f mid IH]; intros Hwf; [reflexivity|].
  cbn [map]. rewrite vjp_cons, IH by exact Hwf.
  pose proof Hwf as [Hdim _]. destruct (Hdim f i) as [_ HM].
  rewrite vm_vzero by exact HM. apply vadd_vzero_vzero.
Qed.

Lemma vjp_chain : forall outs mid i cots,
  wf_prog P -> length cots = length outs ->
  (forall j o, nth_error outs j = Some o -> length (nth j cots []) = pnumel P o) ->
  is_cut outs mid i ->
  vjp RN P mid (map (fun f => vjp RN P outs cots f) mid) i = vjp RN P outs cots i.
Proof.
  induction outs as [|o outs IH]; intros mid i cots Hwf Hlen Hl Hcut.
  - destruct cots as [|c cots]; [|discriminate].
    change (map (fun f => vjp RN P [] [] f) mid) with (map (fun f => vzeroR (pnumel P f)) mid).
    rewrite c15_vjp_zero_map by exact Hwf. reflexivity.
  - destruct cots as [|c cots]; [discriminate|]. cbn [length] in Hlen.
    change (map (fun f => vjp RN P (o :: outs) (c :: cots) f) mid)
      with (map (fun f => vaddR (vmR (pnumel P f) c (p_D P o f)) (vjp RN P outs cots f)) mid).
    rewrite c15_vjp_add_map.
    + rewrite c15_chain_one by exact Hwf.
      rewrite IH.
      * rewrite vjp_cons. f_equal. f_equal. symmetry. apply (Hcut o). left. reflexivity.
      * exact Hwf.
      * lia.
      * intros j o' Hj. apply (Hl (S j) o' Hj).
      * intros o' Ho'. apply Hcut. right. exact Ho'.
    + exact Hwf.
    + intros f. pose proof Hwf as [Hdim _]. destruct (Hdim o f) as [_ HM].
      rewrite length_vm by exact HM. rewrite c15_length_vjp by exact Hwf. reflexivity.
Qed.

(* Aggregate applies the aggregator to the column-wise concatenation (in key order) of the per-key
   matrices and returns each key its own reshaped slice *)
Lemma c15_assoc_slice (G : nat -> list R -> @tens R) : forall ord v k, In k ord ->
  assoc k (map (fun kp => (fst kp, G (fst kp) (snd kp)))
               (combine ord (split_by (map (pnumel P) ord) v)))
  = Some (G k (slice_of P ord v k)).
Proof.
  induction ord as [|x ord IH]; intros v k Hk; [contradiction|].
  cbn [map split_by combine assoc fst snd]. unfold slice_of. cbn [offset].
  destruct (Nat.eqb_spec k x) as [->|Hne].
  - rewrite Nat.eqb_refl. reflexivity.
  - destruct (Nat.eqb_spec x k) as [E|_]; [congruence|].
    destruct Hk as [Hk|Hk]; [congruence|].
    rewrite (IH (skipn (pnumel P x) v) k Hk). unfold slice_of. rewrite skipn_add. reflexivity.
Qed.

Lemma aggregate_spec : forall ord s d d' s',
  ord <> [] -> NoDup ord ->
  (forall k, In k ord -> numel (t_trail (dget' d k)) = pnumel P k) ->
  run RN P A (TAggregate ord) s d = (Ok d', s') ->
  s' = s /\ dk d' = KGradients /\
  exists v,
    A (map (fun r => concat (map (fun k => nth r (t_rows (dget' d k)) []) ord))
           (seq 0 (nrows (dget' d (hd O ord))))) = Ok v /\
    length v = total P ord /\
    forall k, In k ord -> dget d' k = Some (plain (p_shape P k) (slice_of P ord v k)).
Proof.
  intros ord s d d' s' Hne Hnd Htr H. unfold TAggregate in H.
  apply run_comp_inv in H. destruct H as (d4 & s4 & H & Hre).
  apply run_comp_inv in H. destruct H as (d3 & s3 & Hma & Hag).
  pose proof (run_keys_ok RN P A _ _ _ _ _ Hma) as Hkeys. cbn [required_keys] in Hkeys.
  apply run_matrixify_inv in Hma. destruct Hma as [-> Hd3].
  apply run_aggmat_inv in Hag. destruct Hag as [-> [[He _] | (_ & v & HA & Hrest)]]; [congruence|].
  cbv zeta in Hrest. destruct Hrest as [Hlen Hd4].
  apply run_reshape_inv in Hre. destruct Hre as [-> Hd5].
  (* every key of ord is bound in d *)
  assert (Hin : forall k, In k ord -> exists t, dget d k = Some t).
  { intros k Hk. unfold dget. apply c15_assoc_in_keys. fold (dkeys d).
    unfold set_eqb in Hkeys. apply andb_true_iff in Hkeys. destruct Hkeys as [_ Hsub].
    unfold subsetb in Hsub. rewrite forallb_forall in Hsub.
    apply mem_In. apply Hsub. apply c15_dedup_In. exact Hk. }
  assert (Hget3 : forall k, dget d3 k
            = option_map (fun t => mkTens true [numel (t_trail t)] (t_rows t)) (dget d k)).
  { intros k. rewrite Hd3. unfold dget. cbn [ditems].
    apply (c15_assoc_map_val (fun _ t => mkTens true [numel (t_trail t)] (t_rows t))). }
  assert (Hrows3 : forall k, t_rows (dget' d3 k) = t_rows (dget' d k)).
  { intros k. unfold dget'. rewrite Hget3. destruct (dget d k); reflexivity. }
  assert (Hlens : map (fun k => hd O (t_trail (dget' d3 k))) ord = map (pnumel P) ord).
  { apply map_ext_in. intros k Hk. destruct (Hin k Hk) as [t Et].
    pose proof (Htr k Hk) as Hn. unfold dget' in Hn |- *. rewrite Hget3, Et. rewrite Et in Hn.
    exact Hn. }
  assert (Hun : unite ord d3
            = map (fun r => concat (map (fun k => nth r (t_rows (dget' d k)) []) ord))
                  (seq 0 (nrows (dget' d (hd O ord))))).
  { destruct ord as [|k0 ord']; [congruence|]. unfold unite, nrows. cbn [hd].
    rewrite Hrows3. apply map_ext. intros r. f_equal. apply map_ext. intros k.
    rewrite Hrows3. reflexivity. }
  rewrite Hun in HA. rewrite Hlens in Hlen, Hd4.
  split; [reflexivity|]. split; [rewrite Hd5; reflexivity|].
  exists v. split; [exact HA|]. split; [exact Hlen|].
  intros k Hk. rewrite Hd5, Hd4. unfold dget. cbn [ditems]. rewrite map_map.
  exact (c15_assoc_slice (fun k0 x => plain (p_shape P k0) x) ord v k Hk).
Qed.
End C15R.

Print Assumptions init_ones.
Print Assumptions select_spec.
Print Assumptions diag_spec.
Print Assumptions stack_spec.
Print Assumptions grad_is_vjp.
Print Assumptions vjp_unreachable_zero.
Print Assumptions jac_rows.
Print Assumptions vjp_linear.
Print Assumptions vjp_chain.
Print Assumptions aggregate_spec.
