(* C16Proofs.v — TrimmedMean (sorting, robustness) and Krum (selection) *)
From Coq Require Import Reals List Bool Arith Lia Lra Psatz Permutation Sorted.
From TJ Require Import Num Linalg NumR Agg.
From TJ.proofs Require Import LinalgR.
Import ListNotations.
Local Open Scope R_scope.

Notation isortR := (isort RN).
Notation insertR := (insert RN).

(* ---- insertion sort ---- *)
Lemma insert_perm x l : Permutation (insertR x l) (x :: l).
Proof.
  induction l as [|y l IH]; [reflexivity|]. cbn [insert]. destruct (nleb RN x y); [reflexivity|].
  rewrite IH. apply perm_swap.
Qed.

Lemma isort_perm l : Permutation (isortR l) l.
Proof.
  induction l as [|x l IH]; [reflexivity|]. cbn [isort]. rewrite insert_perm. constructor. exact IH.
Qed.

Lemma isort_length l : length (isortR l) = length l.
Proof. apply Permutation_length, isort_perm. Qed.

Lemma insert_sorted x l : StronglySorted Rle l -> StronglySorted Rle (insertR x l).
Proof.
  induction 1 as [|y l Hs IH Hy]; cbn [insert]; [repeat constructor|].
  rn. destruct (Rleb x y) eqn:E.
  - apply Rleb_true in E. constructor; [constructor; assumption|]. constructor; [exact E|].
    rewrite Forall_forall in Hy |- *. intros z Hz. specialize (Hy z Hz). lra.
  - apply Rleb_false in E. constructor; [exact IH|].
    eapply Permutation_Forall; [symmetry; apply insert_perm|]. constructor; [lra|exact Hy].
Qed.

Lemma isort_sorted l : StronglySorted Rle (isortR l).
Proof. induction l as [|x l IH]; [constructor|]. cbn [isort]. apply insert_sorted. exact IH. Qed.

Lemma sorted_app_le (X Y : list R) : StronglySorted Rle (X ++ Y) ->
  forall x y, In x X -> In y Y -> x <= y.
Proof.
  induction X as [|a X IH]; intros Hs x y Hx Hy; [contradiction|].
  cbn [app] in Hs. apply StronglySorted_inv in Hs. destruct Hs as [Hs Ha].
  destruct Hx as [<-|Hx].
  - rewrite Forall_forall in Ha. apply Ha. apply in_or_app. right; exact Hy.
  - eapply IH; eauto.
Qed.

(* ---- counting ---- *)
Definition count (p : R -> bool) (l : list R) : nat := length (filter p l).

Lemma count_perm p l l' : Permutation l l' -> count p l = count p l'.
Proof.
  unfold count. induction 1 as [|x l l' H IH|x y l|l l' l'' H1 IH1 H2 IH2]; cbn [filter];
    try reflexivity.
  - destruct (p x); cbn [length]; congruence.
  - destruct (p x), (p y); reflexivity.
  - congruence.
Qed.

Lemma count_app p a b : count p (a ++ b) = (count p a + count p b)%nat.
Proof. unfold count. rewrite filter_app, app_length. reflexivity. Qed.

Lemma count_le_length p l : (count p l <= length l)%nat.
Proof. unfold count. induction l as [|x l IH]; cbn; [lia|]. destruct (p x); cbn; lia. Qed.

Lemma count_none p l : (forall x, In x l -> p x = false) -> count p l = 0%nat.
Proof.
  unfold count. induction l as [|x l IH]; intros H; [reflexivity|]. cbn [filter].
  rewrite (H x (or_introl eq_refl)). apply IH. intros y Hy. apply H. right; exact Hy.
Qed.

Lemma count_all p l : (forall x, In x l -> p x = true) -> count p l = length l.
Proof.
  unfold count. induction l as [|x l IH]; intros H; [reflexivity|]. cbn [filter].
  rewrite (H x (or_introl eq_refl)). cbn [length]. f_equal. apply IH. intros y Hy. apply H. right; exact Hy.
Qed.

Lemma count_pos p l x : In x l -> p x = true -> (1 <= count p l)%nat.
Proof.
  unfold count. induction l as [|y l IH]; intros Hin Hp; [contradiction|]. cbn [filter].
  destruct Hin as [->|Hin]; [rewrite Hp; cbn; lia|]. destruct (p y); cbn; [lia|auto].
Qed.

(* ---- the trimmed part of a sorted list ---- *)
Section Robust.
Variables (b : nat) (col honest corrupt : list R) (lo hi : R).
Hypothesis Hperm : Permutation col (honest ++ corrupt).
Hypothesis Hb : (length corrupt <= b)%nat.
Hypothesis Hm : (2 * b + 1 <= length col)%nat.
Hypothesis Hlo : forall h, In h honest -> lo <= h.
Hypothesis Hhi : forall h, In h honest -> h <= hi.

Let S := isortR col.
Let kept := firstn (length col - 2 * b) (skipn b S).

Lemma S_split : S = firstn b S ++ kept ++ skipn (length col - 2 * b) (skipn b S).
Proof. unfold kept. rewrite firstn_skipn. rewrite firstn_skipn. reflexivity. Qed.

Lemma len_S : length S = length col.
Proof. apply isort_length. Qed.

Lemma len_top : length (skipn (length col - 2 * b) (skipn b S)) = b.
Proof. rewrite !skipn_length, len_S. lia. Qed.

Lemma len_bot : length (firstn b S) = b.
Proof. rewrite firstn_length, len_S. lia. Qed.

Lemma kept_length : length kept = (length col - 2 * b)%nat.
Proof. unfold kept. rewrite firstn_length, skipn_length, len_S. lia. Qed.

Lemma count_gt_hi : (count (fun x => Rltb hi x) S <= b)%nat.
Proof.
  rewrite (count_perm _ S (honest ++ corrupt))
    by (unfold S; rewrite isort_perm; exact Hperm).
  rewrite count_app, count_none.
  - pose proof (count_le_length (fun x => Rltb hi x) corrupt). lia.
  - intros x Hx. apply Rltb_false. apply Hhi; exact Hx.
Qed.

Lemma count_lt_lo : (count (fun x => Rltb x lo) S <= b)%nat.
Proof.
  rewrite (count_perm _ S (honest ++ corrupt))
    by (unfold S; rewrite isort_perm; exact Hperm).
  rewrite count_app, count_none.
  - pose proof (count_le_length (fun x => Rltb x lo) corrupt). lia.
  - intros x Hx. apply Rltb_false. apply Hlo; exact Hx.
Qed.

Theorem kept_upper x : In x kept -> x <= hi.
Proof.
  intros Hx. destruct (Rle_dec x hi) as [H|H]; [exact H|exfalso]. apply Rnot_le_lt in H.
  pose proof (isort_sorted col) as Hs. fold S in Hs. rewrite S_split in Hs.
  set (top := skipn (length col - 2 * b) (skipn b S)) in *.
  (* every element of top is >= x > hi *)
  assert (Htop : forall y, In y top -> Rltb hi y = true).
  { intros y Hy. apply Rltb_true.
    rewrite app_assoc in Hs.
    assert (x <= y).
    { apply (sorted_app_le _ _ Hs); [apply in_or_app; right; exact Hx|exact Hy]. }
    lra. }
  pose proof count_gt_hi as Hc. rewrite S_split in Hc. fold top in Hc.
  rewrite !count_app in Hc. rewrite (count_all (fun x => Rltb hi x) top Htop) in Hc. unfold top in Hc. rewrite len_top in Hc.
  pose proof (count_pos (fun y => Rltb hi y) kept x Hx ltac:(apply Rltb_true; exact H)). lia.
Qed.

Theorem kept_lower x : In x kept -> lo <= x.
Proof.
  intros Hx. destruct (Rle_dec lo x) as [H|H]; [exact H|exfalso]. apply Rnot_le_lt in H.
  pose proof (isort_sorted col) as Hs. fold S in Hs. rewrite S_split in Hs.
  set (bot := firstn b S) in *.
  assert (Hbot : forall y, In y bot -> Rltb y lo = true).
  { intros y Hy. apply Rltb_true.
    assert (y <= x).
    { apply (sorted_app_le _ _ Hs); [exact Hy|apply in_or_app; left; exact Hx]. }
    lra. }
  pose proof count_lt_lo as Hc. rewrite S_split in Hc. fold bot in Hc.
  rewrite !count_app in Hc. rewrite (count_all (fun x => Rltb x lo) bot Hbot) in Hc. unfold bot in Hc. rewrite len_bot in Hc.
  pose proof (count_pos (fun y => Rltb y lo) kept x Hx ltac:(apply Rltb_true; exact H)). lia.
Qed.

Lemma mean_bounds (l : list R) : l <> [] -> (forall x, In x l -> lo <= x <= hi) ->
  lo <= vsumR l / INR (length l) <= hi.
Proof.
  intros Hne Hall.
  assert (Hs : INR (length l) * lo <= vsumR l <= INR (length l) * hi).
  { clear Hne. induction l as [|x l IH]; [cbn; lra|].
    rewrite vsum_cons. cbn [length]. rewrite S_INR.
    pose proof (Hall x (or_introl eq_refl)).
    specialize (IH (fun y Hy => Hall y (or_intror Hy))). lra. }
  assert (Hn : 0 < INR (length l)).
  { apply lt_0_INR. destruct l; [congruence|cbn; lia]. }
  split.
  - apply (Rmult_le_reg_r (INR (length l))); [exact Hn|].
    unfold Rdiv. rewrite Rmult_assoc, Rinv_l by lra. lra.
  - apply (Rmult_le_reg_r (INR (length l))); [exact Hn|].
    unfold Rdiv. rewrite Rmult_assoc, Rinv_l by lra. lra.
Qed.

Theorem trimmed_robust : lo <= trimmed RN b col <= hi.
Proof.
  unfold trimmed. fold S. fold kept. rn. apply mean_bounds.
  - intros E. apply (f_equal (@length R)) in E. rewrite kept_length in E. cbn in E. lia.
  - intros x Hx. split; [apply kept_lower|apply kept_upper]; exact Hx.
Qed.

End Robust.

(* ---- Krum: selection of the k smallest scores ---- *)
Notation insert_idxR := (insert_idx RN).
Notation sort_idxR := (sort_idx RN).
Definition le_fst (p q : R * nat) : Prop := fst p <= fst q.

Lemma insert_idx_perm p l : Permutation (insert_idxR p l) (p :: l).
Proof.
  induction l as [|q l IH]; [reflexivity|]. cbn [insert_idx]. destruct (nleb RN (fst p) (fst q));
    [reflexivity|]. rewrite IH. apply perm_swap.
Qed.

Lemma sort_idx_perm v : Permutation (sort_idxR v) (List.combine v (seq 0 (length v))).
Proof.
  unfold sort_idx. induction (List.combine v (seq 0 (length v))) as [|p l IH]; [reflexivity|].
  cbn [fold_right]. rewrite insert_idx_perm. constructor. exact IH.
Qed.

Lemma insert_idx_sorted p l : StronglySorted le_fst l -> StronglySorted le_fst (insert_idxR p l).
Proof.
  induction 1 as [|q l Hs IH Hq]; cbn [insert_idx]; [repeat constructor|].
  rn. destruct (Rleb (fst p) (fst q)) eqn:E.
  - apply Rleb_true in E. constructor; [constructor; assumption|]. constructor; [exact E|].
    rewrite Forall_forall in Hq |- *. intros z Hz. specialize (Hq z Hz). unfold le_fst in *. lra.
  - apply Rleb_false in E. constructor; [exact IH|].
    eapply Permutation_Forall; [symmetry; apply insert_idx_perm|].
    constructor; [unfold le_fst; lra|exact Hq].
Qed.

Lemma sort_idx_sorted v : StronglySorted le_fst (sort_idxR v).
Proof.
  unfold sort_idx. induction (List.combine v (seq 0 (length v))) as [|p l IH]; [constructor|].
  cbn [fold_right]. apply insert_idx_sorted. exact IH.
Qed.

Lemma map_snd_combine {A B} (l : list A) (l' : list B) : length l = length l' ->
  map snd (List.combine l l') = l'.
Proof.
  revert l'; induction l as [|x l IH]; intros [|y l'] H; cbn in H; try lia; [reflexivity|].
  cbn. f_equal. apply IH. lia.
Qed.

Lemma in_combine_seq (v : list R) s x i :
  In (x, i) (List.combine v (seq s (length v))) <-> (s <= i < s + length v)%nat /\ nth (i - s) v 0 = x.
Proof.
  revert s; induction v as [|y v IH]; intros s; cbn [length seq List.combine In].
  - split; [contradiction|]. intros [H _]. lia.
  - rewrite IH. split.
    + intros [H|[H1 H2]].
      * injection H as <- <-. split; [lia|]. rewrite Nat.sub_diag. reflexivity.
      * split; [lia|]. replace (i - s)%nat with (S (i - S s)) by lia. exact H2.
    + intros [H1 H2]. destruct (Nat.eq_dec i s) as [->|Hne].
      * left. rewrite Nat.sub_diag in H2. cbn in H2. subst; reflexivity.
      * right. split; [lia|]. replace (i - s)%nat with (S (i - S s)) in H2 by lia. exact H2.
Qed.

Lemma sort_idx_in v x i : In (x, i) (sort_idxR v) <-> (i < length v)%nat /\ nth i v 0 = x.
Proof.
  rewrite (Permutation_in_iff (sort_idx_perm v)) || idtac.
  split.
  - intros H. apply (Permutation_in _ (sort_idx_perm v)) in H. apply in_combine_seq in H.
    rewrite Nat.sub_0_r in H. destruct H as [[_ H1] H2]. split; [lia|exact H2].
  - intros [H1 H2]. apply (Permutation_in _ (Permutation_sym (sort_idx_perm v))).
    apply in_combine_seq. rewrite Nat.sub_0_r. split; [lia|exact H2].
Qed.

Lemma sort_idx_snd_nodup v : NoDup (map snd (sort_idxR v)).
Proof.
  eapply Permutation_NoDup.
  - apply Permutation_map. symmetry. apply sort_idx_perm.
  - rewrite map_snd_combine by (rewrite seq_length; reflexivity). apply seq_NoDup.
Qed.

Lemma NoDup_firstn {A} k (l : list A) : NoDup l -> NoDup (firstn k l).
Proof.
  revert k; induction l as [|x l IH]; intros [|k] H; cbn; try constructor.
  - inversion H as [|? ? Hx Hl]; subst. intros Hin. apply Hx.
    rewrite <- (firstn_skipn k l). apply in_or_app. left; exact Hin.
  - inversion H; subst. apply IH; assumption.
Qed.

Theorem smallest_k_spec k v : (k <= length v)%nat ->
  let sel := smallest_k RN k v in
  NoDup sel /\ length sel = k /\ (forall i, In i sel -> (i < length v)%nat) /\
  (forall i j, In i sel -> (j < length v)%nat -> ~ In j sel -> nth i v 0 <= nth j v 0).
Proof.
  intros Hk sel. unfold sel, smallest_k.
  assert (Hlen : length (sort_idxR v) = length v).
  { rewrite (Permutation_length (sort_idx_perm v)), combine_length, seq_length. lia. }
  split; [|split; [|split]].
  - rewrite <- firstn_map. apply NoDup_firstn. apply sort_idx_snd_nodup.
  - rewrite map_length, firstn_length. lia.
  - intros i Hi. apply in_map_iff in Hi. destruct Hi as ([x i'] & Hs & Hin). cbn in Hs. subst i'.
    apply (In_firstn_in k) in Hin || idtac.
    assert (In (x, i) (sort_idxR v)) as H.
    { rewrite <- (firstn_skipn k (sort_idxR v)). apply in_or_app. left; exact Hin. }
    apply sort_idx_in in H. apply H.
  - intros i j Hi Hj Hnj.
    apply in_map_iff in Hi. destruct Hi as ([x i'] & Hs & Hin). cbn in Hs. subst i'.
    assert (Hx : nth i v 0 = x).
    { assert (In (x, i) (sort_idxR v)) as H.
      { rewrite <- (firstn_skipn k (sort_idxR v)). apply in_or_app. left; exact Hin. }
      apply sort_idx_in in H. apply H. }
    assert (Hjin : In (nth j v 0, j) (sort_idxR v)) by (apply sort_idx_in; auto).
    rewrite <- (firstn_skipn k (sort_idxR v)) in Hjin. apply in_app_or in Hjin.
    destruct Hjin as [Hjin|Hjin].
    + exfalso. apply Hnj. apply in_map_iff. exists (nth j v 0, j). split; [reflexivity|exact Hjin].
    + pose proof (sort_idx_sorted v) as Hs. rewrite <- (firstn_skipn k (sort_idxR v)) in Hs.
      assert (le_fst (x, i) (nth j v 0, j)).
      { clear -Hs Hin Hjin. revert Hs Hin. generalize (firstn k (sort_idxR v)) (skipn k (sort_idxR v)) Hjin.
        intros X Y HY. induction X as [|a X IH]; intros Hs Hin; [contradiction|].
        cbn [app] in Hs. apply StronglySorted_inv in Hs. destruct Hs as [Hs Ha].
        destruct Hin as [->|Hin].
        - rewrite Forall_forall in Ha. apply Ha. apply in_or_app. right; exact HY.
        - apply IH; assumption. }
      unfold le_fst in H. cbn in H. rewrite Hx. exact H.
Qed.

(* the weights: 1/k on the selected indices, 0 elsewhere *)
Theorem krum_weights_spec D f k : (1 <= k)%nat ->
  let m := length D in
  let sel := smallest_k RN k (krum_scores RN D (m - f - 2)) in
  NoDup sel ->
  forall i, (i < m)%nat ->
    nth i (krum_weights_of_dist RN D f k) 0 = if in_dec Nat.eq_dec i sel then 1 / INR k else 0.
Proof.
  intros Hk m sel Hnd i Hi. unfold krum_weights_of_dist. fold m. fold sel. rn.
  rewrite (nth_indep _ 0 ((fun i0 => INR (count_occ Nat.eq_dec sel i0) / INR k) 0%nat))
    by (rewrite map_length, seq_length; exact Hi).
  rewrite (map_nth (fun i0 => INR (count_occ Nat.eq_dec sel i0) / INR k)).
  rewrite seq_nth by exact Hi. cbn [Nat.add].
  destruct (in_dec Nat.eq_dec i sel) as [Hin|Hnin].
  - rewrite NoDup_count_occ' in Hnd. rewrite (Hnd i Hin). cbn. reflexivity.
  - apply (count_occ_not_In Nat.eq_dec) in Hnin. rewrite Hnin. cbn. lra.
Qed.
