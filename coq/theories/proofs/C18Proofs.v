(* C18Proofs.v — MGDA simplex invariant, Random, GradDrop, PCGrad (weight level = vector level) *)
From Coq Require Import Reals List Bool Arith Lia Lra Psatz.
From TJ Require Import Num Linalg NumR Agg.
From TJ.proofs Require Import LinalgR QPProofs C03Proofs.
Import ListNotations.
Local Open Scope R_scope.

Definition simplex (m : nat) (a : list R) : Prop := length a = m /\ nonneg a /\ vsumR a = 1.

Lemma nonneg_repeat x k : 0 <= x -> nonneg (repeat x k).
Proof. intros Hx. apply Forall_forall. intros y Hy. apply repeat_spec in Hy. subst; exact Hx. Qed.

Lemma simplex_mean m : (1 <= m)%nat -> simplex m (mean_weights RN m).
Proof.
  intros Hm. unfold mean_weights. rn. split; [apply repeat_length|]. split.
  - apply nonneg_repeat. apply Rlt_le. apply Rdiv_lt_0_compat; [lra|]. apply lt_0_INR; lia.
  - rewrite vsum_repeat. field. apply not_0_INR. lia.
Qed.

Lemma argmin_from_lt best bi i v : (bi < i)%nat ->
  (argmin_from RN best bi i v < i + length v)%nat.
Proof.
  revert best bi i; induction v as [|x v IH]; intros best bi i H; cbn [argmin_from length]; [lia|].
  destruct (nltb RN x best).
  - specialize (IH x i (S i) ltac:(lia)). lia.
  - specialize (IH best bi (S i) ltac:(lia)). lia.
Qed.

Lemma argmin_lt v : v <> [] -> (argmin RN v < length v)%nat.
Proof.
  destruct v as [|x v]; [congruence|]. intros _. unfold argmin.
  pose proof (argmin_from_lt x 0 1 v ltac:(lia)). cbn [length]. lia.
Qed.

(* the step size of every Frank-Wolfe branch lies in [0,1] *)
Lemma mgda_gamma_range a b c :
  let gamma := if nleb RN c a then 1 else if nleb RN b a then 0 else (b - a) / (b + c - (INR 2 * a)) in
  0 <= gamma <= 1.
Proof.
  cbv zeta. rn. destruct (Rleb c a) eqn:E1; [lra|]. destruct (Rleb b a) eqn:E2; [lra|].
  apply Rleb_false in E1, E2. replace (INR 2) with 2 by (cbn; lra).
  assert (0 < b + c - 2 * a) by lra. split.
  - apply Rlt_le, Rdiv_lt_0_compat; lra.
  - apply (Rmult_le_reg_r (b + c - 2 * a)); [lra|].
    unfold Rdiv. rewrite Rmult_assoc, Rinv_l by lra. lra.
Qed.

Lemma mgda_step_simplex m G alpha : (1 <= m)%nat -> length G = m -> simplex m alpha ->
  simplex m (fst (mgda_step RN G alpha)).
Proof.
  intros Hm HG (Hl & Hn & Hs). unfold mgda_step. cbv zeta. cbn [fst]. rn.
  set (Ga := mvR G alpha). set (t := argmin RN Ga).
  assert (Ht : (t < m)%nat).
  { unfold t. replace m with (length Ga) by (unfold Ga; rewrite length_mv; exact HG).
    apply argmin_lt. intros E. apply (f_equal (@length R)) in E. unfold Ga in E.
    rewrite length_mv in E. cbn in E. lia. }
  rewrite Hl.
  set (e_t := onehotR m t 1).
  set (a := dotR alpha (mvR G e_t)). set (b := dotR alpha Ga). set (c := dotR e_t (mvR G e_t)).
  pose proof (mgda_gamma_range a b c) as Hg. cbv zeta in Hg. rn.
  fold e_t. fold a. fold c.
  set (gamma := if Rleb c a then 1 else if Rleb b a then 0 else (b - a) / (b + c - INR 2 * a)) in *.
  assert (Hle : length e_t = m) by apply length_onehot.
  split; [|split].
  - rewrite length_vadd; rewrite !length_vscale; congruence.
  - apply nonneg_vadd; apply nonneg_vscale; try lra; auto. apply nonneg_onehot. lra.
  - rewrite vsum_vadd by (rewrite !length_vscale; congruence).
    rewrite !vsum_vscale, Hs. unfold e_t. rewrite vsum_onehot by exact Ht. lra.
Qed.

Lemma mgda_loop_simplex m G eps iters alpha : (1 <= m)%nat -> length G = m -> simplex m alpha ->
  simplex m (mgda_loop RN iters G eps alpha).
Proof.
  intros Hm HG. revert alpha. induction iters as [|k IH]; intros alpha Ha; [exact Ha|].
  cbn [mgda_loop]. pose proof (mgda_step_simplex m G alpha Hm HG Ha) as Hstep.
  destruct (mgda_step RN G alpha) as [alpha' gamma]. cbn [fst] in Hstep.
  destruct (nltb RN gamma eps); [exact Hstep | apply IH; exact Hstep].
Qed.

Theorem mgda_weights_simplex G eps iters : (1 <= length G)%nat ->
  simplex (length G) (mgda_weights RN G eps iters).
Proof.
  intros Hm. unfold mgda_weights. apply mgda_loop_simplex; auto. apply simplex_mean; exact Hm.
Qed.

(* ---- Random: softmax of any draw ---- *)
Lemma vsum_pos e : e <> [] -> Forall (fun x => 0 < x) e -> 0 < vsumR e.
Proof.
  intros Hne H. induction H as [|x e Hx He IH]; [congruence|]. rewrite vsum_cons.
  destruct e as [|y e']; [cbn; lra|]. specialize (IH ltac:(congruence)). lra.
Qed.

Theorem random_weights_simplex e : e <> [] -> Forall (fun x => 0 < x) e ->
  Forall (fun x => 0 < x) (random_weights RN e) /\ vsumR (random_weights RN e) = 1 /\
  length (random_weights RN e) = length e.
Proof.
  intros Hne He. pose proof (vsum_pos e Hne He) as Hs. unfold random_weights. rn.
  split; [|split].
  - apply Forall_forall. intros y Hy. apply in_map_iff in Hy. destruct Hy as (x & <- & Hx).
    rewrite Forall_forall in He. apply Rdiv_lt_0_compat; auto.
  - assert (forall l s, vsumR (map (fun x => x / s) l) = vsumR l / s) as E.
    { intros l s; induction l as [|z l IH]; [cbn; lra|]. cbn [map]. rewrite !vsum_cons, IH. lra. }
    rewrite E. field. lra.
  - apply map_length.
Qed.

(* ---- GradDrop, one coordinate ---- *)
(* keep-mask sum: entries selected by [keep] count fully, the others with their leak *)
Definition masked_sum (keep : R -> bool) (leak col : list R) : R :=
  vsumR (map (fun '(l, x) => (l + (1 - l) * (if keep x then 1 else 0)) * x) (List.combine leak col)).

Theorem graddrop_coord_cases leak col u :
  let s := vsumR col in let a := vsumR (map (nabs RN) col) in
  let P := (1 / 2) * (1 + s / a) in
  0 < a ->
  (u < P -> graddrop_coord RN leak col u = masked_sum (fun x => Rltb 0 x) leak col) /\
  (P < u -> graddrop_coord RN leak col u = masked_sum (fun x => Rltb x 0) leak col).
Proof.
  intros s a P Ha. unfold graddrop_coord, masked_sum. rn. fold s. fold a.
  replace (INR 2) with 2 by (cbn; lra). fold P.
  assert (Ea : Rleb a 0 = false) by (apply Rleb_false; exact Ha). rewrite Ea. cbn [negb andb].
  split; intros H.
  - assert (E1 : Rltb u P = true) by (apply Rltb_true; exact H).
    assert (E2 : Rltb P u = false) by (apply Rltb_false; lra).
    rewrite E1, E2. f_equal. apply map_ext. intros [l x]. cbn [andb orb]. rewrite orb_false_r. reflexivity.
  - assert (E1 : Rltb u P = false) by (apply Rltb_false; lra).
    assert (E2 : Rltb P u = true) by (apply Rltb_true; exact H).
    rewrite E1, E2. f_equal.
Qed.

(* ---- PCGrad: the weight-level code equals the vector-level definition of the paper ---- *)
Fixpoint pc_vec (J : list (list R)) (i : nat) (perm : list nat) (g : list R) : list R :=
  match perm with
  | [] => g
  | j :: perm' =>
      if (j =? i)%nat then pc_vec J i perm' g
      else let gj := nth j J [] in
           let ip := dotR g gj in
           pc_vec J i perm' (if Rltb ip 0 then vsubR g (vscaleR (ip / dotR gj gj) gj) else g)
  end.

Fixpoint pc_outer_vec (J : list (list R)) (i : nat) (perms : list (list nat)) (acc : list R) :=
  match perms with
  | [] => acc
  | perm :: ps => pc_outer_vec J (S i) ps (vaddR acc (pc_vec J i perm (nth i J [])))
  end.

Lemma length_vupd {A} (v : list A) j f : length (vupd v j f) = length v.
Proof. revert j; induction v as [|x v IH]; intros [|j]; cbn; auto. Qed.

Lemma vadd_sub_scale x t r : forall rest, length rest = length r ->
  vaddR (vscaleR (x - t) r) rest = vsubR (vaddR (vscaleR x r) rest) (vscaleR t r).
Proof.
  induction r as [|z r IH]; intros [|y rest] H; cbn in H; try lia; [reflexivity|].
  cbn [vscale map vadd vsub]. fold (vscaleR (x - t) r) (vscaleR x r) (vscaleR t r).
  rewrite IH by lia. rn. f_equal. lra.
Qed.

Lemma vadd_vsub_assoc a : forall b c, length b = length a -> length c = length a ->
  vaddR a (vsubR b c) = vsubR (vaddR a b) c.
Proof.
  induction a as [|x a IH]; intros [|y b] [|z c] Hb Hc; cbn in Hb, Hc; try lia; [reflexivity|].
  cbn [vadd vsub]. rewrite IH by lia. rn. f_equal. lra.
Qed.

Lemma vm_vupd n J : wfmat n J -> forall cw j t, length cw = length J -> (j < length J)%nat ->
  vmR n (vupd cw j (fun x => x - t)) J = vsubR (vmR n cw J) (vscaleR t (nth j J [])).
Proof.
  intros HJ. induction HJ as [|r J Hr HJ IH]; intros cw j t Hl Hj; [cbn in Hj; lia|].
  destruct cw as [|x cw]; [cbn in Hl; lia|]. cbn in Hl.
  destruct j as [|j]; cbn [vupd vm nth].
  - apply vadd_sub_scale. rewrite (length_vm n) by exact HJ. symmetry; exact Hr.
  - rewrite IH by (cbn in Hj; lia).
    assert (Hrj : length (nth j J []) = n).
    { unfold wfmat in HJ. rewrite Forall_forall in HJ. apply HJ. apply nth_In. cbn in Hj. lia. }
    apply vadd_vsub_assoc.
    + rewrite length_vscale, (length_vm n) by exact HJ. symmetry; exact Hr.
    + rewrite !length_vscale. congruence.
Qed.

Lemma nth_gram_row J j : (j < length J)%nat ->
  nth j (gramR J) [] = map (fun s => dotR (nth j J []) s) J.
Proof.
  intros Hj. unfold gram.
  rewrite (nth_indep _ [] (map (fun s => dotR [] s) J)) by (rewrite map_length; exact Hj).
  apply (map_nth (fun r => map (fun s => dotR r s) J)).
Qed.

Lemma gram_entry J j : (j < length J)%nat ->
  nth j (nth j (gramR J) []) 0 = dotR (nth j J []) (nth j J []).
Proof.
  intros Hj. rewrite nth_gram_row by exact Hj.
  rewrite (nth_indep _ 0 (dotR (nth j J []) [])) by (rewrite map_length; exact Hj).
  apply (map_nth (fun s => dotR (nth j J []) s)).
Qed.

Lemma gram_row_dot n J j cw : wfmat n J -> length cw = length J -> (j < length J)%nat ->
  dotR (nth j (gramR J) []) cw = dotR (vmR n cw J) (nth j J []).
Proof.
  intros HJ Hl Hj. rewrite nth_gram_row by exact Hj.
  replace (map (fun s => dotR (nth j J []) s) J) with (mvR J (nth j J []))
    by (unfold mv; apply map_ext; intros; apply dot_comm).
  rewrite (dot_vm n) by assumption. apply dot_comm.
Qed.

Theorem pcgrad_inner_vec n J i : wfmat n J -> forall perm cw, length cw = length J ->
  Forall (fun j => (j < length J)%nat) perm ->
  vmR n (pcgrad_inner RN (gramR J) i perm cw) J = pc_vec J i perm (vmR n cw J) /\
  length (pcgrad_inner RN (gramR J) i perm cw) = length J.
Proof.
  intros HJ. induction perm as [|j perm IH]; intros cw Hl Hp; [split; [reflexivity|exact Hl]|].
  apply Forall_cons_iff in Hp. destruct Hp as [Hj Hp].
  cbn [pcgrad_inner pc_vec]. destruct (j =? i)%nat; [apply IH; assumption|].
  unfold nth_row, mget. rn. rewrite (gram_row_dot n) by assumption. rewrite gram_entry by exact Hj.
  set (ip := dotR (vmR n cw J) (nth j J [])).
  destruct (Rltb ip 0).
  - rewrite <- (vm_vupd n J HJ cw j _ Hl Hj). apply IH; [rewrite length_vupd; exact Hl|exact Hp].
  - apply IH; assumption.
Qed.

Lemma vscale_zero r : vscaleR 0 r = vzeroR (length r).
Proof.
  induction r as [|z r IH]; [reflexivity|]. unfold vzero in *. cbn [vscale map length repeat].
  fold (vscaleR 0 r). rewrite IH. rn. f_equal. lra.
Qed.
Lemma vscale_one r : vscaleR 1 r = r.
Proof.
  induction r as [|z r IH]; [reflexivity|]. cbn [vscale map]. fold (vscaleR 1 r). rewrite IH. rn.
  f_equal. lra.
Qed.

Lemma vm_vzero n J : wfmat n J -> vmR n (vzeroR (length J)) J = vzeroR n.
Proof.
  intros HJ. induction HJ as [|r J Hr HJ IH]; [reflexivity|].
  cbn [length]. unfold vzero at 1. cbn [repeat vm]. fold (vzeroR (length J)). rewrite IH. rn.
  rewrite vscale_zero, Hr. apply vadd_vzero_vzero.
Qed.

Lemma vm_onehot n J : wfmat n J -> forall i, (i < length J)%nat ->
  vmR n (onehotR (length J) i 1) J = nth i J [].
Proof.
  intros HJ. induction HJ as [|r J Hr HJ IH]; intros i Hi; [cbn in Hi; lia|].
  destruct i as [|i]; cbn [length onehot vm nth].
  - rewrite (vm_vzero n) by exact HJ. rewrite vscale_one. apply vadd_vzero_r. exact Hr.
  - rewrite IH by (cbn in Hi; lia). rn. rewrite vscale_zero, Hr. apply vadd_vzero_l.
    unfold wfmat in HJ. rewrite Forall_forall in HJ. apply HJ. apply nth_In. cbn in Hi. lia.
Qed.

Theorem pcgrad_outer_vec n J : wfmat n J -> forall perms i acc, length acc = length J ->
  (i + length perms <= length J)%nat ->
  Forall (Forall (fun j => (j < length J)%nat)) perms ->
  vmR n (pcgrad_outer RN (gramR J) (length J) i perms acc) J = pc_outer_vec J i perms (vmR n acc J).
Proof.
  intros HJ. induction perms as [|perm ps IH]; intros i acc Hl Hi Hp; [reflexivity|].
  apply Forall_cons_iff in Hp. destruct Hp as [Hperm Hps]. cbn [length] in Hi.
  cbn [pcgrad_outer pc_outer_vec]. rn.
  destruct (pcgrad_inner_vec n J i HJ perm (onehotR (length J) i 1) (length_onehot _ _ _) Hperm)
    as [Ev El].
  rewrite IH; [|rewrite length_vadd; [exact Hl|rewrite El; exact Hl]|lia|exact Hps].
  rewrite vm_vadd by (auto; rewrite El; exact Hl). rewrite Ev, vm_onehot by (auto; lia). reflexivity.
Qed.

Theorem pcgrad_spec n J perms : wfmat n J -> J <> [] -> (length perms <= length J)%nat ->
  Forall (Forall (fun j => (j < length J)%nat)) perms ->
  agg_pcgrad RN perms J = pc_outer_vec J 0 perms (vzeroR n).
Proof.
  intros HJ Hne Hl Hp. unfold agg_pcgrad, combine_rows, pcgrad_weights.
  rewrite (ncols_wf n) by assumption. rewrite length_gram.
  rewrite (pcgrad_outer_vec n J HJ perms 0); auto.
  - rewrite (vm_vzero n) by exact HJ. reflexivity.
  - apply length_vzero.
Qed.

Lemma pc_vec_no_conflict J i perm g :
  Forall (fun j => 0 <= dotR g (nth j J [])) perm -> pc_vec J i perm g = g.
Proof.
  induction 1 as [|j perm Hj Hp IH]; [reflexivity|]. cbn [pc_vec].
  destruct (j =? i)%nat; [exact IH|]. cbv zeta.
  assert (E : Rltb (dotR g (nth j J [])) 0 = false) by (apply Rltb_false; exact Hj).
  rewrite E. exact IH.
Qed.

(* ---- CAGrad: distance to the mean row ---- *)
Lemma quadform_mscale t G x : quadform RN (mscale RN t G) x = t * quadform RN G x.
Proof. unfold quadform. rewrite mv_mscale, dot_vscale_r. reflexivity. Qed.

Theorem cagrad_distance n J s ne c w_opt : wfmat n J -> J <> [] -> length w_opt = length J ->
  0 < s -> nltb RN s ne = false ->
  let m := length J in
  let g0 := vmR n (mean_weights RN m) J in
  let gw := vmR n w_opt J in
  let Gn := normalized_gramian RN (gramR J) s ne in
  nleb RN ne (sqrt (quadform RN Gn w_opt)) = true -> 0 < ne ->
  let A := agg_cagrad RN s ne c w_opt J in
  let d := vsubR A g0 in
  dotR d d = c * c * dotR g0 g0.
Proof.
  intros HJ Hne Hlw Hs Hsne m g0 gw Gn Hbig Hnepos A d.
  assert (Hlm : length (mean_weights RN m) = length J) by (unfold mean_weights; apply repeat_length).
  assert (HGn : Gn = mscale RN (1 / (s * s)) (gramR J)).
  { unfold Gn, normalized_gramian. rewrite Hsne. reflexivity. }
  assert (Hq0 : quadform RN Gn (mean_weights RN m) = dotR g0 g0 / (s * s)).
  { rewrite HGn, quadform_mscale. unfold quadform. rewrite (quad_gram n) by assumption.
    fold g0. field. lra. }
  assert (Hqw : quadform RN Gn w_opt = dotR gw gw / (s * s)).
  { rewrite HGn, quadform_mscale. unfold quadform. rewrite (quad_gram n) by assumption.
    fold gw. field. lra. }
  set (g0n := sqrt (quadform RN Gn (mean_weights RN m))).
  set (gwn := sqrt (quadform RN Gn w_opt)) in *.
  assert (Hgwn : 0 < gwn) by (rn; apply Rleb_true in Hbig; lra).
  set (k := c * g0n / gwn).
  assert (HA : A = vaddR g0 (vscaleR k gw)).
  { unfold A, agg_cagrad, combine_rows, cagrad_weights. rewrite (ncols_wf n) by assumption.
    rewrite length_gram. fold m. fold Gn. rn. fold g0n. fold gwn. rewrite Hbig.
    rewrite vm_vadd by (auto; rewrite length_vscale; congruence).
    rewrite vm_vscale by exact HJ. reflexivity. }
  assert (Hlg0 : length g0 = n) by (apply length_vm; exact HJ).
  assert (Hlgw : length gw = n) by (apply length_vm; exact HJ).
  assert (Hd : d = vscaleR k gw).
  { unfold d. rewrite HA. generalize (vscaleR k gw) (length_vscale k gw). intros v Hv.
    assert (length v = length g0) by congruence. clear -H. revert v H.
    induction g0 as [|x g IH]; intros [|y v] H; cbn in H; try lia; [reflexivity|].
    cbn [vadd vsub]. rewrite IH by lia. rn. f_equal. lra. }
  rewrite Hd, dot_vscale_l, dot_vscale_r.
  assert (Hg0n2 : g0n * g0n = dotR g0 g0 / (s * s)).
  { unfold g0n. rewrite sqrt_sqrt; [exact Hq0|]. rewrite Hq0. apply Rmult_le_pos;
      [apply dot_self_nonneg|]. apply Rlt_le, Rinv_0_lt_compat. nra. }
  assert (Hgwn2 : gwn * gwn = dotR gw gw / (s * s)).
  { unfold gwn. rewrite sqrt_sqrt; [exact Hqw|]. rewrite Hqw. apply Rmult_le_pos;
      [apply dot_self_nonneg|]. apply Rlt_le, Rinv_0_lt_compat. nra. }
  assert (Hgw2 : dotR gw gw = gwn * gwn * (s * s)) by (rewrite Hgwn2; field; lra).
  assert (Hg02 : dotR g0 g0 = g0n * g0n * (s * s)) by (rewrite Hg0n2; field; lra).
  rewrite Hgw2, Hg02. unfold k. field. lra.
Qed.

(* c = 0: the mean row itself; below the threshold: the zero vector *)
Theorem cagrad_small n J s ne c w_opt : wfmat n J -> J <> [] ->
  nleb RN ne (sqrt (quadform RN (normalized_gramian RN (gramR J) s ne) w_opt)) = false ->
  agg_cagrad RN s ne c w_opt J = vzeroR n.
Proof.
  intros HJ Hne Hsmall. unfold agg_cagrad, combine_rows, cagrad_weights.
  rewrite (ncols_wf n) by assumption. rewrite length_gram. rn. rewrite Hsmall.
  apply vm_vzero. exact HJ.
Qed.
