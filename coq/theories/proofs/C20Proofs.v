(* C20Proofs.v — failure atomicity of backward and the argument checks of the entry points:
   no transform other than Accumulate touches a .grad field, a failing backward leaves every
   .grad untouched, and the argument checks (as one boolean) reject exactly with ValueError and an
   unchanged store; every kind of invalid argument makes the boolean false. *)
From Coq Require Import List Bool Arith Lia.
From TJ Require Import Num Linalg Chunk Autojac Traverse.
From TJ.proofs Require Import AutojacBasics EntrySpec.
Import ListNotations.

(* ---------- finite sets as lists ---------- *)
Lemma c20_mem_In : forall x l, mem x l = true <-> In x l.
Proof.
  intros x l. unfold mem. rewrite existsb_exists. split.
  - intros [y [Hy He]]. apply Nat.eqb_eq in He. subst y. exact Hy.
  - intros H. exists x. split; [exact H | apply Nat.eqb_refl].
Qed.

Lemma c20_nodupb_NoDup : forall l, nodupb l = true <-> NoDup l.
Proof.
  induction l as [|x l IH]; cbn [nodupb].
  - split; [intros _; constructor | reflexivity].
  - rewrite andb_true_iff, negb_true_iff, IH. split.
    + intros [Hm Hn]. constructor; [|exact Hn]. intros Hin. apply c20_mem_In in Hin. congruence.
    + intros Hnd. inversion Hnd as [|? ? Hx Hl]; subst. split; [|exact Hl].
      destruct (mem x l) eqn:E; [|reflexivity]. apply c20_mem_In in E. contradiction.
Qed.

Lemma c20_nodupb_false : forall l, ~ NoDup l -> nodupb l = false.
Proof.
  intros l H. destruct (nodupb l) eqn:E; [|reflexivity].
  exfalso. apply H. apply c20_nodupb_NoDup. exact E.
Qed.

(* ---------- induction principle for the nested inductive [tr] ---------- *)
Section TrInd.
Variable Q : tr -> Prop.
Hypothesis HInit : forall vals, Q (TInit vals).
Hypothesis HDiag : forall c, Q (TDiag c).
Hypothesis HSelect : forall keys req, Q (TSelect keys req).
Hypothesis HStack : forall ts, Forall Q ts -> Q (TStack ts).
Hypothesis HConj : forall ts, Forall Q ts -> Q (TConj ts).
Hypothesis HComp : forall o i, Q o -> Q i -> Q (TComp o i).
Hypothesis HAcc : forall keys, Q (TAccumulate keys).
Hypothesis HGrad : forall outs ins retain, Q (TGrad outs ins retain).
Hypothesis HJac : forall outs ins chunk retain, Q (TJac outs ins chunk retain).
Hypothesis HMat : forall keys, Q (TMatrixify keys).
Hypothesis HAgg : forall ord, Q (TAggMat ord).
Hypothesis HResh : forall keys, Q (TReshape keys).

Fixpoint tr_ind' (t : tr) : Q t :=
  match t with
  | TInit vals => HInit vals
  | TDiag c => HDiag c
  | TSelect keys req => HSelect keys req
  | TStack ts =>
      HStack ts ((fix F (l : list tr) : Forall Q l :=
                    match l with
                    | [] => Forall_nil Q
                    | x :: l' => Forall_cons x (tr_ind' x) (F l')
                    end) ts)
  | TConj ts =>
      HConj ts ((fix F (l : list tr) : Forall Q l :=
                   match l with
                   | [] => Forall_nil Q
                   | x :: l' => Forall_cons x (tr_ind' x) (F l')
                   end) ts)
  | TComp o i => HComp o i (tr_ind' o) (tr_ind' i)
  | TAccumulate keys => HAcc keys
  | TGrad outs ins retain => HGrad outs ins retain
  | TJac outs ins chunk retain => HJac outs ins chunk retain
  | TMatrixify keys => HMat keys
  | TAggMat ord => HAgg ord
  | TReshape keys => HResh keys
  end.
End TrInd.

Section C20.
Context {T : Type} (N : Num T) (P : prog T) (A : list (list T) -> res (list T)).

(* ---------- the inner loop of Stack / Conjunction as a named function ---------- *)
Definition run_list (d : tdict) :=
  fix go (ts : list tr) (s : store) : res (list tdict) * store :=
    match ts with
    | [] => (Ok [], s)
    | t' :: ts' =>
        match run N P A t' s d with
        | (Err e, s') => (Err e, s')
        | (Ok d', s') =>
            match go ts' s' with
            | (Err e, s'') => (Err e, s'')
            | (Ok ds, s'') => (Ok (d' :: ds), s'')
            end
        end
    end.

Lemma run_stack_eq : forall ts s d,
  run N P A (TStack ts) s d =
  if negb (set_eqb (dkeys d) (required_keys (TStack ts))) then (Err ValueError, s) else
  match run_list d ts s with
  | (Err e, s') => (Err e, s')
  | (Ok ds, s') => (stack_dicts N P ds, s')
  end.
Proof. intros ts s d. reflexivity. Qed.

Lemma run_conj_eq : forall ts s d,
  run N P A (TConj ts) s d =
  if negb (set_eqb (dkeys d) (required_keys (TConj ts))) then (Err ValueError, s) else
  match run_list d ts s with
  | (Err e, s') => (Err e, s')
  | (Ok ds, s') => (union_dicts P ds, s')
  end.
Proof. intros ts s d. reflexivity. Qed.

Lemma run_list_cons : forall d t ts s,
  run_list d (t :: ts) s =
  match run N P A t s d with
  | (Err e, s') => (Err e, s')
  | (Ok d', s') =>
      match run_list d ts s' with
      | (Err e, s'') => (Err e, s'')
      | (Ok ds, s'') => (Ok (d' :: ds), s'')
      end
  end.
Proof. intros d t ts s. reflexivity. Qed.

(* ---------- the engine only changes s_freed / s_log ---------- *)
Lemma ag_sweep_grads : forall s outs ins rows batched retain r s',
  ag_sweep P s outs ins rows batched retain = (r, s') -> s_grads s' = s_grads s.
Proof.
  intros s outs ins rows batched retain r s' H. unfold ag_sweep in H.
  destruct (negb _) in H; [inversion H; reflexivity|].
  destruct (existsb _ _) in H; inversion H; reflexivity.
Qed.

Lemma jac_chunks_grads : forall outs ins d plan s r s',
  jac_chunks N P s outs ins d plan = (r, s') -> s_grads s' = s_grads s.
Proof.
  intros outs ins d plan. induction plan as [|c plan IH]; intros s r s' H; cbn [jac_chunks] in H.
  - inversion H; reflexivity.
  - destruct (ag_sweep P s outs ins (c_len c) (c_batched c) (c_retain c)) as [[u|e] s1] eqn:Es.
    + apply ag_sweep_grads in Es.
      destruct (jac_chunks N P s1 outs ins d plan) as [[rest|e] s2] eqn:Ej.
      * apply IH in Ej. inversion H; subst. congruence.
      * apply IH in Ej. inversion H; subst. congruence.
    + apply ag_sweep_grads in Es. inversion H; subst. exact Es.
Qed.

Lemma grad_compute_grads : forall s outs ins retain d r s',
  grad_compute N P s outs ins retain d = (r, s') -> s_grads s' = s_grads s.
Proof.
  intros s outs ins retain d r s' H. unfold grad_compute in H.
  destruct ins as [|i0 ins]; [inversion H; reflexivity|].
  destruct outs as [|o0 outs]; [inversion H; reflexivity|].
  destruct (ag_sweep P s (o0 :: outs) (i0 :: ins) 1 false retain) as [[u|e] s1] eqn:Es;
    apply ag_sweep_grads in Es; inversion H; subst; exact Es.
Qed.

Lemma jac_compute_grads : forall s outs ins chunk retain d r s',
  jac_compute N P s outs ins chunk retain d = (r, s') -> s_grads s' = s_grads s.
Proof.
  intros s outs ins chunk retain d r s' H. unfold jac_compute in H.
  destruct ins as [|i0 ins]; [inversion H; reflexivity|].
  destruct outs as [|o0 outs]; [inversion H; reflexivity|].
  destruct (max_chunk _ _ =? 0) in H; [inversion H; reflexivity|].
  destruct (jac_chunks N P s (o0 :: outs) (i0 :: ins) d _) as [[m|e] s1] eqn:Ej;
    apply jac_chunks_grads in Ej; inversion H; subst; exact Ej.
Qed.

(* no transform other than Accumulate ever touches a .grad field *)
Fixpoint no_acc (t : tr) : bool :=
  match t with
  | TAccumulate _ => false
  | TStack ts | TConj ts => forallb no_acc ts
  | TComp o i => no_acc o && no_acc i
  | _ => true
  end.

Definition keeps_grads (t : tr) : Prop :=
  forall s d r s', no_acc t = true -> run N P A t s d = (r, s') -> s_grads s' = s_grads s.

Lemma run_list_grads : forall d ts,
  Forall keeps_grads ts -> forallb no_acc ts = true ->
  forall s r s', run_list d ts s = (r, s') -> s_grads s' = s_grads s.
Proof.
  intros d ts HF. induction HF as [|t ts Ht HF IH]; intros Hna s r s' H.
  - cbn in H. inversion H; reflexivity.
  - cbn [forallb] in Hna. apply andb_true_iff in Hna. destruct Hna as [Hna1 Hna2].
    rewrite run_list_cons in H.
    destruct (run N P A t s d) as [[d1|e] s1] eqn:E1.
    + apply (Ht s d _ s1 Hna1) in E1.
      destruct (run_list d ts s1) as [[ds|e] s2] eqn:E2.
      * apply (IH Hna2) in E2. inversion H; subst. congruence.
      * apply (IH Hna2) in E2. inversion H; subst. congruence.
    + apply (Ht s d _ s1 Hna1) in E1. inversion H; subst. exact E1.
Qed.

Lemma no_acc_grads : forall t s d r s', no_acc t = true -> run N P A t s d = (r, s') -> s_grads s' = s_grads s.
Proof.
  intros t. change (keeps_grads t).
  induction t as [vals|c|keys req|ts IH|ts IH|o i IHo IHi|keys|outs ins retain|outs ins chunk retain
                 |keys|ord|keys] using tr_ind';
    intros s d r s' Hna Hrun.
  - cbn [run] in Hrun. destruct (negb _) in Hrun; inversion Hrun; reflexivity.
  - cbn [run] in Hrun. destruct (negb _) in Hrun; inversion Hrun; reflexivity.
  - cbn [run] in Hrun. destruct (negb _) in Hrun; inversion Hrun; reflexivity.
  - rewrite run_stack_eq in Hrun. destruct (negb _) in Hrun; [inversion Hrun; reflexivity|].
    cbn [no_acc] in Hna.
    destruct (run_list d ts s) as [[ds|e] s1] eqn:EL;
      apply (run_list_grads d ts IH Hna) in EL; inversion Hrun; subst; exact EL.
  - rewrite run_conj_eq in Hrun. destruct (negb _) in Hrun; [inversion Hrun; reflexivity|].
    cbn [no_acc] in Hna.
    destruct (run_list d ts s) as [[ds|e] s1] eqn:EL;
      apply (run_list_grads d ts IH Hna) in EL; inversion Hrun; subst; exact EL.
  - cbn [no_acc] in Hna. apply andb_true_iff in Hna. destruct Hna as [Hno Hni].
    cbn [run] in Hrun. destruct (negb _) in Hrun; [inversion Hrun; reflexivity|].
    destruct (run N P A i s d) as [[d1|e] s1] eqn:Ei.
    + apply (IHi s d _ s1 Hni) in Ei. apply (IHo s1 d1 r s' Hno) in Hrun. congruence.
    + apply (IHi s d _ s1 Hni) in Ei. inversion Hrun; subst. exact Ei.
  - cbn [no_acc] in Hna. discriminate Hna.
  - cbn [run] in Hrun. destruct (negb _) in Hrun; [inversion Hrun; reflexivity|].
    eapply grad_compute_grads. exact Hrun.
  - cbn [run] in Hrun. destruct (negb _) in Hrun; [inversion Hrun; reflexivity|].
    eapply jac_compute_grads. exact Hrun.
  - cbn [run] in Hrun. destruct (negb _) in Hrun; inversion Hrun; reflexivity.
  - cbn [run] in Hrun. destruct (negb _) in Hrun; inversion Hrun; reflexivity.
  - cbn [run] in Hrun. destruct (negb _) in Hrun; inversion Hrun; reflexivity.
Qed.

(* ---------- backward: a failing call leaves every .grad untouched ---------- *)
Lemma backward_atomic : forall tensors ord k retain s e s',
  backward_model N P A tensors ord k retain s = (Err e, s') -> s_grads s' = s_grads s.
Proof.
  intros tensors ord k retain s e s' H. unfold backward_model in H.
  destruct (negb (valid_chunk k)); [inversion H; reflexivity|].
  destruct tensors as [|t0 tensors]; [inversion H; reflexivity|].
  unfold build_and_run in H. destruct (wf _); [|inversion H; reflexivity].
  unfold backward_transform in H.
  apply run_comp_err in H. destruct H as [[_ Hs]|[H|[d1 [s1 [H1 H2]]]]].
  - subst s'. reflexivity.
  - eapply no_acc_grads; [|exact H]. reflexivity.
  - apply run_accumulate_err in H2. subst s'. eapply no_acc_grads; [|exact H1]. reflexivity.
Qed.

(* ---------- the argument checks as one boolean ---------- *)
Lemma backward_args_rejected : forall tensors ord k retain s,
  backward_args_ok tensors ord k retain = false ->
  backward_model N P A tensors ord k retain s = (Err ValueError, s).
Proof.
  intros tensors ord k retain s. unfold backward_args_ok, backward_model, is_nil.
  destruct (valid_chunk k); cbn [negb andb]; [|intros _; reflexivity].
  destruct tensors as [|t0 tensors]; cbn [negb andb]; [intros _; reflexivity|].
  intros Hwf. unfold build_and_run. rewrite Hwf. reflexivity.
Qed.

Lemma mtl_args_rejected : forall losses features tasks shared k retain s,
  mtl_args_ok P losses features tasks shared k retain = false ->
  mtl_backward_model N P A losses features tasks shared k retain s = (Err ValueError, s).
Proof.
  intros losses features tasks shared k retain s.
  unfold mtl_args_ok, mtl_backward_model, is_nil.
  destruct (valid_chunk k); cbn [negb andb]; [|intros _; reflexivity].
  destruct features as [|f0 features]; cbn [negb andb]; [intros _; reflexivity|].
  destruct (inter (concat tasks) shared) as [|q0 qs]; cbn [negb andb]; [|intros _; reflexivity].
  destruct (forallb _ losses); cbn [negb andb]; [|intros _; reflexivity].
  destruct losses as [|l0 losses]; cbn [negb andb]; [intros _; reflexivity|].
  destruct (length (l0 :: losses) =? length tasks); cbn [negb andb]; [|intros _; reflexivity].
  destruct (expects_all P (shared ++ concat tasks)); cbn [negb andb]; [|intros _; reflexivity].
  intros Hwf. unfold build_and_run. rewrite Hwf. reflexivity.
Qed.

Lemma mtl_args_accepted : forall losses features tasks shared k retain s,
  mtl_args_ok P losses features tasks shared k retain = true ->
  mtl_backward_model N P A losses features tasks shared k retain s
  = run N P A (mtl_transform losses features tasks shared k retain) s empty_dict.
Proof.
  intros losses features tasks shared k retain s.
  unfold mtl_args_ok, mtl_backward_model, is_nil.
  destruct (valid_chunk k); cbn [negb andb]; [|intros Hf; discriminate Hf].
  destruct features as [|f0 features]; cbn [negb andb]; [intros Hf; discriminate Hf|].
  destruct (inter (concat tasks) shared) as [|q0 qs]; cbn [negb andb]; [|intros Hf; discriminate Hf].
  destruct (forallb _ losses); cbn [negb andb]; [|intros Hf; discriminate Hf].
  destruct losses as [|l0 losses]; cbn [negb andb]; [intros Hf; discriminate Hf|].
  destruct (length (l0 :: losses) =? length tasks); cbn [negb andb]; [|intros Hf; discriminate Hf].
  destruct (expects_all P (shared ++ concat tasks)); cbn [negb andb]; [|intros Hf; discriminate Hf].
  intros Hwf. unfold build_and_run. rewrite Hwf. reflexivity.
Qed.

(* ---------- what an accepted argument list satisfies ---------- *)
Lemma mtl_args_ok_inv : forall losses features tasks shared k retain,
  mtl_args_ok P losses features tasks shared k retain = true ->
  valid_chunk k = true /\ is_nil features = false /\
  is_nil (inter (concat tasks) shared) = true /\
  forallb (fun l => is_nil (p_shape P l)) losses = true /\
  is_nil losses = false /\ length losses = length tasks /\
  expects_all P (shared ++ concat tasks) = true /\
  wf (mtl_transform losses features tasks shared k retain) = true.
Proof.
  intros losses features tasks shared k retain H. unfold mtl_args_ok in H.
  repeat rewrite andb_true_iff in H.
  destruct H as [[[[[[[H1 H2] H3] H4] H5] H6] H7] H8].
  apply negb_true_iff in H2. apply negb_true_iff in H5. apply Nat.eqb_eq in H6.
  repeat split; assumption.
Qed.

Lemma wf_mtl_inv : forall losses features tasks shared k retain,
  wf (mtl_transform losses features tasks shared k retain) = true ->
  nodupb features = true /\ nodupb shared = true /\
  forall ps l, In (ps, l) (combine tasks losses) -> nodupb (ps ++ features) = true.
Proof.
  intros losses features tasks shared k retain H.
  unfold mtl_transform, TAggregate in H. cbn [wf] in H.
  repeat rewrite andb_true_iff in H.
  destruct H as [[_ [[_ [[[Hf Hs] [Hall _]] _]] _]] _].
  split; [exact Hf|]. split; [exact Hs|].
  intros ps l Hin. rewrite forallb_forall in Hall.
  specialize (Hall (task_transform features (fst (ps, l)) (snd (ps, l)) retain)).
  assert (Hm : In (task_transform features (fst (ps, l)) (snd (ps, l)) retain)
                  (map (fun pl => task_transform features (fst pl) (snd pl) retain)
                       (combine tasks losses))).
  { apply in_map with (f := fun pl => task_transform features (fst pl) (snd pl) retain). exact Hin. }
  apply Hall in Hm. cbn [fst snd] in Hm. unfold task_transform in Hm. cbn [wf] in Hm.
  repeat rewrite andb_true_iff in Hm.
  destruct Hm as [[_ [[[_ Hnd] _] _]] _]. exact Hnd.
Qed.

Lemma wf_backward_inv : forall tensors ord k retain,
  wf (backward_transform tensors ord k retain) = true -> nodupb tensors = true.
Proof.
  intros tensors ord k retain H.
  unfold backward_transform, TAggregate in H. cbn [wf] in H.
  repeat rewrite andb_true_iff in H.
  destruct H as [[_ [[_ [[[Ht _] _] _]] _]] _]. exact Ht.
Qed.

(* ---------- every kind of invalid argument makes the checks fail ---------- *)
Lemma bad_chunk : forall losses features tasks shared retain,
  mtl_args_ok P losses features tasks shared (Some 0) retain = false.
Proof. intros losses features tasks shared retain. reflexivity. Qed.

Lemma bad_no_features : forall losses tasks shared k retain,
  mtl_args_ok P losses [] tasks shared k retain = false.
Proof.
  intros losses tasks shared k retain.
  destruct (mtl_args_ok P losses [] tasks shared k retain) eqn:E; [|reflexivity].
  apply mtl_args_ok_inv in E. destruct E as [_ [E _]]. discriminate E.
Qed.

Lemma bad_no_losses : forall features tasks shared k retain,
  mtl_args_ok P [] features tasks shared k retain = false.
Proof.
  intros features tasks shared k retain.
  destruct (mtl_args_ok P [] features tasks shared k retain) eqn:E; [|reflexivity].
  apply mtl_args_ok_inv in E. destruct E as [_ [_ [_ [_ [E _]]]]]. discriminate E.
Qed.

Lemma bad_nonscalar_loss : forall losses features tasks shared k retain l,
  In l losses -> p_shape P l <> [] -> mtl_args_ok P losses features tasks shared k retain = false.
Proof.
  intros losses features tasks shared k retain l Hin Hsh.
  destruct (mtl_args_ok P losses features tasks shared k retain) eqn:E; [|reflexivity].
  apply mtl_args_ok_inv in E. destruct E as [_ [_ [_ [E _]]]].
  rewrite forallb_forall in E. apply E in Hin.
  exfalso. apply Hsh. destruct (p_shape P l); [reflexivity | discriminate Hin].
Qed.

Lemma bad_length_mismatch : forall losses features tasks shared k retain,
  length losses <> length tasks -> mtl_args_ok P losses features tasks shared k retain = false.
Proof.
  intros losses features tasks shared k retain Hne.
  destruct (mtl_args_ok P losses features tasks shared k retain) eqn:E; [|reflexivity].
  apply mtl_args_ok_inv in E. destruct E as [_ [_ [_ [_ [_ [E _]]]]]]. contradiction.
Qed.

Lemma bad_overlap : forall losses features tasks shared k retain q ps,
  In ps tasks -> In q ps -> In q shared -> mtl_args_ok P losses features tasks shared k retain = false.
Proof.
  intros losses features tasks shared k retain q ps Hps Hq Hsh.
  destruct (mtl_args_ok P losses features tasks shared k retain) eqn:E; [|reflexivity].
  apply mtl_args_ok_inv in E. destruct E as [_ [_ [E _]]].
  assert (Hin : In q (inter (concat tasks) shared)).
  { unfold inter. apply filter_In. split.
    - apply in_concat. exists ps. split; assumption.
    - apply c20_mem_In. exact Hsh. }
  destruct (inter (concat tasks) shared); [contradiction | discriminate E].
Qed.

Lemma bad_param_no_grad : forall losses features tasks shared k retain q,
  In q (shared ++ concat tasks) -> p_expects P q = false ->
  mtl_args_ok P losses features tasks shared k retain = false.
Proof.
  intros losses features tasks shared k retain q Hin Hq.
  destruct (mtl_args_ok P losses features tasks shared k retain) eqn:E; [|reflexivity].
  apply mtl_args_ok_inv in E. destruct E as [_ [_ [_ [_ [_ [_ [E _]]]]]]].
  unfold expects_all in E. rewrite forallb_forall in E. apply E in Hin. congruence.
Qed.

Lemma bad_duplicate_features : forall losses features tasks shared k retain,
  ~ NoDup features -> mtl_args_ok P losses features tasks shared k retain = false.
Proof.
  intros losses features tasks shared k retain Hnd.
  destruct (mtl_args_ok P losses features tasks shared k retain) eqn:E; [|reflexivity].
  apply mtl_args_ok_inv in E. destruct E as [_ [_ [_ [_ [_ [_ [_ E]]]]]]].
  apply wf_mtl_inv in E. destruct E as [E _].
  exfalso. apply Hnd. apply c20_nodupb_NoDup. exact E.
Qed.

Lemma bad_duplicate_shared : forall losses features tasks shared k retain,
  ~ NoDup shared -> mtl_args_ok P losses features tasks shared k retain = false.
Proof.
  intros losses features tasks shared k retain Hnd.
  destruct (mtl_args_ok P losses features tasks shared k retain) eqn:E; [|reflexivity].
  apply mtl_args_ok_inv in E. destruct E as [_ [_ [_ [_ [_ [_ [_ E]]]]]]].
  apply wf_mtl_inv in E. destruct E as [_ [E _]].
  exfalso. apply Hnd. apply c20_nodupb_NoDup. exact E.
Qed.

Lemma bad_duplicate_task_params : forall losses features tasks shared k retain ps l,
  In (ps, l) (combine tasks losses) -> ~ NoDup (ps ++ features) ->
  mtl_args_ok P losses features tasks shared k retain = false.
Proof.
  intros losses features tasks shared k retain ps l Hin Hnd.
  destruct (mtl_args_ok P losses features tasks shared k retain) eqn:E; [|reflexivity].
  apply mtl_args_ok_inv in E. destruct E as [_ [_ [_ [_ [_ [_ [_ E]]]]]]].
  apply wf_mtl_inv in E. destruct E as [_ [_ E]].
  exfalso. apply Hnd. apply c20_nodupb_NoDup. exact (E ps l Hin).
Qed.

(* the same for backward *)
Lemma bad_backward_chunk : forall tensors ord retain, backward_args_ok tensors ord (Some 0) retain = false.
Proof. intros tensors ord retain. reflexivity. Qed.

Lemma bad_backward_empty : forall ord k retain, backward_args_ok [] ord k retain = false.
Proof.
  intros ord k retain. unfold backward_args_ok. cbn [is_nil negb].
  rewrite andb_false_r. reflexivity.
Qed.

Lemma bad_backward_duplicate_tensors : forall tensors ord k retain,
  ~ NoDup tensors -> backward_args_ok tensors ord k retain = false.
Proof.
  intros tensors ord k retain Hnd.
  destruct (backward_args_ok tensors ord k retain) eqn:E; [|reflexivity].
  unfold backward_args_ok in E. repeat rewrite andb_true_iff in E. destruct E as [_ E].
  apply wf_backward_inv in E.
  exfalso. apply Hnd. apply c20_nodupb_NoDup. exact E.
Qed.
End C20.

Print Assumptions backward_atomic.
Print Assumptions mtl_args_rejected.
Print Assumptions mtl_args_accepted.
Print Assumptions no_acc_grads.
Print Assumptions bad_duplicate_task_params.
