From Coq Require Import List Bool Arith Lia.
From TJ Require Import Chunk.
Import ListNotations.

Lemma valid_chunk_pos m k : valid_chunk k = true -> 1 <= m -> 1 <= max_chunk m k.
Proof.
  intros Hk Hm. unfold max_chunk. destruct k as [k'|]; [|lia].
  unfold valid_chunk in Hk. apply Nat.ltb_lt in Hk. lia.
Qed.

Lemma ceil_div_bounds m k : 1 <= k -> 1 <= m ->
  1 <= ceil_div m k /\ (ceil_div m k - 1) * k < m /\ m <= ceil_div m k * k.
Proof.
  intros Hk Hm. unfold ceil_div.
  pose proof (Nat.div_mod (m + k - 1) k ltac:(lia)) as Hdm.
  pose proof (Nat.mod_upper_bound (m + k - 1) k ltac:(lia)) as Hub.
  set (q := (m + k - 1) / k) in *. set (r := (m + k - 1) mod k) in *.
  assert (Hq : 1 <= q).
  { destruct q as [|q']; [|lia]. rewrite Nat.mul_0_r in Hdm. lia. }
  split; [exact Hq|].
  destruct q as [|q']; [lia|]. cbn [Nat.sub]. rewrite Nat.sub_0_r.
  split; nia.
Qed.

Lemma concat_full_chunks mc n :
  concat (map (fun i => seq (i * mc) mc) (seq 0 n)) = seq 0 (n * mc).
Proof.
  induction n as [|n IH]; [reflexivity|].
  rewrite seq_S, map_app, concat_app, IH. cbn [map concat Nat.add].
  rewrite app_nil_r. replace (S n * mc) with (n * mc + mc) by lia.
  rewrite seq_app. reflexivity.
Qed.

Lemma plan_rows_cover m k retain : valid_chunk k = true -> 1 <= m ->
  concat (map chunk_rows (chunk_plan m k retain)) = seq 0 m.
Proof.
  intros Hk Hm. unfold chunk_plan.
  set (mc := max_chunk m k).
  assert (Hmc : 1 <= mc) by (apply valid_chunk_pos; assumption).
  destruct (ceil_div_bounds m mc Hmc Hm) as (Hn & Hlo & Hhi).
  set (n := ceil_div m mc) in *.
  rewrite map_app, concat_app, map_map. unfold chunk_rows. cbn [map concat c_start c_len].
  rewrite app_nil_r.
  rewrite concat_full_chunks.
  replace m with ((n - 1) * mc + (m - (n - 1) * mc)) at 2 by lia.
  rewrite seq_app. reflexivity.
Qed.



Lemma plan_count m k retain : valid_chunk k = true -> 1 <= m ->
  length (chunk_plan m k retain) = ceil_div m (max_chunk m k).
Proof.
  intros Hk Hm. unfold chunk_plan. rewrite app_length, map_length, seq_length. cbn [length].
  assert (Hmc : 1 <= max_chunk m k) by (apply valid_chunk_pos; assumption).
  destruct (ceil_div_bounds m _ Hmc Hm) as (Hn & _ & _). lia.
Qed.

Lemma plan_sizes m k retain c : valid_chunk k = true -> 1 <= m ->
  In c (chunk_plan m k retain) ->
  1 <= c_len c /\ c_len c <= max_chunk m k /\ c_start c + c_len c <= m /\
  c_batched c = negb (c_len c =? 1).
Proof.
  intros Hk Hm Hin. unfold chunk_plan in Hin.
  set (mc := max_chunk m k) in *.
  assert (Hmc : 1 <= mc) by (apply valid_chunk_pos; assumption).
  destruct (ceil_div_bounds m mc Hmc Hm) as (Hn & Hlo & Hhi).
  set (n := ceil_div m mc) in *.
  apply in_app_or in Hin. destruct Hin as [Hin|Hin].
  - apply in_map_iff in Hin. destruct Hin as (i & <- & Hi). apply in_seq in Hi.
    cbn [c_len c_start c_batched]. repeat split; try lia; try reflexivity.
    assert ((i + 1) * mc <= (n - 1) * mc) by (apply Nat.mul_le_mono_r; lia). lia.
  - destruct Hin as [<-|[]]. cbn [c_len c_start c_batched].
    assert (n * mc = (n - 1) * mc + mc) as E.
    { destruct n as [|n']; [lia|]. cbn [Nat.sub]. rewrite Nat.sub_0_r. cbn [Nat.mul]. lia. }
    repeat split; try lia; try reflexivity.
Qed.

Lemma plan_retain_flags m k retain :
  exists front last, chunk_plan m k retain = front ++ [last] /\
    Forall (fun c => c_retain c = true) front /\ c_retain last = retain.
Proof.
  unfold chunk_plan. eexists _, _. split; [reflexivity|]. split; [|reflexivity].
  apply Forall_forall. intros c Hin. apply in_map_iff in Hin. destruct Hin as (i & <- & _).
  reflexivity.
Qed.

Lemma plan_sequential_k1 m retain c : 1 <= m ->
  In c (chunk_plan m (Some 1) retain) -> c_batched c = false /\ c_len c = 1.
Proof.
  intros Hm Hin.
  destruct (plan_sizes m (Some 1) retain c eq_refl Hm Hin) as (H1 & H2 & _ & Hb).
  cbn [max_chunk] in H2. assert (c_len c = 1) as E by lia. rewrite Hb, E. split; reflexivity.
Qed.

Lemma plan_single_row k retain c : valid_chunk k = true ->
  In c (chunk_plan 1 k retain) -> c_batched c = false.
Proof.
  intros Hk Hin.
  destruct (plan_sizes 1 k retain c Hk (le_n 1) Hin) as (H1 & _ & H3 & Hb).
  assert (c_len c = 1) as E by lia. rewrite Hb, E. reflexivity.
Qed.

Lemma plan_none_single m retain : 1 <= m ->
  chunk_plan m None retain = [mkChunk 0 m (negb (m =? 1)) retain].
Proof.
  intros Hm. unfold chunk_plan. cbn [max_chunk].
  assert (E : ceil_div m m = 1).
  { destruct (ceil_div_bounds m m Hm Hm) as (H1 & H2 & H3).
    destruct (ceil_div m m) as [|[|n]]; try lia. }
  rewrite E. cbn. rewrite Nat.sub_0_r. reflexivity.
Qed.

Lemma plan_large_k m k retain : 1 <= m -> m <= k ->
  chunk_plan m (Some k) retain = [mkChunk 0 m (negb (m =? 1)) retain].
Proof.
  intros Hm Hk. unfold chunk_plan. cbn [max_chunk].
  assert (E : ceil_div m k = 1).
  { destruct (ceil_div_bounds m k ltac:(lia) Hm) as (H1 & H2 & H3).
    destruct (ceil_div m k) as [|[|n]]; try lia. }
  rewrite E. cbn. rewrite Nat.sub_0_r. reflexivity.
Qed.

Lemma run_plan_rows {A} (f : nat -> A) m k retain : valid_chunk k = true -> 1 <= m ->
  run_plan f (chunk_plan m k retain) = map f (seq 0 m).
Proof.
  intros Hk Hm. unfold run_plan.
  rewrite <- (plan_rows_cover m k retain Hk Hm).
  rewrite concat_map, map_map. reflexivity.
Qed.
