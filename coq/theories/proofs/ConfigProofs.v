From Coq Require Import Reals List Bool Arith Lia Lra Psatz Permutation.
From TJ Require Import Num Linalg NumR Agg.
From TJ.proofs Require Import LinalgR QPProofs C03Proofs C18Proofs C16Proofs C08Proofs C11Proofs C10Proofs EquivarianceProofs.
Import ListNotations.
Local Open Scope R_scope.
From TJ.proofs Require Import MgdaProofs.

(* ConfigProofs.v — ConFIG, whose model is not in Gramian form:
     K1  C08:  A(J Q) = A(J) Q for Q with orthonormal rows, with the oracle  B' = Q^T B ;
     K2  C10:  row permutations, with the oracle  B' = B with its columns permuted ;
   and
     K3  C10 for MGDA when the Frank-Wolfe argmin is attained at a unique index along the run.
   The pseudo-inverse kernel is an ORACLE ARGUMENT of agg_config; what is proved about the oracle
   is that its CONTRACT (U B = I, and the four Penrose equations in operator form) transfers to
   the transformed oracle for the transformed problem. *)

(* ================================================================== *)
(* 0. the model, re-read through the "unit vector with guard" function *)
(* ================================================================== *)
Definition cunit (r : list R) : list R :=
  if Rleb (sqrt (dotR r r)) 0 then vzeroR (length r) else vscaleR (1 / sqrt (dotR r r)) r.

Lemma config_units_cunit J : config_units RN J = map cunit J.
Proof. reflexivity. Qed.

Lemma agg_config_cunit B pref J :
  agg_config RN B pref J =
  rbind (pref_weights pref (sum_weights RN (length J)) (length J)) (fun w =>
    Ok (vscaleR (vsumR (map (fun g => dotR g (cunit (mvR B w))) J)) (cunit (mvR B w)))).
Proof. reflexivity. Qed.

Lemma length_cunit r : length (cunit r) = length r.
Proof.
  unfold cunit. destruct (Rleb (sqrt (dotR r r)) 0); [apply length_vzero | apply length_vscale].
Qed.

Lemma wfmat_config_units n J : wfmat n J -> wfmat n (config_units RN J).
Proof.
  intros HJ. rewrite config_units_cunit. unfold wfmat in *. rewrite Forall_forall in *.
  intros r Hr. apply in_map_iff in Hr. destruct Hr as (r0 & <- & Hr0).
  rewrite length_cunit. apply HJ. exact Hr0.
Qed.

Lemma length_config_units J : length (config_units RN J) = length J.
Proof. apply map_length. Qed.

(* ================================================================== *)
(* K1. C08 for ConFIG                                                  *)
(* ================================================================== *)
Lemma orth_wf n p Q : orth n p Q -> wfmat p Q.
Proof. intros (H & _). exact H. Qed.
Lemma orth_len n p Q : orth n p Q -> length Q = n.
Proof. intros (_ & H & _). exact H. Qed.

(* (a) the unit rows commute with Q *)
Lemma cunit_vm n p Q r : orth n p Q -> length r = n -> cunit (vmR p r Q) = vmR p (cunit r) Q.
Proof.
  intros Ho Hr. pose proof (orth_wf n p Q Ho) as HQ. unfold cunit.
  rewrite (dot_mmul n p Q r r Ho Hr Hr). rewrite (length_vm p r Q HQ).
  destruct (Rleb (sqrt (dotR r r)) 0).
  - symmetry. apply vm_vzero_any. exact HQ.
  - symmetry. apply vm_vscale. exact HQ.
Qed.

Theorem config_units_mmul n p J Q : orth n p Q -> wfmat n J ->
  config_units RN (mmulR p J Q) = mmulR p (config_units RN J) Q.
Proof.
  intros Ho HJ. rewrite !config_units_cunit. unfold mmul. rewrite !map_map.
  apply map_ext_in. intros r Hr. unfold wfmat in HJ. rewrite Forall_forall in HJ.
  apply (cunit_vm n p Q r Ho). apply HJ. exact Hr.
Qed.

(* (b) the oracle for U Q :  B' = Q^T B   (p x m, by rows: row j of B' = sum_k Q_kj * row k of B) *)
Definition config_pinv_Q (p m : nat) (Q B : list (list R)) : list (list R) :=
  mmulR m (transposeR p Q) B.

Lemma length_config_pinv_Q p m Q B : length (config_pinv_Q p m Q B) = p.
Proof. unfold config_pinv_Q. rewrite length_mmul. apply length_transpose. Qed.

Lemma wfmat_config_pinv_Q p m Q B : wfmat m B -> wfmat m (config_pinv_Q p m Q B).
Proof. intros HB. unfold config_pinv_Q. apply wfmat_mmul. exact HB. Qed.

Lemma nth_transpose p Q j : (j < p)%nat -> nth j (transposeR p Q) [] = column RN Q j.
Proof.
  intros Hj. unfold transpose.
  rewrite (nth_map_in (column RN Q) (seq 0 p) 0%nat [] j) by (rewrite seq_length; exact Hj).
  rewrite seq_nth by exact Hj. reflexivity.
Qed.

(* Q^T y = y . Q *)
Lemma mv_transpose p Q y : wfmat p Q -> length y = length Q ->
  mvR (transposeR p Q) y = vmR p y Q.
Proof.
  intros HQ Hy. apply (nth_ext _ _ 0 0).
  - rewrite length_mv, length_transpose, (length_vm p y Q HQ). reflexivity.
  - intros j Hj. rewrite length_mv, length_transpose in Hj.
    rewrite nth_mv by (rewrite length_transpose; exact Hj).
    rewrite nth_transpose by exact Hj.
    rewrite (nth_vm p j y Q HQ Hy Hj). apply dot_comm.
Qed.

(* B' x = Q^T (B x) = (B x) . Q *)
Lemma mv_config_pinv_Q p m Q B x : wfmat p Q -> wfmat m B -> length B = length Q ->
  mvR (config_pinv_Q p m Q B) x = vmR p (mvR B x) Q.
Proof.
  intros HQ HB Hl.
  rewrite <- (mv_transpose p Q (mvR B x) HQ) by (rewrite length_mv; exact Hl).
  unfold config_pinv_Q, mmul. unfold mv at 1. rewrite map_map.
  change (mvR (transposeR p Q) (mvR B x))
    with (map (fun r => dotR r (mvR B x)) (transposeR p Q)).
  apply map_ext_in. intros r Hr.
  pose proof (wfmat_transpose p Q) as Hw. unfold wfmat in Hw. rewrite Forall_forall in Hw.
  apply (dot_vm m r B x HB). rewrite (Hw r Hr). symmetry. exact Hl.
Qed.

(* (U Q) z = U (Q z) *)
Lemma mv_mmul n p U Q z : wfmat p Q -> wfmat n U -> length Q = n ->
  mvR (mmulR p U Q) z = mvR U (mvR Q z).
Proof.
  intros HQ HU Hl. unfold mmul, mv at 1. rewrite map_map. unfold mv at 1.
  apply map_ext_in. intros r Hr. unfold wfmat in HU. rewrite Forall_forall in HU.
  apply (dot_vm p r Q z HQ). rewrite (HU r Hr). symmetry. exact Hl.
Qed.

(* Q (y . Q) = y   (this is Q Q^T = I) *)
Lemma mv_vm_orth n p Q y : orth n p Q -> length y = n -> mvR Q (vmR p y Q) = y.
Proof.
  intros (HQ & Hl & Ho) Hy. rewrite <- (mv_gram p Q y HQ) by congruence. apply Ho. exact Hy.
Qed.

(* (U Q) (y . Q) = U y *)
Lemma mv_mmul_vm n p U Q y : orth n p Q -> wfmat n U -> length y = n ->
  mvR (mmulR p U Q) (vmR p y Q) = mvR U y.
Proof.
  intros Ho HU Hy.
  rewrite (mv_mmul n p U Q _ (orth_wf n p Q Ho) HU (orth_len n p Q Ho)).
  rewrite (mv_vm_orth n p Q y Ho Hy). reflexivity.
Qed.

(* the contract  U B = I  transfers:  (U Q) (Q^T B) = I *)
Theorem config_contract_mmul n p m J Q B : orth n p Q -> wfmat n J -> wfmat m B -> length B = n ->
  (forall x, length x = m -> mvR (config_units RN J) (mvR B x) = x) ->
  (forall x, length x = m ->
     mvR (config_units RN (mmulR p J Q)) (mvR (config_pinv_Q p m Q B) x) = x).
Proof.
  intros Ho HJ HB Hl HUB x Hx.
  rewrite (config_units_mmul n p J Q Ho HJ).
  rewrite (mv_config_pinv_Q p m Q B x (orth_wf n p Q Ho) HB)
    by (rewrite (orth_len n p Q Ho); exact Hl).
  rewrite (mv_mmul_vm n p _ Q _ Ho (wfmat_config_units n J HJ))
    by (rewrite length_mv; exact Hl).
  apply HUB. exact Hx.
Qed.

(* (c) the aggregation *)
Lemma vsum_map_ext_in {A} (f g : A -> R) l : (forall a, In a l -> f a = g a) ->
  vsumR (map f l) = vsumR (map g l).
Proof. intros H. f_equal. apply map_ext_in. exact H. Qed.

Theorem agg_config_mmul n p m J Q B pref : orth n p Q -> wfmat n J -> wfmat m B -> length B = n ->
  agg_config RN (config_pinv_Q p m Q B) pref (mmulR p J Q) =
  res_map (fun v => vmR p v Q) (agg_config RN B pref J).
Proof.
  intros Ho HJ HB Hl. pose proof (orth_wf n p Q Ho) as HQ. pose proof (orth_len n p Q Ho) as HlQ.
  rewrite !agg_config_cunit. rewrite length_mmul.
  destruct (pref_weights pref (sum_weights RN (length J)) (length J)) as [w|e];
    cbn [rbind res_map]; [|reflexivity].
  f_equal.
  rewrite (mv_config_pinv_Q p m Q B w HQ HB) by congruence.
  set (best := mvR B w).
  assert (Hb : length best = n) by (unfold best; rewrite length_mv; exact Hl).
  rewrite (cunit_vm n p Q best Ho Hb).
  set (u := cunit best).
  assert (Hu : length u = n) by (unfold u; rewrite length_cunit; exact Hb).
  unfold mmul. rewrite map_map.
  rewrite (vsum_map_ext_in (fun g => dotR (vmR p g Q) (vmR p u Q)) (fun g => dotR g u)).
  - symmetry. apply vm_vscale. exact HQ.
  - intros g Hg. unfold wfmat in HJ. rewrite Forall_forall in HJ.
    apply (dot_mmul n p Q g u Ho); [apply HJ; exact Hg | exact Hu].
Qed.

(* K1, assembled *)
Theorem config_orthogonal n p m J Q B pref :
  orth n p Q -> wfmat n J -> wfmat m B -> length B = n ->
  let B' := config_pinv_Q p m Q B in
  length B' = p /\ wfmat m B' /\
  config_units RN (mmulR p J Q) = mmulR p (config_units RN J) Q /\
  ((forall x, length x = m -> mvR (config_units RN J) (mvR B x) = x) ->
   (forall x, length x = m -> mvR (config_units RN (mmulR p J Q)) (mvR B' x) = x)) /\
  agg_config RN B' pref (mmulR p J Q) = res_map (fun v => vmR p v Q) (agg_config RN B pref J).
Proof.
  intros Ho HJ HB Hl B'. split; [apply length_config_pinv_Q|].
  split; [apply wfmat_config_pinv_Q; exact HB|].
  split; [apply (config_units_mmul n); assumption|].
  split; [apply (config_contract_mmul n); assumption|].
  apply (agg_config_mmul n); assumption.
Qed.

(* ---- K1, stronger oracle contract: the four Penrose equations (operator form) transfer ---- *)
(* U : m x n (by rows), B : n x m (by rows).  B = pinv(U)  iff
   U B U = U,  B U B = B,  U B symmetric,  B U symmetric. *)
Definition pinv_op (m n : nat) (U B : list (list R)) : Prop :=
  (forall z, length z = n -> mvR U (mvR B (mvR U z)) = mvR U z) /\
  (forall x, length x = m -> mvR B (mvR U (mvR B x)) = mvR B x) /\
  (forall x y, length x = m -> length y = m ->
     dotR (mvR U (mvR B x)) y = dotR x (mvR U (mvR B y))) /\
  (forall z z', length z = n -> length z' = n ->
     dotR (mvR B (mvR U z)) z' = dotR z (mvR B (mvR U z'))).

Theorem pinv_op_mmul n p m U Q B : orth n p Q -> wfmat n U -> wfmat m B -> length B = n ->
  pinv_op m n U B -> pinv_op m p (mmulR p U Q) (config_pinv_Q p m Q B).
Proof.
  intros Ho HU HB Hl (P1 & P2 & P3 & P4).
  pose proof (orth_wf n p Q Ho) as HQ. pose proof (orth_len n p Q Ho) as HlQ.
  assert (HlBQ : length B = length Q) by congruence.
  assert (EB : forall x, mvR (config_pinv_Q p m Q B) x = vmR p (mvR B x) Q).
  { intros x. apply mv_config_pinv_Q; assumption. }
  assert (EU : forall z, mvR (mmulR p U Q) z = mvR U (mvR Q z)).
  { intros z. apply (mv_mmul n); assumption. }
  assert (EUv : forall y, length y = n -> mvR (mmulR p U Q) (vmR p y Q) = mvR U y).
  { intros y Hy. apply (mv_mmul_vm n); assumption. }
  assert (HQz : forall z, length (mvR Q z) = n) by (intros z; rewrite length_mv; exact HlQ).
  assert (HBx : forall x, length (mvR B x) = n) by (intros x; rewrite length_mv; exact Hl).
  repeat split.
  - intros z Hz. rewrite EB. rewrite EUv by apply HBx. rewrite !EU. apply P1. apply HQz.
  - intros x Hx. rewrite !EB. rewrite EUv by apply HBx. rewrite P2 by exact Hx. reflexivity.
  - intros x y Hx Hy. rewrite !EB. rewrite !EUv by apply HBx. apply P3; assumption.
  - intros z z' Hz Hz'. rewrite !EB, !EU.
    rewrite (dot_vm p _ Q z' HQ) by (rewrite HBx; symmetry; exact HlQ).
    rewrite (dot_comm z), (dot_vm p _ Q z HQ) by (rewrite HBx; symmetry; exact HlQ).
    rewrite (dot_comm _ (mvR Q z)). apply P4; apply HQz.
Qed.

(* ================================================================== *)
(* K2. C10 for ConFIG                                                  *)
(* ================================================================== *)
(* the oracle for the permuted units: B with its columns permuted *)
Definition config_pinv_perm (p : list nat) (B : list (list R)) : list (list R) :=
  map (permR p) B.

Lemma length_config_pinv_perm p B : length (config_pinv_perm p B) = length B.
Proof. apply map_length. Qed.

Lemma wfmat_config_pinv_perm p B : wfmat (length p) (config_pinv_perm p B).
Proof.
  unfold wfmat, config_pinv_perm. apply Forall_forall. intros r Hr. apply in_map_iff in Hr.
  destruct Hr as (r0 & <- & _). apply length_permR.
Qed.

(* the unit rows permute with the rows *)
Theorem config_units_perm_rows J p : (forall i, In i p -> (i < length J)%nat) ->
  config_units RN (perm_rows p J) = perm_rows p (config_units RN J).
Proof.
  intros Hp. rewrite !config_units_cunit. unfold perm_rows. rewrite map_map.
  apply map_ext_in. intros i Hi. symmetry.
  apply (nth_map_in cunit J [] [] i). apply Hp. exact Hi.
Qed.

(* B' (w permuted) = B w : dot products of two vectors permuted the same way *)
Lemma mv_config_pinv_perm m p B w : wfmat m B -> is_perm m p -> length w = m ->
  mvR (config_pinv_perm p B) (permR p w) = mvR B w.
Proof.
  intros HB Hp Hw. unfold config_pinv_perm, mv. rewrite map_map. apply map_ext_in.
  intros b Hb. unfold wfmat in HB. rewrite Forall_forall in HB. pose proof (HB b Hb) as Hlb.
  apply dot_permR; [rewrite Hlb; exact Hp | congruence].
Qed.

(* (P U) y = P (U y) *)
Lemma mv_perm_rows p U y : (forall i, In i p -> (i < length U)%nat) ->
  mvR (perm_rows p U) y = permR p (mvR U y).
Proof.
  intros Hp. unfold perm_rows, permR. unfold mv at 1. rewrite map_map.
  apply map_ext_in. intros i Hi. symmetry. apply nth_mv. apply Hp. exact Hi.
Qed.

Lemma is_perm_bound m p : is_perm m p -> forall i, In i p -> (i < m)%nat.
Proof. intros Hp i Hi. apply (is_perm_in m p i Hp). exact Hi. Qed.

(* the contract  U B = I  transfers:  (P U) (B P^T) = I *)
Theorem config_contract_perm J p B : wfmat (length J) B -> is_perm (length J) p ->
  (forall x, length x = length J -> mvR (config_units RN J) (mvR B x) = x) ->
  (forall x, length x = length J ->
     mvR (config_units RN (perm_rows p J)) (mvR (config_pinv_perm p B) x) = x).
Proof.
  intros HB Hp HUB x' Hx'. set (m := length J) in *.
  set (x := permR (inv_perm m p) x').
  assert (Hx : length x = m) by (unfold x; rewrite length_permR; apply length_inv_perm).
  assert (E : x' = permR p x) by (unfold x; symmetry; apply permR_p_inv; assumption).
  rewrite E. rewrite (mv_config_pinv_perm m p B x HB Hp Hx).
  rewrite config_units_perm_rows by (apply is_perm_bound; exact Hp).
  rewrite mv_perm_rows by (rewrite length_config_units; apply is_perm_bound; exact Hp).
  rewrite HUB by exact Hx. reflexivity.
Qed.

(* the aggregation: the preference vector travels with the rows *)
Theorem agg_config_perm J p B pref : wfmat (length J) B -> is_perm (length J) p ->
  (forall w, pref = Some w -> length w = length J) ->
  agg_config RN (config_pinv_perm p B) (option_map (permR p) pref) (perm_rows p J) =
  agg_config RN B pref J.
Proof.
  intros HB Hp Hpref. pose proof (is_perm_length _ _ Hp) as Hl.
  rewrite !agg_config_cunit. rewrite length_perm_rows, Hl.
  assert (Hsum : forall u, vsumR (map (fun g => dotR g u) (perm_rows p J)) =
                           vsumR (map (fun g => dotR g u) J)).
  { intros u. symmetry. apply vsum_perm. apply Permutation_map.
    apply perm_rows_Permutation. exact Hp. }
  destruct pref as [w|]; cbn [option_map pref_weights].
  - pose proof (Hpref w eq_refl) as Hw. unfold constant_weights.
    rewrite length_permR, Hl, Hw, Nat.eqb_refl. cbn [rbind].
    rewrite (mv_config_pinv_perm (length J) p B w HB Hp Hw). rewrite Hsum. reflexivity.
  - cbn [rbind]. unfold sum_weights.
    assert (E : mvR (config_pinv_perm p B) (repeat (n1 RN) (length J)) =
                mvR B (repeat (n1 RN) (length J))).
    { rewrite <- (permR_repeat (length J) p (n1 RN) Hp) at 1.
      apply (mv_config_pinv_perm (length J) p B _ HB Hp). apply repeat_length. }
    rewrite E, Hsum. reflexivity.
Qed.

(* Penrose equations (operator form) transfer to the permuted problem *)
Theorem pinv_op_perm m n U B p : length U = m -> wfmat m B -> is_perm m p ->
  pinv_op m n U B -> pinv_op m n (perm_rows p U) (config_pinv_perm p B).
Proof.
  intros HU HB Hp (P1 & P2 & P3 & P4). pose proof (is_perm_length m p Hp) as Hl.
  assert (EU : forall y, mvR (perm_rows p U) y = permR p (mvR U y)).
  { intros y. apply mv_perm_rows. rewrite HU. apply is_perm_bound. exact Hp. }
  assert (HUy : forall y, length (mvR U y) = m) by (intros y; rewrite length_mv; exact HU).
  assert (EB : forall x, length x = m -> mvR (config_pinv_perm p B) (permR p x) = mvR B x).
  { intros x Hx. apply (mv_config_pinv_perm m); assumption. }
  assert (Hpre : forall x', length x' = m -> exists x, length x = m /\ x' = permR p x).
  { intros x' Hx'. exists (permR (inv_perm m p) x'). split.
    - rewrite length_permR. apply length_inv_perm.
    - symmetry. apply permR_p_inv; assumption. }
  repeat split.
  - intros z Hz. rewrite !EU. rewrite EB by apply HUy. rewrite P1 by exact Hz. reflexivity.
  - intros x' Hx'. destruct (Hpre x' Hx') as (x & Hx & ->).
    rewrite EB by exact Hx. rewrite EU. rewrite EB by apply HUy. apply P2. exact Hx.
  - intros x' y' Hx' Hy'. destruct (Hpre x' Hx') as (x & Hx & ->).
    destruct (Hpre y' Hy') as (y & Hy & ->).
    rewrite !EB by assumption. rewrite !EU.
    rewrite dot_permR by (rewrite ?HUy; first [exact Hp | congruence]).
    rewrite dot_permR by (rewrite ?Hx, ?HUy; first [exact Hp | congruence]).
    apply P3; assumption.
  - intros z z' Hz Hz'. rewrite !EU. rewrite !EB by apply HUy. apply P4; assumption.
Qed.

(* K2, assembled *)
Theorem config_permutation J p B pref :
  wfmat (length J) B -> is_perm (length J) p ->
  (forall w, pref = Some w -> length w = length J) ->
  let B' := config_pinv_perm p B in
  length B' = length B /\ wfmat (length J) B' /\
  config_units RN (perm_rows p J) = perm_rows p (config_units RN J) /\
  (forall w, length w = length J -> mvR B' (permR p w) = mvR B w) /\
  ((forall x, length x = length J -> mvR (config_units RN J) (mvR B x) = x) ->
   (forall x, length x = length J -> mvR (config_units RN (perm_rows p J)) (mvR B' x) = x)) /\
  agg_config RN B' (option_map (permR p) pref) (perm_rows p J) = agg_config RN B pref J.
Proof.
  intros HB Hp Hpref B'. pose proof (is_perm_length _ _ Hp) as Hl.
  split; [apply length_config_pinv_perm|].
  split; [rewrite <- Hl; apply wfmat_config_pinv_perm|].
  split; [apply config_units_perm_rows; apply is_perm_bound; exact Hp|].
  split; [intros w Hw; apply (mv_config_pinv_perm (length J)); assumption|].
  split; [apply config_contract_perm; assumption|].
  apply agg_config_perm; assumption.
Qed.

(* in the representation of C10Proofs (Permutation J J'), default preference *)
Corollary agg_config_Permutation J J' B : wfmat (length J) B -> Permutation J J' ->
  exists p, is_perm (length J) p /\ J' = perm_rows p J /\
    ((forall x, length x = length J -> mvR (config_units RN J) (mvR B x) = x) ->
     (forall x, length x = length J' ->
        mvR (config_units RN J') (mvR (config_pinv_perm p B) x) = x)) /\
    agg_config RN (config_pinv_perm p B) None J' = agg_config RN B None J.
Proof.
  intros HB HP. destruct (Permutation_perm_rows J J' HP) as (p & Hp & ->).
  exists p. split; [exact Hp|]. split; [reflexivity|]. split.
  - intros HUB x Hx. rewrite length_perm_rows, (is_perm_length _ _ Hp) in Hx.
    apply config_contract_perm; assumption.
  - apply (agg_config_perm J p B None HB Hp). discriminate.
Qed.

(* ================================================================== *)
(* K3. C10 for MGDA when the Frank-Wolfe argmin has no exact ties      *)
(* ================================================================== *)
(* i is an index at which the minimum of v is attained *)
Definition is_min_idx (v : list R) (i : nat) : Prop :=
  (i < length v)%nat /\ forall k, (k < length v)%nat -> nth i v 0 <= nth k v 0.
(* the minimum of v is attained at one index only (no exact tie AT THE MINIMAL VALUE) *)
Definition uniq_min (v : list R) : Prop :=
  forall i j, is_min_idx v i -> is_min_idx v j -> i = j.

Lemma argmin_is_min_idx v : v <> [] -> is_min_idx v (argmin RN v).
Proof.
  intros Hne. split; [apply argmin_lt; exact Hne|]. intros k Hk.
  pose proof (argmin_min v) as H. rewrite Forall_forall in H. apply H. apply nth_In. exact Hk.
Qed.

(* argmin of the permuted vector is the position of the unique minimum *)
Lemma argmin_permR m p v : is_perm m p -> length v = m -> (0 < m)%nat -> uniq_min v ->
  nth (argmin RN (permR p v)) p 0%nat = argmin RN v.
Proof.
  intros Hp Hv Hm Hu. pose proof (is_perm_length m p Hp) as Hl.
  assert (Hne : v <> []) by (intros ->; cbn in Hv; lia).
  assert (Hne' : permR p v <> []).
  { intros E. apply (f_equal (@length R)) in E. rewrite length_permR in E. cbn in E. lia. }
  destruct (argmin_is_min_idx (permR p v) Hne') as (Ht & Hmin).
  set (t' := argmin RN (permR p v)) in *. rewrite length_permR in Ht, Hmin.
  apply Hu; [|apply argmin_is_min_idx; exact Hne].
  split.
  - rewrite Hv. apply (is_perm_nth_lt m p t' Hp). lia.
  - intros k Hk. rewrite Hv in Hk.
    assert (Hkp : In k p) by (apply (is_perm_in m p k Hp); exact Hk).
    pose proof (pos_lt k p Hkp) as Hb. pose proof (nth_pos k p Hkp) as Eb.
    specialize (Hmin (pos k p) Hb). rewrite !nth_permR in Hmin by assumption.
    rewrite Eb in Hmin. exact Hmin.
Qed.

Lemma permR_vscale p c v : permR p (vscaleR c v) = vscaleR c (permR p v).
Proof.
  unfold permR, vscale. rewrite map_map. apply map_ext. intros i.
  apply (nth_vscale c v i).
Qed.

Lemma length_mgda_step m G alpha : length alpha = m ->
  length (fst (mgda_step RN G alpha)) = m.
Proof.
  intros Hl. unfold mgda_step. cbv zeta. cbn [fst].
  rewrite length_vadd; rewrite !length_vscale; [exact Hl|]. rewrite length_onehot. reflexivity.
Qed.

Lemma length_mgda_loop m G eps : forall iters alpha, length alpha = m ->
  length (mgda_loop RN iters G eps alpha) = m.
Proof.
  induction iters as [|k IH]; intros alpha Hl; [exact Hl|]. cbn [mgda_loop].
  pose proof (length_mgda_step m G alpha Hl) as H.
  destruct (mgda_step RN G alpha) as [a' g]. cbn [fst] in H.
  destruct (nltb RN g eps); [exact H | apply IH; exact H].
Qed.

(* one Frank-Wolfe step is equivariant when the argmin is attained at a unique index *)
Theorem mgda_step_perm m G p alpha : length G = m -> wfmat m G -> is_perm m p ->
  length alpha = m -> uniq_min (mvR G alpha) ->
  mgda_step RN (permM p G) (permR p alpha) =
  (permR p (fst (mgda_step RN G alpha)), snd (mgda_step RN G alpha)).
Proof.
  intros HG Hwf Hp Ha Hu. pose proof (is_perm_length m p Hp) as Hl.
  unfold mgda_step. cbv zeta. cbn [fst snd].
  rewrite length_permR, Hl, Ha. rewrite (mv_permM m G p alpha HG Hwf Hp Ha).
  set (Ga := mvR G alpha) in *.
  assert (HGa : length Ga = m) by (unfold Ga; rewrite length_mv; exact HG).
  assert (E : onehotR m (argmin RN (permR p Ga)) (n1 RN) =
              permR p (onehotR m (argmin RN Ga) (n1 RN))).
  { destruct m as [|m'].
    - destruct p; [reflexivity | discriminate].
    - assert (Ht : (argmin RN (permR p Ga) < S m')%nat).
      { rewrite <- Hl, <- (length_permR p Ga). apply argmin_lt. intros E.
        apply (f_equal (@length R)) in E. rewrite length_permR in E. cbn in E. lia. }
      rewrite (onehot_perm (S m') p _ (n1 RN) Hp Ht).
      rewrite (argmin_permR (S m') p Ga Hp HGa ltac:(lia) Hu). reflexivity. }
  rewrite E. set (e := onehotR m (argmin RN Ga) (n1 RN)).
  assert (He : length e = m) by (unfold e; apply length_onehot).
  rewrite (mv_permM m G p e HG Hwf Hp He).
  assert (HGe : length (mvR G e) = m) by (rewrite length_mv; exact HG).
  rewrite !dot_permR by (rewrite ?Ha, ?He; first [exact Hp | congruence]).
  set (gamma := if nleb RN (dotR e (mvR G e)) (dotR alpha (mvR G e)) then n1 RN
                else if nleb RN (dotR alpha Ga) (dotR alpha (mvR G e)) then n0 RN
                else ndiv RN (nsub RN (dotR alpha Ga) (dotR alpha (mvR G e)))
                       (nsub RN (nadd RN (dotR alpha Ga) (dotR e (mvR G e)))
                          (nmul RN (nofnat RN 2) (dotR alpha (mvR G e))))).
  f_equal.
  rewrite permR_vadd by (rewrite !length_vscale; congruence).
  rewrite !permR_vscale. reflexivity.
Qed.

(* no exact tie at the minimum of G alpha, at every step the loop actually performs *)
Fixpoint mgda_no_ties (iters : nat) (G : list (list R)) (eps : R) (alpha : list R) : Prop :=
  match iters with
  | O => True
  | S k => uniq_min (mvR G alpha) /\
           (let '(alpha', gamma) := mgda_step RN G alpha in
            if nltb RN gamma eps then True else mgda_no_ties k G eps alpha')
  end.

Theorem mgda_loop_perm m G p eps : length G = m -> wfmat m G -> is_perm m p ->
  forall iters alpha, length alpha = m -> mgda_no_ties iters G eps alpha ->
  mgda_loop RN iters (permM p G) eps (permR p alpha) =
  permR p (mgda_loop RN iters G eps alpha).
Proof.
  intros HG Hwf Hp. induction iters as [|k IH]; intros alpha Ha Hnt; [reflexivity|].
  cbn [mgda_loop mgda_no_ties] in *. destruct Hnt as (Hu & Hnt).
  rewrite (mgda_step_perm m G p alpha HG Hwf Hp Ha Hu).
  pose proof (length_mgda_step m G alpha Ha) as Hl'.
  destruct (mgda_step RN G alpha) as [a' g]. cbn [fst snd] in *.
  destruct (nltb RN g eps); [reflexivity|]. apply IH; assumption.
Qed.

Theorem mgda_weights_perm m G p eps iters : length G = m -> wfmat m G -> is_perm m p ->
  mgda_no_ties iters G eps (mean_weights RN m) ->
  mgda_weights RN (permM p G) eps iters = permR p (mgda_weights RN G eps iters).
Proof.
  intros HG Hwf Hp Hnt. unfold mgda_weights. rewrite length_permM, (is_perm_length m p Hp), HG.
  unfold mean_weights in *.
  rewrite <- (permR_repeat m p (ndiv RN (n1 RN) (nofnat RN m)) Hp) at 1.
  apply (mgda_loop_perm m); auto. apply repeat_length.
Qed.

Lemma length_mgda_weights G eps iters : length (mgda_weights RN G eps iters) = length G.
Proof. unfold mgda_weights. apply length_mgda_loop. unfold mean_weights. apply repeat_length. Qed.

Theorem agg_mgda_perm n J p eps iters : wfmat n J -> J <> [] -> is_perm (length J) p ->
  mgda_no_ties iters (gramR J) eps (mean_weights RN (length J)) ->
  agg_mgda RN eps iters (perm_rows p J) = agg_mgda RN eps iters J.
Proof.
  intros HJ Hne Hp Hnt. unfold agg_mgda. apply (gramian_form_perm n); auto.
  - rewrite length_mgda_weights. apply length_gram.
  - rewrite gram_perm_rows. apply (mgda_weights_perm (length J)); auto.
    + apply length_gram.
    + apply wfmat_gram.
Qed.

Corollary agg_mgda_Permutation n J J' eps iters : wfmat n J -> J <> [] -> Permutation J J' ->
  mgda_no_ties iters (gramR J) eps (mean_weights RN (length J)) ->
  agg_mgda RN eps iters J' = agg_mgda RN eps iters J.
Proof.
  intros HJ Hne HP Hnt. destruct (Permutation_perm_rows J J' HP) as (p & Hp & ->).
  apply (agg_mgda_perm n); assumption.
Qed.

(* sufficient condition: pairwise distinct entries (the hypothesis used for Krum) *)
Lemma distinct_uniq_min v : distinct_on (length v) v -> uniq_min v.
Proof.
  intros Hd i j (Hi & Hmi) (Hj & Hmj). destruct (Nat.eq_dec i j) as [E|E]; [exact E|exfalso].
  apply (Hd i j Hi Hj E). pose proof (Hmi j Hj). pose proof (Hmj i Hi). lra.
Qed.

(* ================================================================== *)
(* non-vacuity: the hypotheses are jointly satisfiable                 *)
(* ================================================================== *)
Example config_K1_hypotheses_satisfiable :
  let J := [[1; 0]; [0; 1]] in let B := [[1; 0]; [0; 1]] in
  let Q := [[0; 1; 0]; [0; 0; 1]] in
  orth 2 3 Q /\ wfmat 2 J /\ wfmat 2 B /\ length B = 2%nat /\
  (forall x, length x = 2%nat -> mvR (config_units RN J) (mvR B x) = x) /\
  pinv_op 2 2 (config_units RN J) B.
Proof.
  cbv zeta.
  assert (EU : config_units RN [[1; 0]; [0; 1]] = [[1; 0]; [0; 1]]).
  { rewrite config_units_cunit. cbn [map]. unfold cunit. cbn [dot length]. rn.
    replace (1 * 1 + (0 * 0 + 0)) with 1 by ring. replace (0 * 0 + (1 * 1 + 0)) with 1 by ring.
    rewrite sqrt_1. destruct (Rleb 1 0) eqn:E; [apply Rleb_true in E; lra|].
    replace (1 / 1) with 1 by field. rewrite !vscale_one. reflexivity. }
  rewrite EU.
  split; [|split; [repeat constructor|split; [repeat constructor|split; [reflexivity|split]]]].
  - split; [repeat constructor|]. split; [reflexivity|].
    intros [|a [|b [|c s]]] H; try discriminate. cbn. f_equal; [ring|f_equal; ring].
  - intros [|a [|b [|c s]]] H; try discriminate. cbn. f_equal; [ring|f_equal; ring].
  - repeat split.
    + intros [|a [|b [|c s]]] H; try discriminate. cbn. f_equal; [ring|f_equal; ring].
    + intros [|a [|b [|c s]]] H; try discriminate. cbn. f_equal; [ring|f_equal; ring].
    + intros [|a [|b [|c s]]] [|a' [|b' [|c' s']]] H H'; try discriminate. cbn. ring.
    + intros [|a [|b [|c s]]] [|a' [|b' [|c' s']]] H H'; try discriminate. cbn. ring.
Qed.

Example mgda_no_ties_satisfiable eps :
  mgda_no_ties 1 (gramR [[1; 0]; [0; 2]]) eps (mean_weights RN 2).
Proof.
  cbn [mgda_no_ties]. split.
  - apply distinct_uniq_min. intros i j Hi Hj Hij. cbn in Hi, Hj.
    destruct i as [|[|i]], j as [|[|j]]; try lia; cbn; lra.
  - destruct (mgda_step RN (gramR [[1; 0]; [0; 2]]) (mean_weights RN 2)) as [a g].
    destruct (nltb RN g eps); exact I.
Qed.

(* ================================================================== *)
Print Assumptions config_units_mmul.
Print Assumptions config_contract_mmul.
Print Assumptions agg_config_mmul.
Print Assumptions config_orthogonal.
Print Assumptions pinv_op_mmul.
Print Assumptions config_units_perm_rows.
Print Assumptions config_contract_perm.
Print Assumptions agg_config_perm.
Print Assumptions pinv_op_perm.
Print Assumptions config_permutation.
Print Assumptions agg_config_Permutation.
Print Assumptions argmin_permR.
Print Assumptions mgda_step_perm.
Print Assumptions mgda_loop_perm.
Print Assumptions mgda_weights_perm.
Print Assumptions agg_mgda_perm.
Print Assumptions agg_mgda_Permutation.
Print Assumptions config_K1_hypotheses_satisfiable.
Print Assumptions mgda_no_ties_satisfiable.
