From Coq Require Import Reals List Bool Arith Lia Lra Permutation.
From TJ Require Import Num Linalg NumR Chunk Agg Autojac Traverse.
From TJ.proofs Require Import LinalgR ChunkProofs AutojacBasics AutojacSpec EntrySpec C20Proofs C01Proofs C02Proofs C05Proofs C15Proofs.
Import ListNotations.
Local Open Scope R_scope.

(* EndToEndProofs.v — the end-to-end reading of what mtl_backward hands to the aggregator.
   E1  when the features form a cut between every loss and every shared parameter, row i of the
       matrix handed to the aggregator is the gradient of losses[i] w.r.t. the shared parameters:
       the matrix is the Jacobian of the losses w.r.t. the shared parameters, as in backward;
   E2  hence, on the shared parameters, mtl_backward deposits what backward(losses, shared) deposits
       (any aggregator), and with fixed weights w what torch.autograd.backward(losses, w) gives;
   E3  chaining two Jac transforms through a cut equals the end-to-end Jac transform. *)

Section EndToEnd.
Variable P : prog R.

(* ================= E1 ================= *)
(* one output with one scalar, cotangent [1]: the vjp is the single row of the derivative block *)
Lemma vjp_single_scalar_out : forall l f,
  wf_prog P -> pnumel P l = 1%nat -> vjp RN P [l] [[1]] f = grad_of P l f.
Proof.
  intros l f Hwf H1. rewrite vjp_cons.
  change (vjp RN P [] [] f) with (vzeroR (pnumel P f)).
  destruct Hwf as [Hdim _]. destruct (Hdim l f) as [Hl HM].
  rewrite H1 in Hl. unfold grad_of.
  destruct (p_D P l f) as [|row [|row2 M]]; cbn [length] in Hl; try lia.
  apply Forall_cons_iff in HM. destruct HM as [Hr _].
  cbn [vm nth]. rewrite vscale_one.
  rewrite (vadd_vzero_r _ row Hr). rewrite (vadd_vzero_r _ row Hr). reflexivity.
Qed.

(* the gradient of a scalar pulled back through a cut is the gradient *)
Lemma grad_through_cut : forall l features p,
  wf_prog P -> pnumel P l = 1%nat -> is_cut P [l] features p ->
  vjp RN P features (map (grad_of P l) features) p = grad_of P l p.
Proof.
  intros l features p Hwf H1 Hcut.
  rewrite <- (vjp_single_scalar_out l p Hwf H1).
  rewrite <- (vjp_chain P [l] features p [[1]] Hwf).
  - f_equal. apply map_ext. intros f. symmetry. apply vjp_single_scalar_out; assumption.
  - reflexivity.
  - intros j o Hj. destruct j as [|j].
    + cbn [nth_error] in Hj. injection Hj as <-. cbn [nth length]. symmetry. exact H1.
    + cbn [nth_error] in Hj. destruct j; discriminate Hj.
  - exact Hcut.
Qed.

Lemma mtl_row_end_to_end : forall features shared l,
  wf_prog P -> pnumel P l = 1%nat ->
  (forall p, In p shared -> is_cut P [l] features p) ->
  mtl_row P features shared l = concat (map (fun p => grad_of P l p) shared).
Proof.
  intros features shared l Hwf H1 Hcut. unfold mtl_row. f_equal.
  apply map_ext_in. intros p Hp. apply grad_through_cut; [exact Hwf | exact H1 | apply Hcut; exact Hp].
Qed.

(* the Jacobian of scalar outputs: one row per output, its gradients side by side *)
Lemma jacobian_scalar_rows : forall losses ord,
  wf_prog P -> (forall l, In l losses -> pnumel P l = 1%nat) ->
  jacobian P losses ord = map (fun l => concat (map (fun p => grad_of P l p) ord)) losses.
Proof.
  induction losses as [|l losses IH]; intros ord Hwf H1.
  - reflexivity.
  - change (l :: losses) with ([l] ++ losses) at 1.
    rewrite (jacobian_rows_app P [l] losses ord Hwf).
    rewrite IH by (try exact Hwf; intros l' Hl'; apply H1; right; exact Hl').
    cbn [map]. change (?x :: ?y) with ([x] ++ y) at 2. f_equal.
    unfold jacobian. rewrite total_cons. rewrite (H1 l (or_introl eq_refl)).
    change (total P []) with 0%nat. cbn [Nat.add seq map]. f_equal. f_equal.
    apply map_ext. intros i. rewrite Drows_cons. change (Drows P [] i) with (@nil (list R)).
    rewrite app_nil_r. reflexivity.
Qed.

(* E1 *)
Theorem mtl_matrix_is_jacobian : forall features shared losses,
  wf_prog P ->
  (forall l, In l losses -> pnumel P l = 1%nat) ->
  (forall l p, In l losses -> In p shared -> is_cut P [l] features p) ->
  mtl_matrix P features shared losses = jacobian P losses shared.
Proof.
  intros features shared losses Hwf H1 Hcut.
  rewrite (jacobian_scalar_rows losses shared Hwf H1). unfold mtl_matrix.
  apply map_ext_in. intros l Hl. apply mtl_row_end_to_end.
  - exact Hwf.
  - apply H1. exact Hl.
  - intros p Hp. apply Hcut; assumption.
Qed.

(* ================= E2 ================= *)
(* an accepted mtl_backward call has scalar losses (shape []), at least one *)
Lemma mtl_accepted_scalar_losses : forall A losses features tasks shared k retain s d' s',
  mtl_backward_model RN P A losses features tasks shared k retain s = (Ok d', s') ->
  losses <> [] /\ forall l, In l losses -> pnumel P l = 1%nat.
Proof.
  intros A losses features tasks shared k retain s d' s' H.
  apply (mtl_model_inv P A) in H. destruct H as [Hok _].
  apply mtl_args_ok_inv in Hok.
  destruct Hok as (_ & _ & _ & Hsh & Hle & _).
  split.
  - intros ->. discriminate Hle.
  - intros l Hl. rewrite forallb_forall in Hsh. apply Hsh in Hl.
    unfold pnumel. destruct (p_shape P l); [reflexivity | discriminate Hl].
Qed.

Lemma total_scalars : forall losses,
  (forall l, In l losses -> pnumel P l = 1%nat) -> total P losses = length losses.
Proof.
  induction losses as [|l losses IH]; intros H1; [reflexivity|].
  rewrite total_cons, (H1 l (or_introl eq_refl)), IH by (intros l' Hl'; apply H1; right; exact Hl').
  reflexivity.
Qed.

(* the deposit of mtl_backward on the shared parameters, read end to end: each shared parameter
   receives its slice of A (the Jacobian of the losses w.r.t. the shared parameters) *)
Theorem mtl_deposit_end_to_end : forall A losses features tasks shared k retain s d' s',
  wf_prog P -> shared <> [] ->
  (forall l p, In l losses -> In p shared -> is_cut P [l] features p) ->
  mtl_backward_model RN P A losses features tasks shared k retain s = (Ok d', s') ->
  exists v, A (jacobian P losses shared) = Ok v /\ length v = total P shared /\
    forall p, In p shared ->
      grad_val s' p = Some (acc_val (grad_val s p) (plain (p_shape P p) (slice_of P shared v p))).
Proof.
  intros A losses features tasks shared k retain s d' s' Hwf Hse Hcut H.
  destruct (mtl_accepted_scalar_losses A _ _ _ _ _ _ _ _ _ H) as [_ H1].
  destruct (mtl_deposit P A losses features tasks shared k retain s d' s' Hwf Hse H)
    as (v & HA & Hlv & Hdep & _).
  rewrite (mtl_matrix_is_jacobian features shared losses Hwf H1 Hcut) in HA.
  exists v. split; [exact HA|]. split; [exact Hlv | exact Hdep].
Qed.

(* for ANY aggregator: under the cut hypothesis mtl_backward and backward(losses, inputs = shared)
   deposit the same slices (of the same aggregated vector) on the shared parameters *)
Theorem mtl_equals_backward_on_shared :
  forall A losses features tasks shared k retain s d' s' kb retainb sb db sb',
  wf_prog P -> shared <> [] ->
  (forall l p, In l losses -> In p shared -> is_cut P [l] features p) ->
  mtl_backward_model RN P A losses features tasks shared k retain s = (Ok d', s') ->
  backward_model RN P A losses shared kb retainb sb = (Ok db, sb') ->
  exists v, A (jacobian P losses shared) = Ok v /\ length v = total P shared /\
    forall p, In p shared ->
      grad_val s' p = Some (acc_val (grad_val s p) (plain (p_shape P p) (slice_of P shared v p))) /\
      grad_val sb' p = Some (acc_val (grad_val sb p) (plain (p_shape P p) (slice_of P shared v p))).
Proof.
  intros A losses features tasks shared k retain s d' s' kb retainb sb db sb' Hwf Hse Hcut Hm Hb.
  destruct (mtl_accepted_scalar_losses A _ _ _ _ _ _ _ _ _ Hm) as [Hle H1].
  assert (Htot : (1 <= total P losses)%nat).
  { rewrite (total_scalars losses H1). destruct losses as [|l0 ls]; [congruence | cbn [length]; lia]. }
  destruct (mtl_deposit_end_to_end A losses features tasks shared k retain s d' s' Hwf Hse Hcut Hm)
    as (v & HA & Hlv & Hdep).
  destruct (backward_deposit P A losses shared kb retainb sb db sb' Hwf Hse Htot Hb)
    as (_ & _ & v' & HA' & _ & Hdep' & _).
  rewrite HA in HA'. injection HA' as <-.
  exists v. split; [exact HA|]. split; [exact Hlv|].
  intros p Hp. split; [apply Hdep; exact Hp | apply Hdep'; exact Hp].
Qed.

(* started from the same .grad fields, the two calls leave the same .grad on every shared parameter *)
Corollary mtl_equals_backward_on_shared_same_store :
  forall A losses features tasks shared k retain s d' s' kb retainb db sb',
  wf_prog P -> shared <> [] ->
  (forall l p, In l losses -> In p shared -> is_cut P [l] features p) ->
  mtl_backward_model RN P A losses features tasks shared k retain s = (Ok d', s') ->
  backward_model RN P A losses shared kb retainb s = (Ok db, sb') ->
  forall p, In p shared -> grad_val s' p = grad_val sb' p.
Proof.
  intros A losses features tasks shared k retain s d' s' kb retainb db sb' Hwf Hse Hcut Hm Hb p Hp.
  destruct (mtl_equals_backward_on_shared A losses features tasks shared k retain s d' s'
              kb retainb s db sb' Hwf Hse Hcut Hm Hb) as (v & _ & _ & Hdep).
  destruct (Hdep p Hp) as [E1 E2]. rewrite E1, E2. reflexivity.
Qed.

(* fixed weights: what torch.autograd.backward(losses, grad_tensors = w) accumulates *)
Theorem mtl_constant_deposit : forall w losses features tasks shared k retain s d' s',
  wf_prog P -> shared <> [] ->
  (forall l p, In l losses -> In p shared -> is_cut P [l] features p) ->
  mtl_backward_model RN P (agg_constant RN w) losses features tasks shared k retain s = (Ok d', s') ->
  length w = total P losses /\
  forall p, In p shared ->
    grad_val s' p = Some (acc_val (grad_val s p)
      (plain (p_shape P p)
         (materialize RN P p (ag_value RN P losses (split_by (map (pnumel P) losses) w) p)))).
Proof.
  intros w losses features tasks shared k retain s d' s' Hwf Hse Hcut H.
  destruct (mtl_accepted_scalar_losses _ _ _ _ _ _ _ _ _ _ H) as [Hle H1].
  assert (Htot : (1 <= total P losses)%nat).
  { rewrite (total_scalars losses H1). destruct losses as [|l0 ls]; [congruence | cbn [length]; lia]. }
  pose proof H as H0.
  apply mtl_front in H0; [|exact Hwf]. destruct H0 as (_ & _ & Hns & _).
  destruct (mtl_deposit_end_to_end (agg_constant RN w) losses features tasks shared k retain s d' s'
              Hwf Hse Hcut H) as (v & HA & Hlv & Hdep).
  assert (HA' : v = combine_rows RN (jacobian P losses shared) w /\ length w = total P losses).
  { revert HA. unfold agg_constant, weighted, constant_weights. rewrite length_jacobian.
    destruct (Nat.eqb_spec (length w) (total P losses)) as [E|E]; cbn [rbind]; [|discriminate].
    intros HA. injection HA as <-. split; [reflexivity | exact E]. }
  destruct HA' as [-> Hlw]. split; [exact Hlw|].
  intros p Hp. rewrite (Hdep p Hp). rewrite materialize_vjp by exact Hwf.
  rewrite weighted_slice by assumption. reflexivity.
Qed.

Corollary mtl_constant_deposit_vjp : forall w losses features tasks shared k retain s d' s',
  wf_prog P -> shared <> [] ->
  (forall l p, In l losses -> In p shared -> is_cut P [l] features p) ->
  mtl_backward_model RN P (agg_constant RN w) losses features tasks shared k retain s = (Ok d', s') ->
  forall p, In p shared ->
    grad_val s' p = Some (acc_val (grad_val s p)
      (plain (p_shape P p) (vjp RN P losses (split_by (map (pnumel P) losses) w) p))).
Proof.
  intros w losses features tasks shared k retain s d' s' Hwf Hse Hcut H p Hp.
  destruct (mtl_constant_deposit w losses features tasks shared k retain s d' s' Hwf Hse Hcut H)
    as [_ Hdep].
  rewrite (Hdep p Hp). rewrite materialize_vjp by exact Hwf. reflexivity.
Qed.

(* mtl_backward with fixed weights = backward(losses, shared) with the same fixed weights *)
Corollary mtl_constant_equals_backward_constant :
  forall w losses features tasks shared k retain s d' s' kb retainb db sb',
  wf_prog P -> shared <> [] ->
  (forall l p, In l losses -> In p shared -> is_cut P [l] features p) ->
  mtl_backward_model RN P (agg_constant RN w) losses features tasks shared k retain s = (Ok d', s') ->
  backward_model RN P (agg_constant RN w) losses shared kb retainb s = (Ok db, sb') ->
  forall p, In p shared -> grad_val s' p = grad_val sb' p.
Proof.
  intros w losses features tasks shared k retain s d' s' kb retainb db sb' Hwf Hse Hcut Hm Hb.
  exact (mtl_equals_backward_on_shared_same_store (agg_constant RN w) losses features tasks shared
           k retain s d' s' kb retainb db sb' Hwf Hse Hcut Hm Hb).
Qed.

(* ================= E3 ================= *)
Variable A : list (list R) -> res (list R).

Lemma e2e_nth_rows (g : nat -> list R) m r : (r < m)%nat -> nth r (map g (seq 0 m)) [] = g r.
Proof. intros H. apply (nth_map_seq g [] m r H). Qed.

(* Jac . Jac through a cut = Jac end to end (both runs succeeding) *)
Theorem jac_comp_chain : forall outs mid ins k1 r1 k2 r2 k r s d dc sc se de se' m,
  wf_prog P -> outs <> [] -> mid <> [] -> NoDup mid -> NoDup ins ->
  valid_chunk k1 = true -> valid_chunk k2 = true -> valid_chunk k = true -> (1 <= m)%nat ->
  (forall o, In o outs -> nrows (dget' d o) = m /\
                          Forall (fun row => length row = pnumel P o) (t_rows (dget' d o))) ->
  (forall i, In i ins -> is_cut P outs mid i) ->
  run RN P A (TComp (TJac mid ins k2 r2) (TJac outs mid k1 r1)) s d = (Ok dc, sc) ->
  run RN P A (TJac outs ins k r) se d = (Ok de, se') ->
  dk dc = dk de /\
  forall i, In i ins ->
    dget dc i = dget de i /\
    dget dc i = Some (mkTens true (p_shape P i)
      (map (fun r0 => vjp RN P outs (map (fun o => nth r0 (t_rows (dget' d o)) []) outs) i)
           (seq 0 m))).
Proof.
  intros outs mid ins k1 r1 k2 r2 k r s d dc sc se de se' m
         Hwf Ho Hmid Hndm Hndi Hk1 Hk2 Hk Hm Hrows Hcut Hc He.
  apply run_comp_inv in Hc. destruct Hc as (d1 & s1 & Hj1 & Hj2).
  destruct (jac_rows P A outs mid k1 r1 s d d1 s1 m Hwf Ho Hndm Hk1 Hm Hrows Hj1) as [Hdk1 Hd1].
  assert (Hd1' : forall f, In f mid ->
            dget' d1 f = mkTens true (p_shape P f)
              (map (fun r0 => vjp RN P outs (map (fun o => nth r0 (t_rows (dget' d o)) []) outs) f)
                   (seq 0 m))).
  { intros f Hf. unfold dget'. rewrite (Hd1 f Hf). reflexivity. }
  assert (Hrows1 : forall f, In f mid -> nrows (dget' d1 f) = m /\
             Forall (fun row => length row = pnumel P f) (t_rows (dget' d1 f))).
  { intros f Hf. rewrite (Hd1' f Hf). unfold nrows. cbn [t_rows]. split.
    - rewrite map_length, seq_length. reflexivity.
    - apply Forall_forall. intros row Hrow. apply in_map_iff in Hrow.
      destruct Hrow as (r0 & <- & _). apply c15_length_vjp. exact Hwf. }
  destruct (jac_rows P A mid ins k2 r2 s1 d1 dc sc m Hwf Hmid Hndi Hk2 Hm Hrows1 Hj2) as [Hdkc Hdc].
  destruct (jac_rows P A outs ins k r se d de se' m Hwf Ho Hndi Hk Hm Hrows He) as [Hdke Hde].
  split; [rewrite Hdkc, Hdk1, Hdke; reflexivity|].
  intros i Hi.
  assert (E : dget dc i = Some (mkTens true (p_shape P i)
      (map (fun r0 => vjp RN P outs (map (fun o => nth r0 (t_rows (dget' d o)) []) outs) i)
           (seq 0 m)))).
  { rewrite (Hdc i Hi). f_equal. f_equal. apply map_ext_in. intros r0 Hr0. apply in_seq in Hr0.
    transitivity (vjp RN P mid
                    (map (fun f => vjp RN P outs
                                     (map (fun o => nth r0 (t_rows (dget' d o)) []) outs) f) mid) i).
    - f_equal. apply map_ext_in. intros f Hf. rewrite (Hd1' f Hf). cbn [t_rows].
      apply (e2e_nth_rows
               (fun r1' => vjp RN P outs (map (fun o => nth r1' (t_rows (dget' d o)) []) outs) f)
               m r0).
      lia.
    - apply (vjp_chain P outs mid i).
      + exact Hwf.
      + apply map_length.
      + intros j o Hj. rewrite (c15_nth_map_nth_error _ outs j o [] Hj).
        assert (Hin : In o outs) by (eapply nth_error_In; exact Hj).
        destruct (Hrows o Hin) as [Hn HF]. rewrite Forall_forall in HF. apply HF.
        apply nth_In. unfold nrows in Hn. rewrite Hn. lia.
      + apply Hcut. exact Hi. }
  split; [|exact E]. rewrite E. symmetry. apply Hde. exact Hi.
Qed.

(* the same for Grad: one row of cotangents *)
Theorem grad_comp_chain : forall outs mid ins r1 r2 r s d dc sc se de se',
  wf_prog P -> outs <> [] -> mid <> [] -> NoDup mid ->
  (forall o, In o outs -> length (flat (dget' d o)) = pnumel P o) ->
  (forall i, In i ins -> is_cut P outs mid i) ->
  run RN P A (TComp (TGrad mid ins r2) (TGrad outs mid r1)) s d = (Ok dc, sc) ->
  run RN P A (TGrad outs ins r) se d = (Ok de, se') ->
  dk dc = dk de /\ forall i, In i ins -> dget dc i = dget de i.
Proof.
  intros outs mid ins r1 r2 r s d dc sc se de se' Hwf Ho Hmid Hndm Hlen Hcut Hc He.
  apply run_comp_inv in Hc. destruct Hc as (d1 & s1 & Hg1 & Hg2).
  destruct (grad_is_vjp P A outs mid r1 s d d1 s1 Hwf Ho Hlen Hg1) as [Hdk1 Hd1].
  assert (Hd1' : forall f, In f mid ->
            flat (dget' d1 f) = vjp RN P outs (map (fun o => flat (dget' d o)) outs) f).
  { intros f Hf. unfold dget'. rewrite (Hd1 f Hf). unfold flat, plain. cbn [t_rows concat].
    apply app_nil_r. }
  assert (Hlen1 : forall f, In f mid -> length (flat (dget' d1 f)) = pnumel P f).
  { intros f Hf. rewrite (Hd1' f Hf). apply c15_length_vjp. exact Hwf. }
  destruct (grad_is_vjp P A mid ins r2 s1 d1 dc sc Hwf Hmid Hlen1 Hg2) as [Hdkc Hdc].
  destruct (grad_is_vjp P A outs ins r se d de se' Hwf Ho Hlen He) as [Hdke Hde].
  split; [rewrite Hdkc, Hdk1, Hdke; reflexivity|].
  intros i Hi. rewrite (Hdc i Hi), (Hde i Hi). f_equal. f_equal.
  transitivity (vjp RN P mid
                  (map (fun f => vjp RN P outs (map (fun o => flat (dget' d o)) outs) f) mid) i).
  - f_equal. apply map_ext_in. intros f Hf. apply Hd1'. exact Hf.
  - apply (vjp_chain P outs mid i).
    + exact Hwf.
    + apply map_length.
    + intros j o Hj. rewrite (c15_nth_map_nth_error _ outs j o [] Hj).
      apply Hlen. eapply nth_error_In. exact Hj.
    + apply Hcut. exact Hi.
Qed.

End EndToEnd.

Print Assumptions mtl_row_end_to_end.
Print Assumptions mtl_matrix_is_jacobian.
Print Assumptions mtl_deposit_end_to_end.
Print Assumptions mtl_equals_backward_on_shared.
Print Assumptions mtl_equals_backward_on_shared_same_store.
Print Assumptions mtl_constant_deposit.
Print Assumptions mtl_constant_deposit_vjp.
Print Assumptions mtl_constant_equals_backward_constant.
Print Assumptions jac_comp_chain.
Print Assumptions grad_comp_chain.
