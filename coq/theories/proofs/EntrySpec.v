(* EntrySpec.v — vocabulary for the theorems about the argument checks of the entry points. *)
From Coq Require Import List Bool Arith.
From TJ Require Import Num Linalg Chunk Autojac Traverse.
Import ListNotations.

Definition is_nil {A} (l : list A) : bool := match l with [] => true | _ => false end.

Section EntrySpec.
Context {T : Type} (P : prog T).

(* all argument checks of mtl_backward, including the constructor checks of the transforms *)
Definition mtl_args_ok (losses features : list tid) (tasks : list (list tid)) (shared : list tid)
           (k : option nat) (retain : bool) : bool :=
  valid_chunk k
  && negb (is_nil features)
  && is_nil (inter (concat tasks) shared)
  && forallb (fun l => is_nil (p_shape P l)) losses
  && negb (is_nil losses)
  && (length losses =? length tasks)
  && expects_all P (shared ++ concat tasks)
  && wf (mtl_transform losses features tasks shared k retain).

Definition backward_args_ok (tensors ord : list tid) (k : option nat) (retain : bool) : bool :=
  valid_chunk k && negb (is_nil tensors) && wf (backward_transform tensors ord k retain).

End EntrySpec.
