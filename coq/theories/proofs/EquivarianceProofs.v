(* EquivarianceProofs.v — C10 (row permutations), the Gramian-form instances that were missing:
   E1 UPGrad / DualProj (QP minimisers), E2 Krum (distinct scores), E3 IMTL-G (pseudo-inverse).

   Representation.  C10Proofs.perm_meta speaks about  Permutation (combine w J) (combine w' J').
   A row permutation is given here by its index list  p  with  Permutation p (seq 0 m)  :
     perm_rows p J = [J_{p_0}; J_{p_1}; ...],   permR p w = [w_{p_0}; ...],
     permM p G     = (G_{p_a p_b})_{a b}        (rows AND columns permuted).
   gram (perm_rows p J) = permM p (gram J)  (gram_perm_rows), and
   Permutation (combine w J) (combine (permR p w) (perm_rows p J))  (combine_perm_rows),
   so that an equivariant weighting plugs into perm_meta (gramian_form_perm). *)
From Coq Require Import Reals List Bool Arith Lia Lra Psatz Permutation Sorted.
From TJ Require Import Num Linalg NumR Agg.
From TJ.proofs Require Import LinalgR QPProofs C16Proofs C10Proofs.
Import ListNotations.
Local Open Scope R_scope.

(* ================================================================== *)
(* 0. index permutations                                               *)
(* ================================================================== *)
Definition is_perm (m : nat) (p : list nat) : Prop := Permutation p (seq 0 m).
Definition permR (p : list nat) (v : list R) : list R := map (fun i => nth i v 0) p.
Definition perm_rows (p : list nat) (J : list (list R)) : list (list R) :=
  map (fun i => nth i J []) p.
Definition permM (p : list nat) (G : list (list R)) : list (list R) :=
  map (fun i => permR p (nth i G [])) p.

Lemma permM_mget p G : permM p G = map (fun i => map (fun j => mget RN G i j) p) p.
Proof. reflexivity. Qed.

Lemma is_perm_length m p : is_perm m p -> length p = m.
Proof. intros H. rewrite (Permutation_length H). apply seq_length. Qed.

Lemma is_perm_in m p i : is_perm m p -> (In i p <-> (i < m)%nat).
Proof.
  intros H. split; intros Hi.
  - apply (Permutation_in _ H) in Hi. apply in_seq in Hi. lia.
  - apply (Permutation_in _ (Permutation_sym H)). apply in_seq. lia.
Qed.

Lemma is_perm_nodup m p : is_perm m p -> NoDup p.
Proof. intros H. eapply Permutation_NoDup; [symmetry; exact H|apply seq_NoDup]. Qed.

Lemma is_perm_nth_lt m p a : is_perm m p -> (a < m)%nat -> (nth a p 0%nat < m)%nat.
Proof.
  intros H Ha. apply (is_perm_in m p); [exact H|]. apply nth_In. rewrite (is_perm_length m p H). exact Ha.
Qed.

Lemma is_perm_nth_inj m p a b : is_perm m p -> (a < m)%nat -> (b < m)%nat ->
  nth a p 0%nat = nth b p 0%nat -> a = b.
Proof.
  intros H Ha Hb E. pose proof (is_perm_nodup m p H) as Hnd. pose proof (is_perm_length m p H) as Hl.
  rewrite NoDup_nth in Hnd. apply Hnd; [lia|lia|exact E].
Qed.

Lemma is_perm_seq m : is_perm m (seq 0 m).
Proof. apply Permutation_refl. Qed.

Lemma map_seq_nth {A} (d : A) (l : list A) : map (fun a => nth a l d) (seq 0 (length l)) = l.
Proof.
  induction l as [|y l IH]; [reflexivity|]. cbn [length seq map nth]. f_equal.
  rewrite <- seq_shift, map_map. exact IH.
Qed.

Lemma map_seq_nth_f {A B} (f : A -> B) (d : A) (l : list A) :
  map (fun a => f (nth a l d)) (seq 0 (length l)) = map f l.
Proof. rewrite <- (map_seq_nth d l) at 2. rewrite map_map. reflexivity. Qed.

Lemma nth_map_in {A B} (f : A -> B) (l : list A) (d : A) (e : B) i : (i < length l)%nat ->
  nth i (map f l) e = f (nth i l d).
Proof.
  intros Hi. rewrite (nth_indep _ e (f d)) by (rewrite map_length; exact Hi). apply map_nth.
Qed.

Lemma length_permR p v : length (permR p v) = length p.
Proof. apply map_length. Qed.
Lemma length_perm_rows p J : length (perm_rows p J) = length p.
Proof. apply map_length. Qed.
Lemma length_permM p G : length (permM p G) = length p.
Proof. apply map_length. Qed.
Lemma wfmat_permM p G : wfmat (length p) (permM p G).
Proof.
  unfold wfmat, permM. apply Forall_forall. intros r Hr. apply in_map_iff in Hr.
  destruct Hr as (i & <- & _). apply length_permR.
Qed.

Lemma nth_permR p v a : (a < length p)%nat -> nth a (permR p v) 0 = nth (nth a p 0%nat) v 0.
Proof. intros Ha. unfold permR. apply (nth_map_in (fun i => nth i v 0) p 0%nat 0 a Ha). Qed.

Lemma permR_seq v : permR (seq 0 (length v)) v = v.
Proof. unfold permR. apply map_seq_nth. Qed.

Lemma wfmat_nth m M i : wfmat m M -> (i < length M)%nat -> length (nth i M []) = m.
Proof. intros H Hi. unfold wfmat in H. rewrite Forall_forall in H. apply H. apply nth_In. exact Hi. Qed.

Lemma wfmat_perm_rows n p J : wfmat n J -> (forall i, In i p -> (i < length J)%nat) ->
  wfmat n (perm_rows p J).
Proof.
  intros HJ Hp. unfold wfmat, perm_rows. apply Forall_forall. intros r Hr. apply in_map_iff in Hr.
  destruct Hr as (i & <- & Hi). apply wfmat_nth; auto.
Qed.

(* ---- permuted rows paired with permuted weights ---- *)
Lemma perm_map_nth {A} (d : A) (l : list A) p : is_perm (length l) p ->
  Permutation l (map (fun i => nth i l d) p).
Proof.
  intros Hp. rewrite <- (map_seq_nth d l) at 1. apply Permutation_map. symmetry. exact Hp.
Qed.

Lemma perm_rows_Permutation J p : is_perm (length J) p -> Permutation J (perm_rows p J).
Proof. apply perm_map_nth. Qed.

Lemma permR_Permutation v p : is_perm (length v) p -> Permutation v (permR p v).
Proof. apply perm_map_nth. Qed.

Lemma combine_perm_rows w J p : length w = length J -> is_perm (length J) p ->
  Permutation (List.combine w J) (List.combine (permR p w) (perm_rows p J)).
Proof.
  intros Hl Hp.
  assert (E : List.combine (permR p w) (perm_rows p J) =
              map (fun i => nth i (List.combine w J) (0, [])) p).
  { unfold permR, perm_rows. clear Hp. induction p as [|i p IH]; [reflexivity|].
    cbn [map List.combine]. rewrite IH. f_equal. symmetry. apply combine_nth. exact Hl. }
  rewrite E. apply perm_map_nth. rewrite combine_length, Hl, Nat.min_id. exact Hp.
Qed.

(* ---- the Gramian of the permuted matrix ---- *)
Lemma mget_gram J i j : mget RN (gramR J) i j = dotR (nth i J []) (nth j J []).
Proof.
  unfold mget, gram. destruct (lt_dec i (length J)) as [Hi|Hi].
  - rewrite (nth_map_in (fun r => map (fun s => dotR r s) J) J [] [] i Hi).
    destruct (lt_dec j (length J)) as [Hj|Hj].
    + apply (nth_map_in (fun s => dotR (nth i J []) s) J [] (n0 RN) j Hj).
    + cbv beta. rewrite (nth_overflow (map _ J)) by (rewrite map_length; lia).
      rewrite (@nth_overflow _ J j) by lia. rewrite dot_nil_r. reflexivity.
  - rewrite (nth_overflow (map _ J)) by (rewrite map_length; lia). rewrite (@nth_overflow _ J i) by lia.
    destruct j; reflexivity.
Qed.

Theorem gram_perm_rows J p : gramR (perm_rows p J) = permM p (gramR J).
Proof.
  rewrite permM_mget. unfold gram at 1, perm_rows. rewrite map_map. apply map_ext. intros i.
  rewrite map_map. apply map_ext. intros j. symmetry. apply mget_gram.
Qed.

(* META: a Gramian-form aggregator with a permutation-equivariant weighting is invariant.
   (instance of C10Proofs.perm_meta) *)
Theorem gramian_form_perm n J p (w w' : list R) : wfmat n J -> J <> [] ->
  is_perm (length J) p -> length w = length J -> w' = permR p w ->
  combineR (perm_rows p J) w' = combineR J w.
Proof.
  intros HJ Hne Hp Hw ->. symmetry. apply (perm_meta n); auto.
  - rewrite length_permR, length_perm_rows. reflexivity.
  - apply combine_perm_rows; assumption.
Qed.

(* ================================================================== *)
(* 1. sums and dot products under index permutations                   *)
(* ================================================================== *)
Lemma vsum_perm l l' : Permutation l l' -> vsumR l = vsumR l'.
Proof.
  induction 1 as [|x l l' H IH|x y l|l l' l'' H1 IH1 H2 IH2]; rewrite ?vsum_cons; try lra;
    reflexivity.
Qed.

Lemma dot_as_vsum a : forall b, length a = length b ->
  dotR a b = vsumR (map (fun i => nth i a 0 * nth i b 0) (seq 0 (length a))).
Proof.
  induction a as [|x a IH]; intros [|y b] H; cbn in H; try lia; [reflexivity|].
  cbn [length seq map nth]. rewrite dot_cons, vsum_cons. f_equal.
  rewrite <- seq_shift, map_map. apply IH. lia.
Qed.

Lemma dot_map2 (f g : nat -> R) p : dotR (map f p) (map g p) = vsumR (map (fun i => f i * g i) p).
Proof. induction p as [|i p IH]; [reflexivity|]. cbn [map]. rewrite dot_cons, vsum_cons, IH. reflexivity. Qed.

Lemma dot_permR p a b : is_perm (length a) p -> length a = length b ->
  dotR (permR p a) (permR p b) = dotR a b.
Proof.
  intros Hp Hl. unfold permR. rewrite dot_map2.
  rewrite (vsum_perm _ _ (Permutation_map _ Hp)). symmetry. apply dot_as_vsum. exact Hl.
Qed.

Lemma vsum_permR p v : is_perm (length v) p -> vsumR (permR p v) = vsumR v.
Proof. intros Hp. symmetry. apply vsum_perm. apply permR_Permutation. exact Hp. Qed.

Lemma mv_permM m M p y : length M = m -> wfmat m M -> is_perm m p -> length y = m ->
  mvR (permM p M) (permR p y) = permR p (mvR M y).
Proof.
  intros HM Hwf Hp Hy. unfold permM, mv at 1. rewrite map_map. unfold permR at 3.
  apply map_ext_in. intros i Hi. apply (is_perm_in m p i Hp) in Hi.
  rewrite nth_mv by lia. apply dot_permR.
  - rewrite (wfmat_nth m) by (auto; lia). exact Hp.
  - rewrite (wfmat_nth m) by (auto; lia). symmetry; exact Hy.
Qed.

Theorem bil_perm m M p x y : length M = m -> wfmat m M -> is_perm m p ->
  length x = m -> length y = m ->
  bil (permM p M) (permR p x) (permR p y) = bil M x y.
Proof.
  intros HM Hwf Hp Hx Hy. unfold bil. rewrite (mv_permM m) by assumption.
  apply dot_permR; [rewrite Hx; exact Hp | rewrite length_mv; congruence].
Qed.

(* the quadratic form is invariant under simultaneous permutation *)
Theorem qf_perm m M p x : length M = m -> wfmat m M -> is_perm m p -> length x = m ->
  qf (permM p M) (permR p x) = qf M x.
Proof. intros. unfold qf. apply (bil_perm m); assumption. Qed.

(* ================================================================== *)
(* 2. the inverse permutation                                          *)
(* ================================================================== *)
Fixpoint pos (i : nat) (p : list nat) : nat :=
  match p with
  | [] => 0
  | j :: p' => if Nat.eqb i j then 0 else S (pos i p')
  end.
Definition inv_perm (m : nat) (p : list nat) : list nat := map (fun i => pos i p) (seq 0 m).

Lemma pos_lt i p : In i p -> (pos i p < length p)%nat.
Proof.
  induction p as [|j p IH]; intros Hi; [contradiction|]. cbn [pos length].
  destruct (Nat.eqb_spec i j) as [E|E]; [lia|]. destruct Hi as [Hi|Hi]; [congruence|].
  specialize (IH Hi). lia.
Qed.

Lemma nth_pos i p : In i p -> nth (pos i p) p 0%nat = i.
Proof.
  induction p as [|j p IH]; intros Hi; [contradiction|]. cbn [pos].
  destruct (Nat.eqb_spec i j) as [E|E]; [cbn; congruence|]. destruct Hi as [Hi|Hi]; [congruence|].
  cbn [nth]. apply IH. exact Hi.
Qed.

Lemma pos_nth p a : NoDup p -> (a < length p)%nat -> pos (nth a p 0%nat) p = a.
Proof.
  intros Hnd Ha. rewrite NoDup_nth in Hnd. apply Hnd.
  - apply pos_lt. apply nth_In. exact Ha.
  - exact Ha.
  - apply nth_pos. apply nth_In. exact Ha.
Qed.

Lemma permR_comp p q x : (forall i, In i p -> (i < length q)%nat) ->
  permR p (permR q x) = permR (map (fun i => nth i q 0%nat) p) x.
Proof.
  intros H. unfold permR at 1 3. rewrite map_map. apply map_ext_in. intros i Hi.
  apply nth_permR. apply H. exact Hi.
Qed.

Lemma length_inv_perm m p : length (inv_perm m p) = m.
Proof. unfold inv_perm. rewrite map_length. apply seq_length. Qed.

Lemma permR_p_inv m p x : is_perm m p -> length x = m -> permR p (permR (inv_perm m p) x) = x.
Proof.
  intros Hp Hx. pose proof (is_perm_length m p Hp) as Hl.
  rewrite permR_comp by (intros i Hi; rewrite length_inv_perm; apply (is_perm_in m p i Hp); exact Hi).
  replace (map (fun i => nth i (inv_perm m p) 0%nat) p) with (seq 0 (length x)); [apply permR_seq|].
  rewrite Hx. rewrite <- Hl at 1.
  rewrite <- (map_seq_nth_f (fun i => nth i (inv_perm m p) 0%nat) 0%nat p).
  rewrite <- (map_id (seq 0 (length p))) at 1. apply map_ext_in. intros a Ha. apply in_seq in Ha.
  unfold inv_perm. rewrite (nth_map_in (fun i => pos i p) (seq 0 m) 0%nat 0%nat).
  - rewrite seq_nth by (apply (is_perm_nth_lt m p a Hp); lia). cbn [Nat.add].
    symmetry. apply pos_nth; [eapply is_perm_nodup; eauto|lia].
  - rewrite seq_length. apply (is_perm_nth_lt m p a Hp). lia.
Qed.

Lemma permR_inv_p m p x : is_perm m p -> length x = m -> permR (inv_perm m p) (permR p x) = x.
Proof.
  intros Hp Hx. pose proof (is_perm_length m p Hp) as Hl.
  rewrite permR_comp.
  - replace (map (fun i => nth i p 0%nat) (inv_perm m p)) with (seq 0 (length x)); [apply permR_seq|].
    rewrite Hx. unfold inv_perm. rewrite map_map. rewrite <- (map_id (seq 0 m)) at 1.
    apply map_ext_in. intros i Hi. apply in_seq in Hi. symmetry. apply nth_pos.
    apply (is_perm_in m p i Hp). lia.
  - intros i Hi. unfold inv_perm in Hi. apply in_map_iff in Hi. destruct Hi as (j & <- & Hj).
    apply in_seq in Hj. apply pos_lt. apply (is_perm_in m p j Hp). lia.
Qed.

(* ================================================================== *)
(* 3. E1: feasibility, minimisers                                      *)
(* ================================================================== *)
Lemma feasible_nth u v : feasible u v -> forall i, nth i u 0 <= nth i v 0.
Proof.
  induction 1 as [|x y u v Hxy Huv IH]; intros i; destruct i; cbn [nth]; try lra. apply IH.
Qed.

Lemma feasible_permR p u v : feasible u v -> feasible (permR p u) (permR p v).
Proof.
  intros H. unfold permR. induction p as [|i p IH]; cbn [map]; constructor; [|exact IH].
  apply feasible_nth. exact H.
Qed.

(* every feasible point of the permuted problem is the permutation of a feasible point *)
Lemma feasible_perm_preimage m p u v' : is_perm m p -> length u = m -> length v' = m ->
  feasible (permR p u) v' ->
  exists v, length v = m /\ feasible u v /\ v' = permR p v.
Proof.
  intros Hp Hu Hv Hf. exists (permR (inv_perm m p) v'). split; [|split].
  - rewrite length_permR. apply length_inv_perm.
  - rewrite <- (permR_inv_p m p u Hp Hu) at 1. apply feasible_permR. exact Hf.
  - symmetry. apply permR_p_inv; assumption.
Qed.

(* E1, core: the constrained minimiser is equivariant *)
Theorem is_min_perm m M p u w : length M = m -> wfmat m M -> is_perm m p ->
  is_min m M u w -> is_min m (permM p M) (permR p u) (permR p w).
Proof.
  intros HM Hwf Hp (Hw & Hf & Hmin). pose proof (is_perm_length m p Hp) as Hl.
  assert (Hu : length u = m) by (rewrite (feasible_length _ _ Hf); exact Hw).
  split; [rewrite length_permR; exact Hl|]. split; [apply feasible_permR; exact Hf|].
  intros v' Hv' Hf'.
  destruct (feasible_perm_preimage m p u v' Hp Hu Hv' Hf') as (v & Hv & Hfv & ->).
  rewrite !(qf_perm m) by assumption. apply Hmin; assumption.
Qed.

(* and conversely (the inverse permutation is used on the matrix through the preimage lemma) *)
Theorem is_min_perm_iff m M p u w : length M = m -> wfmat m M -> is_perm m p ->
  length u = m -> length w = m ->
  (is_min m M u w <-> is_min m (permM p M) (permR p u) (permR p w)).
Proof.
  intros HM Hwf Hp Hu Hw. split; [apply is_min_perm; assumption|].
  intros (_ & Hf & Hmin). split; [exact Hw|]. split.
  - rewrite <- (permR_inv_p m p u Hp Hu), <- (permR_inv_p m p w Hp Hw). apply feasible_permR. exact Hf.
  - intros v Hv Hfv. rewrite <- (qf_perm m M p w), <- (qf_perm m M p v) by assumption.
    apply Hmin; [rewrite length_permR; eapply is_perm_length; eauto | apply feasible_permR; exact Hfv].
Qed.

(* ================================================================== *)
(* 4. entrywise description of the matrices; reg_norm_gramian commutes *)
(*    with the simultaneous permutation                                *)
(* ================================================================== *)
Lemma mat_ext m A B : length A = m -> length B = m -> wfmat m A -> wfmat m B ->
  (forall i j, (i < m)%nat -> (j < m)%nat -> mget RN A i j = mget RN B i j) -> A = B.
Proof.
  intros HA HB HwA HwB H. apply (nth_ext A B [] []); [congruence|]. intros i Hi.
  apply (nth_ext _ _ 0 0).
  - rewrite !(wfmat_nth m) by (auto; congruence). reflexivity.
  - intros j Hj. rewrite (wfmat_nth m) in Hj by (auto; congruence). apply H; congruence.
Qed.

Lemma mget_permM p G a b : (a < length p)%nat -> (b < length p)%nat ->
  mget RN (permM p G) a b = mget RN G (nth a p 0%nat) (nth b p 0%nat).
Proof.
  intros Ha Hb. unfold mget, permM.
  rewrite (nth_map_in (fun i => permR p (nth i G [])) p 0%nat [] a Ha). apply nth_permR. exact Hb.
Qed.

Lemma mget_mscale c G i j : mget RN (mscale RN c G) i j = c * mget RN G i j.
Proof.
  unfold mget, mscale. rn.
  transitivity (nth j (vscaleR c (nth i G [])) 0); [f_equal; apply (map_nth (vscaleR c) G [] i)|].
  apply nth_vscale.
Qed.

Lemma mget_mzero m i j : (i < m)%nat -> mget RN (mzero RN m) i j = 0.
Proof.
  intros Hi. unfold mget, mzero. rewrite (nth_indep _ [] (vzeroR m)) by (rewrite repeat_length; exact Hi).
  rewrite nth_repeat. unfold vzero. apply nth_repeat.
Qed.

Lemma length_mscale c G : length (mscale RN c G) = length G.
Proof. apply map_length. Qed.
Lemma wfmat_mscale m c G : wfmat m G -> wfmat m (mscale RN c G).
Proof.
  intros H. unfold wfmat, mscale. apply Forall_forall. intros r Hr. apply in_map_iff in Hr.
  destruct Hr as (r0 & <- & Hr0). rewrite length_vscale. unfold wfmat in H. rewrite Forall_forall in H.
  apply H. exact Hr0.
Qed.
Lemma length_mzero m : length (mzero RN m) = m.
Proof. apply repeat_length. Qed.

Lemma length_add_diag eps : forall M k, length (add_diag_from RN k eps M) = length M.
Proof. induction M as [|r M IH]; intros k; cbn [add_diag_from length]; [reflexivity|]. rewrite IH. reflexivity. Qed.

Lemma wfmat_add_diag m eps : forall M k, wfmat m M -> wfmat m (add_diag_from RN k eps M).
Proof.
  induction M as [|r M IH]; intros k H; cbn [add_diag_from]; [constructor|].
  apply Forall_cons_iff in H. destruct H as [Hr HM]. constructor; [|apply IH; exact HM].
  rewrite length_vadd; [exact Hr|]. rewrite length_onehot. reflexivity.
Qed.

Lemma nth_add_diag eps : forall M k i, (i < length M)%nat ->
  nth i (add_diag_from RN k eps M) [] =
  vaddR (nth i M []) (onehotR (length (nth i M [])) (k + i) eps).
Proof.
  induction M as [|r M IH]; intros k i Hi; cbn [length] in Hi; [lia|].
  destruct i as [|i]; cbn [add_diag_from nth].
  - rewrite Nat.add_0_r. reflexivity.
  - rewrite IH by lia. rewrite Nat.add_succ_r. reflexivity.
Qed.

Lemma nth_onehot : forall n i j x, (j < n)%nat ->
  nth j (onehotR n i x) 0 = if Nat.eqb i j then x else 0.
Proof.
  induction n as [|n IH]; intros i j x Hj; [lia|].
  destruct i as [|i], j as [|j]; cbn [onehot nth Nat.eqb]; try reflexivity.
  - unfold vzero. apply nth_repeat.
  - apply IH. lia.
Qed.

Lemma mget_regularize m M eps i j : wfmat m M -> (i < length M)%nat -> (j < m)%nat ->
  mget RN (regularize RN M eps) i j = mget RN M i j + (if Nat.eqb i j then eps else 0).
Proof.
  intros Hwf Hi Hj. unfold mget, regularize. rewrite nth_add_diag by exact Hi. rn.
  rewrite nth_vadd by (rewrite length_onehot; reflexivity).
  rewrite (wfmat_nth m M i Hwf Hi). rewrite nth_onehot by exact Hj. reflexivity.
Qed.

Lemma regularize_perm m X p eps : length X = m -> wfmat m X -> is_perm m p ->
  regularize RN (permM p X) eps = permM p (regularize RN X eps).
Proof.
  intros HX Hwf Hp. pose proof (is_perm_length m p Hp) as Hl.
  assert (Hwf' : wfmat m (permM p X)) by (rewrite <- Hl; apply wfmat_permM).
  apply (mat_ext m).
  - unfold regularize. rewrite length_add_diag, length_permM. exact Hl.
  - rewrite length_permM. exact Hl.
  - unfold regularize. apply wfmat_add_diag. exact Hwf'.
  - rewrite <- Hl. apply wfmat_permM.
  - intros i j Hi Hj.
    rewrite (mget_regularize m) by (auto; rewrite length_permM; lia).
    rewrite !mget_permM by lia.
    pose proof (is_perm_nth_lt m p i Hp Hi) as Hpi. pose proof (is_perm_nth_lt m p j Hp Hj) as Hpj.
    rewrite (mget_regularize m X eps _ _ Hwf) by (rewrite ?HX; assumption).
    f_equal. destruct (Nat.eqb_spec i j) as [E|E].
    + subst j. rewrite Nat.eqb_refl. reflexivity.
    + destruct (Nat.eqb_spec (nth i p 0%nat) (nth j p 0%nat)) as [E'|E']; [|reflexivity].
      exfalso. apply E. apply (is_perm_nth_inj m p); assumption.
Qed.

Lemma mscale_perm c X p : mscale RN c (permM p X) = permM p (mscale RN c X).
Proof.
  pose proof (wfmat_permM p X) as Hw.
  apply (mat_ext (length p)).
  - rewrite length_mscale. apply length_permM.
  - apply length_permM.
  - apply wfmat_mscale. exact Hw.
  - apply wfmat_permM.
  - intros i j Hi Hj. rewrite mget_mscale, !mget_permM by assumption. rewrite mget_mscale. reflexivity.
Qed.

Lemma mzero_perm m p : is_perm m p -> mzero RN m = permM p (mzero RN m).
Proof.
  intros Hp. pose proof (is_perm_length m p Hp) as Hl. apply (mat_ext m).
  - apply length_mzero.
  - rewrite length_permM. exact Hl.
  - apply wfmat_mzero.
  - rewrite <- Hl. apply wfmat_permM.
  - intros i j Hi Hj. rewrite mget_permM by lia. rewrite !mget_mzero; auto.
    apply (is_perm_nth_lt m p); auto.
Qed.

(* the matrix handed to the QP oracle for the permuted Jacobian is the permuted matrix *)
Theorem reg_norm_gramian_perm m G p s ne re : length G = m -> wfmat m G -> is_perm m p ->
  reg_norm_gramian RN (permM p G) s ne re = permM p (reg_norm_gramian RN G s ne re).
Proof.
  intros HG Hwf Hp. pose proof (is_perm_length m p Hp) as Hl.
  unfold reg_norm_gramian, normalized_gramian. rewrite length_permM, Hl, HG.
  destruct (nltb RN s ne).
  - rewrite (mzero_perm m p Hp) at 1. apply (regularize_perm m); auto using length_mzero, wfmat_mzero.
  - rewrite mscale_perm. apply (regularize_perm m); auto using wfmat_mscale.
    rewrite length_mscale. exact HG.
Qed.

Corollary reg_norm_gramian_perm_rows J p s ne re : is_perm (length J) p ->
  reg_norm_gramian RN (gramR (perm_rows p J)) s ne re =
  permM p (reg_norm_gramian RN (gramR J) s ne re).
Proof.
  intros Hp. rewrite gram_perm_rows. apply (reg_norm_gramian_perm (length J)); auto.
  - apply length_gram.
  - apply wfmat_gram.
Qed.

(* ================================================================== *)
(* 5. uniqueness (strong convexity) for reg_norm_gramian, both branches *)
(* ================================================================== *)
Theorem min_unique_sc m M re u w1 w2 : length M = m -> symm m M ->
  (forall x, length x = m -> re * dotR x x <= qf M x) -> 0 < re ->
  is_min m M u w1 -> is_min m M u w2 -> w1 = w2.
Proof.
  intros HM Hsym HL Hre' (Hl1 & Hf1 & Hm1) (Hl2 & Hf2 & Hm2).
  set (d := vsubR w2 w1).
  assert (Hd : length d = m) by (unfold d; rewrite length_vsub; congruence).
  assert (E : w2 = vaddR w1 d) by (unfold d; symmetry; apply vadd_vsub; congruence).
  set (h := vaddR w1 (vscaleR (1/2) d)).
  assert (Hh : length h = m) by (unfold h; rewrite length_vadd; rewrite ?length_vscale; congruence).
  assert (Hfh : feasible u h).
  { unfold h, d. clear -Hf1 Hf2. revert w2 Hf2. induction Hf1 as [|a b U W1 Hab HUW IH]; intros w2 Hf2.
    - inversion Hf2; subst. constructor.
    - inversion Hf2 as [|a' b2 U' W2 Hab2 HUW2]; subst. cbn [vsub vscale map vadd].
      constructor; [rn; lra|]. apply IH. exact HUW2. }
  pose proof (Hm1 h Hh Hfh) as H1. pose proof (Hm2 h Hh Hfh) as H2.
  pose proof (qf_expand m M w1 d HM Hsym Hl1 Hd) as X2. rewrite <- E in X2.
  assert (Hhd : length (vscaleR (1/2) d) = m) by (rewrite length_vscale; exact Hd).
  pose proof (qf_expand m M w1 (vscaleR (1/2) d) HM Hsym Hl1 Hhd) as Xh. fold h in Xh.
  assert (B : bil M (vscaleR (1/2) d) w1 = 1/2 * bil M d w1) by (unfold bil; apply dot_vscale_l).
  assert (Q : qf M (vscaleR (1/2) d) = 1/4 * qf M d).
  { unfold qf, bil. rewrite mv_vscale, dot_vscale_l, dot_vscale_r. lra. }
  rewrite B, Q in Xh.
  pose proof (HL d Hd) as L. pose proof (dot_self_nonneg d) as P.
  assert (Z : dotR d d = 0) by (timeout 60 nra).
  apply dot_self_zero in Z. rewrite E, Z. symmetry. apply vadd_vzero_r. congruence.
Qed.

Lemma reg_norm_gramian_sc n J s ne re : wfmat n J -> (nltb RN s ne = false -> 0 < s) ->
  let M := reg_norm_gramian RN (gramR J) s ne re in
  let m := length J in
  length M = m /\ wfmat m M /\ symm m M /\ forall x, length x = m -> re * dotR x x <= qf M x.
Proof.
  intros HJ Hs M m.
  assert (Hwf : wfmat m M).
  { unfold M, reg_norm_gramian, regularize, normalized_gramian. apply wfmat_add_diag.
    rewrite length_gram. fold m. destruct (nltb RN s ne); [apply wfmat_mzero|].
    apply wfmat_mscale. apply wfmat_gram. }
  destruct (nltb RN s ne) eqn:Hne.
  - assert (Hb : forall x y, length x = m -> length y = m -> bil M x y = re * dotR x y).
    { intros x y Hx Hy. unfold bil, M. rewrite M_small_mv by (auto; rewrite length_gram; exact Hy).
      apply dot_vscale_r. }
    split; [|split; [exact Hwf|split]].
    + unfold M. rewrite M_small_length by exact Hne. apply length_gram.
    + intros x y Hx Hy. rewrite !Hb by assumption. rewrite dot_comm. reflexivity.
    + intros x Hx. unfold qf. rewrite Hb by assumption. lra.
  - specialize (Hs eq_refl). split; [|split; [exact Hwf|split]].
    + apply length_M. exact Hne.
    + apply (symm_M n); assumption.
    + apply (qf_M_lower n); assumption.
Qed.

(* the minimiser of the permuted problem is the permuted minimiser *)
Theorem reg_min_perm_unique n J p s ne re u w w' : wfmat n J -> is_perm (length J) p ->
  (nltb RN s ne = false -> 0 < s) -> 0 < re ->
  is_min (length J) (reg_norm_gramian RN (gramR J) s ne re) u w ->
  is_min (length J) (reg_norm_gramian RN (gramR (perm_rows p J)) s ne re) (permR p u) w' ->
  w' = permR p w.
Proof.
  intros HJ Hp Hs Hre Hmin Hmin'.
  destruct (reg_norm_gramian_sc n J s ne re HJ Hs) as (HlM & HwM & _ & _).
  assert (HJ' : wfmat n (perm_rows p J)).
  { apply wfmat_perm_rows; [exact HJ|]. intros i Hi. apply (is_perm_in _ _ i Hp). exact Hi. }
  destruct (reg_norm_gramian_sc n (perm_rows p J) s ne re HJ' Hs) as (HlM' & _ & HsM' & HL').
  rewrite length_perm_rows, (is_perm_length _ _ Hp) in HlM', HsM', HL'.
  apply (min_unique_sc (length J) _ re (permR p u)) with (1 := HlM') (2 := HsM') (3 := HL') (4 := Hre);
    [exact Hmin'|].
  rewrite reg_norm_gramian_perm_rows by exact Hp.
  apply is_min_perm; assumption.
Qed.

(* ---------------- DualProj ---------------- *)
Theorem dualproj_weights_equivariant n J p qp s ne re u : wfmat n J -> is_perm (length J) p ->
  (nltb RN s ne = false -> 0 < s) -> 0 < re ->
  let m := length J in
  let M := reg_norm_gramian RN (gramR J) s ne re in
  let M' := reg_norm_gramian RN (gramR (perm_rows p J)) s ne re in
  is_min m M u (qp M u) ->
  is_min m M' (permR p u) (qp M' (permR p u)) ->
  dualproj_weights RN qp (gramR (perm_rows p J)) s ne re (permR p u) =
  permR p (dualproj_weights RN qp (gramR J) s ne re u).
Proof.
  intros HJ Hp Hs Hre m M M' Hmin Hmin'. unfold dualproj_weights. fold M M'.
  eapply (reg_min_perm_unique n J p s ne re u); eassumption.
Qed.

(* ---------------- UPGrad ---------------- *)
Lemma onehot_perm m p a x : is_perm m p -> (a < m)%nat ->
  onehotR m a x = permR p (onehotR m (nth a p 0%nat) x).
Proof.
  intros Hp Ha. pose proof (is_perm_length m p Hp) as Hl.
  apply (nth_ext _ _ 0 0).
  - rewrite length_onehot, length_permR. symmetry; exact Hl.
  - intros b Hb. rewrite length_onehot in Hb. rewrite nth_permR by lia.
    pose proof (is_perm_nth_lt m p b Hp Hb) as Hpb.
    rewrite !nth_onehot by assumption.
    destruct (Nat.eqb_spec a b) as [E|E].
    + subst b. rewrite Nat.eqb_refl. reflexivity.
    + destruct (Nat.eqb_spec (nth a p 0%nat) (nth b p 0%nat)) as [E'|E']; [|reflexivity].
      exfalso. apply E. apply (is_perm_nth_inj m p); assumption.
Qed.

Lemma vsum_rows_perm k L L' : Forall (fun r => length r = k) L -> Permutation L L' ->
  vsum_rows RN k L = vsum_rows RN k L'.
Proof.
  intros Hwf Hp. induction Hp as [|r l l' Hp IH|r s l|l l' l'' H1 IH1 H2 IH2].
  - reflexivity.
  - cbn [vsum_rows]. apply Forall_cons_iff in Hwf. rewrite IH by apply Hwf. reflexivity.
  - cbn [vsum_rows]. apply Forall_cons_iff in Hwf. destruct Hwf as [Hs Hwf].
    apply Forall_cons_iff in Hwf. destruct Hwf as [Hr Hwf].
    apply vadd_swap; rewrite ?length_vsum_rows; auto; congruence.
  - rewrite IH1 by exact Hwf. apply IH2. eapply Permutation_Forall; eauto.
Qed.

Lemma permR_vadd p a b : length a = length b -> permR p (vaddR a b) = vaddR (permR p a) (permR p b).
Proof.
  intros H. unfold permR. induction p as [|i p IH]; [reflexivity|]. cbn [map vadd].
  rewrite IH. rewrite nth_vadd by exact H. reflexivity.
Qed.

Lemma permR_vzero p m : permR p (vzeroR m) = vzeroR (length p).
Proof.
  unfold permR, vzero. induction p as [|i p IH]; [reflexivity|]. cbn [map length repeat].
  rewrite IH. rewrite nth_repeat. reflexivity.
Qed.

Lemma permR_vsum_rows p k L : length p = k -> Forall (fun r => length r = k) L ->
  permR p (vsum_rows RN k L) = vsum_rows RN k (map (permR p) L).
Proof.
  intros Hl. induction 1 as [|r L Hr HL IH]; cbn [vsum_rows map].
  - rewrite permR_vzero, Hl. reflexivity.
  - rewrite permR_vadd by (rewrite length_vsum_rows; congruence). rewrite IH. reflexivity.
Qed.

Theorem upgrad_weights_equivariant n J p qp s ne re u : wfmat n J -> is_perm (length J) p ->
  (nltb RN s ne = false -> 0 < s) -> 0 < re -> length u = length J ->
  let m := length J in
  let M := reg_norm_gramian RN (gramR J) s ne re in
  let M' := reg_norm_gramian RN (gramR (perm_rows p J)) s ne re in
  let u' := permR p u in
  (forall i, (i < m)%nat ->
     is_min m M (onehotR m i (vget RN u i)) (qp M (onehotR m i (vget RN u i)))) ->
  (forall i, (i < m)%nat ->
     is_min m M' (onehotR m i (vget RN u' i)) (qp M' (onehotR m i (vget RN u' i)))) ->
  upgrad_weights RN qp (gramR (perm_rows p J)) s ne re u' =
  permR p (upgrad_weights RN qp (gramR J) s ne re u).
Proof.
  intros HJ Hp Hs Hre Hu m M M' u' Hmin Hmin'.
  pose proof (is_perm_length _ _ Hp) as Hl. fold m in Hl, Hu, Hp.
  unfold upgrad_weights. cbv zeta.
  replace (length u') with m by (unfold u'; rewrite length_permR; symmetry; exact Hl).
  rewrite Hu. fold M M'.
  set (W := fun i => qp M (onehotR m i (vget RN u i))).
  assert (HW : Forall (fun r => length r = m) (map W (seq 0 m))).
  { apply Forall_forall. intros r Hr. apply in_map_iff in Hr. destruct Hr as (i & <- & Hi).
    apply in_seq in Hi. apply (Hmin i). lia. }
  assert (HWp : Forall (fun r => length r = m) (map W p)).
  { eapply Permutation_Forall; [|exact HW]. apply Permutation_map. symmetry. exact Hp. }
  transitivity (vsum_rows RN m (map (fun a => permR p (W (nth a p 0%nat))) (seq 0 m))).
  { f_equal. apply map_ext_in. intros a Ha. apply in_seq in Ha.
    assert (Ha' : (a < m)%nat) by lia.
    pose proof (is_perm_nth_lt m p a Hp Ha') as Hpa.
    specialize (Hmin' a Ha').
    assert (E : onehotR m a (vget RN u' a) =
                permR p (onehotR m (nth a p 0%nat) (vget RN u (nth a p 0%nat)))).
    { rewrite <- (onehot_perm m p a _ Hp Ha'). f_equal. unfold vget, u'. rn.
      apply nth_permR. lia. }
    rewrite E in Hmin' |- *.
    apply (reg_min_perm_unique n J p s ne re
             (onehotR m (nth a p 0%nat) (vget RN u (nth a p 0%nat))) (W (nth a p 0%nat)) _ HJ Hp Hs Hre).
    - apply Hmin. exact Hpa.
    - exact Hmin'. }
  rewrite <- Hl at 2. rewrite (map_seq_nth_f (fun i => permR p (W i)) 0%nat p).
  rewrite <- (map_map W (permR p)).
  rewrite <- (permR_vsum_rows p m) by assumption.
  f_equal. apply vsum_rows_perm; [exact HWp|]. apply Permutation_map. exact Hp.
Qed.

(* ---------------- aggregator level: agg_dualproj, agg_upgrad ---------------- *)
Lemma map_const_in {A} (f : nat -> A) (c : A) p : (forall i, In i p -> f i = c) ->
  map f p = repeat c (length p).
Proof.
  induction p as [|i p IH]; intros H; [reflexivity|]. cbn [map length repeat].
  rewrite (H i (or_introl eq_refl)). f_equal. apply IH. intros j Hj. apply H. right; exact Hj.
Qed.

Lemma permR_repeat m p c : is_perm m p -> permR p (repeat c m) = repeat c m.
Proof.
  intros Hp. unfold permR. rewrite (map_const_in _ c).
  - rewrite (is_perm_length m p Hp). reflexivity.
  - intros i Hi. apply (is_perm_in m p i Hp) in Hi.
    rewrite (nth_indep _ 0 c) by (rewrite repeat_length; exact Hi). apply nth_repeat.
Qed.

(* the preference vector travels with the rows *)
Lemma pref_weights_perm m p (pref : option (list R)) (c : R) u : is_perm m p ->
  (forall w, pref = Some w -> length w = m) ->
  pref_weights pref (repeat c m) m = Ok u ->
  pref_weights (option_map (permR p) pref) (repeat c m) m = Ok (permR p u) /\ length u = m.
Proof.
  intros Hp Hpref. destruct pref as [w|]; cbn [option_map pref_weights].
  - specialize (Hpref w eq_refl). unfold constant_weights.
    rewrite length_permR, (is_perm_length m p Hp), Hpref, Nat.eqb_refl. intros E.
    injection E as <-. split; [reflexivity|exact Hpref].
  - intros E. injection E as <-. rewrite permR_repeat by exact Hp. split; [reflexivity|apply repeat_length].
Qed.

Lemma pref_weights_ok m (pref : option (list R)) (c : R) : (forall w, pref = Some w -> length w = m) ->
  exists u, pref_weights pref (repeat c m) m = Ok u.
Proof.
  intros Hpref. destruct pref as [w|]; cbn [pref_weights]; [|eexists; reflexivity].
  unfold constant_weights. rewrite (Hpref w eq_refl), Nat.eqb_refl. eexists; reflexivity.
Qed.

Theorem agg_dualproj_perm n J p qp pref s ne re : wfmat n J -> J <> [] ->
  is_perm (length J) p -> (nltb RN s ne = false -> 0 < s) -> 0 < re ->
  (forall w, pref = Some w -> length w = length J) ->
  let m := length J in
  let M := reg_norm_gramian RN (gramR J) s ne re in
  let M' := reg_norm_gramian RN (gramR (perm_rows p J)) s ne re in
  (forall u, pref_weights pref (mean_weights RN m) m = Ok u ->
     is_min m M u (qp M u) /\ is_min m M' (permR p u) (qp M' (permR p u))) ->
  agg_dualproj RN qp (option_map (permR p) pref) s ne re (perm_rows p J) =
  agg_dualproj RN qp pref s ne re J.
Proof.
  intros HJ Hne Hp Hs Hre Hpref m M M' Hqp. unfold agg_dualproj.
  rewrite length_perm_rows, (is_perm_length _ _ Hp). fold m. unfold mean_weights in *.
  destruct (pref_weights_ok m pref (ndiv RN (n1 RN) (nofnat RN m)) Hpref) as (u & Eu).
  destruct (pref_weights_perm m p pref _ u Hp Hpref Eu) as (Eu' & Hu).
  rewrite Eu, Eu'. cbn [rbind]. f_equal. destruct (Hqp u Eu) as (Hmin & Hmin').
  apply (gramian_form_perm n); auto.
  - unfold dualproj_weights. apply Hmin.
  - apply (dualproj_weights_equivariant n); assumption.
Qed.

Theorem agg_upgrad_perm n J p qp pref s ne re : wfmat n J -> J <> [] ->
  is_perm (length J) p -> (nltb RN s ne = false -> 0 < s) -> 0 < re ->
  (forall w, pref = Some w -> length w = length J) ->
  let m := length J in
  let M := reg_norm_gramian RN (gramR J) s ne re in
  let M' := reg_norm_gramian RN (gramR (perm_rows p J)) s ne re in
  (forall u i, pref_weights pref (mean_weights RN m) m = Ok u -> (i < m)%nat ->
     is_min m M (onehotR m i (vget RN u i)) (qp M (onehotR m i (vget RN u i))) /\
     is_min m M' (onehotR m i (vget RN (permR p u) i))
                 (qp M' (onehotR m i (vget RN (permR p u) i)))) ->
  agg_upgrad RN qp (option_map (permR p) pref) s ne re (perm_rows p J) =
  agg_upgrad RN qp pref s ne re J.
Proof.
  intros HJ Hne Hp Hs Hre Hpref m M M' Hqp. unfold agg_upgrad.
  rewrite length_perm_rows, (is_perm_length _ _ Hp). fold m. unfold mean_weights in *.
  destruct (pref_weights_ok m pref (ndiv RN (n1 RN) (nofnat RN m)) Hpref) as (u & Eu).
  destruct (pref_weights_perm m p pref _ u Hp Hpref Eu) as (Eu' & Hu).
  rewrite Eu, Eu'. cbn [rbind]. f_equal.
  apply (gramian_form_perm n); auto.
  - unfold upgrad_weights. rewrite Hu. apply length_vsum_rows.
    apply Forall_forall. intros r Hr. apply in_map_iff in Hr. destruct Hr as (i & <- & Hi).
    apply in_seq in Hi. apply (Hqp u i Eu). lia.
  - apply (upgrad_weights_equivariant n); auto; intros i Hi; apply (Hqp u i Eu Hi).
Qed.

(* ================================================================== *)
(* 6. E2: Krum                                                         *)
(* ================================================================== *)
Lemma krum_dist_perm p G a b : (a < length p)%nat -> (b < length p)%nat ->
  krum_dist RN (permM p G) a b = krum_dist RN G (nth a p 0%nat) (nth b p 0%nat).
Proof. intros Ha Hb. unfold krum_dist. rewrite !mget_permM by assumption. reflexivity. Qed.

Lemma length_krum_distances G : length (krum_distances RN G) = length G.
Proof. unfold krum_distances. rewrite map_length. apply seq_length. Qed.

Lemma wfmat_krum_distances G : wfmat (length G) (krum_distances RN G).
Proof.
  unfold wfmat, krum_distances. apply Forall_forall. intros r Hr. apply in_map_iff in Hr.
  destruct Hr as (i & <- & _). rewrite map_length. apply seq_length.
Qed.

Lemma mget_krum_distances G i j : (i < length G)%nat -> (j < length G)%nat ->
  mget RN (krum_distances RN G) i j = krum_dist RN G i j.
Proof.
  intros Hi Hj. unfold mget, krum_distances.
  rewrite (nth_map_in (fun i => map (fun j => krum_dist RN G i j) (seq 0 (length G)))
             (seq 0 (length G)) 0%nat [] i) by (rewrite seq_length; exact Hi).
  rewrite (nth_map_in (fun j => krum_dist RN G (nth i (seq 0 (length G)) 0%nat) j)
             (seq 0 (length G)) 0%nat (n0 RN) j) by (rewrite seq_length; exact Hj).
  rewrite !seq_nth by assumption. reflexivity.
Qed.

(* the distance matrix of the permuted problem is the permuted distance matrix *)
Lemma krum_distances_perm m G p : length G = m -> is_perm m p ->
  krum_distances RN (permM p G) = permM p (krum_distances RN G).
Proof.
  intros HG Hp. pose proof (is_perm_length m p Hp) as Hl.
  apply (mat_ext m).
  - rewrite length_krum_distances, length_permM. exact Hl.
  - rewrite length_permM. exact Hl.
  - rewrite <- Hl, <- (length_permM p G). apply wfmat_krum_distances.
  - rewrite <- Hl. apply wfmat_permM.
  - intros a b Ha Hb.
    rewrite mget_krum_distances by (rewrite length_permM; lia).
    rewrite krum_dist_perm by lia. rewrite mget_permM by lia.
    rewrite mget_krum_distances by (rewrite HG; apply (is_perm_nth_lt m p); auto). reflexivity.
Qed.

Lemma isort_permR p r : is_perm (length r) p -> isortR (permR p r) = isortR r.
Proof.
  intros Hp. apply sorted_perm_eq; try apply isort_sorted.
  rewrite !isort_perm. symmetry. apply permR_Permutation. exact Hp.
Qed.

(* the scores of the permuted problem are the permuted scores *)
Lemma krum_scores_perm m D p nc : length D = m -> wfmat m D -> is_perm m p ->
  krum_scores RN (permM p D) nc = permR p (krum_scores RN D nc).
Proof.
  intros HD Hwf Hp. unfold krum_scores, permM. rewrite map_map. unfold permR at 2.
  apply map_ext_in. intros i Hi. apply (is_perm_in m p i Hp) in Hi.
  assert (Hi' : (i < length D)%nat) by lia.
  rewrite (nth_map_in (fun row => vsumR (skipn 1 (firstn (nc + 1) (isortR row)))) D [] 0 i)
    by exact Hi'.
  rewrite isort_permR; [reflexivity|]. rewrite (wfmat_nth m) by (auto; lia). exact Hp.
Qed.

(* ---- the set of the k smallest of pairwise distinct values is unique ---- *)
Definition lowset (v : list R) (S : list nat) : Prop :=
  NoDup S /\ (forall i, In i S -> (i < length v)%nat) /\
  (forall i j, In i S -> (j < length v)%nat -> ~ In j S -> nth i v 0 <= nth j v 0).

Definition distinct_on (m : nat) (v : list R) : Prop :=
  forall i j, (i < m)%nat -> (j < m)%nat -> i <> j -> nth i v 0 <> nth j v 0.

Lemma smallest_k_lowset k v : (k <= length v)%nat ->
  lowset v (smallest_k RN k v) /\ length (smallest_k RN k v) = k.
Proof.
  intros Hk. destruct (smallest_k_spec k v Hk) as (H1 & H2 & H3 & H4).
  split; [split; [exact H1|split; [exact H3|exact H4]]|exact H2].
Qed.

Lemma exists_not_in (S T : list nat) i : NoDup T -> (length S <= length T)%nat ->
  In i S -> ~ In i T -> exists j, In j T /\ ~ In j S.
Proof.
  intros HT Hlen HiS HiT.
  destruct (Exists_dec (fun j => ~ In j S) T) as [E|E].
  - intros j. destruct (in_dec Nat.eq_dec j S) as [H|H]; [right; intros X; apply X; exact H|left; exact H].
  - apply Exists_exists in E. exact E.
  - exfalso. apply HiT. apply (NoDup_length_incl HT Hlen); [|exact HiS].
    intros j Hj. destruct (in_dec Nat.eq_dec j S) as [H|H]; [exact H|].
    exfalso. apply E. apply Exists_exists. exists j. split; assumption.
Qed.

Lemma lowset_unique v S T : distinct_on (length v) v -> lowset v S -> lowset v T ->
  length S = length T -> forall i, In i S -> In i T.
Proof.
  intros Hd (HS1 & HS2 & HS3) (HT1 & HT2 & HT3) Hlen i Hi.
  destruct (in_dec Nat.eq_dec i T) as [H|H]; [exact H|exfalso].
  destruct (exists_not_in S T i HT1 ltac:(lia) Hi H) as (j & HjT & HjS).
  pose proof (HS3 i j Hi (HT2 j HjT) HjS) as L1.
  pose proof (HT3 j i HjT (HS2 i Hi) H) as L2.
  assert (Hij : i <> j) by (intros ->; contradiction).
  apply (Hd i j (HS2 i Hi) (HT2 j HjT) Hij). lra.
Qed.

Lemma NoDup_map_inj_in {A B} (f : A -> B) (l : list A) :
  (forall x y, In x l -> In y l -> f x = f y -> x = y) -> NoDup l -> NoDup (map f l).
Proof.
  intros Hinj Hnd. induction Hnd as [|x l Hx Hnd IH]; cbn [map]; constructor.
  - intros Hin. apply in_map_iff in Hin. destruct Hin as (y & Hy & Hyl).
    assert (y = x) by (apply Hinj; [right; exact Hyl|left; reflexivity|exact Hy]). subst y. contradiction.
  - apply IH. intros a b Ha Hb. apply Hinj; right; assumption.
Qed.

(* with pairwise distinct values, the selected set of the permuted vector is the preimage of the
   selected set *)
Theorem smallest_k_perm m v p k : length v = m -> is_perm m p -> distinct_on m v -> (k <= m)%nat ->
  forall a, (a < m)%nat ->
    (In a (smallest_k RN k (permR p v)) <-> In (nth a p 0%nat) (smallest_k RN k v)).
Proof.
  intros Hv Hp Hd Hk. pose proof (is_perm_length m p Hp) as Hl.
  assert (Hv' : length (permR p v) = m) by (rewrite length_permR; exact Hl).
  destruct (smallest_k_lowset k v ltac:(lia)) as (HS & HSl).
  destruct (smallest_k_lowset k (permR p v) ltac:(lia)) as ((HS'1 & HS'2 & HS'3) & HS'l).
  set (S := smallest_k RN k v) in *. set (S' := smallest_k RN k (permR p v)) in *.
  rewrite Hv' in HS'2, HS'3.
  set (T := map (fun a => nth a p 0%nat) S').
  assert (HT : lowset v T).
  { split; [|split].
    - apply NoDup_map_inj_in; [|exact HS'1]. intros x y Hx Hy E.
      apply (is_perm_nth_inj m p); auto.
    - intros i Hi. apply in_map_iff in Hi. destruct Hi as (a & <- & Ha). rewrite Hv.
      apply (is_perm_nth_lt m p); auto.
    - intros i j Hi Hj HjT. apply in_map_iff in Hi. destruct Hi as (a & <- & Ha).
      rewrite Hv in Hj. assert (Hjp : In j p) by (apply (is_perm_in m p j Hp); exact Hj).
      set (b := pos j p). assert (Hb : (b < m)%nat) by (rewrite <- Hl; apply pos_lt; exact Hjp).
      assert (Ejb : nth b p 0%nat = j) by (apply nth_pos; exact Hjp).
      assert (HbS : ~ In b S').
      { intros X. apply HjT. apply in_map_iff. exists b. split; assumption. }
      pose proof (HS'3 a b Ha Hb HbS) as L.
      rewrite !nth_permR in L by (rewrite Hl; auto). rewrite Ejb in L. exact L. }
  assert (HTl : length T = k) by (unfold T; rewrite map_length; exact HS'l).
  rewrite <- Hv in Hd.
  intros a Ha. split.
  - intros Hin. apply (lowset_unique v T S Hd HT HS ltac:(lia)).
    apply in_map_iff. exists a. split; [reflexivity|exact Hin].
  - intros Hin. apply (lowset_unique v S T Hd HS HT ltac:(lia)) in Hin.
    apply in_map_iff in Hin. destruct Hin as (b & E & Hb).
    assert (b = a) by (apply (is_perm_nth_inj m p); auto). subst b. exact Hb.
Qed.

Lemma count_occ_iff (S S' : list nat) a b : NoDup S -> NoDup S' -> (In a S' <-> In b S) ->
  count_occ Nat.eq_dec S' a = count_occ Nat.eq_dec S b.
Proof.
  intros HS HS' Hiff. destruct (in_dec Nat.eq_dec a S') as [Ha|Ha].
  - rewrite NoDup_count_occ' in HS, HS'. rewrite (HS' a Ha), (HS b (proj1 Hiff Ha)). reflexivity.
  - assert (Hb : ~ In b S) by (intros X; apply Ha; apply Hiff; exact X).
    apply (count_occ_not_In Nat.eq_dec) in Ha, Hb. rewrite Ha, Hb. reflexivity.
Qed.

(* E2, weights: with pairwise distinct scores the Krum weights are equivariant *)
Theorem krum_weights_equivariant m D p f k : length D = m -> wfmat m D -> is_perm m p ->
  (k <= m)%nat -> distinct_on m (krum_scores RN D (m - f - 2)) ->
  krum_weights_of_dist RN (permM p D) f k = permR p (krum_weights_of_dist RN D f k).
Proof.
  intros HD Hwf Hp Hk Hd. pose proof (is_perm_length m p Hp) as Hl.
  unfold krum_weights_of_dist. rewrite length_permM, Hl, HD.
  rewrite (krum_scores_perm m) by assumption.
  set (v := krum_scores RN D (m - f - 2)) in *.
  assert (Hv : length v = m) by (unfold v, krum_scores; rewrite map_length; exact HD).
  set (S := smallest_k RN k v). set (S' := smallest_k RN k (permR p v)).
  assert (HS : NoDup S) by (apply (smallest_k_lowset k v); lia).
  assert (HS' : NoDup S') by (apply (smallest_k_lowset k (permR p v)); rewrite length_permR; lia).
  set (g := fun i => ndiv RN (nofnat RN (count_occ Nat.eq_dec S i)) (nofnat RN k)).
  transitivity (map (fun a => g (nth a p 0%nat)) (seq 0 m)).
  - apply map_ext_in. intros a Ha. apply in_seq in Ha. unfold g. do 2 f_equal.
    apply count_occ_iff; auto. apply (smallest_k_perm m v p k); auto. lia.
  - rewrite <- Hl at 1. rewrite (map_seq_nth_f g 0%nat p). unfold permR.
    apply map_ext_in. intros i Hi. apply (is_perm_in m p i Hp) in Hi.
    rewrite (nth_map_in g (seq 0 m) 0%nat 0 i) by (rewrite seq_length; exact Hi).
    rewrite seq_nth by exact Hi. reflexivity.
Qed.

(* E2, aggregator *)
Theorem agg_krum_perm n J p f k : wfmat n J -> J <> [] -> is_perm (length J) p ->
  distinct_on (length J)
    (krum_scores RN (krum_distances RN (gramR J)) (length J - f - 2)) ->
  agg_krum RN f k (perm_rows p J) = agg_krum RN f k J.
Proof.
  intros HJ Hne Hp Hd. pose proof (is_perm_length _ _ Hp) as Hl. unfold agg_krum.
  rewrite length_perm_rows, Hl.
  destruct (length J <? f + 3)%nat; [reflexivity|].
  destruct (length J <? k)%nat eqn:Hk; [reflexivity|]. apply Nat.ltb_ge in Hk.
  f_equal. set (D := krum_distances RN (gramR J)) in *.
  assert (HD : length D = length J) by (unfold D; rewrite length_krum_distances; apply length_gram).
  assert (HwD : wfmat (length J) D).
  { unfold D. rewrite <- (length_gram J) at 1. apply wfmat_krum_distances. }
  apply (gramian_form_perm n); auto.
  - unfold krum_weights_of_dist. rewrite map_length, seq_length. exact HD.
  - rewrite gram_perm_rows, (krum_distances_perm (length J)) by (auto using length_gram).
    fold D. apply (krum_weights_equivariant (length J)); assumption.
Qed.

(* ================================================================== *)
(* 7. E3: pseudo-inverse (Penrose equations) and IMTL-G                *)
(* ================================================================== *)
Notation mmulR := (mmul RN).
Notation transposeR := (transpose RN).

(* the four Penrose equations, for m x m list matrices *)
Definition is_pinv (m : nat) (G P : list (list R)) : Prop :=
  mmulR m (mmulR m G P) G = G /\
  mmulR m (mmulR m P G) P = P /\
  transposeR m (mmulR m G P) = mmulR m G P /\
  transposeR m (mmulR m P G) = mmulR m P G.

Lemma mget_column B j : forall i, nth i (column RN B j) 0 = mget RN B i j.
Proof.
  unfold mget. induction B as [|r B IH]; intros i; cbn [column].
  - destruct i, j; reflexivity.
  - destruct i; cbn [nth]; [reflexivity|apply IH].
Qed.

Lemma length_column B j : length (column RN B j) = length B.
Proof. induction B as [|r B IH]; cbn [column length]; congruence. Qed.

Lemma column_map (f : nat -> list R) l j :
  column RN (map f l) j = map (fun i => nth j (f i) 0) l.
Proof. induction l as [|i l IH]; [reflexivity|]. cbn [map column]. rewrite IH. reflexivity. Qed.

Lemma nth_vm m j : forall r B, wfmat m B -> length r = length B -> (j < m)%nat ->
  nth j (vmR m r B) 0 = dotR r (column RN B j).
Proof.
  induction r as [|x r IH]; intros [|b B] Hwf Hl Hj; cbn in Hl; try lia.
  - cbn [vm column]. unfold vzero. rewrite nth_repeat. reflexivity.
  - apply Forall_cons_iff in Hwf. destruct Hwf as [Hb HB]. cbn [vm column].
    rewrite nth_vadd by (rewrite length_vscale, length_vm by exact HB; exact Hb).
    rewrite nth_vscale, dot_cons, IH by (auto; lia). reflexivity.
Qed.

Lemma length_mmul m A B : length (mmulR m A B) = length A.
Proof. apply map_length. Qed.

Lemma wfmat_mmul m A B : wfmat m B -> wfmat m (mmulR m A B).
Proof.
  intros HB. unfold wfmat, mmul. apply Forall_forall. intros r Hr. apply in_map_iff in Hr.
  destruct Hr as (r0 & <- & _). apply length_vm. exact HB.
Qed.

Lemma mget_mmul m A B i j : (i < length A)%nat -> wfmat m B -> length (nth i A []) = length B ->
  (j < m)%nat -> mget RN (mmulR m A B) i j = dotR (nth i A []) (column RN B j).
Proof.
  intros Hi HB Hl Hj. unfold mget, mmul.
  rewrite (nth_map_in (fun r => vmR m r B) A [] [] i Hi). apply nth_vm; assumption.
Qed.

Lemma column_permM p B b : (b < length p)%nat ->
  column RN (permM p B) b = permR p (column RN B (nth b p 0%nat)).
Proof.
  intros Hb. unfold permM. rewrite column_map. unfold permR at 2. apply map_ext. intros i.
  rewrite nth_permR by exact Hb. rewrite mget_column. reflexivity.
Qed.

Lemma mmul_permM m A B p : length A = m -> wfmat m A -> length B = m -> wfmat m B ->
  is_perm m p -> mmulR m (permM p A) (permM p B) = permM p (mmulR m A B).
Proof.
  intros HA HwA HB HwB Hp. pose proof (is_perm_length m p Hp) as Hl.
  assert (HwB' : wfmat m (permM p B)) by (rewrite <- Hl; apply wfmat_permM).
  apply (mat_ext m).
  - rewrite length_mmul, length_permM. exact Hl.
  - rewrite length_permM. exact Hl.
  - apply wfmat_mmul. exact HwB'.
  - rewrite <- Hl. apply wfmat_permM.
  - intros a b Ha Hb.
    pose proof (is_perm_nth_lt m p a Hp Ha) as Hpa. pose proof (is_perm_nth_lt m p b Hp Hb) as Hpb.
    assert (Ea : nth a (permM p A) [] = permR p (nth (nth a p 0%nat) A [])).
    { unfold permM. apply (nth_map_in (fun i => permR p (nth i A [])) p 0%nat [] a). lia. }
    rewrite (mget_mmul m) by (auto; rewrite ?length_permM, ?Ea, ?length_permR; lia).
    rewrite Ea, column_permM by lia.
    assert (Hla : length (nth (nth a p 0%nat) A []) = m) by (apply wfmat_nth; auto; lia).
    rewrite dot_permR by (rewrite ?Hla, ?length_column; auto; lia).
    rewrite mget_permM by lia.
    rewrite (mget_mmul m) by (auto; lia). reflexivity.
Qed.

Lemma mget_transpose m A i j : (i < m)%nat -> mget RN (transposeR m A) i j = mget RN A j i.
Proof.
  intros Hi. unfold mget at 1, transpose.
  rewrite (nth_map_in (column RN A) (seq 0 m) 0%nat [] i) by (rewrite seq_length; exact Hi).
  rewrite seq_nth by exact Hi. apply mget_column.
Qed.

Lemma length_transpose m A : length (transposeR m A) = m.
Proof. unfold transpose. rewrite map_length. apply seq_length. Qed.

Lemma wfmat_transpose m A : wfmat (length A) (transposeR m A).
Proof.
  unfold wfmat, transpose. apply Forall_forall. intros r Hr. apply in_map_iff in Hr.
  destruct Hr as (j & <- & _). apply length_column.
Qed.

Lemma transpose_permM m A p : length A = m -> is_perm m p ->
  transposeR m (permM p A) = permM p (transposeR m A).
Proof.
  intros HA Hp. pose proof (is_perm_length m p Hp) as Hl.
  apply (mat_ext m).
  - apply length_transpose.
  - rewrite length_permM. exact Hl.
  - rewrite <- Hl at 1. rewrite <- (length_permM p A). apply wfmat_transpose.
  - rewrite <- Hl. apply wfmat_permM.
  - intros a b Ha Hb.
    rewrite mget_transpose by exact Ha. rewrite !mget_permM by lia.
    rewrite mget_transpose by (apply (is_perm_nth_lt m p); auto). reflexivity.
Qed.

(* E3, part 1: the simultaneously permuted pseudo-inverse is a pseudo-inverse of the permuted matrix *)
Theorem is_pinv_perm m G P p : length G = m -> wfmat m G -> length P = m -> wfmat m P ->
  is_perm m p -> is_pinv m G P -> is_pinv m (permM p G) (permM p P).
Proof.
  intros HG HwG HP HwP Hp (E1 & E2 & E3 & E4).
  assert (HGP : length (mmulR m G P) = m) by (rewrite length_mmul; exact HG).
  assert (HPG : length (mmulR m P G) = m) by (rewrite length_mmul; exact HP).
  assert (HwGP : wfmat m (mmulR m G P)) by (apply wfmat_mmul; exact HwP).
  assert (HwPG : wfmat m (mmulR m P G)) by (apply wfmat_mmul; exact HwG).
  unfold is_pinv. rewrite !(mmul_permM m) by assumption.
  rewrite !(transpose_permM m) by assumption. rewrite E1, E2, E3, E4. repeat split; reflexivity.
Qed.

(* E3, part 2: IMTL-G weights *)
Theorem imtlg_weights_equivariant m G P p thr : length G = m -> length P = m -> wfmat m P ->
  is_perm m p ->
  imtlg_weights RN (permM p P) (permM p G) thr = permR p (imtlg_weights RN P G thr).
Proof.
  intros HG HP HwP Hp. pose proof (is_perm_length m p Hp) as Hl.
  unfold imtlg_weights. rewrite length_permM, Hl, HG. rn.
  set (h := fun i => sqrt (mget RN G i i)).
  set (d := map h (seq 0 m)).
  assert (Hd : length d = m) by (unfold d; rewrite map_length; apply seq_length).
  assert (Ed : map (fun i => sqrt (mget RN (permM p G) i i)) (seq 0 m) = permR p d).
  { transitivity (map (fun a => h (nth a p 0%nat)) (seq 0 m)).
    - apply map_ext_in. intros a Ha. apply in_seq in Ha. unfold h. rewrite mget_permM by lia. reflexivity.
    - rewrite <- Hl at 1. rewrite (map_seq_nth_f h 0%nat p). unfold permR. apply map_ext_in.
      intros i Hi. apply (is_perm_in m p i Hp) in Hi. unfold d.
      rewrite (nth_map_in h (seq 0 m) 0%nat 0 i) by (rewrite seq_length; exact Hi).
      rewrite seq_nth by exact Hi. reflexivity. }
  rewrite Ed. rewrite (mv_permM m) by assumption.
  set (v := mvR P d).
  assert (Hv : length v = m) by (unfold v; rewrite length_mv; exact HP).
  rewrite !vsum_permR by (rewrite ?Hv, ?Hd; exact Hp).
  destruct (Rltb (nabs RN (vsumR v) * vsumR d) thr).
  - rewrite permR_vzero, length_permR. reflexivity.
  - unfold permR. rewrite !map_map. apply map_ext_in. intros i Hi.
    apply (is_perm_in m p i Hp) in Hi.
    rewrite (nth_map_in (fun x => x / vsumR v) v 0 0 i) by lia. reflexivity.
Qed.

Theorem agg_imtlg_perm n J P p thr : wfmat n J -> J <> [] -> is_perm (length J) p ->
  length P = length J -> wfmat (length J) P ->
  agg_imtlg RN (permM p P) thr (perm_rows p J) = agg_imtlg RN P thr J.
Proof.
  intros HJ Hne Hp HP HwP. unfold agg_imtlg.
  apply (gramian_form_perm n); auto.
  - unfold imtlg_weights.
    match goal with |- context [if ?b then _ else _] => destruct b end;
      rewrite ?length_vzero, ?map_length, ?length_mv; exact HP.
  - rewrite gram_perm_rows. apply (imtlg_weights_equivariant (length J)); auto. apply length_gram.
Qed.

(* the complete E3 statement: P' = permM p P is a pseudo-inverse of the permuted Gramian and the
   aggregation computed with it is unchanged *)
Corollary imtlg_pinv_perm n J P p thr : wfmat n J -> J <> [] -> is_perm (length J) p ->
  length P = length J -> wfmat (length J) P -> is_pinv (length J) (gramR J) P ->
  is_pinv (length J) (gramR (perm_rows p J)) (permM p P) /\
  agg_imtlg RN (permM p P) thr (perm_rows p J) = agg_imtlg RN P thr J.
Proof.
  intros HJ Hne Hp HP HwP Hpinv. split; [|apply (agg_imtlg_perm n); assumption].
  rewrite gram_perm_rows. apply is_pinv_perm; auto using length_gram, wfmat_gram.
Qed.

(* ================================================================== *)
(* 8. back to the representation of C10Proofs:  Permutation J J'       *)
(* ================================================================== *)
Lemma perm_rows_comp p1 p2 (J : list (list R)) : (forall i, In i p2 -> (i < length p1)%nat) ->
  perm_rows p2 (perm_rows p1 J) = perm_rows (map (fun i => nth i p1 0%nat) p2) J.
Proof.
  intros H. unfold perm_rows. rewrite map_map. apply map_ext_in. intros i Hi.
  apply (nth_map_in (fun i => nth i J []) p1 0%nat [] i). apply H. exact Hi.
Qed.

(* every Permutation of the rows is perm_rows p for an index permutation p *)
Theorem Permutation_perm_rows (J J' : list (list R)) : Permutation J J' ->
  exists p, is_perm (length J) p /\ J' = perm_rows p J.
Proof.
  induction 1 as [|x l l' Hp IH|x y l|l l' l'' H1 IH1 H2 IH2].
  - exists []. split; [apply Permutation_refl|reflexivity].
  - destruct IH as (p & Hpp & ->). exists (0%nat :: map S p). split.
    + unfold is_perm. cbn [length seq]. constructor. rewrite <- seq_shift. apply Permutation_map. exact Hpp.
    + unfold perm_rows. cbn [map nth]. f_equal. rewrite map_map. reflexivity.
  - exists (1%nat :: 0%nat :: seq 2 (length l)). split.
    + unfold is_perm. cbn [length seq]. apply perm_swap.
    + unfold perm_rows. cbn [map nth]. do 2 f_equal.
      rewrite <- seq_shift, map_map, <- seq_shift, map_map. cbn [nth]. symmetry. apply map_seq_nth.
  - destruct IH1 as (p1 & Hp1 & ->). destruct IH2 as (p2 & Hp2 & ->).
    rewrite length_perm_rows, (is_perm_length _ _ Hp1) in Hp2.
    exists (map (fun i => nth i p1 0%nat) p2). split.
    + unfold is_perm. etransitivity; [apply Permutation_map; exact Hp2|].
      rewrite <- (is_perm_length _ _ Hp1) at 1. rewrite map_seq_nth. exact Hp1.
    + apply perm_rows_comp. intros i Hi. rewrite (is_perm_length _ _ Hp1).
      apply (is_perm_in _ _ i Hp2). exact Hi.
Qed.

(* Krum, in the style of C10Proofs.mean_sum_perm / trimmed_mean_perm *)
Theorem agg_krum_Permutation n J J' f k : wfmat n J -> J <> [] -> Permutation J J' ->
  distinct_on (length J)
    (krum_scores RN (krum_distances RN (gramR J)) (length J - f - 2)) ->
  agg_krum RN f k J' = agg_krum RN f k J.
Proof.
  intros HJ Hne Hp Hd. destruct (Permutation_perm_rows J J' Hp) as (p & Hpp & ->).
  apply (agg_krum_perm n); assumption.
Qed.

(* DualProj / UPGrad with the default (mean) preference: nothing but J is permuted *)
Theorem agg_dualproj_Permutation n J J' qp s ne re : wfmat n J -> J <> [] -> Permutation J J' ->
  (nltb RN s ne = false -> 0 < s) -> 0 < re ->
  let m := length J in
  let u := mean_weights RN m in
  let M := reg_norm_gramian RN (gramR J) s ne re in
  let M' := reg_norm_gramian RN (gramR J') s ne re in
  is_min m M u (qp M u) -> is_min m M' u (qp M' u) ->
  agg_dualproj RN qp None s ne re J' = agg_dualproj RN qp None s ne re J.
Proof.
  intros HJ Hne Hp Hs Hre m u M M' Hmin Hmin'.
  destruct (Permutation_perm_rows J J' Hp) as (p & Hpp & ->).
  apply (agg_dualproj_perm n J p qp None s ne re); auto; [discriminate|].
  cbn [pref_weights]. intros u0 E. injection E as <-. fold m u M M'.
  unfold u, mean_weights. rewrite (permR_repeat m p _ Hpp). split; assumption.
Qed.

Theorem agg_upgrad_Permutation n J J' qp s ne re : wfmat n J -> J <> [] -> Permutation J J' ->
  (nltb RN s ne = false -> 0 < s) -> 0 < re ->
  let m := length J in
  let u := mean_weights RN m in
  let M := reg_norm_gramian RN (gramR J) s ne re in
  let M' := reg_norm_gramian RN (gramR J') s ne re in
  (forall i, (i < m)%nat ->
     is_min m M (onehotR m i (vget RN u i)) (qp M (onehotR m i (vget RN u i))) /\
     is_min m M' (onehotR m i (vget RN u i)) (qp M' (onehotR m i (vget RN u i)))) ->
  agg_upgrad RN qp None s ne re J' = agg_upgrad RN qp None s ne re J.
Proof.
  intros HJ Hne Hp Hs Hre m u M M' Hmin.
  destruct (Permutation_perm_rows J J' Hp) as (p & Hpp & ->).
  apply (agg_upgrad_perm n J p qp None s ne re); auto; [discriminate|].
  cbn [pref_weights]. intros u0 i E Hi. injection E as <-. fold m u M M'.
  unfold u, mean_weights. rewrite (permR_repeat m p _ Hpp). apply Hmin. exact Hi.
Qed.

(* IMTL-G: some pseudo-inverse of the permuted Gramian gives the same aggregation *)
Theorem agg_imtlg_Permutation n J J' P thr : wfmat n J -> J <> [] -> Permutation J J' ->
  length P = length J -> wfmat (length J) P -> is_pinv (length J) (gramR J) P ->
  exists P', is_pinv (length J') (gramR J') P' /\ agg_imtlg RN P' thr J' = agg_imtlg RN P thr J.
Proof.
  intros HJ Hne Hp HP HwP Hpinv. destruct (Permutation_perm_rows J J' Hp) as (p & Hpp & ->).
  exists (permM p P). rewrite length_perm_rows, (is_perm_length _ _ Hpp).
  apply (imtlg_pinv_perm n); assumption.
Qed.

(* non-vacuity of the oracle hypotheses of dualproj_weights_equivariant: in the no-conflict case
   the oracle  qp _ u = u  answers minimisers on both sides *)
Lemma nonneg_permR p u : nonneg u -> nonneg (permR p u).
Proof.
  intros Hu. unfold nonneg, permR. apply Forall_forall. intros x Hx. apply in_map_iff in Hx.
  destruct Hx as (i & <- & _). destruct (lt_dec i (length u)) as [Hi|Hi].
  - unfold nonneg in Hu. rewrite Forall_forall in Hu. apply Hu. apply nth_In. exact Hi.
  - rewrite nth_overflow by lia. lra.
Qed.

Lemma dualproj_oracle_hyps_satisfiable n J p s ne re u : wfmat n J -> is_perm (length J) p ->
  0 < s -> nltb RN s ne = false -> 0 <= re ->
  (forall r r', In r J -> In r' J -> 0 <= dotR r r') -> length u = length J -> nonneg u ->
  let qp := fun (_ : list (list R)) (x : list R) => x in
  let M := reg_norm_gramian RN (gramR J) s ne re in
  let M' := reg_norm_gramian RN (gramR (perm_rows p J)) s ne re in
  is_min (length J) M u (qp M u) /\ is_min (length J) M' (permR p u) (qp M' (permR p u)).
Proof.
  intros HJ Hp Hs Hne Hre Hnc Hu Hnn qp M M'. pose proof (is_perm_length _ _ Hp) as Hl. split.
  - apply (no_conflict_min n); assumption.
  - assert (Hin : forall r, In r (perm_rows p J) -> In r J).
    { intros r Hr. unfold perm_rows in Hr. apply in_map_iff in Hr. destruct Hr as (i & <- & Hi).
      apply nth_In. apply (is_perm_in _ _ i Hp). exact Hi. }
    assert (HJ' : wfmat n (perm_rows p J)).
    { apply wfmat_perm_rows; [exact HJ|]. intros i Hi. apply (is_perm_in _ _ i Hp). exact Hi. }
    assert (Hnc' : forall r r', In r (perm_rows p J) -> In r' (perm_rows p J) -> 0 <= dotR r r').
    { intros r r' Hr Hr'. apply Hnc; apply Hin; assumption. }
    assert (Hu' : length (permR p u) = length (perm_rows p J)).
    { rewrite length_permR, length_perm_rows. reflexivity. }
    rewrite <- Hl, <- (length_perm_rows p J).
    exact (no_conflict_min n (perm_rows p J) s ne re (permR p u) HJ' Hs Hne Hre Hnc' Hu'
             (nonneg_permR p u Hnn)).
Qed.

(* ================================================================== *)
Print Assumptions gramian_form_perm.
Print Assumptions qf_perm.
Print Assumptions feasible_perm_preimage.
Print Assumptions is_min_perm.
Print Assumptions is_min_perm_iff.
Print Assumptions reg_norm_gramian_perm.
Print Assumptions reg_min_perm_unique.
Print Assumptions dualproj_weights_equivariant.
Print Assumptions upgrad_weights_equivariant.
Print Assumptions agg_dualproj_perm.
Print Assumptions agg_upgrad_perm.
Print Assumptions smallest_k_perm.
Print Assumptions krum_weights_equivariant.
Print Assumptions agg_krum_perm.
Print Assumptions is_pinv_perm.
Print Assumptions imtlg_weights_equivariant.
Print Assumptions agg_imtlg_perm.
Print Assumptions imtlg_pinv_perm.
Print Assumptions Permutation_perm_rows.
Print Assumptions agg_krum_Permutation.
Print Assumptions agg_dualproj_Permutation.
Print Assumptions agg_upgrad_Permutation.
Print Assumptions agg_imtlg_Permutation.
Print Assumptions dualproj_oracle_hyps_satisfiable.
