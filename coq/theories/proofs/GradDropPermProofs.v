(* GradDropPermProofs.v — GradDrop: invariance under row permutations (rows permuted together
   with their leak entries), all-zero columns, column locality. *)
From Coq Require Import Reals List Bool Arith Lia Lra Psatz Permutation.
From TJ Require Import Num Linalg NumR Agg.
From TJ.proofs Require Import LinalgR.
Import ListNotations.
Local Open Scope R_scope.

(* ---------------- helpers ---------------- *)
Lemma gd_vsum_perm (l l' : list R) : Permutation l l' -> vsumR l = vsumR l'.
Proof.
  induction 1 as [|x l l' Hp IH|x y l|l l' l'' H1 IH1 H2 IH2].
  - reflexivity.
  - rewrite !vsum_cons, IH. reflexivity.
  - rewrite !vsum_cons. lra.
  - etransitivity; eauto.
Qed.

Lemma gd_map_snd_combine {A B} : forall (a : list A) (b : list B), length a = length b ->
  map snd (List.combine a b) = b.
Proof.
  induction a as [|x a IH]; intros [|y b] H; cbn in H; try lia; [reflexivity|].
  cbn [List.combine map snd]. rewrite IH by lia. reflexivity.
Qed.

Lemma gd_column_map (J : list (list R)) j : column RN J j = map (fun r => nth j r 0) J.
Proof. induction J as [|r J IH]; [reflexivity|]. cbn [column map]. rewrite IH. reflexivity. Qed.

Lemma gd_combine_column : forall (leak : list R) (J : list (list R)) j,
  List.combine leak (column RN J j)
  = map (fun p : R * list R => (fst p, nth j (snd p) 0)) (List.combine leak J).
Proof.
  induction leak as [|l leak IH]; intros [|r J] j; try reflexivity.
  cbn [column List.combine map fst snd]. rewrite IH. reflexivity.
Qed.

Lemma gd_length_column (J : list (list R)) j : length (column RN J j) = length J.
Proof. rewrite gd_column_map. apply map_length. Qed.

Lemma gd_ncols_wf n (J : list (list R)) : wfmat n J -> J <> [] -> ncols J = n.
Proof. intros H Hne. destruct J as [|r J]; [congruence|]. inversion H; subst. reflexivity. Qed.

Lemma gd_combine_repeat {A} (x : R) (J : list A) :
  List.combine (repeat x (length J)) J = map (pair x) J.
Proof. induction J as [|r J IH]; [reflexivity|]. cbn. rewrite IH. reflexivity. Qed.

(* ---------------- (1) one coordinate ---------------- *)
Theorem graddrop_coord_perm : forall leak leak' col col' u,
  length leak = length col -> length leak' = length col' ->
  Permutation (List.combine leak col) (List.combine leak' col') ->
  graddrop_coord RN leak' col' u = graddrop_coord RN leak col u.
Proof.
  intros leak leak' col col' u Hl Hl' Hp.
  assert (Hc : Permutation col col').
  { rewrite <- (gd_map_snd_combine leak col Hl), <- (gd_map_snd_combine leak' col' Hl').
    apply Permutation_map. exact Hp. }
  unfold graddrop_coord. cbv zeta.
  rewrite <- (gd_vsum_perm _ _ Hc).
  rewrite <- (gd_vsum_perm _ _ (Permutation_map (Linalg.nabs RN) Hc)).
  apply gd_vsum_perm. apply Permutation_map. symmetry. exact Hp.
Qed.

(* ---------------- (2) the aggregator, rows permuted together with the leak ---------------- *)
Theorem graddrop_Permutation : forall n J J' leak leak' U, wfmat n J ->
  length leak = length J -> length leak' = length J' ->
  Permutation (List.combine leak J) (List.combine leak' J') ->
  agg_graddrop RN (Some leak') U J' = agg_graddrop RN (Some leak) U J.
Proof.
  intros n J J' leak leak' U HJ Hl Hl' Hp.
  assert (HpJ : Permutation J J').
  { rewrite <- (gd_map_snd_combine leak J Hl), <- (gd_map_snd_combine leak' J' Hl').
    apply Permutation_map. exact Hp. }
  assert (Hnc : ncols J' = ncols J).
  { destruct J as [|r J].
    - apply Permutation_nil in HpJ. subst J'. reflexivity.
    - assert (HJ' : wfmat n J') by (eapply Permutation_Forall; eauto).
      assert (Hne' : J' <> []).
      { intros E. subst J'. apply Permutation_sym, Permutation_nil in HpJ. discriminate. }
      rewrite (gd_ncols_wf n J' HJ' Hne'). rewrite (gd_ncols_wf n (r :: J) HJ); [reflexivity|discriminate]. }
  unfold agg_graddrop. cbv zeta.
  rewrite Hl, Hl', !Nat.eqb_refl. cbn [negb]. rewrite Hnc. f_equal.
  apply map_ext. intros [j u].
  apply graddrop_coord_perm.
  - rewrite gd_length_column. exact Hl.
  - rewrite gd_length_column. exact Hl'.
  - rewrite !gd_combine_column. apply Permutation_map. exact Hp.
Qed.

(* ---------------- (3) default (all-zero) leak ---------------- *)
Theorem graddrop_Permutation_noleak : forall n J J' U, wfmat n J -> Permutation J J' ->
  agg_graddrop RN None U J' = agg_graddrop RN None U J.
Proof.
  intros n J J' U HJ Hp.
  assert (E : forall K : list (list R),
    agg_graddrop RN None U K = agg_graddrop RN (Some (vzeroR (length K))) U K).
  { intros K. unfold agg_graddrop. cbv zeta. rewrite length_vzero, Nat.eqb_refl. reflexivity. }
  rewrite !E. apply (graddrop_Permutation n).
  - exact HJ.
  - apply length_vzero.
  - apply length_vzero.
  - unfold vzero. rewrite !gd_combine_repeat. apply Permutation_map. exact Hp.
Qed.

(* ---------------- (4) an all-zero column ---------------- *)
Lemma gd_vsum_zero_col (f : R -> R -> R) : forall (leak : list R) m,
  vsumR (map (fun '(l, x) => f l x * x) (List.combine leak (repeat 0 m))) = 0.
Proof.
  induction leak as [|l leak IH]; intros [|m]; try reflexivity.
  cbn [repeat List.combine map]. rewrite vsum_cons, IH. lra.
Qed.

Theorem graddrop_zero_column : forall leak m u, length leak = m ->
  graddrop_coord RN leak (repeat 0 m) u = 0.
Proof.
  intros leak m u _. unfold graddrop_coord. cbv zeta.
  match goal with
  | |- vsumR (map ?g _) = 0 => set (G := g)
  end.
  set (pos := (_ && nltb RN u _)%bool) in G.
  set (neg := (_ && nltb RN _ u)%bool) in G.
  etransitivity; [|apply (gd_vsum_zero_col
    (fun l x => l + (1 - l) * (if ((pos && Rltb 0 x) || (neg && Rltb x 0))%bool then 1 else 0)) leak m)].
  f_equal.
Qed.

(* ---------------- (5) column locality ---------------- *)
Theorem graddrop_column_local : forall leak U J, length leak = length J ->
  agg_graddrop RN (Some leak) U J
  = Ok (map (fun '(j, u) => graddrop_coord RN leak (column RN J j) u)
            (List.combine (seq 0 (ncols J)) U)).
Proof.
  intros leak U J H. unfold agg_graddrop. cbv zeta. rewrite H, Nat.eqb_refl. reflexivity.
Qed.

Print Assumptions graddrop_coord_perm.
Print Assumptions graddrop_Permutation.
Print Assumptions graddrop_Permutation_noleak.
Print Assumptions graddrop_zero_column.
Print Assumptions graddrop_column_local.
