(* HomogeneityProofs.v — C11 positive homogeneity  A(t J) = t A(J), t > 0, for the aggregators not
   covered by C11Proofs.v: PCGrad, Krum, UPGrad, DualProj, CAGrad, ConFIG, Aligned-MTL, GradDrop. *)
From Coq Require Import Reals List Bool Arith Lia Lra Psatz Permutation Sorted.
From TJ Require Import Num Linalg NumR Agg.
From TJ.proofs Require Import LinalgR QPProofs C03Proofs C18Proofs C16Proofs C11Proofs.
Import ListNotations.
Local Open Scope R_scope.

(* res_map lives in C08Proofs (loaded through C11Proofs) *)
Notation res_map := C08Proofs.res_map.

(* ---------------- comparisons and quotients under a positive factor ---------------- *)
Lemma Rltb_scale k a b : 0 < k -> Rltb (k * a) (k * b) = Rltb a b.
Proof.
  intros Hk. destruct (Rltb a b) eqn:E.
  - apply Rltb_true. apply Rltb_true in E. apply Rmult_lt_compat_l; assumption.
  - apply Rltb_false. apply Rltb_false in E. apply Rmult_le_compat_l; lra.
Qed.

Lemma Rleb_scale k a b : 0 < k -> Rleb (k * a) (k * b) = Rleb a b.
Proof.
  intros Hk. destruct (Rleb a b) eqn:E.
  - apply Rleb_true. apply Rleb_true in E. apply Rmult_le_compat_l; lra.
  - apply Rleb_false. apply Rleb_false in E. apply Rmult_lt_compat_l; assumption.
Qed.

Lemma Rltb_scale_0r k a : 0 < k -> Rltb (k * a) 0 = Rltb a 0.
Proof. intros Hk. rewrite <- (Rltb_scale k a 0 Hk). rewrite Rmult_0_r. reflexivity. Qed.
Lemma Rltb_scale_0l k a : 0 < k -> Rltb 0 (k * a) = Rltb 0 a.
Proof. intros Hk. rewrite <- (Rltb_scale k 0 a Hk). rewrite Rmult_0_r. reflexivity. Qed.
Lemma Rleb_scale_0r k a : 0 < k -> Rleb (k * a) 0 = Rleb a 0.
Proof. intros Hk. rewrite <- (Rleb_scale k a 0 Hk). rewrite Rmult_0_r. reflexivity. Qed.

(* no side condition on b: Coq's total inverse satisfies /(k b) = /k /b *)
Lemma div_scale k a b : k <> 0 -> (k * a) / (k * b) = a / b.
Proof.
  intros Hk. unfold Rdiv. rewrite Rinv_mult.
  transitivity ((k * / k) * (a * / b)); [ring|]. rewrite Rinv_r by exact Hk. ring.
Qed.

Lemma vsum_map_scale {A} t (f : A -> R) l :
  vsumR (map (fun a => t * f a) l) = t * vsumR (map f l).
Proof.
  induction l as [|a l IH]; [cbn; lra|]. cbn [map]. rewrite !vsum_cons, IH. ring.
Qed.

Lemma vscale_vscale x y r : vscaleR x (vscaleR y r) = vscaleR (x * y) r.
Proof. unfold vscale. rewrite map_map. apply map_ext. intros z. rn. ring. Qed.

Lemma nth_row_mscale k G j : nth_row (mscaleR k G) j = vscaleR k (nth_row G j).
Proof. unfold nth_row, mscale. apply (map_nth (vscaleR k) G []). Qed.

(* ================= H1  PCGrad ================= *)
Lemma vupd_ext (v : list R) j (f g : R -> R) : (forall x, f x = g x) -> vupd v j f = vupd v j g.
Proof.
  intros E. revert j. induction v as [|x v IH]; intros [|j]; cbn [vupd]; try reflexivity.
  - rewrite E. reflexivity.
  - rewrite IH. reflexivity.
Qed.

Lemma pcgrad_inner_scale k G i perm : 0 < k -> forall cw,
  pcgrad_inner RN (mscaleR k G) i perm cw = pcgrad_inner RN G i perm cw.
Proof.
  intros Hk. induction perm as [|j perm IH]; intros cw; [reflexivity|].
  cbn [pcgrad_inner]. destruct (j =? i)%nat; [apply IH|].
  rewrite nth_row_mscale, dot_vscale_l, mget_mscale. rn.
  rewrite Rltb_scale_0r by exact Hk.
  destruct (Rltb (dotR (nth_row G j) cw) 0).
  - rewrite (vupd_ext cw j _ (fun x => x - dotR (nth_row G j) cw / mget RN G j j)).
    + apply IH.
    + intros x. rewrite div_scale by lra. reflexivity.
  - apply IH.
Qed.

Lemma pcgrad_outer_scale k G m perms : 0 < k -> forall i acc,
  pcgrad_outer RN (mscaleR k G) m i perms acc = pcgrad_outer RN G m i perms acc.
Proof.
  intros Hk. induction perms as [|perm ps IH]; intros i acc; [reflexivity|].
  cbn [pcgrad_outer]. rewrite pcgrad_inner_scale by exact Hk. apply IH.
Qed.

(* the PCGrad weighting is invariant under positive scaling of the Gramian *)
Theorem pcgrad_weights_scale k G perms : 0 < k ->
  pcgrad_weights RN (mscaleR k G) perms = pcgrad_weights RN G perms.
Proof.
  intros Hk. unfold pcgrad_weights. rewrite length_mscale. apply pcgrad_outer_scale. exact Hk.
Qed.

Theorem pcgrad_homogeneous n t perms J : wfmat n J -> 0 < t ->
  agg_pcgrad RN perms (mscaleR t J) = vscaleR t (agg_pcgrad RN perms J).
Proof.
  intros HJ Ht. unfold agg_pcgrad. rewrite gram_mscale, pcgrad_weights_scale by nra.
  apply (combine_mscale n). exact HJ.
Qed.

(* ================= H3  UPGrad / DualProj ================= *)
(* sigma_max is homogeneous: on the scaled side the oracle value is t s.  The hypothesis
   nltb (t s) ne = nltb s ne says that both sides take the same norm_eps branch. *)
Lemma normalized_gramian_scale t G s ne : 0 < t -> nltb RN (t * s) ne = nltb RN s ne ->
  normalized_gramian RN (mscaleR (t * t) G) (t * s) ne = normalized_gramian RN G s ne.
Proof.
  intros Ht Hb. unfold normalized_gramian. rewrite Hb, length_mscale.
  destruct (nltb RN s ne); [reflexivity|].
  unfold mscale. rewrite map_map. apply map_ext. intros r.
  unfold vscale. rewrite map_map. apply map_ext. intros x. rn.
  assert (Hi : t * / t = 1) by (apply Rinv_r; lra).
  unfold Rdiv. rewrite !Rinv_mult.
  transitivity ((t * / t) * (t * / t) * (1 * (/ s * / s) * x)); [ring|]. rewrite Hi. ring.
Qed.

Theorem reg_norm_gramian_scale t G s ne re : 0 < t -> nltb RN (t * s) ne = nltb RN s ne ->
  reg_norm_gramian RN (mscaleR (t * t) G) (t * s) ne re = reg_norm_gramian RN G s ne re.
Proof.
  intros Ht Hb. unfold reg_norm_gramian. rewrite normalized_gramian_scale by assumption. reflexivity.
Qed.

Lemma dualproj_weights_scale t qp G s ne re u : 0 < t -> nltb RN (t * s) ne = nltb RN s ne ->
  dualproj_weights RN qp (mscaleR (t * t) G) (t * s) ne re u = dualproj_weights RN qp G s ne re u.
Proof. intros Ht Hb. unfold dualproj_weights. rewrite reg_norm_gramian_scale by assumption. reflexivity. Qed.

Lemma upgrad_weights_scale t qp G s ne re u : 0 < t -> nltb RN (t * s) ne = nltb RN s ne ->
  upgrad_weights RN qp (mscaleR (t * t) G) (t * s) ne re u = upgrad_weights RN qp G s ne re u.
Proof. intros Ht Hb. unfold upgrad_weights. rewrite reg_norm_gramian_scale by assumption. reflexivity. Qed.

(* the same QP oracle is asked the same question on both sides *)
Theorem dualproj_homogeneous n t qp pref s ne re J : wfmat n J -> 0 < t ->
  nltb RN (t * s) ne = nltb RN s ne ->
  agg_dualproj RN qp pref (t * s) ne re (mscaleR t J) =
  res_map (vscaleR t) (agg_dualproj RN qp pref s ne re J).
Proof.
  intros HJ Ht Hb. unfold agg_dualproj. rewrite length_mscale, gram_mscale.
  destruct (pref_weights pref (mean_weights RN (length J)) (length J)) as [u|e];
    cbn [rbind C08Proofs.res_map]; [|reflexivity].
  f_equal. rewrite dualproj_weights_scale by assumption. apply (combine_mscale n). exact HJ.
Qed.

Theorem upgrad_homogeneous n t qp pref s ne re J : wfmat n J -> 0 < t ->
  nltb RN (t * s) ne = nltb RN s ne ->
  agg_upgrad RN qp pref (t * s) ne re (mscaleR t J) =
  res_map (vscaleR t) (agg_upgrad RN qp pref s ne re J).
Proof.
  intros HJ Ht Hb. unfold agg_upgrad. rewrite length_mscale, gram_mscale.
  destruct (pref_weights pref (mean_weights RN (length J)) (length J)) as [u|e];
    cbn [rbind C08Proofs.res_map]; [|reflexivity].
  f_equal. rewrite upgrad_weights_scale by assumption. apply (combine_mscale n). exact HJ.
Qed.

(* stronger form: the two sides may use DIFFERENT solvers; it is enough that each returns a minimiser
   of its own program (the kernel contract is_min), reg_eps > 0, and s >= norm_eps on both sides *)
Theorem dualproj_homogeneous_any_solver n t qp qp' pref s ne re J : wfmat n J -> 0 < t ->
  0 < s -> nltb RN s ne = false -> nltb RN (t * s) ne = false -> 0 < re ->
  pref_ok pref (length J) ->
  let m := length J in
  let u := pref_u pref m in
  let M := reg_norm_gramian RN (gramR J) s ne re in
  let M' := reg_norm_gramian RN (gramR (mscaleR t J)) (t * s) ne re in
  is_min m M u (qp M u) -> is_min m M' u (qp' M' u) ->
  agg_dualproj RN qp' pref (t * s) ne re (mscaleR t J) =
  res_map (vscaleR t) (agg_dualproj RN qp pref s ne re J).
Proof.
  intros HJ Ht Hs Hne Hne' Hre Hp m u M M' Hq Hq'.
  assert (Hb : nltb RN (t * s) ne = nltb RN s ne) by congruence.
  assert (HM : M' = M).
  { unfold M', M. rewrite gram_mscale. apply reg_norm_gramian_scale; assumption. }
  rewrite HM in Hq'.
  assert (E : qp' M u = qp M u).
  { apply (min_unique n J s ne re HJ Hs Hne u _ _ Hre); assumption. }
  unfold agg_dualproj. rewrite length_mscale, gram_mscale.
  rewrite pref_weights_ok by exact Hp. cbn [rbind C08Proofs.res_map]. f_equal.
  unfold dualproj_weights. rewrite reg_norm_gramian_scale by assumption.
  fold M. fold m. fold u. rewrite E. apply (combine_mscale n). exact HJ.
Qed.

Theorem upgrad_homogeneous_any_solver n t qp qp' pref s ne re J : wfmat n J -> 0 < t ->
  0 < s -> nltb RN s ne = false -> nltb RN (t * s) ne = false -> 0 < re ->
  pref_ok pref (length J) ->
  let m := length J in
  let u := pref_u pref m in
  let M := reg_norm_gramian RN (gramR J) s ne re in
  let M' := reg_norm_gramian RN (gramR (mscaleR t J)) (t * s) ne re in
  let ui := fun i => onehotR m i (vget RN u i) in
  (forall i, (i < m)%nat -> is_min m M (ui i) (qp M (ui i))) ->
  (forall i, (i < m)%nat -> is_min m M' (ui i) (qp' M' (ui i))) ->
  agg_upgrad RN qp' pref (t * s) ne re (mscaleR t J) =
  res_map (vscaleR t) (agg_upgrad RN qp pref s ne re J).
Proof.
  intros HJ Ht Hs Hne Hne' Hre Hp m u M M' ui Hq Hq'.
  assert (Hb : nltb RN (t * s) ne = nltb RN s ne) by congruence.
  assert (HM : M' = M).
  { unfold M', M. rewrite gram_mscale. apply reg_norm_gramian_scale; assumption. }
  rewrite HM in Hq'.
  assert (Hlu : length u = m) by (apply length_pref_u; exact Hp).
  unfold agg_upgrad. rewrite length_mscale, gram_mscale.
  rewrite pref_weights_ok by exact Hp. cbn [rbind C08Proofs.res_map]. f_equal.
  unfold upgrad_weights. rewrite reg_norm_gramian_scale by assumption.
  fold M. fold m. fold u. rewrite Hlu.
  assert (E : map (fun i => qp' M (onehotR m i (vget RN u i))) (seq 0 m) =
              map (fun i => qp M (onehotR m i (vget RN u i))) (seq 0 m)).
  { apply map_ext_in. intros i Hi. apply in_seq in Hi.
    apply (min_unique n J s ne re HJ Hs Hne (ui i) _ _ Hre); [apply Hq'|apply Hq]; lia. }
  rewrite (combine_mscale n) by exact HJ. f_equal. f_equal. f_equal. exact E.
Qed.

(* ================= H4  CAGrad ================= *)
Theorem cagrad_weights_scale t G s ne c w_opt : 0 < t -> nltb RN (t * s) ne = nltb RN s ne ->
  cagrad_weights RN (mscaleR (t * t) G) (t * s) ne c w_opt = cagrad_weights RN G s ne c w_opt.
Proof.
  intros Ht Hb. unfold cagrad_weights. cbv zeta.
  rewrite length_mscale, normalized_gramian_scale by assumption. reflexivity.
Qed.

Theorem cagrad_homogeneous n t s ne c w_opt J : wfmat n J -> 0 < t ->
  nltb RN (t * s) ne = nltb RN s ne ->
  agg_cagrad RN (t * s) ne c w_opt (mscaleR t J) = vscaleR t (agg_cagrad RN s ne c w_opt J).
Proof.
  intros HJ Ht Hb. unfold agg_cagrad. rewrite gram_mscale, cagrad_weights_scale by assumption.
  apply (combine_mscale n). exact HJ.
Qed.

(* ================= H5  ConFIG ================= *)
Lemma vnorm_vscale t r : 0 <= t -> vnorm RN (vscaleR t r) = t * vnorm RN r.
Proof.
  intros Ht. unfold vnorm. rewrite dot_vscale_l, dot_vscale_r. rn.
  replace (t * (t * dotR r r)) with (t * t * dotR r r) by ring.
  rewrite sqrt_mult_alt by nra. rewrite sqrt_square by exact Ht. reflexivity.
Qed.

(* the unit rows do not see a positive factor: the same pseudo-inverse oracle B applies *)
Theorem config_units_mscale t J : 0 < t -> config_units RN (mscaleR t J) = config_units RN J.
Proof.
  intros Ht. unfold config_units, mscale. rewrite map_map. apply map_ext. intros r. cbv beta zeta.
  rewrite vnorm_vscale by lra. rewrite length_vscale.
  set (nr := vnorm RN r). rn. rewrite Rleb_scale_0r by exact Ht.
  destruct (Rleb nr 0) eqn:E; [reflexivity|]. apply Rleb_false in E.
  rewrite vscale_vscale. f_equal. field. split; lra.
Qed.

Lemma vsum_dot_mscale t u J :
  vsumR (map (fun g => dotR g u) (mscaleR t J)) = t * vsumR (map (fun g => dotR g u) J).
Proof.
  unfold mscale. rewrite map_map. rewrite <- vsum_map_scale. f_equal. apply map_ext. intros g.
  apply dot_vscale_l.
Qed.

Theorem config_homogeneous_fixedB t B pref J :
  agg_config RN B pref (mscaleR t J) = res_map (vscaleR t) (agg_config RN B pref J).
Proof.
  unfold agg_config. rewrite length_mscale.
  destruct (pref_weights pref (sum_weights RN (length J)) (length J)) as [w|e];
    cbn [rbind C08Proofs.res_map]; [|reflexivity].
  f_equal. rewrite vsum_dot_mscale. rn. symmetry. apply vscale_vscale.
Qed.

Theorem config_homogeneous t B pref J : 0 < t ->
  config_units RN (mscaleR t J) = config_units RN J /\
  agg_config RN B pref (mscaleR t J) = res_map (vscaleR t) (agg_config RN B pref J).
Proof.
  intros Ht. split; [apply config_units_mscale; exact Ht | apply config_homogeneous_fixedB].
Qed.

(* ================= H2  Krum ================= *)
Lemma krum_dist_scale t G i j : 0 <= t ->
  krum_dist RN (mscaleR (t * t) G) i j = t * krum_dist RN G i j.
Proof.
  intros Ht. unfold krum_dist. rewrite !mget_mscale. rn.
  match goal with |- sqrt ?e = _ =>
    replace e with (t * t * (mget RN G i i + mget RN G j j - INR 2 * mget RN G i j)) by ring end.
  rewrite sqrt_mult_alt by nra. rewrite sqrt_square by exact Ht. reflexivity.
Qed.

Lemma mscale_map_map {A B} t (f : A -> B -> R) (l : list A) (l' : list B) :
  mscaleR t (map (fun i => map (fun j => f i j) l') l) = map (fun i => map (fun j => t * f i j) l') l.
Proof.
  unfold mscale. rewrite map_map. apply map_ext. intros i. unfold vscale. rewrite map_map.
  reflexivity.
Qed.

Lemma krum_distances_scale t G : 0 <= t ->
  krum_distances RN (mscaleR (t * t) G) = mscaleR t (krum_distances RN G).
Proof.
  intros Ht. unfold krum_distances. cbv zeta. rewrite length_mscale, mscale_map_map.
  apply map_ext. intros i. apply map_ext. intros j. apply krum_dist_scale. exact Ht.
Qed.

Lemma krum_scores_scale t D nc : 0 < t ->
  krum_scores RN (mscaleR t D) nc = vscaleR t (krum_scores RN D nc).
Proof.
  intros Ht. unfold krum_scores, mscale, vscale. rewrite !map_map. apply map_ext. intros row.
  change (map (nmul RN t) row) with (vscaleR t row). rewrite isort_scale by exact Ht.
  unfold vscale. rewrite firstn_map, skipn_map. exact (vsum_vscale t _).
Qed.

Definition sc_pair (t : R) (p : R * nat) : R * nat := (t * fst p, snd p).

Lemma insert_idx_scale t p l : 0 < t ->
  insert_idx RN (sc_pair t p) (map (sc_pair t) l) = map (sc_pair t) (insert_idx RN p l).
Proof.
  intros Ht. induction l as [|q l IH]; [reflexivity|]. cbn [map insert_idx]. rn.
  change (fst (sc_pair t p)) with (t * fst p). change (fst (sc_pair t q)) with (t * fst q).
  rewrite Rleb_scale by exact Ht.
  destruct (Rleb (fst p) (fst q)); cbn [map]; [reflexivity|]. f_equal. exact IH.
Qed.

Lemma combine_vscale_l {B} t v (L : list B) :
  List.combine (vscaleR t v) L = map (fun p => (t * fst p, snd p)) (List.combine v L).
Proof.
  revert L. induction v as [|x v IH]; intros [|y L]; try reflexivity.
  cbn [vscale map List.combine fst snd]. fold (vscaleR t v). rewrite IH. reflexivity.
Qed.

Lemma sort_idx_scale t v : 0 < t -> sort_idx RN (vscaleR t v) = map (sc_pair t) (sort_idx RN v).
Proof.
  intros Ht. unfold sort_idx. rewrite length_vscale, combine_vscale_l.
  change (fun p : R * nat => (t * fst p, snd p)) with (sc_pair t).
  induction (List.combine v (seq 0 (length v))) as [|p l IH]; [reflexivity|].
  cbn [map fold_right]. rewrite IH. apply insert_idx_scale. exact Ht.
Qed.

(* the selection (ties included: broken by position) is unchanged *)
Lemma smallest_k_scale t k v : 0 < t -> smallest_k RN k (vscaleR t v) = smallest_k RN k v.
Proof.
  intros Ht. unfold smallest_k. rewrite sort_idx_scale by exact Ht.
  rewrite firstn_map, map_map. apply map_ext. intros p. reflexivity.
Qed.

Theorem krum_weights_of_dist_scale t D f k : 0 < t ->
  krum_weights_of_dist RN (mscaleR t D) f k = krum_weights_of_dist RN D f k.
Proof.
  intros Ht. unfold krum_weights_of_dist. cbv zeta.
  rewrite length_mscale, krum_scores_scale, smallest_k_scale by exact Ht. reflexivity.
Qed.

Theorem krum_homogeneous n t f k J : wfmat n J -> 0 < t ->
  agg_krum RN f k (mscaleR t J) = res_map (vscaleR t) (agg_krum RN f k J).
Proof.
  intros HJ Ht. unfold agg_krum. cbv zeta. rewrite length_mscale.
  destruct (length J <? f + 3)%nat; [reflexivity|].
  destruct (length J <? k)%nat; [reflexivity|]. cbn [C08Proofs.res_map]. f_equal.
  rewrite gram_mscale, krum_distances_scale, krum_weights_of_dist_scale by lra.
  apply (combine_mscale n). exact HJ.
Qed.

(* ================= H6  Aligned-MTL ================= *)
Lemma filter_length_scale k tol lam : 0 < k ->
  length (filter (fun l => nltb RN (k * tol) l) (vscaleR k lam)) =
  length (filter (fun l => nltb RN tol l) lam).
Proof.
  intros Hk. induction lam as [|a lam IH]; [reflexivity|].
  cbn [vscale map filter]. fold (vscaleR k lam). rn. rewrite Rltb_scale by exact Hk.
  destruct (Rltb tol a); cbn [length]; rewrite IH; reflexivity.
Qed.

Lemma last_scale k (l : list R) : last (map (Rmult k) l) 0 = k * last l 0.
Proof.
  induction l as [|x l IH]; [cbn; ring|]. destruct l as [|y l]; [reflexivity|].
  change (last (map (Rmult k) (x :: y :: l)) 0) with (last (map (Rmult k) (y :: l)) 0).
  change (last (x :: y :: l) 0) with (last (y :: l) 0). exact IH.
Qed.

Lemma combine_map_l {A B C} (f : A -> C) (l : list A) (L : list B) :
  List.combine (map f l) L = map (fun p => (f (fst p), snd p)) (List.combine l L).
Proof.
  revert L. induction l as [|x l IH]; intros [|y L]; try reflexivity.
  cbn [map List.combine fst snd]. rewrite IH. reflexivity.
Qed.

(* eigenvalues and tolerance scaled by k > 0, eigenvectors unchanged: the balance matrix is the same *)
Theorem aligned_balance_scale k lam Vt tol : 0 < k ->
  aligned_balance RN (vscaleR k lam) Vt (k * tol) = aligned_balance RN lam Vt tol.
Proof.
  intros Hk. unfold aligned_balance. cbv zeta.
  rewrite length_vscale, filter_length_scale by exact Hk.
  set (rank := length (filter (fun l => nltb RN tol l) lam)).
  destruct (rank =? 0)%nat; [reflexivity|].
  apply map_ext. intros i. apply map_ext. intros j.
  unfold vscale. rewrite firstn_map. rn. rewrite last_scale, combine_map_l, map_map.
  rewrite sqrt_mult_alt by lra.
  assert (Hsk : 0 < sqrt k) by (apply sqrt_lt_R0; exact Hk).
  set (L := List.combine (firstn rank lam) (firstn rank Vt)).
  rewrite (map_ext _ (fun p : R * list R => / sqrt k *
             (let '(l, v) := p in 1 / sqrt l * (vget RN v i * vget RN v j)))).
  - rewrite vsum_map_scale.
    transitivity ((sqrt k * / sqrt k) * (sqrt (last (firstn rank lam) 0) *
       vsumR (map (fun p : R * list R => let '(l, v) := p in 1 / sqrt l * (vget RN v i * vget RN v j)) L)));
      [ring|]. rewrite Rinv_r by lra. ring.
  - intros [l v]. cbn [fst snd]. rewrite sqrt_mult_alt by lra. unfold Rdiv. rewrite Rinv_mult. ring.
Qed.

Theorem aligned_homogeneous n t lam Vt tol pref J : wfmat n J -> 0 < t ->
  agg_aligned RN (vscaleR (t * t) lam) Vt (t * t * tol) pref (mscaleR t J) =
  res_map (vscaleR t) (agg_aligned RN lam Vt tol pref J).
Proof.
  intros HJ Ht. unfold agg_aligned. rewrite length_mscale.
  destruct (pref_weights pref (mean_weights RN (length J)) (length J)) as [w|e];
    cbn [rbind C08Proofs.res_map]; [|reflexivity].
  f_equal. rewrite aligned_balance_scale by nra. apply (combine_mscale n). exact HJ.
Qed.

(* ================= H7  GradDrop (fixed draw U) ================= *)
Lemma nabs_scale t x : 0 < t -> nabs RN (t * x) = t * nabs RN x.
Proof.
  intros Ht. unfold nabs. rn. rewrite Rltb_scale_0r by exact Ht. destruct (Rltb x 0); ring.
Qed.

Lemma combine_map_r {A B C} (f : B -> C) (l : list A) (c : list B) :
  List.combine l (map f c) = map (fun p => (fst p, f (snd p))) (List.combine l c).
Proof.
  revert c. induction l as [|x l IH]; intros [|y c]; try reflexivity.
  cbn [map List.combine fst snd]. rewrite IH. reflexivity.
Qed.

Theorem graddrop_coord_scale t leak col u : 0 < t ->
  graddrop_coord RN leak (vscaleR t col) u = t * graddrop_coord RN leak col u.
Proof.
  intros Ht. unfold graddrop_coord. cbv zeta.
  assert (Ha : vsumR (map (nabs RN) (vscaleR t col)) = t * vsumR (map (nabs RN) col)).
  { unfold vscale. rewrite map_map. rewrite <- vsum_map_scale. f_equal. apply map_ext. intros x.
    apply nabs_scale. exact Ht. }
  rewrite Ha, vsum_vscale. rn.
  rewrite Rleb_scale_0r by exact Ht. rewrite div_scale by lra.
  set (a := vsumR (map (nabs RN) col)). set (P := 1 / INR 2 * (1 + vsumR col / a)).
  set (pos := negb (Rleb a 0) && Rltb u P). set (neg := negb (Rleb a 0) && Rltb P u).
  unfold vscale. rn. rewrite combine_map_r, map_map. rewrite <- vsum_map_scale. f_equal.
  apply map_ext. intros [l x]. cbn [fst snd].
  rewrite Rltb_scale_0l, Rltb_scale_0r by exact Ht. ring.
Qed.

Theorem graddrop_homogeneous t leak U J : 0 < t ->
  agg_graddrop RN leak U (mscaleR t J) = res_map (vscaleR t) (agg_graddrop RN leak U J).
Proof.
  intros Ht. unfold agg_graddrop. cbv zeta. rewrite length_mscale, ncols_mscale.
  destruct leak as [l|].
  - destruct (negb (length l =? length J)%nat); [reflexivity|]. cbn [C08Proofs.res_map]. f_equal.
    unfold vscale. rewrite map_map. apply map_ext. intros [j u]. rewrite column_mscale.
    apply graddrop_coord_scale. exact Ht.
  - cbn [C08Proofs.res_map]. f_equal.
    unfold vscale. rewrite map_map. apply map_ext. intros [j u]. rewrite column_mscale.
    apply graddrop_coord_scale. exact Ht.
Qed.

(* ================= remarks ================= *)
(* the branch hypothesis of H3/H4 is what "s >= norm_eps on both sides" (or "below on both sides") gives *)
Lemma same_branch_normalised t s ne : ne <= s -> ne <= t * s -> nltb RN (t * s) ne = nltb RN s ne.
Proof.
  intros H1 H2. rn. transitivity false; [apply Rltb_false; exact H2 | symmetry; apply Rltb_false; exact H1].
Qed.
Lemma same_branch_below t s ne : s < ne -> t * s < ne -> nltb RN (t * s) ne = nltb RN s ne.
Proof.
  intros H1 H2. rn. transitivity true; [apply Rltb_true; exact H2 | symmetry; apply Rltb_true; exact H1].
Qed.

(* PCGrad and Krum as instances of the meta theorem of C11Proofs (Gramian-form weightings of C08Proofs) *)
Lemma Om_pcgrad_scale k perms G : 0 < k ->
  C08Proofs.Om_pcgrad perms (mscaleR k G) = C08Proofs.Om_pcgrad perms G.
Proof. intros Hk. unfold C08Proofs.Om_pcgrad. rewrite pcgrad_weights_scale by exact Hk. reflexivity. Qed.

Lemma Om_krum_scale t f k G : 0 < t ->
  C08Proofs.Om_krum f k (mscaleR (t * t) G) = C08Proofs.Om_krum f k G.
Proof.
  intros Ht. unfold C08Proofs.Om_krum. rewrite length_mscale.
  rewrite krum_distances_scale, krum_weights_of_dist_scale by lra. reflexivity.
Qed.

Theorem krum_homogeneous_meta n t f k J : wfmat n J -> 0 < t ->
  agg_krum RN f k (mscaleR t J) = res_map (vscaleR t) (agg_krum RN f k J).
Proof.
  intros HJ Ht. rewrite !C08Proofs.gf_krum. apply (homogeneous_meta n); [exact HJ|].
  apply Om_krum_scale. exact Ht.
Qed.

Print Assumptions pcgrad_weights_scale.
Print Assumptions pcgrad_homogeneous.
Print Assumptions krum_weights_of_dist_scale.
Print Assumptions krum_homogeneous.
Print Assumptions krum_homogeneous_meta.
Print Assumptions reg_norm_gramian_scale.
Print Assumptions dualproj_homogeneous.
Print Assumptions upgrad_homogeneous.
Print Assumptions dualproj_homogeneous_any_solver.
Print Assumptions upgrad_homogeneous_any_solver.
Print Assumptions cagrad_weights_scale.
Print Assumptions cagrad_homogeneous.
Print Assumptions config_units_mscale.
Print Assumptions config_homogeneous_fixedB.
Print Assumptions config_homogeneous.
Print Assumptions aligned_balance_scale.
Print Assumptions aligned_homogeneous.
Print Assumptions graddrop_coord_scale.
Print Assumptions graddrop_homogeneous.
