(* HullMinExists.v — the convex hull of finitely many vectors has a minimum-norm point.
   Induction on the number of rows; the only compactness used is the one-dimensional
   [continuity_ab_min] of the standard library.  No choice axiom: the value function of the inner
   minimisation is DEFINED as an infimum through [completeness] (a sig), and the induction
   hypothesis says that the infimum is attained. *)
From Coq Require Import Reals List Bool Arith Lia Lra Psatz.
From TJ Require Import Num Linalg NumR Agg.
From TJ.proofs Require Import LinalgR QPProofs C03Proofs C18Proofs MgdaProofs MgdaRateProofs.
Import ListNotations.
Local Open Scope R_scope.

(* ---------- 0. entrywise reasoning on list vectors ---------- *)
Lemma hm_nth_vzero n i : nth i (vzeroR n) 0 = 0.
Proof.
  unfold vzero. revert i; induction n as [|n IH]; intros [|i]; cbn [repeat nth]; rn; auto.
Qed.

Lemma hm_nth_vadd a b i : length a = length b ->
  nth i (vaddR a b) 0 = nth i a 0 + nth i b 0.
Proof.
  revert b i; induction a as [|x a IH]; intros [|y b] [|i] H; cbn in H; try lia;
    cbn [vadd nth]; rn; try lra.
  apply IH; lia.
Qed.

Lemma hm_nth_vscale c a i : nth i (vscaleR c a) 0 = c * nth i a 0.
Proof.
  revert i; induction a as [|x a IH]; intros [|i]; cbn [vscale map nth]; rn; try lra.
  apply IH.
Qed.

Lemma hm_list_ext (a b : list R) : length a = length b ->
  (forall i, nth i a 0 = nth i b 0) -> a = b.
Proof. intros Hl H. apply (nth_ext a b 0 0 Hl). intros i _. apply H. Qed.

Lemma hm_vm_cons n c w g M : vmR n (c :: w) (g :: M) = vaddR (vscaleR c g) (vmR n w M).
Proof. reflexivity. Qed.

(* ---------- 1. the matrix J'_t whose rows are (1-t) r + t g ---------- *)
Definition mixrow (t : R) (g r : list R) : list R := vaddR (vscaleR (1 - t) r) (vscaleR t g).
Definition Jt (t : R) (g : list R) (M : list (list R)) : list (list R) := map (mixrow t g) M.

Lemma length_Jt t g M : length (Jt t g M) = length M.
Proof. apply map_length. Qed.

Lemma wfmat_Jt n t g M : wfmat n M -> length g = n -> wfmat n (Jt t g M).
Proof.
  intros HM Hg. unfold wfmat, Jt in *. rewrite Forall_forall in *. intros r Hr.
  apply in_map_iff in Hr. destruct Hr as (r0 & <- & Hin). unfold mixrow.
  rewrite length_vadd; rewrite !length_vscale; [apply HM; exact Hin|].
  rewrite (HM _ Hin). congruence.
Qed.

Lemma vm_Jt n t g : length g = n -> forall w M, wfmat n M -> length w = length M ->
  vmR n w (Jt t g M) =
  vaddR (vscaleR (1 - t) (vmR n w M)) (vscaleR (t * vsumR w) g).
Proof.
  intros Hg. induction w as [|c w IH]; intros [|r M] HM Hl; cbn in Hl; try lia.
  - cbn [Jt map vm]. apply hm_list_ext.
    + rewrite length_vadd; rewrite !length_vscale, !length_vzero; congruence.
    + intros i. rewrite hm_nth_vadd by (rewrite !length_vscale, length_vzero; congruence).
      rewrite !hm_nth_vscale, hm_nth_vzero. cbn [vsum fold_right]. rn. ring.
  - pose proof HM as HM0. apply Forall_cons_iff in HM. destruct HM as [Hr HM].
    assert (Hly : length (vmR n w M) = n) by (apply length_vm; exact HM).
    assert (HlJ : length (vmR n w (Jt t g M)) = n).
    { apply length_vm. apply wfmat_Jt; assumption. }
    change (Jt t g (r :: M)) with (mixrow t g r :: Jt t g M).
    rewrite !hm_vm_cons.
    assert (Hmr : length (mixrow t g r) = n).
    { unfold mixrow. rewrite length_vadd; rewrite !length_vscale; congruence. }
    apply hm_list_ext.
    + rewrite !length_vadd; rewrite ?length_vscale; rewrite ?length_vadd;
        rewrite ?length_vscale; congruence.
    + intros i.
      rewrite IH by (try exact HM; lia).
      rewrite !hm_nth_vadd; rewrite ?length_vscale; rewrite ?length_vadd;
        rewrite ?length_vscale; try congruence.
      rewrite !hm_nth_vscale. unfold mixrow.
      rewrite !hm_nth_vadd; rewrite ?length_vscale; try congruence.
      rewrite !hm_nth_vscale. rewrite vsum_cons. ring.
Qed.

(* the point of the simplex (t, (1-t) w') of g :: M is the point w' of J'_t *)
Lemma vm_param n g M t w' : wfmat n M -> length g = n -> simplex (length M) w' ->
  vmR n (t :: vscaleR (1 - t) w') (g :: M) = vmR n w' (Jt t g M).
Proof.
  intros HM Hg (Hl & _ & Hs).
  rewrite hm_vm_cons, vm_vscale by exact HM.
  rewrite (vm_Jt n t g Hg w' M HM Hl), Hs.
  assert (Hly : length (vmR n w' M) = n) by (apply length_vm; exact HM).
  apply hm_list_ext.
  - rewrite !length_vadd; rewrite !length_vscale; congruence.
  - intros i. rewrite !hm_nth_vadd by (rewrite !length_vscale; congruence).
    rewrite !hm_nth_vscale. ring.
Qed.

(* ---------- 2. |t g + (1-t) y|^2 as a polynomial in t ---------- *)
Definition qpoly (a b c t : R) : R := t * t * a + 2 * (t * (1 - t)) * b + (1 - t) * (1 - t) * c.

Lemma normsq_Jt n g M t w' : wfmat n M -> length g = n -> simplex (length M) w' ->
  dotR (vmR n w' (Jt t g M)) (vmR n w' (Jt t g M)) =
  qpoly (dotR g g) (dotR g (vmR n w' M)) (dotR (vmR n w' M) (vmR n w' M)) t.
Proof.
  intros HM Hg (Hl & _ & Hs). rewrite (vm_Jt n t g Hg w' M HM Hl), Hs.
  set (y := vmR n w' M).
  assert (Hly : length y = n) by (apply length_vm; exact HM).
  rewrite dot_vadd_l by (rewrite !length_vscale; congruence).
  rewrite !dot_vadd_r by (rewrite !length_vscale; congruence).
  rewrite !dot_vscale_l, !dot_vscale_r. rewrite (dot_comm y g). unfold qpoly. ring.
Qed.

Lemma qpoly_lip a b c C t s : Rabs a <= C -> Rabs b <= C -> Rabs c <= C ->
  -2 <= t <= 2 -> -2 <= s <= 2 ->
  qpoly a b c t - qpoly a b c s <= 20 * C * Rabs (t - s).
Proof.
  intros Ha Hb Hc Ht Hs.
  set (K := (t + s) * a + (2 - 2 * t - 2 * s) * b + (t + s - 2) * c).
  replace (qpoly a b c t - qpoly a b c s) with ((t - s) * K) by (unfold qpoly, K; ring).
  assert (H1 : Rabs ((t + s) * a) <= 4 * C).
  { rewrite Rabs_mult. apply Rmult_le_compat; try apply Rabs_pos; [apply Rabs_le; lra | exact Ha]. }
  assert (H2 : Rabs ((2 - 2 * t - 2 * s) * b) <= 10 * C).
  { rewrite Rabs_mult. apply Rmult_le_compat; try apply Rabs_pos; [apply Rabs_le; lra | exact Hb]. }
  assert (H3 : Rabs ((t + s - 2) * c) <= 6 * C).
  { rewrite Rabs_mult. apply Rmult_le_compat; try apply Rabs_pos; [apply Rabs_le; lra | exact Hc]. }
  assert (HK : Rabs K <= 20 * C).
  { unfold K. eapply Rle_trans; [apply Rabs_triang|].
    eapply Rle_trans; [apply Rplus_le_compat_r; apply Rabs_triang|]. lra. }
  apply Rle_trans with (Rabs ((t - s) * K)); [apply Rle_abs|].
  rewrite Rabs_mult, (Rmult_comm (20 * C)).
  apply Rmult_le_compat_l; [apply Rabs_pos | exact HK].
Qed.

Lemma sq_le_abs u v : 0 <= v -> u * u <= v * v -> Rabs u <= v.
Proof. intros Hv H. apply Rabs_le. split; nra. Qed.

(* ---------- 3. the hull is bounded ---------- *)
Lemma vm_normsq_bound n : forall M, wfmat n M ->
  exists S, 0 <= S /\ forall w, dotR (vmR n w M) (vmR n w M) <= S * dotR w w.
Proof.
  induction M as [|r M IH]; intros HM.
  - exists 0. split; [lra|]. intros w. rewrite vm_nil.
    rewrite dot_vzero_l. lra.
  - apply Forall_cons_iff in HM. destruct HM as [Hr HM].
    destruct (IH HM) as (S & HS & Hb).
    exists (2 * dotR r r + 2 * S). pose proof (dot_self_nonneg r) as Hrr.
    split; [lra|]. intros [|c w].
    + cbn [vm]. rewrite dot_vzero_l. cbn [dot]. rn. lra.
    + rewrite hm_vm_cons. set (v := vmR n w M).
      assert (Hlv : length v = n) by (apply length_vm; exact HM).
      specialize (Hb w). fold v in Hb.
      rewrite dot_vadd_l by (rewrite length_vscale; congruence).
      rewrite !dot_vadd_r by (rewrite length_vscale; congruence).
      rewrite !dot_vscale_l, !dot_vscale_r. rewrite (dot_comm v r), dot_cons.
      pose proof (dot_self_nonneg (vaddR (vscaleR c r) (vscaleR (-1) v))) as Hd.
      rewrite dot_vadd_l in Hd by (rewrite !length_vscale; congruence).
      rewrite !dot_vadd_r in Hd by (rewrite !length_vscale; congruence).
      rewrite !dot_vscale_l, !dot_vscale_r in Hd. rewrite (dot_comm v r) in Hd.
      pose proof (dot_self_nonneg w) as Hww. pose proof (dot_self_nonneg v) as Hvv.
      assert (Hcc : 0 <= c * c) by (apply Rle_0_sqr).
      assert (P1 : 0 <= dotR r r * dotR w w) by (apply Rmult_le_pos; assumption).
      assert (P2 : 0 <= S * (c * c)) by (apply Rmult_le_pos; assumption).
      replace ((2 * dotR r r + 2 * S) * (c * c + dotR w w))
        with (2 * (c * c * dotR r r) + 2 * (S * dotR w w)
              + 2 * (dotR r r * dotR w w) + 2 * (S * (c * c))) by ring.
      lra.
Qed.

Lemma hull_bounded n M : wfmat n M ->
  exists B, 0 <= B /\ forall w, simplex (length M) w -> dotR (vmR n w M) (vmR n w M) <= B.
Proof.
  intros HM. destruct (vm_normsq_bound n M HM) as (S & HS & Hb). exists S. split; [exact HS|].
  intros w Hw. pose proof (simplex_dot_self_le1 _ _ Hw) as H1. specialize (Hb w).
  pose proof (Rmult_le_compat_l S _ _ HS H1). lra.
Qed.

(* ---------- 4. the infimum of |w . M|^2 over the simplex, defined without choice ---------- *)
Definition negvals (n : nat) (M : list (list R)) (x : R) : Prop :=
  exists w, simplex (length M) w /\ x = - dotR (vmR n w M) (vmR n w M).

Lemma negvals_bound n M : bound (negvals n M).
Proof.
  exists 0. intros x (w & _ & ->). pose proof (dot_self_nonneg (vmR n w M)). lra.
Qed.

Lemma negvals_ex n M : M <> [] -> exists x, negvals n M x.
Proof.
  intros H. exists (- dotR (vmR n (onehotR (length M) 0 1) M) (vmR n (onehotR (length M) 0 1) M)).
  exists (onehotR (length M) 0 1). split; [|reflexivity]. apply simplex_onehot.
  destruct M; [congruence | cbn [length]; lia].
Qed.

Definition infval (n : nat) (M : list (list R)) (H : M <> []) : R :=
  - proj1_sig (completeness (negvals n M) (negvals_bound n M) (negvals_ex n M H)).

Lemma infval_le n M H w : simplex (length M) w ->
  infval n M H <= dotR (vmR n w M) (vmR n w M).
Proof.
  intros Hw. unfold infval.
  generalize (completeness (negvals n M) (negvals_bound n M) (negvals_ex n M H)).
  intros [l Hl]. cbn [proj1_sig]. destruct Hl as [Hub _].
  specialize (Hub (- dotR (vmR n w M) (vmR n w M))).
  assert (Hin : negvals n M (- dotR (vmR n w M) (vmR n w M))) by (exists w; split; [exact Hw | reflexivity]).
  specialize (Hub Hin). lra.
Qed.

Lemma infval_attained n M H wstar : hull_min n M wstar ->
  infval n M H = dotR (vmR n wstar M) (vmR n wstar M).
Proof.
  intros [Hs Hmin]. apply Rle_antisym; [apply infval_le; exact Hs|].
  unfold infval.
  generalize (completeness (negvals n M) (negvals_bound n M) (negvals_ex n M H)).
  intros [l Hl]. cbn [proj1_sig]. destruct Hl as [_ Hlub].
  assert (Hub : is_upper_bound (negvals n M) (- dotR (vmR n wstar M) (vmR n wstar M))).
  { intros x (w & Hw & ->). specialize (Hmin w Hw). lra. }
  specialize (Hlub _ Hub). lra.
Qed.

(* ---------- 5. the simplex of size m+1 is the join of a vertex and the simplex of size m ------- *)
Lemma nonneg_vsum0_nth r : nonneg r -> vsumR r = 0 -> forall i, nth i r 0 = 0.
Proof.
  induction 1 as [|x r Hx Hr IH]; intros Hs i; [destruct i; reflexivity|].
  rewrite vsum_cons in Hs. pose proof (vsum_nonneg r Hr) as Hp.
  destruct i; cbn [nth]; [lra | apply IH; lra].
Qed.

Lemma simplex_cons m t w' : 0 <= t <= 1 -> simplex m w' ->
  simplex (S m) (t :: vscaleR (1 - t) w').
Proof.
  intros Ht (Hl & Hn & Hs). split; [|split].
  - cbn [length]. rewrite length_vscale. congruence.
  - constructor; [lra|]. apply nonneg_vscale; [lra | exact Hn].
  - rewrite vsum_cons, vsum_vscale, Hs. lra.
Qed.

Lemma simplex_cons_inv m t r : (1 <= m)%nat -> simplex (S m) (t :: r) ->
  0 <= t <= 1 /\ exists w', simplex m w' /\ r = vscaleR (1 - t) w'.
Proof.
  intros Hm (Hl & Hn & Hs). cbn [length] in Hl. rewrite vsum_cons in Hs.
  apply Forall_cons_iff in Hn. destruct Hn as [Ht0 Hn].
  pose proof (vsum_nonneg r Hn) as Hp.
  split; [lra|].
  destruct (Req_dec t 1) as [E|E].
  - exists (onehotR m 0 1). split; [apply simplex_onehot; lia|].
    apply hm_list_ext; [rewrite length_vscale, length_onehot; lia|].
    intros i. rewrite hm_nth_vscale, (nonneg_vsum0_nth r Hn) by lra. rewrite E. ring.
  - assert (Hd : 0 < 1 - t) by lra.
    exists (vscaleR (/ (1 - t)) r). split; [split; [|split]|].
    + rewrite length_vscale. lia.
    + apply nonneg_vscale; [|exact Hn]. apply Rlt_le, Rinv_0_lt_compat. exact Hd.
    + rewrite vsum_vscale. replace (vsumR r) with (1 - t) by lra. field. lra.
    + apply hm_list_ext; [rewrite !length_vscale; reflexivity|].
      intros i. rewrite !hm_nth_vscale. field. lra.
Qed.

(* ---------- 6. a one-sided Lipschitz bound gives continuity ---------- *)
Lemma lip_continuity (phi : R -> R) L c : 0 <= L -> 0 <= c <= 1 ->
  (forall t s, -2 <= t <= 2 -> -2 <= s <= 2 -> phi t - phi s <= L * Rabs (t - s)) ->
  continuity_pt phi c.
Proof.
  intros HL Hc Hlip. unfold continuity_pt, continue_in, limit1_in, limit_in.
  intros eps Heps.
  assert (HL1 : 0 < L + 1) by lra.
  assert (Hq : 0 < eps / (L + 1)) by (apply Rdiv_lt_0_compat; lra).
  exists (Rmin 1 (eps / (L + 1))). split; [apply Rmin_pos; lra|].
  intros x [_ Hd]. cbn [dist R_met Base] in *. unfold R_dist in *.
  assert (Hd1 : Rabs (x - c) < 1) by (eapply Rlt_le_trans; [exact Hd | apply Rmin_l]).
  assert (Hd2 : Rabs (x - c) < eps / (L + 1)) by (eapply Rlt_le_trans; [exact Hd | apply Rmin_r]).
  assert (Hx : -2 <= x <= 2).
  { apply Rabs_def2 in Hd1. lra. }
  assert (Hc2 : -2 <= c <= 2) by lra.
  pose proof (Hlip x c Hx Hc2) as H1. pose proof (Hlip c x Hc2 Hx) as H2.
  rewrite (Rabs_minus_sym c x) in H2.
  pose proof (Rabs_pos (x - c)) as Hp.
  assert (H3 : (L + 1) * Rabs (x - c) < eps).
  { apply (Rmult_lt_compat_l (L + 1)) in Hd2; [|exact HL1].
    replace ((L + 1) * (eps / (L + 1))) with eps in Hd2 by (field; lra). exact Hd2. }
  assert (H4 : L * Rabs (x - c) < eps).
  { assert (L * Rabs (x - c) <= (L + 1) * Rabs (x - c)) by (apply Rmult_le_compat_r; lra). lra. }
  apply Rabs_def1; lra.
Qed.

(* ---------- 7. the main induction ---------- *)
Lemma hull_min_exists_len n : forall m J, length J = S m -> wfmat n J ->
  exists wstar, hull_min n J wstar.
Proof.
  induction m as [|m IH]; intros J Hlen HJ.
  - (* one row: the simplex is {[1]} *)
    destruct J as [|g [|g2 J]]; cbn in Hlen; try lia.
    exists [1]. split.
    + split; [reflexivity|]. split; [repeat constructor; lra | cbn; lra].
    + intros w (Hl & _ & Hs). cbn [length] in Hl.
      destruct w as [|x [|y w]]; cbn in Hl; try lia.
      cbn in Hs. assert (x = 1) by lra. subst x. lra.
  - destruct J as [|g J']; [cbn in Hlen; lia|]. cbn [length] in Hlen.
    assert (Hlen' : length J' = S m) by lia.
    apply Forall_cons_iff in HJ. destruct HJ as [Hg HJ'].
    assert (Hne : forall t, Jt t g J' <> []).
    { intros t E. apply (f_equal (@length _)) in E. rewrite length_Jt, Hlen' in E. cbn in E. lia. }
    assert (HIH : forall t, exists w, hull_min n (Jt t g J') w).
    { intros t. apply IH; [rewrite length_Jt; exact Hlen' | apply wfmat_Jt; assumption]. }
    set (phi := fun t => infval n (Jt t g J') (Hne t)).
    (* uniform bounds on the coefficients *)
    destruct (hull_bounded n J' HJ') as (B & HB & HBb).
    pose proof (dot_self_nonneg g) as Hgg.
    set (C := dotR g g + B).
    assert (HC : 0 <= C) by (unfold C; lra).
    assert (Hcoef : forall w', simplex (length J') w' ->
              Rabs (dotR g g) <= C /\ Rabs (dotR g (vmR n w' J')) <= C /\
              Rabs (dotR (vmR n w' J') (vmR n w' J')) <= C).
    { intros w' Hw'. specialize (HBb w' Hw'). set (y := vmR n w' J') in *.
      pose proof (dot_self_nonneg y) as Hyy.
      assert (Hly : length y = n) by (apply length_vm; exact HJ').
      pose proof (cauchy_schwarz g y ltac:(congruence)) as Hcs.
      split; [rewrite Rabs_pos_eq; unfold C; lra|]. split; [|rewrite Rabs_pos_eq; unfold C; lra].
      apply sq_le_abs; [exact HC|]. apply Rle_trans with (1 := Hcs).
      assert (P1 : dotR g g * dotR y y <= dotR g g * B) by (apply Rmult_le_compat_l; lra).
      assert (P2 : 0 <= dotR g g * dotR g g) by (apply Rle_0_sqr).
      assert (P3 : 0 <= B * B) by (apply Rle_0_sqr).
      assert (P4 : 0 <= dotR g g * B) by (apply Rmult_le_pos; lra).
      unfold C. replace ((dotR g g + B) * (dotR g g + B))
        with (dotR g g * dotR g g + 2 * (dotR g g * B) + B * B) by ring. lra. }
    (* phi is Lipschitz on [-2,2] *)
    assert (Hlip : forall t s, -2 <= t <= 2 -> -2 <= s <= 2 ->
              phi t - phi s <= 20 * C * Rabs (t - s)).
    { intros t s Ht Hs. destruct (HIH s) as (ws & Hws).
      pose proof (proj1 Hws) as Hsx. rewrite length_Jt in Hsx.
      unfold phi. rewrite (infval_attained n _ (Hne s) ws Hws).
      assert (Hsxt : simplex (length (Jt t g J')) ws) by (rewrite length_Jt; exact Hsx).
      pose proof (infval_le n _ (Hne t) ws Hsxt) as Hle.
      rewrite (normsq_Jt n g J' t ws HJ' Hg Hsx) in Hle.
      rewrite (normsq_Jt n g J' s ws HJ' Hg Hsx).
      destruct (Hcoef ws Hsx) as (Ha & Hb & Hc).
      pose proof (qpoly_lip _ _ _ C t s Ha Hb Hc Ht Hs) as Hq. lra. }
    (* minimise phi on [0,1] *)
    destruct (continuity_ab_min phi 0 1 ltac:(lra)) as (ts & Hts & Hts01).
    { intros c Hc. apply (lip_continuity phi (20 * C) c); [lra | exact Hc | exact Hlip]. }
    destruct (HIH ts) as (ws & Hws).
    pose proof (proj1 Hws) as Hsx. rewrite length_Jt in Hsx.
    exists (ts :: vscaleR (1 - ts) ws). split.
    + cbn [length]. rewrite Hlen'. apply simplex_cons; [exact Hts01|]. rewrite <- Hlen'. exact Hsx.
    + intros w Hw. cbn [length] in Hw. rewrite Hlen' in Hw.
      destruct w as [|t r]; [destruct Hw as (Hl & _); cbn in Hl; lia|].
      destruct (simplex_cons_inv (S m) t r ltac:(lia) Hw) as (Ht & w' & Hw' & ->).
      rewrite <- Hlen' in Hw'.
      rewrite (vm_param n g J' ts ws HJ' Hg Hsx).
      rewrite (vm_param n g J' t w' HJ' Hg Hw').
      rewrite <- (infval_attained n _ (Hne ts) ws Hws).
      apply Rle_trans with (phi t); [apply (Hts t Ht)|].
      unfold phi. apply infval_le. rewrite length_Jt. exact Hw'.
Qed.

Theorem hull_min_exists : forall n J, wfmat n J -> J <> [] -> exists wstar, hull_min n J wstar.
Proof.
  intros n J HJ Hne. destruct J as [|g J']; [congruence|].
  apply (hull_min_exists_len n (length J')); [reflexivity | exact HJ].
Qed.

(* ---------- 8. corollaries: the hypothesis [hull_min n J wstar] can always be discharged ------- *)
Corollary mgda_fw_rate_unconditional : forall n J K s, wfmat n J -> J <> [] -> 0 <= s ->
  (forall v, length v = length J -> dotR (vmR n v J) (vmR n v J) <= s * s * dotR v v) ->
  exists wstar, hull_min n J wstar /\
    let x := agg_mgda RN 0 K J in
    let xstar := vmR n wstar J in
    dotR x x - dotR xstar xstar <= 8 * (s * s) / (INR K + 2).
Proof.
  intros n J K s HJ Hne Hs Hsing. destruct (hull_min_exists n J HJ Hne) as (wstar & Hmin).
  exists wstar. split; [exact Hmin|]. apply (mgda_fw_rate n J K wstar s); assumption.
Qed.

Corollary mgda_allowance_unconditional : forall n J eps iters s, wfmat n J -> J <> [] ->
  0 <= s -> (forall g, In g J -> dotR g g <= s * s) ->
  exists wstar, hull_min n J wstar /\
    forall i, (i < length J)%nat ->
    let x := agg_mgda RN eps iters J in
    let xstar := vmR n wstar J in
    - s * sqrt (dotR x x - dotR xstar xstar) <= dotR (nth i J []) x.
Proof.
  intros n J eps iters s HJ Hne Hs Hb. destruct (hull_min_exists n J HJ Hne) as (wstar & Hmin).
  exists wstar. split; [exact Hmin|]. intros i Hi.
  apply (mgda_allowance n J eps iters wstar s i); assumption.
Qed.

(* the minimum value is unique, so "the" minimum-norm value of the hull is well defined *)
Lemma hull_min_value_unique n J w1 w2 : hull_min n J w1 -> hull_min n J w2 ->
  dotR (vmR n w1 J) (vmR n w1 J) = dotR (vmR n w2 J) (vmR n w2 J).
Proof.
  intros [H1 M1] [H2 M2]. apply Rle_antisym; [apply M1; exact H2 | apply M2; exact H1].
Qed.

Print Assumptions hull_min_exists.
Print Assumptions mgda_fw_rate_unconditional.
Print Assumptions mgda_allowance_unconditional.
