(* ImpartialProofs.v — C17 for ConFIG (equal positive cosines) and Aligned-MTL (re-balanced rows are
   mutually orthogonal and of the same length).  The numerical kernels (pinv, eigh) are oracle
   arguments of the models; their contracts are HYPOTHESES of the theorems below. *)
From Coq Require Import Reals List Bool Arith Lia Lra Psatz.
From TJ Require Import Num Linalg NumR Agg.
From TJ.proofs Require Import LinalgR QPProofs C10Proofs.
From Coq Require Import Sorted.
From TJ.proofs Require Import C03Proofs C18Proofs C08Proofs.
Import ListNotations.
Local Open Scope R_scope.

(* ------------------------------------------------------------------------------------------ *)
(* small general facts                                                                        *)
(* ------------------------------------------------------------------------------------------ *)
Lemma vsum_pos (l : list R) : l <> [] -> Forall (fun x => 0 < x) l -> 0 < vsumR l.
Proof.
  intros Hne H. induction H as [|x l Hx Hl IH]; [congruence|].
  rewrite vsum_cons. destruct l as [|y l].
  - cbn. lra.
  - assert (0 < vsumR (y :: l)) by (apply IH; discriminate). lra.
Qed.

Lemma nth_map_nil (f : list R -> list R) (J : list (list R)) i :
  (i < length J)%nat -> nth i (map f J) [] = f (nth i J []).
Proof.
  intros Hi. rewrite (nth_indep _ [] (f [])) by (rewrite map_length; exact Hi). apply map_nth.
Qed.

Lemma nth_repeat_lt (x : R) m i : (i < m)%nat -> nth i (repeat x m) 0 = x.
Proof.
  intros Hi. apply (repeat_spec m x). apply nth_In. rewrite repeat_length. exact Hi.
Qed.

(* cosine of the angle between two vectors *)
Definition cosine (a b : list R) : R := dotR a b / (sqrt (dotR a a) * sqrt (dotR b b)).

(* ------------------------------------------------------------------------------------------ *)
(* I1  ConFIG                                                                                 *)
(* ------------------------------------------------------------------------------------------ *)
Lemma config_units_nonzero J : (forall g, In g J -> 0 < dotR g g) ->
  config_units RN J = map (fun r => vscaleR (1 / sqrt (dotR r r)) r) J.
Proof.
  intros Hnz. unfold config_units. apply map_ext_in. intros r Hr. unfold vnorm. rn.
  pose proof (sqrt_lt_R0 _ (Hnz r Hr)) as Hs.
  destruct (Rleb (sqrt (dotR r r)) 0) eqn:E; [apply Rleb_true in E; lra | reflexivity].
Qed.

(* key step: <unit_i, best> = (U best)_i = (U B w)_i = w_i, i.e. <g_i, best> = |g_i| w_i *)
Lemma config_dot_best B J w :
  forall (Hnz : forall g, In g J -> 0 < dotR g g)
         (HUB : forall x, length x = length J -> mvR (config_units RN J) (mvR B x) = x)
         (Hlw : length w = length J),
  forall i, (i < length J)%nat ->
    dotR (nth i J []) (mvR B w) = sqrt (dotR (nth i J []) (nth i J [])) * nth i w 0.
Proof.
  intros Hnz HUB Hlw i Hi.
  pose proof (HUB w Hlw) as E. rewrite (config_units_nonzero J Hnz) in E.
  assert (E' : nth i (mvR (map (fun r => vscaleR (1 / sqrt (dotR r r)) r) J) (mvR B w)) 0 = nth i w 0)
    by (rewrite E; reflexivity).
  rewrite nth_mv in E' by (rewrite map_length; exact Hi).
  rewrite (nth_map_nil (fun r => vscaleR (1 / sqrt (dotR r r)) r)) in E' by exact Hi.
  rewrite dot_vscale_l in E'.
  assert (Hs : 0 < sqrt (dotR (nth i J []) (nth i J []))).
  { apply sqrt_lt_R0. apply Hnz. apply nth_In. exact Hi. }
  rewrite <- E'. field. lra.
Qed.

Lemma config_best_nonzero B J w :
  forall (Hne : J <> [])
         (Hnz : forall g, In g J -> 0 < dotR g g)
         (HUB : forall x, length x = length J -> mvR (config_units RN J) (mvR B x) = x)
         (Hlw : length w = length J)
         (Hw : forall i, (i < length J)%nat -> 0 < nth i w 0),
  0 < dotR (mvR B w) (mvR B w).
Proof.
  intros Hne Hnz HUB Hlw Hw.
  assert (H0 : (0 < length J)%nat) by (destruct J; [congruence | cbn; lia]).
  pose proof (config_dot_best B J w Hnz HUB Hlw 0%nat H0) as E.
  assert (Hs : 0 < sqrt (dotR (nth 0 J []) (nth 0 J []))).
  { apply sqrt_lt_R0. apply Hnz. apply nth_In. exact H0. }
  pose proof (Hw 0%nat H0) as Hw0.
  pose proof (dot_self_nonneg (mvR B w)) as Hge.
  destruct (Req_dec (dotR (mvR B w) (mvR B w)) 0) as [Z|Z]; [|lra].
  apply dot_self_zero in Z. rewrite Z, dot_vzero_r in E. exfalso. timeout 60 nra.
Qed.

(* the direction vector of ConFIG has unit length *)
Lemma config_direction_is_unit (best : list R) :
  0 < dotR best best ->
  let u := vscaleR (1 / sqrt (dotR best best)) best in
  dotR u u = 1.
Proof.
  intros Hb u. unfold u. rewrite dot_vscale_l, dot_vscale_r.
  pose proof (sqrt_lt_R0 _ Hb) as Hs.
  pose proof (sqrt_sqrt (dotR best best) (Rlt_le _ _ Hb)) as Hq.
  rewrite <- Hq at 3. field. lra.
Qed.

(* the model's own direction vector (with its guard) is the unit vector above *)
Lemma config_guard_false (best : list R) : 0 < dotR best best ->
  nleb RN (vnorm RN best) (n0 RN) = false.
Proof.
  intros Hb. unfold vnorm. rn. pose proof (sqrt_lt_R0 _ Hb) as Hs.
  destruct (Rleb (sqrt (dotR best best)) 0) eqn:E; [apply Rleb_true in E; lra | reflexivity].
Qed.

Theorem config_equal_cosines B pref J w :
  forall (Hne : J <> [])
         (* every row is non-zero *)
         (Hnz : forall g, In g J -> 0 < dotR g g)
         (* pinv contract for a full-row-rank U = config_units J :  U B = I *)
         (HUB : forall x, length x = length J -> mvR (config_units RN J) (mvR B x) = x)
         (* w is the preference vector, or ones by default *)
         (Hpw : pref_weights pref (sum_weights RN (length J)) (length J) = Ok w)
         (Hw : forall i, (i < length J)%nat -> 0 < nth i w 0),
  let best := mvR B w in
  let nb := sqrt (dotR best best) in
  let u := vscaleR (1 / nb) best in
  let L := vsumR (map (fun g => dotR g u) J) in
  0 < nb /\
  dotR u u = 1 /\
  (forall i, (i < length J)%nat ->
     dotR (nth i J []) u = sqrt (dotR (nth i J []) (nth i J [])) * nth i w 0 / nb) /\
  0 < L /\
  agg_config RN B pref J = Ok (vscaleR L u) /\
  (forall i, (i < length J)%nat -> cosine (nth i J []) (vscaleR L u) = nth i w 0 / nb).
Proof.
  intros Hne Hnz HUB Hpw Hw best nb u L.
  assert (Hlw : length w = length J).
  { destruct pref as [p|]; cbn in Hpw.
    - unfold constant_weights in Hpw. destruct (length p =? length J)%nat eqn:E; [|discriminate].
      injection Hpw as <-. apply Nat.eqb_eq. exact E.
    - injection Hpw as <-. apply repeat_length. }
  assert (Hb : 0 < dotR best best) by (apply (config_best_nonzero B J w); assumption).
  assert (Hnb : 0 < nb) by (apply sqrt_lt_R0; exact Hb).
  assert (Hu : dotR u u = 1) by (apply config_direction_is_unit; exact Hb).
  assert (Hproj : forall i, (i < length J)%nat ->
     dotR (nth i J []) u = sqrt (dotR (nth i J []) (nth i J [])) * nth i w 0 / nb).
  { intros i Hi. unfold u. rewrite dot_vscale_r. fold best.
    unfold best. rewrite (config_dot_best B J w Hnz HUB Hlw i Hi). fold best. fold nb.
    field. lra. }
  assert (HL : 0 < L).
  { unfold L. apply vsum_pos.
    - destruct J; [congruence | discriminate].
    - apply Forall_forall. intros x Hx. apply in_map_iff in Hx. destruct Hx as (g & <- & Hg).
      destruct (In_nth _ _ [] Hg) as (i & Hi & <-). rewrite (Hproj i Hi).
      assert (Hs : 0 < sqrt (dotR (nth i J []) (nth i J []))).
      { apply sqrt_lt_R0. apply Hnz. apply nth_In. exact Hi. }
      pose proof (Hw i Hi) as Hwi.
      unfold Rdiv. apply Rmult_lt_0_compat; [apply Rmult_lt_0_compat; assumption|].
      apply Rinv_0_lt_compat. exact Hnb. }
  split; [exact Hnb|]. split; [exact Hu|]. split; [exact Hproj|]. split; [exact HL|]. split.
  - unfold agg_config. rewrite Hpw. cbn [rbind]. cbv zeta. fold best.
    rewrite (config_guard_false best Hb). unfold vnorm. rn. fold nb. fold u. fold L. reflexivity.
  - intros i Hi. unfold cosine.
    rewrite !dot_vscale_r, dot_vscale_l, Hu, (Hproj i Hi).
    replace (L * (L * 1)) with (L * L) by ring. rewrite sqrt_square by lra.
    assert (Hs : 0 < sqrt (dotR (nth i J []) (nth i J []))).
    { apply sqrt_lt_R0. apply Hnz. apply nth_In. exact Hi. }
    field. repeat split; lra.
Qed.

(* default preference (w = ones): the cosines with all rows are equal and positive *)
Corollary config_default_equal_cosines B J v :
  forall (Hne : J <> [])
         (Hnz : forall g, In g J -> 0 < dotR g g)
         (HUB : forall x, length x = length J -> mvR (config_units RN J) (mvR B x) = x)
         (Hv : agg_config RN B None J = Ok v),
  exists c, 0 < c /\ forall i, (i < length J)%nat -> cosine (nth i J []) v = c.
Proof.
  intros Hne Hnz HUB Hv.
  assert (Hw : forall i, (i < length J)%nat -> 0 < nth i (sum_weights RN (length J)) 0).
  { intros i Hi. unfold sum_weights. rewrite nth_repeat_lt by exact Hi. rn. lra. }
  destruct (config_equal_cosines B None J (sum_weights RN (length J)) Hne Hnz HUB eq_refl Hw)
    as (Hnb & _ & _ & _ & Hagg & Hcos).
  rewrite Hagg in Hv. injection Hv as <-.
  exists (1 / sqrt (dotR (mvR B (sum_weights RN (length J))) (mvR B (sum_weights RN (length J))))).
  split.
  - unfold Rdiv. rewrite Rmult_1_l. apply Rinv_0_lt_compat. exact Hnb.
  - intros i Hi. rewrite (Hcos i Hi). unfold sum_weights. rewrite nth_repeat_lt by exact Hi. rn.
    reflexivity.
Qed.

Print Assumptions config_direction_is_unit.
Print Assumptions config_equal_cosines.
Print Assumptions config_default_equal_cosines.

(* ------------------------------------------------------------------------------------------ *)
(* I2  Aligned-MTL                                                                            *)
(* ------------------------------------------------------------------------------------------ *)

(* ---- tables: vectors given as  map f (seq a m) ---- *)
Lemma map_const_seq (c : R) a m : map (fun _ => c) (seq a m) = repeat c m.
Proof. revert a; induction m as [|m IH]; intros a; [reflexivity|]. cbn. rewrite IH. reflexivity. Qed.

Lemma vadd_map_seq (f g : nat -> R) a m :
  vaddR (map f (seq a m)) (map g (seq a m)) = map (fun j => f j + g j) (seq a m).
Proof. revert a; induction m as [|m IH]; intros a; [reflexivity|]. cbn [seq map vadd]. rewrite IH. reflexivity. Qed.

Lemma vscale_as_map c v : vscaleR c v = map (fun j => c * nth j v 0) (seq 0 (length v)).
Proof.
  transitivity (vscaleR c (map (fun i => nth i v 0) (seq 0 (length v)))).
  - f_equal. symmetry. apply map_nth_seq0.
  - unfold vscale. rewrite map_map. reflexivity.
Qed.

Lemma vsum_map_scale {A} (a : R) (f : A -> R) (P : list A) :
  vsumR (map (fun p => a * f p) P) = a * vsumR (map f P).
Proof. induction P as [|p P IH]; cbn [map]; [cbn; lra|]. rewrite !vsum_cons, IH. ring. Qed.

Lemma filter_all {A} (f : A -> bool) (l : list A) : (forall x, In x l -> f x = true) -> filter f l = l.
Proof.
  induction l as [|x l IH]; intros H; [reflexivity|]. cbn [filter].
  rewrite (H x) by (left; reflexivity). f_equal. apply IH. intros y Hy. apply H. right. exact Hy.
Qed.

Lemma nth_table {A} (f : nat -> list A) m i : (i < m)%nat -> nth i (map f (seq 0 m)) [] = f i.
Proof.
  intros Hi. rewrite (nth_indep _ [] (f 0%nat)) by (rewrite map_length, seq_length; exact Hi).
  rewrite map_nth, seq_nth by exact Hi. reflexivity.
Qed.

Lemma mv_vzero M k : mvR M (vzeroR k) = vzeroR (length M).
Proof.
  induction M as [|r M IH]; [reflexivity|]. cbn [mv map length]. fold (mvR M (vzeroR k)).
  rewrite IH, dot_vzero_r. reflexivity.
Qed.

Lemma FOP_nth {A} (Rel : A -> A -> Prop) (d : A) (P : list A) :
  (forall k l, (k < l)%nat -> (l < length P)%nat -> Rel (nth k P d) (nth l P d)) ->
  ForallOrdPairs Rel P.
Proof.
  induction P as [|a P IH]; intros H; constructor.
  - apply Forall_forall. intros x Hx. destruct (In_nth _ _ d Hx) as (l & Hl & <-).
    apply (H 0%nat (S l)); cbn; lia.
  - apply IH. intros k l Hkl Hl. apply (H (S k) (S l)); cbn; lia.
Qed.

(* ---- linear combinations  sum_p c(p) v_p  over a list P of (eigenvalue, eigenvector) pairs ---- *)
Definition comb (m : nat) (c : R * list R -> R) (P : list (R * list R)) : list R :=
  vmp m (map (fun p => (c p, snd p)) P).

Definition wfP (m : nat) (P : list (R * list R)) : Prop := Forall (fun p => length (snd p) = m) P.

(* pairwise orthogonal unit vectors *)
Definition orthoP (P : list (R * list R)) : Prop :=
  ForallOrdPairs (fun p q => dotR (snd p) (snd q) = 0) P /\
  Forall (fun p => dotR (snd p) (snd p) = 1) P.

Lemma comb_cons m c p P : comb m c (p :: P) = vaddR (vscaleR (c p) (snd p)) (comb m c P).
Proof. reflexivity. Qed.

Lemma length_comb m c P : wfP m P -> length (comb m c P) = m.
Proof.
  induction 1 as [|p P Hp HP IH]; [apply length_vzero|].
  rewrite comb_cons, length_vadd; rewrite length_vscale; congruence.
Qed.

Lemma dot_comb_orth m c v P : wfP m P ->
  Forall (fun q => dotR v (snd q) = 0) P -> dotR v (comb m c P) = 0.
Proof.
  intros HP H. induction H as [|q P Hq H IH]; [apply dot_vzero_r|].
  apply Forall_cons_iff in HP. destruct HP as [Hlq HP].
  rewrite comb_cons, dot_vadd_r by (rewrite length_vscale, length_comb by exact HP; exact Hlq).
  rewrite dot_vscale_r, Hq, IH by exact HP. ring.
Qed.

Lemma dot_comb_comb m c c' P : wfP m P -> orthoP P ->
  dotR (comb m c P) (comb m c' P) = vsumR (map (fun p => c p * c' p) P).
Proof.
  intros HP [Ho Hu]. induction P as [|p P IH]; [cbn; apply dot_vzero_l|].
  apply Forall_cons_iff in HP. destruct HP as [Hlp HP].
  apply Forall_cons_iff in Hu. destruct Hu as [Hup Hu].
  inversion Ho as [|a l Hop Ho' Eal]; subst a l.
  rewrite !comb_cons. cbn [map]. rewrite vsum_cons.
  assert (Hl : forall x c0, length (vscaleR x (snd p)) = length (comb m c0 P))
    by (intros; rewrite length_vscale, length_comb by exact HP; exact Hlp).
  rewrite dot_vadd_l by apply Hl. rewrite !dot_vadd_r by apply Hl.
  rewrite dot_vscale_l, dot_vscale_r, Hup.
  rewrite dot_vscale_l, (dot_comb_orth m c' (snd p) P HP Hop).
  rewrite dot_vscale_r, (dot_comm (comb m c P)), (dot_comb_orth m c (snd p) P HP Hop).
  rewrite IH by assumption. ring.
Qed.

Lemma mv_comb m G c P : length G = m -> wfP m P ->
  (forall p, In p P -> mvR G (snd p) = vscaleR (fst p) (snd p)) ->
  mvR G (comb m c P) = comb m (fun p => c p * fst p) P.
Proof.
  intros HG HP He. induction P as [|p P IH].
  - unfold comb. cbn [map vmp]. rewrite mv_vzero, HG. reflexivity.
  - apply Forall_cons_iff in HP. destruct HP as [Hlp HP].
    rewrite !comb_cons.
    rewrite mv_vadd by (rewrite length_vscale, length_comb by exact HP; exact Hlp).
    rewrite mv_vscale, (He p) by (left; reflexivity). rewrite vscale_vscale.
    rewrite IH; [reflexivity | exact HP | intros q Hq; apply He; right; exact Hq].
Qed.

(* row i of  s * sum_k (1/sqrt lam_k) v_k v_k^T  is the combination with coefficients
   s (1/sqrt lam_k) v_k[i] *)
Definition bcoef (s : R) (i : nat) (p : R * list R) : R := s * (1 / sqrt (fst p)) * vget RN (snd p) i.

Lemma brow_comb m s i P : wfP m P ->
  map (fun j => s * vsumR (map (fun '(l, v) => (1 / sqrt l) * (vget RN v i * vget RN v j)) P)) (seq 0 m)
  = comb m (bcoef s i) P.
Proof.
  induction 1 as [|[l v] P Hp HP IH].
  - unfold comb. cbn [map vmp]. unfold vzero. rewrite <- (map_const_seq (n0 RN) 0 m).
    apply map_ext. intros j. cbn. ring.
  - rewrite comb_cons, <- IH. cbn [snd] in *. rewrite vscale_as_map, Hp, vadd_map_seq.
    apply map_ext. intros j. cbn [map]. rewrite vsum_cons. unfold bcoef, vget. cbn [fst snd]. rn. ring.
Qed.

Lemma bcoef_prod s2 i j p : 0 <= s2 -> 0 < fst p ->
  bcoef (sqrt s2) i p * (bcoef (sqrt s2) j p * fst p) = s2 * (vget RN (snd p) i * vget RN (snd p) j).
Proof.
  intros Hs Hl. unfold bcoef.
  pose proof (sqrt_sqrt _ Hs) as Es. pose proof (sqrt_sqrt _ (Rlt_le _ _ Hl)) as El.
  pose proof (sqrt_lt_R0 _ Hl) as Hq.
  set (q := sqrt (fst p)) in *. set (s := sqrt s2) in *.
  rewrite <- El, <- Es. field. lra.
Qed.

(* B G B^T over a list of pairs *)
Lemma balance_bil n m J P s2 i j :
  forall (HJ : wfmat n J) (Hm : length J = m) (HP : wfP m P) (Ho : orthoP P)
         (He : forall p, In p P -> mvR (gramR J) (snd p) = vscaleR (fst p) (snd p))
         (Hpos : forall p, In p P -> 0 < fst p) (Hs : 0 <= s2),
  dotR (vmR n (comb m (bcoef (sqrt s2) i) P) J) (vmR n (comb m (bcoef (sqrt s2) j) P) J)
  = s2 * vsumR (map (fun p => vget RN (snd p) i * vget RN (snd p) j) P).
Proof.
  intros.
  rewrite <- (bil_gram n) by (rewrite ?length_comb by exact HP; auto).
  rewrite (mv_comb m) by (auto; rewrite length_gram; exact Hm).
  rewrite dot_comb_comb by assumption.
  rewrite <- vsum_map_scale. f_equal. apply map_ext_in. intros p Hp.
  apply bcoef_prod; auto.
Qed.

Lemma vsum_combine_columns (lam : list R) (Vt : list (list R)) i j : length lam = length Vt ->
  vsumR (map (fun p => vget RN (snd p) i * vget RN (snd p) j) (List.combine lam Vt))
  = dotR (column RN Vt i) (column RN Vt j).
Proof.
  revert Vt; induction lam as [|l lam IH]; intros [|v Vt] H; cbn in H; try lia; [reflexivity|].
  cbn [List.combine map column]. rewrite vsum_cons, dot_cons, IH by lia. reflexivity.
Qed.

(* full-rank case: the model's matrix B, unfolded *)
Definition balance_entry (lam : list R) (Vt : list (list R)) (i j : nat) : R :=
  sqrt (last lam 0) *
  vsumR (map (fun '(l, v) => (1 / sqrt l) * (vget RN v i * vget RN v j)) (List.combine lam Vt)).

Lemma aligned_balance_full lam Vt tol :
  forall (Hne : lam <> []) (Hfull : forall l, In l lam -> tol < l) (HlV : length Vt = length lam),
  aligned_balance RN lam Vt tol =
  map (fun i => map (fun j => balance_entry lam Vt i j) (seq 0 (length lam))) (seq 0 (length lam)).
Proof.
  intros. unfold aligned_balance. cbv zeta.
  rewrite filter_all by (intros l Hl; rn; apply Rltb_true; apply Hfull; exact Hl).
  destruct (length lam =? 0)%nat eqn:E.
  { apply Nat.eqb_eq in E. destruct lam; [congruence | discriminate]. }
  rewrite firstn_all.
  replace (firstn (length lam) Vt) with Vt by (rewrite <- HlV; symmetry; apply firstn_all).
  rn. reflexivity.
Qed.

Lemma last_In (l : list R) d : l <> [] -> In (last l d) l.
Proof.
  induction l as [|x l IH]; intros H; [congruence|].
  destruct l as [|y l]; [left; reflexivity|]. right. apply IH. discriminate.
Qed.

(* eigenvalues in descending order: the last one is the smallest *)
Lemma last_is_min (lam : list R) : StronglySorted Rge lam ->
  forall x, In x lam -> last lam 0 <= x.
Proof.
  induction 1 as [|a l Hs IH Ha]; intros x Hx; [destruct Hx|].
  destruct l as [|y l]; [destruct Hx as [<-|[]]; cbn; lra|].
  change (last (a :: y :: l) 0) with (last (y :: l) 0).
  destruct Hx as [<-|Hx]; [|apply IH; exact Hx].
  rewrite Forall_forall in Ha. apply Rge_le. apply Ha. apply last_In. discriminate.
Qed.

(* I2: B G B^T = lam_min I.  The re-balanced rows Ghat_i = (row i of B) . J are mutually orthogonal
   and all have squared length lam_min = last lam. *)
Theorem aligned_rebalanced_rows n J lam Vt tol :
  let m := length J in
  forall (HJ : wfmat n J) (Hne : J <> [])
         (* eigh oracle, full-rank case: m eigenvalues, all above tol >= 0 *)
         (Hll : length lam = m) (HlV : length Vt = m) (HwV : wfmat m Vt)
         (Htol : 0 <= tol) (Hfull : forall l, In l lam -> tol < l)
         (* the rows of Vt are orthonormal: Vt Vt^T = I *)
         (Hrows : forall k l, (k < m)%nat -> (l < m)%nat ->
                    dotR (nth k Vt []) (nth l Vt []) = if (k =? l)%nat then 1 else 0)
         (* and complete: Vt^T Vt = I (the columns of Vt are orthonormal too) *)
         (Hcols : forall i j, (i < m)%nat -> (j < m)%nat ->
                    dotR (column RN Vt i) (column RN Vt j) = if (i =? j)%nat then 1 else 0)
         (* row k of Vt is an eigenvector of the Gramian for lam_k *)
         (Heig : forall k, (k < m)%nat ->
                    mvR (gramR J) (nth k Vt []) = vscaleR (nth k lam 0) (nth k Vt [])),
  let B := aligned_balance RN lam Vt tol in
  let Ghat := mmulR n B J in
  length Ghat = m /\
  (forall i, (i < m)%nat -> nth i Ghat [] = vmR n (nth i B []) J) /\
  forall i j, (i < m)%nat -> (j < m)%nat ->
    dotR (nth i Ghat []) (nth j Ghat []) = if (i =? j)%nat then last lam 0 else 0.
Proof.
  intros m HJ Hne Hll HlV HwV Htol Hfull Hrows Hcols Heig B Ghat.
  assert (Hm : (0 < m)%nat) by (unfold m; destruct J; [congruence | cbn; lia]).
  assert (Hlne : lam <> []) by (intros E; rewrite E in Hll; cbn in Hll; lia).
  assert (HB : B = map (fun i => map (fun j => balance_entry lam Vt i j) (seq 0 m)) (seq 0 m)).
  { unfold B. rewrite aligned_balance_full by (auto; congruence). rewrite Hll. reflexivity. }
  set (P := List.combine lam Vt).
  assert (HP : wfP m P).
  { apply Forall_forall. intros [l v] Hp. apply in_combine_r in Hp. cbn [snd].
    unfold wfmat in HwV. rewrite Forall_forall in HwV. apply HwV. exact Hp. }
  assert (HlP : length P = m) by (unfold P; rewrite combine_length; lia).
  assert (HnP : forall k, nth k P (0, []) = (nth k lam 0, nth k Vt []))
    by (intros k; unfold P; apply combine_nth; congruence).
  assert (Ho : orthoP P).
  { split.
    - apply (FOP_nth _ (0, [])). intros k l Hkl Hl. rewrite !HnP. cbn [snd].
      rewrite Hrows by lia. destruct (Nat.eqb_spec k l); [lia | reflexivity].
    - apply Forall_forall. intros p Hp. destruct (In_nth _ _ (0, []) Hp) as (k & Hk & <-).
      rewrite HnP. cbn [snd]. rewrite Hrows by lia. rewrite Nat.eqb_refl. reflexivity. }
  assert (He : forall p, In p P -> mvR (gramR J) (snd p) = vscaleR (fst p) (snd p)).
  { intros p Hp. destruct (In_nth _ _ (0, []) Hp) as (k & Hk & <-). rewrite HnP. cbn [fst snd].
    apply Heig. lia. }
  assert (Hpos : forall p, In p P -> 0 < fst p).
  { intros [l v] Hp. apply in_combine_l in Hp. cbn [fst]. specialize (Hfull l Hp). lra. }
  assert (Hs2 : 0 <= last lam 0).
  { pose proof (Hfull _ (last_In lam 0 Hlne)). lra. }
  assert (Hrow : forall i, (i < m)%nat -> nth i B [] = comb m (bcoef (sqrt (last lam 0)) i) P).
  { intros i Hi. rewrite HB, nth_table by exact Hi. unfold balance_entry. fold P.
    apply brow_comb. exact HP. }
  assert (HlB : length B = m) by (rewrite HB, map_length, seq_length; reflexivity).
  assert (HG : forall i, (i < m)%nat -> nth i Ghat [] = vmR n (nth i B []) J).
  { intros i Hi. unfold Ghat, mmul.
    rewrite (nth_indep _ [] (vmR n [] J)) by (rewrite map_length; lia).
    apply (map_nth (fun r => vmR n r J)). }
  split; [unfold Ghat, mmul; rewrite map_length; exact HlB|]. split; [exact HG|].
  intros i j Hi Hj. rewrite !HG, !Hrow by assumption.
  rewrite (balance_bil n m J P (last lam 0) i j) by (auto; reflexivity).
  unfold P. rewrite vsum_combine_columns by congruence. rewrite Hcols by assumption.
  destruct (i =? j)%nat; ring.
Qed.

(* ---- the link with the model:  A(J) = (B w) . J = w . Ghat  (B is symmetric) ---- *)
Lemma dot_map_seq (g : nat -> R) : forall w a,
  dotR (map g (seq a (length w))) w =
  vsumR (map (fun xj => g (snd xj) * fst xj) (List.combine w (seq a (length w)))).
Proof.
  induction w as [|x w IH]; intros a; [reflexivity|].
  cbn [length seq map List.combine]. rewrite dot_cons, vsum_cons, IH. reflexivity.
Qed.

Lemma vm_table (f : nat -> nat -> R) m : forall w a,
  vmR m w (map (fun i => map (f i) (seq 0 m)) (seq a (length w))) =
  map (fun j => vsumR (map (fun xi => fst xi * f (snd xi) j) (List.combine w (seq a (length w)))))
      (seq 0 m).
Proof.
  induction w as [|x w IH]; intros a.
  - cbn [vm]. unfold vzero. rewrite <- (map_const_seq (n0 RN) 0 m). apply map_ext. intros j. reflexivity.
  - cbn [length seq map vm List.combine]. rewrite IH. unfold vscale. rewrite map_map, vadd_map_seq.
    apply map_ext. intros j. rewrite vsum_cons. reflexivity.
Qed.

Lemma mv_table_sym (f : nat -> nat -> R) w : (forall i j, f i j = f j i) ->
  let m := length w in
  let B := map (fun i => map (f i) (seq 0 m)) (seq 0 m) in
  mvR B w = vmR m w B.
Proof.
  intros Hsym m B. unfold B, m. rewrite vm_table. unfold mv. rewrite map_map.
  apply map_ext. intros i. rewrite dot_map_seq. f_equal. apply map_ext. intros [x j].
  cbn [fst snd]. rewrite (Hsym i j). ring.
Qed.

Lemma balance_entry_sym lam Vt i j : balance_entry lam Vt i j = balance_entry lam Vt j i.
Proof.
  unfold balance_entry. f_equal. f_equal. apply map_ext. intros [l v]. ring.
Qed.

Theorem aligned_is_combination_of_rebalanced n J lam Vt tol pref w :
  let m := length J in
  forall (HJ : wfmat n J) (Hne : J <> [])
         (Hll : length lam = m) (HlV : length Vt = m)
         (Hfull : forall l, In l lam -> tol < l)
         (Hpw : pref_weights pref (mean_weights RN m) m = Ok w),
  let B := aligned_balance RN lam Vt tol in
  let Ghat := mmulR n B J in
  agg_aligned RN lam Vt tol pref J = Ok (vmR n w Ghat).
Proof.
  intros m HJ Hne Hll HlV Hfull Hpw B Ghat.
  assert (Hlw : length w = m).
  { destruct pref as [p|]; cbn in Hpw.
    - unfold constant_weights in Hpw. destruct (length p =? m)%nat eqn:E; [|discriminate].
      injection Hpw as <-. apply Nat.eqb_eq. exact E.
    - injection Hpw as <-. apply repeat_length. }
  assert (Hm : (0 < m)%nat) by (unfold m; destruct J; [congruence | cbn; lia]).
  assert (Hlne : lam <> []) by (intros E; rewrite E in Hll; cbn in Hll; lia).
  assert (HB : B = map (fun i => map (balance_entry lam Vt i) (seq 0 (length w))) (seq 0 (length w))).
  { unfold B. rewrite aligned_balance_full by (auto; congruence). rewrite Hll, Hlw. reflexivity. }
  assert (HwB : wfmat m B).
  { rewrite HB. apply Forall_forall. intros r Hr. apply in_map_iff in Hr. destruct Hr as (i & <- & _).
    rewrite map_length, seq_length. exact Hlw. }
  unfold agg_aligned. fold m. rewrite Hpw. cbn [rbind]. f_equal. fold B.
  unfold combine_rows. rewrite (ncols_wf n) by assumption.
  assert (Esym : mvR B w = vmR m w B).
  { rewrite HB, <- Hlw. apply (mv_table_sym (balance_entry lam Vt) w). apply balance_entry_sym. }
  rewrite Esym. unfold Ghat. apply (vm_mmul m n B J); assumption.
Qed.

(* ---- non-vacuity: the hypotheses of the two main theorems are jointly satisfiable ---- *)
Example config_hypotheses_satisfiable :
  let J := [[2]] in let B := [[1]] in
  J <> [] /\ (forall g, In g J -> 0 < dotR g g) /\
  (forall x, length x = length J -> mvR (config_units RN J) (mvR B x) = x).
Proof.
  cbv zeta. split; [discriminate|].
  assert (Hnz : forall g, In g [[2]] -> 0 < dotR g g) by (intros g [<-|[]]; cbn; lra).
  split; [exact Hnz|].
  intros [|a [|b x]] H; try discriminate. rewrite (config_units_nonzero _ Hnz).
  cbn. replace (2 * 2 + 0) with (2 * 2) by ring. rewrite sqrt_square by lra. f_equal. field.
Qed.

Example aligned_hypotheses_satisfiable :
  let J := [[2]] in let lam := [4] in let Vt := [[1]] in let tol := 0 in let m := length J in
  wfmat 1 J /\ J <> [] /\ length lam = m /\ length Vt = m /\ wfmat m Vt /\ 0 <= tol /\
  (forall l, In l lam -> tol < l) /\
  (forall k l, (k < m)%nat -> (l < m)%nat ->
     dotR (nth k Vt []) (nth l Vt []) = if (k =? l)%nat then 1 else 0) /\
  (forall i j, (i < m)%nat -> (j < m)%nat ->
     dotR (column RN Vt i) (column RN Vt j) = if (i =? j)%nat then 1 else 0) /\
  (forall k, (k < m)%nat -> mvR (gramR J) (nth k Vt []) = vscaleR (nth k lam 0) (nth k Vt [])).
Proof.
  cbv zeta. cbn [length].
  split; [repeat constructor|]. split; [discriminate|]. split; [reflexivity|]. split; [reflexivity|].
  split; [repeat constructor|]. split; [lra|]. split; [|split; [|split]].
  - intros l [<-|[]]. lra.
  - intros k l Hk Hl. assert (k = 0%nat) by lia. assert (l = 0%nat) by lia. subst. cbn. ring.
  - intros k l Hk Hl. assert (k = 0%nat) by lia. assert (l = 0%nat) by lia. subst. cbn. ring.
  - intros k Hk. assert (k = 0%nat) by lia. subst. cbn. f_equal. ring.
Qed.

Print Assumptions aligned_rebalanced_rows.
Print Assumptions aligned_is_combination_of_rebalanced.
Print Assumptions last_is_min.
