(* KrumTranslate.v — Krum is translation-invariant in its distances and weights:
   adding the same vector v to every row of J leaves the pairwise distances
   (hence the scores, the selection and the weights) unchanged; the aggregate
   is translated by v. *)
From Coq Require Import Reals List Bool Arith Lia Lra.
From TJ Require Import Num Linalg NumR Agg.
From TJ.proofs Require Import LinalgR C16Proofs EquivarianceProofs.
Import ListNotations.
Local Open Scope R_scope.

Definition translate (v : list R) (J : list (list R)) : list (list R) := map (fun r => vadd RN r v) J.

Lemma length_translate v J : length (translate v J) = length J.
Proof. apply map_length. Qed.

Lemma nth_translate v J i : (i < length J)%nat ->
  nth i (translate v J) [] = vaddR (nth i J []) v.
Proof. intros Hi. unfold translate. apply (nth_map_in (fun r => vaddR r v) J [] [] i Hi). Qed.

(* |a+v|^2 + |b+v|^2 - 2 (a+v).(b+v) = |a|^2 + |b|^2 - 2 a.b *)
Lemma sqdist_translate a b v : length a = length v -> length b = length v ->
  dotR (vaddR a v) (vaddR a v) + dotR (vaddR b v) (vaddR b v) - 2 * dotR (vaddR a v) (vaddR b v) =
  dotR a a + dotR b b - 2 * dotR a b.
Proof.
  intros Ha Hb.
  rewrite !dot_vadd_l by assumption.
  rewrite !dot_vadd_r by assumption.
  rewrite (dot_comm v a), (dot_comm v b). lra.
Qed.

Lemma krum_dist_translate J v n i j : wfmat n J -> length v = n ->
  (i < length J)%nat -> (j < length J)%nat ->
  krum_dist RN (gramR (translate v J)) i j = krum_dist RN (gramR J) i j.
Proof.
  intros HJ Hv Hi Hj. unfold krum_dist. rewrite !mget_gram.
  rewrite !nth_translate by assumption.
  pose proof (wfmat_nth n J i HJ Hi) as Hli. pose proof (wfmat_nth n J j HJ Hj) as Hlj.
  rn. f_equal. replace (INR 2) with 2 by (cbn; lra).
  apply sqdist_translate; congruence.
Qed.

Theorem krum_distances_translate : forall (J : list (list R)) (v : list R) (n : nat),
  Forall (fun r => length r = n) J -> length v = n ->
  krum_distances RN (gram RN (translate v J)) = krum_distances RN (gram RN J).
Proof.
  intros J v n HJ Hv. unfold krum_distances.
  rewrite !length_gram, length_translate.
  apply map_ext_in. intros i Hi. apply in_seq in Hi.
  apply map_ext_in. intros j Hj. apply in_seq in Hj.
  apply (krum_dist_translate J v n); auto; lia.
Qed.

Theorem krum_weights_translate : forall J v n f k,
  Forall (fun r => length r = n) J -> length v = n ->
  krum_weights_of_dist RN (krum_distances RN (gram RN (translate v J))) f k =
  krum_weights_of_dist RN (krum_distances RN (gram RN J)) f k.
Proof.
  intros J v n f k HJ Hv. rewrite (krum_distances_translate J v n HJ Hv). reflexivity.
Qed.

(* ------------------------------------------------------------------ *)
(* The aggregate is translated by v (the Krum weights sum to 1).       *)
(* ------------------------------------------------------------------ *)

(* -- sums over index lists -- *)
Lemma vsum_map_div {A} (g : A -> R) c (l : list A) :
  vsumR (map (fun i => g i / c) l) = vsumR (map g l) / c.
Proof.
  induction l as [|x l IH]; cbn [map]; [cbn; unfold Rdiv; ring|].
  rewrite !vsum_cons, IH. unfold Rdiv; ring.
Qed.

Lemma vsum_map_plus {A} (g h : A -> R) (l : list A) :
  vsumR (map (fun i => g i + h i) l) = vsumR (map g l) + vsumR (map h l).
Proof.
  induction l as [|x l IH]; cbn [map]; [cbn; lra|].
  rewrite !vsum_cons, IH. lra.
Qed.

Definition ind (a i : nat) : R := if Nat.eq_dec a i then 1 else 0.

Lemma vsum_ind_notin a l : ~ In a l -> vsumR (map (ind a) l) = 0.
Proof.
  induction l as [|x l IH]; intros H; [reflexivity|].
  cbn [map]. rewrite vsum_cons, IH by (intros H'; apply H; right; exact H').
  unfold ind. destruct (Nat.eq_dec a x) as [->|_]; [exfalso; apply H; left; reflexivity | lra].
Qed.

Lemma vsum_ind_in a l : NoDup l -> In a l -> vsumR (map (ind a) l) = 1.
Proof.
  induction l as [|x l IH]; intros Hnd Hin; [contradiction|].
  inversion Hnd as [|? ? Hx Hl]; subst. cbn [map]. rewrite vsum_cons.
  unfold ind at 1. destruct (Nat.eq_dec a x) as [->|Hne].
  - rewrite vsum_ind_notin by exact Hx. lra.
  - destruct Hin as [->|Hin]; [contradiction Hne; reflexivity|]. rewrite IH by assumption. lra.
Qed.

Lemma vsum_count_occ (sel l : list nat) : NoDup l -> (forall i, In i sel -> In i l) ->
  vsumR (map (fun i => INR (count_occ Nat.eq_dec sel i)) l) = INR (length sel).
Proof.
  intros Hnd. induction sel as [|a sel IH]; intros Hin.
  - cbn [count_occ length INR]. clear. induction l as [|x l IHl]; [reflexivity|].
    cbn [map]. rewrite vsum_cons, IHl. lra.
  - rewrite (map_ext _ (fun i => ind a i + INR (count_occ Nat.eq_dec sel i))).
    + rewrite vsum_map_plus, IH by (intros i Hi; apply Hin; right; exact Hi).
      rewrite vsum_ind_in by (auto; apply Hin; left; reflexivity).
      cbn [length]. rewrite S_INR. lra.
    + intros i. cbn [count_occ]. unfold ind. destruct (Nat.eq_dec a i) as [_|_].
      * rewrite S_INR. lra.
      * lra.
Qed.

Lemma length_krum_weights D f k : length (krum_weights_of_dist RN D f k) = length D.
Proof. unfold krum_weights_of_dist. rewrite map_length. apply seq_length. Qed.

Lemma krum_weights_sum D f k : (1 <= k)%nat -> (k <= length D)%nat ->
  vsumR (krum_weights_of_dist RN D f k) = 1.
Proof.
  intros Hk Hkm. unfold krum_weights_of_dist.
  set (m := length D). set (v := krum_scores RN D (m - f - 2)).
  assert (Hv : length v = m) by (unfold v, krum_scores; apply map_length).
  destruct (smallest_k_spec k v ltac:(lia)) as (_ & Hlen & Hlt & _).
  set (sel := smallest_k RN k v) in *. rn.
  rewrite (vsum_map_div (fun i => INR (count_occ Nat.eq_dec sel i)) (INR k)).
  rewrite vsum_count_occ.
  - rewrite Hlen. apply Rinv_r. apply not_0_INR. lia.
  - apply seq_NoDup.
  - intros i Hi. apply in_seq. specialize (Hlt i Hi). lia.
Qed.

(* -- w . (J + 1 v^T) = w . J + (sum w) v -- *)
Lemma vadd_vzero_vscale0 v : vaddR (vzeroR (length v)) (vscaleR 0 v) = vzeroR (length v).
Proof.
  unfold vzero, vscale. induction v as [|x v IH]; [reflexivity|].
  cbn [length repeat map vadd]. rewrite IH. rn. f_equal. lra.
Qed.

Lemma vscale_1 v : vscaleR 1 v = v.
Proof.
  unfold vscale. induction v as [|x v IH]; [reflexivity|]. cbn [map]. rewrite IH. rn. f_equal. lra.
Qed.

Lemma vadd_translate_step x s : forall v r A, length r = length v -> length A = length v ->
  vaddR (vscaleR x (vaddR r v)) (vaddR A (vscaleR s v)) =
  vaddR (vaddR (vscaleR x r) A) (vscaleR (x + s) v).
Proof.
  unfold vscale.
  induction v as [|y v IH]; intros [|z r] [|p A] Hr HA; cbn in Hr, HA; try lia; [reflexivity|].
  cbn [vadd map]. rewrite IH by lia. rn. f_equal. lra.
Qed.

Lemma vm_translate n v : length v = n -> forall w J, wfmat n J -> length w = length J ->
  vmR n w (translate v J) = vaddR (vmR n w J) (vscaleR (vsumR w) v).
Proof.
  intros Hv. induction w as [|x w IH]; intros [|r J] HJ Hl; cbn in Hl; try lia.
  - cbn [translate map vm vsum fold_right]. rn. subst n. symmetry. apply vadd_vzero_vscale0.
  - apply Forall_cons_iff in HJ. destruct HJ as [Hr HJ].
    cbn [translate map vm]. fold (translate v J). rewrite IH by (auto; lia).
    rewrite vsum_cons. apply vadd_translate_step; [congruence|].
    rewrite length_vm by exact HJ. congruence.
Qed.

Lemma ncols_wfmat n J : J <> [] -> wfmat n J -> ncols J = n.
Proof.
  intros Hne HJ. destruct J as [|r J]; [contradiction|].
  apply Forall_cons_iff in HJ. cbn [ncols]. apply HJ.
Qed.

Lemma wfmat_translate n v J : wfmat n J -> length v = n -> wfmat n (translate v J).
Proof.
  intros HJ Hv. unfold wfmat, translate in *. rewrite Forall_forall in *. intros r Hr.
  apply in_map_iff in Hr. destruct Hr as (s & <- & Hs).
  rewrite length_vadd; [apply HJ; exact Hs | rewrite (HJ s Hs); congruence].
Qed.

Theorem agg_krum_translate : forall J v n f k, J <> [] ->
  Forall (fun r => length r = n) J -> length v = n -> (1 <= k)%nat ->
  agg_krum RN f k (translate v J) =
  match agg_krum RN f k J with Ok a => Ok (vadd RN a v) | Err e => Err e end.
Proof.
  intros J v n f k Hne HJ Hv Hk. unfold agg_krum. rewrite length_translate.
  destruct (length J <? f + 3)%nat; [reflexivity|].
  destruct (length J <? k)%nat eqn:Hkm; [reflexivity|].
  apply Nat.ltb_ge in Hkm. f_equal.
  rewrite (krum_weights_translate J v n f k HJ Hv).
  set (w := krum_weights_of_dist RN (krum_distances RN (gramR J)) f k).
  assert (HD : length (krum_distances RN (gramR J)) = length J)
    by (rewrite length_krum_distances; apply length_gram).
  assert (Hw : length w = length J) by (unfold w; rewrite length_krum_weights; exact HD).
  assert (Hs : vsumR w = 1) by (unfold w; apply krum_weights_sum; [exact Hk | rewrite HD; exact Hkm]).
  assert (Hc : ncols J = n) by (apply ncols_wfmat; assumption).
  assert (Hc' : ncols (translate v J) = n).
  { apply ncols_wfmat; [|apply wfmat_translate; assumption].
    intros E. apply Hne. destruct J; [reflexivity | discriminate E]. }
  unfold combine_rows. rewrite Hc, Hc'.
  rewrite (vm_translate n v Hv w J HJ Hw), Hs, vscale_1. reflexivity.
Qed.

Print Assumptions krum_distances_translate.
Print Assumptions krum_weights_translate.
Print Assumptions agg_krum_translate.
