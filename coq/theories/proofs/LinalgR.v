(* LinalgR.v — lemmas about the generic list linear algebra at the instance RN. *)
From Coq Require Import Reals List Bool Arith Lia Lra Psatz.
From TJ Require Import Num Linalg NumR.
Import ListNotations.
Local Open Scope R_scope.

Notation vsumR := (vsum RN).
Notation dotR := (dot RN).
Notation vscaleR := (vscale RN).
Notation vaddR := (vadd RN).
Notation vsubR := (vsub RN).
Notation vzeroR := (vzero RN).
Notation onehotR := (onehot RN).
Notation mvR := (mv RN).
Notation vmR := (vm RN).
Notation gramR := (gram RN).
Notation combineR := (combine_rows RN).

Ltac rn := cbn [nadd nsub nmul ndiv nopp n0 n1 nleb nltb nsqrt nofnat RN] in *.

(* all rows of M have length n *)
Definition wfmat (n : nat) (M : list (list R)) : Prop := Forall (fun r => length r = n) M.

Lemma vsum_cons x v : vsumR (x :: v) = x + vsumR v.
Proof. reflexivity. Qed.

Lemma vsum_app a b : vsumR (a ++ b) = vsumR a + vsumR b.
Proof. induction a as [|x a IH]; cbn [app]; rewrite ?vsum_cons; [cbn; lra | rewrite IH; lra]. Qed.

Lemma vsum_repeat x n : vsumR (repeat x n) = INR n * x.
Proof.
  induction n as [|n IH]; [cbn; lra|]. cbn [repeat]. rewrite vsum_cons, IH, S_INR. lra.
Qed.

Lemma vsum_vzero n : vsumR (vzeroR n) = 0.
Proof. unfold vzero. rewrite vsum_repeat. rn. lra. Qed.

Lemma length_vzero n : length (vzeroR n) = n.
Proof. apply repeat_length. Qed.

Lemma length_vscale c v : length (vscaleR c v) = length v.
Proof. apply map_length. Qed.

Lemma length_vadd a b : length a = length b -> length (vaddR a b) = length a.
Proof.
  revert b; induction a as [|x a IH]; intros [|y b] H; cbn in *; try lia. rewrite IH; lia.
Qed.

Lemma length_vsub a b : length a = length b -> length (vsubR a b) = length a.
Proof.
  revert b; induction a as [|x a IH]; intros [|y b] H; cbn in *; try lia. rewrite IH; lia.
Qed.

Lemma length_onehot n i x : length (onehotR n i x) = n.
Proof.
  revert i; induction n as [|n IH]; intros i; [reflexivity|].
  destruct i; cbn [onehot length]; [rewrite length_vzero | rewrite IH]; reflexivity.
Qed.

Lemma dot_nil_l b : dotR [] b = 0.
Proof. reflexivity. Qed.
Lemma dot_nil_r a : dotR a [] = 0.
Proof. destruct a; reflexivity. Qed.
Lemma dot_cons x a y b : dotR (x :: a) (y :: b) = x * y + dotR a b.
Proof. reflexivity. Qed.

Lemma dot_comm a b : dotR a b = dotR b a.
Proof.
  revert b; induction a as [|x a IH]; intros [|y b]; try reflexivity.
  rewrite !dot_cons, IH. lra.
Qed.

Lemma dot_vzero_l n b : dotR (vzeroR n) b = 0.
Proof.
  revert b; induction n as [|n IH]; intros [|y b]; try reflexivity.
  unfold vzero in *. cbn [repeat]. rewrite dot_cons, IH. rn. lra.
Qed.
Lemma dot_vzero_r n a : dotR a (vzeroR n) = 0.
Proof. rewrite dot_comm. apply dot_vzero_l. Qed.

Lemma dot_vscale_l c a b : dotR (vscaleR c a) b = c * dotR a b.
Proof.
  revert b; induction a as [|x a IH]; intros [|y b]; cbn [vscale map]; rewrite ?dot_nil_l, ?dot_nil_r;
    try lra.
  rewrite !dot_cons. fold (vscaleR c a). rewrite IH. rn. lra.
Qed.
Lemma dot_vscale_r c a b : dotR a (vscaleR c b) = c * dotR a b.
Proof. rewrite dot_comm, dot_vscale_l, dot_comm. reflexivity. Qed.

Lemma dot_vadd_l a b c : length a = length b ->
  dotR (vaddR a b) c = dotR a c + dotR b c.
Proof.
  revert b c; induction a as [|x a IH]; intros [|y b] [|z c] H; cbn in H; try lia;
    cbn [vadd]; rewrite ?dot_nil_l, ?dot_nil_r; try lra.
  rewrite !dot_cons, IH by lia. rn. lra.
Qed.
Lemma dot_vadd_r a b c : length b = length c ->
  dotR a (vaddR b c) = dotR a b + dotR a c.
Proof. intros H. rewrite dot_comm, dot_vadd_l by exact H. rewrite (dot_comm b), (dot_comm c). lra. Qed.

Lemma dot_vsub_l a b c : length a = length b ->
  dotR (vsubR a b) c = dotR a c - dotR b c.
Proof.
  revert b c; induction a as [|x a IH]; intros [|y b] [|z c] H; cbn in H; try lia;
    cbn [vsub]; rewrite ?dot_nil_l, ?dot_nil_r; try lra.
  rewrite !dot_cons, IH by lia. rn. lra.
Qed.

Lemma dot_onehot_l n i x b : length b = n -> (i < n)%nat ->
  dotR (onehotR n i x) b = x * nth i b 0.
Proof.
  revert i b; induction n as [|n IH]; intros i [|y b] Hl Hi; cbn in Hl; try lia.
  destruct i; cbn [onehot nth].
  - rewrite dot_cons, dot_vzero_l. lra.
  - rewrite dot_cons, IH by lia. rn. lra.
Qed.

Lemma dot_self_nonneg a : 0 <= dotR a a.
Proof.
  induction a as [|x a IH]; [cbn; lra|]. rewrite dot_cons. nra.
Qed.

Lemma dot_self_zero a : dotR a a = 0 -> a = vzeroR (length a).
Proof.
  induction a as [|x a IH]; intros H; [reflexivity|].
  rewrite dot_cons in H. pose proof (dot_self_nonneg a) as Hp.
  assert (x = 0) by nra. assert (dotR a a = 0) by nra.
  cbn [length]. unfold vzero in *. cbn [repeat]. rewrite <- IH by assumption. subst x. reflexivity.
Qed.

(* ---- vsum of vector operations ---- *)
Lemma vsum_vscale c v : vsumR (vscaleR c v) = c * vsumR v.
Proof.
  induction v as [|x v IH]; [cbn; lra|]. cbn [vscale map]. fold (vscaleR c v).
  rewrite !vsum_cons, IH. rn. lra.
Qed.
Lemma vsum_vadd a b : length a = length b -> vsumR (vaddR a b) = vsumR a + vsumR b.
Proof.
  revert b; induction a as [|x a IH]; intros [|y b] H; cbn in H; try lia; [cbn; lra|].
  cbn [vadd]. rewrite !vsum_cons, IH by lia. rn. lra.
Qed.
Lemma vsum_onehot n i x : (i < n)%nat -> vsumR (onehotR n i x) = x.
Proof.
  revert i; induction n as [|n IH]; intros i Hi; [lia|].
  destruct i; cbn [onehot]; rewrite vsum_cons.
  - rewrite vsum_vzero. lra.
  - rewrite IH by lia. rn. lra.
Qed.

(* ---- mv ---- *)
Lemma length_mv M x : length (mvR M x) = length M.
Proof. apply map_length. Qed.

Lemma mv_vadd M x y : length x = length y ->
  mvR M (vaddR x y) = vaddR (mvR M x) (mvR M y).
Proof.
  intros H. induction M as [|r M IH]; [reflexivity|].
  cbn [mv map vadd]. fold (mvR M (vaddR x y)) (mvR M x) (mvR M y).
  rewrite dot_vadd_r by exact H. rewrite IH. reflexivity.
Qed.
Lemma mv_vscale M c x : mvR M (vscaleR c x) = vscaleR c (mvR M x).
Proof.
  induction M as [|r M IH]; [reflexivity|].
  cbn [mv map vscale]. fold (mvR M (vscaleR c x)) (mvR M x) (vscaleR c (mvR M x)).
  rewrite dot_vscale_r, IH. reflexivity.
Qed.
Lemma mv_vsub M x y : length x = length y ->
  mvR M (vsubR x y) = vsubR (mvR M x) (mvR M y).
Proof.
  intros H. induction M as [|r M IH]; [reflexivity|].
  cbn [mv map vsub]. fold (mvR M (vsubR x y)) (mvR M x) (mvR M y).
  rewrite (dot_comm r), dot_vsub_l by exact H. rewrite IH, (dot_comm x), (dot_comm y). reflexivity.
Qed.

Lemma nth_mv M x i : (i < length M)%nat -> nth i (mvR M x) 0 = dotR (nth i M []) x.
Proof.
  intros Hi. unfold mv.
  rewrite (nth_indep _ 0 (dotR [] x)) by (rewrite map_length; exact Hi).
  apply (map_nth (fun r => dotR r x)).
Qed.

(* ---- vm : w . M ---- *)
Lemma length_vm n w M : wfmat n M -> length (vmR n w M) = n.
Proof.
  revert M; induction w as [|x w IH]; intros [|r M] H; cbn [vm]; try apply length_vzero.
  apply Forall_cons_iff in H; destruct H as [Hr HM].
  rewrite length_vadd; rewrite length_vscale; [exact Hr | rewrite IH by exact HM; exact Hr].
Qed.

(* (w . M) . x = w . (M x) *)
Lemma dot_vm n w M x : wfmat n M -> length w = length M ->
  dotR (vmR n w M) x = dotR w (mvR M x).
Proof.
  revert M; induction w as [|c w IH]; intros [|r M] H Hl; cbn in Hl; try lia.
  - cbn [vm mv map]. rewrite dot_vzero_l. reflexivity.
  - apply Forall_cons_iff in H; destruct H as [Hr HM]. cbn [vm mv map]. fold (mvR M x).
    rewrite dot_vadd_l.
    + rewrite dot_vscale_l, dot_cons, IH by (auto; lia). reflexivity.
    + rewrite length_vscale, length_vm by exact HM. exact Hr.
Qed.

Lemma vadd_vzero_vzero n : vaddR (vzeroR n) (vzeroR n) = vzeroR n.
Proof.
  unfold vzero. induction n as [|n IH]; [reflexivity|]. cbn [repeat vadd]. rewrite IH. rn.
  f_equal. lra.
Qed.
Lemma vscale_vzero c n : vscaleR c (vzeroR n) = vzeroR n.
Proof.
  unfold vzero, vscale. induction n as [|n IH]; [reflexivity|]. cbn [repeat map]. rewrite IH. rn.
  f_equal. lra.
Qed.

Lemma vadd_vscale_distr x y r : forall va vb, length va = length r -> length vb = length r ->
  vaddR (vscaleR (x + y) r) (vaddR va vb) = vaddR (vaddR (vscaleR x r) va) (vaddR (vscaleR y r) vb).
Proof.
  induction r as [|z r IHr]; intros [|p va] [|q vb] Ha Hb; cbn in Ha, Hb; try lia; [reflexivity|].
  cbn [vscale map vadd]. fold (vscaleR (x + y) r) (vscaleR x r) (vscaleR y r).
  rewrite IHr by lia. rn. f_equal. lra.
Qed.

Lemma vscale_vadd_distr c x r : forall va, length va = length r ->
  vaddR (vscaleR (c * x) r) (vscaleR c va) = vscaleR c (vaddR (vscaleR x r) va).
Proof.
  induction r as [|z r IHr]; intros [|p va] Ha; cbn in Ha; try lia; [reflexivity|].
  cbn [vscale map vadd]. fold (vscaleR (c * x) r) (vscaleR x r) (vscaleR c va).
  fold (vscaleR c (vaddR (vscaleR x r) va)).
  rewrite IHr by lia. rn. f_equal. lra.
Qed.

Lemma vm_vadd n a b M : wfmat n M -> length a = length b ->
  vmR n (vaddR a b) M = vaddR (vmR n a M) (vmR n b M).
Proof.
  revert b M; induction a as [|x a IH]; intros [|y b] M H Hl; cbn in Hl; try lia.
  - cbn [vadd vm]. symmetry. apply vadd_vzero_vzero.
  - destruct M as [|r M].
    + cbn [vadd vm]. symmetry. apply vadd_vzero_vzero.
    + apply Forall_cons_iff in H; destruct H as [Hr HM]. subst n. cbn [vadd vm].
      rewrite IH by (auto; lia). rn.
      apply vadd_vscale_distr; apply length_vm; exact HM.
Qed.

Lemma vm_vscale n c a M : wfmat n M ->
  vmR n (vscaleR c a) M = vscaleR c (vmR n a M).
Proof.
  revert M; induction a as [|x a IH]; intros M H.
  - cbn [vscale map vm]. symmetry. apply vscale_vzero.
  - destruct M as [|r M].
    + cbn [vscale map vm]. symmetry. apply vscale_vzero.
    + apply Forall_cons_iff in H; destruct H as [Hr HM]. subst n. cbn [vscale map vm].
      fold (vscaleR c a). rewrite IH by exact HM. rn.
      apply vscale_vadd_distr. apply length_vm; exact HM.
Qed.

(* ---- Gramian ---- *)
Lemma length_gram J : length (gramR J) = length J.
Proof. apply map_length. Qed.

Lemma wfmat_gram J : wfmat (length J) (gramR J).
Proof.
  unfold wfmat, gram. apply Forall_forall. intros r Hr. apply in_map_iff in Hr.
  destruct Hr as (g & <- & _). apply map_length.
Qed.

(* G w = J (w . J) *)
Lemma mv_gram n J w : wfmat n J -> length w = length J ->
  mvR (gramR J) w = mvR J (vmR n w J).
Proof.
  intros H Hl. unfold gram. unfold mv at 1. rewrite map_map. unfold mv at 1.
  apply map_ext_in. intros r Hr.
  replace (map (fun s => dotR r s) J) with (mvR J r)
    by (unfold mv; apply map_ext; intros; apply dot_comm).
  rewrite (dot_comm r (vmR n w J)), dot_vm by assumption. apply dot_comm.
Qed.

(* w^T G w = |w . J|^2 *)
Lemma quad_gram n J w : wfmat n J -> length w = length J ->
  dotR w (mvR (gramR J) w) = dotR (vmR n w J) (vmR n w J).
Proof.
  intros H Hl. rewrite (mv_gram n) by assumption. rewrite <- (dot_vm n) by assumption. reflexivity.
Qed.

Lemma quad_gram_nonneg n J w : wfmat n J -> length w = length J ->
  0 <= dotR w (mvR (gramR J) w).
Proof. intros H Hl. rewrite (quad_gram n) by assumption. apply dot_self_nonneg. Qed.

(* x^T G y = (x . J) . (y . J) *)
Lemma bil_gram n J x y : wfmat n J -> length x = length J -> length y = length J ->
  dotR x (mvR (gramR J) y) = dotR (vmR n x J) (vmR n y J).
Proof.
  intros H Hx Hy. rewrite (mv_gram n) by assumption. rewrite <- (dot_vm n) by assumption.
  reflexivity.
Qed.

Lemma bil_gram_sym n J x y : wfmat n J -> length x = length J -> length y = length J ->
  dotR x (mvR (gramR J) y) = dotR y (mvR (gramR J) x).
Proof. intros. rewrite !(bil_gram n) by assumption. apply dot_comm. Qed.
