(* MgdaProofs.v — MGDA (Frank-Wolfe on the Gramian): the quadratic form never increases,
   the output is never longer than the mean row, and the conflict with any row is bounded by the
   sub-optimality gap (allowance clause of C04). *)
From Coq Require Import Reals List Bool Arith Lia Lra Psatz.
From TJ Require Import Num Linalg NumR Agg.
From TJ.proofs Require Import LinalgR QPProofs C18Proofs.
Import ListNotations.
Local Open Scope R_scope.

(* ---------- argmin returns the index of a minimal entry ---------- *)
Lemma argmin_from_spec : forall v best bi i,
  (argmin_from RN best bi i v = bi /\ Forall (Rle best) v) \/
  ((i <= argmin_from RN best bi i v)%nat /\
   nth (argmin_from RN best bi i v - i) v 0 <= best /\
   Forall (Rle (nth (argmin_from RN best bi i v - i) v 0)) v).
Proof.
  induction v as [|x v IH]; intros best bi i; cbn [argmin_from].
  - left. split; [reflexivity | constructor].
  - rn. destruct (Rltb x best) eqn:E.
    + apply Rltb_true in E.
      destruct (IH x i (S i)) as [[Hr Hall] | (Hr & Hle & Hall)].
      * right. rewrite Hr. replace (i - i)%nat with 0%nat by lia. cbn [nth].
        split; [lia|]. split; [lra|]. constructor; [lra | exact Hall].
      * right. set (r := argmin_from RN x i (S i) v) in *.
        replace (r - i)%nat with (S (r - S i)) by lia. cbn [nth].
        split; [lia|]. split; [lra|]. constructor; [lra | exact Hall].
    + apply Rltb_false in E.
      destruct (IH best bi (S i)) as [[Hr Hall] | (Hr & Hle & Hall)].
      * left. split; [exact Hr|]. constructor; [exact E | exact Hall].
      * right. set (r := argmin_from RN best bi (S i) v) in *.
        replace (r - i)%nat with (S (r - S i)) by lia. cbn [nth].
        split; [lia|]. split; [lra|]. constructor; [lra | exact Hall].
Qed.

Lemma argmin_min v : Forall (Rle (nth (argmin RN v) v 0)) v.
Proof.
  destruct v as [|x v]; [constructor|]. unfold argmin.
  destruct (argmin_from_spec v x 0%nat 1%nat) as [[Hr Hall] | (Hr & Hle & Hall)].
  - rewrite Hr. cbn [nth]. constructor; [lra | exact Hall].
  - set (r := argmin_from RN x 0 1 v) in *.
    replace r with (S (r - 1)) by lia. cbn [nth].
    replace (S (r - 1) - 1)%nat with (r - 1)%nat in * by lia.
    constructor; [lra | exact Hall].
Qed.

(* a weighted sum with non-negative weights is at least (lower bound) * (sum of the weights) *)
Lemma dot_lower_bound : forall alpha v mn, nonneg alpha -> length alpha = length v ->
  Forall (Rle mn) v -> mn * vsumR alpha <= dotR alpha v.
Proof.
  induction alpha as [|x alpha IH]; intros [|y v] mn Hn Hl Hall; cbn in Hl; try lia.
  - cbn. lra.
  - rewrite vsum_cons, dot_cons.
    apply Forall_cons_iff in Hn. destruct Hn as [Hx Hn].
    apply Forall_cons_iff in Hall. destruct Hall as [Hy Hall].
    specialize (IH v mn Hn ltac:(lia) Hall).
    pose proof (Rmult_le_compat_l x mn y Hx Hy) as Hxy. lra.
Qed.

Lemma simplex_nonempty m a : simplex m a -> (1 <= m)%nat.
Proof.
  intros (Hl & _ & Hs). destruct a as [|x a]; [cbn in Hs; lra | cbn in Hl; lia].
Qed.

(* ---------- the exact line search of Frank-Wolfe never increases the quadratic ---------- *)
Lemma fw_step_real a b c : a <= b ->
  let gamma := if Rleb c a then 1 else if Rleb b a then 0 else (b - a) / (b + c - 2 * a) in
  (1 - gamma) * (1 - gamma) * b + 2 * (gamma * (1 - gamma)) * a + gamma * gamma * c <= b.
Proof.
  intros Hab. cbv zeta. destruct (Rleb c a) eqn:E1.
  - apply Rleb_true in E1. lra.
  - apply Rleb_false in E1. destruct (Rleb b a) eqn:E2.
    + lra.
    + apply Rleb_false in E2.
      set (D := b + c - 2 * a). assert (HD : 0 < D) by (unfold D; lra).
      set (g := (b - a) / D).
      assert (HgD : g * D = b - a) by (unfold g; field; lra).
      assert (Hg : 0 < g) by (unfold g; apply Rdiv_lt_0_compat; lra).
      replace ((1 - g) * (1 - g) * b + 2 * (g * (1 - g)) * a + g * g * c)
        with (b - 2 * (g * (b - a)) + g * (g * D)) by (unfold D; ring).
      rewrite HgD.
      pose proof (Rmult_lt_0_compat g (b - a) Hg ltac:(lra)) as Hp. lra.
Qed.

(* G1 *)
Theorem mgda_step_decreases n J alpha : wfmat n J -> simplex (length J) alpha ->
  quadform RN (gramR J) (fst (mgda_step RN (gramR J) alpha)) <= quadform RN (gramR J) alpha.
Proof.
  intros HJ Hsx. pose proof (simplex_nonempty _ _ Hsx) as Hm. destruct Hsx as (Hl & Hn & Hs).
  unfold mgda_step, quadform. cbv zeta. cbn [fst]. rn.
  set (G := gramR J). set (m := length J) in *.
  set (Ga := mvR G alpha). set (t := argmin RN Ga).
  assert (HlGa : length Ga = m) by (unfold Ga, G; rewrite length_mv, length_gram; reflexivity).
  assert (Ht : (t < m)%nat).
  { unfold t. rewrite <- HlGa. apply argmin_lt. intros E. rewrite E in HlGa. cbn in HlGa. lia. }
  rewrite Hl. set (e_t := onehotR m t 1).
  assert (Hle : length e_t = m) by apply length_onehot.
  set (a := dotR alpha (mvR G e_t)). set (b := dotR alpha Ga). set (c := dotR e_t (mvR G e_t)).
  assert (Hsym : dotR e_t Ga = a).
  { unfold a, Ga, G. apply (bil_gram_sym n); [exact HJ | exact Hle | exact Hl]. }
  assert (Hab : a <= b).
  { rewrite <- Hsym. unfold e_t. rewrite dot_onehot_l by assumption.
    pose proof (dot_lower_bound alpha Ga (nth t Ga 0) Hn ltac:(congruence) (argmin_min Ga)) as Hlb.
    rewrite Hs in Hlb. fold b in Hlb. lra. }
  replace (INR 2) with 2 by (cbn; lra).
  pose proof (fw_step_real a b c Hab) as Hfw. cbv zeta in Hfw.
  set (gamma := if Rleb c a then 1 else if Rleb b a then 0 else (b - a) / (b + c - 2 * a)) in *.
  rewrite mv_vadd by (rewrite !length_vscale; congruence).
  rewrite !mv_vscale. fold Ga.
  rewrite dot_vadd_l by (rewrite !length_vscale; congruence).
  assert (HlGe : length (mvR G e_t) = m) by (unfold G; rewrite length_mv, length_gram; reflexivity).
  rewrite !dot_vadd_r by (rewrite !length_vscale; congruence).
  rewrite !dot_vscale_l, !dot_vscale_r. fold a. fold b. fold c. rewrite Hsym.
  apply Rle_trans with (2 := Hfw). apply Req_le. ring.
Qed.

(* G2 *)
Theorem mgda_loop_decreases n J eps iters : wfmat n J -> forall alpha,
  simplex (length J) alpha ->
  quadform RN (gramR J) (mgda_loop RN iters (gramR J) eps alpha) <= quadform RN (gramR J) alpha.
Proof.
  intros HJ. induction iters as [|k IH]; intros alpha Ha; [cbn [mgda_loop]; lra|].
  cbn [mgda_loop].
  pose proof (simplex_nonempty _ _ Ha) as Hm.
  pose proof (mgda_step_simplex (length J) (gramR J) alpha Hm (length_gram J) Ha) as Hstep.
  pose proof (mgda_step_decreases n J alpha HJ Ha) as Hdec.
  destruct (mgda_step RN (gramR J) alpha) as [alpha' gamma]. cbn [fst] in Hstep, Hdec.
  destruct (nltb RN gamma eps); [exact Hdec|].
  apply Rle_trans with (2 := Hdec). apply IH. exact Hstep.
Qed.

Lemma vm_nil n w : vmR n w [] = vzeroR n.
Proof. destruct w; reflexivity. Qed.

Theorem mgda_not_longer_than_mean n J eps iters : wfmat n J ->
  dotR (agg_mgda RN eps iters J) (agg_mgda RN eps iters J) <=
  dotR (agg_mean RN J) (agg_mean RN J).
Proof.
  intros HJ. destruct J as [|r J'].
  - unfold agg_mgda, agg_mean, combine_rows. rewrite !vm_nil. cbn. lra.
  - set (J := r :: J') in *.
    assert (Hne : J <> []) by (unfold J; congruence).
    assert (Hm : (1 <= length J)%nat) by (unfold J; cbn [length]; lia).
    pose proof (simplex_mean (length J) Hm) as Hmean.
    unfold agg_mgda, agg_mean, combine_rows, mgda_weights.
    rewrite (C03Proofs.ncols_wf n) by assumption. rewrite length_gram.
    pose proof (mgda_loop_simplex (length J) (gramR J) eps iters _ Hm (length_gram J) Hmean)
      as Hloop.
    pose proof (proj1 Hloop) as Hll. pose proof (proj1 Hmean) as Hlm.
    rewrite <- !(quad_gram n) by first [exact HJ | exact Hll | exact Hlm].
    apply (mgda_loop_decreases n J eps iters HJ _ Hmean).
Qed.

(* ---------- G3: conflict bounded by the sub-optimality gap ---------- *)
Lemma simplex_onehot m i : (i < m)%nat -> simplex m (onehotR m i 1).
Proof.
  intros Hi. split; [apply length_onehot|]. split.
  - apply C03Proofs.nonneg_onehot. lra.
  - apply vsum_onehot. exact Hi.
Qed.

Lemma simplex_convex m t u w : 0 <= t <= 1 -> simplex m u -> simplex m w ->
  simplex m (vaddR (vscaleR (1 - t) u) (vscaleR t w)).
Proof.
  intros Ht (Hlu & Hnu & Hsu) (Hlw & Hnw & Hsw). split; [|split].
  - rewrite length_vadd; rewrite !length_vscale; congruence.
  - apply nonneg_vadd; apply nonneg_vscale; try lra; assumption.
  - rewrite vsum_vadd by (rewrite !length_vscale; congruence).
    rewrite !vsum_vscale, Hsu, Hsw. lra.
Qed.

(* p = |x*|^2, q = <x*, y>, r = |y|^2: if x* is at least as short as every point of the segment
   [x*, y], then <x*, y - x*> >= 0 *)
Lemma variational_real p q r :
  (forall t, 0 <= t <= 1 ->
     p <= (1 - t) * (1 - t) * p + 2 * (t * (1 - t)) * q + t * t * r) -> p <= q.
Proof.
  intros H. destruct (Rle_dec p q) as [Hpq|Hpq]; [exact Hpq|]. exfalso.
  apply Rnot_le_lt in Hpq. set (D := p + r - 2 * q).
  destruct (Rle_dec D (p - q)) as [HD|HD].
  - specialize (H 1 ltac:(lra)). unfold D in HD. lra.
  - apply Rnot_le_lt in HD. assert (HD0 : 0 < D) by lra.
    set (t := (p - q) / D).
    assert (HtD : t * D = p - q) by (unfold t; field; lra).
    assert (Ht0 : 0 < t) by (unfold t; apply Rdiv_lt_0_compat; lra).
    assert (Ht1 : t < 1) by (apply (Rmult_lt_reg_r D); lra).
    specialize (H t ltac:(lra)).
    replace ((1 - t) * (1 - t) * p + 2 * (t * (1 - t)) * q + t * t * r)
      with (p - 2 * (t * (p - q)) + t * (t * D)) in H by (unfold D; ring).
    rewrite HtD in H.
    pose proof (Rmult_lt_0_compat t (p - q) Ht0 ltac:(lra)) as Hp. lra.
Qed.

Definition hull_min (n : nat) (J : list (list R)) (wstar : list R) : Prop :=
  simplex (length J) wstar /\
  forall w, simplex (length J) w ->
    dotR (vmR n wstar J) (vmR n wstar J) <= dotR (vmR n w J) (vmR n w J).

(* variational inequality at a minimum-norm point of the convex hull of the rows *)
Lemma hull_variational n J wstar w : wfmat n J -> hull_min n J wstar -> simplex (length J) w ->
  dotR (vmR n wstar J) (vmR n wstar J) <= dotR (vmR n wstar J) (vmR n w J).
Proof.
  intros HJ [Hst Hmin] Hw.
  set (xs := vmR n wstar J). set (y := vmR n w J).
  assert (Hlxs : length xs = n) by (apply length_vm; exact HJ).
  assert (Hly : length y = n) by (apply length_vm; exact HJ).
  apply (variational_real _ _ (dotR y y)). intros t Ht.
  pose proof (Hmin _ (simplex_convex _ t wstar w Ht Hst Hw)) as Hm.
  destruct Hst as (Hls & _). destruct Hw as (Hlw & _).
  rewrite vm_vadd in Hm by (try exact HJ; rewrite !length_vscale; congruence).
  rewrite !vm_vscale in Hm by exact HJ. fold xs in Hm. fold y in Hm.
  rewrite dot_vadd_l in Hm by (rewrite !length_vscale; congruence).
  rewrite !dot_vadd_r in Hm by (rewrite !length_vscale; congruence).
  rewrite !dot_vscale_l, !dot_vscale_r in Hm. rewrite (dot_comm y xs) in Hm.
  apply Rle_trans with (1 := Hm). apply Req_le. ring.
Qed.

(* Cauchy-Schwarz *)
Lemma discr_real A B d : 0 <= A -> (forall t, 0 <= A * (t * t) + 2 * d * t + B) ->
  d * d <= A * B.
Proof.
  intros HA H. destruct (Req_dec A 0) as [E|E].
  - assert (Hd : d = 0).
    { destruct (Req_dec d 0) as [Hd|Hd]; [exact Hd|]. exfalso.
      set (t := - (B + 1) / (2 * d)).
      assert (Ht : 2 * d * t = - (B + 1)) by (unfold t; field; exact Hd).
      specialize (H t). rewrite E, Ht in H. lra. }
    rewrite E, Hd. lra.
  - assert (HA0 : 0 < A) by lra.
    set (t := - d / A).
    assert (Hk : A * (A * (t * t) + 2 * d * t + B) = A * B - d * d) by (unfold t; field; lra).
    pose proof (Rmult_le_pos A _ HA (H t)) as Hp. rewrite Hk in Hp. lra.
Qed.

Lemma cauchy_schwarz a b : length a = length b ->
  dotR a b * dotR a b <= dotR a a * dotR b b.
Proof.
  intros Hl. apply discr_real; [apply dot_self_nonneg|]. intros t.
  pose proof (dot_self_nonneg (vaddR (vscaleR t a) b)) as H.
  rewrite dot_vadd_l in H by (rewrite length_vscale; exact Hl).
  rewrite !dot_vadd_r in H by (rewrite length_vscale; exact Hl).
  rewrite !dot_vscale_l, !dot_vscale_r in H. rewrite (dot_comm b a) in H.
  apply Rle_trans with (1 := H). apply Req_le. ring.
Qed.

Lemma dot_vsub_r a b c : length b = length c -> dotR a (vsubR b c) = dotR a b - dotR a c.
Proof.
  intros H. rewrite dot_comm, dot_vsub_l by exact H. rewrite (dot_comm b), (dot_comm c). reflexivity.
Qed.

Lemma sq_bound_lower u v : 0 <= v -> u * u <= v * v -> - v <= u.
Proof.
  intros Hv H. destruct (Rle_dec (- v) u) as [Hle|Hle]; [exact Hle|]. exfalso.
  apply Rnot_le_lt in Hle.
  assert (H1 : v * v < (- u) * (- u)).
  { apply Rle_lt_trans with (v * - u).
    - apply Rmult_le_compat_l; lra.
    - apply Rmult_lt_compat_r; lra. }
  lra.
Qed.

(* any point x = alpha . J of the hull: <g_i, x> >= - s * sqrt(|x|^2 - |x*|^2) *)
Theorem hull_allowance n J alpha wstar s i : wfmat n J ->
  simplex (length J) alpha -> hull_min n J wstar ->
  0 <= s -> (forall g, In g J -> dotR g g <= s * s) -> (i < length J)%nat ->
  let x := vmR n alpha J in
  let xstar := vmR n wstar J in
  - s * sqrt (dotR x x - dotR xstar xstar) <= dotR (nth i J []) x.
Proof.
  intros HJ Ha Hmin Hs Hbound Hi x xs.
  set (g := nth i J []).
  assert (Hin : In g J) by (apply nth_In; exact Hi).
  assert (Hlg : length g = n).
  { unfold wfmat in HJ. rewrite Forall_forall in HJ. apply HJ. exact Hin. }
  assert (Hlx : length x = n) by (apply length_vm; exact HJ).
  assert (Hlxs : length xs = n) by (apply length_vm; exact HJ).
  set (p := dotR xs xs).
  assert (H1 : p <= dotR xs x) by (apply hull_variational; assumption).
  assert (H2 : p <= dotR xs g).
  { unfold g. rewrite <- (vm_onehot n J HJ i Hi).
    apply hull_variational; [exact HJ | exact Hmin | apply simplex_onehot; exact Hi]. }
  assert (Hp : 0 <= p) by apply dot_self_nonneg.
  set (z := vsubR x xs).
  assert (Hlz : length z = n) by (unfold z; rewrite length_vsub; congruence).
  assert (Hzz : dotR z z = dotR x x - 2 * dotR xs x + p).
  { unfold z at 1. rewrite dot_vsub_l by congruence. unfold z.
    rewrite !dot_vsub_r by congruence. rewrite (dot_comm x xs). fold p. ring. }
  assert (Hgz : dotR g z = dotR g x - dotR g xs) by (unfold z; apply dot_vsub_r; congruence).
  pose proof (cauchy_schwarz g z ltac:(congruence)) as Hcs.
  pose proof (dot_self_nonneg z) as Hz0. pose proof (dot_self_nonneg g) as Hg0.
  set (gap := dotR x x - p).
  assert (Hzgap : dotR z z <= gap) by (unfold gap; lra).
  assert (Hgap0 : 0 <= gap) by lra.
  set (rt := sqrt gap).
  assert (Hrt0 : 0 <= rt) by apply sqrt_pos.
  assert (Hrt2 : rt * rt = gap) by (apply sqrt_sqrt; exact Hgap0).
  assert (Hsq : dotR g z * dotR g z <= (s * rt) * (s * rt)).
  { apply Rle_trans with (1 := Hcs).
    replace (s * rt * (s * rt)) with ((s * s) * gap) by (rewrite <- Hrt2; ring).
    apply Rmult_le_compat; try assumption. apply Hbound. exact Hin. }
  pose proof (sq_bound_lower _ _ (Rmult_le_pos _ _ Hs Hrt0) Hsq) as Hlow.
  fold p. fold gap. fold rt. fold g.
  rewrite (dot_comm xs g) in H2. lra.
Qed.

(* G3: C04's clause for MGDA *)
Theorem mgda_allowance n J eps iters wstar s i : wfmat n J -> hull_min n J wstar ->
  0 <= s -> (forall g, In g J -> dotR g g <= s * s) -> (i < length J)%nat ->
  let x := agg_mgda RN eps iters J in
  let xstar := vmR n wstar J in
  - s * sqrt (dotR x x - dotR xstar xstar) <= dotR (nth i J []) x.
Proof.
  intros HJ Hmin Hs Hbound Hi. cbv zeta.
  assert (Hne : J <> []) by (intros E; rewrite E in Hi; cbn in Hi; lia).
  unfold agg_mgda, combine_rows. rewrite (C03Proofs.ncols_wf n) by assumption.
  pose proof (mgda_weights_simplex (gramR J) eps iters) as Hsx. rewrite length_gram in Hsx.
  apply (hull_allowance n J _ wstar s i); try assumption. apply Hsx. lia.
Qed.

(* the same, in the form used by C04 for the other aggregators: entry i of J . A(J) *)
Corollary mgda_allowance_mv n J eps iters wstar s i : wfmat n J -> hull_min n J wstar ->
  0 <= s -> (forall g, In g J -> dotR g g <= s * s) -> (i < length J)%nat ->
  let x := agg_mgda RN eps iters J in
  let xstar := vmR n wstar J in
  - s * sqrt (dotR x x - dotR xstar xstar) <= nth i (mvR J x) 0.
Proof.
  intros HJ Hmin Hs Hbound Hi. cbv zeta. rewrite nth_mv by exact Hi.
  apply (mgda_allowance n J eps iters wstar s i); assumption.
Qed.

(* the minimum-norm point itself conflicts with no row *)
Corollary hull_min_nonconflicting n J wstar i : wfmat n J -> hull_min n J wstar ->
  (i < length J)%nat ->
  dotR (vmR n wstar J) (vmR n wstar J) <= dotR (nth i J []) (vmR n wstar J).
Proof.
  intros HJ Hmin Hi. rewrite (dot_comm (nth i J [])). rewrite <- (vm_onehot n J HJ i Hi).
  apply hull_variational; [exact HJ | exact Hmin | apply simplex_onehot; exact Hi].
Qed.

Print Assumptions mgda_step_decreases.
Print Assumptions mgda_loop_decreases.
Print Assumptions mgda_not_longer_than_mean.
Print Assumptions hull_variational.
Print Assumptions cauchy_schwarz.
Print Assumptions hull_allowance.
Print Assumptions mgda_allowance.
Print Assumptions mgda_allowance_mv.
Print Assumptions hull_min_nonconflicting.
