(* MgdaRateProofs.v — O(1/K) convergence rate of the Frank-Wolfe loop that models MGDA:
   |A(J)|^2 - |x*|^2 <= 8 s^2 / (K + 2), where x* is the minimum-norm point of the convex hull of
   the rows of J, s bounds the largest singular value of J and K = max_iters (epsilon = 0). *)
From Coq Require Import Reals List Bool Arith Lia Lra Psatz.
From TJ Require Import Num Linalg NumR Agg.
From TJ.proofs Require Import LinalgR QPProofs C03Proofs C18Proofs MgdaProofs.
Import ListNotations.
Local Open Scope R_scope.

(* ---------- 1. the clipped exact line search is optimal on [0,1] ---------- *)
Lemma fw_step_opt a b c t : a <= b -> 0 <= t <= 1 ->
  let gamma := if Rleb c a then 1 else if Rleb b a then 0 else (b - a) / (b + c - 2 * a) in
  (1 - gamma) * (1 - gamma) * b + 2 * (gamma * (1 - gamma)) * a + gamma * gamma * c <=
  (1 - t) * (1 - t) * b + 2 * (t * (1 - t)) * a + t * t * c.
Proof.
  intros Hab Ht. cbv zeta. destruct (Rleb c a) eqn:E1.
  - apply Rleb_true in E1.
    assert (H1 : 0 <= (1 - t) * (1 - t)) by (apply Rmult_le_pos; lra).
    assert (H2 : 0 <= t * (1 - t)) by (apply Rmult_le_pos; lra).
    pose proof (Rmult_le_pos _ (b - c) H1 ltac:(lra)) as P1.
    pose proof (Rmult_le_pos _ (a - c) H2 ltac:(lra)) as P2.
    replace ((1 - t) * (1 - t) * b + 2 * (t * (1 - t)) * a + t * t * c)
      with (c + (1 - t) * (1 - t) * (b - c) + 2 * (t * (1 - t) * (a - c))) by ring.
    lra.
  - apply Rleb_false in E1. destruct (Rleb b a) eqn:E2.
    + apply Rleb_true in E2.
      assert (Hba : a = b) by lra. subst a.
      assert (H1 : 0 <= t * t) by (apply Rmult_le_pos; lra).
      pose proof (Rmult_le_pos _ (c - b) H1 ltac:(lra)) as P1.
      replace ((1 - t) * (1 - t) * b + 2 * (t * (1 - t)) * b + t * t * c)
        with (b + t * t * (c - b)) by ring.
      lra.
    + apply Rleb_false in E2.
      set (D := b + c - 2 * a). assert (HD : 0 < D) by (unfold D; lra).
      set (g := (b - a) / D).
      assert (HgD : g * D = b - a) by (unfold g; field; lra).
      replace ((1 - g) * (1 - g) * b + 2 * (g * (1 - g)) * a + g * g * c)
        with (b - 2 * (g * (b - a)) + g * (g * D)) by (unfold D; ring).
      replace ((1 - t) * (1 - t) * b + 2 * (t * (1 - t)) * a + t * t * c)
        with (b - 2 * (t * (b - a)) + t * t * D) by (unfold D; ring).
      rewrite HgD.
      assert (Hsq : 0 <= D * ((t - g) * (t - g))).
      { apply Rmult_le_pos; [lra|]. apply Rle_0_sqr. }
      replace (D * ((t - g) * (t - g)))
        with (t * t * D - 2 * (t * (g * D)) + g * (g * D)) in Hsq by ring.
      rewrite HgD in Hsq. lra.
Qed.

(* ---------- simplex geometry ---------- *)
Lemma vsum_nonneg a : nonneg a -> 0 <= vsumR a.
Proof.
  induction 1 as [|x a Hx Ha IH]; [cbn; lra|]. rewrite vsum_cons. lra.
Qed.

Lemma dot_self_le_vsum_sq a : nonneg a -> dotR a a <= vsumR a * vsumR a.
Proof.
  induction 1 as [|x a Hx Ha IH]; [cbn; lra|]. rewrite vsum_cons, dot_cons.
  pose proof (vsum_nonneg a Ha) as HS.
  pose proof (Rmult_le_pos _ _ Hx HS) as P.
  replace ((x + vsumR a) * (x + vsumR a))
    with (x * x + 2 * (x * vsumR a) + vsumR a * vsumR a) by ring.
  lra.
Qed.

Lemma simplex_dot_self_le1 m a : simplex m a -> dotR a a <= 1.
Proof.
  intros (_ & Hn & Hs). pose proof (dot_self_le_vsum_sq a Hn) as H. rewrite Hs in H. lra.
Qed.

(* |u - w|^2 <= 2 for two points of the simplex *)
Lemma simplex_diff_sq m u w : simplex m u -> simplex m w ->
  dotR u u - 2 * dotR u w + dotR w w <= 2.
Proof.
  intros Hu Hw. pose proof (simplex_dot_self_le1 _ _ Hu) as H1.
  pose proof (simplex_dot_self_le1 _ _ Hw) as H2.
  destruct Hu as (_ & Hnu & _). destruct Hw as (_ & Hnw & _).
  pose proof (dot_nonneg u w Hnu Hnw) as H3. lra.
Qed.

(* ---------- the step size is non-negative, so epsilon = 0 never stops the loop ---------- *)
Lemma mgda_step_gamma_nonneg G alpha : 0 <= snd (mgda_step RN G alpha).
Proof.
  unfold mgda_step. cbv zeta. cbn [snd].
  exact (proj1 (mgda_gamma_range _ _ _)).
Qed.

(* ---------- 2-4. one Frank-Wolfe step: h' <= (1 - t) h + 2 s^2 t^2 for every t in [0,1] ------ *)
Lemma mgda_step_progress n J wstar s alpha t : wfmat n J -> hull_min n J wstar ->
  (forall v, length v = length J -> dotR (vmR n v J) (vmR n v J) <= s * s * dotR v v) ->
  simplex (length J) alpha -> 0 <= t <= 1 ->
  quadform RN (gramR J) (fst (mgda_step RN (gramR J) alpha))
    - dotR (vmR n wstar J) (vmR n wstar J) <=
  (1 - t) * (quadform RN (gramR J) alpha - dotR (vmR n wstar J) (vmR n wstar J))
    + 2 * (s * s) * (t * t).
Proof.
  intros HJ [Hst _] Hsing Hsx Htr.
  pose proof (simplex_nonempty _ _ Hsx) as Hm. pose proof Hsx as Hsx0.
  destruct Hsx as (Hl & Hn & Hs).
  set (fstar := dotR (vmR n wstar J) (vmR n wstar J)).
  unfold mgda_step, quadform. cbv zeta. cbn [fst]. rn.
  set (G := gramR J). set (m := length J) in *.
  set (Ga := mvR G alpha). set (t0 := argmin RN Ga).
  assert (HlGa : length Ga = m) by (unfold Ga, G; rewrite length_mv, length_gram; reflexivity).
  assert (Ht : (t0 < m)%nat).
  { unfold t0. rewrite <- HlGa. apply argmin_lt. intros E. rewrite E in HlGa. cbn in HlGa. lia. }
  rewrite Hl. set (e_t := onehotR m t0 1).
  assert (Hle : length e_t = m) by apply length_onehot.
  assert (Hse : simplex m e_t) by (apply simplex_onehot; exact Ht).
  set (a := dotR alpha (mvR G e_t)). set (b := dotR alpha Ga). set (c := dotR e_t (mvR G e_t)).
  assert (Hsym : dotR e_t Ga = a).
  { unfold a, Ga, G. apply (bil_gram_sym n); [exact HJ | exact Hle | exact Hl]. }
  assert (Hab : a <= b).
  { rewrite <- Hsym. unfold e_t. rewrite dot_onehot_l by assumption.
    pose proof (dot_lower_bound alpha Ga (nth t0 Ga 0) Hn ltac:(congruence) (argmin_min Ga)) as Hlb.
    rewrite Hs in Hlb. fold b in Hlb. lra. }
  (* vectors in R^n *)
  set (x := vmR n alpha J). set (y := vmR n e_t J). set (xs := vmR n wstar J).
  assert (Hlx : length x = n) by (apply length_vm; exact HJ).
  assert (Hly : length y = n) by (apply length_vm; exact HJ).
  assert (Hlxs : length xs = n) by (apply length_vm; exact HJ).
  assert (Hb : b = dotR x x) by (unfold b, Ga, G, x; apply (quad_gram n); assumption).
  assert (Hc : c = dotR y y) by (unfold c, G, y; apply (quad_gram n); assumption).
  assert (Ha : a = dotR x y) by (unfold a, G, x, y; apply (bil_gram n); assumption).
  (* duality gap *)
  assert (Hgap : 2 * a <= fstar + b).
  { destruct Hst as (Hlw & Hnw & Hsw).
    assert (H1 : a <= dotR wstar Ga).
    { rewrite <- Hsym. unfold e_t. rewrite dot_onehot_l by assumption.
      pose proof (dot_lower_bound wstar Ga (nth t0 Ga 0) Hnw ltac:(congruence) (argmin_min Ga))
        as Hlb. rewrite Hsw in Hlb. lra. }
    assert (H2 : dotR wstar Ga = dotR xs x).
    { unfold Ga, G, xs, x. apply (bil_gram n); assumption. }
    pose proof (dot_self_nonneg (vsubR xs x)) as H3.
    rewrite dot_vsub_l in H3 by congruence.
    rewrite !dot_vsub_r in H3 by congruence.
    rewrite (dot_comm x xs) in H3. change (dotR xs xs) with fstar in H3. rewrite <- Hb in H3. lra. }
  (* curvature *)
  assert (HD : b + c - 2 * a <= 2 * (s * s)).
  { set (v := vaddR alpha (vscaleR (-1) e_t)).
    assert (Hlv : length v = m) by (unfold v; rewrite length_vadd; rewrite ?length_vscale; congruence).
    pose proof (Hsing v Hlv) as H1.
    assert (H2 : dotR (vmR n v J) (vmR n v J) = b + c - 2 * a).
    { unfold v. rewrite vm_vadd by (try exact HJ; rewrite length_vscale; congruence).
      rewrite vm_vscale by exact HJ. fold x. fold y.
      rewrite dot_vadd_l by (rewrite length_vscale; congruence).
      rewrite !dot_vadd_r by (rewrite length_vscale; congruence).
      rewrite !dot_vscale_l, !dot_vscale_r. rewrite (dot_comm y x).
      rewrite Hb, Hc, Ha. ring. }
    assert (H3 : dotR v v <= 2).
    { unfold v. rewrite dot_vadd_l by (rewrite length_vscale; congruence).
      rewrite !dot_vadd_r by (rewrite length_vscale; congruence).
      rewrite !dot_vscale_l, !dot_vscale_r. rewrite (dot_comm e_t alpha).
      pose proof (simplex_diff_sq m alpha e_t Hsx0 Hse) as H4. lra. }
    rewrite H2 in H1.
    pose proof (Rmult_le_compat_l (s * s) _ _ (Rle_0_sqr s) H3) as H5. unfold Rsqr in H5. lra. }
  replace (INR 2) with 2 by (cbn; lra).
  pose proof (fw_step_opt a b c t Hab Htr) as Hfw. cbv zeta in Hfw.
  set (gamma := if Rleb c a then 1 else if Rleb b a then 0 else (b - a) / (b + c - 2 * a)) in *.
  rewrite mv_vadd by (rewrite !length_vscale; congruence).
  rewrite !mv_vscale. fold Ga.
  rewrite dot_vadd_l by (rewrite !length_vscale; congruence).
  assert (HlGe : length (mvR G e_t) = m) by (unfold G; rewrite length_mv, length_gram; reflexivity).
  rewrite !dot_vadd_r by (rewrite !length_vscale; congruence).
  rewrite !dot_vscale_l, !dot_vscale_r. fold a. fold b. fold c. rewrite Hsym.
  replace ((1 - gamma) * ((1 - gamma) * b + gamma * a) + gamma * ((1 - gamma) * a + gamma * c))
    with ((1 - gamma) * (1 - gamma) * b + 2 * (gamma * (1 - gamma)) * a + gamma * gamma * c) by ring.
  apply Rle_trans with
    ((1 - t) * (1 - t) * b + 2 * (t * (1 - t)) * a + t * t * c - fstar); [lra|].
  assert (Htt : 0 <= t * t) by (apply Rmult_le_pos; lra).
  pose proof (Rmult_le_pos t (fstar + b - 2 * a) ltac:(lra) ltac:(lra)) as P1.
  pose proof (Rmult_le_pos (t * t) (2 * (s * s) - (b + c - 2 * a)) Htt ltac:(lra)) as P2.
  replace ((1 - t) * (1 - t) * b + 2 * (t * (1 - t)) * a + t * t * c)
    with (b - 2 * (t * (b - a)) + t * t * (b + c - 2 * a)) by ring.
  lra.
Qed.

(* ---------- 5. the recurrence h' <= (1-t) h + 2 S t^2 gives 8 S / r -> 8 S / (r + 1) ---------- *)
Lemma rate_step S h h' r : 0 <= S -> 2 <= r -> h <= 8 * S / r ->
  (forall t, 0 <= t <= 1 -> h' <= (1 - t) * h + 2 * S * (t * t)) ->
  h' <= 8 * S / (r + 1).
Proof.
  intros HS Hr Hh Hrec.
  set (u := / r).
  assert (Hu0 : 0 < u) by (unfold u; apply Rinv_0_lt_compat; lra).
  assert (Hur : u * r = 1) by (unfold u; field; lra).
  assert (Hu1 : 2 * u <= 1).
  { apply (Rmult_le_reg_r r); [lra|]. rewrite Rmult_assoc, Hur. lra. }
  specialize (Hrec (2 * u) ltac:(lra)).
  assert (Hh' : h <= 8 * S * u) by exact Hh.
  pose proof (Rmult_le_compat_l (1 - 2 * u) _ _ ltac:(lra) Hh') as P1.
  assert (H1 : h' <= 8 * S * (u * (1 - u))).
  { apply Rle_trans with (1 := Hrec).
    replace (8 * S * (u * (1 - u)))
      with ((1 - 2 * u) * (8 * S * u) + 2 * S * (2 * u * (2 * u))) by ring.
    lra. }
  assert (H2 : / (r + 1) - u * (1 - u) = / (r * r * (r + 1))) by (unfold u; field; lra).
  assert (H3 : 0 < / (r * r * (r + 1))).
  { apply Rinv_0_lt_compat. apply Rmult_lt_0_compat; [apply Rmult_lt_0_compat|]; lra. }
  assert (H4 : u * (1 - u) <= / (r + 1)) by lra.
  pose proof (Rmult_le_compat_l (8 * S) _ _ ltac:(lra) H4) as P2.
  unfold Rdiv. lra.
Qed.

(* ---------- the loop, generalised over the starting point ---------- *)
Lemma mgda_loop_rate n J wstar s : wfmat n J -> hull_min n J wstar ->
  (forall v, length v = length J -> dotR (vmR n v J) (vmR n v J) <= s * s * dotR v v) ->
  forall k alpha r, simplex (length J) alpha -> 2 <= r ->
    quadform RN (gramR J) alpha - dotR (vmR n wstar J) (vmR n wstar J) <= 8 * (s * s) / r ->
    quadform RN (gramR J) (mgda_loop RN k (gramR J) 0 alpha)
      - dotR (vmR n wstar J) (vmR n wstar J) <= 8 * (s * s) / (r + INR k).
Proof.
  intros HJ Hmin Hsing. induction k as [|k IH]; intros alpha r Ha Hr Hh.
  - cbn [mgda_loop INR]. rewrite Rplus_0_r. exact Hh.
  - cbn [mgda_loop].
    pose proof (simplex_nonempty _ _ Ha) as Hm.
    pose proof (mgda_step_simplex (length J) (gramR J) alpha Hm (length_gram J) Ha) as Hstep.
    pose proof (mgda_step_gamma_nonneg (gramR J) alpha) as Hg.
    assert (Hprog : forall t, 0 <= t <= 1 ->
      quadform RN (gramR J) (fst (mgda_step RN (gramR J) alpha))
        - dotR (vmR n wstar J) (vmR n wstar J) <=
      (1 - t) * (quadform RN (gramR J) alpha - dotR (vmR n wstar J) (vmR n wstar J))
        + 2 * (s * s) * (t * t)).
    { intros t Ht. apply (mgda_step_progress n J wstar s alpha t); assumption. }
    destruct (mgda_step RN (gramR J) alpha) as [alpha' gamma]. cbn [fst snd] in *.
    rn. replace (Rltb gamma 0) with false by (symmetry; apply Rltb_false; exact Hg).
    pose proof (rate_step (s * s) _ _ r (Rle_0_sqr s) Hr Hh Hprog) as Hnext.
    rewrite S_INR. replace (r + (INR k + 1)) with ((r + 1) + INR k) by ring.
    apply IH; [exact Hstep | lra | exact Hnext].
Qed.

(* ---------- main theorem ---------- *)
Theorem mgda_fw_rate n J K wstar s : wfmat n J -> hull_min n J wstar -> 0 <= s ->
  (forall v, length v = length J -> dotR (vmR n v J) (vmR n v J) <= s * s * dotR v v) ->
  let x := agg_mgda RN 0 K J in
  let xstar := vmR n wstar J in
  dotR x x - dotR xstar xstar <= 8 * (s * s) / (INR K + 2).
Proof.
  intros HJ Hmin Hs Hsing. cbv zeta.
  pose proof (simplex_nonempty _ _ (proj1 Hmin)) as Hm.
  assert (Hne : J <> []) by (intros E; rewrite E in Hm; cbn in Hm; lia).
  pose proof (simplex_mean (length J) Hm) as Hmean.
  unfold agg_mgda, combine_rows, mgda_weights.
  rewrite (C03Proofs.ncols_wf n) by assumption. rewrite length_gram.
  pose proof (mgda_loop_simplex (length J) (gramR J) 0 K _ Hm (length_gram J) Hmean) as Hloop.
  rewrite <- (quad_gram n J (mgda_loop RN K (gramR J) 0 (mean_weights RN (length J))))
    by first [exact HJ | exact (proj1 Hloop)].
  replace (INR K + 2) with (2 + INR K) by ring.
  apply (mgda_loop_rate n J wstar s HJ Hmin Hsing K _ 2 Hmean); [lra|].
  unfold quadform. rewrite (quad_gram n) by first [exact HJ | exact (proj1 Hmean)].
  pose proof (Hsing _ (proj1 Hmean)) as H1.
  pose proof (simplex_dot_self_le1 _ _ Hmean) as H2.
  pose proof (Rmult_le_compat_l (s * s) _ _ (Rle_0_sqr s) H2) as H3. unfold Rsqr in H3.
  pose proof (dot_self_nonneg (vmR n wstar J)) as H4.
  pose proof (Rle_0_sqr s) as H5. unfold Rsqr in H5.
  unfold Rdiv. lra.
Qed.

(* ---------- the hypotheses are satisfiable: J = I_2, s = 1, wstar = (1/2, 1/2) ---------- *)
Lemma vm_id2 p q : vmR 2 [p; q] [[1; 0]; [0; 1]] = [p * 1 + (q * 0 + 0); p * 0 + (q * 1 + 0)].
Proof. reflexivity. Qed.

Example mgda_fw_rate_id2 K :
  let J := [[1; 0]; [0; 1]] in
  let x := agg_mgda RN 0 K J in
  dotR x x - / 2 <= 8 / (INR K + 2).
Proof.
  cbv zeta. set (J := [[1; 0]; [0; 1]]).
  assert (HJ : wfmat 2 J) by (repeat constructor).
  assert (Hlen2 : forall v : list R, length v = 2%nat -> exists p q, v = [p; q]).
  { intros [|p [|q [|z v]]] Hv; cbn in Hv; try lia. exists p, q. reflexivity. }
  assert (Hmin : hull_min 2 J [/ 2; / 2]).
  { split.
    - split; [reflexivity|]. split; [repeat constructor; lra | cbn; lra].
    - intros w (Hl & Hn & Hs). destruct (Hlen2 w Hl) as (p & q & ->).
      unfold J. rewrite !vm_id2. cbn in Hs. cbn [dot]. rn.
      assert (Hq : q = 1 - p) by lra. subst q.
      pose proof (Rle_0_sqr (p - / 2)) as Hsq. unfold Rsqr in Hsq. nra. }
  assert (Hsing : forall v, length v = length J ->
            dotR (vmR 2 v J) (vmR 2 v J) <= 1 * 1 * dotR v v).
  { intros v Hv. destruct (Hlen2 v Hv) as (p & q & ->).
    unfold J. rewrite vm_id2. cbn [dot]. rn. apply Req_le. ring. }
  pose proof (mgda_fw_rate 2 J K [/ 2; / 2] 1 HJ Hmin ltac:(lra) Hsing) as H.
  cbv zeta in H.
  assert (Hstar : dotR (vmR 2 [/ 2; / 2] J) (vmR 2 [/ 2; / 2] J) = / 2).
  { unfold J. rewrite vm_id2. cbn [dot]. rn. field. }
  rewrite Hstar in H. replace (8 * (1 * 1)) with 8 in H by ring. exact H.
Qed.

Print Assumptions mgda_fw_rate.
