(* NashProofs.v — C19: reset() means fresh, the recomputation schedule, the max_norm bound *)
From Coq Require Import Reals List Bool Arith Lia Lra Psatz.
From TJ Require Import Num Linalg NumR Nash.
From TJ.proofs Require Import LinalgR QPProofs C03Proofs C18Proofs.
Import ListNotations.

Section Generic.
Context {T : Type} (N : Num T) (k : nat) (max_norm : T) (n_tasks : nat).
Context (PS : Type) (fresh : list T -> PS) (solve : PS -> list (list T) -> list T -> list T * PS)
        (normG : list (list T) -> list (list T)).

Notation forwardN := (forward N k max_norm PS fresh solve normG).
Notation runN := (run N k max_norm n_tasks PS fresh solve normG).
Notation resetN := (reset N n_tasks PS).
Notation fullN := (@full T PS).

(* equal step and prvs_alpha, and equal problem objects unless step = 0 (then the stale problem is
   overwritten before it is used) *)
Definition sim (a b : fullN) : Prop :=
  co a = co b /\ (step (co a) = 0 \/ prob a = prob b).

Lemma forward_sim a b J : sim a b ->
  fst (forwardN a J) = fst (forwardN b J) /\ sim (snd (forwardN a J)) (snd (forwardN b J)).
Proof.
  intros [Hc Hp]. unfold forward. rewrite <- Hc.
  assert (E : (if step (co a) =? 0 then fresh (prvs (co a)) else prob a) =
              (if step (co a) =? 0 then fresh (prvs (co a)) else prob b)).
  { destruct (Nat.eqb_spec (step (co a)) 0); [reflexivity|]. destruct Hp; [contradiction|assumption]. }
  rewrite E. destruct (step (co a) mod k =? 0).
  - destruct (solve _ _ _) as [ans ps']. unfold step_core. cbn. split; [reflexivity|].
    split; [reflexivity|right; reflexivity].
  - unfold step_core. cbn. split; [reflexivity|]. split; [reflexivity|right; reflexivity].
Qed.

Lemma run_sim ops : forall a b, sim a b -> fst (runN a ops) = fst (runN b ops).
Proof.
  induction ops as [|o ops IH]; intros a b Hs; [reflexivity|]. destruct o as [J|]; cbn [run].
  - destruct (forward_sim a b J Hs) as [Ho Hs'].
    destruct (forwardN a J) as [oa a'], (forwardN b J) as [ob b']. cbn [fst snd] in *.
    specialize (IH a' b' Hs'). destruct (runN a' ops), (runN b' ops). cbn [fst] in *. congruence.
  - apply IH. unfold reset. split; [reflexivity|left; reflexivity].
Qed.

Lemma run_app h : forall st t,
  fst (runN st (h ++ t)) = fst (runN st h) ++ fst (runN (snd (runN st h)) t).
Proof.
  induction h as [|o h IH]; intros st t; [reflexivity|]. destruct o as [J|]; cbn [app run].
  - destruct (forwardN st J) as [out st']. specialize (IH st' t).
    destruct (runN st' (h ++ t)), (runN st' h). cbn [fst snd] in *. rewrite IH. reflexivity.
  - apply IH.
Qed.

(* after reset(), any further sequence behaves exactly as on a newly constructed aggregator
   (whatever problem object the new one starts with: it is rebuilt at step 0) *)
Theorem reset_is_fresh st0 h t ps :
  fst (runN st0 (h ++ Reset :: t)) =
  fst (runN st0 h) ++ fst (runN (mkFull (init_core N n_tasks) ps) t).
Proof.
  rewrite run_app. f_equal. cbn [run]. apply run_sim.
  unfold reset. split; [reflexivity|left; reflexivity].
Qed.

(* ---- schedule, on the core machine ---- *)
Notation step_coreN := (step_core N k max_norm).

Fixpoint trace (c : core) (calls : list (list (list T) * list T)) : list (list T * bool) :=
  match calls with
  | [] => []
  | (J, ans) :: cs => let '(_, c', b) := step_coreN c J ans in (prvs c', b) :: trace c' cs
  end.

(* position-based specification: call number s (counted from the last reset) invokes the solver
   iff s mod k = 0 and then uses its answer; otherwise it reuses the previous weights unchanged *)
Fixpoint sched (s : nat) (p : list T) (calls : list (list (list T) * list T)) : list (list T * bool) :=
  match calls with
  | [] => []
  | (J, ans) :: cs => let b := (s mod k =? 0) in let a := if b then ans else p in
                      (a, b) :: sched (S s) a cs
  end.

Theorem trace_is_sched calls : forall c, trace c calls = sched (step c) (prvs c) calls.
Proof.
  induction calls as [|[J ans] cs IH]; intros c; [reflexivity|].
  cbn [trace sched]. unfold step_core. cbn [prvs]. rewrite IH. reflexivity.
Qed.

Theorem sched_flags calls : forall s p i, i < length calls ->
  snd (nth i (sched s p calls) ([], false)) = ((s + i) mod k =? 0).
Proof.
  induction calls as [|[J ans] cs IH]; intros s p i Hi; [cbn in Hi; lia|].
  destruct i as [|i]; cbn [sched nth snd].
  - rewrite Nat.add_0_r. reflexivity.
  - rewrite IH by (cbn in Hi; lia). f_equal. f_equal. lia.
Qed.

(* before the fix, the second call of NashMTL(update_weights_every = 2, max_norm > 0) fails *)
Theorem v0_reuse_branch_fails c J ans : step c mod k <> 0 -> nltb N (n0 N) max_norm = true ->
  fst (fst (step_core_v0 N k max_norm c J ans)) = Err TypeError.
Proof.
  intros Hs Hm. unfold step_core_v0. cbn [fst].
  destruct (Nat.eqb_spec (step c mod k) 0); [contradiction|]. rewrite Hm. reflexivity.
Qed.

End Generic.

(* ---- the max_norm bound, over the reals ---- *)
Local Open Scope R_scope.

Lemma vnorm_vscale c v : 0 <= c -> vnorm RN (vscaleR c v) = c * vnorm RN v.
Proof.
  intros Hc. unfold vnorm. rn. rewrite dot_vscale_l, dot_vscale_r.
  replace (c * (c * dotR v v)) with ((c * c) * dotR v v) by ring.
  rewrite sqrt_mult_alt by nra. rewrite sqrt_square by exact Hc. reflexivity.
Qed.

Theorem rescale_bound n max_norm alpha J : wfmat n J -> J <> [] -> 0 < max_norm ->
  vnorm RN (combineR J (rescale RN max_norm alpha J)) <= max_norm.
Proof.
  intros HJ Hne Hm. unfold rescale. rn.
  assert (E : Rltb 0 max_norm = true) by (apply Rltb_true; exact Hm). rewrite E.
  assert (Hc : forall w, combineR J w = vmR n w J).
  { intros w. unfold combine_rows. rewrite (ncols_wf n) by assumption. reflexivity. }
  rewrite !Hc.
  set (nrm := vnorm RN (vmR n alpha J)).
  destruct (Rltb max_norm nrm) eqn:Eb.
  - apply Rltb_true in Eb.
    assert (Hmap : map (fun a => a / nrm * max_norm) alpha = vscaleR (max_norm / nrm) alpha).
    { unfold vscale. apply map_ext. intros a. rn. field. lra. }
    rewrite Hmap. rewrite vm_vscale by exact HJ.
    rewrite vnorm_vscale by (apply Rlt_le, Rdiv_lt_0_compat; lra).
    fold nrm. right. field. lra.
  - apply Rltb_false in Eb. exact Eb.
Qed.
