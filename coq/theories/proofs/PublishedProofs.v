(* PublishedProofs.v — the published guarantees behind three aggregators:
   M2  CAGrad with c >= 1 conflicts with no row (from the first-order optimality contract);
   M1  MGDA on two rows reaches the minimum-norm point of the segment after one step;
   M3  the unregularised dual QP of DualProj/UPGrad computes the projection on the dual cone. *)
From Coq Require Import Reals List Bool Arith Lia Lra Psatz.
From TJ Require Import Num Linalg NumR Agg.
From TJ.proofs Require Import LinalgR QPProofs C03Proofs C18Proofs MgdaProofs.
Import ListNotations.
Local Open Scope R_scope.

(* ====================================================================================== *)
(* M2 — CAGrad, c >= 1                                                                    *)
(* ====================================================================================== *)

(* First-order optimality of  F(w) = <g_w, g_0>_n + c |g_0|_n |g_w|_n  over the simplex at
   w_opt, tested against the vertices e_i; everything in the geometry of the normalised
   Gramian Gn:  <g_i, g_0>_n = (Gn mean)_i,  <g_i, g_w>_n = (Gn w_opt)_i,
   <g_w, g_0>_n = w_opt . (Gn mean),  |g_v|_n = sqrt (v^T Gn v). *)
Definition cagrad_foc (Gn : list (list R)) (c : R) (w_opt : list R) : Prop :=
  let m := length Gn in
  let mean := mean_weights RN m in
  let g0n := sqrt (quadform RN Gn mean) in
  let gwn := sqrt (quadform RN Gn w_opt) in
  forall i, (i < m)%nat ->
    dotR w_opt (mvR Gn mean) + c * g0n * gwn <=
    nth i (mvR Gn mean) 0 + c * g0n * (nth i (mvR Gn w_opt) 0 / gwn).

Lemma length_normalized_big G s ne : nltb RN s ne = false ->
  length (normalized_gramian RN G s ne) = length G.
Proof. intros H. unfold normalized_gramian. rewrite H. unfold mscale. apply map_length. Qed.

Lemma nth_mv_vzero J n i : nth i (mvR J (vzeroR n)) 0 = 0.
Proof.
  destruct (lt_dec i (length J)) as [Hi|Hi].
  - rewrite nth_mv by exact Hi. apply dot_vzero_r.
  - apply nth_overflow. rewrite length_mv. lia.
Qed.

Lemma length_mean m : length (mean_weights RN m) = m.
Proof. unfold mean_weights. apply repeat_length. Qed.

(* the output of CAGrad above the threshold: g_0 + (c |g_0|_n / |g_w|_n) g_w *)
Lemma cagrad_big_form n J s ne c w_opt : wfmat n J -> J <> [] -> length w_opt = length J ->
  let m := length J in
  let Gn := normalized_gramian RN (gramR J) s ne in
  nleb RN ne (sqrt (quadform RN Gn w_opt)) = true ->
  agg_cagrad RN s ne c w_opt J =
  vaddR (vmR n (mean_weights RN m) J)
        (vscaleR (c * sqrt (quadform RN Gn (mean_weights RN m)) / sqrt (quadform RN Gn w_opt))
                 (vmR n w_opt J)).
Proof.
  intros HJ Hne Hlw m Gn Hbig.
  unfold agg_cagrad, combine_rows, cagrad_weights. rewrite (ncols_wf n) by assumption.
  rewrite length_gram. fold m. fold Gn. rn. rewrite Hbig.
  rewrite vm_vadd by (auto; rewrite length_vscale, length_mean; unfold m; congruence).
  rewrite vm_vscale by exact HJ. reflexivity.
Qed.

Theorem cagrad_c_ge_1_nonconflicting n J s ne c w_opt :
  wfmat n J -> J <> [] -> length w_opt = length J ->
  0 < s -> nltb RN s ne = false -> 0 < ne -> 1 <= c ->
  let Gn := normalized_gramian RN (gramR J) s ne in
  nleb RN ne (sqrt (quadform RN Gn w_opt)) = true ->
  cagrad_foc Gn c w_opt ->
  forall i, (i < length J)%nat -> 0 <= nth i (mvR J (agg_cagrad RN s ne c w_opt J)) 0.
Proof.
  intros HJ Hne Hlw Hs Hsne Hnepos Hc Gn Hbig Hfoc i Hi.
  set (m := length J) in *.
  assert (HlGn : length Gn = m).
  { unfold Gn. rewrite length_normalized_big by exact Hsne. apply length_gram. }
  unfold cagrad_foc in Hfoc. cbv zeta in Hfoc. rewrite HlGn in Hfoc.
  specialize (Hfoc i Hi).
  set (mean := mean_weights RN m) in *.
  assert (Hlm : length mean = length J) by apply length_mean.
  set (g0 := vmR n mean J). set (gw := vmR n w_opt J).
  set (gi := nth i J []).
  assert (Hlg0 : length g0 = n) by (apply length_vm; exact HJ).
  assert (Hlgw : length gw = n) by (apply length_vm; exact HJ).
  assert (HGn : Gn = mscale RN (1 / (s * s)) (gramR J)).
  { unfold Gn, normalized_gramian. rewrite Hsne. reflexivity. }
  assert (Hss : 0 < s * s) by (timeout 60 nra).
  set (k := 1 / (s * s)) in *.
  assert (Hk : 0 < k) by (unfold k; apply Rdiv_lt_0_compat; lra).
  assert (Hks : k * (s * s) = 1) by (unfold k; field; lra).
  (* entries and quadratic forms of Gn in terms of the vectors *)
  assert (Hq0 : quadform RN Gn mean = k * dotR g0 g0).
  { rewrite HGn, quadform_mscale. unfold quadform. rewrite (quad_gram n) by assumption.
    reflexivity. }
  assert (Hqw : quadform RN Gn w_opt = k * dotR gw gw).
  { rewrite HGn, quadform_mscale. unfold quadform. rewrite (quad_gram n) by assumption.
    reflexivity. }
  assert (Hx : nth i (mvR Gn mean) 0 = k * dotR gi g0).
  { rewrite HGn, mv_mscale, nth_vscale. rewrite (mv_gram n) by assumption.
    rewrite nth_mv by exact Hi. reflexivity. }
  assert (Hy : nth i (mvR Gn w_opt) 0 = k * dotR gi gw).
  { rewrite HGn, mv_mscale, nth_vscale. rewrite (mv_gram n) by assumption.
    rewrite nth_mv by exact Hi. reflexivity. }
  assert (Hd : dotR w_opt (mvR Gn mean) = k * dotR gw g0).
  { rewrite HGn, mv_mscale, dot_vscale_r. rewrite (bil_gram n) by assumption. reflexivity. }
  rewrite Hx, Hy, Hd in Hfoc.
  set (g0n := sqrt (quadform RN Gn mean)) in *.
  set (gwn := sqrt (quadform RN Gn w_opt)) in *.
  assert (Hgwn : 0 < gwn) by (rn; apply Rleb_true in Hbig; lra).
  assert (Hg0n : 0 <= g0n) by apply sqrt_pos.
  assert (Hg0n2 : g0n * g0n = k * dotR g0 g0).
  { unfold g0n. rewrite sqrt_sqrt; [exact Hq0|]. rewrite Hq0.
    apply Rmult_le_pos; [lra | apply dot_self_nonneg]. }
  assert (Hgwn2 : gwn * gwn = k * dotR gw gw).
  { unfold gwn. rewrite sqrt_sqrt; [exact Hqw|]. rewrite Hqw.
    apply Rmult_le_pos; [lra | apply dot_self_nonneg]. }
  (* Cauchy-Schwarz in the normalised geometry *)
  assert (Hcs : - (gwn * g0n) <= k * dotR gw g0).
  { apply sq_bound_lower; [apply Rmult_le_pos; lra|].
    replace (gwn * g0n * (gwn * g0n)) with ((gwn * gwn) * (g0n * g0n)) by ring.
    rewrite Hg0n2, Hgwn2.
    pose proof (cauchy_schwarz gw g0 ltac:(congruence)) as Hcs.
    replace (k * dotR gw g0 * (k * dotR gw g0)) with (k * k * (dotR gw g0 * dotR gw g0)) by ring.
    replace (k * dotR gw gw * (k * dotR g0 g0)) with (k * k * (dotR gw gw * dotR g0 g0)) by ring.
    apply Rmult_le_compat_l; [|exact Hcs]. apply Rmult_le_pos; lra. }
  (* the output *)
  rewrite (cagrad_big_form n J s ne c w_opt HJ Hne Hlw Hbig).
  fold m. fold mean. fold Gn. fold g0. fold gw. fold g0n. fold gwn.
  rewrite nth_mv by exact Hi. fold gi.
  rewrite dot_vadd_r by (rewrite length_vscale; congruence).
  rewrite dot_vscale_r.
  (* <g_i, A> = s^2 * (x_i + c g0n y_i / gwn) *)
  assert (Hprod : 0 <= g0n * gwn) by (apply Rmult_le_pos; lra).
  assert (Hc1 : 0 <= (c - 1) * (g0n * gwn)) by (apply Rmult_le_pos; lra).
  assert (Hlow : 0 <= k * dotR gi g0 + c * g0n * (k * dotR gi gw / gwn)) by lra.
  assert (E : dotR gi g0 + c * g0n / gwn * dotR gi gw =
              (s * s) * (k * dotR gi g0 + c * g0n * (k * dotR gi gw / gwn))).
  { transitivity ((k * (s * s)) * (dotR gi g0 + c * g0n / gwn * dotR gi gw));
      [rewrite Hks; ring | field; lra]. }
  rewrite E. apply Rmult_le_pos; lra.
Qed.

(* below the threshold the output is the zero vector *)
Theorem cagrad_below_threshold_nonconflicting n J s ne c w_opt : wfmat n J -> J <> [] ->
  nleb RN ne (sqrt (quadform RN (normalized_gramian RN (gramR J) s ne) w_opt)) = false ->
  forall i, nth i (mvR J (agg_cagrad RN s ne c w_opt J)) 0 = 0.
Proof.
  intros HJ Hne Hsmall i. rewrite (cagrad_small n J s ne c w_opt HJ Hne Hsmall).
  apply nth_mv_vzero.
Qed.

(* ====================================================================================== *)
(* M1 — MGDA on two rows                                                                  *)
(* ====================================================================================== *)

(* One Frank-Wolfe step from the midpoint on a symmetric 2 x 2 matrix [[p q] [q r]] lands on
   [1 - l; l] where l minimises the quadratic t |-> (1-t)^2 p + 2 t (1-t) q + t^2 r on [0,1]. *)
Lemma mgda_step_2x2 p q r :
  let G := [[p; q]; [q; r]] in
  exists l, fst (mgda_step RN G [1/2; 1/2]) = [1 - l; l] /\ 0 <= l <= 1 /\
    forall t, 0 <= t <= 1 ->
      (1 - l) * (1 - l) * p + 2 * (l * (1 - l)) * q + l * l * r <=
      (1 - t) * (1 - t) * p + 2 * (t * (1 - t)) * q + t * t * r.
Proof.
  intros G. unfold mgda_step.
  change (mvR G [1/2;1/2]) with [p * (1/2) + (q * (1/2) + 0); q * (1/2) + (r * (1/2) + 0)].
  change (length [1/2;1/2]) with 2%nat.
  set (x := p * (1/2) + (q * (1/2) + 0)). set (y := q * (1/2) + (r * (1/2) + 0)).
  change (argmin RN [x; y]) with (if Rltb y x then 1%nat else 0%nat).
  set (D := p - 2 * q + r).
  destruct (Rltb y x) eqn:E.
  - apply Rltb_true in E. cbn. destruct (Rleb _ _) eqn:E1.
    + apply Rleb_true in E1. unfold x, y in *. exists 1. split; [f_equal; [lra | f_equal; lra]|].
      split; [lra|]. intros t Ht.
      assert (0 <= (1 - t) * (1 - t) * (p - r)) by (apply Rmult_le_pos; [(timeout 60 nra) | lra]).
      assert (0 <= t * (1 - t) * (q - r)) by (apply Rmult_le_pos; [(timeout 60 nra) | lra]).
      (timeout 60 nra).
    + apply Rleb_false in E1. destruct (Rleb _ _) eqn:E2.
      * apply Rleb_true in E2. unfold x, y in *. exfalso. lra.
      * apply Rleb_false in E2. unfold x, y in *.
        assert (HD : 0 < D) by (unfold D; lra).
        match goal with |- exists l, [_; ?e] = _ /\ _ => set (l := e) end.
        assert (HlD : l * D = p - q) by (unfold l, D; field; lra).
        exists l. split; [f_equal; unfold l; field; lra|].
        split; [split; apply (Rmult_le_reg_r D); try lra; rewrite HlD; unfold D; lra|]. intros t Ht.
        assert (K : (1 - t) * (1 - t) * p + 2 * (t * (1 - t)) * q + t * t * r -
                    ((1 - l) * (1 - l) * p + 2 * (l * (1 - l)) * q + l * l * r) =
                    D * ((t - l) * (t - l)) + 2 * (t - l) * (l * D - (p - q))) by (unfold D; ring).
        rewrite HlD in K. assert (0 <= D * ((t - l) * (t - l))) by (apply Rmult_le_pos; [lra | apply Rle_0_sqr]).
        lra.
  - apply Rltb_false in E. cbn. destruct (Rleb _ _) eqn:E1.
    + apply Rleb_true in E1. unfold x, y in *. exists 0. split; [f_equal; [lra | f_equal; lra]|].
      split; [lra|]. intros t Ht.
      assert (0 <= t * t * (r - p)) by (apply Rmult_le_pos; [(timeout 60 nra) | lra]).
      assert (0 <= t * (1 - t) * (q - p)) by (apply Rmult_le_pos; [(timeout 60 nra) | lra]).
      (timeout 60 nra).
    + apply Rleb_false in E1. destruct (Rleb _ _) eqn:E2.
      * apply Rleb_true in E2. unfold x, y in *. assert (Hrp : r = p) by lra.
        exists (1/2). split; [f_equal; [lra | f_equal; lra]|].
        split; [lra|]. intros t Ht. rewrite Hrp.
        assert (0 <= (p - q) * ((1 - 2 * t) * (1 - 2 * t))) by (apply Rmult_le_pos; [lra | apply Rle_0_sqr]).
        (timeout 60 nra).
      * apply Rleb_false in E2. unfold x, y in *.
        assert (HD : 0 < D) by (unfold D; lra).
        match goal with |- exists l, [_; ?e] = _ /\ _ => set (l := e) end.
        assert (HlD : l * D = p - q) by (unfold l, D; field; lra).
        exists l. split; [f_equal; unfold l; field; lra|].
        split; [split; apply (Rmult_le_reg_r D); try lra; rewrite HlD; unfold D; lra|]. intros t Ht.
        assert (K : (1 - t) * (1 - t) * p + 2 * (t * (1 - t)) * q + t * t * r -
                    ((1 - l) * (1 - l) * p + 2 * (l * (1 - l)) * q + l * l * r) =
                    D * ((t - l) * (t - l)) + 2 * (t - l) * (l * D - (p - q))) by (unfold D; ring).
        rewrite HlD in K. assert (0 <= D * ((t - l) * (t - l))) by (apply Rmult_le_pos; [lra | apply Rle_0_sqr]).
        lra.
Qed.

Lemma quad2 p q r a b :
  dotR [a; b] (mvR [[p; q]; [q; r]] [a; b]) = a * a * p + 2 * (a * b) * q + b * b * r.
Proof. cbn. ring. Qed.

Lemma gram2 g1 g2 : gramR [g1; g2] = [[dotR g1 g1; dotR g1 g2]; [dotR g1 g2; dotR g2 g2]].
Proof. unfold gram. cbn [map]. rewrite (dot_comm g2 g1). reflexivity. Qed.

Lemma mean2 : mean_weights RN 2 = [1 / 2; 1 / 2].
Proof. unfold mean_weights. cbn. replace (1 + 1) with 2 by lra. reflexivity. Qed.

Lemma simplex2 w : simplex 2 w -> exists t, w = [1 - t; t] /\ 0 <= t <= 1.
Proof.
  intros (Hl & Hn & Hs). destruct w as [|a [|b [|c w]]]; cbn in Hl; try lia.
  apply Forall_cons_iff in Hn. destruct Hn as [Ha Hn].
  apply Forall_cons_iff in Hn. destruct Hn as [Hb _].
  cbn in Hs. exists b. split; [f_equal; lra | lra].
Qed.

Lemma wfmat2 n g1 g2 : length g1 = n -> length g2 = n -> wfmat n [g1; g2].
Proof. intros H1 H2. repeat constructor; assumption. Qed.

(* M1, one step: the first iterate is a minimum-norm point of the segment [g1, g2] *)
Theorem mgda_two_rows_one_step n g1 g2 : length g1 = n -> length g2 = n ->
  let J := [g1; g2] in
  hull_min n J (fst (mgda_step RN (gramR J) (mean_weights RN 2))).
Proof.
  intros H1 H2 J. pose proof (wfmat2 n g1 g2 H1 H2) as HJ. fold J in HJ.
  unfold J at 2. rewrite gram2, mean2.
  destruct (mgda_step_2x2 (dotR g1 g1) (dotR g1 g2) (dotR g2 g2)) as (l & El & Hl & Hmin).
  cbv zeta in El. rewrite El.
  assert (Hsx : simplex (length J) [1 - l; l]).
  { split; [reflexivity|]. split; [constructor; [lra | constructor; [lra | constructor]] | cbn; lra]. }
  split; [exact Hsx|]. intros w Hw.
  destruct (simplex2 w Hw) as (t & -> & Ht).
  rewrite <- !(quad_gram n) by (try exact HJ; reflexivity).
  unfold J. rewrite gram2, !quad2. specialize (Hmin t Ht). lra.
Qed.

(* a minimum-norm weight vector stays one along the loop *)
Lemma hull_min_loop n J eps iters alpha : wfmat n J -> hull_min n J alpha ->
  hull_min n J (mgda_loop RN iters (gramR J) eps alpha).
Proof.
  intros HJ [Hsx Hmin].
  pose proof (simplex_nonempty _ _ Hsx) as Hm.
  pose proof (mgda_loop_simplex (length J) (gramR J) eps iters alpha Hm (length_gram J) Hsx) as Hl.
  split; [exact Hl|]. intros w Hw.
  apply Rle_trans with (2 := Hmin w Hw).
  rewrite <- !(quad_gram n) by first [exact HJ | apply Hl | apply Hsx].
  apply (mgda_loop_decreases n J eps iters HJ alpha Hsx).
Qed.

(* M1, whole run: with at least one iteration the returned weights are a minimum-norm point *)
Theorem mgda_two_rows_hull_min n g1 g2 eps iters : length g1 = n -> length g2 = n ->
  (1 <= iters)%nat ->
  let J := [g1; g2] in
  hull_min n J (mgda_weights RN (gramR J) eps iters).
Proof.
  intros H1 H2 Hit J. pose proof (wfmat2 n g1 g2 H1 H2) as HJ. fold J in HJ.
  pose proof (mgda_two_rows_one_step n g1 g2 H1 H2) as Hstep. cbv zeta in Hstep. fold J in Hstep.
  destruct iters as [|k]; [lia|]. unfold mgda_weights. rewrite length_gram.
  change (length J) with 2%nat. cbn [mgda_loop].
  destruct (mgda_step RN (gramR J) (mean_weights RN 2)) as [alpha' gamma]. cbn [fst] in Hstep.
  destruct (nltb RN gamma eps); [exact Hstep|].
  apply hull_min_loop; assumption.
Qed.

Lemma hull_min_same_norm n J a b : hull_min n J a -> hull_min n J b ->
  dotR (vmR n a J) (vmR n a J) = dotR (vmR n b J) (vmR n b J).
Proof. intros [Ha Hma] [Hb Hmb]. apply Rle_antisym; [apply Hma; exact Hb | apply Hmb; exact Ha]. Qed.

Lemma vsub_norm_zero_eq : forall x y : list R, length x = length y ->
  dotR (vsubR x y) (vsubR x y) = 0 -> x = y.
Proof.
  induction x as [|a x IH]; intros [|b y] Hl H; cbn in Hl; try lia; [reflexivity|].
  cbn [vsub] in H. rewrite dot_cons in H. rn.
  pose proof (dot_self_nonneg (vsubR x y)) as Hp.
  assert (Hab : a - b = 0) by (timeout 60 nra).
  assert (Hr : dotR (vsubR x y) (vsubR x y) = 0) by (timeout 60 nra).
  f_equal; [lra | apply IH; [lia | exact Hr]].
Qed.

(* the minimum-norm point of the hull is unique (as a vector) *)
Lemma hull_min_unique n J a b : wfmat n J -> hull_min n J a -> hull_min n J b ->
  vmR n a J = vmR n b J.
Proof.
  intros HJ Ha Hb.
  pose proof (hull_variational n J a b HJ Ha (proj1 Hb)) as H1.
  pose proof (hull_variational n J b a HJ Hb (proj1 Ha)) as H2.
  set (x := vmR n a J) in *. set (y := vmR n b J) in *.
  assert (Hlx : length x = n) by (apply length_vm; exact HJ).
  assert (Hly : length y = n) by (apply length_vm; exact HJ).
  apply vsub_norm_zero_eq; [congruence|].
  pose proof (dot_self_nonneg (vsubR x y)) as Hp.
  assert (E : dotR (vsubR x y) (vsubR x y) = dotR x x - 2 * dotR x y + dotR y y).
  { rewrite dot_vsub_l by congruence. rewrite !dot_vsub_r by congruence.
    rewrite (dot_comm y x). ring. }
  rewrite (dot_comm y x) in H2. lra.
Qed.

(* M1, vector form: for iters >= 1 the output of MGDA on two rows IS the point reached after
   the first step, and has the minimum norm over the segment *)
Theorem mgda_two_rows_output n g1 g2 eps iters : length g1 = n -> length g2 = n ->
  (1 <= iters)%nat ->
  let J := [g1; g2] in
  let x1 := vmR n (fst (mgda_step RN (gramR J) (mean_weights RN 2))) J in
  agg_mgda RN eps iters J = x1 /\
  dotR (agg_mgda RN eps iters J) (agg_mgda RN eps iters J) = dotR x1 x1 /\
  (forall t, 0 <= t <= 1 ->
     dotR x1 x1 <= dotR (vaddR (vscaleR (1 - t) g1) (vscaleR t g2))
                        (vaddR (vscaleR (1 - t) g1) (vscaleR t g2))).
Proof.
  intros H1 H2 Hit J x1. pose proof (wfmat2 n g1 g2 H1 H2) as HJ. fold J in HJ.
  pose proof (mgda_two_rows_one_step n g1 g2 H1 H2) as Hstep. cbv zeta in Hstep. fold J in Hstep.
  pose proof (mgda_two_rows_hull_min n g1 g2 eps iters H1 H2 Hit) as Hrun. cbv zeta in Hrun.
  fold J in Hrun.
  assert (E : agg_mgda RN eps iters J = x1).
  { unfold agg_mgda, combine_rows. rewrite (ncols_wf n) by (try exact HJ; discriminate).
    apply hull_min_unique; assumption. }
  split; [exact E|]. split; [rewrite E; reflexivity|].
  intros t Ht.
  assert (Hsx : simplex (length J) [1 - t; t]).
  { split; [reflexivity|]. split; [constructor; [lra | constructor; [lra | constructor]] | cbn; lra]. }
  pose proof (proj2 Hstep _ Hsx) as Hmin. fold x1 in Hmin.
  apply Rle_trans with (1 := Hmin). apply Req_le.
  unfold J. cbn [vm]. rewrite (vadd_vzero_r (vscaleR t g2)) by (rewrite length_vscale; exact H2).
  reflexivity.
Qed.

(* hence it conflicts with neither row *)
Corollary mgda_two_rows_nonconflicting n g1 g2 eps iters : length g1 = n -> length g2 = n ->
  (1 <= iters)%nat ->
  let x := agg_mgda RN eps iters [g1; g2] in
  0 <= dotR g1 x /\ 0 <= dotR g2 x.
Proof.
  intros H1 H2 Hit x. pose proof (wfmat2 n g1 g2 H1 H2) as HJ.
  pose proof (mgda_two_rows_hull_min n g1 g2 eps iters H1 H2 Hit) as Hrun. cbv zeta in Hrun.
  assert (Ex : x = vmR n (mgda_weights RN (gramR [g1; g2]) eps iters) [g1; g2]).
  { unfold x, agg_mgda, combine_rows. rewrite (ncols_wf n) by (try exact HJ; discriminate).
    reflexivity. }
  pose proof (dot_self_nonneg x) as Hp.
  pose proof (hull_min_nonconflicting n _ _ 0 HJ Hrun ltac:(cbn; lia)) as G1.
  pose proof (hull_min_nonconflicting n _ _ 1 HJ Hrun ltac:(cbn; lia)) as G2.
  rewrite <- Ex in G1, G2. cbn [nth] in G1, G2. split; lra.
Qed.

(* ====================================================================================== *)
(* M3 — the unregularised dual QP is the projection on the dual cone                      *)
(* ====================================================================================== *)

Lemma feasible_segment_dir : forall u w d t, 0 <= t <= 1 -> length d = length w ->
  feasible u w -> feasible u (vaddR w d) -> feasible u (vaddR w (vscaleR t d)).
Proof.
  intros u w d t Ht Hl Hw. revert d Hl.
  induction Hw as [|a b U W Hab HUW IH]; intros [|e d] Hl Hv; cbn in Hl; try lia.
  - cbn. constructor.
  - cbn [vscale map vadd] in *. fold (vscaleR t d).
    inversion Hv as [|a' b' U' V' Hab' HUV]; subst. rn.
    constructor; [|apply IH; [lia | exact HUV]].
    assert (0 <= t * (b + e - a)) by (apply Rmult_le_pos; lra).
    assert (0 <= (1 - t) * (b - a)) by (apply Rmult_le_pos; lra).
    lra.
Qed.

Lemma first_order_real B Q : (forall t, 0 < t <= 1 -> 0 <= 2 * t * B + t * t * Q) -> 0 <= B.
Proof.
  intros H. destruct (Rle_dec 0 B) as [HB|HB]; [exact HB|]. exfalso. apply Rnot_le_lt in HB.
  destruct (Rle_dec Q (- B)) as [HQ|HQ].
  - specialize (H 1 ltac:(lra)). lra.
  - apply Rnot_le_lt in HQ. assert (HQ0 : 0 < Q) by lra.
    set (t := - B / Q).
    assert (HtQ : t * Q = - B) by (unfold t; field; lra).
    assert (Ht0 : 0 < t) by (unfold t; apply Rdiv_lt_0_compat; lra).
    assert (Ht1 : t < 1) by (apply (Rmult_lt_reg_r Q); lra).
    specialize (H t ltac:(lra)).
    replace (2 * t * B + t * t * Q) with (2 * t * B + t * (t * Q)) in H by ring.
    rewrite HtQ in H.
    pose proof (Rmult_lt_0_compat t (- B) Ht0 ltac:(lra)) as Hp. lra.
Qed.

(* first-order optimality of a constrained minimiser along any feasible direction *)
Theorem is_min_first_order m M u w d : length M = m -> symm m M -> is_min m M u w ->
  length d = m -> feasible u (vaddR w d) -> 0 <= bil M d w.
Proof.
  intros HM Hs (Hw & Hf & Hmin) Hd Hfd.
  apply (first_order_real _ (qf M d)). intros t Ht.
  assert (Hltd : length (vscaleR t d) = m) by (rewrite length_vscale; exact Hd).
  assert (Hl : length (vaddR w (vscaleR t d)) = m) by (rewrite length_vadd; congruence).
  assert (Hft : feasible u (vaddR w (vscaleR t d))).
  { apply feasible_segment_dir; [lra | congruence | exact Hf | exact Hfd]. }
  specialize (Hmin _ Hl Hft). rewrite (qf_expand m) in Hmin by assumption.
  assert (B : bil M (vscaleR t d) w = t * bil M d w) by (unfold bil; apply dot_vscale_l).
  assert (Q : qf M (vscaleR t d) = t * t * qf M d).
  { unfold qf, bil. rewrite mv_vscale, dot_vscale_l, dot_vscale_r. ring. }
  rewrite B, Q in Hmin. lra.
Qed.

Lemma nonneg_vsub_feasible u w : feasible u w -> nonneg (vsubR w u).
Proof.
  induction 1 as [|a b U W Hab HUW IH]; [constructor|]. cbn [vsub]. constructor; [rn; lra | exact IH].
Qed.

Lemma symm_gram n J : wfmat n J -> symm (length J) (gramR J).
Proof. intros HJ x y Hx Hy. unfold bil. apply (bil_gram_sym n); assumption. Qed.

(* the objective of the QP is the squared norm of the combination *)
Lemma qf_gram n J v : wfmat n J -> length v = length J ->
  qf (gramR J) v = dotR (vmR n v J) (vmR n v J).
Proof. intros HJ Hv. unfold qf, bil. apply (quad_gram n); assumption. Qed.

(* y is in the dual cone of the rows of J:  <g_i, y> >= 0 for every row *)
Definition dual_cone (J : list (list R)) (y : list R) : Prop := nonneg (mvR J y).

Lemma dual_cone_rows J y : dual_cone J y <->
  forall i, (i < length J)%nat -> 0 <= dotR (nth i J []) y.
Proof.
  unfold dual_cone, nonneg. rewrite Forall_nth. rewrite length_mv. split.
  - intros H i Hi. rewrite <- nth_mv by exact Hi. apply H. exact Hi.
  - intros H i d Hi. rewrite (nth_indep _ d 0) by (rewrite length_mv; exact Hi).
    rewrite nth_mv by exact Hi. apply H. exact Hi.
Qed.

Theorem dual_cone_projection n J u w : wfmat n J -> is_min (length J) (gramR J) u w ->
  let x := vmR n w J in
  let p := vmR n u J in
  dual_cone J x /\
  (forall y, length y = n -> dual_cone J y -> 0 <= dotR (vsubR x p) (vsubR y x)) /\
  (forall y, length y = n -> dual_cone J y ->
     dotR (vsubR x p) (vsubR x p) <= dotR (vsubR y p) (vsubR y p)).
Proof.
  intros HJ Hmin x p.
  set (m := length J) in *. set (G := gramR J) in *.
  assert (HG : length G = m) by apply length_gram.
  assert (Hsym : symm m G) by (apply (symm_gram n); exact HJ).
  pose proof Hmin as (Hw & Hf & _).
  assert (Hu : length u = m) by (rewrite (feasible_length _ _ Hf); exact Hw).
  assert (Hlx : length x = n) by (apply length_vm; exact HJ).
  assert (Hlp : length p = n) by (apply length_vm; exact HJ).
  (* (i) *)
  assert (Hcone : dual_cone J x).
  { apply dual_cone_rows. intros i Hi. fold m in Hi.
    rewrite <- nth_mv by exact Hi. unfold x. rewrite <- (mv_gram n) by assumption. fold G.
    assert (Hfe : feasible u (vaddR w (onehotR m i 1))).
    { eapply feasible_trans; [exact Hf|]. rewrite <- Hw. apply feasible_add_onehot. lra. }
    pose proof (is_min_first_order m G u w (onehotR m i 1) HG Hsym Hmin (length_onehot _ _ _) Hfe)
      as H1.
    unfold bil in H1. rewrite dot_onehot_l in H1 by (try exact Hi; rewrite length_mv; exact HG).
    lra. }
  (* (ii) *)
  assert (Hvar : forall y, length y = n -> dual_cone J y -> 0 <= dotR (vsubR x p) (vsubR y x)).
  { intros y Hy Hyc.
    assert (Hfe : feasible u (vaddR w (vsubR u w))).
    { rewrite vadd_vsub by congruence. apply feasible_refl. }
    assert (Hld : length (vsubR u w) = m) by (rewrite length_vsub; congruence).
    pose proof (is_min_first_order m G u w (vsubR u w) HG Hsym Hmin Hld Hfe) as H1.
    unfold bil in H1. rewrite dot_vsub_l in H1 by congruence.
    pose proof (dot_nonneg _ _ (nonneg_vsub_feasible u w Hf) Hyc) as H2.
    rewrite dot_vsub_l in H2 by congruence.
    rewrite dot_vsub_l by congruence. rewrite !dot_vsub_r by congruence.
    assert (Exy : dotR x y = dotR w (mvR J y)) by (unfold x; apply dot_vm; assumption).
    assert (Epy : dotR p y = dotR u (mvR J y)) by (unfold p; apply dot_vm; assumption).
    assert (Exx : dotR x x = dotR w (mvR G w)) by (unfold x, G; symmetry; apply quad_gram; assumption).
    assert (Epx : dotR p x = dotR u (mvR G w)) by (unfold p, x, G; symmetry; apply bil_gram; assumption).
    lra. }
  split; [exact Hcone|]. split; [exact Hvar|].
  (* (iii) *)
  intros y Hy Hyc. specialize (Hvar y Hy Hyc).
  pose proof (dot_self_nonneg (vsubR y x)) as Hp.
  rewrite dot_vsub_l in Hvar, Hp by congruence. rewrite !dot_vsub_r in Hvar, Hp by congruence.
  rewrite !dot_vsub_l by congruence. rewrite !dot_vsub_r by congruence.
  rewrite (dot_comm x y) in *. rewrite (dot_comm x p) in *. rewrite (dot_comm y p) in *.
  lra.
Qed.

(* the same for the model: DualProj with reg_eps = 0 returns the projection of u . J (the mean
   row for the default preference) on the dual cone, whenever the QP oracle is correct *)
Lemma is_min_unregularised J s ne u w : 0 < s -> nltb RN s ne = false ->
  is_min (length J) (reg_norm_gramian RN (gramR J) s ne 0) u w ->
  is_min (length J) (gramR J) u w.
Proof.
  intros Hs Hne (Hw & Hf & Hmin). split; [exact Hw|]. split; [exact Hf|].
  intros v Hv Hfv. specialize (Hmin v Hv Hfv). unfold qf in *.
  rewrite !(bil_M J s ne 0 Hne) in Hmin by assumption. pose proof (c_pos s Hs) as Hc.
  apply (Rmult_le_reg_l (1 / (s * s))); [exact Hc | lra].
Qed.

Theorem dualproj_unregularised_projection n J s ne pref qp :
  wfmat n J -> J <> [] -> 0 < s -> nltb RN s ne = false -> pref_ok pref (length J) ->
  let m := length J in
  let u := pref_u pref m in
  let M := reg_norm_gramian RN (gramR J) s ne 0 in
  is_min m M u (qp M u) ->
  let x := vmR n (qp M u) J in
  let p := vmR n u J in
  agg_dualproj RN qp pref s ne 0 J = Ok x /\
  dual_cone J x /\
  (forall y, length y = n -> dual_cone J y -> 0 <= dotR (vsubR x p) (vsubR y x)) /\
  (forall y, length y = n -> dual_cone J y ->
     dotR (vsubR x p) (vsubR x p) <= dotR (vsubR y p) (vsubR y p)).
Proof.
  intros HJ HJne Hs Hne Hpref m u M Hq x p. split.
  - unfold agg_dualproj. rewrite pref_weights_ok by exact Hpref. cbn [rbind].
    unfold dualproj_weights, combine_rows. rewrite (ncols_wf n) by assumption. reflexivity.
  - apply (dual_cone_projection n J u (qp M u) HJ).
    apply (is_min_unregularised J s ne); assumption.
Qed.

(* ====================================================================================== *)
(* M2, continued                                                                          *)
(* ====================================================================================== *)

(* ---- the contract follows from genuine optimality of the conic program ---- *)
Lemma sqrt_tangent r Y : 0 < r -> 0 <= Y -> sqrt Y <= r + (Y - r * r) / (2 * r).
Proof.
  intros Hr HY. set (s := sqrt Y).
  assert (Hs : s * s = Y) by (apply sqrt_sqrt; exact HY).
  rewrite <- Hs.
  replace (r + (s * s - r * r) / (2 * r)) with (s + (s - r) * (s - r) / (2 * r)) by (field; lra).
  assert (0 <= (s - r) * (s - r) / (2 * r)).
  { apply Rmult_le_pos; [apply Rle_0_sqr | apply Rlt_le, Rinv_0_lt_compat; lra]. }
  lra.
Qed.

Lemma conic_real L0 bi Q0 yi ci K r : 0 < r -> r * r = Q0 -> 0 <= K ->
  (forall t, 0 < t <= 1 ->
     let Qt := (1 - t) * (1 - t) * Q0 + 2 * (t * (1 - t)) * yi + t * t * ci in
     0 <= Qt /\ L0 + K * r <= (1 - t) * L0 + t * bi + K * sqrt Qt) ->
  L0 + K * r <= bi + K * (yi / r).
Proof.
  intros Hr HQ0 HK H.
  set (B := ((bi - L0) + K * ((yi - Q0) / r)) / 2).
  set (Q := K * ((Q0 - 2 * yi + ci) / (2 * r))).
  assert (HB : 0 <= B).
  { apply (first_order_real B Q). intros t Ht. specialize (H t Ht). cbv zeta in H.
    destruct H as [HQt H].
    set (Qt := (1 - t) * (1 - t) * Q0 + 2 * (t * (1 - t)) * yi + t * t * ci) in *.
    pose proof (sqrt_tangent r Qt Hr HQt) as Hs.
    pose proof (Rmult_le_compat_l K _ _ HK Hs) as Hs'.
    assert (E : 2 * t * B + t * t * Q = t * (bi - L0) + K * ((Qt - r * r) / (2 * r))).
    { unfold B, Q, Qt. rewrite HQ0. field. lra. }
    rewrite E. lra. }
  assert (E : bi + K * (yi / r) - (L0 + K * r) = 2 * B).
  { unfold B. rewrite <- HQ0. field. lra. }
  lra.
Qed.

Section ConicFOC.
Variables (m : nat) (M : list (list R)) (b : list R) (K : R).
Hypothesis HM : length M = m.
Hypothesis Hsym : symm m M.
Hypothesis Hpsd : psd m M.
Hypothesis Hb : length b = m.
Hypothesis HK : 0 <= K.

(* if w minimises  v |-> <v, b> + K sqrt (v^T M v)  over the simplex and w^T M w > 0, then the
   first-order condition holds against every vertex *)
Lemma conic_foc w i : simplex m w ->
  (forall v, simplex m v ->
     dotR w b + K * sqrt (qf M w) <= dotR v b + K * sqrt (qf M v)) ->
  0 < sqrt (qf M w) -> (i < m)%nat ->
  dotR w b + K * sqrt (qf M w) <= nth i b 0 + K * (nth i (mvR M w) 0 / sqrt (qf M w)).
Proof.
  intros Hw Hmin Hpos Hi.
  set (e := onehotR m i 1).
  assert (Hle : length e = m) by apply length_onehot.
  pose proof (proj1 Hw) as Hlw.
  assert (He : simplex m e) by (apply simplex_onehot; exact Hi).
  assert (HQ0 : sqrt (qf M w) * sqrt (qf M w) = qf M w) by (apply sqrt_sqrt, Hpsd; exact Hlw).
  apply (conic_real _ _ (qf M w) _ (qf M e)); [exact Hpos | exact HQ0 | exact HK |].
  intros t Ht. cbv zeta.
  set (wt := vaddR (vscaleR (1 - t) w) (vscaleR t e)).
  assert (Hwt : simplex m wt) by (apply simplex_convex; [lra | exact Hw | exact He]).
  assert (EL : dotR wt b = (1 - t) * dotR w b + t * nth i b 0).
  { unfold wt. rewrite dot_vadd_l by (rewrite !length_vscale; congruence).
    rewrite !dot_vscale_l. unfold e. rewrite dot_onehot_l by assumption. lra. }
  assert (Eew : dotR e (mvR M w) = nth i (mvR M w) 0).
  { unfold e. rewrite dot_onehot_l by (try exact Hi; rewrite length_mv; exact HM). lra. }
  assert (Ewe : dotR w (mvR M e) = nth i (mvR M w) 0).
  { rewrite <- Eew. apply (Hsym w e); assumption. }
  assert (EQ : qf M wt = (1 - t) * (1 - t) * qf M w + 2 * (t * (1 - t)) * nth i (mvR M w) 0 +
                         t * t * qf M e).
  { unfold qf, bil, wt.
    rewrite mv_vadd by (rewrite !length_vscale; congruence). rewrite !mv_vscale.
    rewrite dot_vadd_l by (rewrite !length_vscale; congruence).
    rewrite !dot_vadd_r by (rewrite !length_vscale, !length_mv; reflexivity).
    rewrite !dot_vscale_l, !dot_vscale_r. rewrite Eew, Ewe. ring. }
  rewrite <- EQ, <- EL. split; [apply Hpsd; apply Hwt | apply Hmin; exact Hwt].
Qed.
End ConicFOC.

(* w_opt is an optimal point of the conic program of CAGrad, in Gramian form *)
Definition cagrad_opt (Gn : list (list R)) (c : R) (w_opt : list R) : Prop :=
  let m := length Gn in
  let mean := mean_weights RN m in
  let g0n := sqrt (quadform RN Gn mean) in
  let F := fun w => dotR w (mvR Gn mean) + c * g0n * sqrt (quadform RN Gn w) in
  simplex m w_opt /\ forall w, simplex m w -> F w_opt <= F w.

Lemma bil_mscale k G x y : bil (mscale RN k G) x y = k * bil G x y.
Proof. unfold bil. rewrite mv_mscale, dot_vscale_r. reflexivity. Qed.

Theorem cagrad_opt_foc n J s ne c w_opt : wfmat n J -> 0 < s -> nltb RN s ne = false ->
  0 <= c ->
  let Gn := normalized_gramian RN (gramR J) s ne in
  0 < sqrt (quadform RN Gn w_opt) ->
  cagrad_opt Gn c w_opt -> cagrad_foc Gn c w_opt.
Proof.
  intros HJ Hs Hsne Hc Gn Hpos [Hsx Hmin]. cbv zeta in Hmin.
  set (m := length J).
  assert (HlGn : length Gn = m).
  { unfold Gn. rewrite length_normalized_big by exact Hsne. apply length_gram. }
  rewrite HlGn in Hsx, Hmin.
  assert (HGn : Gn = mscale RN (1 / (s * s)) (gramR J)).
  { unfold Gn, normalized_gramian. rewrite Hsne. reflexivity. }
  pose proof (c_pos s Hs) as Hk.
  assert (Hsym : symm m Gn).
  { intros x y Hx Hy. rewrite HGn, !bil_mscale. f_equal. apply (symm_gram n); assumption. }
  assert (Hpsd : psd m Gn).
  { intros x Hx. unfold qf. rewrite HGn, bil_mscale. apply Rmult_le_pos; [lra|].
    unfold bil. apply (quad_gram_nonneg n); assumption. }
  unfold cagrad_foc. cbv zeta. rewrite HlGn. intros i Hi.
  set (mean := mean_weights RN m) in *.
  set (g0n := sqrt (quadform RN Gn mean)) in *.
  assert (Hg0n : 0 <= c * g0n) by (apply Rmult_le_pos; [exact Hc | apply sqrt_pos]).
  assert (Hlb : length (mvR Gn mean) = m) by (rewrite length_mv; exact HlGn).
  pose proof (conic_foc m Gn (mvR Gn mean) (c * g0n) HlGn Hsym Hpsd Hlb Hg0n w_opt i Hsx) as H.
  rewrite nth_mv in H by (rewrite HlGn; exact Hi).
  change (qf Gn w_opt) with (quadform RN Gn w_opt) in H.
  rewrite nth_mv by (rewrite HlGn; exact Hi).
  apply H; [|exact Hpos|exact Hi].
  intros v Hv. apply (Hmin v Hv).
Qed.

(* M2 from genuine optimality *)
Corollary cagrad_c_ge_1_nonconflicting_opt n J s ne c w_opt :
  wfmat n J -> J <> [] -> 0 < s -> nltb RN s ne = false -> 0 < ne -> 1 <= c ->
  let Gn := normalized_gramian RN (gramR J) s ne in
  nleb RN ne (sqrt (quadform RN Gn w_opt)) = true ->
  cagrad_opt Gn c w_opt ->
  forall i, (i < length J)%nat -> 0 <= nth i (mvR J (agg_cagrad RN s ne c w_opt J)) 0.
Proof.
  intros HJ HJne Hs Hsne Hne Hc Gn Hbig Hopt.
  assert (HlGn : length Gn = length J).
  { unfold Gn. rewrite length_normalized_big by exact Hsne. apply length_gram. }
  assert (Hlw : length w_opt = length J).
  { destruct Hopt as [Hsx _]. cbv zeta in Hsx. rewrite HlGn in Hsx. apply Hsx. }
  assert (Hpos : 0 < sqrt (quadform RN Gn w_opt)) by (rn; apply Rleb_true in Hbig; lra).
  apply (cagrad_c_ge_1_nonconflicting n J s ne c w_opt); try assumption.
  apply (cagrad_opt_foc n J s ne c w_opt); try assumption. lra.
Qed.

Print Assumptions cagrad_c_ge_1_nonconflicting.
Print Assumptions cagrad_below_threshold_nonconflicting.
Print Assumptions cagrad_opt_foc.
Print Assumptions cagrad_c_ge_1_nonconflicting_opt.
Print Assumptions mgda_step_2x2.
Print Assumptions mgda_two_rows_one_step.
Print Assumptions mgda_two_rows_hull_min.
Print Assumptions mgda_two_rows_output.
Print Assumptions mgda_two_rows_nonconflicting.
Print Assumptions hull_min_unique.
Print Assumptions is_min_first_order.
Print Assumptions dual_cone_projection.
Print Assumptions dualproj_unregularised_projection.
