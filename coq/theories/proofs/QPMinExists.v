(* QPMinExists.v — the quadratic program of UPGrad / DualProj has a (unique) minimiser.
   (A) a function on a box that is Lipschitz for the l1 distance attains its minimum
       (induction on the dimension; the only compactness used is the one-dimensional
       [continuity_ab_min]; the value function of the inner minimisation is DEFINED as an
       infimum through [completeness], so no choice axiom is needed);
   (B) a symmetric coercive quadratic form attains its minimum on { v >= u };
   (C) the instance M = reg_norm_gramian (gram J) s ne re with re > 0. *)
From Coq Require Import Reals List Bool Arith Lia Lra Psatz.
From TJ Require Import Num Linalg NumR Agg.
From TJ.proofs Require Import LinalgR QPProofs.
Import ListNotations.
Local Open Scope R_scope.

(* ---------- 0. infimum of F over P, defined without choice ---------- *)
Section Inf.
Context {A : Type} (P : A -> Prop) (F : A -> R).
Definition has_min : Prop := exists w, P w /\ forall v, P v -> F w <= F v.
Definition negvalsP (x : R) : Prop := exists v, P v /\ x = - F v.

Lemma negvalsP_bound : has_min -> bound negvalsP.
Proof.
  intros (w & Hw & Hmin). exists (- F w). intros x (v & Hv & ->). specialize (Hmin v Hv). lra.
Qed.

Lemma negvalsP_ex : has_min -> exists x, negvalsP x.
Proof. intros (w & Hw & _). exists (- F w), w. split; [exact Hw | reflexivity]. Qed.

Definition infP (H : has_min) : R :=
  - proj1_sig (completeness negvalsP (negvalsP_bound H) (negvalsP_ex H)).

Lemma infP_le (H : has_min) (v : A) : P v -> infP H <= F v.
Proof.
  intros Hv. unfold infP.
  generalize (completeness negvalsP (negvalsP_bound H) (negvalsP_ex H)).
  intros [l Hl]. cbn [proj1_sig]. destruct Hl as [Hub _].
  assert (Hin : negvalsP (- F v)) by (exists v; split; [exact Hv | reflexivity]).
  specialize (Hub _ Hin). lra.
Qed.

Lemma infP_attained (H : has_min) (w : A) : P w -> (forall v, P v -> F w <= F v) -> infP H = F w.
Proof.
  intros Hw Hmin. apply Rle_antisym; [apply infP_le; exact Hw|].
  unfold infP.
  generalize (completeness negvalsP (negvalsP_bound H) (negvalsP_ex H)).
  intros [l Hl]. cbn [proj1_sig]. destruct Hl as [_ Hlub].
  assert (Hub : is_upper_bound negvalsP (- F w)).
  { intros x (v & Hv & ->). specialize (Hmin v Hv). lra. }
  specialize (Hlub _ Hub). lra.
Qed.
End Inf.

(* ---------- 1. a one-sided Lipschitz bound gives continuity ---------- *)
Lemma lip_continuity_gen (phi : R -> R) L c : 0 <= L ->
  (forall t s, phi t - phi s <= L * Rabs (t - s)) -> continuity_pt phi c.
Proof.
  intros HL Hlip. unfold continuity_pt, continue_in, limit1_in, limit_in.
  intros eps Heps.
  assert (HL1 : 0 < L + 1) by lra.
  assert (Hq : 0 < eps / (L + 1)) by (apply Rdiv_lt_0_compat; lra).
  exists (eps / (L + 1)). split; [exact Hq|].
  intros x [_ Hd]. cbn [dist R_met Base] in *. unfold R_dist in *.
  pose proof (Hlip x c) as H1. pose proof (Hlip c x) as H2.
  rewrite (Rabs_minus_sym c x) in H2.
  pose proof (Rabs_pos (x - c)) as Hp.
  assert (H3 : (L + 1) * Rabs (x - c) < eps).
  { apply (Rmult_lt_compat_l (L + 1)) in Hd; [|exact HL1].
    replace ((L + 1) * (eps / (L + 1))) with eps in Hd by (field; lra). exact Hd. }
  assert (H4 : L * Rabs (x - c) < eps).
  { assert (L * Rabs (x - c) <= (L + 1) * Rabs (x - c)) by (apply Rmult_le_compat_r; lra). lra. }
  apply Rabs_def1; lra.
Qed.

(* clamping to [a,b] *)
Definition clamp (a b t : R) : R := Rmax a (Rmin b t).

Lemma clamp_in a b t : a <= b -> a <= clamp a b t <= b.
Proof.
  intros Hab. unfold clamp, Rmax, Rmin.
  destruct (Rle_dec b t); destruct (Rle_dec a _); lra.
Qed.

Lemma clamp_id a b t : a <= t <= b -> clamp a b t = t.
Proof.
  intros Ht. unfold clamp, Rmax, Rmin.
  destruct (Rle_dec b t); destruct (Rle_dec a _); lra.
Qed.

Lemma clamp_lip a b t s : a <= b -> Rabs (clamp a b t - clamp a b s) <= Rabs (t - s).
Proof.
  intros Hab. unfold clamp, Rmax, Rmin.
  destruct (Rle_dec b t); destruct (Rle_dec b s);
    repeat match goal with |- context [Rle_dec a ?x] => destruct (Rle_dec a x) end;
    unfold Rabs; repeat destruct Rcase_abs; lra.
Qed.

(* ---------- 2. boxes and the l1 norm ---------- *)
Definition inbox (lo hi v : list R) : Prop := Forall2 Rle lo v /\ Forall2 Rle v hi.
Definition l1 (v : list R) : R := vsumR (map Rabs v).

Lemma l1_nil : l1 [] = 0.
Proof. reflexivity. Qed.
Lemma l1_cons x v : l1 (x :: v) = Rabs x + l1 v.
Proof. reflexivity. Qed.
Lemma l1_nonneg v : 0 <= l1 v.
Proof.
  induction v as [|x v IH]; [rewrite l1_nil; lra|]. rewrite l1_cons. pose proof (Rabs_pos x). lra.
Qed.

Lemma vsub_cons x a y b : vsubR (x :: a) (y :: b) = (x - y) :: vsubR a b.
Proof. reflexivity. Qed.

Lemma inbox_length lo hi v : inbox lo hi v -> length v = length lo.
Proof. intros [H _]. symmetry. apply feasible_length. exact H. Qed.

Lemma inbox_cons a lo b hi t v : inbox (a :: lo) (b :: hi) (t :: v) <-> (a <= t <= b /\ inbox lo hi v).
Proof.
  unfold inbox. split.
  - intros [H1 H2]. inversion H1; subst. inversion H2; subst. tauto.
  - intros [[H1 H2] [H3 H4]]. split; constructor; assumption.
Qed.

Lemma inbox_lo lo hi : Forall2 Rle lo hi -> inbox lo hi lo.
Proof. intros H. split; [apply feasible_refl | exact H]. Qed.

(* ---------- 3. (A) a Lipschitz function on a box attains its minimum ---------- *)
Theorem box_min_exists : forall m (lo hi : list R) (f : list R -> R) (L : R),
  length lo = m -> length hi = m -> Forall2 Rle lo hi -> 0 <= L ->
  (forall v v', inbox lo hi v -> inbox lo hi v' -> f v - f v' <= L * l1 (vsubR v v')) ->
  exists w, inbox lo hi w /\ forall v, inbox lo hi v -> f w <= f v.
Proof.
  induction m as [|m IH]; intros lo hi f L Hlo Hhi Hlh HL Hlip.
  - destruct lo; [|cbn in Hlo; lia]. destruct hi; [|cbn in Hhi; lia].
    exists []. split; [split; constructor|].
    intros v [Hv _]. inversion Hv; subst. lra.
  - destruct lo as [|a lo']; [cbn in Hlo; lia|]. destruct hi as [|b hi']; [cbn in Hhi; lia|].
    cbn [length] in Hlo, Hhi.
    inversion Hlh as [|? ? ? ? Hab Hlh']; subst.
    set (P := inbox lo' hi').
    set (F := fun t v' => f (clamp a b t :: v')).
    assert (HIH : forall t, has_min P (F t)).
    { intros t. apply (IH lo' hi' (F t) L); try lia; try assumption.
      intros v v' Hv Hv'. unfold F.
      pose proof (clamp_in a b t Hab) as Hc.
      assert (B1 : inbox (a :: lo') (b :: hi') (clamp a b t :: v)) by (apply inbox_cons; tauto).
      assert (B2 : inbox (a :: lo') (b :: hi') (clamp a b t :: v')) by (apply inbox_cons; tauto).
      pose proof (Hlip _ _ B1 B2) as H. rewrite vsub_cons, l1_cons in H.
      replace (clamp a b t - clamp a b t) with 0 in H by ring. rewrite Rabs_R0 in H. lra. }
    set (phi := fun t => infP P (F t) (HIH t)).
    assert (Hphi : forall t s, phi t - phi s <= L * Rabs (t - s)).
    { intros t s. destruct (HIH s) as (ws & Hws & Hmins).
      unfold phi. rewrite (infP_attained P (F s) (HIH s) ws Hws Hmins).
      pose proof (infP_le P (F t) (HIH t) ws Hws) as Hle.
      unfold F in *.
      pose proof (clamp_in a b t Hab) as Hct. pose proof (clamp_in a b s Hab) as Hcs.
      assert (B1 : inbox (a :: lo') (b :: hi') (clamp a b t :: ws)) by (apply inbox_cons; tauto).
      assert (B2 : inbox (a :: lo') (b :: hi') (clamp a b s :: ws)) by (apply inbox_cons; tauto).
      pose proof (Hlip _ _ B1 B2) as H. rewrite vsub_cons, l1_cons in H.
      assert (Z : l1 (vsubR ws ws) = 0).
      { clear. induction ws as [|x ws IHw]; [reflexivity|]. rewrite vsub_cons, l1_cons, IHw.
        replace (x - x) with 0 by ring. rewrite Rabs_R0. lra. }
      rewrite Z in H. pose proof (clamp_lip a b t s Hab) as Hcl.
      assert (L * Rabs (clamp a b t - clamp a b s) <= L * Rabs (t - s))
        by (apply Rmult_le_compat_l; assumption).
      lra. }
    destruct (continuity_ab_min phi a b Hab) as (ts & Hts & Htsab).
    { intros c _. apply (lip_continuity_gen phi L c HL Hphi). }
    destruct (HIH ts) as (ws & Hws & Hmins).
    exists (ts :: ws). split; [apply inbox_cons; tauto|].
    intros v Hv. destruct v as [|t v']; [destruct Hv as [Hv _]; inversion Hv|].
    apply inbox_cons in Hv. destruct Hv as [Ht Hv'].
    pose proof (infP_attained P (F ts) (HIH ts) ws Hws Hmins) as E1.
    pose proof (infP_le P (F t) (HIH t) v' Hv') as E2.
    assert (E3 : F ts ws = f (ts :: ws)) by (unfold F; rewrite (clamp_id a b ts Htsab); reflexivity).
    assert (E4 : F t v' = f (t :: v')) by (unfold F; rewrite (clamp_id a b t Ht); reflexivity).
    specialize (Hts t Ht). unfold phi in Hts. lra.
Qed.

(* ---------- 4. l1 bounds for dot, mv, bil ---------- *)
Lemma abs_dot_l1 : forall r y, Rabs (dotR r y) <= l1 r * l1 y.
Proof.
  induction r as [|x r IH]; intros [|z y]; rewrite ?dot_nil_l, ?dot_nil_r, ?l1_nil, ?l1_cons.
  - rewrite Rabs_R0. lra.
  - rewrite Rabs_R0. lra.
  - rewrite Rabs_R0. pose proof (Rabs_pos x). pose proof (l1_nonneg r). lra.
  - rewrite dot_cons. specialize (IH y).
    pose proof (Rabs_triang (x * z) (dotR r y)) as T. rewrite Rabs_mult in T.
    pose proof (Rabs_pos x) as Px. pose proof (Rabs_pos z) as Pz.
    pose proof (l1_nonneg r) as Pr. pose proof (l1_nonneg y) as Py.
    assert (Q1 : 0 <= Rabs x * l1 y) by (apply Rmult_le_pos; assumption).
    assert (Q2 : 0 <= l1 r * Rabs z) by (apply Rmult_le_pos; assumption).
    replace ((Rabs x + l1 r) * (Rabs z + l1 y))
      with (Rabs x * Rabs z + l1 r * l1 y + Rabs x * l1 y + l1 r * Rabs z) by ring.
    lra.
Qed.

Definition Ksum (M : list (list R)) : R := vsumR (map l1 M).

Lemma Ksum_nonneg M : 0 <= Ksum M.
Proof.
  unfold Ksum. induction M as [|r M IH]; [cbn; lra|]. cbn [map]. rewrite vsum_cons.
  pose proof (l1_nonneg r). lra.
Qed.

Lemma l1_mv M y : l1 (mvR M y) <= Ksum M * l1 y.
Proof.
  unfold Ksum. induction M as [|r M IH].
  - cbn [mv map]. rewrite l1_nil. cbn. lra.
  - cbn [mv map]. fold (mvR M y). rewrite l1_cons, vsum_cons.
    pose proof (abs_dot_l1 r y). lra.
Qed.

Lemma abs_bil_l1 M x y : Rabs (bil M x y) <= Ksum M * (l1 x * l1 y).
Proof.
  unfold bil. eapply Rle_trans; [apply abs_dot_l1|].
  pose proof (l1_mv M y) as H. pose proof (l1_nonneg x) as Px.
  assert (l1 x * l1 (mvR M y) <= l1 x * (Ksum M * l1 y)) by (apply Rmult_le_compat_l; assumption).
  lra.
Qed.

Lemma l1_vsub_le : forall a b, l1 (vsubR a b) <= l1 a + l1 b.
Proof.
  induction a as [|x a IH]; intros [|y b]; cbn [vsub]; rewrite ?l1_nil, ?l1_cons.
  - lra.
  - pose proof (Rabs_pos y). pose proof (l1_nonneg b). lra.
  - pose proof (Rabs_pos x). pose proof (l1_nonneg a). lra.
  - rn. specialize (IH b). unfold Rminus at 1.
    pose proof (Rabs_triang x (- y)) as T. rewrite Rabs_Ropp in T. lra.
Qed.

Lemma inbox_l1 lo hi v : inbox lo hi v -> l1 v <= l1 lo + l1 hi.
Proof.
  intros [H1 H2]. revert hi H2. induction H1 as [|a x lo v Hax Hlv IH]; intros hi H2.
  - inversion H2; subst. rewrite !l1_nil. lra.
  - inversion H2 as [|? b ? hi' Hxb Hvh]; subst. rewrite !l1_cons. specialize (IH _ Hvh).
    assert (Rabs x <= Rabs a + Rabs b) by (unfold Rabs; repeat destruct Rcase_abs; lra).
    lra.
Qed.

(* ---------- 5. a quadratic form is Lipschitz on a box ---------- *)
Lemma qf_lip_box m M lo hi : length M = m -> symm m M -> length lo = m ->
  forall v v', inbox lo hi v -> inbox lo hi v' ->
  qf M v - qf M v' <= 4 * Ksum M * (l1 lo + l1 hi) * l1 (vsubR v v').
Proof.
  intros HM Hs Hlo v v' Hv Hv'.
  assert (Lv : length v = m) by (rewrite (inbox_length _ _ _ Hv); exact Hlo).
  assert (Lv' : length v' = m) by (rewrite (inbox_length _ _ _ Hv'); exact Hlo).
  set (d := vsubR v v').
  assert (Ld : length d = m) by (unfold d; rewrite length_vsub; congruence).
  assert (E : v = vaddR v' d) by (unfold d; symmetry; apply vadd_vsub; congruence).
  rewrite E at 1. rewrite (qf_expand m M v' d HM Hs Lv' Ld).
  set (S := l1 lo + l1 hi).
  pose proof (inbox_l1 _ _ _ Hv) as Bv. pose proof (inbox_l1 _ _ _ Hv') as Bv'. fold S in Bv, Bv'.
  pose proof (l1_vsub_le v v') as Bd. fold d in Bd.
  pose proof (l1_nonneg d) as Pd. pose proof (l1_nonneg v') as Pv'. pose proof (Ksum_nonneg M) as PK.
  pose proof (abs_bil_l1 M d v') as A1. pose proof (abs_bil_l1 M d d) as A2.
  pose proof (Rle_abs (bil M d v')) as R1. pose proof (Rle_abs (bil M d d)) as R2.
  unfold qf at 2.
  assert (Q1 : l1 d * l1 v' <= l1 d * S) by (apply Rmult_le_compat_l; lra).
  assert (Q2 : l1 d * l1 d <= l1 d * (2 * S)) by (apply Rmult_le_compat_l; lra).
  assert (Q3 : Ksum M * (l1 d * l1 v') <= Ksum M * (l1 d * S)) by (apply Rmult_le_compat_l; lra).
  assert (Q4 : Ksum M * (l1 d * l1 d) <= Ksum M * (l1 d * (2 * S))) by (apply Rmult_le_compat_l; lra).
  replace (4 * Ksum M * S * l1 d) with (2 * (Ksum M * (l1 d * S)) + Ksum M * (l1 d * (2 * S))) by ring.
  lra.
Qed.

(* ---------- 6. (B) a symmetric coercive quadratic form attains its minimum on {v >= u} -------- *)
Lemma dot_self_le_box : forall (v : list R) c, dotR v v <= c ->
  Forall2 Rle v (repeat (1 + c) (length v)).
Proof.
  induction v as [|x v IH]; intros c H; [constructor|].
  rewrite dot_cons in H. pose proof (dot_self_nonneg v) as P. cbn [length repeat].
  constructor; [nra|]. apply IH. nra.
Qed.

Theorem qp_min_exists_gen : forall m (M : list (list R)) (re : R) (u : list R),
  length M = m -> symm m M -> 0 < re ->
  (forall x, length x = m -> re * dotR x x <= qf M x) ->
  length u = m ->
  exists w, is_min m M u w.
Proof.
  intros m M re u HM Hs Hre Hco Hu.
  set (B := qf M u). set (c := B / re).
  set (hi := repeat (1 + c) m).
  assert (Hbox : forall v, length v = m -> qf M v <= B -> Forall2 Rle v hi).
  { intros v Lv Hq. unfold hi. rewrite <- Lv. apply dot_self_le_box.
    pose proof (Hco v Lv) as H1. unfold c.
    apply Rmult_le_reg_l with re; [exact Hre|].
    replace (re * (B / re)) with B by (field; lra). lra. }
  assert (Huh : Forall2 Rle u hi) by (apply Hbox; [exact Hu | unfold B; lra]).
  assert (Lhi : length hi = m) by (unfold hi; apply repeat_length).
  destruct (box_min_exists m u hi (qf M) (4 * Ksum M * (l1 u + l1 hi)) Hu Lhi Huh)
    as (w & Hw & Hmin).
  { pose proof (Ksum_nonneg M). pose proof (l1_nonneg u). pose proof (l1_nonneg hi).
    apply Rmult_le_pos; [apply Rmult_le_pos|]; lra. }
  { apply (qf_lip_box m M u hi HM Hs Hu). }
  exists w. split; [rewrite (inbox_length _ _ _ Hw); exact Hu|]. split; [apply Hw|].
  intros v Lv Hf.
  pose proof (Hmin u (inbox_lo u hi Huh)) as Hwu. fold B in Hwu.
  destruct (Rle_dec (qf M v) B) as [Hq|Hq].
  - apply Hmin. split; [exact Hf | apply Hbox; assumption].
  - apply Rnot_le_lt in Hq. lra.
Qed.

(* uniqueness under strict coercivity (same argument as QPProofs.min_unique) *)
Theorem qp_min_unique_gen : forall m (M : list (list R)) (re : R) (u w1 w2 : list R),
  length M = m -> symm m M -> 0 < re ->
  (forall x, length x = m -> re * dotR x x <= qf M x) ->
  is_min m M u w1 -> is_min m M u w2 -> w1 = w2.
Proof.
  intros m M re u w1 w2 HM Hs Hre Hco (Hl1 & Hf1 & Hm1) (Hl2 & Hf2 & Hm2).
  set (d := vsubR w2 w1).
  assert (Hd : length d = m) by (unfold d; rewrite length_vsub; congruence).
  assert (E : w2 = vaddR w1 d) by (unfold d; symmetry; apply vadd_vsub; congruence).
  set (h := vaddR w1 (vscaleR (1/2) d)).
  assert (Hh : length h = m) by (unfold h; rewrite length_vadd; rewrite ?length_vscale; congruence).
  assert (Hfh : feasible u h).
  { unfold h, d. clear -Hf1 Hf2. revert w2 Hf2. induction Hf1 as [|a b U W1 Hab HUW IH]; intros w2 Hf2.
    - inversion Hf2; subst. constructor.
    - inversion Hf2 as [|a' b2 U' W2 Hab2 HUW2]; subst. cbn [vsub vscale map vadd].
      constructor; [rn; lra|]. apply IH. exact HUW2. }
  pose proof (Hm1 h Hh Hfh) as H1. pose proof (Hm2 h Hh Hfh) as H2.
  pose proof (qf_expand m M w1 d HM Hs Hl1 Hd) as X2. rewrite <- E in X2.
  assert (Hhd : length (vscaleR (1/2) d) = m) by (rewrite length_vscale; exact Hd).
  pose proof (qf_expand m M w1 (vscaleR (1/2) d) HM Hs Hl1 Hhd) as Xh. fold h in Xh.
  assert (Bq : bil M (vscaleR (1/2) d) w1 = 1/2 * bil M d w1) by (unfold bil; apply dot_vscale_l).
  assert (Q : qf M (vscaleR (1/2) d) = 1/4 * qf M d).
  { unfold qf, bil. rewrite mv_vscale, dot_vscale_l, dot_vscale_r. lra. }
  rewrite Bq, Q in Xh.
  pose proof (Hco d Hd) as Lo. pose proof (dot_self_nonneg d) as Pd.
  assert (Z : dotR d d = 0) by nra.
  apply dot_self_zero in Z. rewrite E, Z. symmetry. apply vadd_vzero_r. congruence.
Qed.

Corollary qp_min_exists_unique_gen : forall m (M : list (list R)) (re : R) (u : list R),
  length M = m -> symm m M -> 0 < re ->
  (forall x, length x = m -> re * dotR x x <= qf M x) ->
  length u = m ->
  exists w, is_min m M u w /\ forall w', is_min m M u w' -> w' = w.
Proof.
  intros m M re u HM Hs Hre Hco Hu.
  destruct (qp_min_exists_gen m M re u HM Hs Hre Hco Hu) as (w & Hw).
  exists w. split; [exact Hw|]. intros w' Hw'.
  apply (qp_min_unique_gen m M re u w' w HM Hs Hre Hco Hw' Hw).
Qed.

(* ---------- 7. (C) the regularised normalised Gramian of UPGrad / DualProj ---------- *)
Lemma reg_norm_gramian_symm_coercive n J s ne re : wfmat n J ->
  (nltb RN s ne = false -> 0 < s) -> 0 <= re ->
  let M := reg_norm_gramian RN (gramR J) s ne re in
  length M = length J /\ symm (length J) M /\
  (forall x, length x = length J -> re * dotR x x <= qf M x).
Proof.
  intros HJ Hs Hre M. destruct (nltb RN s ne) eqn:Hne.
  - assert (Hb : forall x y, length x = length J -> length y = length J ->
               bil M x y = re * dotR x y).
    { intros x y Hx Hy. unfold bil, M. rewrite M_small_mv; [apply dot_vscale_r | exact Hne |].
      rewrite length_gram. exact Hy. }
    split; [|split].
    + unfold M. rewrite M_small_length by exact Hne. apply length_gram.
    + intros x y Hx Hy. rewrite !Hb by assumption. rewrite dot_comm. reflexivity.
    + intros x Hx. unfold qf. rewrite Hb by assumption. lra.
  - specialize (Hs eq_refl). split; [|split].
    + apply (length_M J s ne re Hne).
    + apply (symm_M n J s ne re HJ Hne).
    + apply (qf_M_lower n J s ne re HJ Hs Hne).
Qed.

Theorem qp_min_exists : forall n J s ne re u, wfmat n J ->
  (nltb RN s ne = false -> 0 < s) -> 0 < re ->
  length u = length J ->
  exists w, is_min (length J) (reg_norm_gramian RN (gramR J) s ne re) u w.
Proof.
  intros n J s ne re u HJ Hs Hre Hu.
  destruct (reg_norm_gramian_symm_coercive n J s ne re HJ Hs (Rlt_le _ _ Hre)) as (HM & Hsy & Hco).
  apply (qp_min_exists_gen (length J) _ re u HM Hsy Hre Hco Hu).
Qed.

Theorem qp_min_exists_unique : forall n J s ne re u, wfmat n J ->
  (nltb RN s ne = false -> 0 < s) -> 0 < re ->
  length u = length J ->
  exists w, is_min (length J) (reg_norm_gramian RN (gramR J) s ne re) u w /\
    forall w', is_min (length J) (reg_norm_gramian RN (gramR J) s ne re) u w' -> w' = w.
Proof.
  intros n J s ne re u HJ Hs Hre Hu.
  destruct (reg_norm_gramian_symm_coercive n J s ne re HJ Hs (Rlt_le _ _ Hre)) as (HM & Hsy & Hco).
  apply (qp_min_exists_unique_gen (length J) _ re u HM Hsy Hre Hco Hu).
Qed.

Print Assumptions box_min_exists.
Print Assumptions qp_min_exists_gen.
Print Assumptions qp_min_exists.
Print Assumptions qp_min_exists_unique.
