(* QPProofs.v — the optimisation facts behind UPGrad / DualProj (C03, C04):
   KKT certificate soundness, sign of M w at a minimiser, uniqueness, no-conflict case. *)
From Coq Require Import Reals List Bool Arith Lia Lra Psatz.
From TJ Require Import Num Linalg NumR Agg.
From TJ.proofs Require Import LinalgR.
Import ListNotations.
Local Open Scope R_scope.

Definition bil (M : list (list R)) (x y : list R) : R := dotR x (mvR M y).
Definition qf (M : list (list R)) (x : list R) : R := bil M x x.
Definition feasible (u v : list R) : Prop := Forall2 Rle u v.
Definition symm (m : nat) (M : list (list R)) : Prop :=
  forall x y, length x = m -> length y = m -> bil M x y = bil M y x.
Definition psd (m : nat) (M : list (list R)) : Prop :=
  forall x, length x = m -> 0 <= qf M x.
(* w minimises v^T M v subject to v >= u *)
Definition is_min (m : nat) (M : list (list R)) (u w : list R) : Prop :=
  length w = m /\ feasible u w /\
  forall v, length v = m -> feasible u v -> qf M w <= qf M v.

Lemma feasible_length u v : feasible u v -> length u = length v.
Proof. induction 1; cbn; congruence. Qed.

Lemma vadd_vsub w v : length w = length v -> vaddR w (vsubR v w) = v.
Proof.
  revert v; induction w as [|x w IH]; intros [|y v] H; cbn in H; try lia; [reflexivity|].
  cbn [vsub vadd]. rewrite IH by lia. rn. f_equal. lra.
Qed.

(* q(w + d) = q(w) + 2 b(d, w) + q(d) *)
Lemma qf_expand m M w d : length M = m -> symm m M -> length w = m -> length d = m ->
  qf M (vaddR w d) = qf M w + 2 * bil M d w + qf M d.
Proof.
  intros HM Hs Hw Hd. unfold qf, bil.
  rewrite mv_vadd by congruence.
  rewrite dot_vadd_l by congruence.
  rewrite !dot_vadd_r by (rewrite !length_mv; reflexivity).
  pose proof (Hs w d Hw Hd) as E. unfold bil in E. rewrite E. lra.
Qed.

(* ---- KKT ---- *)
Inductive kktP : list R -> list R -> list R -> Prop :=
| kkt_nil : kktP [] [] []
| kkt_cons g x y G W U : y <= x -> 0 <= g -> g * (x - y) = 0 -> kktP G W U ->
    kktP (g :: G) (x :: W) (y :: U).

Lemma kkt_rows_P G W U : kkt_rows RN G W U = true -> kktP G W U.
Proof.
  revert W U; induction G as [|g G IH]; intros [|x W] [|y U] H; cbn [kkt_rows] in H;
    try discriminate; [constructor|].
  rn. apply andb_prop in H. destruct H as [H H4]. apply andb_prop in H. destruct H as [H H3].
  apply andb_prop in H. destruct H as [H1 H2]. apply andb_prop in H3. destruct H3 as [H3a H3b].
  apply Rleb_true in H1, H2, H3a, H3b.
  constructor; auto. lra.
Qed.

Lemma kktP_feasible G W U : kktP G W U -> feasible U W.
Proof. induction 1; constructor; auto. Qed.

Lemma kktP_dir G W U : kktP G W U -> forall v, feasible U v -> 0 <= dotR (vsubR v W) G.
Proof.
  induction 1 as [|g x y G W U H1 H2 H3 HK IH]; intros v Hv.
  - inversion Hv; subst. cbn. lra.
  - inversion Hv as [|y' v0 U' V' Hy HV]; subst. cbn [vsub]. rewrite dot_cons. rn.
    specialize (IH _ HV).
    assert ((v0 - x) * g = (v0 - y) * g) by nra.
    assert (0 <= (v0 - y) * g) by (apply Rmult_le_pos; lra). lra.
Qed.

Theorem kktP_sound m M u w : length M = m -> symm m M -> psd m M ->
  length w = m -> kktP (mvR M w) w u -> is_min m M u w.
Proof.
  intros HM Hs Hp Hw HK. split; [exact Hw|]. split; [eapply kktP_feasible; exact HK|].
  intros v Hv Hf.
  pose proof (kktP_dir _ _ _ HK v Hf) as Hdir.
  set (d := vsubR v w).
  assert (Hd : length d = m) by (unfold d; rewrite length_vsub; congruence).
  assert (E : v = vaddR w d) by (unfold d; symmetry; apply vadd_vsub; congruence).
  rewrite E, (qf_expand m) by assumption.
  pose proof (Hp d Hd). unfold bil. fold d in Hdir. lra.
Qed.

Theorem kktb_sound m M u w : length M = m -> symm m M -> psd m M ->
  length w = m -> kktb RN M u w = true -> is_min m M u w.
Proof.
  intros HM Hs Hp Hw HK. apply kktP_sound; auto. apply kkt_rows_P. exact HK.
Qed.

(* ---- sign of (M w)_i at a minimiser ---- *)
Lemma onehot_scale n i t : onehotR n i t = vscaleR t (onehotR n i 1).
Proof.
  revert i; induction n as [|n IH]; intros i; [reflexivity|].
  destruct i; cbn [onehot vscale map].
  - fold (vscaleR t (vzeroR n)). rewrite vscale_vzero. rn. f_equal. lra.
  - fold (vscaleR t (onehotR n i 1)). rewrite <- IH. rn. f_equal. lra.
Qed.

Lemma feasible_refl w : feasible w w.
Proof. induction w; constructor; auto; lra. Qed.

Lemma feasible_trans a b c : feasible a b -> feasible b c -> feasible a c.
Proof.
  intros H; revert c; induction H as [|x y a b Hxy Hab IH]; intros c Hc.
  - inversion Hc; subst. constructor.
  - inversion Hc as [|y' z b' c' Hyz Hbc]; subst. constructor; [lra|apply IH; exact Hbc].
Qed.

Lemma feasible_add_onehot w i t : 0 <= t -> feasible w (vaddR w (onehotR (length w) i t)).
Proof.
  revert i; induction w as [|x w IH]; intros i Ht; [constructor|].
  destruct i; cbn [length onehot vadd].
  - constructor; [rn; lra|]. clear IH. induction w as [|y w IHw]; [constructor|].
    unfold vzero. cbn [length repeat vadd]. constructor; [rn; lra| apply IHw].
  - constructor; [rn; lra| apply IH; exact Ht].
Qed.

Theorem min_sign m M u w i : length M = m -> symm m M -> is_min m M u w -> (i < m)%nat ->
  0 < qf M (onehotR m i 1) -> 0 <= nth i (mvR M w) 0.
Proof.
  intros HM Hs (Hw & Hf & Hmin) Hi Hc.
  destruct (Rle_dec 0 (nth i (mvR M w) 0)) as [Hg|Hg]; [exact Hg|exfalso].
  apply Rnot_le_lt in Hg. set (g := nth i (mvR M w) 0) in *. set (c := qf M (onehotR m i 1)) in *.
  set (t := - g / c).
  assert (Ht : 0 < t) by (unfold t; apply Rdiv_lt_0_compat; lra).
  set (d := onehotR m i t).
  assert (Hd : length d = m) by apply length_onehot.
  assert (Hfe : feasible u (vaddR w d)).
  { eapply feasible_trans; [exact Hf|]. unfold d. rewrite <- Hw. apply feasible_add_onehot. lra. }
  assert (Hl : length (vaddR w d) = m) by (rewrite length_vadd; congruence).
  specialize (Hmin _ Hl Hfe). rewrite (qf_expand m) in Hmin by assumption.
  assert (E1 : bil M d w = t * g).
  { unfold bil, d. rewrite dot_onehot_l; [reflexivity| rewrite length_mv; exact HM | exact Hi]. }
  assert (E2 : qf M d = t * t * c).
  { unfold qf, bil, d, c, qf, bil. rewrite onehot_scale, mv_vscale, dot_vscale_l, dot_vscale_r. lra. }
  rewrite E1, E2 in Hmin.
  assert (t * c = - g) by (unfold t; field; lra).
  nra.
Qed.

(* ---- the regularised, normalised Gramian ---- *)
Lemma mv_mscale c M x : mvR (mscale RN c M) x = vscaleR c (mvR M x).
Proof.
  unfold mscale, mv, vscale. rewrite !map_map. apply map_ext. intros r.
  apply dot_vscale_l.
Qed.

Lemma mv_add_diag eps M : forall k x, wfmat (length x) M ->
  mvR (add_diag_from RN k eps M) x =
  vaddR (mvR M x) (map (fun i => eps * nth i x 0) (seq k (length M))).
Proof.
  induction M as [|r M IH]; intros k x H; [reflexivity|].
  apply Forall_cons_iff in H; destruct H as [Hr HM].
  cbn [add_diag_from mv map length seq vadd]. fold (mvR (add_diag_from RN (S k) eps M) x) (mvR M x).
  rewrite IH by exact HM. f_equal.
  rewrite dot_vadd_l by (rewrite length_onehot; reflexivity).
  rn. f_equal.
  destruct (lt_dec k (length x)) as [Hk|Hk].
  - rewrite Hr. apply dot_onehot_l; [reflexivity|exact Hk].
  - rewrite (nth_overflow x) by lia. rewrite Hr.
    clear -Hk. revert k Hk. induction x as [|y x IHx]; intros k Hk; [cbn; lra|].
    destruct k; cbn in Hk; [lia|]. cbn [length onehot]. rewrite dot_cons, IHx by lia. rn. lra.
Qed.


Lemma map_nth_seq0 (x : list R) : map (fun i => nth i x 0) (seq 0 (length x)) = x.
Proof.
  induction x as [|y x IH]; [reflexivity|]. cbn [length seq map nth]. f_equal.
  rewrite <- seq_shift, map_map. exact IH.
Qed.

Lemma mv_regularize eps M x : wfmat (length x) M -> length M = length x ->
  mvR (regularize RN M eps) x = vaddR (mvR M x) (vscaleR eps x).
Proof.
  intros H Hl. unfold regularize. rewrite mv_add_diag by exact H. f_equal.
  rewrite Hl. unfold vscale. rn. rewrite <- (map_nth_seq0 x) at 2. rewrite map_map. reflexivity.
Qed.

(* ---- entrywise access ---- *)
Lemma nth_vscale c v i : nth i (vscaleR c v) 0 = c * nth i v 0.
Proof.
  revert i; induction v as [|x v IH]; intros [|i]; cbn [vscale map nth]; rn; try lra.
  apply IH.
Qed.
Lemma nth_vadd a b i : length a = length b -> nth i (vaddR a b) 0 = nth i a 0 + nth i b 0.
Proof.
  revert b i; induction a as [|x a IH]; intros [|y b] i H; cbn in H; try lia.
  - destruct i; cbn; lra.
  - destruct i; cbn [vadd nth]; rn; [lra|]. apply IH. lia.
Qed.

Lemma vadd_vzero_r w k : length w = k -> vaddR w (vzeroR k) = w.
Proof.
  revert k; induction w as [|x w IH]; intros [|k] H; cbn in H; try lia; [reflexivity|].
  unfold vzero in *. cbn [repeat vadd]. rewrite IH by lia. rn. f_equal. lra.
Qed.

Section RegGram.
Variables (n : nat) (J : list (list R)) (s ne re : R).
Hypothesis HJ : wfmat n J.
Hypothesis Hs : 0 < s.
Hypothesis Hne : nltb RN s ne = false.     (* s >= norm_eps: the Gramian is normalised *)
Hypothesis Hre : 0 <= re.
Let m := length J.
Let G := gramR J.
Let c := 1 / (s * s).
Let M := reg_norm_gramian RN G s ne re.

Lemma c_pos : 0 < c.
Proof. unfold c. apply Rdiv_lt_0_compat; nra. Qed.

Lemma M_unfold : M = regularize RN (mscale RN c G) re.
Proof. unfold M, reg_norm_gramian, normalized_gramian. rewrite Hne. reflexivity. Qed.

Lemma length_M : length M = m.
Proof.
  rewrite M_unfold. unfold regularize, mscale.
  assert (forall k X, length (add_diag_from RN k re X) = length X) as E.
  { intros k X; revert k; induction X; intros k; cbn; auto. }
  rewrite E, map_length. apply length_gram.
Qed.

Lemma mv_M x : length x = m ->
  mvR M x = vaddR (vscaleR c (mvR G x)) (vscaleR re x).
Proof.
  intros Hx. rewrite M_unfold, mv_regularize.
  - rewrite mv_mscale. reflexivity.
  - unfold mscale, wfmat. apply Forall_forall. intros r Hr. apply in_map_iff in Hr.
    destruct Hr as (r0 & <- & Hr0). rewrite length_vscale.
    pose proof (wfmat_gram J) as HG. unfold wfmat in HG. rewrite Forall_forall in HG.
    rewrite (HG _ Hr0). symmetry; exact Hx.
  - unfold mscale. rewrite map_length. unfold G. rewrite length_gram. symmetry; exact Hx.
Qed.

Lemma bil_M x y : length x = m -> length y = m ->
  bil M x y = c * bil G x y + re * dotR x y.
Proof.
  intros Hx Hy. unfold bil. rewrite mv_M by exact Hy.
  rewrite dot_vadd_r by (rewrite !length_vscale, length_mv; unfold G; rewrite length_gram; unfold m in *; congruence).
  rewrite !dot_vscale_r. reflexivity.
Qed.

Lemma symm_M : symm m M.
Proof.
  intros x y Hx Hy. rewrite !bil_M by assumption. unfold bil, G.
  rewrite (bil_gram_sym n J x y) by assumption. rewrite (dot_comm x y). reflexivity.
Qed.

Lemma psd_M : psd m M.
Proof.
  intros x Hx. unfold qf. rewrite bil_M by assumption. unfold bil, G.
  pose proof (quad_gram_nonneg n J x HJ Hx). pose proof (dot_self_nonneg x). pose proof c_pos.
  assert (0 <= c * dotR x (mvR (gramR J) x)) by (apply Rmult_le_pos; lra).
  assert (0 <= re * dotR x x) by (apply Rmult_le_pos; lra). lra.
Qed.

(* strong convexity: q(x) >= re |x|^2 *)
Lemma qf_M_lower x : length x = m -> re * dotR x x <= qf M x.
Proof.
  intros Hx. unfold qf. rewrite bil_M by assumption. unfold bil, G.
  pose proof (quad_gram_nonneg n J x HJ Hx). pose proof c_pos.
  assert (0 <= c * dotR x (mvR (gramR J) x)) by (apply Rmult_le_pos; lra). lra.
Qed.

Lemma dot_onehot_self k i : (i < k)%nat -> dotR (onehotR k i 1) (onehotR k i 1) = 1.
Proof.
  intros Hi. rewrite dot_onehot_l by (auto using length_onehot).
  assert (forall k i, (i < k)%nat -> nth i (onehotR k i 1) 0 = 1) as E.
  { clear. induction k as [|k IH]; intros i Hi; [lia|]. destruct i; cbn [onehot nth]; [reflexivity|].
    apply IH; lia. }
  rewrite E by exact Hi. lra.
Qed.

Lemma qf_M_onehot_pos i : 0 < re -> (i < m)%nat -> 0 < qf M (onehotR m i 1).
Proof.
  intros Hre' Hi. pose proof (qf_M_lower (onehotR m i 1) (length_onehot _ _ _)) as H.
  rewrite dot_onehot_self in H by exact Hi. lra.
Qed.

(* (J . A(J))_i >= - reg_eps * s^2 * w_i  whenever (M w)_i >= 0 *)
Lemma allowance_of_sign w i : length w = m ->
  0 <= nth i (mvR M w) 0 ->
  - re * (s * s) * nth i w 0 <= nth i (mvR J (vmR n w J)) 0.
Proof.
  intros Hw H. rewrite mv_M in H by exact Hw.
  rewrite nth_vadd in H by (rewrite !length_vscale, length_mv; unfold G; rewrite length_gram; unfold m in *; congruence).
  rewrite !nth_vscale in H. unfold G in H. rewrite (mv_gram n) in H by assumption.
  set (g := nth i (mvR J (vmR n w J)) 0) in *. set (wi := nth i w 0) in *.
  assert (E1 : c * (s * s) = 1) by (unfold c; field; lra).
  assert (E2 : 0 <= (c * g + re * wi) * (s * s)) by (apply Rmult_le_pos; nra).
  replace ((c * g + re * wi) * (s * s)) with (g * (c * (s * s)) + re * (s * s) * wi) in E2 by ring.
  rewrite E1 in E2. lra.
Qed.

Theorem dualproj_allowance u w i : 0 < re -> is_min m M u w -> (i < m)%nat ->
  - re * (s * s) * nth i w 0 <= nth i (mvR J (vmR n w J)) 0.
Proof.
  intros Hre' Hmin Hi. apply allowance_of_sign; [apply Hmin|].
  apply (min_sign m M u w i); auto using length_M, symm_M, qf_M_onehot_pos.
Qed.

(* UPGrad: the weights are a sum of minimisers *)
Lemma length_vsum_rows k W : Forall (fun r => length r = k) W -> length (vsum_rows RN k W) = k.
Proof.
  induction 1 as [|r W Hr HW IH]; cbn [vsum_rows]; [apply length_vzero|].
  rewrite length_vadd; congruence.
Qed.

Lemma mv_vsum_rows X k W : Forall (fun r => length r = k) W ->
  mvR X (vsum_rows RN k W) = vsum_rows RN (length X) (map (mvR X) W).
Proof.
  induction 1 as [|r W Hr HW IH]; cbn [vsum_rows map].
  - unfold mv. clear. induction X as [|x X IHX]; [reflexivity|].
    cbn [map length]. unfold vzero in *. cbn [repeat]. f_equal; [apply dot_vzero_r | exact IHX].
  - rewrite mv_vadd by (rewrite length_vsum_rows; congruence). rewrite IH. reflexivity.
Qed.

Lemma nth_vsum_rows_nonneg k W i : Forall (fun r => length r = k /\ 0 <= nth i r 0) W ->
  0 <= nth i (vsum_rows RN k W) 0.
Proof.
  induction 1 as [|r W [Hr Hp] HW IH]; cbn [vsum_rows].
  - unfold vzero. rewrite nth_repeat. rn. lra.
  - rewrite nth_vadd.
    + lra.
    + rewrite length_vsum_rows; [exact Hr|]. eapply Forall_impl; [|exact HW]. intros a [Ha _]; exact Ha.
Qed.

Lemma mins_sign (us W : list (list R)) i : 0 < re ->
  Forall2 (fun u w => is_min m M u w) us W -> (i < m)%nat ->
  Forall (fun r => length r = m /\ 0 <= nth i r 0) (map (mvR M) W).
Proof.
  intros Hre' HW Hi. induction HW as [|u w0 us W Hmin _ IH]; cbn [map]; constructor; auto.
  split; [rewrite length_mv; apply length_M|].
  apply (min_sign m M u w0 i); auto using length_M, symm_M, qf_M_onehot_pos.
Qed.

Lemma mins_length (us W : list (list R)) :
  Forall2 (fun u w => is_min m M u w) us W -> Forall (fun r => length r = m) W.
Proof. induction 1 as [|u w0 us W [Hl _] _ IH]; constructor; auto. Qed.

Theorem upgrad_allowance (W : list (list R)) (us : list (list R)) i : 0 < re ->
  Forall2 (fun u w => is_min m M u w) us W -> (i < m)%nat ->
  let w := vsum_rows RN m W in
  - re * (s * s) * nth i w 0 <= nth i (mvR J (vmR n w J)) 0.
Proof.
  intros Hre' HW Hi w.
  pose proof (mins_length us W HW) as HWl.
  apply allowance_of_sign; [apply length_vsum_rows; exact HWl|].
  unfold w. rewrite (mv_vsum_rows M m) by exact HWl. rewrite length_M.
  apply nth_vsum_rows_nonneg. eapply mins_sign; eauto.
Qed.

(* uniqueness of the minimiser (strict convexity, reg_eps > 0) *)
Theorem min_unique u w1 w2 : 0 < re -> is_min m M u w1 -> is_min m M u w2 -> w1 = w2.
Proof.
  intros Hre' (Hl1 & Hf1 & Hm1) (Hl2 & Hf2 & Hm2).
  set (d := vsubR w2 w1).
  assert (Hd : length d = m) by (unfold d; rewrite length_vsub; congruence).
  assert (E : w2 = vaddR w1 d) by (unfold d; symmetry; apply vadd_vsub; congruence).
  (* midpoint h = w1 + d/2 is feasible *)
  set (h := vaddR w1 (vscaleR (1/2) d)).
  assert (Hh : length h = m) by (unfold h; rewrite length_vadd; rewrite ?length_vscale; congruence).
  assert (Hfh : feasible u h).
  { unfold h, d. clear -Hf1 Hf2. revert w2 Hf2. induction Hf1 as [|a b U W1 Hab HUW IH]; intros w2 Hf2.
    - inversion Hf2; subst. constructor.
    - inversion Hf2 as [|a' b2 U' W2 Hab2 HUW2]; subst. cbn [vsub vscale map vadd].
      constructor; [rn; lra|]. apply IH. exact HUW2. }
  pose proof (Hm1 h Hh Hfh) as H1. pose proof (Hm2 h Hh Hfh) as H2.
  pose proof (qf_expand m M w1 d length_M symm_M Hl1 Hd) as X2. rewrite <- E in X2.
  assert (Hhd : length (vscaleR (1/2) d) = m) by (rewrite length_vscale; exact Hd).
  pose proof (qf_expand m M w1 (vscaleR (1/2) d) length_M symm_M Hl1 Hhd) as Xh. fold h in Xh.
  assert (B : bil M (vscaleR (1/2) d) w1 = 1/2 * bil M d w1) by (unfold bil; apply dot_vscale_l).
  assert (Q : qf M (vscaleR (1/2) d) = 1/4 * qf M d).
  { unfold qf, bil. rewrite mv_vscale, dot_vscale_l, dot_vscale_r. lra. }
  rewrite B, Q in Xh.
  pose proof (qf_M_lower d Hd) as L. pose proof (dot_self_nonneg d) as P.
  assert (Z : dotR d d = 0) by nra.
  apply dot_self_zero in Z. rewrite E, Z. symmetry. apply vadd_vzero_r. congruence.
Qed.

End RegGram.

(* ---- no conflict: the minimiser is u itself ---- *)
Definition nonneg (v : list R) : Prop := Forall (Rle 0) v.

Lemma dot_nonneg a b : nonneg a -> nonneg b -> 0 <= dotR a b.
Proof.
  intros Ha; revert b; induction Ha as [|x a Hx Ha IH]; intros b Hb; [cbn; lra|].
  destruct Hb as [|y b Hy Hb]; [cbn; lra|]. rewrite dot_cons. specialize (IH _ Hb).
  assert (0 <= x * y) by (apply Rmult_le_pos; lra). lra.
Qed.

Lemma nonneg_vscale c v : 0 <= c -> nonneg v -> nonneg (vscaleR c v).
Proof.
  intros Hc Hv. induction Hv as [|x v Hx Hv IH]; cbn [vscale map]; constructor; [|exact IH].
  rn. apply Rmult_le_pos; lra.
Qed.

Lemma nonneg_vadd a b : nonneg a -> nonneg b -> nonneg (vaddR a b).
Proof.
  intros Ha; revert b; induction Ha as [|x a Hx Ha IH]; intros b Hb; [constructor|].
  destruct Hb as [|y b Hy Hb]; cbn [vadd]; constructor; [rn; lra | apply IH; exact Hb].
Qed.

Lemma kktP_refl g u : length g = length u -> nonneg g -> kktP g u u.
Proof.
  revert u; induction g as [|x g IH]; intros [|y u] Hl Hg; cbn in Hl; try lia; [constructor|].
  inversion Hg; subst. constructor; auto; try lra.
Qed.

Lemma nonneg_mv_gram J u : (forall r r', In r J -> In r' J -> 0 <= dotR r r') -> nonneg u ->
  nonneg (mvR (gramR J) u).
Proof.
  intros HJ Hu. unfold mv, gram. rewrite map_map. apply Forall_forall. intros x Hx.
  apply in_map_iff in Hx. destruct Hx as (r & <- & Hr). apply dot_nonneg; [|exact Hu].
  apply Forall_forall. intros y Hy. apply in_map_iff in Hy. destruct Hy as (r' & <- & Hr').
  apply HJ; assumption.
Qed.

Theorem no_conflict_min n J s ne re u : wfmat n J -> 0 < s -> nltb RN s ne = false -> 0 <= re ->
  (forall r r', In r J -> In r' J -> 0 <= dotR r r') ->
  length u = length J -> nonneg u ->
  is_min (length J) (reg_norm_gramian RN (gramR J) s ne re) u u.
Proof.
  intros HJ Hs Hne Hre Hnc Hl Hu.
  apply kktP_sound.
  - apply length_M; assumption.
  - eapply symm_M; eassumption.
  - eapply psd_M; eassumption.
  - exact Hl.
  - apply kktP_refl.
    + rewrite length_mv, length_M by assumption. symmetry; exact Hl.
    + rewrite mv_M by assumption. apply nonneg_vadd.
      * apply nonneg_vscale; [left; apply c_pos; exact Hs|]. apply nonneg_mv_gram; assumption.
      * apply nonneg_vscale; assumption.
Qed.

(* hence, with reg_eps > 0, ANY answer of a correct QP oracle is u itself *)
Theorem no_conflict_unique n J s ne re u w : wfmat n J -> 0 < s -> nltb RN s ne = false -> 0 < re ->
  (forall r r', In r J -> In r' J -> 0 <= dotR r r') ->
  length u = length J -> nonneg u ->
  is_min (length J) (reg_norm_gramian RN (gramR J) s ne re) u w -> w = u.
Proof.
  intros HJ Hs Hne Hre Hnc Hl Hu Hw.
  eapply (min_unique n J s ne re); eauto.
  apply (no_conflict_min n); auto. lra.
Qed.

(* ---- below norm_eps: M = reg_eps I ---- *)
Lemma mv_mzero m x : mvR (mzero RN m) x = vzeroR m.
Proof.
  unfold mzero, mv. generalize m at 2 3. intros k. induction k as [|k IH]; [reflexivity|].
  unfold vzero at 2. cbn [repeat map]. f_equal; [apply dot_vzero_l | exact IH].
Qed.

Lemma vadd_vzero_l k : forall v : list R, length v = k -> vaddR (vzeroR k) v = v.
Proof.
  induction k as [|k IH]; intros [|y v] H; cbn in H; try lia; [reflexivity|].
  unfold vzero in *. cbn [repeat vadd]. rewrite IH by lia. rn. f_equal. lra.
Qed.

Lemma wfmat_mzero m : wfmat m (mzero RN m).
Proof. unfold wfmat, mzero. apply Forall_forall. intros r Hr. apply repeat_spec in Hr. subst.
  apply length_vzero. Qed.

Lemma M_small_mv G s ne re x : nltb RN s ne = true -> length x = length G ->
  mvR (reg_norm_gramian RN G s ne re) x = vscaleR re x.
Proof.
  intros Hne Hx. unfold reg_norm_gramian, normalized_gramian. rewrite Hne.
  rewrite mv_regularize.
  - rewrite mv_mzero. apply vadd_vzero_l. rewrite length_vscale. exact Hx.
  - rewrite Hx. apply wfmat_mzero.
  - unfold mzero. rewrite repeat_length. symmetry; exact Hx.
Qed.

Lemma M_small_length G s ne re : nltb RN s ne = true ->
  length (reg_norm_gramian RN G s ne re) = length G.
Proof.
  intros Hne. unfold reg_norm_gramian, normalized_gramian, regularize. rewrite Hne.
  assert (forall k X, length (add_diag_from RN k re X) = length X) as E.
  { intros k X; revert k; induction X; intros k; cbn; auto. }
  rewrite E. unfold mzero. apply repeat_length.
Qed.

Theorem below_norm_eps_min G s ne re u : nltb RN s ne = true -> 0 <= re ->
  length u = length G -> nonneg u ->
  is_min (length G) (reg_norm_gramian RN G s ne re) u u.
Proof.
  intros Hne Hre Hl Hu.
  assert (Hb : forall x y, length x = length G -> length y = length G ->
             bil (reg_norm_gramian RN G s ne re) x y = re * dotR x y).
  { intros x y Hx Hy. unfold bil. rewrite M_small_mv by assumption. apply dot_vscale_r. }
  apply kktP_sound.
  - apply M_small_length; exact Hne.
  - intros x y Hx Hy. rewrite !Hb by assumption. rewrite dot_comm. reflexivity.
  - intros x Hx. unfold qf. rewrite Hb by assumption. apply Rmult_le_pos; [exact Hre|apply dot_self_nonneg].
  - exact Hl.
  - apply kktP_refl.
    + rewrite length_mv, M_small_length by exact Hne. symmetry; exact Hl.
    + rewrite M_small_mv by assumption. apply nonneg_vscale; assumption.
Qed.

Theorem below_norm_eps_unique G s ne re u w : nltb RN s ne = true -> 0 < re ->
  length u = length G -> nonneg u ->
  is_min (length G) (reg_norm_gramian RN G s ne re) u w -> w = u.
Proof.
  intros Hne Hre Hl Hu (Hlw & Hf & Hmin).
  pose proof (below_norm_eps_min G s ne re u Hne (Rlt_le _ _ Hre) Hl Hu) as (_ & _ & Hminu).
  assert (Hb : forall x, length x = length G ->
             qf (reg_norm_gramian RN G s ne re) x = re * dotR x x).
  { intros x Hx. unfold qf, bil. rewrite M_small_mv by assumption. apply dot_vscale_r. }
  specialize (Hmin u Hl (feasible_refl u)). rewrite !Hb in Hmin by assumption.
  (* w >= u >= 0 componentwise and |w|^2 <= |u|^2  imply  w = u *)
  clear -Hf Hu Hmin Hre.
  assert (Hle : dotR w w <= dotR u u) by nra. clear Hmin.
  revert Hle. induction Hf as [|a b U W Hab HUW IH]; intros Hle; [reflexivity|].
  inversion Hu as [|? ? Ha HU]; subst. rewrite !dot_cons in Hle.
  assert (dotR U U <= dotR W W).
  { clear -HUW HU. induction HUW as [|a b U W Hab HUW IH]; [cbn; lra|].
    inversion HU; subst. rewrite !dot_cons. specialize (IH ltac:(assumption)). nra. }
  assert (a * a <= b * b) by nra.
  assert (b = a) by nra. subst b. f_equal. apply IH; [exact HU|lra].
Qed.
