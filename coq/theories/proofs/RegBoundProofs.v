(* RegBoundProofs.v — the effect of the regularisation reg_eps in UPGrad / DualProj is O(sqrt reg_eps):
   R1  qp_reg_perturbation : for a symmetric G, the minimisers w0 of qf G and we of
       qf (G + e I) over {v >= u} satisfy  qf G (we - w0) <= e <we, w0 - we> <= e |w0|^2 / 4;
   R2  dualproj_reg_defect : the outputs of DualProj with reg_eps = re and with reg_eps = 0 differ
       by at most  sqrt re * s / 2 * |w0|  in Euclidean norm;
   R3  upgrad_reg_defect : the same for UPGrad with  sum_i |w0_i|;
   R4  upgrad_scaling_defect : the defect of "linearity under positive row scaling" (C09) of UPGrad
       with reg_eps = re is at most  sqrt re / 2 * (s12 W12 + a s1 W1 + b s2 W2);
   R5  upgrad_scaling_defect_vanishes : hence it tends to 0 with reg_eps, uniformly in the oracle
       used for the regularised problems. *)
From Coq Require Import Reals List Bool Arith Lia Lra Psatz.
From TJ Require Import Num Linalg NumR Agg.
From TJ.proofs Require Import LinalgR QPProofs C03Proofs MgdaProofs PublishedProofs ScalingProofs
  SpectralProofs.
Import ListNotations.
Local Open Scope R_scope.

(* ====================================================================================== *)
(* 0. Euclidean norm, triangle inequality, small vector identities                        *)
(* ====================================================================================== *)
Definition nrm (v : list R) : R := sqrt (dotR v v).

Lemma nrm_vnorm v : nrm v = vnorm RN v.
Proof. reflexivity. Qed.

Lemma nrm_nonneg v : 0 <= nrm v.
Proof. apply sqrt_pos. Qed.

Lemma nrm_sq v : nrm v * nrm v = dotR v v.
Proof. apply sqrt_sqrt. apply dot_self_nonneg. Qed.

Lemma nrm_le_of_sq v K : 0 <= K -> dotR v v <= K * K -> nrm v <= K.
Proof.
  intros HK H. unfold nrm. rewrite <- (sqrt_square K) by exact HK. apply sqrt_le_1_alt. exact H.
Qed.

Lemma le_of_sq_le x y : 0 <= y -> x * x <= y * y -> x <= y.
Proof.
  intros Hy H. destruct (Rle_dec x y) as [L|L]; [exact L|]. exfalso. apply Rnot_le_lt in L.
  assert (y * y < x * x) by nra. lra.
Qed.

Lemma lt_of_sq_lt x y : 0 <= y -> x * x < y * y -> x < y.
Proof.
  intros Hy H. destruct (Rlt_dec x y) as [L|L]; [exact L|]. exfalso. apply Rnot_lt_le in L.
  assert (y * y <= x * x) by nra. lra.
Qed.

Lemma dot_le_nrm a b : length a = length b -> dotR a b <= nrm a * nrm b.
Proof.
  intros Hl. apply le_of_sq_le.
  - apply Rmult_le_pos; apply nrm_nonneg.
  - pose proof (cauchy_schwarz a b Hl) as H.
    replace (nrm a * nrm b * (nrm a * nrm b)) with ((nrm a * nrm a) * (nrm b * nrm b)) by ring.
    rewrite !nrm_sq. exact H.
Qed.

Lemma nrm_triangle a b : length a = length b -> nrm (vaddR a b) <= nrm a + nrm b.
Proof.
  intros Hl. apply nrm_le_of_sq.
  - pose proof (nrm_nonneg a). pose proof (nrm_nonneg b). lra.
  - rewrite dot_vadd_l by exact Hl. rewrite !dot_vadd_r by exact Hl.
    rewrite (dot_comm b a). pose proof (dot_le_nrm a b Hl) as H.
    pose proof (nrm_sq a) as Ea. pose proof (nrm_sq b) as Eb.
    replace ((nrm a + nrm b) * (nrm a + nrm b))
      with (nrm a * nrm a + 2 * (nrm a * nrm b) + nrm b * nrm b) by ring.
    rewrite Ea, Eb. lra.
Qed.

Lemma nrm_vscale k v : 0 <= k -> nrm (vscaleR k v) = k * nrm v.
Proof.
  intros Hk. unfold nrm. rewrite dot_vscale_l, dot_vscale_r.
  replace (k * (k * dotR v v)) with ((k * k) * dotR v v) by ring.
  rewrite sqrt_mult by (try apply dot_self_nonneg; nra). rewrite sqrt_square by exact Hk. reflexivity.
Qed.

Lemma dot_vsub_self a b : length a = length b ->
  dotR (vsubR a b) (vsubR a b) = dotR a a - 2 * dotR a b + dotR b b.
Proof.
  intros Hl. rewrite dot_vsub_l by exact Hl. rewrite !dot_vsub_r by exact Hl.
  rewrite (dot_comm b a). ring.
Qed.

Lemma nrm_vsub_comm a b : length a = length b -> nrm (vsubR a b) = nrm (vsubR b a).
Proof.
  intros Hl. unfold nrm. f_equal. rewrite !dot_vsub_self by congruence. rewrite (dot_comm b a). ring.
Qed.

Lemma vsub_vadd_vadd : forall a b c d, length a = length b -> length a = length c -> length a = length d ->
  vsubR (vaddR a b) (vaddR c d) = vaddR (vsubR a c) (vsubR b d).
Proof.
  induction a as [|x a IH]; intros [|y b] [|z c] [|t d] H1 H2 H3; cbn in H1, H2, H3; try lia;
    [reflexivity|].
  cbn [vadd vsub]. rewrite IH by lia. rn. f_equal. ring.
Qed.

Lemma vsub_vscale k : forall a b, vsubR (vscaleR k a) (vscaleR k b) = vscaleR k (vsubR a b).
Proof.
  induction a as [|x a IH]; intros [|y b]; try reflexivity.
  cbn [vsub vscale map]. fold (vscaleR k a) (vscaleR k b) (vscaleR k (vsubR a b)).
  rewrite IH. rn. f_equal. ring.
Qed.

Lemma vsub_mid : forall x y z, length x = length y -> length x = length z ->
  vsubR x z = vaddR (vsubR x y) (vsubR y z).
Proof.
  induction x as [|a x IH]; intros [|b y] [|c z] H1 H2; cbn in H1, H2; try lia; [reflexivity|].
  cbn [vadd vsub]. rewrite <- IH by lia. rn. f_equal. ring.
Qed.

Lemma nrm_dist_triangle x y z : length x = length y -> length x = length z ->
  nrm (vsubR x z) <= nrm (vsubR x y) + nrm (vsubR y z).
Proof.
  intros H1 H2. rewrite (vsub_mid x y z H1 H2). apply nrm_triangle.
  rewrite !length_vsub by congruence. exact H1.
Qed.

Lemma vsub_self_zero : forall k, vsubR (vzeroR k) (vzeroR k) = vzeroR k.
Proof.
  unfold vzero. induction k as [|k IH]; [reflexivity|]. cbn [repeat vsub]. rewrite IH. rn.
  f_equal. ring.
Qed.

Lemma nrm_vzero k : nrm (vzeroR k) = 0.
Proof. unfold nrm. rewrite dot_vzero_l. apply sqrt_0. Qed.

(* sums of reals indexed by a list *)
Lemma vsum_map_le {A} (f g : A -> R) l : (forall a, In a l -> f a <= g a) ->
  vsumR (map f l) <= vsumR (map g l).
Proof.
  induction l as [|a l IH]; intros H; [cbn; lra|]. cbn [map]. rewrite !vsum_cons.
  pose proof (H a (or_introl eq_refl)). specialize (IH (fun x Hx => H x (or_intror Hx))). lra.
Qed.

Lemma vsum_map_mul {A} k (f : A -> R) l : vsumR (map (fun a => k * f a) l) = k * vsumR (map f l).
Proof.
  induction l as [|a l IH]; [cbn; lra|]. cbn [map]. rewrite !vsum_cons, IH. ring.
Qed.

Lemma vsum_map_nonneg {A} (f : A -> R) l : (forall a, In a l -> 0 <= f a) -> 0 <= vsumR (map f l).
Proof.
  induction l as [|a l IH]; intros H; [cbn; lra|]. cbn [map]. rewrite vsum_cons.
  pose proof (H a (or_introl eq_refl)). specialize (IH (fun x Hx => H x (or_intror Hx))). lra.
Qed.

(* | sum_i f_i - sum_i g_i |  <=  sum_i | f_i - g_i | *)
Lemma nrm_vsum_rows_diff n (f g : nat -> list R) l :
  (forall i, In i l -> length (f i) = n /\ length (g i) = n) ->
  nrm (vsubR (vsum_rows RN n (map f l)) (vsum_rows RN n (map g l))) <=
  vsumR (map (fun i => nrm (vsubR (f i) (g i))) l).
Proof.
  induction l as [|i l IH]; intros H.
  - cbn [map vsum_rows]. rewrite vsub_self_zero, nrm_vzero. cbn. lra.
  - cbn [map vsum_rows]. rewrite vsum_cons.
    destruct (H i (or_introl eq_refl)) as [Hf Hg].
    assert (Hl : forall h : nat -> list R, (forall j, In j l -> length (h j) = n) ->
                   length (vsum_rows RN n (map h l)) = n).
    { intros h Hh. apply length_vsum_rows. apply Forall_forall. intros r Hr.
      apply in_map_iff in Hr. destruct Hr as (j & <- & Hj). apply Hh. exact Hj. }
    assert (HF : length (vsum_rows RN n (map f l)) = n)
      by (apply Hl; intros j Hj; apply (H j); right; exact Hj).
    assert (HG : length (vsum_rows RN n (map g l)) = n)
      by (apply Hl; intros j Hj; apply (H j); right; exact Hj).
    rewrite vsub_vadd_vadd by congruence.
    eapply Rle_trans; [apply nrm_triangle; rewrite !length_vsub by congruence; congruence|].
    specialize (IH (fun j Hj => H j (or_intror Hj))). lra.
Qed.

(* ====================================================================================== *)
(* R1. perturbation of the constrained minimiser by  e |v|^2                              *)
(* ====================================================================================== *)
(* x.y - x.x <= y.y / 4 *)
Lemma dot_quarter x y : length x = length y -> dotR x (vsubR y x) <= dotR y y / 4.
Proof.
  intros Hl. rewrite dot_vsub_r by congruence.
  pose proof (dot_self_nonneg (vsubR x (vscaleR (1/2) y))) as H.
  rewrite dot_vsub_self in H by (rewrite length_vscale; exact Hl).
  rewrite dot_vscale_l, !dot_vscale_r in H. lra.
Qed.

(* abstract form: Ge is any symmetric matrix whose bilinear form is that of G plus e <.,.> *)
Lemma qp_perturbation_core m G Ge e u w0 we :
  length G = m -> symm m G -> length Ge = m -> symm m Ge ->
  (forall x y, length x = m -> length y = m -> bil Ge x y = bil G x y + e * dotR x y) ->
  0 <= e ->
  is_min m G u w0 -> is_min m Ge u we ->
  qf G (vsubR we w0) <= e * dotR we (vsubR w0 we) /\
  e * dotR we (vsubR w0 we) <= e * (dotR w0 w0) / 4.
Proof.
  intros HG HsG HGe HsGe Hbil He H0 H1.
  pose proof H0 as (Hl0 & Hf0 & _). pose proof H1 as (Hl1 & Hf1 & _).
  set (d := vsubR we w0).
  assert (Hd : length d = m) by (unfold d; rewrite length_vsub; congruence).
  assert (Hd' : length (vsubR w0 we) = m) by (rewrite length_vsub; congruence).
  (* variational inequality at w0 in the direction we - w0 *)
  assert (V0 : 0 <= bil G d w0).
  { apply (is_min_first_order m G u w0 d HG HsG H0 Hd).
    unfold d. rewrite vadd_vsub by congruence. exact Hf1. }
  (* variational inequality at we in the direction w0 - we *)
  assert (V1 : 0 <= bil Ge (vsubR w0 we) we).
  { apply (is_min_first_order m Ge u we _ HGe HsGe H1 Hd').
    rewrite vadd_vsub by congruence. exact Hf0. }
  rewrite Hbil in V1 by assumption.
  assert (E1 : bil G (vsubR w0 we) we = - bil G d we).
  { unfold bil, d. rewrite !dot_vsub_l by congruence. ring. }
  assert (E2 : qf G d = bil G d we - bil G d w0).
  { unfold qf, bil. unfold d at 2. rewrite mv_vsub by congruence.
    rewrite dot_vsub_r by (rewrite !length_mv; reflexivity). reflexivity. }
  assert (E3 : dotR (vsubR w0 we) we = dotR we (vsubR w0 we)) by apply dot_comm.
  split.
  - rewrite E2. rewrite E1, E3 in V1. lra.
  - pose proof (dot_quarter we w0 ltac:(congruence)) as Q.
    pose proof (Rmult_le_compat_l e _ _ He Q). lra.
Qed.

Lemma length_add_diag k e : forall M : list (list R), length (add_diag_from RN k e M) = length M.
Proof. intros M; revert k; induction M as [|r M IH]; intros k; cbn; auto. Qed.

Lemma bil_regularize m G e x y : length G = m -> wfmat m G -> length x = m -> length y = m ->
  bil (regularize RN G e) x y = bil G x y + e * dotR x y.
Proof.
  intros HG Hwf Hx Hy. unfold bil. rewrite mv_regularize by (rewrite Hy; assumption).
  rewrite dot_vadd_r by (rewrite length_mv, length_vscale; congruence).
  rewrite dot_vscale_r. reflexivity.
Qed.

(* R1 *)
Theorem qp_reg_perturbation m G e u w0 we :
  length G = m -> wfmat m G -> symm m G -> 0 <= e ->
  is_min m G u w0 -> is_min m (regularize RN G e) u we ->
  qf G (vsubR we w0) <= e * dotR we (vsubR w0 we) /\
  e * dotR we (vsubR w0 we) <= e * (dotR w0 w0) / 4.
Proof.
  intros HG Hwf Hs He H0 H1.
  apply (qp_perturbation_core m G (regularize RN G e) e u w0 we); auto.
  - unfold regularize. rewrite length_add_diag. exact HG.
  - intros x y Hx Hy. rewrite !(bil_regularize m) by assumption.
    rewrite (Hs x y Hx Hy), (dot_comm x y). reflexivity.
  - intros x y Hx Hy. apply (bil_regularize m); assumption.
Qed.

(* ====================================================================================== *)
(* R2. DualProj: regularised vs unregularised output                                      *)
(* ====================================================================================== *)
Lemma wfmat_ncols n (J : list (list R)) : wfmat n J -> wfmat (ncols J) J.
Proof.
  destruct J as [|r J]; intros H; [constructor|].
  pose proof H as H'. apply Forall_cons_iff in H'. destruct H' as [Hr _]. cbn [ncols].
  rewrite Hr. exact H.
Qed.

Section RegDefect.
Variables (n : nat) (J : list (list R)) (s ne re : R).
Hypothesis HJ : wfmat n J.
Hypothesis Hs : 0 < s.
Hypothesis Hne : nltb RN s ne = false.
Hypothesis Hre : 0 <= re.
Let m := length J.
Let M0 := reg_norm_gramian RN (gramR J) s ne 0.
Let Mre := reg_norm_gramian RN (gramR J) s ne re.

(* squared form, on the weights: w0, we ANY minimisers of the two problems *)
Lemma proj_reg_defect_sq u w0 we : is_min m M0 u w0 -> is_min m Mre u we ->
  let d := vsubR (vmR n we J) (vmR n w0 J) in
  dotR d d <= re * (s * s) * dotR w0 w0 / 4.
Proof.
  intros H0 H1 d.
  pose proof H0 as (Hl0 & _ & _). pose proof H1 as (Hl1 & _ & _).
  assert (Hcore : qf M0 (vsubR we w0) <= re * (dotR w0 w0) / 4).
  { destruct (qp_perturbation_core m M0 Mre re u w0 we) as [A B]; auto.
    - apply length_M; assumption.
    - apply (symm_M n); assumption.
    - apply length_M; assumption.
    - apply (symm_M n); assumption.
    - intros x y Hx Hy. unfold M0, Mre. rewrite !(bil_M J s ne _ Hne) by assumption. ring.
    - lra. }
  assert (Hdd : length (vsubR we w0) = m) by (rewrite length_vsub; congruence).
  unfold qf, M0 in Hcore. rewrite (bil_M J s ne 0 Hne) in Hcore by assumption.
  assert (E : bil (gramR J) (vsubR we w0) (vsubR we w0) = dotR d d).
  { unfold bil. rewrite mv_vsub by congruence.
    rewrite dot_vsub_l by congruence. rewrite !dot_vsub_r by (rewrite !length_mv; reflexivity).
    rewrite !(bil_gram n) by assumption.
    unfold d. rewrite dot_vsub_self by (rewrite !length_vm by exact HJ; reflexivity).
    rewrite (dot_comm (vmR n w0 J) (vmR n we J)). ring. }
  rewrite E in Hcore.
  assert (Hss : 0 < s * s) by nra.
  pose proof (Rmult_le_compat_l (s * s) _ _ (Rlt_le _ _ Hss) Hcore) as H.
  replace (s * s * (1 / (s * s) * dotR d d + 0 * dotR (vsubR we w0) (vsubR we w0)))
    with (dotR d d) in H by (field; lra).
  lra.
Qed.

Lemma proj_reg_defect_nrm u w0 we : is_min m M0 u w0 -> is_min m Mre u we ->
  nrm (vsubR (vmR n we J) (vmR n w0 J)) <= sqrt re * s / 2 * nrm w0.
Proof.
  intros H0 H1. pose proof (proj_reg_defect_sq u w0 we H0 H1) as H. cbv zeta in H.
  pose proof (sqrt_pos re) as Hq. pose proof (nrm_nonneg w0) as Hw.
  apply nrm_le_of_sq.
  - apply Rmult_le_pos; [|exact Hw]. apply Rmult_le_pos; [|lra]. apply Rmult_le_pos; lra.
  - replace (sqrt re * s / 2 * nrm w0 * (sqrt re * s / 2 * nrm w0))
      with ((sqrt re * sqrt re) * (s * s) * (nrm w0 * nrm w0) / 4) by field.
    rewrite sqrt_sqrt by exact Hre. rewrite nrm_sq. exact H.
Qed.
End RegDefect.

Lemma agg_dualproj_unfold J qp pref s ne re u :
  pref_weights pref (mean_weights RN (length J)) (length J) = Ok u ->
  agg_dualproj RN qp pref s ne re J =
  Ok (vmR (ncols J) (qp (reg_norm_gramian RN (gramR J) s ne re) u) J).
Proof. intros Hpw. unfold agg_dualproj. rewrite Hpw. reflexivity. Qed.

(* R2 *)
Theorem dualproj_reg_defect n J qp pref s ne re u :
  wfmat n J -> 0 < s -> nltb RN s ne = false -> 0 <= re ->
  pref_weights pref (mean_weights RN (length J)) (length J) = Ok u ->
  let m := length J in
  let M0 := reg_norm_gramian RN (gramR J) s ne 0 in
  let Mre := reg_norm_gramian RN (gramR J) s ne re in
  is_min m M0 u (qp M0 u) -> is_min m Mre u (qp Mre u) ->
  exists y0 yre,
    agg_dualproj RN qp pref s ne 0 J = Ok y0 /\
    agg_dualproj RN qp pref s ne re J = Ok yre /\
    dotR (vsubR yre y0) (vsubR yre y0) <= re * (s * s) * dotR (qp M0 u) (qp M0 u) / 4 /\
    nrm (vsubR yre y0) <= sqrt re * s / 2 * nrm (qp M0 u).
Proof.
  intros HJ Hs Hne Hre Hpw m M0 Mre H0 H1.
  pose proof (wfmat_ncols n J HJ) as HJ'.
  exists (vmR (ncols J) (qp M0 u) J), (vmR (ncols J) (qp Mre u) J).
  split; [apply agg_dualproj_unfold; exact Hpw|].
  split; [apply agg_dualproj_unfold; exact Hpw|].
  split.
  - apply (proj_reg_defect_sq (ncols J) J s ne re HJ' Hs Hne Hre u); assumption.
  - apply (proj_reg_defect_nrm (ncols J) J s ne re HJ' Hs Hne Hre u); assumption.
Qed.

(* ====================================================================================== *)
(* R3. UPGrad: regularised vs unregularised output                                        *)
(* ====================================================================================== *)
(* contract of the QP oracle on the m one-hot problems of UPGrad WITH regularisation re
   (qp_unreg_ok is the instance re = 0) *)
Definition qp_reg_ok (qp : list (list R) -> list R -> list R) (J : list (list R)) (s ne re : R)
           (u : list R) : Prop :=
  let m := length J in
  let M := reg_norm_gramian RN (gramR J) s ne re in
  0 < s /\ nltb RN s ne = false /\
  forall i, (i < m)%nat ->
    is_min m M (onehotR m i (vget RN u i)) (qp M (onehotR m i (vget RN u i))).

Lemma qp_reg_ok_0 qp J s ne u : qp_reg_ok qp J s ne 0 u <-> qp_unreg_ok qp J s ne u.
Proof. unfold qp_reg_ok, qp_unreg_ok. tauto. Qed.

(* sum_i | W_i |  for the UNREGULARISED answers of the oracle: independent of reg_eps *)
Definition upgrad_Wsum (qp : list (list R) -> list R -> list R) (J : list (list R)) (s ne : R)
           (u : list R) : R :=
  vsumR (map (fun i => nrm (upgrad_W qp J s ne u i)) (seq 0 (length J))).

Lemma upgrad_Wsum_nonneg qp J s ne u : 0 <= upgrad_Wsum qp J s ne u.
Proof. unfold upgrad_Wsum. apply vsum_map_nonneg. intros i _. apply nrm_nonneg. Qed.

(* R3: qp0 answers the unregularised problems (reference), qp the regularised ones
   (take qp0 = qp for a single oracle) *)
Theorem upgrad_reg_defect n J qp0 qp pref s ne re u :
  wfmat n J -> J <> [] -> 0 <= re ->
  pref_weights pref (mean_weights RN (length J)) (length J) = Ok u ->
  qp_unreg_ok qp0 J s ne u -> qp_reg_ok qp J s ne re u ->
  exists y0 yre,
    agg_upgrad RN qp0 pref s ne 0 J = Ok y0 /\
    agg_upgrad RN qp pref s ne re J = Ok yre /\
    nrm (vsubR yre y0) <= sqrt re * s / 2 * upgrad_Wsum qp0 J s ne u.
Proof.
  intros HJ HJne Hre Hpw H0 H1.
  pose proof H0 as (Hs & Hne & Hq0). pose proof H1 as (_ & _ & Hq1).
  cbv zeta in Hq0, Hq1.
  set (m := length J) in *.
  set (F0 := fun i => upgrad_W qp0 J s ne u i).
  set (F1 := fun i => qp (reg_norm_gramian RN (gramR J) s ne re) (onehotR m i (vget RN u i))).
  exists (vmR n (vsum_rows RN m (map F0 (seq 0 m))) J), (vmR n (vsum_rows RN m (map F1 (seq 0 m))) J).
  split; [apply (agg_upgrad_unfold n J qp0 pref s ne 0 u HJ HJne Hpw)|].
  split; [apply (agg_upgrad_unfold n J qp pref s ne re u HJ HJne Hpw)|].
  assert (L0 : forall i, In i (seq 0 m) -> length (F0 i) = m).
  { intros i Hi. apply in_seq in Hi. apply (Hq0 i). lia. }
  assert (L1 : forall i, In i (seq 0 m) -> length (F1 i) = m).
  { intros i Hi. apply in_seq in Hi. apply (Hq1 i). lia. }
  rewrite !(vm_vsum_rows n m) by
    (auto; apply Forall_forall; intros r Hr; apply in_map_iff in Hr;
     destruct Hr as (i & <- & Hi); auto).
  rewrite !map_map.
  eapply Rle_trans.
  { apply (nrm_vsum_rows_diff n (fun i => vmR n (F1 i) J) (fun i => vmR n (F0 i) J)).
    intros i _. split; apply length_vm; exact HJ. }
  unfold upgrad_Wsum. fold m. rewrite <- vsum_map_mul.
  apply vsum_map_le. intros i Hi. apply in_seq in Hi.
  apply (proj_reg_defect_nrm n J s ne re HJ Hs Hne Hre (onehotR m i (vget RN u i))).
  - apply (Hq0 i). lia.
  - apply (Hq1 i). lia.
Qed.

(* ====================================================================================== *)
(* R4. defect of linearity under positive row scaling (C09) for UPGrad with reg_eps = re  *)
(* ====================================================================================== *)
Lemma agg_upgrad_length n J qp pref s ne re y : wfmat n J -> J <> [] ->
  agg_upgrad RN qp pref s ne re J = Ok y -> length y = n.
Proof.
  intros HJ HJne H. unfold agg_upgrad in H.
  destruct (pref_weights pref (mean_weights RN (length J)) (length J)) as [u|e]; cbn [rbind] in H;
    [|discriminate].
  injection H as <-. unfold combine_rows. rewrite (ncols_wf n) by assumption.
  apply length_vm. exact HJ.
Qed.

(* | y12 - (a y1 + b y2) | <= | y12 - (a x1 + b x2) | + a | y1 - x1 | + b | y2 - x2 | *)
Lemma nrm_comb_defect n a b x1 x2 y1 y2 y12 : 0 <= a -> 0 <= b ->
  length x1 = n -> length x2 = n -> length y1 = n -> length y2 = n -> length y12 = n ->
  nrm (vsubR y12 (vaddR (vscaleR a y1) (vscaleR b y2))) <=
  nrm (vsubR y12 (vaddR (vscaleR a x1) (vscaleR b x2))) +
  a * nrm (vsubR y1 x1) + b * nrm (vsubR y2 x2).
Proof.
  intros Ha Hb L1 L2 M1 M2 M12.
  set (x12 := vaddR (vscaleR a x1) (vscaleR b x2)).
  assert (Lx12 : length x12 = n)
    by (unfold x12; rewrite length_vadd; rewrite !length_vscale; congruence).
  assert (Ly : length (vaddR (vscaleR a y1) (vscaleR b y2)) = n)
    by (rewrite length_vadd; rewrite !length_vscale; congruence).
  eapply Rle_trans; [apply (nrm_dist_triangle y12 x12); congruence|].
  assert (E : vsubR x12 (vaddR (vscaleR a y1) (vscaleR b y2)) =
              vaddR (vscaleR a (vsubR x1 y1)) (vscaleR b (vsubR x2 y2))).
  { unfold x12. rewrite vsub_vadd_vadd by (rewrite !length_vscale; congruence).
    rewrite !vsub_vscale. reflexivity. }
  rewrite E.
  assert (T : nrm (vaddR (vscaleR a (vsubR x1 y1)) (vscaleR b (vsubR x2 y2))) <=
              nrm (vscaleR a (vsubR x1 y1)) + nrm (vscaleR b (vsubR x2 y2))).
  { apply nrm_triangle. rewrite !length_vscale, !length_vsub by congruence. congruence. }
  rewrite !nrm_vscale in T by assumption.
  rewrite (nrm_vsub_comm x1 y1), (nrm_vsub_comm x2 y2) in T by congruence.
  lra.
Qed.

(* R4.  qp0 : the oracle for the unregularised problems (reference; fixes the constants W),
        qp  : the oracle used by the model at reg_eps = re.
   K = (s12 W12 + a s1 W1 + b s2 W2) / 2 does not depend on re. *)
Definition scaling_defect_const qp0 J s1 s2 s12 ne a b c1 c2 u : R :=
  let c12 := vaddR (vscaleR a c1) (vscaleR b c2) in
  (s12 * upgrad_Wsum qp0 (rscale c12 J) s12 ne u
   + a * (s1 * upgrad_Wsum qp0 (rscale c1 J) s1 ne u)
   + b * (s2 * upgrad_Wsum qp0 (rscale c2 J) s2 ne u)) / 2.

Theorem upgrad_scaling_defect n J qp0 qp pref s s1 s2 s12 ne re a b c1 c2 u :
  wfmat n J -> J <> [] -> length c1 = length J -> length c2 = length J ->
  allpos c1 -> allpos c2 -> 0 < a -> 0 < b -> 0 <= re ->
  pref_weights pref (mean_weights RN (length J)) (length J) = Ok u ->
  let c12 := vaddR (vscaleR a c1) (vscaleR b c2) in
  qp_unreg_ok qp0 J s ne u ->
  qp_unreg_ok qp0 (rscale c1 J) s1 ne u -> qp_unreg_ok qp0 (rscale c2 J) s2 ne u ->
  qp_unreg_ok qp0 (rscale c12 J) s12 ne u ->
  qp_reg_ok qp (rscale c1 J) s1 ne re u -> qp_reg_ok qp (rscale c2 J) s2 ne re u ->
  qp_reg_ok qp (rscale c12 J) s12 ne re u ->
  exists y1 y2 y12,
    agg_upgrad RN qp pref s1 ne re (rscale c1 J) = Ok y1 /\
    agg_upgrad RN qp pref s2 ne re (rscale c2 J) = Ok y2 /\
    agg_upgrad RN qp pref s12 ne re (rscale c12 J) = Ok y12 /\
    nrm (vsubR y12 (vaddR (vscaleR a y1) (vscaleR b y2))) <=
    sqrt re / 2 * (s12 * upgrad_Wsum qp0 (rscale c12 J) s12 ne u
                   + a * (s1 * upgrad_Wsum qp0 (rscale c1 J) s1 ne u)
                   + b * (s2 * upgrad_Wsum qp0 (rscale c2 J) s2 ne u)).
Proof.
  intros HJ HJne H1 H2 P1 P2 Ha Hb Hre Hpw c12 Hq Hq1 Hq2 Hq12 Hr1 Hr2 Hr12.
  assert (Hl12 : length c12 = length J)
    by (unfold c12; rewrite length_vadd; rewrite !length_vscale; congruence).
  destruct (agg_upgrad_unreg_linear_under_scaling n J qp0 pref s s1 s2 s12 ne a b c1 c2 u
              HJ HJne H1 H2 P1 P2 Ha Hb Hpw Hq Hq1 Hq2 Hq12) as (x1 & x2 & E1 & E2 & E12).
  fold c12 in E12.
  assert (D : forall c sc, length c = length J ->
            qp_unreg_ok qp0 (rscale c J) sc ne u -> qp_reg_ok qp (rscale c J) sc ne re u ->
            forall x, agg_upgrad RN qp0 pref sc ne 0 (rscale c J) = Ok x ->
            exists y, agg_upgrad RN qp pref sc ne re (rscale c J) = Ok y /\
                      length x = n /\ length y = n /\
                      nrm (vsubR y x) <= sqrt re * sc / 2 * upgrad_Wsum qp0 (rscale c J) sc ne u).
  { intros c sc Hc Hu0 Hu1 x Ex.
    assert (HJc : wfmat n (rscale c J)) by (apply wfmat_rscale; exact HJ).
    assert (HJcne : rscale c J <> []) by (apply rscale_nonempty; assumption).
    assert (Hpwc : pref_weights pref (mean_weights RN (length (rscale c J))) (length (rscale c J)) = Ok u)
      by (rewrite length_rscale by exact Hc; exact Hpw).
    destruct (upgrad_reg_defect n (rscale c J) qp0 qp pref sc ne re u HJc HJcne Hre Hpwc Hu0 Hu1)
      as (y0 & y & Ey0 & Ey & Hb').
    rewrite Ex in Ey0. injection Ey0 as <-.
    exists y. split; [exact Ey|].
    split; [apply (agg_upgrad_length n _ _ _ _ _ _ _ HJc HJcne Ex)|].
    split; [apply (agg_upgrad_length n _ _ _ _ _ _ _ HJc HJcne Ey)|]. exact Hb'. }
  destruct (D c1 s1 H1 Hq1 Hr1 x1 E1) as (y1 & Ey1 & Lx1 & Ly1 & B1).
  destruct (D c2 s2 H2 Hq2 Hr2 x2 E2) as (y2 & Ey2 & Lx2 & Ly2 & B2).
  destruct (D c12 s12 Hl12 Hq12 Hr12 _ E12) as (y12 & Ey12 & _ & Ly12 & B12).
  exists y1, y2, y12. split; [exact Ey1|]. split; [exact Ey2|]. split; [exact Ey12|].
  pose proof (nrm_comb_defect n a b x1 x2 y1 y2 y12 (Rlt_le _ _ Ha) (Rlt_le _ _ Hb)
                Lx1 Lx2 Ly1 Ly2 Ly12) as T.
  set (W1 := upgrad_Wsum qp0 (rscale c1 J) s1 ne u) in *.
  set (W2 := upgrad_Wsum qp0 (rscale c2 J) s2 ne u) in *.
  set (W12 := upgrad_Wsum qp0 (rscale c12 J) s12 ne u) in *.
  set (N1 := nrm (vsubR y1 x1)) in *. set (N2 := nrm (vsubR y2 x2)) in *.
  set (N12 := nrm (vsubR y12 (vaddR (vscaleR a x1) (vscaleR b x2)))) in *.
  pose proof (Rmult_le_compat_l a _ _ (Rlt_le _ _ Ha) B1) as A1.
  pose proof (Rmult_le_compat_l b _ _ (Rlt_le _ _ Hb) B2) as A2.
  eapply Rle_trans; [exact T|].
  apply Rle_trans with (sqrt re * s12 / 2 * W12 + a * (sqrt re * s1 / 2 * W1)
                        + b * (sqrt re * s2 / 2 * W2)); [lra|].
  apply Req_le. field.
Qed.

(* ====================================================================================== *)
(* R5. the defect vanishes as reg_eps -> 0                                                *)
(* ====================================================================================== *)
Lemma scaling_defect_const_nonneg qp0 J s1 s2 s12 ne a b c1 c2 u :
  0 < s1 -> 0 < s2 -> 0 < s12 -> 0 < a -> 0 < b ->
  0 <= scaling_defect_const qp0 J s1 s2 s12 ne a b c1 c2 u.
Proof.
  intros H1 H2 H12 Ha Hb. unfold scaling_defect_const. cbv zeta.
  pose proof (upgrad_Wsum_nonneg qp0 (rscale c1 J) s1 ne u) as W1.
  pose proof (upgrad_Wsum_nonneg qp0 (rscale c2 J) s2 ne u) as W2.
  pose proof (upgrad_Wsum_nonneg qp0 (rscale (vaddR (vscaleR a c1) (vscaleR b c2)) J) s12 ne u) as W12.
  set (w1 := upgrad_Wsum qp0 (rscale c1 J) s1 ne u) in *.
  set (w2 := upgrad_Wsum qp0 (rscale c2 J) s2 ne u) in *.
  set (w12 := upgrad_Wsum qp0 (rscale (vaddR (vscaleR a c1) (vscaleR b c2)) J) s12 ne u) in *.
  assert (0 <= s12 * w12) by (apply Rmult_le_pos; lra).
  assert (0 <= a * (s1 * w1)) by (apply Rmult_le_pos; [lra|apply Rmult_le_pos; lra]).
  assert (0 <= b * (s2 * w2)) by (apply Rmult_le_pos; [lra|apply Rmult_le_pos; lra]).
  lra.
Qed.

(* quantitative form: the defect is below eps as soon as  re * K^2 < eps^2 *)
Theorem upgrad_scaling_defect_small n J qp0 qp pref s s1 s2 s12 ne re a b c1 c2 u eps :
  wfmat n J -> J <> [] -> length c1 = length J -> length c2 = length J ->
  allpos c1 -> allpos c2 -> 0 < a -> 0 < b -> 0 <= re ->
  pref_weights pref (mean_weights RN (length J)) (length J) = Ok u ->
  let c12 := vaddR (vscaleR a c1) (vscaleR b c2) in
  let K := scaling_defect_const qp0 J s1 s2 s12 ne a b c1 c2 u in
  qp_unreg_ok qp0 J s ne u ->
  qp_unreg_ok qp0 (rscale c1 J) s1 ne u -> qp_unreg_ok qp0 (rscale c2 J) s2 ne u ->
  qp_unreg_ok qp0 (rscale c12 J) s12 ne u ->
  qp_reg_ok qp (rscale c1 J) s1 ne re u -> qp_reg_ok qp (rscale c2 J) s2 ne re u ->
  qp_reg_ok qp (rscale c12 J) s12 ne re u ->
  0 < eps -> re * (K * K) < eps * eps ->
  exists y1 y2 y12,
    agg_upgrad RN qp pref s1 ne re (rscale c1 J) = Ok y1 /\
    agg_upgrad RN qp pref s2 ne re (rscale c2 J) = Ok y2 /\
    agg_upgrad RN qp pref s12 ne re (rscale c12 J) = Ok y12 /\
    nrm (vsubR y12 (vaddR (vscaleR a y1) (vscaleR b y2))) < eps.
Proof.
  intros HJ HJne H1 H2 P1 P2 Ha Hb Hre Hpw c12 K Hq Hq1 Hq2 Hq12 Hr1 Hr2 Hr12 Heps Hsmall.
  destruct (upgrad_scaling_defect n J qp0 qp pref s s1 s2 s12 ne re a b c1 c2 u
              HJ HJne H1 H2 P1 P2 Ha Hb Hre Hpw Hq Hq1 Hq2 Hq12 Hr1 Hr2 Hr12)
    as (y1 & y2 & y12 & E1 & E2 & E12 & B).
  exists y1, y2, y12. split; [exact E1|]. split; [exact E2|]. split; [exact E12|].
  fold c12 in B.
  assert (HK : 0 <= K).
  { apply scaling_defect_const_nonneg; try assumption; [apply Hq1 | apply Hq2 | apply Hq12]. }
  assert (EB : sqrt re / 2 * (s12 * upgrad_Wsum qp0 (rscale c12 J) s12 ne u
                   + a * (s1 * upgrad_Wsum qp0 (rscale c1 J) s1 ne u)
                   + b * (s2 * upgrad_Wsum qp0 (rscale c2 J) s2 ne u)) = sqrt re * K).
  { unfold K, scaling_defect_const. cbv zeta. fold c12. field. }
  rewrite EB in B.
  apply Rle_lt_trans with (1 := B).
  apply lt_of_sq_lt; [lra|].
  replace (sqrt re * K * (sqrt re * K)) with ((sqrt re * sqrt re) * (K * K)) by ring.
  rewrite sqrt_sqrt by exact Hre. exact Hsmall.
Qed.

(* R5: for every eps > 0 there is delta > 0, depending only on the unregularised data (through K),
   such that for EVERY reg_eps in [0, delta) and EVERY oracle qp meeting the regularised contract
   at that reg_eps on the three scaled matrices, the linearity defect of UPGrad is below eps *)
Theorem upgrad_scaling_defect_vanishes n J qp0 pref s s1 s2 s12 ne a b c1 c2 u :
  wfmat n J -> J <> [] -> length c1 = length J -> length c2 = length J ->
  allpos c1 -> allpos c2 -> 0 < a -> 0 < b ->
  pref_weights pref (mean_weights RN (length J)) (length J) = Ok u ->
  let c12 := vaddR (vscaleR a c1) (vscaleR b c2) in
  qp_unreg_ok qp0 J s ne u ->
  qp_unreg_ok qp0 (rscale c1 J) s1 ne u -> qp_unreg_ok qp0 (rscale c2 J) s2 ne u ->
  qp_unreg_ok qp0 (rscale c12 J) s12 ne u ->
  forall eps, 0 < eps ->
  exists delta, 0 < delta /\
    forall re qp, 0 <= re < delta ->
      qp_reg_ok qp (rscale c1 J) s1 ne re u -> qp_reg_ok qp (rscale c2 J) s2 ne re u ->
      qp_reg_ok qp (rscale c12 J) s12 ne re u ->
      exists y1 y2 y12,
        agg_upgrad RN qp pref s1 ne re (rscale c1 J) = Ok y1 /\
        agg_upgrad RN qp pref s2 ne re (rscale c2 J) = Ok y2 /\
        agg_upgrad RN qp pref s12 ne re (rscale c12 J) = Ok y12 /\
        nrm (vsubR y12 (vaddR (vscaleR a y1) (vscaleR b y2))) < eps.
Proof.
  intros HJ HJne H1 H2 P1 P2 Ha Hb Hpw c12 Hq Hq1 Hq2 Hq12 eps Heps.
  set (K := scaling_defect_const qp0 J s1 s2 s12 ne a b c1 c2 u).
  assert (HK2 : 0 < K * K + 1) by nra.
  exists (eps * eps / (K * K + 1)). split.
  - apply Rdiv_lt_0_compat; [nra | exact HK2].
  - intros re qp [Hre Hlt] Hr1 Hr2 Hr12.
    apply (upgrad_scaling_defect_small n J qp0 qp pref s s1 s2 s12 ne re a b c1 c2 u eps);
      try assumption.
    fold K.
    assert (Hm : re * (K * K + 1) < eps * eps).
    { apply (Rmult_lt_compat_r (K * K + 1)) in Hlt; [|exact HK2].
      replace (eps * eps / (K * K + 1) * (K * K + 1)) with (eps * eps) in Hlt by (field; lra).
      exact Hlt. }
    nra.
Qed.

(* ---- non-vacuity: in the no-conflict case the oracle  qp _ x = x  meets the regularised contract
   for every re >= 0 (on J and, as in upgrad_unreg_hyps_satisfiable, on every diag(c) J) ---- *)
Lemma qp_reg_ok_no_conflict n J s ne re u : wfmat n J -> 0 < s -> nltb RN s ne = false -> 0 <= re ->
  (forall r r', In r J -> In r' J -> 0 <= dotR r r') -> nonneg u ->
  qp_reg_ok (fun _ x => x) J s ne re u.
Proof.
  intros HJ Hs Hne Hre Hnc Hu. split; [exact Hs|]. split; [exact Hne|]. intros i Hi.
  apply (no_conflict_min n); auto.
  - apply length_onehot.
  - apply nonneg_onehot. unfold vget. rn. apply nonneg_nth. exact Hu.
Qed.

Lemma qp_reg_ok_no_conflict_rscale n J c s' ne re u : wfmat n J -> 0 < s' ->
  nltb RN s' ne = false -> 0 <= re -> allpos c ->
  (forall r r', In r J -> In r' J -> 0 <= dotR r r') -> nonneg u ->
  qp_reg_ok (fun _ x => x) (rscale c J) s' ne re u.
Proof.
  intros HJ Hs' Hne' Hre Hc Hnc Hu.
  apply (qp_reg_ok_no_conflict n); auto using wfmat_rscale.
  intros r r' Hr Hr'.
  destruct (in_rscale c J r Hc Hr) as (k & r0 & Hk & Hin & ->).
  destruct (in_rscale c J r' Hc Hr') as (k' & r0' & Hk' & Hin' & ->).
  rewrite dot_vscale_l, dot_vscale_r. specialize (Hnc _ _ Hin Hin').
  apply Rmult_le_pos; [lra|]. apply Rmult_le_pos; [lra | exact Hnc].
Qed.

(* ====================================================================================== *)
Print Assumptions qp_reg_perturbation.
Print Assumptions dualproj_reg_defect.
Print Assumptions upgrad_reg_defect.
Print Assumptions upgrad_scaling_defect.
Print Assumptions upgrad_scaling_defect_small.
Print Assumptions upgrad_scaling_defect_vanishes.
Print Assumptions qp_reg_ok_no_conflict_rscale.
