(* ScalingProofs.v — C09 (linear under positive row scaling) for PCGrad and ConFIG;
   C16: the neighbourhood of a Krum score (the dropped entry is the distance to itself). *)
From Coq Require Import Reals List Bool Arith Lia Lra Psatz Permutation Sorted.
From TJ Require Import Num Linalg NumR Agg.
From TJ.proofs Require Import LinalgR QPProofs C18Proofs C16Proofs.
Import ListNotations.
Local Open Scope R_scope.

(* ================= diag(c) J ================= *)
Definition rscale (c : list R) (J : list (list R)) : list (list R) :=
  map (fun '(ci, r) => vscaleR ci r) (List.combine c J).

Definition allpos (c : list R) : Prop := Forall (fun x => 0 < x) c.

Lemma length_rscale c J : length c = length J -> length (rscale c J) = length J.
Proof. intros H. unfold rscale. rewrite map_length, combine_length. lia. Qed.

Lemma nth_rscale : forall J c j, length c = length J ->
  nth j (rscale c J) [] = vscaleR (nth j c 0) (nth j J []).
Proof.
  induction J as [|r J IH]; intros [|x c] j H; cbn in H; try lia.
  - destruct j; reflexivity.
  - destruct j as [|j]; [reflexivity|]. unfold rscale. cbn [List.combine map nth].
    fold (rscale c J). apply IH. lia.
Qed.

Lemma wfmat_rscale n c J : wfmat n J -> wfmat n (rscale c J).
Proof.
  intros HJ. unfold wfmat, rscale. apply Forall_forall. intros r Hr. apply in_map_iff in Hr.
  destruct Hr as ([ci r0] & <- & Hin). apply in_combine_r in Hin. rewrite length_vscale.
  unfold wfmat in HJ. rewrite Forall_forall in HJ. apply HJ. exact Hin.
Qed.

Lemma rscale_nonempty c J : length c = length J -> J <> [] -> rscale c J <> [].
Proof.
  intros Hl Hne E. apply (f_equal (@length (list R))) in E. rewrite length_rscale in E by exact Hl.
  destruct J; [congruence|discriminate].
Qed.

Lemma allpos_nth c i : allpos c -> (i < length c)%nat -> 0 < nth i c 0.
Proof.
  intros Hc Hi. unfold allpos in Hc. rewrite Forall_forall in Hc. apply Hc. apply nth_In. exact Hi.
Qed.

Lemma allpos_comb a b : 0 < a -> 0 < b -> forall c1 c2, allpos c1 -> allpos c2 ->
  allpos (vaddR (vscaleR a c1) (vscaleR b c2)).
Proof.
  intros Ha Hb. induction c1 as [|x c1 IH]; intros [|y c2] H1 H2; try constructor.
  - apply Forall_cons_iff in H1. apply Forall_cons_iff in H2. rn. nra.
  - apply Forall_cons_iff in H1. apply Forall_cons_iff in H2. apply IH; tauto.
Qed.

(* ---- small vector identities ---- *)
Lemma sc_vscale_vscale x y r : vscaleR x (vscaleR y r) = vscaleR (x * y) r.
Proof. unfold vscale. rewrite map_map. apply map_ext. intros z. rn. ring. Qed.

Lemma sc_vscale_vsub t : forall g h, vscaleR t (vsubR g h) = vsubR (vscaleR t g) (vscaleR t h).
Proof.
  induction g as [|x g IH]; intros [|y h]; try reflexivity.
  cbn [vsub vscale map]. fold (vscaleR t (vsubR g h)) (vscaleR t g) (vscaleR t h).
  rewrite IH. rn. f_equal. ring.
Qed.

Lemma sc_vscale_add p q u : vaddR (vscaleR p u) (vscaleR q u) = vscaleR (p + q) u.
Proof.
  induction u as [|z u IH]; [reflexivity|]. cbn [vscale map vadd].
  fold (vscaleR p u) (vscaleR q u) (vscaleR (p + q) u). rewrite IH. rn. f_equal. ring.
Qed.

(* (a A1 + b A2) + (a x + b y) P = a (A1 + x P) + b (A2 + y P) *)
Lemma sc_comb_step a b x y : forall P A1 A2, length A1 = length P -> length A2 = length P ->
  vaddR (vaddR (vscaleR a A1) (vscaleR b A2)) (vscaleR (a * x + b * y) P) =
  vaddR (vscaleR a (vaddR A1 (vscaleR x P))) (vscaleR b (vaddR A2 (vscaleR y P))).
Proof.
  induction P as [|z P IH]; intros [|u A1] [|v A2] H1 H2; cbn in H1, H2; try lia; [reflexivity|].
  cbn [vscale map vadd].
  fold (vscaleR a A1) (vscaleR b A2) (vscaleR (a * x + b * y) P) (vscaleR x P) (vscaleR y P).
  fold (vscaleR a (vaddR A1 (vscaleR x P))) (vscaleR b (vaddR A2 (vscaleR y P))).
  rewrite IH by lia. rn. f_equal. ring.
Qed.

(* ================= S1: PCGrad ================= *)
(* a conflict (negative inner product) with row j is only possible when row j is non-zero *)
Lemma conflict_nonzero g gj : dotR g gj < 0 -> 0 < dotR gj gj.
Proof.
  intros Hneg. pose proof (dot_self_nonneg gj) as Hp.
  destruct (Req_dec (dotR gj gj) 0) as [E|E]; [|lra].
  apply dot_self_zero in E. rewrite E, dot_vzero_r in Hneg. lra.
Qed.

Lemma length_pc_vec n J i : wfmat n J -> forall perm g, length g = n ->
  length (pc_vec J i perm g) = n.
Proof.
  intros HJ. induction perm as [|j perm IH]; intros g Hg; [exact Hg|].
  cbn [pc_vec]. destruct (j =? i)%nat; [apply IH; exact Hg|]. cbv zeta.
  destruct (Rltb (dotR g (nth j J [])) 0) eqn:E; [|apply IH; exact Hg].
  apply IH. apply Rltb_true in E.
  destruct (nth_in_or_default j J []) as [Hin|Hd].
  - unfold wfmat in HJ. rewrite Forall_forall in HJ. specialize (HJ _ Hin).
    rewrite length_vsub; [exact Hg|]. rewrite length_vscale. congruence.
  - rewrite Hd, dot_nil_r in E. lra.
Qed.

(* the projection sequence commutes with positive row scaling:
   the conflict tests are invariant and every subtracted projection is unchanged *)
Theorem pc_vec_rscale J c i t : length c = length J -> allpos c -> 0 < t ->
  forall perm g, pc_vec (rscale c J) i perm (vscaleR t g) = vscaleR t (pc_vec J i perm g).
Proof.
  intros Hl Hc Ht. induction perm as [|j perm IH]; intros g; [reflexivity|].
  cbn [pc_vec]. destruct (j =? i)%nat; [apply IH|]. cbv zeta.
  rewrite nth_rscale by exact Hl.
  destruct (Nat.lt_ge_cases j (length J)) as [Hj|Hj].
  - assert (Hcj : 0 < nth j c 0) by (apply allpos_nth; [exact Hc|lia]).
    set (cj := nth j c 0) in *. set (gj := nth j J []).
    rewrite !dot_vscale_l, !dot_vscale_r.
    set (ip := dotR g gj). set (d := dotR gj gj).
    destruct (Rltb ip 0) eqn:E.
    + apply Rltb_true in E.
      assert (Hd : 0 < d) by (apply (conflict_nonzero g gj); exact E).
      assert (E' : Rltb (t * (cj * ip)) 0 = true).
      { apply Rltb_true. assert (0 < t * cj) by (apply Rmult_lt_0_compat; assumption).
        rewrite <- Rmult_assoc. timeout 60 nra. }
      rewrite E'. rewrite sc_vscale_vscale.
      replace (t * (cj * ip) / (cj * (cj * d)) * cj) with (t * (ip / d)) by (field; lra).
      rewrite <- sc_vscale_vscale, <- sc_vscale_vsub. apply IH.
    + apply Rltb_false in E.
      assert (E' : Rltb (t * (cj * ip)) 0 = false).
      { apply Rltb_false. apply Rmult_le_pos; [lra|]. apply Rmult_le_pos; lra. }
      rewrite E'. apply IH.
  - rewrite (nth_overflow J) by exact Hj. cbn [vscale map]. rewrite !dot_nil_r.
    assert (E : Rltb 0 0 = false) by (apply Rltb_false; lra). rewrite E. apply IH.
Qed.

(* sum_i c_i * pc_vec J i perm_i g_i, accumulated in the order of the code *)
Fixpoint pc_lin (c : list R) (J : list (list R)) (i : nat) (perms : list (list nat))
         (acc : list R) : list R :=
  match perms with
  | [] => acc
  | perm :: ps =>
      pc_lin c J (S i) ps (vaddR acc (vscaleR (nth i c 0) (pc_vec J i perm (nth i J []))))
  end.

Lemma pc_outer_vec_rscale J c : length c = length J -> allpos c ->
  forall perms i acc, (i + length perms <= length J)%nat ->
  pc_outer_vec (rscale c J) i perms acc = pc_lin c J i perms acc.
Proof.
  intros Hl Hc. induction perms as [|perm ps IH]; intros i acc Hi; [reflexivity|].
  cbn [length] in Hi. cbn [pc_outer_vec pc_lin].
  rewrite nth_rscale by exact Hl.
  rewrite pc_vec_rscale; [|exact Hl|exact Hc|apply allpos_nth; [exact Hc|lia]].
  apply IH. lia.
Qed.

(* closed form of PCGrad on a positively row-scaled matrix *)
Theorem pcgrad_rscale_formula n J perms c : wfmat n J -> J <> [] ->
  (length perms <= length J)%nat ->
  Forall (Forall (fun j => (j < length J)%nat)) perms ->
  length c = length J -> allpos c ->
  agg_pcgrad RN perms (rscale c J) = pc_lin c J 0 perms (vzeroR n).
Proof.
  intros HJ Hne Hlp Hp Hl Hc.
  rewrite (pcgrad_spec n).
  - apply pc_outer_vec_rscale; [exact Hl|exact Hc|lia].
  - apply wfmat_rscale. exact HJ.
  - apply rscale_nonempty; assumption.
  - rewrite length_rscale by exact Hl. exact Hlp.
  - rewrite length_rscale by exact Hl. exact Hp.
Qed.

(* the closed form is a linear function of c (no sign condition needed here) *)
Lemma pc_lin_linear n J a b c1 c2 : wfmat n J -> length c1 = length J -> length c2 = length J ->
  forall perms i acc1 acc2, length acc1 = n -> length acc2 = n ->
  (i + length perms <= length J)%nat ->
  pc_lin (vaddR (vscaleR a c1) (vscaleR b c2)) J i perms (vaddR (vscaleR a acc1) (vscaleR b acc2)) =
  vaddR (vscaleR a (pc_lin c1 J i perms acc1)) (vscaleR b (pc_lin c2 J i perms acc2)).
Proof.
  intros HJ H1 H2. induction perms as [|perm ps IH]; intros i acc1 acc2 Ha1 Ha2 Hi; [reflexivity|].
  cbn [length] in Hi. cbn [pc_lin].
  rewrite nth_vadd by (rewrite !length_vscale; congruence). rewrite !nth_vscale.
  assert (Hgi : length (nth i J []) = n).
  { unfold wfmat in HJ. rewrite Forall_forall in HJ. apply HJ. apply nth_In. lia. }
  assert (HP : length (pc_vec J i perm (nth i J [])) = n) by (apply (length_pc_vec n); assumption).
  rewrite sc_comb_step by congruence.
  apply IH; [| |lia]; (rewrite length_vadd; [assumption|rewrite length_vscale; congruence]).
Qed.

(* C09 for PCGrad, every fixed schedule: c |-> PCGrad(diag(c) J) is linear on positive vectors *)
Theorem pcgrad_linear_under_scaling_gen n J perms a b c1 c2 : wfmat n J -> J <> [] ->
  (length perms <= length J)%nat ->
  Forall (Forall (fun j => (j < length J)%nat)) perms ->
  length c1 = length J -> length c2 = length J ->
  allpos c1 -> allpos c2 -> allpos (vaddR (vscaleR a c1) (vscaleR b c2)) ->
  agg_pcgrad RN perms (rscale (vaddR (vscaleR a c1) (vscaleR b c2)) J) =
  vaddR (vscaleR a (agg_pcgrad RN perms (rscale c1 J)))
        (vscaleR b (agg_pcgrad RN perms (rscale c2 J))).
Proof.
  intros HJ Hne Hlp Hp H1 H2 P1 P2 P12.
  rewrite !(pcgrad_rscale_formula n) by
    (try assumption; rewrite length_vadd; rewrite !length_vscale; congruence).
  replace (vzeroR n) with (vaddR (vscaleR a (vzeroR n)) (vscaleR b (vzeroR n))) at 1
    by (rewrite !vscale_vzero; apply vadd_vzero_vzero).
  apply (pc_lin_linear n); try assumption; apply length_vzero.
Qed.

Theorem pcgrad_linear_under_scaling n J perms a b c1 c2 : wfmat n J -> J <> [] ->
  (length perms <= length J)%nat ->
  Forall (Forall (fun j => (j < length J)%nat)) perms ->
  length c1 = length J -> length c2 = length J ->
  allpos c1 -> allpos c2 -> 0 < a -> 0 < b ->
  agg_pcgrad RN perms (rscale (vaddR (vscaleR a c1) (vscaleR b c2)) J) =
  vaddR (vscaleR a (agg_pcgrad RN perms (rscale c1 J)))
        (vscaleR b (agg_pcgrad RN perms (rscale c2 J))).
Proof.
  intros HJ Hne Hlp Hp H1 H2 P1 P2 Ha Hb.
  apply (pcgrad_linear_under_scaling_gen n); try assumption. apply allpos_comb; assumption.
Qed.

(* ================= S2: Krum's neighbourhood ================= *)
Definition remove_nth {A} (i : nat) (l : list A) : list A := firstn i l ++ skipn (S i) l.

Lemma nth_split_R (l : list R) : forall i, (i < length l)%nat ->
  l = firstn i l ++ nth i l 0 :: skipn (S i) l.
Proof.
  induction l as [|x l IH]; intros i H; cbn in H; [lia|].
  destruct i as [|i]; [reflexivity|]. cbn [firstn nth skipn app]. f_equal. apply IH. lia.
Qed.

Lemma length_remove_nth (l : list R) i : (i < length l)%nat ->
  length (remove_nth i l) = (length l - 1)%nat.
Proof.
  intros Hi. unfold remove_nth. rewrite app_length, firstn_length, skipn_length. lia.
Qed.

(* a sorted list is determined by its multiset of entries *)
Lemma sorted_perm_eq : forall l1 l2 : list R, StronglySorted Rle l1 -> StronglySorted Rle l2 ->
  Permutation l1 l2 -> l1 = l2.
Proof.
  induction l1 as [|x l1 IH]; intros l2 H1 H2 Hp.
  - apply Permutation_nil in Hp. subst; reflexivity.
  - destruct l2 as [|y l2]; [apply Permutation_sym, Permutation_nil in Hp; discriminate|].
    apply StronglySorted_inv in H1; destruct H1 as [H1 Hx].
    apply StronglySorted_inv in H2; destruct H2 as [H2 Hy].
    rewrite Forall_forall in Hx, Hy.
    assert (Exy : x = y).
    { assert (Hxin : In x (y :: l2)) by (apply (Permutation_in _ Hp); left; reflexivity).
      assert (Hyin : In y (x :: l1))
        by (apply (Permutation_in _ (Permutation_sym Hp)); left; reflexivity).
      destruct Hxin as [->|Hxin]; [reflexivity|]. destruct Hyin as [->|Hyin]; [reflexivity|].
      apply Rle_antisym; auto. }
    subst y. f_equal. apply IH; auto. eapply Permutation_cons_inv; exact Hp.
Qed.

(* removing (one occurrence of) a minimum and sorting = sorting and dropping the head *)
Lemma isort_remove_min row i : (i < length row)%nat -> Forall (Rle (nth i row 0)) row ->
  isortR row = nth i row 0 :: isortR (remove_nth i row).
Proof.
  intros Hi Hmin. pose proof (nth_split_R row i Hi) as E. unfold remove_nth.
  set (x := nth i row 0) in *. set (A := firstn i row) in *. set (B := skipn (S i) row) in *.
  assert (HAB : Forall (Rle x) (A ++ B)).
  { rewrite E in Hmin. apply Forall_app in Hmin. destruct Hmin as [HA HB].
    apply Forall_cons_iff in HB. apply Forall_app. tauto. }
  apply sorted_perm_eq.
  - apply isort_sorted.
  - constructor; [apply isort_sorted|].
    eapply Permutation_Forall; [symmetry; apply isort_perm|]. exact HAB.
  - apply Permutation_trans with (A ++ x :: B); [rewrite <- E; apply isort_perm|].
    apply Permutation_sym. apply Permutation_trans with (x :: A ++ B).
    + constructor. apply isort_perm.
    + apply Permutation_middle.
Qed.

Lemma skipn1_firstn {A} k (l : list A) : skipn 1 (firstn (k + 1) l) = firstn k (tl l).
Proof.
  replace (k + 1)%nat with (S k) by lia. destruct l as [|x l]; [destruct k; reflexivity|reflexivity].
Qed.

(* one Krum score: [i] is the position of a minimum of the row *)
Theorem krum_score_row row i nc : (i < length row)%nat -> Forall (Rle (nth i row 0)) row ->
  vsumR (skipn 1 (firstn (nc + 1) (isortR row))) = vsumR (firstn nc (isortR (remove_nth i row))).
Proof.
  intros Hi Hmin. rewrite skipn1_firstn, (isort_remove_min row i) by assumption. reflexivity.
Qed.

Lemma krum_scores_nth D nc i : (i < length D)%nat ->
  nth i (krum_scores RN D nc) 0 = vsumR (skipn 1 (firstn (nc + 1) (isortR (nth i D [])))).
Proof.
  intros Hi. unfold krum_scores.
  rewrite (nth_indep _ 0 ((fun row => vsumR (skipn 1 (firstn (nc + 1) (isortR row)))) []))
    by (rewrite map_length; exact Hi).
  apply (map_nth (fun row => vsumR (skipn 1 (firstn (nc + 1) (isortR row))))).
Qed.

(* C16: with D_ii = 0 and D_ij >= 0, score i = the sum of the n_closest smallest distances
   to the OTHER points: the dropped entry is the distance of point i to itself *)
Theorem krum_scores_neighbourhood D nc i : (i < length D)%nat ->
  let row := nth i D [] in
  (i < length row)%nat -> nth i row 0 = 0 -> Forall (Rle 0) row ->
  nth i (krum_scores RN D nc) 0 = vsumR (firstn nc (isortR (remove_nth i row))).
Proof.
  intros Hi row Hir H0 Hnn. rewrite krum_scores_nth by exact Hi. fold row.
  apply krum_score_row; [exact Hir|]. rewrite H0. exact Hnn.
Qed.

(* the distance matrix computed from ANY Gramian satisfies these hypotheses *)
Lemma krum_dist_self G i : krum_dist RN G i i = 0.
Proof.
  unfold krum_dist. rn. replace (INR 2) with 2 by (cbn; lra).
  replace (mget RN G i i + mget RN G i i - 2 * mget RN G i i) with 0 by ring. apply sqrt_0.
Qed.

Lemma krum_dist_nonneg G i j : 0 <= krum_dist RN G i j.
Proof. unfold krum_dist. rn. apply sqrt_pos. Qed.

Lemma krum_distances_row G i : (i < length G)%nat ->
  nth i (krum_distances RN G) [] = map (fun j => krum_dist RN G i j) (seq 0 (length G)).
Proof.
  intros Hi. unfold krum_distances.
  rewrite (nth_indep _ [] ((fun i0 => map (fun j => krum_dist RN G i0 j) (seq 0 (length G))) 0%nat))
    by (rewrite map_length, seq_length; exact Hi).
  rewrite (map_nth (fun i0 => map (fun j => krum_dist RN G i0 j) (seq 0 (length G)))).
  rewrite seq_nth by exact Hi. reflexivity.
Qed.

Lemma remove_nth_map {A B} (f : A -> B) i l : remove_nth i (map f l) = map f (remove_nth i l).
Proof. unfold remove_nth. rewrite firstn_map, skipn_map, map_app. reflexivity. Qed.

Lemma remove_nth_seq : forall i s m, (i < m)%nat ->
  remove_nth i (seq s m) = seq s i ++ seq (s + S i) (m - S i).
Proof.
  unfold remove_nth. induction i as [|i IH]; intros s m H.
  - destruct m as [|m]; [lia|]. cbn [seq firstn skipn app]. f_equal; lia.
  - destruct m as [|m]; [lia|]. cbn [seq firstn skipn app]. f_equal.
    rewrite IH by lia. f_equal. f_equal; lia.
Qed.

Theorem krum_scores_of_gramian G nc i : (i < length G)%nat ->
  nth i (krum_scores RN (krum_distances RN G) nc) 0 =
  vsumR (firstn nc (isortR (map (fun j => krum_dist RN G i j)
                                (seq 0 i ++ seq (S i) (length G - S i))))).
Proof.
  intros Hi.
  assert (HlD : length (krum_distances RN G) = length G)
    by (unfold krum_distances; rewrite map_length, seq_length; reflexivity).
  pose proof (krum_scores_neighbourhood (krum_distances RN G) nc i) as H. cbv zeta in H.
  rewrite krum_distances_row in H by exact Hi.
  rewrite remove_nth_map, remove_nth_seq in H by exact Hi. cbn [Nat.add] in H.
  apply H.
  - rewrite HlD. exact Hi.
  - rewrite map_length, seq_length. exact Hi.
  - rewrite (nth_indep _ 0 ((fun j => krum_dist RN G i j) 0%nat))
      by (rewrite map_length, seq_length; exact Hi).
    rewrite (map_nth (fun j => krum_dist RN G i j)), seq_nth by exact Hi. apply krum_dist_self.
  - apply Forall_forall. intros y Hy. apply in_map_iff in Hy. destruct Hy as (j & <- & _).
    apply krum_dist_nonneg.
Qed.

(* ================= S3: ConFIG ================= *)
Lemma vnorm_vscale_pos c r : 0 <= c -> vnorm RN (vscaleR c r) = c * vnorm RN r.
Proof.
  intros Hc. unfold vnorm. rn. rewrite dot_vscale_l, dot_vscale_r.
  replace (c * (c * dotR r r)) with (c * c * dotR r r) by ring.
  rewrite sqrt_mult_alt by (timeout 60 nra).
  rewrite sqrt_square by exact Hc. reflexivity.
Qed.

(* the unit rows do not see a positive row scaling *)
Theorem config_units_rscale : forall J c, length c = length J -> allpos c ->
  config_units RN (rscale c J) = config_units RN J.
Proof.
  induction J as [|r J IH]; intros [|x c] Hl Hc; cbn in Hl; try lia; [reflexivity|].
  apply Forall_cons_iff in Hc. destruct Hc as [Hx Hc].
  unfold rscale. cbn [List.combine map config_units]. fold (rscale c J).
  fold (config_units RN (rscale c J)) (config_units RN J).
  rewrite IH by (try exact Hc; lia). f_equal.
  rewrite vnorm_vscale_pos by lra. rewrite length_vscale.
  set (s := vnorm RN r). assert (Hs : 0 <= s) by (unfold s, vnorm; rn; apply sqrt_pos).
  rn. destruct (Rleb s 0) eqn:E.
  - apply Rleb_true in E. assert (s = 0) as -> by lra.
    assert (E' : Rleb (x * 0) 0 = true) by (apply Rleb_true; lra). rewrite E'. reflexivity.
  - apply Rleb_false in E.
    assert (E' : Rleb (x * s) 0 = false) by (apply Rleb_false; apply Rmult_lt_0_compat; lra).
    rewrite E'. rewrite sc_vscale_vscale. f_equal. field. lra.
Qed.

(* the unit direction of ConFIG: depends on the oracle answer B and the preference only *)
Definition config_dir (B : list (list R)) (w : list R) : list R :=
  let best := mvR B w in
  let nb := vnorm RN best in
  if nleb RN nb 0 then vzeroR (length best) else vscaleR (1 / nb) best.

Lemma vsum_dot_rscale u : forall J c, length c = length J ->
  vsumR (map (fun g => dotR g u) (rscale c J)) = dotR c (mvR J u).
Proof.
  induction J as [|r J IH]; intros [|x c] Hl; cbn in Hl; try lia; [reflexivity|].
  unfold rscale. cbn [List.combine map mv]. fold (rscale c J) (mvR J u).
  rewrite vsum_cons, dot_cons, dot_vscale_l, IH by lia. reflexivity.
Qed.

(* for a fixed oracle answer B, ConFIG(diag(c) J) = (sum_i c_i <g_i, u>) u *)
Theorem agg_config_rscale B pref c J : length c = length J ->
  agg_config RN B pref (rscale c J) =
  rbind (pref_weights pref (sum_weights RN (length J)) (length J)) (fun w =>
    Ok (vscaleR (dotR c (mvR J (config_dir B w))) (config_dir B w))).
Proof.
  intros Hl. unfold agg_config. rewrite length_rscale by exact Hl.
  destruct (pref_weights pref (sum_weights RN (length J)) (length J)) as [w|e]; [|reflexivity].
  cbn [rbind]. cbv zeta. fold (config_dir B w). rewrite vsum_dot_rscale by exact Hl. reflexivity.
Qed.

Lemma dot_comb_l a b : forall c1 c2 v, length c1 = length c2 ->
  dotR (vaddR (vscaleR a c1) (vscaleR b c2)) v = a * dotR c1 v + b * dotR c2 v.
Proof.
  intros c1 c2 v H. rewrite dot_vadd_l by (rewrite !length_vscale; exact H).
  rewrite !dot_vscale_l. reflexivity.
Qed.

(* C09 for ConFIG (same oracle answer B, justified by config_units_rscale) *)
Theorem config_linear_under_scaling B pref a b c1 c2 J w :
  length c1 = length J -> length c2 = length J ->
  pref_weights pref (sum_weights RN (length J)) (length J) = Ok w ->
  exists v1 v2,
    agg_config RN B pref (rscale c1 J) = Ok v1 /\
    agg_config RN B pref (rscale c2 J) = Ok v2 /\
    agg_config RN B pref (rscale (vaddR (vscaleR a c1) (vscaleR b c2)) J) =
      Ok (vaddR (vscaleR a v1) (vscaleR b v2)).
Proof.
  intros H1 H2 Hw.
  rewrite !agg_config_rscale by
    (try assumption; rewrite length_vadd; rewrite !length_vscale; congruence).
  rewrite Hw. cbn [rbind]. set (u := config_dir B w).
  eexists. eexists. split; [reflexivity|]. split; [reflexivity|]. f_equal.
  rewrite dot_comb_l by congruence. rewrite !sc_vscale_vscale, sc_vscale_add. reflexivity.
Qed.

(* the error case: the result does not depend on c at all *)
Theorem config_rscale_err B pref c J e : length c = length J ->
  pref_weights pref (sum_weights RN (length J)) (length J) = Err e ->
  agg_config RN B pref (rscale c J) = Err e.
Proof. intros Hl He. rewrite agg_config_rscale by exact Hl. rewrite He. reflexivity. Qed.

Print Assumptions pc_vec_rscale.
Print Assumptions pcgrad_rscale_formula.
Print Assumptions pcgrad_linear_under_scaling_gen.
Print Assumptions pcgrad_linear_under_scaling.
Print Assumptions krum_score_row.
Print Assumptions krum_scores_neighbourhood.
Print Assumptions krum_scores_of_gramian.
Print Assumptions config_units_rscale.
Print Assumptions agg_config_rscale.
Print Assumptions config_linear_under_scaling.
