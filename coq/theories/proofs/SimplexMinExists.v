(* SimplexMinExists.v — existence of optima on the probability simplex.
   (A) a function on the simplex that is Lipschitz for the l1 distance attains its minimum
       (induction on the dimension: every point of the simplex of size m+1 is t :: (1-t) w';
       the value function of the inner minimisation is DEFINED as an infimum through
       [completeness], so no choice axiom is needed; the only compactness used is the
       one-dimensional [continuity_ab_min]);
   (B) the conic program of CAGrad  min_w <w, Gn mean> + c |g_0|_n sqrt (w^T Gn w)  over the
       simplex has an optimum;
   (C) hence for c >= 1 an optimum exists and every optimum that passes the norm_eps test
       gives an aggregation that conflicts with no objective. *)
From Coq Require Import Reals List Bool Arith Lia Lra Psatz.
From TJ Require Import Num Linalg NumR Agg.
From TJ.proofs Require Import LinalgR QPProofs C03Proofs C18Proofs MgdaProofs MgdaRateProofs
  PublishedProofs QPMinExists HullMinExists.
Import ListNotations.
Local Open Scope R_scope.

(* ---------- 1. l1 facts ---------- *)
Lemma l1_vscale c v : l1 (vscaleR c v) = Rabs c * l1 v.
Proof.
  induction v as [|x v IH]; [rewrite l1_nil; cbn [vscale map]; rewrite l1_nil; ring|].
  cbn [vscale map]. fold (vscaleR c v). rewrite !l1_cons, IH. rn. rewrite Rabs_mult. ring.
Qed.

Lemma l1_nonneg_vsum v : nonneg v -> l1 v = vsumR v.
Proof.
  induction 1 as [|x v Hx Hv IH]; [reflexivity|].
  rewrite l1_cons, vsum_cons, IH, Rabs_pos_eq by exact Hx. reflexivity.
Qed.

Lemma l1_simplex m w : simplex m w -> l1 w = 1.
Proof. intros (_ & Hn & Hs). rewrite l1_nonneg_vsum by exact Hn. exact Hs. Qed.

(* same scalar, two vectors *)
Lemma l1_vsub_vscale_same c : forall a b,
  l1 (vsubR (vscaleR c a) (vscaleR c b)) = Rabs c * l1 (vsubR a b).
Proof.
  induction a as [|x a IH]; intros [|y b]; cbn [vscale map vsub]; rewrite ?l1_nil; try ring.
  fold (vscaleR c a) (vscaleR c b). rewrite !l1_cons, IH. rn.
  replace (c * x - c * y) with (c * (x - y)) by ring. rewrite Rabs_mult. ring.
Qed.

(* two scalars, same vector *)
Lemma l1_vsub_vscale_vec a b : forall w,
  l1 (vsubR (vscaleR a w) (vscaleR b w)) = Rabs (a - b) * l1 w.
Proof.
  induction w as [|x w IH]; cbn [vscale map vsub]; rewrite ?l1_nil; try ring.
  fold (vscaleR a w) (vscaleR b w). rewrite !l1_cons, IH. rn.
  replace (a * x - b * x) with ((a - b) * x) by ring. rewrite Rabs_mult. ring.
Qed.

(* ---------- 2. (A) a Lipschitz function on the simplex attains its minimum ---------- *)
Lemma simplex_min_exists_S : forall m (f : list R -> R) (L : R), 0 <= L ->
  (forall w w', simplex (S m) w -> simplex (S m) w' -> f w - f w' <= L * l1 (vsubR w w')) ->
  exists w, simplex (S m) w /\ forall w', simplex (S m) w' -> f w <= f w'.
Proof.
  induction m as [|m IH]; intros f L HL Hlip.
  - exists [1]. split.
    + split; [reflexivity|]. split; [repeat constructor; lra | cbn; lra].
    + intros w (Hl & _ & Hs). destruct w as [|x [|y w]]; cbn in Hl; try lia.
      cbn in Hs. assert (x = 1) by lra. subst x. lra.
  - set (P := simplex (S m)).
    set (F := fun t w' => f (clamp 0 1 t :: vscaleR (1 - clamp 0 1 t) w')).
    assert (H01 : 0 <= 1) by lra.
    assert (HIH : forall t, has_min P (F t)).
    { intros t. apply (IH (F t) L HL). intros w w' Hw Hw'. unfold F.
      pose proof (clamp_in 0 1 t H01) as Hc.
      pose proof (Hlip _ _ (simplex_cons _ _ _ Hc Hw) (simplex_cons _ _ _ Hc Hw')) as H.
      rewrite vsub_cons, l1_cons, l1_vsub_vscale_same in H.
      replace (clamp 0 1 t - clamp 0 1 t) with 0 in H by ring. rewrite Rabs_R0 in H.
      rewrite Rabs_pos_eq in H by lra.
      pose proof (l1_nonneg (vsubR w w')) as Pd.
      assert (L * ((1 - clamp 0 1 t) * l1 (vsubR w w')) <= L * l1 (vsubR w w')).
      { apply Rmult_le_compat_l; [exact HL|]. nra. }
      lra. }
    set (phi := fun t => infP P (F t) (HIH t)).
    assert (Hphi : forall t s, phi t - phi s <= (2 * L) * Rabs (t - s)).
    { intros t s. destruct (HIH s) as (ws & Hws & Hmins).
      unfold phi. rewrite (infP_attained P (F s) (HIH s) ws Hws Hmins).
      pose proof (infP_le P (F t) (HIH t) ws Hws) as Hle.
      unfold F in *.
      pose proof (clamp_in 0 1 t H01) as Hct. pose proof (clamp_in 0 1 s H01) as Hcs.
      pose proof (Hlip _ _ (simplex_cons _ _ _ Hct Hws) (simplex_cons _ _ _ Hcs Hws)) as H.
      rewrite vsub_cons, l1_cons, l1_vsub_vscale_vec, (l1_simplex _ _ Hws) in H.
      replace (1 - clamp 0 1 t - (1 - clamp 0 1 s)) with (- (clamp 0 1 t - clamp 0 1 s)) in H by ring.
      rewrite Rabs_Ropp in H.
      pose proof (clamp_lip 0 1 t s H01) as Hcl.
      assert (L * Rabs (clamp 0 1 t - clamp 0 1 s) <= L * Rabs (t - s))
        by (apply Rmult_le_compat_l; assumption).
      lra. }
    destruct (continuity_ab_min phi 0 1 H01) as (ts & Hts & Hts01).
    { intros c _. apply (lip_continuity_gen phi (2 * L) c); [lra | exact Hphi]. }
    destruct (HIH ts) as (ws & Hws & Hmins).
    exists (ts :: vscaleR (1 - ts) ws). split; [apply simplex_cons; assumption|].
    intros w Hw. destruct w as [|t r]; [destruct Hw as (Hl & _); cbn in Hl; lia|].
    destruct (simplex_cons_inv (S m) t r ltac:(lia) Hw) as (Ht & w' & Hw' & ->).
    pose proof (infP_attained P (F ts) (HIH ts) ws Hws Hmins) as E1.
    pose proof (infP_le P (F t) (HIH t) w' Hw') as E2.
    assert (E3 : F ts ws = f (ts :: vscaleR (1 - ts) ws))
      by (unfold F; rewrite (clamp_id 0 1 ts Hts01); reflexivity).
    assert (E4 : F t w' = f (t :: vscaleR (1 - t) w'))
      by (unfold F; rewrite (clamp_id 0 1 t Ht); reflexivity).
    specialize (Hts t Ht). unfold phi in Hts. lra.
Qed.

Theorem simplex_min_exists : forall m (f : list R -> R) (L : R), (1 <= m)%nat -> 0 <= L ->
  (forall w w', simplex m w -> simplex m w' -> f w - f w' <= L * l1 (vsubR w w')) ->
  exists w, simplex m w /\ forall w', simplex m w' -> f w <= f w'.
Proof.
  intros m f L Hm HL Hlip. destruct m as [|m]; [lia|].
  apply (simplex_min_exists_S m f L HL Hlip).
Qed.

(* ---------- 3. the norm sqrt (k |x|^2): triangle inequality and an l1 bound ---------- *)
Lemma dot_self_le_l1_sq d : dotR d d <= l1 d * l1 d.
Proof.
  induction d as [|x d IH]; [rewrite l1_nil; cbn; lra|].
  rewrite dot_cons, l1_cons. pose proof (l1_nonneg d) as Pd. pose proof (Rabs_pos x) as Px.
  assert (E : x * x = Rabs x * Rabs x).
  { unfold Rabs. destruct (Rcase_abs x); ring. }
  assert (P : 0 <= Rabs x * l1 d) by (apply Rmult_le_pos; assumption).
  replace ((Rabs x + l1 d) * (Rabs x + l1 d))
    with (Rabs x * Rabs x + 2 * (Rabs x * l1 d) + l1 d * l1 d) by ring.
  lra.
Qed.

Lemma knorm_triangle k y e : 0 <= k -> length y = length e ->
  sqrt (k * dotR (vaddR y e) (vaddR y e)) <= sqrt (k * dotR y y) + sqrt (k * dotR e e).
Proof.
  intros Hk Hl.
  pose proof (dot_self_nonneg y) as Pyy. pose proof (dot_self_nonneg e) as Pee.
  assert (Qy : 0 <= k * dotR y y) by (apply Rmult_le_pos; assumption).
  assert (Qe : 0 <= k * dotR e e) by (apply Rmult_le_pos; assumption).
  set (a := sqrt (k * dotR y y)). set (b := sqrt (k * dotR e e)).
  assert (Ha : 0 <= a) by apply sqrt_pos. assert (Hb : 0 <= b) by apply sqrt_pos.
  assert (Ea : a * a = k * dotR y y) by (apply sqrt_sqrt; exact Qy).
  assert (Eb : b * b = k * dotR e e) by (apply sqrt_sqrt; exact Qe).
  assert (Hab : 0 <= a * b) by (apply Rmult_le_pos; assumption).
  assert (Hcs : Rabs (k * dotR y e) <= a * b).
  { apply sq_le_abs; [exact Hab|].
    replace (a * b * (a * b)) with ((a * a) * (b * b)) by ring. rewrite Ea, Eb.
    pose proof (cauchy_schwarz y e Hl) as Hc.
    replace (k * dotR y e * (k * dotR y e)) with (k * k * (dotR y e * dotR y e)) by ring.
    replace (k * dotR y y * (k * dotR e e)) with (k * k * (dotR y y * dotR e e)) by ring.
    apply Rmult_le_compat_l; [apply Rmult_le_pos; assumption | exact Hc]. }
  pose proof (Rle_abs (k * dotR y e)) as Hle.
  rewrite dot_vadd_l by exact Hl. rewrite !dot_vadd_r by exact Hl. rewrite (dot_comm e y).
  apply Rle_trans with (sqrt ((a + b) * (a + b))).
  - apply sqrt_le_1_alt.
    replace ((a + b) * (a + b)) with (a * a + 2 * (a * b) + b * b) by ring. rewrite Ea, Eb.
    replace (k * (dotR y y + dotR y e + (dotR y e + dotR e e)))
      with (k * dotR y y + 2 * (k * dotR y e) + k * dotR e e) by ring.
    lra.
  - rewrite sqrt_square by lra. lra.
Qed.

(* the conic objective  w |-> <w, b> + K sqrt (k |w . J|^2)  is l1-Lipschitz *)
Lemma conic_objective_lip n J b k K : wfmat n J -> 0 <= k -> 0 <= K ->
  exists L, 0 <= L /\ forall w w', length w = length J -> length w' = length J ->
    (dotR w b + K * sqrt (k * dotR (vmR n w J) (vmR n w J))) -
    (dotR w' b + K * sqrt (k * dotR (vmR n w' J) (vmR n w' J))) <= L * l1 (vsubR w w').
Proof.
  intros HJ Hk HK. destruct (vm_normsq_bound n J HJ) as (S & HS & HSb).
  assert (HkS : 0 <= k * S) by (apply Rmult_le_pos; assumption).
  exists (l1 b + K * sqrt (k * S)). split.
  { pose proof (l1_nonneg b). pose proof (sqrt_pos (k * S)).
    assert (0 <= K * sqrt (k * S)) by (apply Rmult_le_pos; assumption). lra. }
  intros w w' Hw Hw'.
  set (d := vsubR w w').
  assert (Hd : length d = length J) by (unfold d; rewrite length_vsub; congruence).
  assert (E : w = vaddR w' d) by (unfold d; symmetry; apply vadd_vsub; congruence).
  pose proof (l1_nonneg d) as Pd.
  (* linear part *)
  assert (Elin : dotR w b = dotR w' b + dotR d b).
  { rewrite E at 1. apply dot_vadd_l. congruence. }
  pose proof (abs_dot_l1 d b) as A1. pose proof (Rle_abs (dotR d b)) as A2.
  (* norm part *)
  set (y := vmR n w' J). set (e := vmR n d J).
  assert (Hly : length y = n) by (apply length_vm; exact HJ).
  assert (Hle : length e = n) by (apply length_vm; exact HJ).
  assert (Evm : vmR n w J = vaddR y e).
  { rewrite E at 1. apply vm_vadd; [exact HJ | congruence]. }
  rewrite Evm.
  pose proof (knorm_triangle k y e Hk ltac:(congruence)) as T.
  assert (Be : sqrt (k * dotR e e) <= sqrt (k * S) * l1 d).
  { apply Rle_trans with (sqrt ((k * S) * (l1 d * l1 d))).
    - apply sqrt_le_1_alt. pose proof (HSb d) as B1. fold e in B1.
      pose proof (dot_self_le_l1_sq d) as B2.
      assert (B3 : S * dotR d d <= S * (l1 d * l1 d)) by (apply Rmult_le_compat_l; assumption).
      assert (B4 : k * dotR e e <= k * (S * (l1 d * l1 d))) by (apply Rmult_le_compat_l; lra).
      lra.
    - rewrite sqrt_mult_alt by exact HkS. rewrite sqrt_square by exact Pd. lra. }
  assert (T2 : K * sqrt (k * dotR (vaddR y e) (vaddR y e)) <=
               K * (sqrt (k * dotR y y) + sqrt (k * S) * l1 d))
    by (apply Rmult_le_compat_l; [exact HK | lra]).
  rewrite Elin.
  replace ((l1 b + K * sqrt (k * S)) * l1 d)
    with (l1 d * l1 b + K * (sqrt (k * S) * l1 d)) by ring.
  lra.
Qed.

(* ---------- 4. (B) the conic program of CAGrad has an optimum ---------- *)
Lemma quadform_normalized_big n J s ne w : wfmat n J -> nltb RN s ne = false ->
  length w = length J ->
  quadform RN (normalized_gramian RN (gramR J) s ne) w =
  1 / (s * s) * dotR (vmR n w J) (vmR n w J).
Proof.
  intros HJ Hsne Hw. unfold normalized_gramian. rewrite Hsne. rn.
  rewrite quadform_mscale. unfold quadform. rewrite (quad_gram n) by assumption. reflexivity.
Qed.

Theorem cagrad_opt_exists : forall n J s ne c, wfmat n J -> J <> [] -> 0 < s ->
  nltb RN s ne = false -> 0 <= c ->
  exists w_opt, cagrad_opt (normalized_gramian RN (gramR J) s ne) c w_opt.
Proof.
  intros n J s ne c HJ HJne Hs Hsne Hc.
  set (Gn := normalized_gramian RN (gramR J) s ne).
  assert (HlGn : length Gn = length J).
  { unfold Gn. rewrite length_normalized_big by exact Hsne. apply length_gram. }
  assert (Hm : (1 <= length J)%nat) by (destruct J; [congruence | cbn [length]; lia]).
  assert (Hk : 0 <= 1 / (s * s)).
  { apply Rlt_le, Rdiv_lt_0_compat; [lra | apply Rmult_lt_0_compat; exact Hs]. }
  set (mean := mean_weights RN (length J)).
  set (g0n := sqrt (quadform RN Gn mean)).
  assert (HK : 0 <= c * g0n) by (apply Rmult_le_pos; [exact Hc | apply sqrt_pos]).
  destruct (conic_objective_lip n J (mvR Gn mean) (1 / (s * s)) (c * g0n) HJ Hk HK)
    as (L & HL & Hlip).
  set (F := fun w => dotR w (mvR Gn mean) + c * g0n * sqrt (quadform RN Gn w)).
  destruct (simplex_min_exists (length J) F L Hm HL) as (w & Hw & Hmin).
  { intros w w' Hw Hw'. unfold F, Gn.
    rewrite !(quadform_normalized_big n J s ne) by (try assumption; apply Hw || apply Hw').
    apply Hlip; [apply Hw | apply Hw']. }
  exists w. unfold cagrad_opt. cbv zeta. fold Gn. rewrite HlGn. fold mean. fold g0n.
  split; [exact Hw|]. intros w' Hw'. apply (Hmin w' Hw').
Qed.

(* below the norm_eps threshold the normalised Gramian is the zero matrix, the objective is
   constantly 0 and every point of the simplex is optimal *)
Lemma cagrad_opt_small_all J s ne c w : nltb RN s ne = true -> simplex (length J) w ->
  cagrad_opt (normalized_gramian RN (gramR J) s ne) c w.
Proof.
  intros Hsne Hw. unfold cagrad_opt. cbv zeta. unfold normalized_gramian. rewrite Hsne.
  rewrite length_gram.
  assert (HlZ : length (mzero RN (length J)) = length J) by (unfold mzero; apply repeat_length).
  rewrite HlZ. split; [exact Hw|]. intros w' _.
  assert (Z : forall v, quadform RN (mzero RN (length J)) v = 0).
  { intros v. unfold quadform. rewrite mv_mzero. apply dot_vzero_r. }
  rewrite !Z, !mv_mzero, !dot_vzero_r. lra.
Qed.

Lemma cagrad_opt_exists_small : forall J s ne c, J <> [] -> nltb RN s ne = true ->
  exists w_opt, cagrad_opt (normalized_gramian RN (gramR J) s ne) c w_opt.
Proof.
  intros J s ne c HJne Hsne. exists (onehotR (length J) 0 1).
  apply cagrad_opt_small_all; [exact Hsne|]. apply simplex_onehot.
  destruct J; [congruence | cbn [length]; lia].
Qed.

(* ---------- 5. (C) CAGrad with c >= 1: an optimum exists and no optimum conflicts ---------- *)
Corollary cagrad_c_ge_1_exists_nonconflicting : forall n J s ne c,
  wfmat n J -> J <> [] -> 0 < s -> nltb RN s ne = false -> 0 < ne -> 1 <= c ->
  let Gn := normalized_gramian RN (gramR J) s ne in
  (exists w_opt, cagrad_opt Gn c w_opt) /\
  (forall w_opt, cagrad_opt Gn c w_opt ->
     nleb RN ne (sqrt (quadform RN Gn w_opt)) = true ->
     forall i, (i < length J)%nat -> 0 <= nth i (mvR J (agg_cagrad RN s ne c w_opt J)) 0).
Proof.
  intros n J s ne c HJ HJne Hs Hsne Hne Hc Gn. split.
  - apply (cagrad_opt_exists n J s ne c); try assumption. lra.
  - intros w_opt Hopt Hbig i Hi.
    apply (cagrad_c_ge_1_nonconflicting_opt n J s ne c w_opt); assumption.
Qed.

(* the same without the norm_eps test: below the threshold the output is the zero vector *)
Corollary cagrad_c_ge_1_exists_nonconflicting_all : forall n J s ne c,
  wfmat n J -> J <> [] -> 0 < s -> nltb RN s ne = false -> 0 < ne -> 1 <= c ->
  let Gn := normalized_gramian RN (gramR J) s ne in
  exists w_opt, cagrad_opt Gn c w_opt /\
    forall w, cagrad_opt Gn c w ->
      forall i, (i < length J)%nat -> 0 <= nth i (mvR J (agg_cagrad RN s ne c w J)) 0.
Proof.
  intros n J s ne c HJ HJne Hs Hsne Hne Hc Gn.
  destruct (cagrad_opt_exists n J s ne c HJ HJne Hs Hsne ltac:(lra)) as (w_opt & Hopt).
  exists w_opt. split; [exact Hopt|]. intros w Hw i Hi.
  destruct (nleb RN ne (sqrt (quadform RN Gn w))) eqn:Hbig.
  - apply (cagrad_c_ge_1_nonconflicting_opt n J s ne c w); assumption.
  - rewrite (cagrad_below_threshold_nonconflicting n J s ne c w HJ HJne Hbig i). lra.
Qed.

Print Assumptions simplex_min_exists.
Print Assumptions cagrad_opt_exists.
Print Assumptions cagrad_opt_exists_small.
Print Assumptions cagrad_c_ge_1_exists_nonconflicting.
Print Assumptions cagrad_c_ge_1_exists_nonconflicting_all.
