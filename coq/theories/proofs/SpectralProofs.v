(* SpectralProofs.v —
   P1  C10 (row permutations) for CAGrad: the weighting is equivariant when the conic solver's answer
       travels with the rows (same sigma_max oracle), the optimality contract transfers;
   P2  C10 for Aligned-MTL: the balance matrix built from the eigh oracle is equivariant when the
       eigenvectors are permuted componentwise; the eigen-contract transfers;
   P3  C09 for UPGrad without regularisation: the minimisers of the unregularised dual QP transform
       covariantly under positive row scaling, the projected rows are unique, and the output of
       UPGrad on diag(c) J is  sum_i c_i pi_i(J)  : LINEAR in c. *)
From Coq Require Import Reals List Bool Arith Lia Lra Psatz Permutation.
From TJ Require Import Num Linalg NumR Agg.
From TJ.proofs Require Import LinalgR QPProofs C03Proofs C18Proofs C16Proofs C08Proofs C11Proofs C10Proofs EquivarianceProofs MgdaProofs PublishedProofs ImpartialProofs ScalingProofs.
Import ListNotations.
Local Open Scope R_scope.

(* ====================================================================================== *)
(* 0. small facts about index permutations                                                *)
(* ====================================================================================== *)
Lemma permR_vscale p k v : permR p (vscaleR k v) = vscaleR k (permR p v).
Proof.
  unfold permR, vscale. rewrite map_map. apply map_ext. intros i.
  change (map (nmul RN k) v) with (vscaleR k v). apply nth_vscale.
Qed.

Lemma permR_mean m p : is_perm m p -> permR p (mean_weights RN m) = mean_weights RN m.
Proof. intros Hp. unfold mean_weights. apply permR_repeat. exact Hp. Qed.

Lemma quadform_qf M x : quadform RN M x = qf M x.
Proof. reflexivity. Qed.

(* ====================================================================================== *)
(* P1. CAGrad                                                                             *)
(* ====================================================================================== *)

(* the normalised Gramian of the permuted problem (same sigma_max oracle) *)
Lemma normalized_gramian_perm m G p s ne : length G = m -> is_perm m p ->
  normalized_gramian RN (permM p G) s ne = permM p (normalized_gramian RN G s ne).
Proof.
  intros HG Hp. pose proof (is_perm_length m p Hp) as Hl.
  unfold normalized_gramian. rewrite length_permM, Hl, HG.
  destruct (nltb RN s ne).
  - apply (mzero_perm m p Hp).
  - apply mscale_perm.
Qed.

Lemma length_normalized_gramian G s ne : length (normalized_gramian RN G s ne) = length G.
Proof.
  unfold normalized_gramian. destruct (nltb RN s ne); [apply length_mzero | apply length_mscale].
Qed.

Lemma wfmat_normalized_gramian m G s ne : length G = m -> wfmat m G ->
  wfmat m (normalized_gramian RN G s ne).
Proof.
  intros HG Hwf. unfold normalized_gramian. rewrite HG.
  destruct (nltb RN s ne); [apply wfmat_mzero | apply wfmat_mscale; exact Hwf].
Qed.

Lemma length_cagrad_weights G s ne c w_opt : length w_opt = length G ->
  length (cagrad_weights RN G s ne c w_opt) = length G.
Proof.
  intros Hw. unfold cagrad_weights. cbv zeta.
  match goal with |- context [if ?b then _ else _] => destruct b end.
  - rewrite length_vadd; rewrite ?length_vscale, length_mean; congruence.
  - apply length_vzero.
Qed.

(* P1a: the CAGrad weighting is permutation-equivariant *)
Theorem cagrad_weights_equivariant m G p s ne c w_opt :
  length G = m -> wfmat m G -> is_perm m p -> length w_opt = m ->
  cagrad_weights RN (permM p G) s ne c (permR p w_opt) =
  permR p (cagrad_weights RN G s ne c w_opt).
Proof.
  intros HG Hwf Hp Hw. pose proof (is_perm_length m p Hp) as Hl.
  unfold cagrad_weights. cbv zeta.
  rewrite length_permM, Hl, HG.
  rewrite (normalized_gramian_perm m) by assumption.
  set (Gn := normalized_gramian RN G s ne).
  assert (HlGn : length Gn = m) by (unfold Gn; rewrite length_normalized_gramian; exact HG).
  assert (HwGn : wfmat m Gn) by (apply wfmat_normalized_gramian; assumption).
  change (quadform RN) with qf.
  pose proof (qf_perm m Gn p (mean_weights RN m) HlGn HwGn Hp (length_mean m)) as E1.
  rewrite (permR_mean m p Hp) in E1. rewrite E1.
  rewrite (qf_perm m) by assumption.
  destruct (nleb RN ne (nsqrt RN (qf Gn w_opt))).
  - rewrite permR_vadd by (rewrite length_vscale, length_mean; congruence).
    rewrite permR_vscale, (permR_mean m p Hp). reflexivity.
  - rewrite permR_vzero, Hl. reflexivity.
Qed.

(* P1b: CAGrad is invariant under row permutations (solver answer permuted alongside) *)
Theorem agg_cagrad_perm n J p s ne c w_opt : wfmat n J -> J <> [] ->
  is_perm (length J) p -> length w_opt = length J ->
  agg_cagrad RN s ne c (permR p w_opt) (perm_rows p J) = agg_cagrad RN s ne c w_opt J.
Proof.
  intros HJ Hne Hp Hw. unfold agg_cagrad.
  apply (gramian_form_perm n); auto.
  - rewrite length_cagrad_weights; rewrite length_gram; auto.
  - rewrite gram_perm_rows.
    apply (cagrad_weights_equivariant (length J)); auto using length_gram, wfmat_gram.
Qed.

(* the simplex is invariant *)
Lemma simplex_permR m p w : is_perm m p -> simplex m w -> simplex m (permR p w).
Proof.
  intros Hp (Hl & Hn & Hs). split; [|split].
  - rewrite length_permR. apply (is_perm_length m p Hp).
  - apply nonneg_permR. exact Hn.
  - rewrite vsum_permR by (rewrite Hl; exact Hp). exact Hs.
Qed.

Lemma simplex_perm_preimage m p w' : is_perm m p -> simplex m w' ->
  exists w, simplex m w /\ w' = permR p w.
Proof.
  intros Hp (Hl & Hn & Hs). exists (permR (inv_perm m p) w').
  assert (E : permR p (permR (inv_perm m p) w') = w') by (apply permR_p_inv; assumption).
  assert (Hlv : length (permR (inv_perm m p) w') = m) by (rewrite length_permR; apply length_inv_perm).
  split; [|symmetry; exact E]. split; [exact Hlv|]. split.
  - apply nonneg_permR. exact Hn.
  - rewrite <- (vsum_permR p) by (rewrite Hlv; exact Hp). rewrite E. exact Hs.
Qed.

(* the objective of the conic program is invariant *)
Lemma cagrad_objective_perm m Gn p c w : length Gn = m -> wfmat m Gn -> is_perm m p ->
  length w = m ->
  dotR (permR p w) (mvR (permM p Gn) (mean_weights RN m)) +
    c * sqrt (quadform RN (permM p Gn) (mean_weights RN m)) * sqrt (quadform RN (permM p Gn) (permR p w))
  = dotR w (mvR Gn (mean_weights RN m)) +
    c * sqrt (quadform RN Gn (mean_weights RN m)) * sqrt (quadform RN Gn w).
Proof.
  intros HG Hwf Hp Hw. change (quadform RN) with qf.
  pose proof (qf_perm m Gn p (mean_weights RN m) HG Hwf Hp (length_mean m)) as E1.
  pose proof (mv_permM m Gn p (mean_weights RN m) HG Hwf Hp (length_mean m)) as E2.
  rewrite (permR_mean m p Hp) in E1, E2. rewrite E1, E2.
  rewrite (qf_perm m) by assumption.
  rewrite dot_permR; [reflexivity | rewrite Hw; exact Hp | rewrite length_mv; congruence].
Qed.

(* P1c: the optimality contract of the conic solver transfers *)
Theorem cagrad_opt_perm m Gn p c w_opt : length Gn = m -> wfmat m Gn -> is_perm m p ->
  cagrad_opt Gn c w_opt -> cagrad_opt (permM p Gn) c (permR p w_opt).
Proof.
  intros HG Hwf Hp [Hsx Hmin]. cbv zeta in Hmin. rewrite HG in Hsx, Hmin.
  pose proof (is_perm_length m p Hp) as Hl.
  unfold cagrad_opt. cbv zeta. rewrite length_permM, Hl. split.
  - apply simplex_permR; assumption.
  - intros w' Hw'. destruct (simplex_perm_preimage m p w' Hp Hw') as (w & Hw & ->).
    rewrite !(cagrad_objective_perm m) by (auto; try apply Hsx; apply Hw).
    apply Hmin. exact Hw.
Qed.

(* ... and so does the first-order contract used by PublishedProofs.cagrad_c_ge_1_nonconflicting *)
Theorem cagrad_foc_perm m Gn p c w_opt : length Gn = m -> wfmat m Gn -> is_perm m p ->
  length w_opt = m ->
  cagrad_foc Gn c w_opt -> cagrad_foc (permM p Gn) c (permR p w_opt).
Proof.
  intros HG Hwf Hp Hw Hfoc. unfold cagrad_foc in *. cbv zeta in *. rewrite HG in Hfoc.
  pose proof (is_perm_length m p Hp) as Hl. rewrite length_permM, Hl.
  intros i Hi. pose proof (is_perm_nth_lt m p i Hp Hi) as Hpi.
  specialize (Hfoc _ Hpi). change (quadform RN) with qf in *.
  pose proof (qf_perm m Gn p (mean_weights RN m) HG Hwf Hp (length_mean m)) as E1.
  pose proof (mv_permM m Gn p (mean_weights RN m) HG Hwf Hp (length_mean m)) as E2.
  rewrite (permR_mean m p Hp) in E1, E2. rewrite E1, E2.
  rewrite (qf_perm m) by assumption.
  rewrite (mv_permM m) by assumption.
  rewrite dot_permR by (rewrite ?length_mv; try rewrite Hw; auto; congruence).
  rewrite !nth_permR by lia. exact Hfoc.
Qed.

(* ====================================================================================== *)
(* P2. Aligned-MTL                                                                        *)
(* ====================================================================================== *)

(* ---- matrices given as tables ---- *)
Lemma mget_table (f : nat -> nat -> R) m i j : (i < m)%nat -> (j < m)%nat ->
  mget RN (map (fun a => map (f a) (seq 0 m)) (seq 0 m)) i j = f i j.
Proof.
  intros Hi Hj. unfold mget. rewrite (nth_table (fun a => map (f a) (seq 0 m)) m i Hi).
  rewrite (nth_map_in (f i) (seq 0 m) 0%nat (n0 RN) j) by (rewrite seq_length; exact Hj).
  rewrite seq_nth by exact Hj. reflexivity.
Qed.

Lemma length_table {A} (f : nat -> A) m : length (map f (seq 0 m)) = m.
Proof. rewrite map_length. apply seq_length. Qed.

Lemma wfmat_table (f : nat -> nat -> R) m k :
  wfmat m (map (fun a => map (f a) (seq 0 m)) (seq 0 k)).
Proof.
  unfold wfmat. apply Forall_forall. intros r Hr. apply in_map_iff in Hr.
  destruct Hr as (a & <- & _). apply length_table.
Qed.

Lemma mget_eye m i j : (i < m)%nat -> (j < m)%nat ->
  mget RN (map (fun a => onehotR m a 1) (seq 0 m)) i j = if Nat.eqb i j then 1 else 0.
Proof.
  intros Hi Hj. unfold mget. rewrite (nth_table (fun a => onehotR m a 1) m i Hi).
  apply nth_onehot. exact Hj.
Qed.

Lemma wfmat_eye m k : wfmat m (map (fun a => onehotR m a 1) (seq 0 k)).
Proof.
  unfold wfmat. apply Forall_forall. intros r Hr. apply in_map_iff in Hr.
  destruct Hr as (a & <- & _). apply length_onehot.
Qed.

(* ---- the entries of the balance matrix ---- *)
Definition bal_entry (lam_r : list R) (V_r : list (list R)) (lamR : R) (i j : nat) : R :=
  sqrt lamR *
  vsumR (map (fun '(l, v) => (1 / sqrt l) * (vget RN v i * vget RN v j)) (List.combine lam_r V_r)).

Definition bal_rank (lam : list R) (tol : R) : nat := length (filter (fun l => nltb RN tol l) lam).

Lemma aligned_balance_table lam Vt tol :
  aligned_balance RN lam Vt tol =
  let m := length lam in
  let rank := bal_rank lam tol in
  if (rank =? 0)%nat then map (fun i => onehotR m i 1) (seq 0 m)
  else map (fun i => map (bal_entry (firstn rank lam) (firstn rank Vt)
                                    (last (firstn rank lam) 0) i) (seq 0 m)) (seq 0 m).
Proof. reflexivity. Qed.

Lemma length_aligned_balance lam Vt tol : length (aligned_balance RN lam Vt tol) = length lam.
Proof.
  rewrite aligned_balance_table. cbv zeta.
  destruct (bal_rank lam tol =? 0)%nat; apply length_table.
Qed.

Lemma wfmat_aligned_balance lam Vt tol : wfmat (length lam) (aligned_balance RN lam Vt tol).
Proof.
  rewrite aligned_balance_table. cbv zeta.
  destruct (bal_rank lam tol =? 0)%nat; [apply wfmat_eye | apply wfmat_table].
Qed.

Lemma bal_entry_perm lamR p i j : (i < length p)%nat -> (j < length p)%nat ->
  forall L V, bal_entry L (map (permR p) V) lamR i j =
              bal_entry L V lamR (nth i p 0%nat) (nth j p 0%nat).
Proof.
  intros Hi Hj L V. unfold bal_entry. f_equal. revert V.
  induction L as [|l L IH]; intros [|v V]; cbn [map List.combine]; try reflexivity.
  rewrite !vsum_cons, IH. f_equal. unfold vget. rn. rewrite !nth_permR by assumption. reflexivity.
Qed.

(* P2a: eigenvectors permuted componentwise  ==>  the balance matrix is permuted on both sides *)
Theorem aligned_balance_perm lam Vt tol p : is_perm (length lam) p ->
  aligned_balance RN lam (map (permR p) Vt) tol = permM p (aligned_balance RN lam Vt tol).
Proof.
  intros Hp. set (m := length lam) in *. pose proof (is_perm_length m p Hp) as Hl.
  apply (mat_ext m).
  - apply length_aligned_balance.
  - rewrite length_permM. exact Hl.
  - apply wfmat_aligned_balance.
  - rewrite <- Hl. apply wfmat_permM.
  - intros i j Hi Hj. rewrite mget_permM by lia.
    pose proof (is_perm_nth_lt m p i Hp Hi) as Hpi. pose proof (is_perm_nth_lt m p j Hp Hj) as Hpj.
    rewrite !aligned_balance_table. cbv zeta. fold m.
    destruct (bal_rank lam tol =? 0)%nat.
    + rewrite !mget_eye by assumption.
      destruct (Nat.eqb_spec i j) as [E|E].
      * subst j. rewrite Nat.eqb_refl. reflexivity.
      * destruct (Nat.eqb_spec (nth i p 0%nat) (nth j p 0%nat)) as [E'|E']; [|reflexivity].
        exfalso. apply E. apply (is_perm_nth_inj m p); assumption.
    + rewrite !mget_table by assumption. rewrite firstn_map.
      apply bal_entry_perm; lia.
Qed.

Lemma mv_balance_perm lam Vt tol p w : is_perm (length lam) p -> length w = length lam ->
  mvR (aligned_balance RN lam (map (permR p) Vt) tol) (permR p w) =
  permR p (mvR (aligned_balance RN lam Vt tol) w).
Proof.
  intros Hp Hw. rewrite aligned_balance_perm by exact Hp.
  apply (mv_permM (length lam)); auto using length_aligned_balance, wfmat_aligned_balance.
Qed.

(* P2b: Aligned-MTL is invariant under row permutations (eigenvectors and preference permuted
   alongside, same eigenvalues, same tolerance) *)
Theorem agg_aligned_perm n J p lam Vt tol pref : wfmat n J -> J <> [] ->
  is_perm (length J) p -> length lam = length J ->
  (forall w, pref = Some w -> length w = length J) ->
  agg_aligned RN lam (map (permR p) Vt) tol (option_map (permR p) pref) (perm_rows p J) =
  agg_aligned RN lam Vt tol pref J.
Proof.
  intros HJ Hne Hp Hll Hpref. unfold agg_aligned.
  rewrite length_perm_rows, (is_perm_length _ _ Hp). set (m := length J) in *.
  unfold mean_weights in *.
  destruct (EquivarianceProofs.pref_weights_ok m pref (ndiv RN (n1 RN) (nofnat RN m)) Hpref)
    as (u & Eu).
  destruct (pref_weights_perm m p pref _ u Hp Hpref Eu) as (Eu' & Hu).
  rewrite Eu, Eu'. cbn [rbind]. f_equal.
  apply (gramian_form_perm n); auto.
  - rewrite length_mv, length_aligned_balance. exact Hll.
  - apply mv_balance_perm; [rewrite Hll; exact Hp | congruence].
Qed.

(* ---- the eigen-contract transfers ---- *)
Lemma nth_map_permR p Vt k : (k < length Vt)%nat ->
  nth k (map (permR p) Vt) [] = permR p (nth k Vt []).
Proof. intros Hk. apply (nth_map_in (permR p) Vt [] [] k Hk). Qed.

Lemma column_map_permR p i : (i < length p)%nat -> forall Vt,
  column RN (map (permR p) Vt) i = column RN Vt (nth i p 0%nat).
Proof.
  intros Hi. induction Vt as [|v Vt IH]; [reflexivity|]. cbn [map column]. rewrite IH. f_equal.
  rn. apply nth_permR. exact Hi.
Qed.

(* a single eigenpair *)
Theorem eigenpair_perm m G p l v : length G = m -> wfmat m G -> is_perm m p -> length v = m ->
  mvR G v = vscaleR l v -> mvR (permM p G) (permR p v) = vscaleR l (permR p v).
Proof.
  intros HG Hwf Hp Hv He. rewrite (mv_permM m) by assumption. rewrite He. apply permR_vscale.
Qed.

(* the whole contract of ImpartialProofs.aligned_rebalanced_rows *)
Theorem eigh_contract_perm n J p lam Vt :
  let m := length J in
  forall (HJ : wfmat n J) (Hp : is_perm m p) (HlV : length Vt = m) (HwV : wfmat m Vt)
         (Hrows : forall k l, (k < m)%nat -> (l < m)%nat ->
                    dotR (nth k Vt []) (nth l Vt []) = if (k =? l)%nat then 1 else 0)
         (Hcols : forall i j, (i < m)%nat -> (j < m)%nat ->
                    dotR (column RN Vt i) (column RN Vt j) = if (i =? j)%nat then 1 else 0)
         (Heig : forall k, (k < m)%nat ->
                    mvR (gramR J) (nth k Vt []) = vscaleR (nth k lam 0) (nth k Vt [])),
  let Vt' := map (permR p) Vt in
  let J' := perm_rows p J in
  length J' = m /\ wfmat n J' /\ length Vt' = m /\ wfmat m Vt' /\
  (forall k l, (k < m)%nat -> (l < m)%nat ->
     dotR (nth k Vt' []) (nth l Vt' []) = if (k =? l)%nat then 1 else 0) /\
  (forall i j, (i < m)%nat -> (j < m)%nat ->
     dotR (column RN Vt' i) (column RN Vt' j) = if (i =? j)%nat then 1 else 0) /\
  (forall k, (k < m)%nat ->
     mvR (gramR J') (nth k Vt' []) = vscaleR (nth k lam 0) (nth k Vt' [])).
Proof.
  intros m HJ Hp HlV HwV Hrows Hcols Heig Vt' J'.
  pose proof (is_perm_length m p Hp) as Hl.
  assert (Hrow_len : forall k, (k < m)%nat -> length (nth k Vt []) = m).
  { intros k Hk. apply (wfmat_nth m); [exact HwV | lia]. }
  split; [unfold J'; rewrite length_perm_rows; exact Hl|].
  split; [apply wfmat_perm_rows; [exact HJ | intros i Hi; apply (is_perm_in m p i Hp); exact Hi]|].
  split; [unfold Vt'; rewrite map_length; exact HlV|].
  split; [|split; [|split]].
  - unfold wfmat, Vt'. apply Forall_forall. intros r Hr. apply in_map_iff in Hr.
    destruct Hr as (v & <- & _). rewrite length_permR. exact Hl.
  - intros k l Hk Hl'. unfold Vt'. rewrite !nth_map_permR by lia.
    rewrite dot_permR; [apply Hrows; assumption | rewrite Hrow_len by exact Hk; exact Hp |].
    rewrite !Hrow_len by assumption. reflexivity.
  - intros i j Hi Hj. unfold Vt'. rewrite !column_map_permR by lia.
    pose proof (is_perm_nth_lt m p i Hp Hi) as Hpi. pose proof (is_perm_nth_lt m p j Hp Hj) as Hpj.
    rewrite Hcols by assumption.
    destruct (Nat.eqb_spec i j) as [E|E].
    + subst j. rewrite Nat.eqb_refl. reflexivity.
    + destruct (Nat.eqb_spec (nth i p 0%nat) (nth j p 0%nat)) as [E'|E']; [|reflexivity].
      exfalso. apply E. apply (is_perm_nth_inj m p); assumption.
  - intros k Hk. unfold Vt', J'. rewrite nth_map_permR by lia. rewrite gram_perm_rows.
    apply (eigenpair_perm m);
      [apply length_gram | apply wfmat_gram | exact Hp | apply Hrow_len; exact Hk | apply Heig; exact Hk].
Qed.

(* hence the published guarantee (B G B^T = lam_min I) holds for the permuted problem with the
   permuted oracle answer, from the contract on the ORIGINAL problem *)
Corollary aligned_rebalanced_rows_perm n J p lam Vt tol :
  let m := length J in
  forall (HJ : wfmat n J) (Hne : J <> []) (Hp : is_perm m p)
         (Hll : length lam = m) (HlV : length Vt = m) (HwV : wfmat m Vt)
         (Htol : 0 <= tol) (Hfull : forall l, In l lam -> tol < l)
         (Hrows : forall k l, (k < m)%nat -> (l < m)%nat ->
                    dotR (nth k Vt []) (nth l Vt []) = if (k =? l)%nat then 1 else 0)
         (Hcols : forall i j, (i < m)%nat -> (j < m)%nat ->
                    dotR (column RN Vt i) (column RN Vt j) = if (i =? j)%nat then 1 else 0)
         (Heig : forall k, (k < m)%nat ->
                    mvR (gramR J) (nth k Vt []) = vscaleR (nth k lam 0) (nth k Vt [])),
  let B' := aligned_balance RN lam (map (permR p) Vt) tol in
  let Ghat' := mmulR n B' (perm_rows p J) in
  B' = permM p (aligned_balance RN lam Vt tol) /\
  length Ghat' = m /\
  forall i j, (i < m)%nat -> (j < m)%nat ->
    dotR (nth i Ghat' []) (nth j Ghat' []) = if (i =? j)%nat then last lam 0 else 0.
Proof.
  intros m HJ Hne Hp Hll HlV HwV Htol Hfull Hrows Hcols Heig B' Ghat'.
  destruct (eigh_contract_perm n J p lam Vt HJ Hp HlV HwV Hrows Hcols Heig)
    as (HlJ' & HJ' & HlV' & HwV' & Hrows' & Hcols' & Heig').
  fold m in HlJ', HlV', HwV', Hrows', Hcols', Heig'.
  assert (Hne' : perm_rows p J <> []).
  { intros E. apply (f_equal (@length (list R))) in E. rewrite HlJ' in E. cbn in E.
    destruct J; [congruence | unfold m in E; discriminate]. }
  split; [apply aligned_balance_perm; rewrite Hll; exact Hp|].
  pose proof (aligned_rebalanced_rows n (perm_rows p J) lam (map (permR p) Vt) tol) as H.
  cbv zeta in H. rewrite HlJ' in H.
  destruct (H HJ' Hne' Hll HlV' HwV' Htol Hfull Hrows' Hcols' Heig') as (H1 & _ & H3).
  split; [exact H1 | exact H3].
Qed.

(* ====================================================================================== *)
(* P3. UPGrad without regularisation under positive row scaling                           *)
(* ====================================================================================== *)

(* componentwise quotient *)
Definition vdiv (a b : list R) : list R := map (fun '(x, y) => x / y) (List.combine a b).

Lemma length_vdiv a b : length a = length b -> length (vdiv a b) = length a.
Proof. intros H. unfold vdiv. rewrite map_length, combine_length. lia. Qed.

Lemma nth_vdiv : forall a b j, length a = length b -> nth j (vdiv a b) 0 = nth j a 0 / nth j b 0.
Proof.
  induction a as [|x a IH]; intros [|y b] j H; cbn in H; try lia.
  - destruct j; cbn; unfold Rdiv; ring.
  - destruct j as [|j]; [reflexivity|]. unfold vdiv. cbn [List.combine map nth]. fold (vdiv a b).
    apply IH. lia.
Qed.

Lemma vmul_vdiv : forall w c, length w = length c -> allpos c -> vmul (vdiv w c) c = w.
Proof.
  induction w as [|x w IH]; intros [|y c] Hl Hc; cbn in Hl; try lia; [reflexivity|].
  apply Forall_cons_iff in Hc. destruct Hc as [Hy Hc].
  unfold vmul, vdiv. cbn [List.combine map]. fold (vdiv w c). fold (vmul (vdiv w c) c).
  rewrite IH by (auto; lia). f_equal. field. lra.
Qed.

Lemma feasible_vdiv u w : feasible u w -> forall c, allpos c ->
  feasible (vdiv u c) (vdiv w c).
Proof.
  induction 1 as [|a b U W Hab HUW IH]; intros [|y c] Hc; try constructor.
  - apply Forall_cons_iff in Hc. destruct Hc as [Hy Hc].
    unfold Rdiv. apply Rmult_le_compat_r; [|exact Hab]. left. apply Rinv_0_lt_compat. exact Hy.
  - apply IH. apply Forall_cons_iff in Hc. apply Hc.
Qed.

Lemma feasible_vmul : forall u v c, length u = length c -> allpos c ->
  feasible (vdiv u c) v -> feasible u (vmul v c).
Proof.
  induction u as [|x u IH]; intros v [|y c] Hl Hc Hf; cbn in Hl; try lia.
  - inversion Hf; subst. constructor.
  - apply Forall_cons_iff in Hc. destruct Hc as [Hy Hc].
    unfold vdiv in Hf. cbn [List.combine map] in Hf. fold (vdiv u c) in Hf.
    inversion Hf as [|q z U V Hqz HUV]; subst.
    unfold vmul. cbn [List.combine map]. fold (vmul V c). constructor.
    + replace x with (x / y * y) by (field; lra). apply Rmult_le_compat_r; lra.
    + apply IH; [lia | exact Hc | exact HUV].
Qed.

(* (diag(c) J)^T z = J^T (c o z) *)
Lemma vm_rscale n w c J : length w = length J -> length c = length J ->
  vmR n w (rscale c J) = vmR n (vmul w c) J.
Proof. intros Hw Hc. change (rscale c J) with (scale_rows c J). apply vm_scale_rows; assumption. Qed.

Lemma qf_gram_rscale n J c z : wfmat n J -> length c = length J -> length z = length J ->
  qf (gramR (rscale c J)) z = qf (gramR J) (vmul z c).
Proof.
  intros HJ Hc Hz.
  rewrite (qf_gram n (rscale c J)) by (try apply wfmat_rscale; auto; rewrite length_rscale; auto).
  rewrite (qf_gram n J) by (auto; rewrite length_vmul; congruence).
  rewrite vm_rscale by assumption. reflexivity.
Qed.

(* P3a: the substitution z = w ./ c maps minimisers for (J, u) to minimisers for
   (diag(c) J, u ./ c) *)
Theorem is_min_rscale n J c u w : wfmat n J -> length c = length J -> allpos c ->
  is_min (length J) (gramR J) u w ->
  is_min (length J) (gramR (rscale c J)) (vdiv u c) (vdiv w c).
Proof.
  intros HJ Hc Hpos (Hw & Hf & Hmin).
  assert (Hu : length u = length J) by (rewrite (feasible_length _ _ Hf); exact Hw).
  split; [rewrite length_vdiv; congruence|]. split; [apply feasible_vdiv; assumption|].
  intros v Hv Hfv.
  rewrite !(qf_gram_rscale n) by (auto; rewrite length_vdiv; congruence).
  rewrite vmul_vdiv by (auto; congruence).
  apply Hmin; [rewrite length_vmul; congruence|].
  apply feasible_vmul; [congruence | exact Hpos | exact Hfv].
Qed.

(* ... and back: the substitution is a bijection between the two sets of minimisers *)
Theorem is_min_rscale_conv n J c u z : wfmat n J -> length c = length J -> allpos c ->
  length u = length J ->
  is_min (length J) (gramR (rscale c J)) (vdiv u c) z ->
  is_min (length J) (gramR J) u (vmul z c).
Proof.
  intros HJ Hc Hpos Hu (Hz & Hf & Hmin).
  split; [rewrite length_vmul; congruence|].
  split; [apply feasible_vmul; [congruence | exact Hpos | exact Hf]|].
  intros v Hv Hfv.
  specialize (Hmin (vdiv v c) ltac:(rewrite length_vdiv; congruence) (feasible_vdiv u v Hfv c Hpos)).
  rewrite !(qf_gram_rscale n) in Hmin by (auto; rewrite length_vdiv; congruence).
  rewrite vmul_vdiv in Hmin by (auto; congruence). exact Hmin.
Qed.

(* ---- positive homogeneity of the QP in the constraint ---- *)
Lemma qf_vscale M k x : qf M (vscaleR k x) = k * k * qf M x.
Proof. unfold qf, bil. rewrite mv_vscale, dot_vscale_l, dot_vscale_r. ring. Qed.

Lemma feasible_vscale k u w : 0 <= k -> feasible u w -> feasible (vscaleR k u) (vscaleR k w).
Proof.
  intros Hk. induction 1 as [|a b U W Hab HUW IH]; cbn [vscale map]; constructor; [|exact IH].
  rn. apply Rmult_le_compat_l; assumption.
Qed.

Lemma vscale_inv k v : k <> 0 -> vscaleR k (vscaleR (1 / k) v) = v.
Proof.
  intros Hk. rewrite vscale_vscale. replace (k * (1 / k)) with 1 by (field; exact Hk).
  apply C18Proofs.vscale_one.
Qed.

Lemma vscale_inv' k v : k <> 0 -> vscaleR (1 / k) (vscaleR k v) = v.
Proof.
  intros Hk. rewrite vscale_vscale. replace (1 / k * k) with 1 by (field; exact Hk).
  apply C18Proofs.vscale_one.
Qed.

Theorem is_min_pos_homog m M k u w : 0 < k -> is_min m M u w ->
  is_min m M (vscaleR k u) (vscaleR k w).
Proof.
  intros Hk (Hw & Hf & Hmin).
  split; [rewrite length_vscale; exact Hw|]. split; [apply feasible_vscale; [lra | exact Hf]|].
  intros v Hv Hfv.
  assert (Hfv' : feasible u (vscaleR (1 / k) v)).
  { rewrite <- (vscale_inv' k u) by lra. apply feasible_vscale; [|exact Hfv].
    apply Rlt_le. apply Rdiv_lt_0_compat; lra. }
  specialize (Hmin (vscaleR (1 / k) v) ltac:(rewrite length_vscale; exact Hv) Hfv').
  rewrite <- (vscale_inv k v) at 1 by lra.
  rewrite (qf_vscale M k w), (qf_vscale M k (vscaleR (1 / k) v)).
  apply Rmult_le_compat_l; [|exact Hmin]. apply Rlt_le. apply Rmult_lt_0_compat; exact Hk.
Qed.

(* ---- one-hot constraints ---- *)
Lemma vdiv_onehot m i t c : length c = m ->
  vdiv (onehotR m i t) c = onehotR m i (t / nth i c 0).
Proof.
  intros Hc. apply (nth_ext _ _ 0 0).
  - rewrite length_vdiv; rewrite !length_onehot; auto.
  - intros j Hj. rewrite length_vdiv, length_onehot in Hj by (rewrite length_onehot; auto).
    rewrite nth_vdiv by (rewrite length_onehot; auto). rewrite !nth_onehot by exact Hj.
    destruct (Nat.eqb_spec i j) as [E|E]; [subst j; reflexivity | unfold Rdiv; ring].
Qed.

Lemma vscale_onehot k m i t : vscaleR k (onehotR m i t) = onehotR m i (k * t).
Proof. rewrite (onehot_scale m i t), (onehot_scale m i (k * t)). apply vscale_vscale. Qed.

(* P3b: UPGrad's i-th problem.  If w minimises for (J, t e_i) then  w'_k = w_k c_i / c_k  minimises
   for (diag(c) J, t e_i), and the projected row is multiplied by c_i. *)
Theorem is_min_onehot_rscale n J c i t w : wfmat n J -> length c = length J -> allpos c ->
  (i < length J)%nat ->
  is_min (length J) (gramR J) (onehotR (length J) i t) w ->
  let w' := vscaleR (nth i c 0) (vdiv w c) in
  is_min (length J) (gramR (rscale c J)) (onehotR (length J) i t) w' /\
  vmR n w' (rscale c J) = vscaleR (nth i c 0) (vmR n w J).
Proof.
  intros HJ Hc Hpos Hi Hmin w'.
  assert (Hci : 0 < nth i c 0) by (apply allpos_nth; [exact Hpos | lia]).
  pose proof Hmin as (Hw & _ & _).
  split.
  - pose proof (is_min_rscale n J c _ w HJ Hc Hpos Hmin) as H1.
    rewrite vdiv_onehot in H1 by exact Hc.
    pose proof (is_min_pos_homog _ _ (nth i c 0) _ _ Hci H1) as H2.
    rewrite vscale_onehot in H2.
    replace (nth i c 0 * (t / nth i c 0)) with t in H2 by (field; lra). exact H2.
  - unfold w'. rewrite vm_vscale by (apply wfmat_rscale; exact HJ). f_equal.
    rewrite vm_rscale by (auto; rewrite length_vdiv; congruence).
    rewrite vmul_vdiv by (auto; congruence). reflexivity.
Qed.

(* P3c: the combination w . J is the same for ALL minimisers of the (only semi-definite) form *)
Theorem min_proj_unique n J u w1 w2 : wfmat n J ->
  is_min (length J) (gramR J) u w1 -> is_min (length J) (gramR J) u w2 ->
  vmR n w1 J = vmR n w2 J.
Proof.
  intros HJ (Hl1 & Hf1 & Hm1) (Hl2 & Hf2 & Hm2).
  set (m := length J) in *. set (M := gramR J) in *.
  assert (HM : length M = m) by apply length_gram.
  assert (Hsym : symm m M) by (apply (symm_gram n); exact HJ).
  set (d := vsubR w2 w1).
  assert (Hd : length d = m) by (unfold d; rewrite length_vsub; congruence).
  assert (E : w2 = vaddR w1 d) by (unfold d; symmetry; apply vadd_vsub; congruence).
  set (h := vaddR w1 (vscaleR (1/2) d)).
  assert (Hhd : length (vscaleR (1/2) d) = m) by (rewrite length_vscale; exact Hd).
  assert (Hh : length h = m) by (unfold h; rewrite length_vadd; congruence).
  assert (Hfh : feasible u h).
  { unfold h. apply feasible_segment_dir; [lra | congruence | exact Hf1 | rewrite <- E; exact Hf2]. }
  pose proof (Hm1 h Hh Hfh) as H1.
  pose proof (Hm1 w2 Hl2 Hf2) as H12. pose proof (Hm2 w1 Hl1 Hf1) as H21.
  pose proof (qf_expand m M w1 d HM Hsym Hl1 Hd) as X2. rewrite <- E in X2.
  pose proof (qf_expand m M w1 (vscaleR (1/2) d) HM Hsym Hl1 Hhd) as Xh. fold h in Xh.
  assert (B : bil M (vscaleR (1/2) d) w1 = 1/2 * bil M d w1) by (unfold bil; apply dot_vscale_l).
  rewrite B, qf_vscale in Xh.
  assert (Qn : 0 <= qf M d) by (unfold qf, bil, M; apply (quad_gram_nonneg n); assumption).
  assert (Z : qf M d = 0) by lra.
  unfold M in Z. rewrite (qf_gram n) in Z by assumption.
  apply dot_self_zero in Z. rewrite length_vm in Z by exact HJ.
  rewrite E. rewrite vm_vadd by (auto; congruence). rewrite Z.
  symmetry. apply vadd_vzero_r. apply length_vm. exact HJ.
Qed.

(* ---- summing the projected rows ---- *)
Lemma vm_vsum_rows n m J W : wfmat n J -> Forall (fun r => length r = m) W ->
  vmR n (vsum_rows RN m W) J = vsum_rows RN n (map (fun w => vmR n w J) W).
Proof.
  intros HJ. induction 1 as [|r W Hr HW IH]; cbn [vsum_rows map].
  - apply vm_vzero_any. exact HJ.
  - rewrite vm_vadd by (auto; rewrite length_vsum_rows; congruence). rewrite IH. reflexivity.
Qed.

(* c . P = sum_i c_i P_i *)
Lemma vm_as_vsum_rows n : forall c P, vmR n c P = vsum_rows RN n (rscale c P).
Proof.
  induction c as [|x c IH]; intros [|r P]; try reflexivity.
  unfold rscale. cbn [vm List.combine map vsum_rows]. fold (rscale c P). rewrite IH. reflexivity.
Qed.

(* the matrix of projected rows  pi_i(J) = W_i . J *)
Definition proj_rows (n : nat) (J : list (list R)) (W : nat -> list R) : list (list R) :=
  map (fun i => vmR n (W i) J) (seq 0 (length J)).

Lemma wfmat_proj_rows n J W : wfmat n J -> wfmat n (proj_rows n J W).
Proof.
  intros HJ. unfold wfmat, proj_rows. apply Forall_forall. intros r Hr. apply in_map_iff in Hr.
  destruct Hr as (i & <- & _). apply length_vm. exact HJ.
Qed.

Lemma length_proj_rows n J W : length (proj_rows n J W) = length J.
Proof. unfold proj_rows. apply length_table. Qed.

(* P3d: UPGrad without regularisation on diag(c) J, for ANY choice of minimisers on both sides:
   the output is  sum_i c_i pi_i(J) = c . Pi(J) *)
Theorem upgrad_unreg_rscale_core n J c (t : list R) (W W' : nat -> list R) :
  let m := length J in
  wfmat n J -> length c = m -> allpos c ->
  (forall i, (i < m)%nat -> is_min m (gramR J) (onehotR m i (vget RN t i)) (W i)) ->
  (forall i, (i < m)%nat ->
     is_min m (gramR (rscale c J)) (onehotR m i (vget RN t i)) (W' i)) ->
  vmR n (vsum_rows RN m (map W' (seq 0 m))) (rscale c J) = vmR n c (proj_rows n J W).
Proof.
  intros m HJ Hc Hpos HW HW'.
  assert (HJ' : wfmat n (rscale c J)) by (apply wfmat_rscale; exact HJ).
  assert (HlJ' : length (rscale c J) = m) by (apply length_rscale; exact Hc).
  rewrite (vm_vsum_rows n m) by
    (auto; apply Forall_forall; intros r Hr; apply in_map_iff in Hr;
     destruct Hr as (i & <- & Hi); apply in_seq in Hi; apply (HW' i); lia).
  rewrite map_map, vm_as_vsum_rows. f_equal.
  apply (nth_ext _ _ [] []).
  - rewrite length_table, length_rscale; rewrite length_proj_rows; auto.
  - intros i Hi. rewrite length_table in Hi.
    rewrite (nth_table (fun x => vmR n (W' x) (rscale c J)) m i Hi).
    rewrite nth_rscale by (rewrite length_proj_rows; exact Hc).
    unfold proj_rows. fold m. rewrite (nth_table (fun x => vmR n (W x) J) m i Hi).
    destruct (is_min_onehot_rscale n J c i (vget RN t i) (W i) HJ Hc Hpos Hi (HW i Hi))
      as (Hmin & <-).
    apply (min_proj_unique n (rscale c J) (onehotR m i (vget RN t i))); [exact HJ' | |];
      rewrite HlJ'; [apply HW'; exact Hi | exact Hmin].
Qed.

(* ... hence LINEAR in c *)
Corollary upgrad_unreg_rscale_core_linear n J a b c1 c2 (t : list R) (W W1 W2 W12 : nat -> list R) :
  let m := length J in
  let c12 := vaddR (vscaleR a c1) (vscaleR b c2) in
  wfmat n J -> length c1 = m -> length c2 = m -> allpos c1 -> allpos c2 -> 0 < a -> 0 < b ->
  (forall i, (i < m)%nat -> is_min m (gramR J) (onehotR m i (vget RN t i)) (W i)) ->
  (forall i, (i < m)%nat -> is_min m (gramR (rscale c1 J)) (onehotR m i (vget RN t i)) (W1 i)) ->
  (forall i, (i < m)%nat -> is_min m (gramR (rscale c2 J)) (onehotR m i (vget RN t i)) (W2 i)) ->
  (forall i, (i < m)%nat -> is_min m (gramR (rscale c12 J)) (onehotR m i (vget RN t i)) (W12 i)) ->
  vmR n (vsum_rows RN m (map W12 (seq 0 m))) (rscale c12 J) =
  vaddR (vscaleR a (vmR n (vsum_rows RN m (map W1 (seq 0 m))) (rscale c1 J)))
        (vscaleR b (vmR n (vsum_rows RN m (map W2 (seq 0 m))) (rscale c2 J))).
Proof.
  intros m c12 HJ H1 H2 P1 P2 Ha Hb HW HW1 HW2 HW12. subst m.
  assert (Hl12 : length c12 = length J)
    by (unfold c12; rewrite length_vadd; rewrite !length_vscale; congruence).
  assert (P12 : allpos c12) by (apply allpos_comb; assumption).
  rewrite (upgrad_unreg_rscale_core n J c12 t W W12) by assumption.
  rewrite (upgrad_unreg_rscale_core n J c1 t W W1) by assumption.
  rewrite (upgrad_unreg_rscale_core n J c2 t W W2) by assumption.
  pose proof (wfmat_proj_rows n J W HJ) as HP.
  unfold c12. rewrite vm_vadd by (auto; rewrite !length_vscale; congruence).
  rewrite !vm_vscale by exact HP. reflexivity.
Qed.

(* ---- the model: agg_upgrad with reg_eps = 0 ---- *)
(* contract of the QP oracle on the m one-hot problems of UPGrad, without regularisation;
   s is the sigma_max oracle for J (0 < s, not below norm_eps: the Gramian is normalised) *)
Definition qp_unreg_ok (qp : list (list R) -> list R -> list R) (J : list (list R)) (s ne : R)
           (u : list R) : Prop :=
  let m := length J in
  let M := reg_norm_gramian RN (gramR J) s ne 0 in
  0 < s /\ nltb RN s ne = false /\
  forall i, (i < m)%nat ->
    is_min m M (onehotR m i (vget RN u i)) (qp M (onehotR m i (vget RN u i))).

(* the oracle's answer for the i-th problem; its combination with J is the projected row pi_i(J) *)
Definition upgrad_W (qp : list (list R) -> list R -> list R) (J : list (list R)) (s ne : R)
           (u : list R) (i : nat) : list R :=
  qp (reg_norm_gramian RN (gramR J) s ne 0) (onehotR (length J) i (vget RN u i)).

Lemma qp_unreg_ok_min qp J s ne u : qp_unreg_ok qp J s ne u ->
  forall i, (i < length J)%nat ->
    is_min (length J) (gramR J) (onehotR (length J) i (vget RN u i)) (upgrad_W qp J s ne u i).
Proof.
  intros (Hs & Hne & Hq) i Hi. apply (is_min_unregularised J s ne); [exact Hs | exact Hne|].
  apply Hq. exact Hi.
Qed.

Lemma pref_weights_length (pref : option (list R)) m u :
  pref_weights pref (mean_weights RN m) m = Ok u -> length u = m.
Proof.
  destruct pref as [q|]; cbn [pref_weights]; intros H.
  - unfold constant_weights in H. destruct (length q =? m)%nat eqn:E; [|discriminate].
    injection H as <-. apply Nat.eqb_eq. exact E.
  - injection H as <-. apply length_mean.
Qed.

Lemma agg_upgrad_unfold n J qp pref s ne re u : wfmat n J -> J <> [] ->
  pref_weights pref (mean_weights RN (length J)) (length J) = Ok u ->
  agg_upgrad RN qp pref s ne re J =
  Ok (vmR n (vsum_rows RN (length J)
               (map (fun i => qp (reg_norm_gramian RN (gramR J) s ne re)
                                 (onehotR (length J) i (vget RN u i))) (seq 0 (length J)))) J).
Proof.
  intros HJ Hne Hpw. unfold agg_upgrad. rewrite Hpw. cbn [rbind]. f_equal.
  unfold combine_rows. rewrite (ncols_wf n) by assumption.
  unfold upgrad_weights. cbv zeta. rewrite (pref_weights_length pref _ u Hpw). reflexivity.
Qed.

(* UPGrad (reg_eps = 0) is the sum of the projected rows *)
Theorem agg_upgrad_unreg_proj n J qp pref s ne u : wfmat n J -> J <> [] ->
  pref_weights pref (mean_weights RN (length J)) (length J) = Ok u ->
  qp_unreg_ok qp J s ne u ->
  agg_upgrad RN qp pref s ne 0 J = Ok (vsum_rows RN n (proj_rows n J (upgrad_W qp J s ne u))).
Proof.
  intros HJ Hne Hpw Hq. rewrite (agg_upgrad_unfold n) with (u := u) by assumption. f_equal.
  rewrite (vm_vsum_rows n (length J)); [unfold proj_rows; rewrite map_map; reflexivity | exact HJ |].
  apply Forall_forall. intros r Hr. apply in_map_iff in Hr. destruct Hr as (i & <- & Hi).
  apply in_seq in Hi. apply (qp_unreg_ok_min qp J s ne u Hq i). lia.
Qed.

(* P3e: UPGrad (reg_eps = 0) on diag(c) J  =  sum_i c_i pi_i(J) *)
Theorem agg_upgrad_unreg_rscale n J c qp pref s s' ne u : wfmat n J -> J <> [] ->
  length c = length J -> allpos c ->
  pref_weights pref (mean_weights RN (length J)) (length J) = Ok u ->
  qp_unreg_ok qp J s ne u -> qp_unreg_ok qp (rscale c J) s' ne u ->
  agg_upgrad RN qp pref s' ne 0 (rscale c J) =
  Ok (vmR n c (proj_rows n J (upgrad_W qp J s ne u))).
Proof.
  intros HJ Hne Hc Hpos Hpw Hq Hq'.
  assert (HlJ' : length (rscale c J) = length J) by (apply length_rscale; exact Hc).
  rewrite (agg_upgrad_unfold n (rscale c J)) with (u := u);
    [| apply wfmat_rscale; exact HJ | apply rscale_nonempty; assumption | rewrite HlJ'; exact Hpw].
  f_equal. pose proof (qp_unreg_ok_min qp (rscale c J) s' ne u Hq') as Hm'.
  unfold upgrad_W in Hm'. rewrite HlJ' in *.
  apply (upgrad_unreg_rscale_core n J c u (upgrad_W qp J s ne u)
           (fun i => qp (reg_norm_gramian RN (gramR (rscale c J)) s' ne 0)
                        (onehotR (length J) i (vget RN u i)))); auto.
  apply (qp_unreg_ok_min qp J s ne u Hq).
Qed.

(* P3f (C09 for UPGrad, idealised reg_eps = 0): c |-> UPGrad(diag(c) J) is linear on positive
   vectors, whatever minimisers the (correct) QP oracle returns *)
Theorem agg_upgrad_unreg_linear_under_scaling n J qp pref s s1 s2 s12 ne a b c1 c2 u :
  wfmat n J -> J <> [] -> length c1 = length J -> length c2 = length J ->
  allpos c1 -> allpos c2 -> 0 < a -> 0 < b ->
  pref_weights pref (mean_weights RN (length J)) (length J) = Ok u ->
  let c12 := vaddR (vscaleR a c1) (vscaleR b c2) in
  qp_unreg_ok qp J s ne u ->
  qp_unreg_ok qp (rscale c1 J) s1 ne u -> qp_unreg_ok qp (rscale c2 J) s2 ne u ->
  qp_unreg_ok qp (rscale c12 J) s12 ne u ->
  exists x1 x2,
    agg_upgrad RN qp pref s1 ne 0 (rscale c1 J) = Ok x1 /\
    agg_upgrad RN qp pref s2 ne 0 (rscale c2 J) = Ok x2 /\
    agg_upgrad RN qp pref s12 ne 0 (rscale c12 J) = Ok (vaddR (vscaleR a x1) (vscaleR b x2)).
Proof.
  intros HJ Hne H1 H2 P1 P2 Ha Hb Hpw c12 Hq Hq1 Hq2 Hq12.
  assert (Hl12 : length c12 = length J)
    by (unfold c12; rewrite length_vadd; rewrite !length_vscale; congruence).
  assert (P12 : allpos c12) by (apply allpos_comb; assumption).
  set (P := proj_rows n J (upgrad_W qp J s ne u)).
  exists (vmR n c1 P), (vmR n c2 P).
  split; [apply (agg_upgrad_unreg_rscale n); assumption|].
  split; [apply (agg_upgrad_unreg_rscale n); assumption|].
  rewrite (agg_upgrad_unreg_rscale n J c12 qp pref s s12 ne u) by assumption. f_equal.
  fold P. pose proof (wfmat_proj_rows n J (upgrad_W qp J s ne u) HJ) as HP. fold P in HP.
  unfold c12. rewrite vm_vadd by (auto; rewrite !length_vscale; congruence).
  rewrite !vm_vscale by exact HP. reflexivity.
Qed.

(* ---- non-vacuity: in the no-conflict case the oracle  qp _ x = x  meets the contract on J and on
   every positively scaled diag(c) J ---- *)
Lemma qp_unreg_ok_no_conflict n J s ne u : wfmat n J -> 0 < s -> nltb RN s ne = false ->
  (forall r r', In r J -> In r' J -> 0 <= dotR r r') -> nonneg u ->
  qp_unreg_ok (fun _ x => x) J s ne u.
Proof.
  intros HJ Hs Hne Hnc Hu. split; [exact Hs|]. split; [exact Hne|]. intros i Hi.
  apply (no_conflict_min n); auto; try lra.
  - apply length_onehot.
  - apply nonneg_onehot. unfold vget. rn. apply nonneg_nth. exact Hu.
Qed.

Lemma in_rscale c J r : allpos c -> In r (rscale c J) ->
  exists k r0, 0 < k /\ In r0 J /\ r = vscaleR k r0.
Proof.
  intros Hc Hr. unfold rscale in Hr. apply in_map_iff in Hr. destruct Hr as ([k r0] & <- & Hin).
  exists k, r0. split; [|split; [eapply in_combine_r; exact Hin | reflexivity]].
  unfold allpos in Hc. rewrite Forall_forall in Hc. apply Hc. eapply in_combine_l; exact Hin.
Qed.

Lemma upgrad_unreg_hyps_satisfiable n J c s s' ne u : wfmat n J -> 0 < s -> nltb RN s ne = false ->
  0 < s' -> nltb RN s' ne = false -> allpos c ->
  (forall r r', In r J -> In r' J -> 0 <= dotR r r') -> nonneg u ->
  qp_unreg_ok (fun _ x => x) J s ne u /\ qp_unreg_ok (fun _ x => x) (rscale c J) s' ne u.
Proof.
  intros HJ Hs Hne Hs' Hne' Hc Hnc Hu. split; [apply (qp_unreg_ok_no_conflict n); assumption|].
  apply (qp_unreg_ok_no_conflict n); auto using wfmat_rscale.
  intros r r' Hr Hr'.
  destruct (in_rscale c J r Hc Hr) as (k & r0 & Hk & Hin & ->).
  destruct (in_rscale c J r' Hc Hr') as (k' & r0' & Hk' & Hin' & ->).
  rewrite dot_vscale_l, dot_vscale_r. specialize (Hnc _ _ Hin Hin').
  apply Rmult_le_pos; [lra|]. apply Rmult_le_pos; [lra | exact Hnc].
Qed.

(* ====================================================================================== *)
Print Assumptions cagrad_weights_equivariant.
Print Assumptions agg_cagrad_perm.
Print Assumptions cagrad_opt_perm.
Print Assumptions cagrad_foc_perm.
Print Assumptions aligned_balance_perm.
Print Assumptions agg_aligned_perm.
Print Assumptions eigenpair_perm.
Print Assumptions eigh_contract_perm.
Print Assumptions aligned_rebalanced_rows_perm.
Print Assumptions is_min_rscale.
Print Assumptions is_min_rscale_conv.
Print Assumptions is_min_pos_homog.
Print Assumptions is_min_onehot_rscale.
Print Assumptions min_proj_unique.
Print Assumptions upgrad_unreg_rscale_core.
Print Assumptions upgrad_unreg_rscale_core_linear.
Print Assumptions agg_upgrad_unreg_proj.
Print Assumptions agg_upgrad_unreg_rscale.
Print Assumptions agg_upgrad_unreg_linear_under_scaling.
Print Assumptions upgrad_unreg_hyps_satisfiable.
