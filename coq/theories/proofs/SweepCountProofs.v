(* SweepCountProofs.v — property C07 at the ENTRY POINTS: the number and the sizes of the engine
   runs ("sweeps") issued by backward / mtl_backward are pinned down exactly.

   C13Proofs.v shows that the log of an accepted call grows by the sweeps of SOME chunk plan
   [chunk_plan m k retain] (m existentially quantified).  Here the row count m is identified:

     backward      m = total_rows P tensors  = the total number of scalars of the tensors
                   (the number of rows of Diagonalize's output = the length of the concatenation of
                   the flattened Init values, each of which is  vones (pnumel t))
     mtl_backward  m = length losses         = the number of member dictionaries of the Stack
                   (the call checked  length losses = length tasks), preceded by exactly one
                   unbatched single-row sweep per task (Grad)

   so, with ChunkProofs.v: exactly ceil(m / max_chunk) sweeps, each of 1..max_chunk rows, the row
   counts adding up to m, a sweep batched iff it has more than one row; chunk size 1 or a single
   row is never batched.

   Everything here is generic in the number type (no use of the R-level stage lemmas of
   C01Proofs.v / C02Proofs.v: only the row COUNT of the dictionaries matters, not their values),
   hence axiom-free. *)
From Coq Require Import List Bool Arith Lia.
From TJ Require Import Num Linalg Chunk Autojac Traverse.
From TJ.proofs Require Import ChunkProofs AutojacBasics EntrySpec C20Proofs C13Proofs.
Import ListNotations.

(* m = total number of scalars of the tensors *)
Definition total_rows {T} (P : prog T) (ts : list tid) : nat :=
  fold_right Nat.add 0 (map (pnumel P) ts).

(* ---------- lists ---------- *)
Lemma length_concat_map {X} (f : nat -> list X) (g : nat -> nat) (l : list nat) :
  (forall k, In k l -> length (f k) = g k) ->
  length (concat (map f l)) = fold_right Nat.add 0 (map g l).
Proof.
  induction l as [|x l IH]; intros H; [reflexivity|].
  cbn [map concat fold_right]. rewrite app_length, (H x (or_introl eq_refl)), IH; [reflexivity|].
  intros k Hk. apply H. right. exact Hk.
Qed.

Lemma firstn_new {X} (new old l : list X) :
  l = new ++ old -> firstn (length l - length old) l = new.
Proof.
  intros ->. rewrite app_length.
  replace (length new + length old - length old) with (length new + 0) by lia.
  rewrite firstn_app_2, firstn_O, app_nil_r. reflexivity.
Qed.

(* ---------- chunk plans: the row counts add up to m ---------- *)
Lemma sum_c_len_cover (plan : list chunk) :
  fold_right Nat.add 0 (map c_len plan) = length (concat (map chunk_rows plan)).
Proof.
  induction plan as [|c plan IH]; [reflexivity|].
  cbn [map fold_right concat]. rewrite app_length, <- IH. unfold chunk_rows at 1.
  rewrite seq_length. reflexivity.
Qed.

Lemma plan_rows_total m k retain : valid_chunk k = true -> 1 <= m ->
  fold_right Nat.add 0 (map c_len (chunk_plan m k retain)) = m.
Proof.
  intros Hk Hm. rewrite sum_c_len_cover, (plan_rows_cover m k retain Hk Hm). apply seq_length.
Qed.

(* the sweeps of a plan, as seen in the log *)
Lemma plan_sweeps_length outs ins plan : length (plan_sweeps outs ins plan) = length plan.
Proof. unfold plan_sweeps. apply map_length. Qed.

Lemma plan_sweeps_rows outs ins plan :
  map sw_rows (plan_sweeps outs ins plan) = map c_len plan.
Proof. unfold plan_sweeps. rewrite map_map. reflexivity. Qed.

Lemma in_rev_plan_sweeps outs ins plan w :
  In w (rev (plan_sweeps outs ins plan)) ->
  exists c, In c plan /\ w = mkSweep outs ins (c_len c) (c_batched c) (c_retain c).
Proof.
  intros Hw. apply in_rev in Hw. unfold plan_sweeps in Hw. apply in_map_iff in Hw.
  destruct Hw as (c & E & Hc). exists c. split; [exact Hc | symmetry; exact E].
Qed.

(* what the log records for the chunk plan of m rows *)
Definition plan_log_spec (outs ins : list tid) (m : nat) (k : option nat) (new : list sweep) : Prop :=
  length new = ceil_div m (max_chunk m k) /\
  fold_right Nat.add 0 (map sw_rows new) = m /\
  (forall w, In w new ->
     sw_outs w = outs /\ sw_ins w = ins /\
     1 <= sw_rows w /\ sw_rows w <= max_chunk m k /\
     sw_batched w = negb (sw_rows w =? 1)).

Lemma fold_add_rev (l : list nat) : fold_right Nat.add 0 (rev l) = fold_right Nat.add 0 l.
Proof.
  assert (Hacc : forall (r : list nat) (a : nat),
            fold_right Nat.add a r = fold_right Nat.add 0 r + a).
  { induction r as [|y r IHr]; intros a; cbn [fold_right]; [reflexivity|].
    rewrite (IHr a). lia. }
  induction l as [|x l IH]; [reflexivity|].
  cbn [rev]. rewrite fold_right_app, Hacc, IH. cbn [fold_right]. lia.
Qed.

Lemma plan_log_spec_holds outs ins m k retain : valid_chunk k = true -> 1 <= m ->
  plan_log_spec outs ins m k (rev (plan_sweeps outs ins (chunk_plan m k retain))).
Proof.
  intros Hk Hm. unfold plan_log_spec. split; [|split].
  - rewrite rev_length, plan_sweeps_length. apply plan_count; assumption.
  - rewrite map_rev, fold_add_rev, plan_sweeps_rows. apply plan_rows_total; assumption.
  - intros w Hw. apply in_rev_plan_sweeps in Hw. destruct Hw as (c & Hc & ->).
    destruct (plan_sizes m k retain c Hk Hm Hc) as (H1 & H2 & _ & Hb).
    cbn [sw_outs sw_ins sw_rows sw_batched]. repeat split; assumption.
Qed.

Lemma plan_log_sequential outs ins m k retain w : valid_chunk k = true -> 1 <= m ->
  k = Some 1 \/ m = 1 ->
  In w (rev (plan_sweeps outs ins (chunk_plan m k retain))) -> sw_batched w = false.
Proof.
  intros Hk Hm Hseq Hw. apply in_rev_plan_sweeps in Hw. destruct Hw as (c & Hc & ->).
  cbn [sw_batched]. destruct Hseq as [-> | ->].
  - exact (proj1 (plan_sequential_k1 m retain c Hm Hc)).
  - exact (plan_single_row k retain c Hk Hc).
Qed.

Section SweepCount.
Context {T : Type} (N : Num T) (P : prog T) (A : list (list T) -> res (list T)).

(* ---------- Jac: the plan is the one of  nrows (value of the first output) ---------- *)
Lemma run_jac_ok_rows : forall o0 outs ins k retain s d d' s',
  ins <> [] ->
  run N P A (TJac (o0 :: outs) ins k retain) s d = (Ok d', s') ->
  s_log s' = rev (plan_sweeps (o0 :: outs) ins (chunk_plan (nrows (dget' d o0)) k retain))
             ++ s_log s.
Proof.
  intros o0 outs ins k retain s d d' s' Hi H.
  cbn [run] in H. destruct (negb _) in H; [discriminate H|].
  unfold jac_compute in H.
  destruct ins as [|i0 ins]; [contradiction Hi; reflexivity|].
  destruct (max_chunk _ _ =? 0) in H; [discriminate H|].
  set (m := nrows (dget' d o0)) in *.
  destruct (jac_chunks N P s (o0 :: outs) (i0 :: ins) d (chunk_plan m k retain))
    as [[mx|e] s1] eqn:Ej; [|discriminate H].
  inversion H; subst s1.
  destruct (plan_retain_flags m k retain) as (front & last & E & HF & Hl).
  rewrite E in Ej |- *. apply jac_chunks_ok_inv in Ej; [|exact HF].
  destruct Ej as [_ Ej]. exact Ej.
Qed.

(* ---------- backward: Init, then Diagonalize: total_rows rows ---------- *)
Lemma init_diag_rows : forall t0 tensors s d0 d1 s1 d2 s2,
  NoDup (t0 :: tensors) ->
  run N P A (TInit (t0 :: tensors)) s d0 = (Ok d1, s1) ->
  run N P A (TDiag (t0 :: tensors)) s1 d1 = (Ok d2, s2) ->
  nrows (dget' d2 t0) = total_rows P (t0 :: tensors).
Proof.
  intros t0 tensors s d0 d1 s1 d2 s2 Hnd Hinit Hdiag.
  assert (H0 : nth_error (t0 :: tensors) 0 = Some t0) by reflexivity.
  set (c := t0 :: tensors) in *.
  apply run_init_inv in Hinit. destruct Hinit as [_ Hd1].
  unfold dedup in Hd1. rewrite nodup_fixed_point in Hd1 by exact Hnd.
  apply run_diag_inv in Hdiag. destruct Hdiag as [_ [_ Hd2]]. cbv zeta in Hd2.
  assert (Hflat : forall k, In k c -> length (flat (dget' d1 k)) = pnumel P k).
  { intros k Hk. rewrite Hd1. unfold dget', dget. cbn [ditems]. unfold tid in *.
    rewrite (assoc_map_key (fun v => plain (p_shape P v) (vones N (pnumel P v))) c k Hk).
    unfold flat, plain. cbn [t_rows concat]. rewrite app_nil_r. unfold vones.
    apply repeat_length. }
  rewrite Hd2. unfold dget', dget. cbn [ditems]. unfold tid in *.
  erewrite assoc_indexed; [|exact Hnd|exact H0].
  unfold nrows. cbn [t_rows]. rewrite !map_length, seq_length.
  unfold total_rows. apply length_concat_map. exact Hflat.
Qed.

(* THE ROW COUNT OF backward: the sweeps are those of the chunk plan of total_rows rows.
   (No hypothesis on total_rows is needed for this identity.) *)
Theorem backward_sweeps_exact : forall tensors ord k retain s d' s',
  ord <> [] ->
  backward_model N P A tensors ord k retain s = (Ok d', s') ->
  s_log s' = rev (plan_sweeps tensors ord (chunk_plan (total_rows P tensors) k retain)) ++ s_log s.
Proof.
  intros tensors ord k retain s d' s' Hord H. unfold backward_model in H.
  destruct (negb (valid_chunk k)); [discriminate H|].
  destruct tensors as [|t0 tensors]; [discriminate H|].
  unfold build_and_run in H. destruct (wf _) eqn:Hwf; [|discriminate H].
  apply wf_backward_inv in Hwf. apply c20_nodupb_NoDup in Hwf.
  unfold backward_transform in H.
  apply run_comp_inv in H. destruct H as (d4 & s4 & H4 & Hacc).
  apply run_comp_inv in H4. destruct H4 as (d3 & s3 & H3 & Hagg).
  apply run_comp_inv in H3. destruct H3 as (d2 & s2 & H2 & Hjac).
  apply run_comp_inv in H2. destruct H2 as (d1 & s1 & Hinit & Hdiag).
  pose proof (init_diag_rows _ _ _ _ _ _ _ _ Hwf Hinit Hdiag) as Hm.
  apply (no_engine_frame N P A) in Hinit; [|reflexivity]. destruct Hinit as [_ L1].
  apply (no_engine_frame N P A) in Hdiag; [|reflexivity]. destruct Hdiag as [_ L2].
  apply (no_engine_frame N P A) in Hagg; [|reflexivity]. destruct Hagg as [_ L4].
  apply (no_engine_frame N P A) in Hacc; [|reflexivity]. destruct Hacc as [_ L5].
  apply run_jac_ok_rows in Hjac; [|exact Hord]. rewrite Hm in Hjac.
  rewrite L5, L4, Hjac, L2, L1. reflexivity.
Qed.

Lemma backward_ok_valid_chunk : forall tensors ord k retain s d' s',
  backward_model N P A tensors ord k retain s = (Ok d', s') -> valid_chunk k = true.
Proof.
  intros tensors ord k retain s d' s' H. unfold backward_model in H.
  destruct (valid_chunk k); [reflexivity | discriminate H].
Qed.

(* the sweeps the call added = the newest [length (s_log s') - length (s_log s)] log entries *)
Definition new_sweeps (s s' : @store T) : list sweep :=
  firstn (length (s_log s') - length (s_log s)) (s_log s').

(* C07 for backward, all clauses at once: exactly ceil(m / max_chunk) sweeps, all from [tensors]
   to [ord], each of 1..max_chunk rows, m rows in total, batched iff more than one row *)
Theorem backward_sweeps_spec : forall tensors ord k retain s d' s',
  ord <> [] -> 1 <= total_rows P tensors ->
  backward_model N P A tensors ord k retain s = (Ok d', s') ->
  plan_log_spec tensors ord (total_rows P tensors) k (new_sweeps s s').
Proof.
  intros tensors ord k retain s d' s' Hord Hm H.
  pose proof (backward_ok_valid_chunk _ _ _ _ _ _ _ H) as Hk.
  pose proof (backward_sweeps_exact _ _ _ _ _ _ _ Hord H) as HL.
  unfold new_sweeps. rewrite (firstn_new _ _ _ HL).
  apply plan_log_spec_holds; assumption.
Qed.

Corollary backward_sweep_count : forall tensors ord k retain s d' s',
  ord <> [] -> 1 <= total_rows P tensors ->
  backward_model N P A tensors ord k retain s = (Ok d', s') ->
  length (s_log s') =
  length (s_log s) + ceil_div (total_rows P tensors) (max_chunk (total_rows P tensors) k).
Proof.
  intros tensors ord k retain s d' s' Hord Hm H.
  pose proof (backward_ok_valid_chunk _ _ _ _ _ _ _ H) as Hk.
  rewrite (backward_sweeps_exact _ _ _ _ _ _ _ Hord H).
  rewrite app_length, rev_length, plan_sweeps_length, (plan_count _ _ _ Hk Hm). lia.
Qed.

(* chunk size 1, or a single row: never batched *)
Corollary backward_sequential : forall tensors ord k retain s d' s',
  ord <> [] -> 1 <= total_rows P tensors ->
  backward_model N P A tensors ord k retain s = (Ok d', s') ->
  k = Some 1 \/ total_rows P tensors = 1 ->
  forall w, In w (firstn (length (s_log s') - length (s_log s)) (s_log s')) -> sw_batched w = false.
Proof.
  intros tensors ord k retain s d' s' Hord Hm H Hseq w Hw.
  pose proof (backward_ok_valid_chunk _ _ _ _ _ _ _ H) as Hk.
  pose proof (backward_sweeps_exact _ _ _ _ _ _ _ Hord H) as HL.
  rewrite (firstn_new _ _ _ HL) in Hw.
  exact (plan_log_sequential _ _ _ _ _ _ Hk Hm Hseq Hw).
Qed.

(* ---------- mtl_backward ---------- *)
Lemma run_list_length : forall d ts s ds s',
  run_list N P A d ts s = (Ok ds, s') -> length ds = length ts.
Proof.
  intros d ts. induction ts as [|t ts IH]; intros s ds s' H.
  - cbn in H. inversion H; subst. reflexivity.
  - rewrite run_list_cons in H.
    destruct (run N P A t s d) as [[d1|e] s1] eqn:E1; [|discriminate H].
    destruct (run_list N P A d ts s1) as [[ds1|e] s2] eqn:E2; [|discriminate H].
    inversion H; subst. cbn [length]. f_equal. exact (IH _ _ _ E2).
Qed.

(* one task: exactly one unbatched single-row sweep (Grad) *)
Lemma task_run_log : forall features params loss retain s d d' s',
  features <> [] ->
  run N P A (task_transform features params loss retain) s d = (Ok d', s') ->
  s_log s' = mkSweep [loss] (params ++ features) 1 false retain :: s_log s.
Proof.
  intros features params loss retain s d d' s' Hf H.
  unfold task_transform in H. cbv zeta in H.
  apply run_comp_inv in H. destruct H as (d2 & s2 & H2 & Hconj).
  apply run_comp_inv in H2. destruct H2 as (d1 & s1 & Hinit & Hgrad).
  apply run_init_inv in Hinit. destruct Hinit as [-> _].
  apply (no_engine_frame N P A) in Hconj; [|reflexivity]. destruct Hconj as [_ L3].
  apply run_grad_ok_inv in Hgrad; [|discriminate|].
  - destruct Hgrad as [_ L2]. rewrite L3, L2. reflexivity.
  - intros E. apply app_eq_nil in E. destruct E as [_ E]. exact (Hf E).
Qed.

Definition task_sweep (features : list tid) (retain : bool) (pl : list tid * tid) : sweep :=
  mkSweep [snd pl] (fst pl ++ features) 1 false retain.

Lemma tasks_run_log : forall features retain d (pls : list (list tid * tid)) s ds s',
  features <> [] ->
  run_list N P A d (map (fun pl => task_transform features (fst pl) (snd pl) retain) pls) s
    = (Ok ds, s') ->
  s_log s' = rev (map (task_sweep features retain) pls) ++ s_log s.
Proof.
  intros features retain d pls. induction pls as [|pl pls IH]; intros s ds s' Hf H.
  - cbn in H. inversion H; subst. reflexivity.
  - cbn [map] in H. rewrite run_list_cons in H.
    destruct (run N P A (task_transform features (fst pl) (snd pl) retain) s d)
      as [[d1|e] s1] eqn:E1; [|discriminate H].
    destruct (run_list N P A d _ s1) as [[ds1|e] s2] eqn:E2; [|discriminate H].
    inversion H; subst.
    apply task_run_log in E1; [|exact Hf]. apply IH in E2; [|exact Hf].
    rewrite E2, E1. cbn [map rev]. rewrite <- app_assoc. reflexivity.
Qed.

Lemma dkeys_map_key : forall kd (g : nat -> @tens T) (l : list nat),
  dkeys (mkDict kd (map (fun k => (k, g k)) l)) = l.
Proof.
  intros kd g l. unfold dkeys. cbn [ditems]. rewrite map_map. cbn [fst]. apply map_id.
Qed.

(* Stack: as many rows as member dictionaries *)
Lemma stack_rows : forall ds d f0,
  stack_dicts N P ds = Ok d -> In f0 (dkeys d) -> nrows (dget' d f0) = length ds.
Proof.
  intros ds d f0 H Hin. unfold stack_dicts in H. apply mk_dict_ok in H. subst d.
  unfold tid in *. rewrite dkeys_map_key in Hin.
  unfold dget', dget. cbn [ditems].
  erewrite (assoc_map_key _ _ f0 Hin).
  unfold nrows. cbn [t_rows]. apply map_length.
Qed.

Lemma mtl_ok_args : forall losses features tasks shared k retain s d' s',
  mtl_backward_model N P A losses features tasks shared k retain s = (Ok d', s') ->
  mtl_args_ok P losses features tasks shared k retain = true.
Proof.
  intros losses features tasks shared k retain s d' s' H.
  destruct (mtl_args_ok P losses features tasks shared k retain) eqn:Eok; [reflexivity|].
  rewrite (mtl_args_rejected N P A _ _ _ _ _ _ s Eok) in H. discriminate H.
Qed.

(* THE ROW COUNT OF mtl_backward: one unbatched single-row sweep per task, in task order, then the
   sweeps of the chunk plan of  length losses  rows *)
Theorem mtl_sweeps_exact : forall losses features tasks shared k retain s d' s',
  shared <> [] ->
  mtl_backward_model N P A losses features tasks shared k retain s = (Ok d', s') ->
  s_log s' = rev (plan_sweeps features shared (chunk_plan (length losses) k retain))
             ++ rev (map (fun pl => mkSweep [snd pl] (fst pl ++ features) 1 false retain)
                         (combine tasks losses))
             ++ s_log s.
Proof.
  intros losses features tasks shared k retain s d' s' Hsh H.
  pose proof (mtl_ok_args _ _ _ _ _ _ _ _ _ H) as Eok.
  rewrite (mtl_args_accepted N P A _ _ _ _ _ _ s Eok) in H.
  apply mtl_args_ok_inv in Eok. destruct Eok as (_ & Hnf & _ & _ & _ & Hlen & _ & _).
  destruct features as [|f0 fs]; [discriminate Hnf|].
  assert (Hf : f0 :: fs <> []) by discriminate.
  unfold mtl_transform in H.
  apply run_comp_inv in H. destruct H as (d4 & s4 & H4 & Hacc).
  apply run_comp_inv in H4. destruct H4 as (d3 & s3 & H3 & Hagg).
  apply run_comp_inv in H3. destruct H3 as (d2 & s2 & Hstack & Hjac).
  apply (no_engine_frame N P A) in Hagg; [|reflexivity]. destruct Hagg as [_ L4].
  apply (no_engine_frame N P A) in Hacc; [|reflexivity]. destruct Hacc as [_ L5].
  (* the first feature is a key of the stacked dictionary: Jac's key check passed *)
  assert (Hkey : In f0 (dkeys d2)).
  { pose proof (run_keys_ok N P A _ _ _ _ _ Hjac) as Hk. cbn [required_keys] in Hk.
    unfold set_eqb in Hk. apply andb_true_iff in Hk. destruct Hk as [_ Hk].
    unfold subsetb in Hk. rewrite forallb_forall in Hk.
    apply c20_mem_In. apply Hk. unfold dedup. apply nodup_In. left. reflexivity. }
  apply run_jac_ok_rows in Hjac; [|exact Hsh].
  rewrite run_stack_eq in Hstack. destruct (negb _) in Hstack; [discriminate Hstack|].
  destruct (run_list N P A empty_dict _ s) as [[ds|e] s1] eqn:EL; [|discriminate Hstack].
  inversion Hstack as [[Hsd Hs]]. subst s1.
  rewrite (stack_rows _ _ _ Hsd Hkey) in Hjac.
  rewrite (run_list_length _ _ _ _ _ EL) in Hjac.
  rewrite map_length, combine_length, <- Hlen, Nat.min_id in Hjac.
  apply tasks_run_log in EL; [|exact Hf].
  rewrite L5, L4, Hjac, EL. reflexivity.
Qed.

Lemma mtl_ok_facts : forall losses features tasks shared k retain s d' s',
  mtl_backward_model N P A losses features tasks shared k retain s = (Ok d', s') ->
  valid_chunk k = true /\ 1 <= length losses /\ length (combine tasks losses) = length losses.
Proof.
  intros losses features tasks shared k retain s d' s' H.
  pose proof (mtl_ok_args _ _ _ _ _ _ _ _ _ H) as Eok.
  apply mtl_args_ok_inv in Eok. destruct Eok as (Hk & _ & _ & _ & Hnl & Hlen & _ & _).
  split; [exact Hk|]. split.
  - destruct losses as [|l0 losses]; [discriminate Hnl | cbn [length]; lia].
  - rewrite combine_length, <- Hlen. apply Nat.min_id.
Qed.

Corollary mtl_sweep_count : forall losses features tasks shared k retain s d' s',
  shared <> [] ->
  mtl_backward_model N P A losses features tasks shared k retain s = (Ok d', s') ->
  length (s_log s') =
  length (s_log s) + length losses + ceil_div (length losses) (max_chunk (length losses) k).
Proof.
  intros losses features tasks shared k retain s d' s' Hsh H.
  destruct (mtl_ok_facts _ _ _ _ _ _ _ _ _ H) as (Hk & Hm & Hc).
  rewrite (mtl_sweeps_exact _ _ _ _ _ _ _ _ _ Hsh H).
  rewrite !app_length, !rev_length, plan_sweeps_length, map_length, Hc,
    (plan_count _ _ _ Hk Hm). lia.
Qed.

(* the trunk's sweeps are the newest ones and obey C07 with m = number of losses; below them,
   one unbatched single-row sweep per task *)
Theorem mtl_sweeps_spec : forall losses features tasks shared k retain s d' s',
  shared <> [] ->
  mtl_backward_model N P A losses features tasks shared k retain s = (Ok d', s') ->
  exists trunk heads,
    s_log s' = trunk ++ heads ++ s_log s /\
    plan_log_spec features shared (length losses) k trunk /\
    heads = rev (map (task_sweep features retain) (combine tasks losses)) /\
    length heads = length losses /\
    (forall w, In w heads -> sw_rows w = 1 /\ sw_batched w = false /\ sw_retain w = retain).
Proof.
  intros losses features tasks shared k retain s d' s' Hsh H.
  destruct (mtl_ok_facts _ _ _ _ _ _ _ _ _ H) as (Hk & Hm & Hc).
  eexists _, _. split; [exact (mtl_sweeps_exact _ _ _ _ _ _ _ _ _ Hsh H)|].
  split; [apply plan_log_spec_holds; assumption|].
  split; [reflexivity|]. split.
  - rewrite rev_length, map_length. exact Hc.
  - intros w Hw. apply in_rev in Hw. apply in_map_iff in Hw. destruct Hw as (pl & <- & _).
    cbn [sw_rows sw_batched sw_retain]. repeat split.
Qed.

(* chunk size 1, or a single loss: no sweep of the call is batched *)
Corollary mtl_sequential : forall losses features tasks shared k retain s d' s',
  shared <> [] ->
  mtl_backward_model N P A losses features tasks shared k retain s = (Ok d', s') ->
  k = Some 1 \/ length losses = 1 ->
  forall w, In w (firstn (length (s_log s') - length (s_log s)) (s_log s')) -> sw_batched w = false.
Proof.
  intros losses features tasks shared k retain s d' s' Hsh H Hseq w Hw.
  destruct (mtl_ok_facts _ _ _ _ _ _ _ _ _ H) as (Hk & Hm & Hc).
  pose proof (mtl_sweeps_exact _ _ _ _ _ _ _ _ _ Hsh H) as HL.
  rewrite app_assoc in HL. rewrite (firstn_new _ _ _ HL) in Hw.
  apply in_app_or in Hw. destruct Hw as [Hw|Hw].
  - exact (plan_log_sequential _ _ _ _ _ _ Hk Hm Hseq Hw).
  - apply in_rev in Hw. apply in_map_iff in Hw. destruct Hw as (pl & <- & _). reflexivity.
Qed.

End SweepCount.

Print Assumptions backward_sweeps_exact.
Print Assumptions backward_sweeps_spec.
Print Assumptions backward_sweep_count.
Print Assumptions backward_sequential.
Print Assumptions mtl_sweeps_exact.
Print Assumptions mtl_sweeps_spec.
Print Assumptions mtl_sweep_count.
Print Assumptions mtl_sequential.
