From Coq Require Import List Bool Arith Lia QArith Reals Qreals Lra.
From TJ Require Import Num Linalg NumR NumQ Agg.
From TJ.proofs Require Import TransferProofs.
Import ListNotations.
(* TransferAggProofs.v — the sqrt-free aggregator models of Agg.v commute with every map of
   numbers that preserves 0, 1, +, -, *, /, unary -, <=, < and the embedding of nat (PART 1);
   Q2R : Q -> R is such a map between the executable instance QN and the instance RN at which
   the theorems are proved (PART 2). *)
Local Open Scope nat_scope.

(* ---------- generic list facts ---------- *)
Lemma ta_combine_map_both {A B C D : Type} (f : A -> C) (g : B -> D) :
  forall (l : list A) (l' : list B),
  combine (map f l) (map g l') = map (fun p => (f (fst p), g (snd p))) (combine l l').
Proof.
  induction l as [|x l IH]; intros l'; [reflexivity|].
  destruct l' as [|y l']; [reflexivity|]. cbn [map combine fst snd]. rewrite IH. reflexivity.
Qed.

Section HomAgg.
Context {T U : Type} (NT : Num T) (NU : Num U) (phi : T -> U).
Hypothesis phi_0 : phi (n0 NT) = n0 NU.
Hypothesis phi_1 : phi (n1 NT) = n1 NU.
Hypothesis phi_add : forall a b, phi (nadd NT a b) = nadd NU (phi a) (phi b).
Hypothesis phi_sub : forall a b, phi (nsub NT a b) = nsub NU (phi a) (phi b).
Hypothesis phi_mul : forall a b, phi (nmul NT a b) = nmul NU (phi a) (phi b).
Hypothesis phi_div : forall a b, phi (ndiv NT a b) = ndiv NU (phi a) (phi b).
Hypothesis phi_opp : forall a, phi (nopp NT a) = nopp NU (phi a).
Hypothesis phi_leb : forall a b, nleb NU (phi a) (phi b) = nleb NT a b.
Hypothesis phi_ltb : forall a b, nltb NU (phi a) (phi b) = nltb NT a b.
Hypothesis phi_ofnat : forall n, phi (nofnat NT n) = nofnat NU n.

Local Notation V := (map phi).
Local Notation M := (map (map phi)).
Local Notation RV r := (match r with Ok v => Ok (V v) | Err e => Err e end).

Lemma phi_if (b : bool) (x y : T) : phi (if b then x else y) = if b then phi x else phi y.
Proof. destruct b; reflexivity. Qed.

Lemma V_if (b : bool) (x y : list T) : V (if b then x else y) = if b then V x else V y.
Proof. destruct b; reflexivity. Qed.

(* ---------- Linalg ---------- *)
Lemma vsum_hom v : phi (vsum NT v) = vsum NU (V v).
Proof.
  unfold vsum. induction v as [|x v IH]; cbn [map fold_right]; [exact phi_0|].
  rewrite phi_add, IH. reflexivity.
Qed.

Lemma dot_hom : forall a b, phi (dot NT a b) = dot NU (V a) (V b).
Proof.
  induction a as [|x a IH]; intros b; [exact phi_0|].
  destruct b as [|y b]; [exact phi_0|].
  cbn [dot map]. rewrite phi_add, phi_mul, IH. reflexivity.
Qed.

Lemma vscale_hom c v : V (vscale NT c v) = vscale NU (phi c) (V v).
Proof. unfold vscale. rewrite !map_map. apply map_ext. intros x. apply phi_mul. Qed.

Lemma vadd_hom : forall a b, V (vadd NT a b) = vadd NU (V a) (V b).
Proof.
  induction a as [|x a IH]; intros b; [reflexivity|].
  destruct b as [|y b]; [reflexivity|].
  cbn [vadd map]. rewrite IH, phi_add. reflexivity.
Qed.

Lemma vsub_hom : forall a b, V (vsub NT a b) = vsub NU (V a) (V b).
Proof.
  induction a as [|x a IH]; intros b; [reflexivity|].
  destruct b as [|y b]; [reflexivity|].
  cbn [vsub map]. rewrite IH, phi_sub. reflexivity.
Qed.

Lemma vzero_hom n : V (vzero NT n) = vzero NU n.
Proof. unfold vzero. rewrite tp_map_repeat, phi_0. reflexivity. Qed.

Lemma vones_hom n : V (vones NT n) = vones NU n.
Proof. unfold vones. rewrite tp_map_repeat, phi_1. reflexivity. Qed.

Lemma onehot_hom : forall n i x, V (onehot NT n i x) = onehot NU n i (phi x).
Proof.
  induction n as [|n IH]; intros i x; [reflexivity|].
  destruct i as [|i]; cbn [onehot map].
  - rewrite vzero_hom. reflexivity.
  - rewrite IH, phi_0. reflexivity.
Qed.

Lemma mv_hom G x : V (mv NT G x) = mv NU (M G) (V x).
Proof. unfold mv. rewrite !map_map. apply map_ext. intros r. apply dot_hom. Qed.

Lemma vm_hom n : forall w G, V (vm NT n w G) = vm NU n (V w) (M G).
Proof.
  induction w as [|x w IH]; intros G.
  - cbn [vm map]. apply vzero_hom.
  - destruct G as [|r G].
    + cbn [vm map]. apply vzero_hom.
    + cbn [vm map]. rewrite vadd_hom, vscale_hom, IH. reflexivity.
Qed.

Lemma ncols_hom (J : list (list T)) : ncols (M J) = ncols J.
Proof. destruct J as [|r J]; [reflexivity|]. cbn [map ncols]. apply map_length. Qed.

Lemma combine_rows_hom J w : V (combine_rows NT J w) = combine_rows NU (M J) (V w).
Proof. unfold combine_rows. rewrite ncols_hom. apply vm_hom. Qed.

Lemma gram_hom J : M (gram NT J) = gram NU (M J).
Proof.
  unfold gram. rewrite !map_map. apply map_ext. intros r.
  rewrite !map_map. apply map_ext. intros s. apply dot_hom.
Qed.

Lemma nth_row_hom (G : list (list T)) i : V (nth_row G i) = nth_row (M G) i.
Proof. unfold nth_row. change (@nil U) with (V []). symmetry. apply map_nth. Qed.

Lemma vget_hom v i : phi (vget NT v i) = vget NU (V v) i.
Proof. unfold vget. rewrite <- phi_0. symmetry. apply map_nth. Qed.

Lemma mget_hom G i j : phi (mget NT G i j) = mget NU (M G) i j.
Proof.
  unfold mget. rewrite <- phi_0. change (@nil U) with (V []).
  rewrite (map_nth V G [] i). symmetry. apply map_nth.
Qed.

Lemma column_hom J j : V (column NT J j) = column NU (M J) j.
Proof.
  induction J as [|r J IH]; [reflexivity|].
  cbn [column map]. rewrite IH. f_equal. rewrite <- phi_0. symmetry. apply map_nth.
Qed.

Lemma transpose_hom n J : M (transpose NT n J) = transpose NU n (M J).
Proof. unfold transpose. rewrite map_map. apply map_ext. intros j. apply column_hom. Qed.

Lemma mmul_hom p J Q : M (mmul NT p J Q) = mmul NU p (M J) (M Q).
Proof. unfold mmul. rewrite !map_map. apply map_ext. intros r. apply vm_hom. Qed.

Lemma vnorm2_hom v : phi (vnorm2 NT v) = vnorm2 NU (V v).
Proof. unfold vnorm2. apply dot_hom. Qed.

Lemma nabs_hom x : phi (nabs NT x) = nabs NU (phi x).
Proof.
  unfold nabs. rewrite <- phi_0, phi_ltb.
  destruct (nltb NT x (n0 NT)); [apply phi_opp | reflexivity].
Qed.

Lemma nmax_hom a b : phi (nmax NT a b) = nmax NU (phi a) (phi b).
Proof. unfold nmax. rewrite phi_leb. destruct (nleb NT a b); reflexivity. Qed.

Lemma nmin_hom a b : phi (nmin NT a b) = nmin NU (phi a) (phi b).
Proof. unfold nmin. rewrite phi_leb. destruct (nleb NT a b); reflexivity. Qed.

Lemma all_leb0_hom v : all_leb0 NU (V v) = all_leb0 NT v.
Proof.
  unfold all_leb0. induction v as [|x v IH]; [reflexivity|].
  cbn [map forallb]. rewrite IH, <- phi_0, phi_leb. reflexivity.
Qed.

Lemma argmin_from_hom : forall v best bi i,
  argmin_from NU (phi best) bi i (V v) = argmin_from NT best bi i v.
Proof.
  induction v as [|x v IH]; intros best bi i; [reflexivity|].
  cbn [map argmin_from]. rewrite phi_ltb, !IH. reflexivity.
Qed.

Lemma argmin_hom v : argmin NU (V v) = argmin NT v.
Proof. destruct v as [|x v]; [reflexivity|]. cbn [map argmin]. apply argmin_from_hom. Qed.

(* ---------- fixed weightings ---------- *)
Lemma mean_weights_hom m : V (mean_weights NT m) = mean_weights NU m.
Proof. unfold mean_weights. rewrite tp_map_repeat, phi_div, phi_1, phi_ofnat. reflexivity. Qed.

Lemma sum_weights_hom m : V (sum_weights NT m) = sum_weights NU m.
Proof. unfold sum_weights. rewrite tp_map_repeat, phi_1. reflexivity. Qed.

Lemma constant_weights_hom (w : list T) m :
  constant_weights (V w) m = RV (constant_weights w m).
Proof.
  unfold constant_weights. rewrite map_length.
  destruct (Nat.eqb (length w) m); reflexivity.
Qed.

Lemma random_weights_hom e : V (random_weights NT e) = random_weights NU (V e).
Proof.
  unfold random_weights. cbv zeta. rewrite <- vsum_hom, !map_map.
  apply map_ext. intros x. apply phi_div.
Qed.

Lemma pref_weights_hom (pref : option (list T)) default m :
  pref_weights (option_map V pref) (V default) m = RV (pref_weights pref default m).
Proof.
  destruct pref as [p|]; cbn [option_map pref_weights]; [apply constant_weights_hom | reflexivity].
Qed.

Lemma weighted_hom J (w : res (list T)) : weighted NU (M J) (RV w) = RV (weighted NT J w).
Proof.
  unfold weighted. destruct w as [w|e]; cbn [rbind]; [|reflexivity].
  rewrite combine_rows_hom. reflexivity.
Qed.

Lemma agg_mean_hom J : agg_mean NU (M J) = V (agg_mean NT J).
Proof. unfold agg_mean. rewrite combine_rows_hom, mean_weights_hom, map_length. reflexivity. Qed.

Lemma agg_sum_hom J : agg_sum NU (M J) = V (agg_sum NT J).
Proof. unfold agg_sum. rewrite combine_rows_hom, sum_weights_hom, map_length. reflexivity. Qed.

Lemma agg_constant_hom w J : agg_constant NU (V w) (M J) = RV (agg_constant NT w J).
Proof.
  unfold agg_constant. rewrite <- weighted_hom, <- constant_weights_hom, map_length. reflexivity.
Qed.

Lemma agg_random_hom e J : agg_random NU (V e) (M J) = V (agg_random NT e J).
Proof. unfold agg_random. rewrite combine_rows_hom, random_weights_hom. reflexivity. Qed.

(* ---------- normalised / regularised Gramian ---------- *)
Lemma mscale_hom c G : M (mscale NT c G) = mscale NU (phi c) (M G).
Proof. unfold mscale. rewrite !map_map. apply map_ext. intros r. apply vscale_hom. Qed.

Lemma mzero_hom m : M (mzero NT m) = mzero NU m.
Proof. unfold mzero. rewrite tp_map_repeat, vzero_hom. reflexivity. Qed.

Lemma normalized_gramian_hom G s norm_eps :
  M (normalized_gramian NT G s norm_eps) = normalized_gramian NU (M G) (phi s) (phi norm_eps).
Proof.
  unfold normalized_gramian. rewrite phi_ltb, map_length.
  destruct (nltb NT s norm_eps).
  - apply mzero_hom.
  - rewrite mscale_hom, phi_div, phi_mul, phi_1. reflexivity.
Qed.

Lemma add_diag_from_hom eps : forall G i,
  M (add_diag_from NT i eps G) = add_diag_from NU i (phi eps) (M G).
Proof.
  induction G as [|r G IH]; intros i; [reflexivity|].
  cbn [add_diag_from map]. rewrite IH, vadd_hom, onehot_hom, map_length. reflexivity.
Qed.

Lemma regularize_hom G eps : M (regularize NT G eps) = regularize NU (M G) (phi eps).
Proof. unfold regularize. apply add_diag_from_hom. Qed.

Lemma reg_norm_gramian_hom G s norm_eps reg_eps :
  M (reg_norm_gramian NT G s norm_eps reg_eps)
  = reg_norm_gramian NU (M G) (phi s) (phi norm_eps) (phi reg_eps).
Proof. unfold reg_norm_gramian. rewrite regularize_hom, normalized_gramian_hom. reflexivity. Qed.

(* ---------- KKT certificate ---------- *)
Lemma kkt_rows_hom : forall Mw w u,
  kkt_rows NU (V Mw) (V w) (V u) = kkt_rows NT Mw w u.
Proof.
  induction Mw as [|g Mw IH]; intros w u.
  - destruct w as [|x w]; [|reflexivity]. destruct u as [|y u]; reflexivity.
  - destruct w as [|x w]; [reflexivity|]. destruct u as [|y u]; [reflexivity|].
    cbn [map kkt_rows]. cbv zeta.
    rewrite IH, <- phi_sub, <- phi_mul, <- phi_0, !phi_leb. reflexivity.
Qed.

Lemma kktb_hom G u w : kktb NU (M G) (V u) (V w) = kktb NT G u w.
Proof. unfold kktb. rewrite <- mv_hom. apply kkt_rows_hom. Qed.

(* ---------- UPGrad / DualProj, for related QP oracles ---------- *)
Lemma vsum_rows_hom n : forall W, V (vsum_rows NT n W) = vsum_rows NU n (M W).
Proof.
  induction W as [|r W IH]; cbn [vsum_rows map]; [apply vzero_hom|].
  rewrite vadd_hom, IH. reflexivity.
Qed.

Section Oracles.
Variable qpT : list (list T) -> list T -> list T.
Variable qpU : list (list U) -> list U -> list U.
Hypothesis qp_rel : forall G u, qpU (M G) (V u) = V (qpT G u).

Lemma dualproj_weights_hom G s norm_eps reg_eps u :
  dualproj_weights NU qpU (M G) (phi s) (phi norm_eps) (phi reg_eps) (V u)
  = V (dualproj_weights NT qpT G s norm_eps reg_eps u).
Proof. unfold dualproj_weights. rewrite <- reg_norm_gramian_hom. apply qp_rel. Qed.

Lemma upgrad_weights_hom G s norm_eps reg_eps u :
  upgrad_weights NU qpU (M G) (phi s) (phi norm_eps) (phi reg_eps) (V u)
  = V (upgrad_weights NT qpT G s norm_eps reg_eps u).
Proof.
  unfold upgrad_weights. cbv zeta. rewrite map_length, vsum_rows_hom, <- reg_norm_gramian_hom.
  f_equal. rewrite map_map. apply map_ext. intros i.
  rewrite <- vget_hom, <- onehot_hom. apply qp_rel.
Qed.

Lemma agg_dualproj_hom pref s norm_eps reg_eps J :
  agg_dualproj NU qpU (option_map V pref) (phi s) (phi norm_eps) (phi reg_eps) (M J)
  = RV (agg_dualproj NT qpT pref s norm_eps reg_eps J).
Proof.
  unfold agg_dualproj. rewrite map_length, <- mean_weights_hom, pref_weights_hom.
  destruct (pref_weights pref (mean_weights NT (length J)) (length J)) as [u|e];
    cbn [rbind]; [|reflexivity].
  rewrite <- gram_hom, dualproj_weights_hom, <- combine_rows_hom. reflexivity.
Qed.

Lemma agg_upgrad_hom pref s norm_eps reg_eps J :
  agg_upgrad NU qpU (option_map V pref) (phi s) (phi norm_eps) (phi reg_eps) (M J)
  = RV (agg_upgrad NT qpT pref s norm_eps reg_eps J).
Proof.
  unfold agg_upgrad. rewrite map_length, <- mean_weights_hom, pref_weights_hom.
  destruct (pref_weights pref (mean_weights NT (length J)) (length J)) as [u|e];
    cbn [rbind]; [|reflexivity].
  rewrite <- gram_hom, upgrad_weights_hom, <- combine_rows_hom. reflexivity.
Qed.
End Oracles.

(* ---------- MGDA ---------- *)
Lemma mgda_step_hom G alpha :
  mgda_step NU (M G) (V alpha)
  = (V (fst (mgda_step NT G alpha)), phi (snd (mgda_step NT G alpha))).
Proof.
  unfold mgda_step. cbv zeta. cbn [fst snd].
  rewrite map_length, <- (mv_hom G alpha), argmin_hom.
  set (t := argmin NT (mv NT G alpha)).
  rewrite <- phi_1, <- onehot_hom, <- !mv_hom, <- !dot_hom.
  set (a := dot NT alpha (mv NT G (onehot NT (length alpha) t (n1 NT)))).
  set (b := dot NT alpha (mv NT G alpha)).
  set (c := dot NT (onehot NT (length alpha) t (n1 NT)) (mv NT G (onehot NT (length alpha) t (n1 NT)))).
  rewrite !phi_leb, <- phi_0, <- (phi_ofnat 2), <- phi_mul, <- phi_add, <- !phi_sub, <- phi_div.
  rewrite <- !phi_if.
  set (gamma := if nleb NT c a then n1 NT else _).
  rewrite <- phi_sub, <- !vscale_hom, <- vadd_hom. reflexivity.
Qed.

Lemma mgda_loop_hom : forall iters G eps alpha,
  mgda_loop NU iters (M G) (phi eps) (V alpha) = V (mgda_loop NT iters G eps alpha).
Proof.
  induction iters as [|k IH]; intros G eps alpha; [reflexivity|].
  cbn [mgda_loop]. rewrite mgda_step_hom.
  destruct (mgda_step NT G alpha) as [alpha' gamma]. cbn [fst snd].
  rewrite phi_ltb. destruct (nltb NT gamma eps); [reflexivity | apply IH].
Qed.

Lemma mgda_weights_hom G eps iters :
  mgda_weights NU (M G) (phi eps) iters = V (mgda_weights NT G eps iters).
Proof. unfold mgda_weights. rewrite map_length, <- mean_weights_hom. apply mgda_loop_hom. Qed.

Lemma agg_mgda_hom eps iters J :
  agg_mgda NU (phi eps) iters (M J) = V (agg_mgda NT eps iters J).
Proof.
  unfold agg_mgda. rewrite <- gram_hom, mgda_weights_hom, <- combine_rows_hom. reflexivity.
Qed.

(* ---------- PCGrad ---------- *)
Lemma vupd_hom (f : T -> T) (g : U -> U) (Hfg : forall x, phi (f x) = g (phi x)) :
  forall v j, V (vupd v j f) = vupd (V v) j g.
Proof.
  induction v as [|x v IH]; intros j; [reflexivity|].
  destruct j as [|j]; cbn [vupd map]; [rewrite Hfg; reflexivity|].
  rewrite IH. reflexivity.
Qed.

Lemma pcgrad_inner_hom G i : forall perm cw,
  V (pcgrad_inner NT G i perm cw) = pcgrad_inner NU (M G) i perm (V cw).
Proof.
  induction perm as [|j perm IH]; intros cw; [reflexivity|].
  cbn [pcgrad_inner]. destruct (Nat.eqb j i); [apply IH|]. cbv zeta.
  rewrite IH. f_equal.
  rewrite <- nth_row_hom, <- dot_hom, <- phi_0, phi_ltb.
  destruct (nltb NT (dot NT (nth_row G j) cw) (n0 NT)); [|reflexivity].
  apply vupd_hom. intros x. rewrite phi_sub, phi_div, mget_hom. reflexivity.
Qed.

Lemma pcgrad_outer_hom G m : forall perms i acc,
  V (pcgrad_outer NT G m i perms acc) = pcgrad_outer NU (M G) m i perms (V acc).
Proof.
  induction perms as [|perm perms IH]; intros i acc; [reflexivity|].
  cbn [pcgrad_outer]. cbv zeta.
  rewrite IH, vadd_hom, pcgrad_inner_hom, onehot_hom, phi_1. reflexivity.
Qed.

Lemma pcgrad_weights_hom G perms :
  V (pcgrad_weights NT G perms) = pcgrad_weights NU (M G) perms.
Proof. unfold pcgrad_weights. rewrite pcgrad_outer_hom, vzero_hom, map_length. reflexivity. Qed.

Lemma agg_pcgrad_hom perms J : agg_pcgrad NU perms (M J) = V (agg_pcgrad NT perms J).
Proof.
  unfold agg_pcgrad. rewrite combine_rows_hom, pcgrad_weights_hom, gram_hom. reflexivity.
Qed.

(* ---------- GradDrop ---------- *)
Lemma graddrop_coord_hom leak col u :
  phi (graddrop_coord NT leak col u) = graddrop_coord NU (V leak) (V col) (phi u).
Proof.
  unfold graddrop_coord. cbv zeta.
  rewrite vsum_hom, map_map, ta_combine_map_both, map_map.
  rewrite <- (vsum_hom col).
  assert (Ea : vsum NU (map (nabs NU) (V col)) = phi (vsum NT (map (nabs NT) col))).
  { rewrite vsum_hom, !map_map. f_equal. apply map_ext. intros x. symmetry. apply nabs_hom. }
  rewrite Ea.
  set (s := vsum NT col). set (a := vsum NT (map (nabs NT) col)).
  rewrite <- phi_0, <- phi_1, <- (phi_ofnat 2), <- !phi_div, <- phi_add, <- phi_mul.
  rewrite !phi_leb, !phi_ltb.
  f_equal. apply map_ext. intros [l x]. cbn [fst snd].
  rewrite !phi_ltb, phi_mul, phi_add, phi_mul, phi_sub, phi_if. reflexivity.
Qed.

Lemma graddrop_map_hom leak J U0 :
  map (fun '(j, u) => graddrop_coord NU (V leak) (column NU (M J) j) u)
      (combine (seq 0 (ncols (M J))) (V U0))
  = V (map (fun '(j, u) => graddrop_coord NT leak (column NT J j) u)
           (combine (seq 0 (ncols J)) U0)).
Proof.
  rewrite ncols_hom, tp_combine_map_r, !map_map. apply map_ext. intros [j u]. cbn [fst snd].
  rewrite graddrop_coord_hom, column_hom. reflexivity.
Qed.

Lemma agg_graddrop_hom leak U0 J :
  agg_graddrop NU (option_map V leak) (V U0) (M J) = RV (agg_graddrop NT leak U0 J).
Proof.
  unfold agg_graddrop. cbv zeta. destruct leak as [l|]; cbn [option_map].
  - rewrite !map_length. destruct (negb (Nat.eqb (length l) (length J))); [reflexivity|].
    rewrite graddrop_map_hom. reflexivity.
  - rewrite map_length, <- vzero_hom, graddrop_map_hom. reflexivity.
Qed.

(* ---------- TrimmedMean ---------- *)
Lemma insert_hom x : forall l, V (insert NT x l) = insert NU (phi x) (V l).
Proof.
  induction l as [|y l IH]; [reflexivity|].
  cbn [insert map]. rewrite phi_leb. destruct (nleb NT x y); cbn [map]; [reflexivity|].
  rewrite IH. reflexivity.
Qed.

Lemma isort_hom : forall l, V (isort NT l) = isort NU (V l).
Proof.
  induction l as [|x l IH]; [reflexivity|]. cbn [isort map]. rewrite insert_hom, IH. reflexivity.
Qed.

Lemma trimmed_hom b col : phi (trimmed NT b col) = trimmed NU b (V col).
Proof.
  unfold trimmed. cbv zeta.
  rewrite phi_div, vsum_hom, phi_ofnat, <- firstn_map, <- skipn_map, isort_hom, map_length.
  rewrite <- isort_hom, skipn_map, firstn_map, map_length. reflexivity.
Qed.

Lemma agg_trimmed_mean_hom b J :
  agg_trimmed_mean NU b (M J) = RV (agg_trimmed_mean NT b J).
Proof.
  unfold agg_trimmed_mean. rewrite map_length, ncols_hom.
  destruct (Nat.ltb (length J) (1 + 2 * b)); [reflexivity|].
  f_equal. rewrite map_map. apply map_ext. intros j.
  rewrite trimmed_hom, column_hom. reflexivity.
Qed.

(* ---------- sqrt-free pieces of Krum and CAGrad ---------- *)
Lemma quadform_hom G x : phi (quadform NT G x) = quadform NU (M G) (V x).
Proof. unfold quadform. rewrite dot_hom, mv_hom. reflexivity. Qed.

Lemma krum_scores_hom D n_closest :
  V (krum_scores NT D n_closest) = krum_scores NU (M D) n_closest.
Proof.
  unfold krum_scores. rewrite !map_map. apply map_ext. intros row.
  rewrite vsum_hom, <- skipn_map, <- firstn_map, isort_hom. reflexivity.
Qed.

Lemma insert_idx_hom p : forall l,
  map (fun q => (phi (fst q), snd q)) (insert_idx NT p l)
  = insert_idx NU (phi (fst p), snd p) (map (fun q => (phi (fst q), snd q)) l).
Proof.
  induction l as [|q l IH]; [reflexivity|].
  cbn [insert_idx map fst snd]. rewrite phi_leb.
  destruct (nleb NT (fst p) (fst q)); cbn [map fst snd]; [reflexivity|].
  rewrite IH. reflexivity.
Qed.

Lemma sort_idx_hom v :
  sort_idx NU (V v) = map (fun q => (phi (fst q), snd q)) (sort_idx NT v).
Proof.
  unfold sort_idx. rewrite map_length. generalize (seq 0 (length v)).
  induction v as [|x v IH]; intros l; [reflexivity|].
  destruct l as [|i l]; [reflexivity|].
  cbn [map combine fold_right]. rewrite IH, insert_idx_hom. reflexivity.
Qed.

Lemma smallest_k_hom k v : smallest_k NU k (V v) = smallest_k NT k v.
Proof.
  unfold smallest_k. rewrite sort_idx_hom, firstn_map, map_map. apply map_ext.
  intros q. reflexivity.
Qed.

Lemma krum_weights_of_dist_hom D f k :
  V (krum_weights_of_dist NT D f k) = krum_weights_of_dist NU (M D) f k.
Proof.
  unfold krum_weights_of_dist. cbv zeta.
  rewrite map_length, <- krum_scores_hom, smallest_k_hom, map_map.
  apply map_ext. intros i. rewrite phi_div, !phi_ofnat. reflexivity.
Qed.

End HomAgg.

(* ---------- PART 2: the instance Q -> R ---------- *)
Lemma Q2R_QN_sub : forall a b, Q2R (nsub QN a b) = nsub RN (Q2R a) (Q2R b).
Proof. intros a b. cbn [nsub QN RN]. rewrite Q2R_Qred. apply Q2R_minus. Qed.

Lemma Q2R_QN_opp : forall a, Q2R (nopp QN a) = nopp RN (Q2R a).
Proof. intros a. cbn [nopp QN RN]. rewrite Q2R_Qred. apply Q2R_opp. Qed.

Lemma Q2R_QN_div : forall a b, Q2R (ndiv QN a b) = ndiv RN (Q2R a) (Q2R b).
Proof.
  intros a b. cbn [ndiv QN RN]. rewrite Q2R_Qred.
  destruct (Qeq_dec b 0) as [E|E].
  - assert (E1 : (a / b == 0)%Q).
    { rewrite E. unfold Qdiv. change (/ 0)%Q with 0%Q. apply Qmult_0_r. }
    rewrite (Qeq_eqR _ _ E1), (Qeq_eqR _ _ E).
    change (Q2R 0) with (Q2R (n0 QN)). rewrite Q2R_QN_0. cbn [n0 RN].
    unfold Rdiv. rewrite Rinv_0, Rmult_0_r. reflexivity.
  - apply Q2R_div. exact E.
Qed.

Lemma Q2R_QN_leb : forall a b, nleb RN (Q2R a) (Q2R b) = nleb QN a b.
Proof.
  intros a b. cbn [nleb QN RN]. destruct (Qle_bool a b) eqn:E.
  - apply Rleb_true. apply Qle_Rle. apply Qle_bool_iff. exact E.
  - apply Rleb_false. apply Qlt_Rlt. apply Qnot_le_lt. intros H.
    apply Qle_bool_iff in H. rewrite H in E. discriminate.
Qed.

Lemma Q2R_QN_ltb : forall a b, nltb RN (Q2R a) (Q2R b) = nltb QN a b.
Proof.
  intros a b. cbn [nltb QN RN]. unfold Qltb. destruct (Qle_bool b a) eqn:E; cbn [negb].
  - apply Rltb_false. apply Qle_Rle. apply Qle_bool_iff. exact E.
  - apply Rltb_true. apply Qlt_Rlt. apply Qnot_le_lt. intros H.
    apply Qle_bool_iff in H. rewrite H in E. discriminate.
Qed.

Lemma Q2R_QN_ofnat : forall n, Q2R (nofnat QN n) = nofnat RN n.
Proof. intros n. cbn [nofnat QN RN]. apply Q2R_inject_nat. Qed.

Ltac q2r :=
  first [ exact Q2R_QN_0 | exact Q2R_QN_1 | exact Q2R_QN_add | exact Q2R_QN_sub
        | exact Q2R_QN_mul | exact Q2R_QN_div | exact Q2R_QN_opp | exact Q2R_QN_leb
        | exact Q2R_QN_ltb | exact Q2R_QN_ofnat ].

Local Notation VQ := (map Q2R).
Local Notation MQ := (map (map Q2R)).
Local Notation RQ r := (match r with Ok v => Ok (VQ v) | Err e => Err e end).

Theorem kktb_Q_to_R : forall G u w, kktb RN (MQ G) (VQ u) (VQ w) = kktb QN G u w.
Proof. intros G u w. apply (kktb_hom QN RN Q2R); q2r. Qed.

Theorem agg_mean_Q_to_R' : forall J, agg_mean RN (MQ J) = VQ (agg_mean QN J).
Proof. intros J. apply (agg_mean_hom QN RN Q2R); q2r. Qed.

Theorem agg_sum_Q_to_R' : forall J, agg_sum RN (MQ J) = VQ (agg_sum QN J).
Proof. intros J. apply (agg_sum_hom QN RN Q2R); q2r. Qed.

Theorem agg_constant_Q_to_R' : forall w J,
  agg_constant RN (VQ w) (MQ J) = RQ (agg_constant QN w J).
Proof. intros w J. apply (agg_constant_hom QN RN Q2R); q2r. Qed.

Theorem agg_random_Q_to_R : forall e J, agg_random RN (VQ e) (MQ J) = VQ (agg_random QN e J).
Proof. intros e J. apply (agg_random_hom QN RN Q2R); q2r. Qed.

Theorem agg_dualproj_Q_to_R : forall qpQ qpR,
  (forall G u, qpR (MQ G) (VQ u) = VQ (qpQ G u)) ->
  forall pref s norm_eps reg_eps J,
  agg_dualproj RN qpR (option_map VQ pref) (Q2R s) (Q2R norm_eps) (Q2R reg_eps) (MQ J)
  = RQ (agg_dualproj QN qpQ pref s norm_eps reg_eps J).
Proof.
  intros qpQ qpR Hqp pref s norm_eps reg_eps J.
  apply (agg_dualproj_hom QN RN Q2R); first [q2r | exact Hqp].
Qed.

Theorem agg_upgrad_Q_to_R : forall qpQ qpR,
  (forall G u, qpR (MQ G) (VQ u) = VQ (qpQ G u)) ->
  forall pref s norm_eps reg_eps J,
  agg_upgrad RN qpR (option_map VQ pref) (Q2R s) (Q2R norm_eps) (Q2R reg_eps) (MQ J)
  = RQ (agg_upgrad QN qpQ pref s norm_eps reg_eps J).
Proof.
  intros qpQ qpR Hqp pref s norm_eps reg_eps J.
  apply (agg_upgrad_hom QN RN Q2R); first [q2r | exact Hqp].
Qed.

Theorem agg_mgda_Q_to_R : forall eps iters J,
  agg_mgda RN (Q2R eps) iters (MQ J) = VQ (agg_mgda QN eps iters J).
Proof. intros eps iters J. apply (agg_mgda_hom QN RN Q2R); q2r. Qed.

Theorem agg_pcgrad_Q_to_R : forall perms J,
  agg_pcgrad RN perms (MQ J) = VQ (agg_pcgrad QN perms J).
Proof. intros perms J. apply (agg_pcgrad_hom QN RN Q2R); q2r. Qed.

Theorem agg_graddrop_Q_to_R : forall leak U0 J,
  agg_graddrop RN (option_map VQ leak) (VQ U0) (MQ J) = RQ (agg_graddrop QN leak U0 J).
Proof. intros leak U0 J. apply (agg_graddrop_hom QN RN Q2R); q2r. Qed.

Theorem agg_trimmed_mean_Q_to_R : forall b J,
  agg_trimmed_mean RN b (MQ J) = RQ (agg_trimmed_mean QN b J).
Proof. intros b J. apply (agg_trimmed_mean_hom QN RN Q2R); q2r. Qed.

(* the same facts in the [agg_hom] form consumed by run_Q_to_R / backward_Q_to_R / mtl_Q_to_R
   of TransferProofs.v *)
Theorem agg_mgda_agg_hom_Q_to_R : forall eps iters,
  agg_hom Q2R (fun J => Ok (agg_mgda QN eps iters J)) (fun J => Ok (agg_mgda RN (Q2R eps) iters J)).
Proof. intros eps iters J. cbv beta. apply f_equal. exact (agg_mgda_Q_to_R eps iters J). Qed.

Theorem agg_pcgrad_agg_hom_Q_to_R : forall perms,
  agg_hom Q2R (fun J => Ok (agg_pcgrad QN perms J)) (fun J => Ok (agg_pcgrad RN perms J)).
Proof. intros perms J. cbv beta. apply f_equal. exact (agg_pcgrad_Q_to_R perms J). Qed.

Theorem agg_random_agg_hom_Q_to_R : forall e,
  agg_hom Q2R (fun J => Ok (agg_random QN e J)) (fun J => Ok (agg_random RN (VQ e) J)).
Proof. intros e J. cbv beta. apply f_equal. exact (agg_random_Q_to_R e J). Qed.

Theorem agg_trimmed_mean_agg_hom_Q_to_R : forall b,
  agg_hom Q2R (agg_trimmed_mean QN b) (agg_trimmed_mean RN b).
Proof. intros b J. exact (agg_trimmed_mean_Q_to_R b J). Qed.

Theorem agg_graddrop_agg_hom_Q_to_R : forall leak U0,
  agg_hom Q2R (agg_graddrop QN leak U0) (agg_graddrop RN (option_map VQ leak) (VQ U0)).
Proof. intros leak U0 J. exact (agg_graddrop_Q_to_R leak U0 J). Qed.

Theorem agg_dualproj_agg_hom_Q_to_R : forall qpQ qpR,
  (forall G u, qpR (MQ G) (VQ u) = VQ (qpQ G u)) ->
  forall pref s norm_eps reg_eps,
  agg_hom Q2R (agg_dualproj QN qpQ pref s norm_eps reg_eps)
              (agg_dualproj RN qpR (option_map VQ pref) (Q2R s) (Q2R norm_eps) (Q2R reg_eps)).
Proof.
  intros qpQ qpR Hqp pref s norm_eps reg_eps J.
  exact (agg_dualproj_Q_to_R qpQ qpR Hqp pref s norm_eps reg_eps J).
Qed.

Theorem agg_upgrad_agg_hom_Q_to_R : forall qpQ qpR,
  (forall G u, qpR (MQ G) (VQ u) = VQ (qpQ G u)) ->
  forall pref s norm_eps reg_eps,
  agg_hom Q2R (agg_upgrad QN qpQ pref s norm_eps reg_eps)
              (agg_upgrad RN qpR (option_map VQ pref) (Q2R s) (Q2R norm_eps) (Q2R reg_eps)).
Proof.
  intros qpQ qpR Hqp pref s norm_eps reg_eps J.
  exact (agg_upgrad_Q_to_R qpQ qpR Hqp pref s norm_eps reg_eps J).
Qed.

(* weight-level and certificate-level instances *)
Theorem mgda_weights_Q_to_R : forall G eps iters,
  mgda_weights RN (MQ G) (Q2R eps) iters = VQ (mgda_weights QN G eps iters).
Proof. intros G eps iters. apply (mgda_weights_hom QN RN Q2R); q2r. Qed.

Theorem pcgrad_weights_Q_to_R : forall G perms,
  VQ (pcgrad_weights QN G perms) = pcgrad_weights RN (MQ G) perms.
Proof. intros G perms. apply (pcgrad_weights_hom QN RN Q2R); q2r. Qed.

Theorem gram_Q_to_R : forall J, MQ (gram QN J) = gram RN (MQ J).
Proof. intros J. apply (gram_hom QN RN Q2R); q2r. Qed.

Theorem reg_norm_gramian_Q_to_R : forall G s norm_eps reg_eps,
  MQ (reg_norm_gramian QN G s norm_eps reg_eps)
  = reg_norm_gramian RN (MQ G) (Q2R s) (Q2R norm_eps) (Q2R reg_eps).
Proof. intros G s ne re. apply (reg_norm_gramian_hom QN RN Q2R); q2r. Qed.

Print Assumptions argmin_hom.
Print Assumptions all_leb0_hom.
Print Assumptions mmul_hom.
Print Assumptions transpose_hom.
Print Assumptions nmax_hom.
Print Assumptions nmin_hom.
Print Assumptions vsub_hom.
Print Assumptions vones_hom.
Print Assumptions agg_sum_hom.
Print Assumptions weighted_hom.
Print Assumptions reg_norm_gramian_hom.
Print Assumptions mgda_weights_hom.
Print Assumptions pcgrad_weights_hom.
Print Assumptions upgrad_weights_hom.
Print Assumptions dualproj_weights_hom.
Print Assumptions quadform_hom.
Print Assumptions combine_rows_hom.
Print Assumptions gram_hom.
Print Assumptions kktb_hom.
Print Assumptions agg_mean_hom.
Print Assumptions agg_constant_hom.
Print Assumptions agg_random_hom.
Print Assumptions agg_dualproj_hom.
Print Assumptions agg_upgrad_hom.
Print Assumptions agg_mgda_hom.
Print Assumptions agg_pcgrad_hom.
Print Assumptions agg_graddrop_hom.
Print Assumptions agg_trimmed_mean_hom.
Print Assumptions krum_weights_of_dist_hom.
Print Assumptions Q2R_QN_div.
Print Assumptions kktb_Q_to_R.
Print Assumptions agg_random_Q_to_R.
Print Assumptions agg_dualproj_Q_to_R.
Print Assumptions agg_upgrad_Q_to_R.
Print Assumptions agg_mgda_Q_to_R.
Print Assumptions agg_pcgrad_Q_to_R.
Print Assumptions agg_graddrop_Q_to_R.
Print Assumptions agg_trimmed_mean_Q_to_R.
Print Assumptions agg_mean_Q_to_R'.
Print Assumptions agg_sum_Q_to_R'.
Print Assumptions agg_constant_Q_to_R'.
Print Assumptions agg_mgda_agg_hom_Q_to_R.
Print Assumptions agg_pcgrad_agg_hom_Q_to_R.
Print Assumptions agg_random_agg_hom_Q_to_R.
Print Assumptions agg_trimmed_mean_agg_hom_Q_to_R.
Print Assumptions agg_graddrop_agg_hom_Q_to_R.
Print Assumptions agg_dualproj_agg_hom_Q_to_R.
Print Assumptions agg_upgrad_agg_hom_Q_to_R.
Print Assumptions mgda_weights_Q_to_R.
Print Assumptions pcgrad_weights_Q_to_R.
Print Assumptions gram_Q_to_R.
Print Assumptions reg_norm_gramian_Q_to_R.
